(* Proofs/C08_anon.v — property C08, anonymity and independence of representation.
   The electorate is the weight measure on ballot contents ([dist_eq], Spec/Anon.v); every tally is
   a weight-linear functional of that measure, hence invariant under reordering, splitting, merging
   and condensing; rankings derived from tallies agree as sequences of sets. *)
From Coq Require Import List ZArith QArith Bool Permutation Lia Lqa Setoid Morphisms Sorting.Sorted.
From VK Require Import Base Core STV Pairwise Rules.
From VK.Spec Require Import Content ScoreSpec EditSpec Anon.
From VK.Proofs Require Import Lib_sets Lib_content Lib_condense C11_condense C04_scoring C12_edit.
Import ListNotations.
Open Scope Q_scope.

Section Anon.
Variable cand : Type.
Variable ceqb : cand -> cand -> bool.
Hypothesis ceqb_spec : forall a b, reflect (a = b) (ceqb a b).

Notation cset := (cset cand).
Notation ranking := (ranking cand).
Notation scores := (scores cand).
Notation ballot := (ballot cand).
Notation profile := (profile cand).
Notation same := (same_content cand ceqb).
Notation wtof := (wtof cand ceqb).
Notation dist_eq := (dist_eq cand ceqb).
Notation condense_bs := (condense_bs cand ceqb).
Notation distinct := (distinct_contents cand ceqb).
Notation memb := (memb cand ceqb).
Notation ranking_eqb := (ranking_eqb cand ceqb).
Notation flat := (flat cand).

Let same_refl := Lib_content.same_refl cand ceqb ceqb_spec.
Let same_sym := Lib_content.same_sym cand ceqb.
Let same_trans := Lib_content.same_trans cand ceqb ceqb_spec.

(* ------------------------------------------------------------------ *)
(** * [dist_eq]: an equivalence containing reordering, splitting, merging, condensing *)

Lemma dist_eq_refl : forall bs, dist_eq bs bs.
Proof. intros bs k. reflexivity. Qed.
Lemma dist_eq_sym : forall bs bs', dist_eq bs bs' -> dist_eq bs' bs.
Proof. intros bs bs' H k. symmetry. apply H. Qed.
Lemma dist_eq_trans : forall a b c, dist_eq a b -> dist_eq b c -> dist_eq a c.
Proof. intros a b c H1 H2 k. rewrite (H1 k). apply H2. Qed.

Lemma dist_eq_perm : forall bs bs', Permutation bs bs' -> dist_eq bs bs'.
Proof. intros bs bs' H k. apply wtof_perm. exact H. Qed.

Lemma dist_eq_app : forall a a' b b', dist_eq a a' -> dist_eq b b' -> dist_eq (a ++ b) (a' ++ b').
Proof. intros a a' b b' Ha Hb k. rewrite !wtof_app, (Ha k), (Hb k). reflexivity. Qed.

Lemma dist_eq_condense : forall bs, dist_eq bs (condense_bs bs).
Proof. intros bs k. symmetry. apply condense_weights. exact ceqb_spec. Qed.

(* the weight that several ballots of the content of [b] give to a content *)
Lemma wtof_parts : forall k b parts,
  Forall (fun x => same b x = true) parts ->
  wtof k parts == if same k b then qsum (map wt parts) else 0.
Proof.
  intros k b parts H. induction H as [|x parts Hx _ IH].
  - rewrite wtof_nil. destruct (same k b); reflexivity.
  - rewrite wtof_cons. cbn [map]. rewrite Lib_content.qsum_cons.
    assert (E : same k x = same k b).
    { symmetry. apply (Lib_content.same_congr_r cand ceqb ceqb_spec). exact Hx. }
    rewrite E. destruct (same k b); rewrite IH; reflexivity.
Qed.

(* splitting one ballot into several of the same content whose weights add up to its weight
   (read right to left: merging) *)
Lemma dist_eq_split : forall pre b post parts,
  Forall (fun x => same b x = true) parts ->
  qsum (map wt parts) == wt b ->
  dist_eq (pre ++ b :: post) (pre ++ parts ++ post).
Proof.
  intros pre b post parts Hparts Hsum k.
  rewrite !wtof_app, wtof_cons, (wtof_parts k b parts Hparts).
  destruct (same k b); rewrite ?Hsum; ring.
Qed.

Lemma dist_eq_merge : forall pre b post parts,
  Forall (fun x => same b x = true) parts ->
  qsum (map wt parts) == wt b ->
  dist_eq (pre ++ parts ++ post) (pre ++ b :: post).
Proof. intros. apply dist_eq_sym, dist_eq_split; assumption. Qed.

(* zero-weight ballots are invisible *)
Lemma dist_eq_drop_zero : forall (f : ballot -> bool) bs,
  (forall b, In b bs -> f b = false -> wt b == 0) -> dist_eq bs (filter f bs).
Proof.
  intros f bs H k. induction bs as [|b bs IH]; [reflexivity|].
  cbn [filter]. assert (IH' : wtof k bs == wtof k (filter f bs)).
  { apply IH. intros x Hx. apply H. right. exact Hx. }
  destruct (f b) eqn:E.
  - rewrite !wtof_cons. destruct (same k b); rewrite IH'; reflexivity.
  - rewrite wtof_cons. destruct (same k b); [|exact IH'].
    rewrite (H b (or_introl eq_refl) E), IH'. ring.
Qed.

(* ------------------------------------------------------------------ *)
(** * Weight-linear functionals only see the measure *)

Section Measure.
Variable P : ranking -> scores -> Prop.
Variable g : ranking -> scores -> Q.
Hypothesis g_compat : forall k b : ballot,
  P (rk k) (sc k) -> P (rk b) (sc b) -> same k b = true -> g (rk k) (sc k) == g (rk b) (sc b).

Notation Pb := (fun b : ballot => P (rk b) (sc b)).
Notation gb := (fun b : ballot => g (rk b) (sc b)).
Notation wsum := (wsum cand g).

(* among pairwise distinct contents exactly one matches [b] *)
Lemma pick_rep : forall (F : ballot -> Q) reps k0 b,
  distinct reps -> In k0 reps -> same k0 b = true ->
  qsum (map (fun k => if same k b then F k else 0) reps) == F k0.
Proof.
  intros F reps k0 b. induction reps as [|k reps IH]; intros Hd Hin Hk0; [destruct Hin|].
  apply distinct_cons_iff in Hd. destruct Hd as [Hk Hd]. rewrite Forall_forall in Hk.
  cbn [map]. rewrite Lib_content.qsum_cons. destruct Hin as [->|Hin].
  - rewrite Hk0.
    rewrite (qsum_map_ext_in _ (fun _ => 0) reps).
    + rewrite qsum_map_const. ring.
    + intros x Hx. destruct (same x b) eqn:E; [|reflexivity].
      exfalso. pose proof (Hk x Hx) as Hf.
      assert (T : same k0 x = true).
      { apply (same_trans k0 b x Hk0). rewrite same_sym. exact E. }
      rewrite T in Hf. discriminate.
  - destruct (same k b) eqn:E.
    + exfalso. pose proof (Hk k0 Hin) as Hf.
      assert (T : same k k0 = true).
      { apply (same_trans k b k0 E). rewrite same_sym. exact Hk0. }
      rewrite T in Hf. discriminate.
    + rewrite IH by assumption. ring.
Qed.

(* decomposition over a list of representatives *)
Lemma wsum_decompose : forall reps bs,
  distinct reps -> Forall Pb reps -> Forall Pb bs ->
  (forall b, In b bs -> covers cand ceqb reps b) ->
  wsum bs == qsum (map (fun k => wtof k bs * gb k) reps).
Proof.
  intros reps bs Hd HPr. induction bs as [|b bs IH]; intros HPb Hcov.
  - unfold Lib_condense.wsum. cbn [map]. rewrite Lib_content.qsum_nil. symmetry.
    apply qsum_map_zero. intros k _. rewrite wtof_nil. ring.
  - inversion HPb as [|x l HPb1 HPb2]; subst.
    rewrite wsum_cons, IH; [|exact HPb2|intros x Hx; apply Hcov; right; exact Hx].
    rewrite (qsum_map_ext_in (fun k => wtof k (b :: bs) * gb k)
               (fun k => (if same k b then wt b * gb k else 0) + wtof k bs * gb k) reps).
    + rewrite qsum_map_plus. apply Qplus_inj_r.
      destruct (Hcov b (or_introl eq_refl)) as [k0 [Hk0 Hs]].
      rewrite (pick_rep (fun k => wt b * gb k) reps k0 b Hd Hk0 Hs). cbv beta.
      rewrite Forall_forall in HPr.
      rewrite (g_compat k0 b (HPr k0 Hk0) HPb1 Hs). reflexivity.
    + intros k _. rewrite wtof_cons. destruct (same k b); ring.
Qed.

(* THE measure lemma *)
Theorem wsum_dist_eq : forall bs bs',
  Forall Pb bs -> Forall Pb bs' -> dist_eq bs bs' -> wsum bs == wsum bs'.
Proof.
  intros bs bs' HP HP' Hde.
  set (reps := condense_bs (bs ++ bs')).
  assert (HPall : Forall Pb (bs ++ bs')) by (apply Forall_app; split; assumption).
  assert (HPr : Forall Pb reps) by (apply (condense_bs_Forall cand ceqb P); exact HPall).
  assert (Hd : distinct reps) by apply condense_distinct.
  assert (Hc : forall b, In b (bs ++ bs') -> covers cand ceqb reps b).
  { intros b Hb. apply condense_covers; assumption. }
  rewrite (wsum_decompose reps bs Hd HPr HP)
    by (intros b Hb; apply Hc, in_or_app; left; exact Hb).
  rewrite (wsum_decompose reps bs' Hd HPr HP')
    by (intros b Hb; apply Hc, in_or_app; right; exact Hb).
  apply qsum_map_ext_in. intros k _. rewrite (Hde k). reflexivity.
Qed.

End Measure.

(* ------------------------------------------------------------------ *)
(** * Tallies *)

Notation alloc_of := (alloc_of cand ceqb).
Notation group_allocs := (group_allocs cand).
Notation score_of := (score_of cand ceqb).
Notation wf_profile := (wf_profile cand).
Notation wsum := (Lib_condense.wsum cand).

Definition nodup_rk (r : ranking) (_ : scores) : Prop := NoDup (flat r).
Definition any_content (_ : ranking) (_ : scores) : Prop := True.

Lemma any_content_all : forall bs : list ballot, Forall (fun b => any_content (rk b) (sc b)) bs.
Proof. intros bs. apply Forall_forall. intros b _. exact I. Qed.

Lemma same_rk : forall k b : ballot, same k b = true -> ranking_eqb (rk k) (rk b) = true.
Proof. intros k b H. apply same_iff in H. apply H. Qed.
Lemma same_sc : forall k b : ballot, same k b = true -> scores_eqb cand ceqb (sc k) (sc b) = true.
Proof. intros k b H. apply same_iff in H. apply H. Qed.

Lemma ranking_eqb_memb_flat : forall r1 r2 c,
  ranking_eqb r1 r2 = true -> memb c (flat r1) = memb c (flat r2).
Proof.
  intros r1 r2 c H.
  pose proof (ranking_eqb_flat_incl cand ceqb ceqb_spec r1 r2 H) as H12.
  rewrite (Lib_sets.ranking_eqb_sym cand ceqb) in H.
  pose proof (ranking_eqb_flat_incl cand ceqb ceqb_spec r2 r1 H) as H21.
  destruct (memb_reflect cand ceqb ceqb_spec c (flat r1)) as [H1|H1];
  destruct (memb_reflect cand ceqb ceqb_spec c (flat r2)) as [H2|H2]; try reflexivity.
  - exfalso. apply H2, H12, H1.
  - exfalso. apply H1, H21, H2.
Qed.

(* the points a candidate receives from a ranking do not depend on how its position groups are
   listed *)
Lemma group_allocs_eqb : forall r1 r2 v c,
  NoDup (flat r1) -> NoDup (flat r2) -> ranking_eqb r1 r2 = true ->
  alloc_of c (group_allocs v r1) == alloc_of c (group_allocs v r2).
Proof.
  induction r1 as [|s1 r1 IH]; intros [|s2 r2] v c H1 H2 Heq; try discriminate; [reflexivity|].
  cbn [Core.ranking_eqb] in Heq. apply andb_true_iff in Heq. destruct Heq as [Hs Hr].
  rewrite (flat_cons cand) in H1, H2.
  destruct (NoDup_app_inv _ _ H1) as [Hs1 [Hr1 _]]. destruct (NoDup_app_inv _ _ H2) as [Hs2 [Hr2 _]].
  cbn [Core.group_allocs].
  rewrite !alloc_of_app, !(alloc_of_const_group cand ceqb ceqb_spec) by assumption.
  rewrite (cset_eqb_memb cand ceqb ceqb_spec s1 s2 c Hs).
  rewrite (cset_eqb_length cand ceqb ceqb_spec s1 s2 Hs1 Hs2 Hs).
  rewrite (IH r2 (skipn (length s2) v) c Hr1 Hr2 Hr). reflexivity.
Qed.

(* C08, scoring utilities: the score of a candidate under any score vector *)
Theorem scores_anonymous : forall bs bs' v c,
  Forall (fun b => NoDup (flat (rk b))) bs -> Forall (fun b => NoDup (flat (rk b))) bs' ->
  dist_eq bs bs' -> score_of v bs c == score_of v bs' c.
Proof.
  intros bs bs' v c H H' Hde.
  apply (wsum_dist_eq nodup_rk (fun r _ => alloc_of c (group_allocs v r))); try assumption.
  intros k b Hk Hb Hs. apply group_allocs_eqb; [exact Hk|exact Hb|apply same_rk; exact Hs].
Qed.

Theorem total_wt_anonymous : forall bs bs', dist_eq bs bs' -> total_wt cand bs == total_wt cand bs'.
Proof.
  intros bs bs' Hde.
  assert (E : forall l : list ballot, total_wt cand l == wsum (fun _ _ => 1) l).
  { intros l. unfold Core.total_wt, Lib_condense.wsum. apply qsum_map_ext_in. intros b _. ring. }
  rewrite !E. apply (wsum_dist_eq any_content); try apply any_content_all; [|exact Hde].
  intros k b _ _ _. reflexivity.
Qed.

(* pairwise counts *)
Lemma prefers_eqb : forall r1 r2 a b, ranking_eqb r1 r2 = true ->
  prefers cand ceqb a b r1 = prefers cand ceqb a b r2.
Proof.
  induction r1 as [|s1 r1 IH]; intros [|s2 r2] a b Heq; try discriminate; [reflexivity|].
  cbn [Core.ranking_eqb] in Heq. apply andb_true_iff in Heq. destruct Heq as [Hs Hr].
  cbn [Pairwise.prefers]. rewrite !(cset_eqb_memb cand ceqb ceqb_spec s1 s2 _ Hs).
  rewrite (IH r2 a b Hr). reflexivity.
Qed.

Theorem h2h_anonymous : forall bs bs' a b, dist_eq bs bs' ->
  h2h cand ceqb bs a b == h2h cand ceqb bs' a b.
Proof.
  intros bs bs' a b Hde.
  assert (E : forall l : list ballot,
    h2h cand ceqb l a b == wsum (fun r _ => if prefers cand ceqb a b r then 1 else 0) l).
  { intros l. unfold Pairwise.h2h, Lib_condense.wsum. apply qsum_map_ext_in. intros x _.
    destruct (prefers cand ceqb a b (rk x)); ring. }
  rewrite !E. apply (wsum_dist_eq any_content); try apply any_content_all; [|exact Hde].
  intros k x _ _ Hs. rewrite (prefers_eqb (rk k) (rk x) a b (same_rk k x Hs)). reflexivity.
Qed.

(* mentions *)
Lemma mentions_sum_anonymous : forall bs bs' c, dist_eq bs bs' ->
  qsum (map (fun b : ballot => if memb c (flat (rk b)) then wt b else 0) bs) ==
  qsum (map (fun b : ballot => if memb c (flat (rk b)) then wt b else 0) bs').
Proof.
  intros bs bs' c Hde.
  assert (E : forall l : list ballot,
    qsum (map (fun b : ballot => if memb c (flat (rk b)) then wt b else 0) l)
    == wsum (fun r _ => if memb c (flat r) then 1 else 0) l).
  { intros l. unfold Lib_condense.wsum. apply qsum_map_ext_in. intros x _.
    destruct (memb c (flat (rk x))); ring. }
  rewrite !E. apply (wsum_dist_eq any_content); try apply any_content_all; [|exact Hde].
  intros k x _ _ Hs. rewrite (ranking_eqb_memb_flat (rk k) (rk x) c (same_rk k x Hs)). reflexivity.
Qed.

(* ballot scores *)
Lemma lookup0_in : forall (d : scores) c q, NoDup (map fst d) -> In (c, q) d ->
  lookup0 cand ceqb c d = q.
Proof.
  intros d c q. unfold Core.lookup0, Core.lookup. induction d as [|[c0 q0] d IH]; intros Hnd Hin.
  - destruct Hin.
  - cbn [map fst] in Hnd. inversion Hnd as [|x l Hnotin Hnd']; subst.
    cbn [find fst snd]. destruct (ceqb_spec c c0) as [->|Hne].
    + destruct Hin as [Heq|Hin]; [inversion Heq; reflexivity|].
      exfalso. apply Hnotin. apply (in_map fst) in Hin. exact Hin.
    + destruct Hin as [Heq|Hin]; [inversion Heq; subst; exfalso; apply Hne; reflexivity|].
      apply IH; assumption.
Qed.
Lemma lookup0_notin : forall (d : scores) c, ~ In c (map fst d) -> lookup0 cand ceqb c d = 0.
Proof.
  intros d c. unfold Core.lookup0, Core.lookup. induction d as [|[c0 q0] d IH]; intros Hnotin.
  - reflexivity.
  - cbn [find fst snd]. destruct (ceqb_spec c c0) as [->|Hne].
    + exfalso. apply Hnotin. left. reflexivity.
    + apply IH. intros H. apply Hnotin. right. exact H.
Qed.
Lemma in_keys_pair : forall (d : scores) c, In c (map fst d) -> exists q, In (c, q) d.
Proof.
  intros d c H. apply in_map_iff in H. destruct H as [[c' q] [Hc Hin]]. cbn [fst] in Hc. subst c'.
  exists q. exact Hin.
Qed.

Lemma lookup0_eqb : forall d1 d2 c, NoDup (map fst d1) -> NoDup (map fst d2) ->
  scores_eqb cand ceqb d1 d2 = true -> lookup0 cand ceqb c d1 == lookup0 cand ceqb c d2.
Proof.
  intros d1 d2 c H1 H2 Heq. apply (scores_eqb_iff cand ceqb ceqb_spec) in Heq.
  destruct Heq as [H12 H21].
  destruct (in_dec (cand_eq_dec cand ceqb ceqb_spec) c (map fst d1)) as [Hin|Hnin].
  - destruct (in_keys_pair d1 c Hin) as [q Hq].
    destruct (H12 _ Hq) as [[c' q'] [Hq' [Hc Hv]]]. cbn [fst snd] in Hc, Hv. subst c'.
    rewrite (lookup0_in d1 c q H1 Hq), (lookup0_in d2 c q' H2 Hq'). exact Hv.
  - rewrite (lookup0_notin d1 c Hnin), lookup0_notin; [reflexivity|].
    intros Hin2. destruct (in_keys_pair d2 c Hin2) as [q Hq].
    destruct (H21 _ Hq) as [[c' q'] [Hq' [Hc _]]]. cbn [fst] in Hc. subst c'.
    apply Hnin. apply (in_map fst) in Hq'. exact Hq'.
Qed.

Definition nodup_sc (_ : ranking) (d : scores) : Prop := NoDup (map fst d).

Lemma rated_sum_anonymous : forall bs bs' c,
  Forall (fun b => NoDup (map fst (sc b))) bs -> Forall (fun b => NoDup (map fst (sc b))) bs' ->
  dist_eq bs bs' ->
  qsum (map (fun b : ballot => lookup0 cand ceqb c (sc b) * wt b) bs) ==
  qsum (map (fun b : ballot => lookup0 cand ceqb c (sc b) * wt b) bs').
Proof.
  intros bs bs' c H H' Hde.
  assert (E : forall l : list ballot,
    qsum (map (fun b : ballot => lookup0 cand ceqb c (sc b) * wt b) l)
    == wsum (fun _ d => lookup0 cand ceqb c d) l).
  { intros l. unfold Lib_condense.wsum. apply qsum_map_ext_in. intros x _. ring. }
  rewrite !E. apply (wsum_dist_eq nodup_sc); try assumption.
  intros k x Hk Hx Hs. apply lookup0_eqb; [exact Hk|exact Hx|apply same_sc; exact Hs].
Qed.

(* ------------------------------------------------------------------ *)
(** * The scoring utilities on profiles *)

Notation profile_equiv := (profile_equiv cand ceqb).
Notation scores_equiv := (scores_equiv cand).
Notation groups_equiv := (groups_equiv cand).
Notation wf_rated_profile := (wf_rated_profile cand).

Lemma wf_profile_nodup_rk : forall p, wf_profile p ->
  Forall (fun b : ballot => nodup_rk (rk b) (sc b)) (ballots p).
Proof.
  intros p [_ H]. rewrite Forall_forall in H |- *. intros b Hb.
  destruct (H b Hb) as [_ [_ [Hnd _]]]. exact Hnd.
Qed.

Lemma keys_of_map : forall (F : cand -> Q) (cs : cset), map fst (map (fun c => (c, F c)) cs) = cs.
Proof. intros F cs. rewrite map_map. cbn [fst]. apply map_id. Qed.

Lemma scores_equiv_map : forall (F F' : cand -> Q) (cs cs' : cset),
  Permutation cs cs' -> (forall c, In c cs -> F c == F' c) ->
  scores_equiv (map (fun c => (c, F c)) cs) (map (fun c => (c, F' c)) cs').
Proof.
  intros F F' cs cs' Hperm HF. split.
  - rewrite !keys_of_map. exact Hperm.
  - intros c q q' Hq Hq'. apply in_map_iff in Hq. destruct Hq as [c1 [E1 H1]].
    apply in_map_iff in Hq'. destruct Hq' as [c2 [E2 H2]].
    inversion E1; subst. inversion E2; subst. apply HF. exact H1.
Qed.

Lemma scores_equiv_refl : forall d : scores, NoDup (map fst d) -> scores_equiv d d.
Proof.
  intros d Hnd. split; [apply Permutation_refl|].
  intros c q q' Hq Hq'. rewrite (NoDup_keys_functional cand d c q q' Hnd Hq Hq'). reflexivity.
Qed.

Lemma ballot_alloc_eqb : forall cs cs' r1 r2 v c, length cs = length cs' ->
  NoDup (flat r1) -> NoDup (flat r2) -> ranking_eqb r1 r2 = true ->
  ballot_alloc cand ceqb cs v r1 c = ballot_alloc cand ceqb cs' v r2 c.
Proof.
  intros cs cs' r1 r2 v c Hlen H1 H2 Heq. unfold ScoreSpec.ballot_alloc.
  rewrite (ranking_eqb_memb_flat r1 r2 c Heq).
  rewrite (ranking_eqb_flat_length cand ceqb ceqb_spec r1 r2 H1 H2 Heq).
  rewrite (listed_alloc_eqb cand ceqb ceqb_spec r1 r2 v 0 c H1 H2 Heq), Hlen. reflexivity.
Qed.

Theorem score_rankings_anonymous : forall p p' v,
  wf_profile p -> wf_profile p' -> profile_equiv p p' ->
  res_equiv scores_equiv (score_rankings cand ceqb p v) (score_rankings cand ceqb p' v).
Proof.
  intros p p' v Hwf Hwf' [Hde Hperm].
  destruct (validate_vector v) as [[]|e] eqn:Hv.
  - destruct (score_rankings_succeeds cand ceqb ceqb_spec p v Hwf Hv) as [d Hd].
    destruct (score_rankings_succeeds cand ceqb ceqb_spec p' v Hwf' Hv) as [d' Hd'].
    rewrite Hd, Hd'. cbn [res_equiv]. split.
    + rewrite (score_rankings_keys cand ceqb p v d Hd), (score_rankings_keys cand ceqb p' v d' Hd').
      exact Hperm.
    + intros c q q' Hq Hq'.
      rewrite (score_rankings_definition cand ceqb ceqb_spec p v Hwf d Hd c q Hq).
      rewrite (score_rankings_definition cand ceqb ceqb_spec p' v Hwf' d' Hd' c q' Hq').
      pose proof (wf_profile_nodup_rk p Hwf) as Hn. pose proof (wf_profile_nodup_rk p' Hwf') as Hn'.
      transitivity (wsum (fun r _ => ballot_alloc cand ceqb (cands p) v r c) (ballots p'));
        [apply (wsum_dist_eq nodup_rk (fun r _ => ballot_alloc cand ceqb (cands p) v r c)); try assumption|].
      * intros k b Hk Hb Hs. rewrite (ballot_alloc_eqb (cands p) (cands p) (rk k) (rk b) v c eq_refl Hk Hb
                                        (same_rk k b Hs)). reflexivity.
      * unfold Lib_condense.wsum. apply qsum_map_ext_in. intros b Hb.
        rewrite Forall_forall in Hn'. pose proof (Hn' b Hb) as Hb'.
        rewrite (ballot_alloc_eqb (cands p) (cands p') (rk b) (rk b) v c (Permutation_length Hperm) Hb' Hb'
                   (Lib_sets.ranking_eqb_refl cand ceqb ceqb_spec (rk b))). reflexivity.
  - unfold Core.score_rankings. rewrite Hv. reflexivity.
Qed.

Theorem first_place_votes_anonymous : forall p p',
  wf_profile p -> wf_profile p' -> profile_equiv p p' ->
  res_equiv scores_equiv (first_place_votes cand ceqb p) (first_place_votes cand ceqb p').
Proof.
  intros p p' Hwf Hwf' He. unfold Core.first_place_votes.
  rewrite (Permutation_length (proj2 He)). apply score_rankings_anonymous; assumption.
Qed.

Theorem borda_scores_anonymous : forall p p',
  wf_profile p -> wf_profile p' -> profile_equiv p p' ->
  res_equiv scores_equiv (borda_scores cand ceqb p) (borda_scores cand ceqb p').
Proof.
  intros p p' Hwf Hwf' He. unfold Core.borda_scores.
  rewrite (Permutation_length (proj2 He)). apply score_rankings_anonymous; assumption.
Qed.

Theorem mentions_anonymous : forall p p',
  wf_profile p -> wf_profile p' -> profile_equiv p p' ->
  res_equiv scores_equiv (mentions cand ceqb p) (mentions cand ceqb p').
Proof.
  intros p p' Hwf Hwf' [Hde Hperm].
  destruct (mentions_succeeds cand ceqb ceqb_spec p Hwf) as [d Hd].
  destruct (mentions_succeeds cand ceqb ceqb_spec p' Hwf') as [d' Hd'].
  rewrite Hd, Hd'. cbn [res_equiv].
  destruct (mentions_special cand ceqb p d Hd) as [Hk Hv].
  destruct (mentions_special cand ceqb p' d' Hd') as [Hk' Hv'].
  split; [rewrite Hk, Hk'; exact Hperm|].
  intros c q q' Hq Hq'. rewrite (Hv c q Hq), (Hv' c q' Hq').
  apply mentions_sum_anonymous. exact Hde.
Qed.

Lemma score_from_scores_ok : forall p, wf_rated_profile p ->
  score_from_scores cand ceqb p =
  inl (map (fun c => (c, qsum (map (fun b : ballot => lookup0 cand ceqb c (sc b) * wt b) (ballots p))))
           (cands p)).
Proof.
  intros p [_ Hbs]. rewrite Forall_forall in Hbs. unfold Core.score_from_scores.
  destruct (existsb (fun b : ballot => negb (nonempty (sc b))) (ballots p)) eqn:E.
  { apply existsb_exists in E. destruct E as [b [Hb Hne]].
    destruct (Hbs b Hb) as [_ [Hsc _]]. destruct (sc b); [exfalso; apply Hsc; reflexivity|discriminate]. }
  destruct (forallb (fun b : ballot => subsetb cand ceqb (map fst (sc b)) (cands p)) (ballots p)) eqn:F.
  { reflexivity. }
  exfalso. assert (T : forallb (fun b : ballot => subsetb cand ceqb (map fst (sc b)) (cands p)) (ballots p) = true).
  { apply forallb_forall. intros b Hb. apply (subsetb_incl cand ceqb ceqb_spec).
    destruct (Hbs b Hb) as [_ [_ [_ Hincl]]]. exact Hincl. }
  rewrite T in F. discriminate.
Qed.

Lemma wf_rated_nodup_sc : forall p, wf_rated_profile p ->
  Forall (fun b : ballot => NoDup (map fst (sc b))) (ballots p).
Proof.
  intros p [_ H]. rewrite Forall_forall in H |- *. intros b Hb.
  destruct (H b Hb) as [_ [_ [Hnd _]]]. exact Hnd.
Qed.

Theorem score_from_scores_anonymous : forall p p',
  wf_rated_profile p -> wf_rated_profile p' -> profile_equiv p p' ->
  res_equiv scores_equiv (score_from_scores cand ceqb p) (score_from_scores cand ceqb p').
Proof.
  intros p p' Hwf Hwf' [Hde Hperm].
  rewrite (score_from_scores_ok p Hwf), (score_from_scores_ok p' Hwf'). cbn [res_equiv].
  apply scores_equiv_map; [exact Hperm|]. intros c _.
  apply rated_sum_anonymous; [apply wf_rated_nodup_sc; exact Hwf|apply wf_rated_nodup_sc; exact Hwf'|exact Hde].
Qed.

(* ------------------------------------------------------------------ *)
(** * From tallies to rankings *)

Lemma sdesc_unique : forall l l', sdesc l -> sdesc l' ->
  (forall x, In x l -> exists y, In y l' /\ x == y) ->
  (forall y, In y l' -> exists x, In x l /\ y == x) ->
  Forall2 Qeq l l'.
Proof.
  induction l as [|a l IH]; intros l' Hs Hs' H12 H21.
  - destruct l' as [|a' l']; [constructor|].
    destruct (H21 a' (or_introl eq_refl)) as [x [[] _]].
  - destruct l' as [|a' l'].
    { destruct (H12 a (or_introl eq_refl)) as [y [[] _]]. }
    inversion Hs as [|a0 l0 Hs1 Hlt]; subst. inversion Hs' as [|a0 l0 Hs1' Hlt']; subst.
    rewrite Forall_forall in Hlt, Hlt'.
    assert (Hle : a <= a').
    { destruct (H12 a (or_introl eq_refl)) as [y [[<-|Hy] Hay]]; [lra|].
      pose proof (Hlt' y Hy). lra. }
    assert (Hge : a' <= a).
    { destruct (H21 a' (or_introl eq_refl)) as [x [[<-|Hx] Hax]]; [lra|].
      pose proof (Hlt x Hx). lra. }
    assert (Heq : a == a') by lra.
    constructor; [exact Heq|]. apply IH; try assumption.
    + intros x Hx. destruct (H12 x (or_intror Hx)) as [y [[<-|Hy] Hxy]].
      * pose proof (Hlt x Hx). lra.
      * exists y. split; assumption.
    + intros y Hy. destruct (H21 y (or_intror Hy)) as [x [[<-|Hx] Hyx]].
      * pose proof (Hlt' y Hy). lra.
      * exists x. split; assumption.
Qed.

Lemma Forall2_rev : forall {A B} (R : A -> B -> Prop) l l',
  Forall2 R l l' -> Forall2 R (rev l) (rev l').
Proof.
  intros A B R l l' H. induction H as [|a b l l' Hab _ IH]; [constructor|].
  cbn [rev]. apply Forall2_app; [exact IH|constructor; [exact Hab|constructor]].
Qed.

Lemma Forall2_map2 : forall {A B C D} (R : A -> B -> Prop) (S : C -> D -> Prop) (f : A -> C) (g : B -> D) l l',
  (forall a b, R a b -> S (f a) (g b)) -> Forall2 R l l' -> Forall2 S (map f l) (map g l').
Proof.
  intros A B C D R S f g l l' HRS H. induction H as [|a b l l' Hab _ IH]; cbn [map]; constructor; auto.
Qed.

Lemma NoDup_keys_filter : forall (d : scores) (f : cand * Q -> bool),
  NoDup (map fst d) -> NoDup (map fst (filter f d)).
Proof.
  intros d f. induction d as [|p d IH]; intros H; [constructor|].
  cbn [map] in H. inversion H as [|x l Hnotin Hnd]; subst.
  cbn [filter]. destruct (f p); [|apply IH; exact Hnd].
  cbn [map]. constructor; [|apply IH; exact Hnd].
  intros Hin. apply Hnotin. apply in_map_iff in Hin. destruct Hin as [p' [E Hp']].
  apply filter_In in Hp'. rewrite <- E. apply in_map. apply Hp'.
Qed.

Lemma score_to_ranking_unfold_gen : forall (d : scores) hl, d <> [] ->
  score_to_ranking cand d hl =
  map (fun k => map fst (class_of cand d k))
      (if hl then distinct_desc (map snd d) else rev (distinct_desc (map snd d))).
Proof. intros [|p d] hl H; [exfalso; apply H; reflexivity|reflexivity]. Qed.

Lemma scores_equiv_partner : forall (d d' : scores) c q, scores_equiv d d' -> In (c, q) d ->
  exists q', In (c, q') d' /\ q == q'.
Proof.
  intros d d' c q [Hk Hv] Hq.
  assert (Hin : In c (map fst d')).
  { eapply Permutation_in; [exact Hk|]. apply (in_map fst) in Hq. exact Hq. }
  destruct (in_keys_pair d' c Hin) as [q' Hq']. exists q'. split; [exact Hq'|]. apply (Hv c q q' Hq Hq').
Qed.

Lemma scores_equiv_sym : forall d d' : scores, scores_equiv d d' -> scores_equiv d' d.
Proof.
  intros d d' [Hk Hv]. split; [apply Permutation_sym; exact Hk|].
  intros c q q' Hq Hq'. symmetry. apply (Hv c q' q Hq' Hq).
Qed.

Lemma keys_cover : forall (d d' : scores), scores_equiv d d' ->
  forall x, In x (distinct_desc (map snd d)) -> exists y, In y (distinct_desc (map snd d')) /\ x == y.
Proof.
  intros d d' He x Hx. apply distinct_desc_In in Hx. apply in_map_iff in Hx.
  destruct Hx as [[c q] [E Hq]]. cbn [snd] in E. subst q.
  destruct (scores_equiv_partner d d' c x He Hq) as [q' [Hq' Hxq]].
  destruct (distinct_desc_covers (map snd d') q') as [y [Hy Hqy]].
  { apply (in_map snd) in Hq'. exact Hq'. }
  exists y. split; [exact Hy|]. rewrite Hxq. exact Hqy.
Qed.

Lemma class_perm : forall (d d' : scores) k k', NoDup (map fst d) -> NoDup (map fst d') ->
  scores_equiv d d' -> k == k' ->
  Permutation (map fst (class_of cand d k)) (map fst (class_of cand d' k')).
Proof.
  intros d d' k k' Hnd Hnd' He Hk.
  apply NoDup_Permutation; try (apply NoDup_keys_filter; assumption).
  intros c. rewrite (in_class_of cand d k c Hnd), (in_class_of cand d' k' c Hnd'). split.
  - intros [q [Hq Hqk]]. destruct (scores_equiv_partner d d' c q He Hq) as [q' [Hq' Hqq]].
    exists q'. split; [exact Hq'|]. rewrite <- Hqq, Hqk. exact Hk.
  - intros [q [Hq Hqk]].
    destruct (scores_equiv_partner d' d c q (scores_equiv_sym d d' He) Hq) as [q' [Hq' Hqq]].
    exists q'. split; [exact Hq'|]. rewrite <- Hqq, Hqk. symmetry. exact Hk.
Qed.

(* C08: two score dictionaries with the same keys and [==] values give the same groups, as sets,
   in the same order *)
Theorem ranking_of_scores : forall (d d' : scores) hl,
  NoDup (map fst d) -> NoDup (map fst d') -> scores_equiv d d' ->
  groups_equiv (score_to_ranking cand d hl) (score_to_ranking cand d' hl).
Proof.
  intros d d' hl Hnd Hnd' He.
  destruct d as [|p0 d0] eqn:Ed.
  { destruct He as [Hk _]. cbn [map] in Hk. apply Permutation_nil in Hk.
    destruct d' as [|p' d']; [|discriminate]. cbn [Core.score_to_ranking]. constructor; [apply perm_nil|constructor]. }
  rewrite <- Ed in *. assert (Hne : d <> []) by (rewrite Ed; discriminate).
  assert (Hne' : d' <> []).
  { intros ->. destruct He as [Hk _]. cbn [map] in Hk. apply Permutation_sym, Permutation_nil in Hk.
    rewrite Ed in Hk. discriminate. }
  rewrite (score_to_ranking_unfold_gen d hl Hne), (score_to_ranking_unfold_gen d' hl Hne').
  assert (HK : Forall2 Qeq (distinct_desc (map snd d)) (distinct_desc (map snd d'))).
  { apply sdesc_unique; try apply distinct_desc_sorted.
    - apply keys_cover. exact He.
    - apply keys_cover. apply scores_equiv_sym. exact He. }
  apply (Forall2_map2 Qeq).
  - intros k k' Hk. apply class_perm; assumption.
  - destruct hl; [exact HK|apply Forall2_rev; exact HK].
Qed.

(* ------------------------------------------------------------------ *)
(** * Removing candidates *)

Notation strip := (strip cand ceqb).
Notation strip_scores := (strip_scores cand ceqb).
Notation scrub := (scrub cand ceqb).
Notation set_diff := (set_diff cand ceqb).
Notation remove_cand_bs := (remove_cand_bs cand ceqb).
Notation remove_cand_prof := (remove_cand_prof cand ceqb).
Notation nonneg_wts := (nonneg_wts cand).
Notation seteq := (seteq cand).
Notation score_free := (EditSpec.score_free cand).

Lemma memb_seteq : forall W W' c, seteq W W' -> memb c W = memb c W'.
Proof.
  intros W W' c H.
  destruct (memb_reflect cand ceqb ceqb_spec c W) as [H1|H1];
  destruct (memb_reflect cand ceqb ceqb_spec c W') as [H2|H2]; try reflexivity.
  - exfalso. apply H2, H, H1.
  - exfalso. apply H1, H, H2.
Qed.

Lemma strip_seteq : forall W W' r, seteq W W' -> strip W r = strip W' r.
Proof.
  intros W W' r H. unfold Core.strip. f_equal. apply map_ext. intros s.
  apply filter_ext. intros c. rewrite (memb_seteq W W' c H). reflexivity.
Qed.
Lemma strip_scores_seteq : forall W W' d, seteq W W' -> strip_scores W d = strip_scores W' d.
Proof.
  intros W W' d H. unfold Core.strip_scores. apply filter_ext. intros p.
  rewrite (memb_seteq W W' (fst p) H). reflexivity.
Qed.
Lemma scrub_seteq : forall W W' b, seteq W W' -> scrub W b = scrub W' b.
Proof.
  intros W W' b H. unfold Core.scrub.
  rewrite (strip_seteq W W' (rk b) H), (strip_scores_seteq W W' (sc b) H). reflexivity.
Qed.
Lemma set_diff_seteq : forall cs W W', seteq W W' -> set_diff cs W = set_diff cs W'.
Proof.
  intros cs W W' H. unfold Core.set_diff. apply filter_ext. intros c.
  rewrite (memb_seteq W W' c H). reflexivity.
Qed.

Lemma Permutation_filter_local : forall {A} (f : A -> bool) l l',
  Permutation l l' -> Permutation (filter f l) (filter f l').
Proof.
  intros A f l l' H. induction H as [|x l l' _ IH|x y l|l l' l'' _ IH1 _ IH2].
  - constructor.
  - cbn [filter]. destruct (f x); [constructor; exact IH|exact IH].
  - cbn [filter]. destruct (f x); destruct (f y); try apply Permutation_refl. apply perm_swap.
  - eapply Permutation_trans; eassumption.
Qed.

(* contents are pushed forward: matching contents stay matching *)
Lemma seteq_filter_nonempty : forall (f : cand -> bool) g g',
  (incl g g' /\ incl g' g) ->
  (incl (filter f g) (filter f g') /\ incl (filter f g') (filter f g)) /\
  nonempty (filter f g) = nonempty (filter f g').
Proof.
  intros f g g' [H1 H2].
  assert (I1 : incl (filter f g) (filter f g')).
  { intros c Hc. apply filter_In in Hc. apply filter_In. split; [apply H1|]; apply Hc. }
  assert (I2 : incl (filter f g') (filter f g)).
  { intros c Hc. apply filter_In in Hc. apply filter_In. split; [apply H2|]; apply Hc. }
  split; [split; assumption|].
  destruct (filter f g) as [|x l]; destruct (filter f g') as [|x' l']; try reflexivity.
  - destruct (I2 x' (or_introl eq_refl)).
  - destruct (I1 x (or_introl eq_refl)).
Qed.

Lemma strip_compat : forall W a b, ranking_eqb a b = true -> ranking_eqb (strip W a) (strip W b) = true.
Proof.
  intros W a b H. apply (Lib_sets.ranking_eqb_Forall2 cand ceqb ceqb_spec) in H.
  apply (Lib_sets.ranking_eqb_Forall2 cand ceqb ceqb_spec). unfold Core.strip.
  induction H as [|g g' a b Hg _ IH]; [constructor|].
  cbn [map filter].
  destruct (seteq_filter_nonempty (fun c => negb (memb c W)) g g' Hg) as [Hs Hn].
  rewrite <- Hn. destruct (nonempty (filter (fun c => negb (memb c W)) g)); [|exact IH].
  constructor; [exact Hs|exact IH].
Qed.

Lemma strip_scores_compat : forall W d1 d2, scores_eqb cand ceqb d1 d2 = true ->
  scores_eqb cand ceqb (strip_scores W d1) (strip_scores W d2) = true.
Proof.
  assert (Hone : forall W d1 d2, sincl cand d1 d2 -> sincl cand (strip_scores W d1) (strip_scores W d2)).
  { intros W d1 d2 H p Hp. unfold Core.strip_scores in Hp. apply filter_In in Hp. destruct Hp as [Hp Hf].
    destruct (H p Hp) as [p' [Hp' [E1 E2]]]. exists p'. split; [|split; assumption].
    apply filter_In. split; [exact Hp'|]. rewrite <- E1. exact Hf. }
  intros W d1 d2 H. apply (scores_eqb_iff cand ceqb ceqb_spec) in H. destruct H as [H1 H2].
  apply (scores_eqb_iff cand ceqb ceqb_spec). split; apply Hone; assumption.
Qed.

Lemma ranking_eqb_nonempty_eq : forall a b : ranking, ranking_eqb a b = true -> nonempty a = nonempty b.
Proof. intros [|x a] [|y b] H; try reflexivity; discriminate. Qed.
Lemma scores_eqb_nonempty_eq : forall a b : scores, scores_eqb cand ceqb a b = true -> nonempty a = nonempty b.
Proof. intros [|x a] [|y b] H; try reflexivity; discriminate. Qed.

Definition live (W : cset) (r : ranking) (d : scores) : bool :=
  nonempty (strip W r) || nonempty (strip_scores W d).
Definition pushed (W : cset) (r : ranking) (d : scores) : ballot :=
  mkBallot (strip W r) 0 (strip_scores W d) None None.

Lemma wtof_map_scrub : forall k W bs,
  wtof k (map (scrub W) bs) ==
  wsum (fun r d => if same k (pushed W r d) && live W r d then 1 else 0) bs.
Proof.
  intros k W bs. induction bs as [|b bs IH].
  - reflexivity.
  - cbn [map]. rewrite wtof_cons, wsum_cons.
    destruct (C12_edit.scrub_spec cand ceqb W b) as [Hrk [Hsc [Hwt _]]].
    rewrite (Lib_content.same_ext_r cand ceqb (scrub W b) (pushed W (rk b) (sc b)) k Hrk Hsc).
    rewrite Hwt. fold (live W (rk b) (sc b)).
    destruct (same k (pushed W (rk b) (sc b))); destruct (live W (rk b) (sc b)); cbn [andb];
      rewrite IH; ring.
Qed.

Lemma dist_eq_scrub : forall W bs bs', dist_eq bs bs' ->
  dist_eq (map (scrub W) bs) (map (scrub W) bs').
Proof.
  intros W bs bs' Hde k. rewrite !wtof_map_scrub.
  apply (wsum_dist_eq any_content); try apply any_content_all; [|exact Hde].
  intros x y _ _ Hs.
  assert (Hp : same (pushed W (rk x) (sc x)) (pushed W (rk y) (sc y)) = true).
  { apply same_iff. cbn [pushed rk sc]. split;
      [apply strip_compat, same_rk; exact Hs|apply strip_scores_compat, same_sc; exact Hs]. }
  rewrite (Lib_content.same_congr_r cand ceqb ceqb_spec _ _ k Hp).
  assert (Hl : live W (rk x) (sc x) = live W (rk y) (sc y)).
  { unfold live.
    rewrite (ranking_eqb_nonempty_eq _ _ (strip_compat W _ _ (same_rk x y Hs))).
    rewrite (scores_eqb_nonempty_eq _ _ (strip_scores_compat W _ _ (same_sc x y Hs))). reflexivity. }
  rewrite Hl. reflexivity.
Qed.

(* weights stay non-negative *)
Lemma nonneg_scrub : forall W bs, nonneg_wts bs -> nonneg_wts (map (scrub W) bs).
Proof.
  intros W bs H. unfold Anon.nonneg_wts in *. rewrite Forall_forall in H |- *. intros x Hx.
  apply in_map_iff in Hx. destruct Hx as [b [<- Hb]].
  destruct (C12_edit.scrub_spec cand ceqb W b) as [_ [_ [Hwt _]]]. rewrite Hwt.
  destruct (nonempty (strip W (rk b)) || nonempty (strip_scores W (sc b))); [apply H; exact Hb|lra].
Qed.
Lemma nonneg_filter : forall (f : ballot -> bool) bs, nonneg_wts bs -> nonneg_wts (filter f bs).
Proof.
  intros f bs H. unfold Anon.nonneg_wts in *. rewrite Forall_forall in H |- *. intros x Hx.
  apply filter_In in Hx. apply H, Hx.
Qed.
Lemma nonneg_acc_add : forall acc b, nonneg_wts acc -> 0 <= wt b -> nonneg_wts (acc_add cand ceqb acc b).
Proof.
  unfold Anon.nonneg_wts. induction acc as [|k acc IH]; intros b Hacc Hb.
  - cbn [Core.acc_add]. constructor; [exact Hb|constructor].
  - inversion Hacc as [|x l Hk Hacc']; subst. cbn [Core.acc_add].
    destruct (key_match cand ceqb k b).
    + constructor; [cbn [wt]; lra|exact Hacc'].
    + constructor; [exact Hk|apply IH; assumption].
Qed.
Lemma nonneg_condense : forall bs, nonneg_wts bs -> nonneg_wts (condense_bs bs).
Proof.
  intros bs H. unfold Core.condense_bs.
  assert (Hgen : forall l acc, nonneg_wts l -> nonneg_wts acc -> nonneg_wts (fold_left (acc_add cand ceqb) l acc)).
  { induction l as [|b l IH]; intros acc Hl Hacc; [exact Hacc|].
    unfold Anon.nonneg_wts in Hl. inversion Hl as [|x y Hb Hl']; subst. cbn [fold_left].
    apply IH; [exact Hl'|apply nonneg_acc_add; assumption]. }
  apply Hgen; [exact H|constructor].
Qed.
Lemma nonneg_remove : forall W bs, nonneg_wts bs -> nonneg_wts (remove_cand_bs W true false bs).
Proof.
  intros W bs H. unfold Core.remove_cand_bs. apply nonneg_condense, nonneg_filter, nonneg_scrub, H.
Qed.

Lemma dist_eq_pos_filter : forall bs, nonneg_wts bs -> dist_eq bs (filter (pos_wt cand) bs).
Proof.
  intros bs H. apply dist_eq_drop_zero. intros b Hb Hf.
  unfold Anon.nonneg_wts in H. rewrite Forall_forall in H. pose proof (H b Hb) as Hge.
  unfold Core.pos_wt in Hf. apply C04_scoring.Qlt_bool_false_iff in Hf. lra.
Qed.

Theorem remove_cand_bs_anonymous : forall W W' bs bs',
  nonneg_wts bs -> nonneg_wts bs' -> seteq W W' -> dist_eq bs bs' ->
  dist_eq (remove_cand_bs W true false bs) (remove_cand_bs W' true false bs').
Proof.
  intros W W' bs bs' Hn Hn' HW Hde. unfold Core.remove_cand_bs.
  rewrite (map_ext (scrub W') (scrub W)) by (intros b; symmetry; apply scrub_seteq; exact HW).
  eapply dist_eq_trans; [apply dist_eq_sym, dist_eq_condense|].
  eapply dist_eq_trans; [|apply dist_eq_condense].
  eapply dist_eq_trans; [apply dist_eq_sym, dist_eq_pos_filter, nonneg_scrub, Hn|].
  eapply dist_eq_trans; [|apply dist_eq_pos_filter, nonneg_scrub, Hn'].
  apply dist_eq_scrub. exact Hde.
Qed.

(* ------------------------------------------------------------------ *)
(** * Candidates inferred from the ballots cast *)

Lemma wtof_ge_member : forall k b bs, nonneg_wts bs -> In b bs -> same k b = true -> wt b <= wtof k bs.
Proof.
  intros k b bs H. unfold Anon.nonneg_wts in H. induction H as [|x bs Hx Hbs IH]; intros Hin Hs; [destruct Hin|].
  assert (Hnn : 0 <= wtof k bs).
  { unfold Content.wtof. apply Lib_content.qsum_pos_nonneg. intros q Hq. apply in_map_iff in Hq.
    destruct Hq as [y [<- Hy]]. apply filter_In in Hy. rewrite Forall_forall in Hbs. apply Hbs, Hy. }
  rewrite wtof_cons. destruct Hin as [->|Hin].
  - rewrite Hs. lra.
  - pose proof (IH Hin Hs). destruct (same k x); lra.
Qed.

Lemma wtof_pos_member : forall k bs, nonneg_wts bs -> 0 < wtof k bs ->
  exists x, In x bs /\ same k x = true /\ 0 < wt x.
Proof.
  intros k bs H. unfold Anon.nonneg_wts in H. induction H as [|x bs Hx Hbs IH]; intros Hpos.
  - rewrite wtof_nil in Hpos. lra.
  - rewrite wtof_cons in Hpos. destruct (same k x) eqn:E.
    + destruct (Qlt_le_dec 0 (wt x)) as [Hlt|Hle].
      * exists x. split; [left; reflexivity|split; assumption].
      * destruct IH as [y [Hy [Hs Hw]]]; [lra|]. exists y. split; [right; exact Hy|split; assumption].
    + destruct (IH Hpos) as [y [Hy [Hs Hw]]]. exists y. split; [right; exact Hy|split; assumption].
Qed.

Lemma ballot_cands_same : forall x y c, same x y = true ->
  In c (ballot_cands cand x) -> In c (ballot_cands cand y).
Proof.
  intros x y c Hs Hc. unfold Core.ballot_cands in *. apply in_app_or in Hc. apply in_or_app.
  destruct Hc as [Hc|Hc].
  - left. apply (ranking_eqb_flat_incl cand ceqb ceqb_spec (rk x) (rk y) (same_rk x y Hs)). exact Hc.
  - right. pose proof (same_sc x y Hs) as Hd. apply (scores_eqb_iff cand ceqb ceqb_spec) in Hd.
    destruct Hd as [H12 _]. apply in_map_iff in Hc. destruct Hc as [p [<- Hp]].
    destruct (H12 p Hp) as [p' [Hp' [E _]]]. rewrite E. apply in_map. exact Hp'.
Qed.

Lemma cast_cands_In : forall bs c,
  In c (cast_cands cand ceqb bs) <-> exists b, In b bs /\ 0 < wt b /\ In c (ballot_cands cand b).
Proof.
  intros bs c. unfold Core.cast_cands. rewrite (Lib_sets.dedup_In cand ceqb ceqb_spec).
  rewrite in_concat_iff. split.
  - intros [l [Hl Hc]]. apply in_map_iff in Hl. destruct Hl as [b [<- Hb]].
    destruct (Qlt_bool 0 (wt b)) eqn:E; [|destruct Hc].
    exists b. split; [exact Hb|]. split; [apply C04_scoring.Qlt_bool_iff; exact E|exact Hc].
  - intros [b [Hb [Hw Hc]]]. exists (ballot_cands cand b). split; [|exact Hc].
    apply in_map_iff. exists b. split; [|exact Hb].
    apply C04_scoring.Qlt_bool_iff in Hw. rewrite Hw. reflexivity.
Qed.

Theorem cast_cands_anonymous : forall bs bs', nonneg_wts bs -> nonneg_wts bs' -> dist_eq bs bs' ->
  Permutation (cast_cands cand ceqb bs) (cast_cands cand ceqb bs').
Proof.
  assert (Hone : forall bs bs', nonneg_wts bs -> nonneg_wts bs' -> dist_eq bs bs' ->
            forall c, In c (cast_cands cand ceqb bs) -> In c (cast_cands cand ceqb bs')).
  { intros bs bs' Hn Hn' Hde c Hc. apply cast_cands_In in Hc. destruct Hc as [b [Hb [Hw Hc]]].
    pose proof (wtof_ge_member b b bs Hn Hb (same_refl b)) as Hge.
    assert (Hpos : 0 < wtof b bs') by (rewrite <- (Hde b); lra).
    destruct (wtof_pos_member b bs' Hn' Hpos) as [x [Hx [Hs Hwx]]].
    apply cast_cands_In. exists x. split; [exact Hx|]. split; [exact Hwx|].
    apply (ballot_cands_same b x c Hs Hc). }
  intros bs bs' Hn Hn' Hde. apply NoDup_Permutation.
  - apply (Lib_sets.dedup_NoDup cand ceqb ceqb_spec).
  - apply (Lib_sets.dedup_NoDup cand ceqb ceqb_spec).
  - intros c. split; [apply Hone; assumption|apply Hone; try assumption; apply dist_eq_sym; exact Hde].
Qed.

(* ------------------------------------------------------------------ *)
(** * remove_cand on profiles *)

Lemma mk_profile_nodup : forall bs cs, NoDup cs ->
  mk_profile cand ceqb bs cs =
  inl (mkProfile bs (match cs with [] => cast_cands cand ceqb bs | _ => cs end)).
Proof.
  intros bs cs H. unfold Core.mk_profile.
  rewrite (proj2 (Lib_sets.has_dup_false_iff cand ceqb ceqb_spec cs) H). reflexivity.
Qed.

Lemma remove_cand_prof_ok : forall W p, NoDup (cands p) ->
  remove_cand_prof W true false p =
  inl (mkProfile (remove_cand_bs W true false (ballots p))
                 (match set_diff (cands p) W with
                  | [] => cast_cands cand ceqb (remove_cand_bs W true false (ballots p))
                  | _ :: _ => set_diff (cands p) W end)).
Proof.
  intros W p H. unfold Core.remove_cand_prof. rewrite mk_profile_nodup; [reflexivity|].
  apply (Lib_sets.set_diff_NoDup cand ceqb). exact H.
Qed.

Theorem remove_cand_prof_anonymous : forall W W' p p',
  NoDup (cands p) -> NoDup (cands p') ->
  nonneg_wts (ballots p) -> nonneg_wts (ballots p') ->
  seteq W W' -> profile_equiv p p' ->
  exists np np', remove_cand_prof W true false p = inl np /\
                 remove_cand_prof W' true false p' = inl np' /\
                 profile_equiv np np'.
Proof.
  intros W W' p p' Hnd Hnd' Hn Hn' HW [Hde Hperm].
  rewrite (remove_cand_prof_ok W p Hnd), (remove_cand_prof_ok W' p' Hnd').
  eexists. eexists. split; [reflexivity|]. split; [reflexivity|].
  pose proof (remove_cand_bs_anonymous W W' _ _ Hn Hn' HW Hde) as Hde1.
  split; cbn [ballots cands]; [exact Hde1|].
  rewrite <- (set_diff_seteq (cands p') W W' HW).
  assert (Hp : Permutation (set_diff (cands p) W) (set_diff (cands p') W)).
  { unfold Core.set_diff. apply Permutation_filter_local. exact Hperm. }
  destruct (set_diff (cands p) W) as [|c cs] eqn:E.
  - apply Permutation_nil in Hp. rewrite Hp.
    apply cast_cands_anonymous; try apply nonneg_remove; assumption.
  - destruct (set_diff (cands p') W) as [|c' cs'] eqn:E'; [|exact Hp].
    apply Permutation_sym, Permutation_nil in Hp. discriminate.
Qed.

(* ------------------------------------------------------------------ *)
(** * The input domains are stable under removing candidates *)

Lemma remove_member : forall W bs k, In k (remove_cand_bs W true false bs) ->
  exists b, In b bs /\ rk k = strip W (rk b) /\ sc k = strip_scores W (sc b) /\
            live W (rk b) (sc b) = true.
Proof.
  intros W bs k Hk. unfold Core.remove_cand_bs in Hk.
  destruct (condense_no_invented cand ceqb _ k Hk) as [y [Hy [Hrk Hsc]]].
  apply filter_In in Hy. destruct Hy as [Hy Hpos]. apply in_map_iff in Hy. destruct Hy as [b [<- Hb]].
  destruct (C12_edit.scrub_spec cand ceqb W b) as [Hrk' [Hsc' [Hwt _]]].
  exists b. split; [exact Hb|]. split; [congruence|]. split; [congruence|].
  apply C12_edit.pos_wt_iff in Hpos. rewrite Hwt in Hpos. unfold live.
  destruct (nonempty (strip W (rk b)) || nonempty (strip_scores W (sc b))); [reflexivity|lra].
Qed.

Lemma strip_wf : forall W cs r, wf_ranking cand cs r -> strip W r <> [] ->
  wf_ranking cand (set_diff cs W) (strip W r) /\ set_diff cs W <> [].
Proof.
  intros W cs r [_ [_ [Hnd Hincl]]] Hne.
  assert (Hin : incl (flat (strip W r)) (set_diff cs W)).
  { intros c Hc. apply (C12_edit.strip_keeps cand ceqb ceqb_spec) in Hc. destruct Hc as [Hc Hn].
    apply (Lib_sets.set_diff_In cand ceqb ceqb_spec). split; [apply Hincl; exact Hc|exact Hn]. }
  pose proof (C12_edit.strip_no_empty cand ceqb W r) as Hg.
  split.
  - split; [exact Hne|]. split; [exact Hg|]. split; [|exact Hin].
    rewrite (C12_edit.strip_flat cand ceqb). apply NoDup_filter. exact Hnd.
  - destruct (strip W r) as [|g r'] eqn:E; [exfalso; apply Hne; reflexivity|].
    inversion Hg as [|x l Hgne _]; subst. destruct g as [|c g]; [exfalso; apply Hgne; reflexivity|].
    intros Hnil. assert (Hc : In c (set_diff cs W)).
    { apply Hin. rewrite (flat_cons cand). left. reflexivity. }
    rewrite Hnil in Hc. destruct Hc.
Qed.

Lemma nonempty_true_ne : forall {A} (l : list A), nonempty l = true -> l <> [].
Proof. intros A [|x l] H; [discriminate|discriminate]. Qed.

Theorem remove_wf_ranked : forall W p np, wf_profile p -> score_free (ballots p) ->
  remove_cand_prof W true false p = inl np -> wf_profile np /\ score_free (ballots np).
Proof.
  intros W p np [Hnd Hbs] Hsf H. rewrite (remove_cand_prof_ok W p Hnd) in H. inversion H; subst np. clear H.
  rewrite Forall_forall in Hbs. unfold EditSpec.score_free in Hsf. rewrite Forall_forall in Hsf.
  assert (Hmem : forall k, In k (remove_cand_bs W true false (ballots p)) ->
            wf_ranking cand (set_diff (cands p) W) (rk k) /\ set_diff (cands p) W <> [] /\ sc k = []).
  { intros k Hk. destruct (remove_member W _ k Hk) as [b [Hb [Hrk [Hsc Hlive]]]].
    unfold live in Hlive. rewrite (Hsf b Hb) in Hlive, Hsc. cbn in Hlive, Hsc.
    rewrite orb_false_r in Hlive. apply nonempty_true_ne in Hlive.
    destruct (strip_wf W (cands p) (rk b) (Hbs b Hb) Hlive) as [Hw Hne].
    rewrite Hrk. split; [exact Hw|]. split; [exact Hne|exact Hsc]. }
  split; [split|]; cbn [ballots cands].
  - destruct (set_diff (cands p) W) eqn:E.
    + apply (Lib_sets.dedup_NoDup cand ceqb ceqb_spec).
    + rewrite <- E. apply (Lib_sets.set_diff_NoDup cand ceqb). exact Hnd.
  - apply Forall_forall. intros k Hk. destruct (Hmem k Hk) as [Hw [Hne _]].
    destruct (set_diff (cands p) W) eqn:E; [exfalso; apply Hne; reflexivity|exact Hw].
  - unfold EditSpec.score_free. apply Forall_forall. intros k Hk. apply (Hmem k Hk).
Qed.

Theorem remove_wf_rated : forall W p np, wf_rated_profile p ->
  remove_cand_prof W true false p = inl np -> wf_rated_profile np.
Proof.
  intros W p np [Hnd Hbs] H. rewrite (remove_cand_prof_ok W p Hnd) in H. inversion H; subst np. clear H.
  rewrite Forall_forall in Hbs.
  assert (Hmem : forall k, In k (remove_cand_bs W true false (ballots p)) ->
            wf_rated_ballot cand (set_diff (cands p) W) k /\ set_diff (cands p) W <> []).
  { intros k Hk. destruct (remove_member W _ k Hk) as [b [Hb [Hrk [Hsc Hlive]]]].
    destruct (Hbs b Hb) as [Hr [_ [Hnk Hincl]]].
    unfold live in Hlive. rewrite Hr in Hlive, Hrk. cbn in Hlive, Hrk.
    apply nonempty_true_ne in Hlive.
    assert (Hin : incl (map fst (sc k)) (set_diff (cands p) W)).
    { rewrite Hsc. intros c Hc. apply in_map_iff in Hc. destruct Hc as [q [<- Hq]].
      apply (C12_edit.strip_scores_spec cand ceqb ceqb_spec) in Hq. destruct Hq as [Hq Hn].
      apply (Lib_sets.set_diff_In cand ceqb ceqb_spec). split; [|exact Hn].
      apply Hincl. apply in_map. exact Hq. }
    split.
    - split; [exact Hrk|]. split; [rewrite Hsc; exact Hlive|]. split; [|exact Hin].
      rewrite Hsc. apply NoDup_keys_filter. exact Hnk.
    - intros Hnil. rewrite Hsc in Hin. destruct (strip_scores W (sc b)) as [|q l]; [apply Hlive; reflexivity|].
      pose proof (Hin (fst q) (or_introl eq_refl)) as Hc. rewrite Hnil in Hc. destruct Hc. }
  split; cbn [ballots cands].
  - destruct (set_diff (cands p) W) eqn:E.
    + apply (Lib_sets.dedup_NoDup cand ceqb ceqb_spec).
    + rewrite <- E. apply (Lib_sets.set_diff_NoDup cand ceqb). exact Hnd.
  - apply Forall_forall. intros k Hk. destruct (Hmem k Hk) as [Hw Hne].
    destruct (set_diff (cands p) W) eqn:E; [exfalso; apply Hne; reflexivity|exact Hw].
Qed.

Lemma remove_nonneg : forall W p np, NoDup (cands p) -> nonneg_wts (ballots p) ->
  remove_cand_prof W true false p = inl np -> nonneg_wts (ballots np).
Proof.
  intros W p np Hnd Hn H. rewrite (remove_cand_prof_ok W p Hnd) in H. inversion H; subst np.
  cbn [ballots]. apply nonneg_remove. exact Hn.
Qed.

(* ------------------------------------------------------------------ *)
(** * Electing the top m without a tiebreak rule *)

Notation mstate := (mstate cand).

Notation elect_equiv := (elect_equiv cand).

Lemma groups_equiv_flat : forall r r', groups_equiv r r' -> Permutation (flat r) (flat r').
Proof.
  intros r r' H. induction H as [|g g' r r' Hg _ IH]; [constructor|].
  rewrite !(flat_cons cand). apply Permutation_app; assumption.
Qed.

Lemma groups_equiv_refl : forall r, groups_equiv r r.
Proof. intros r. induction r as [|g r IH]; constructor; [apply Permutation_refl|exact IH]. Qed.

Lemma elect_loop_anonymous : forall r r', groups_equiv r r' ->
  forall need acc acc' p p' (s : mstate), groups_equiv acc acc' ->
  mres_equiv cand elect_equiv (elect_loop cand ceqb r need acc p None s)
                              (elect_loop cand ceqb r' need acc' p' None s).
Proof.
  intros r r' H. induction H as [|g g' r r' Hg Hr IH]; intros need acc acc' p p' s Hacc.
  - destruct need as [|n]; cbn [Core.elect_loop].
    + cbn. repeat split; try reflexivity. apply Forall2_rev. exact Hacc. constructor.
    + reflexivity.
  - destruct need as [|n]; cbn [Core.elect_loop].
    + cbn. repeat split; try reflexivity; [apply Forall2_rev; exact Hacc|constructor; assumption].
    + rewrite <- (Permutation_length Hg). destruct (Nat.leb (length g) (S n)).
      * apply IH. constructor; assumption.
      * reflexivity.
Qed.

Theorem elect_top_m_anonymous : forall r r' m p p' (s : mstate), groups_equiv r r' ->
  mres_equiv cand elect_equiv (elect_top_m cand ceqb r m p None s) (elect_top_m cand ceqb r' m p' None s).
Proof.
  intros r r' m p p' s H. unfold Core.elect_top_m, Core.ranking_size.
  rewrite <- (Permutation_length (groups_equiv_flat r r' H)).
  destruct (m <? 1)%Z; [reflexivity|].
  destruct (Z.of_nat (length (flat r)) <? m)%Z; [reflexivity|].
  apply elect_loop_anonymous; [exact H|constructor].
Qed.

(* ------------------------------------------------------------------ *)
(** * One-shot rules without a tiebreak rule *)

Notation state_equiv := (state_equiv cand).
Notation dom := (one_shot_domain cand).
Notation score_fn := (score_fn cand ceqb).

Lemma dom_nodup : forall k p, dom k p -> NoDup (cands p).
Proof. intros k p [_ H]. destruct k; try apply H. Qed.
Lemma dom_nonneg : forall k p, dom k p -> nonneg_wts (ballots p).
Proof. intros k p [H _]. exact H. Qed.

Lemma score_fn_anonymous : forall k p p', dom k p -> dom k p' -> profile_equiv p p' ->
  res_equiv scores_equiv (score_fn k p) (score_fn k p').
Proof.
  intros k p p' [_ H] [_ H'] He. destruct k; cbn [Rules.score_fn].
  - apply first_place_votes_anonymous; [apply H|apply H'|exact He].
  - apply borda_scores_anonymous; [apply H|apply H'|exact He].
  - apply score_rankings_anonymous; [apply H|apply H'|exact He].
  - apply score_from_scores_anonymous; assumption.
Qed.

Lemma score_fn_keys : forall k p d, score_fn k p = inl d -> map fst d = cands p.
Proof.
  intros k p d H. destruct k; cbn [Rules.score_fn] in H.
  - apply (score_rankings_keys cand ceqb p _ d H).
  - apply (score_rankings_keys cand ceqb p _ d H).
  - apply (score_rankings_keys cand ceqb p _ d H).
  - unfold Core.score_from_scores in H.
    destruct (existsb _ (ballots p)); [discriminate|]. destruct (negb _); [discriminate|].
    inversion H. apply keys_of_map.
Qed.

Lemma dom_remove : forall k W p np, dom k p -> remove_cand_prof W true false p = inl np -> dom k np.
Proof.
  intros k W p np Hd H. pose proof (dom_nodup k p Hd) as Hnd. destruct Hd as [Hn Hw].
  split; [apply (remove_nonneg W p np Hnd Hn H)|].
  destruct k; try (apply (remove_wf_ranked W p np); [apply Hw|apply Hw|exact H]).
  apply (remove_wf_rated W p np Hw H).
Qed.

Lemma no_group_equiv : groups_equiv (no_group cand) (no_group cand).
Proof. constructor; [apply perm_nil|constructor]. Qed.

Theorem one_shot_anonymous : forall k m p p' (s : mstate),
  dom k p -> dom k p' -> profile_equiv p p' ->
  mres_equiv cand (Forall2 state_equiv) (run_one_shot cand ceqb k m None p s)
                                        (run_one_shot cand ceqb k m None p' s).
Proof.
  intros k m p p' s Hd Hd' He.
  unfold Rules.run_one_shot, Rules.round0, mbind, mlift.
  pose proof (score_fn_anonymous k p p' Hd Hd' He) as H0.
  destruct (score_fn k p) as [d|e] eqn:Ed; destruct (score_fn k p') as [d'|e'] eqn:Ed';
    cbn [res_equiv] in H0; try contradiction; cbn [rbind ok];
    [|subst e'; exact eq_refl].
  assert (Hk : NoDup (map fst d)) by (rewrite (score_fn_keys k p d Ed); apply (dom_nodup k p Hd)).
  assert (Hk' : NoDup (map fst d')) by (rewrite (score_fn_keys k p' d' Ed'); apply (dom_nodup k p' Hd')).
  pose proof (ranking_of_scores d d' true Hk Hk' H0) as Hr.
  unfold Rules.one_shot_step, mbind, mlift. cbn [STV.state_of_scores remaining].
  pose proof (elect_top_m_anonymous _ _ m (Some p) (Some p') s Hr) as H1.
  destruct (elect_top_m cand ceqb (score_to_ranking cand d true) m (Some p) None s)
    as [[[[el rem] t] s1]|e1];
  destruct (elect_top_m cand ceqb (score_to_ranking cand d' true) m (Some p') None s)
    as [[[[el' rem'] t'] s1']|e1'];
    cbn in H1; try contradiction; [|subst e1'; exact eq_refl].
  destruct H1 as [[Hel [Hrem [Ht Ht']]] Hs1]. cbn [fst snd] in Hel, Hrem, Ht, Ht', Hs1. subst t t' s1'.
  assert (HW : seteq (flat el) (flat el')).
  { intros c. pose proof (groups_equiv_flat el el' Hel) as Hp. split; intros Hc.
    - eapply Permutation_in; [exact Hp|exact Hc].
    - eapply Permutation_in; [apply Permutation_sym; exact Hp|exact Hc]. }
  destruct (remove_cand_prof_anonymous (flat el) (flat el') p p' (dom_nodup k p Hd) (dom_nodup k p' Hd')
              (dom_nonneg k p Hd) (dom_nonneg k p' Hd') HW He) as [np [np' [Enp [Enp' Hnp]]]].
  rewrite Enp, Enp'. cbn [ok].
  pose proof (dom_remove k _ p np Hd Enp) as Hdn. pose proof (dom_remove k _ p' np' Hd' Enp') as Hdn'.
  pose proof (score_fn_anonymous k np np' Hdn Hdn' Hnp) as H2.
  destruct (score_fn k np) as [d1|e2]; destruct (score_fn k np') as [d1'|e2'];
    cbn [res_equiv] in H2; try contradiction; [|subst e2'; exact eq_refl].
  cbn. split; [|reflexivity].
  constructor; [|constructor; [|constructor]].
  - repeat split; cbn [rnd remaining elected eliminated tiebreaks escores];
      try apply no_group_equiv; try assumption; try apply H0; constructor.
  - repeat split; cbn [rnd remaining elected eliminated tiebreaks escores];
      try apply no_group_equiv; try assumption; try apply H2; constructor.
Qed.

(* listing the candidates in a different order *)
Corollary one_shot_cand_order : forall k m bs cs cs' (s : mstate),
  dom k (mkProfile bs cs) -> Permutation cs cs' ->
  mres_equiv cand (Forall2 state_equiv) (run_one_shot cand ceqb k m None (mkProfile bs cs) s)
                                        (run_one_shot cand ceqb k m None (mkProfile bs cs') s).
Proof.
  intros k m bs cs cs' s Hd Hp. apply one_shot_anonymous; [exact Hd| |split; [apply dist_eq_refl|exact Hp]].
  destruct Hd as [Hn Hw]. split; [exact Hn|]. cbn [ballots cands] in *.
  assert (Hi : forall l : cset, incl l cs -> incl l cs').
  { intros l H c Hc. eapply Permutation_in; [exact Hp|apply H; exact Hc]. }
  destruct k.
  1-3: destruct Hw as [[Hnd Hb] Hsf]; split; [split|exact Hsf]; cbn [ballots cands] in *;
    [eapply Permutation_NoDup; eassumption|];
    rewrite Forall_forall in Hb |- *; intros b Hin; destruct (Hb b Hin) as [A [B [C D]]];
    repeat split; try assumption; apply Hi; exact D.
  destruct Hw as [Hnd Hb]. split; cbn [ballots cands] in *; [eapply Permutation_NoDup; eassumption|].
  rewrite Forall_forall in Hb |- *. intros b Hin. destruct (Hb b Hin) as [A [B [C D]]].
  repeat split; try assumption. apply Hi. exact D.
Qed.

(* ------------------------------------------------------------------ *)
(** * The rule entry points Plurality / SNTV and Borda *)

Lemma ranking_validate_wf : forall p, wf_profile p -> ranking_validate cand p = inl tt.
Proof.
  intros p [_ Hb]. unfold STV.ranking_validate. induction Hb as [|b bs Hb _ IH]; [reflexivity|].
  cbn [rfirst_err]. destruct Hb as [Hne _]. destruct (rk b); [exfalso; apply Hne; reflexivity|].
  cbn [rbind]. exact IH.
Qed.

Theorem plurality_anonymous : forall m p p' (s : mstate),
  dom SKFpv p -> dom SKFpv p' -> profile_equiv p p' ->
  mres_equiv cand (Forall2 state_equiv) (run_rule cand ceqb (RPlurality m None) p s)
                                        (run_rule cand ceqb (RPlurality m None) p' s).
Proof.
  intros m p p' s Hd Hd' He. cbn [Rules.run_rule]. unfold Rules.run_plurality, mbind, mlift.
  rewrite (ranking_validate_wf p (proj1 (proj2 Hd))), (ranking_validate_wf p' (proj1 (proj2 Hd'))).
  cbn [ok]. apply one_shot_anonymous; assumption.
Qed.

Theorem borda_anonymous : forall m v p p' (s : mstate),
  dom SKBorda p -> dom SKBorda p' -> profile_equiv p p' ->
  mres_equiv cand (Forall2 state_equiv) (run_rule cand ceqb (RBorda m v None) p s)
                                        (run_rule cand ceqb (RBorda m v None) p' s).
Proof.
  intros m v p p' s Hd Hd' He. cbn [Rules.run_rule]. unfold Rules.default_borda.
  rewrite <- (Permutation_length (proj2 He)).
  set (v' := match v with Some (x :: l) => x :: l | _ => borda_vector (length (cands p)) end).
  unfold mbind, mlift. destruct (validate_vector v') as [[]|e]; [|exact eq_refl].
  cbn [ok]. rewrite (ranking_validate_wf p (proj1 (proj2 Hd))), (ranking_validate_wf p' (proj1 (proj2 Hd'))).
  cbn [ok]. apply one_shot_anonymous; [split; [apply Hd|apply (proj2 Hd)]|split; [apply Hd'|apply (proj2 Hd')]|exact He].
Qed.

End Anon.
