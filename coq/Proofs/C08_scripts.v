(* Proofs/C08_scripts.v — property C08 beyond the deterministic path: for the ranked one-shot
   rules, CondoBorda and TopTwo, with EVERY tiebreak setting and EVERY draw script, equivalent
   profiles run from the same state of the random source give equivalent runs: the same draws are
   consumed, the same error or equivalent records result, and the primitive calls logged are the
   same up to the representation of their argument (a tied set listed in another order).
   The reason: random.sample(S) is recorded by the returned order (a value), which is a valid
   answer for any listing of the same set S. *)
From Coq Require Import List ZArith QArith Bool Permutation Lia Lqa Setoid Morphisms.
From VK Require Import Base Core STV Pairwise Rules.
From VK.Spec Require Import Content ScoreSpec EditSpec Anon AnonRules.
From VK.Proofs Require Import Lib_sets Lib_content Lib_condense C11_condense C04_scoring C12_edit
  C08_anon C08_stv C08_pairwise C08_rules C08_dictator.
Import ListNotations.
Open Scope Q_scope.

Section ScriptAnon.
Variable cand : Type.
Variable ceqb : cand -> cand -> bool.
Hypothesis ceqb_spec : forall a b, reflect (a = b) (ceqb a b).

Notation cset := (cset cand).
Notation ranking := (ranking cand).
Notation scores := (scores cand).
Notation ballot := (ballot cand).
Notation profile := (profile cand).
Notation mstate := (mstate cand).
Notation estate := (estate cand).
Notation memb := (memb cand ceqb).
Notation flat := (flat cand).
Notation groups_equiv := (groups_equiv cand).
Notation scores_equiv := (scores_equiv cand).
Notation tiebreak_equiv := (tiebreak_equiv cand).
Notation state_equiv := (state_equiv cand).
Notation profile_equiv := (profile_equiv cand ceqb).
Notation wf_profile := (wf_profile cand).
Notation dom := (one_shot_domain cand).
Notation elect_equiv_tb := (elect_equiv_tb cand).
Notation mstate_equiv := (mstate_equiv cand ceqb).
Notation mres_equiv_log := (mres_equiv_log cand ceqb).
Notation popt_ok := (popt_ok cand ceqb).
Notation step_rel := (step_rel cand ceqb).
Notation two_states := (two_states cand).
Notation score_fn := (score_fn cand ceqb).
Notation mbind_log := (mbind_log cand ceqb).
Notation mret_log := (mret_log cand ceqb).
Notation mlift_log := (mlift_log cand ceqb).

Lemma subsetb_perm_r : forall (l g g' : cset), Permutation g g' ->
  subsetb cand ceqb l g = subsetb cand ceqb l g'.
Proof.
  intros l g g' H. apply eq_true_iff_eq. rewrite !(Lib_sets.subsetb_incl cand ceqb ceqb_spec).
  split; intros Hi c Hc.
  - eapply Permutation_in; [exact H|apply Hi; exact Hc].
  - eapply Permutation_in; [apply Permutation_sym; exact H|apply Hi; exact Hc].
Qed.

Lemma subsetb_perm_l : forall (l g g' : cset), Permutation g g' ->
  subsetb cand ceqb g l = subsetb cand ceqb g' l.
Proof.
  intros l g g' H. apply eq_true_iff_eq. rewrite !(Lib_sets.subsetb_incl cand ceqb ceqb_spec).
  split; intros Hi c Hc.
  - apply Hi. eapply Permutation_in; [apply Permutation_sym; exact H|exact Hc].
  - apply Hi. eapply Permutation_in; [exact H|exact Hc].
Qed.

Lemma is_perm_of_perm_r : forall (l g g' : cset), Permutation g g' ->
  is_perm_of cand ceqb l g = is_perm_of cand ceqb l g'.
Proof.
  intros l g g' H. unfold Core.is_perm_of.
  rewrite (Permutation_length H), (subsetb_perm_r l g g' H), (subsetb_perm_l l g g' H). reflexivity.
Qed.

Lemma draw_perm_set_log : forall (g g' : cset) (s s' : mstate), Permutation g g' -> mstate_equiv s s' ->
  mres_equiv_log eq (draw_perm cand ceqb g s) (draw_perm cand ceqb g' s').
Proof.
  intros g g' s s' Hg Hs. unfold Core.draw_perm. apply (mbind_log eq).
  - apply next_draw_log; [exact Hg|exact Hs].
  - intros d d' s1 s1' <- Hs1. destruct d as [l|r|l|q|c|l]; try exact eq_refl.
    rewrite <- (is_perm_of_perm_r l g g' Hg).
    destruct (is_perm_of cand ceqb l g); [|exact eq_refl]. apply mret_log; [reflexivity|exact Hs1].
Qed.

Lemma random_break_log : forall r r', groups_equiv r r' -> forall (s s' : mstate), mstate_equiv s s' ->
  mres_equiv_log groups_equiv (random_break cand ceqb r s) (random_break cand ceqb r' s').
Proof.
  intros r r' H. induction H as [|g g' r r' Hg Hr IH]; intros s s' Hs.
  - cbn [Core.random_break]. apply mret_log; [constructor|exact Hs].
  - assert (Hsmall : forall (s s' : mstate), mstate_equiv s s' ->
              mres_equiv_log groups_equiv
                (mbind (random_break cand ceqb r) (fun rest => mret (g :: rest)) s)
                (mbind (random_break cand ceqb r') (fun rest => mret (g' :: rest)) s')).
    { intros t t' Ht. apply (mbind_log groups_equiv); [apply IH; exact Ht|].
      intros rest rest' t1 t1' Hrest Ht1. apply mret_log; [constructor; assumption|exact Ht1]. }
    cbn [Core.random_break].
    destruct g as [|a [|b g]]; destruct g' as [|a' [|b' g']];
      try (apply Permutation_length in Hg; cbn [length] in Hg; lia);
      try (apply Hsmall; exact Hs).
    apply (mbind_log eq); [apply draw_perm_set_log; assumption|].
    intros l l' s1 s1' <- Hs1. apply (mbind_log groups_equiv); [apply IH; exact Hs1|].
    intros rest rest' s2 s2' Hrest Hs2. apply mret_log; [|exact Hs2].
    apply Forall2_app; [apply (groups_equiv_refl cand)|exact Hrest].
Qed.

Lemma tiebreak_scored_log : forall (d d' : scores) (g g' : cset) (s s' : mstate),
  NoDup (map fst d) -> NoDup (map fst d') -> scores_equiv d d' -> Permutation g g' -> mstate_equiv s s' ->
  mres_equiv_log groups_equiv
    ((let d1 := filter (fun q : cand * Q => memb (fst q) g) d in
      let r := score_to_ranking cand d1 true in
      if existsb (fun x : list cand => Nat.ltb 1 (length x)) r then random_break cand ceqb r else mret r) s)
    ((let d1 := filter (fun q : cand * Q => memb (fst q) g') d' in
      let r := score_to_ranking cand d1 true in
      if existsb (fun x : list cand => Nat.ltb 1 (length x)) r then random_break cand ceqb r else mret r) s').
Proof.
  intros d d' g g' s s' Hn Hn' H Hp Hs. cbv zeta.
  set (d1 := filter (fun q : cand * Q => memb (fst q) g) d).
  set (d1' := filter (fun q : cand * Q => memb (fst q) g') d').
  assert (H1 : scores_equiv d1 d1').
  { apply (scores_equiv_filter cand (fun c => memb c g) (fun c => memb c g')); [|exact H].
    intros c. apply (memb_seteq cand ceqb ceqb_spec). apply perm_seteq. exact Hp. }
  pose proof (ranking_of_scores cand d1 d1' true (NoDup_keys_filter cand d _ Hn)
                (NoDup_keys_filter cand d' _ Hn') H1) as Hr.
  rewrite <- (existsb_big_equiv cand _ _ Hr).
  destruct (existsb (fun x : list cand => Nat.ltb 1 (length x)) (score_to_ranking cand d1 true)).
  - apply random_break_log; assumption.
  - apply mret_log; assumption.
Qed.

Lemma tiebreak_set_log : forall (g g' : cset) (p p' : option profile) (k : tb_kind) (s s' : mstate),
  popt_ok p p' -> Permutation g g' -> mstate_equiv s s' ->
  mres_equiv_log groups_equiv (tiebreak_set cand ceqb g p k s) (tiebreak_set cand ceqb g' p' k s').
Proof.
  intros g g' p p' k s s' Hp Hg Hs.
  assert (Hscored : forall (sf : profile -> res scores) (a b : profile),
            wf_profile a -> wf_profile b -> res_equiv scores_equiv (sf a) (sf b) ->
            (forall x d, sf x = inl d -> map fst d = cands x) ->
            mres_equiv_log groups_equiv
              (mbind (mlift (sf a)) (fun d =>
                 let d' := filter (fun q : cand * Q => memb (fst q) g) d in
                 let r := score_to_ranking cand d' true in
                 if existsb (fun x : list cand => Nat.ltb 1 (length x)) r
                 then random_break cand ceqb r else mret r) s)
              (mbind (mlift (sf b)) (fun d =>
                 let d' := filter (fun q : cand * Q => memb (fst q) g') d in
                 let r := score_to_ranking cand d' true in
                 if existsb (fun x : list cand => Nat.ltb 1 (length x)) r
                 then random_break cand ceqb r else mret r) s')).
  { intros sf a b Ha Hb H Hk. unfold mbind, mlift.
    destruct (sf a) as [d|e] eqn:E; destruct (sf b) as [d'|e'] eqn:E';
      cbn [res_equiv] in H; try contradiction; [|subst e'; exact eq_refl].
    cbn [ok]. apply tiebreak_scored_log; try assumption.
    - rewrite (Hk a d E). apply Ha.
    - rewrite (Hk b d' E'). apply Hb. }
  destruct k; cbn [Core.tiebreak_set].
  - apply (mbind_log eq); [apply draw_perm_set_log; assumption|].
    intros l l' s1 s1' <- Hs1. apply mret_log; [apply (groups_equiv_refl cand)|exact Hs1].
  - destruct p as [a|]; destruct p' as [b|]; cbn [C08_rules.popt_ok] in Hp; try contradiction; [|exact eq_refl].
    destruct Hp as [Ha [Hb He]]. apply (Hscored (first_place_votes cand ceqb)); try assumption.
    + apply (first_place_votes_anonymous cand ceqb ceqb_spec); assumption.
    + intros x d E. apply (score_rankings_keys cand ceqb x _ d E).
  - destruct p as [a|]; destruct p' as [b|]; cbn [C08_rules.popt_ok] in Hp; try contradiction; [|exact eq_refl].
    destruct Hp as [Ha [Hb He]]. apply (Hscored (borda_scores cand ceqb)); try assumption.
    + apply (borda_scores_anonymous cand ceqb ceqb_spec); assumption.
    + intros x d E. apply (score_rankings_keys cand ceqb x _ d E).
  - exact eq_refl.
Qed.

Lemma elect_loop_log : forall r r', groups_equiv r r' ->
  forall need acc acc' p p' tb (s s' : mstate), groups_equiv acc acc' ->
  (tb = None \/ popt_ok p p') -> mstate_equiv s s' ->
  mres_equiv_log elect_equiv_tb (elect_loop cand ceqb r need acc p tb s)
                                (elect_loop cand ceqb r' need acc' p' tb s').
Proof.
  intros r r' H. induction H as [|g g' r r' Hg Hr IH]; intros need acc acc' p p' tb s s' Hacc Hdet Hs.
  - destruct need as [|n]; cbn [Core.elect_loop].
    + apply mret_log; [|exact Hs]. split; [apply Forall2_rev; exact Hacc|]. split; [constructor|exact I].
    + exact eq_refl.
  - destruct need as [|n]; cbn [Core.elect_loop].
    + apply mret_log; [|exact Hs]. split; [apply Forall2_rev; exact Hacc|].
      split; [constructor; assumption|exact I].
    + rewrite <- (Permutation_length Hg). destruct (Nat.leb (length g) (S n)).
      * apply IH; [constructor; assumption|exact Hdet|exact Hs].
      * destruct tb as [k|]; [|exact eq_refl].
        destruct Hdet as [Hd|Hp]; [discriminate|].
        apply (mbind_log groups_equiv).
        -- apply tiebreak_set_log; assumption.
        -- intros t t' s1 s1' Ht Hs1. apply mret_log; [|exact Hs1]. split; [|split].
           ++ apply Forall2_app; [apply Forall2_rev; exact Hacc|apply Forall2_firstn; exact Ht].
           ++ apply Forall2_app; [apply Forall2_skipn; exact Ht|exact Hr].
           ++ split; cbn [fst snd]; assumption.
Qed.

Theorem elect_top_m_log : forall r r' m p p' tb (s s' : mstate), groups_equiv r r' ->
  (tb = None \/ popt_ok p p') -> mstate_equiv s s' ->
  mres_equiv_log elect_equiv_tb (elect_top_m cand ceqb r m p tb s) (elect_top_m cand ceqb r' m p' tb s').
Proof.
  intros r r' m p p' tb s s' H Hdet Hs. unfold Core.elect_top_m, Core.ranking_size.
  rewrite <- (Permutation_length (groups_equiv_flat cand r r' H)).
  destruct (m <? 1)%Z; [exact eq_refl|].
  destruct (Z.of_nat (length (flat r)) <? m)%Z; [exact eq_refl|].
  apply elect_loop_log; [exact H|constructor|exact Hdet|exact Hs].
Qed.

(* stated with the vocabulary of Spec/ only *)
Theorem elect_top_m_script_anonymous : forall r r' m (p p' : profile) tb (s : mstate),
  groups_equiv r r' -> wf_profile p -> wf_profile p' -> profile_equiv p p' ->
  mres_equiv_log elect_equiv_tb (elect_top_m cand ceqb r m (Some p) tb s)
                                (elect_top_m cand ceqb r' m (Some p') tb s).
Proof.
  intros r r' m p p' tb s Hr Hw Hw' He. apply elect_top_m_log; [exact Hr| |apply mstate_equiv_refl].
  right. cbn [C08_rules.popt_ok]. split; [exact Hw|split; [exact Hw'|exact He]].
Qed.

(* ------------------------------------------------------------------ *)
(** * One-shot rules *)

Definition any_tiebreak (k : score_kind) (tb : option tb_kind) : Prop := tb = None \/ ranked_kind k.

Lemma any_popt : forall k tb p p', any_tiebreak k tb -> dom k p -> dom k p' -> profile_equiv p p' ->
  tb = None \/ popt_ok (Some p) (Some p').
Proof.
  intros k tb p p' [H|Hk] Hd Hd' He; [left; exact H|right]. cbn [C08_rules.popt_ok].
  destruct k; cbn in Hk; try contradiction; (split; [apply Hd|split; [apply Hd'|exact He]]).
Qed.

Lemma one_shot_step_log : forall k m tb p p' (prev prev' : estate) (s s' : mstate),
  any_tiebreak k tb -> dom k p -> dom k p' -> profile_equiv p p' ->
  groups_equiv (remaining prev) (remaining prev') -> mstate_equiv s s' ->
  mres_equiv_log (step_rel k) (one_shot_step cand ceqb k m tb p prev s)
                              (one_shot_step cand ceqb k m tb p' prev' s').
Proof.
  intros k m tb p p' prev prev' s s' Hdet Hd Hd' He Hrem Hs. unfold Rules.one_shot_step.
  apply (mbind_log elect_equiv_tb).
  - apply elect_top_m_log; [exact Hrem| |exact Hs]. apply (any_popt k); assumption.
  - intros [[el rem] t] [[el' rem'] t'] s1 s1' [Hel [Hrm Ht]] Hs1. cbn [fst snd] in Hel, Hrm, Ht.
    destruct (remove_cand_prof_anonymous cand ceqb ceqb_spec (flat el) (flat el') p p'
                (dom_nodup cand k p Hd) (dom_nodup cand k p' Hd')
                (dom_nonneg cand k p Hd) (dom_nonneg cand k p' Hd')
                (perm_flat_seteq cand el el' Hel) He) as [np [np' [Enp [Enp' Hnp]]]].
    unfold mbind, mlift. rewrite Enp, Enp'. cbn [ok].
    pose proof (dom_remove cand ceqb ceqb_spec k _ p np Hd Enp) as Hdn.
    pose proof (dom_remove cand ceqb ceqb_spec k _ p' np' Hd' Enp') as Hdn'.
    pose proof (score_fn_anonymous cand ceqb ceqb_spec k np np' Hdn Hdn' Hnp) as H2.
    destruct (score_fn k np) as [d1|e2]; destruct (score_fn k np') as [d1'|e2'];
      cbn [res_equiv] in H2; try contradiction; [|subst e2'; exact eq_refl].
    apply mret_log; [|exact Hs1].
    split; [exact Hnp|]. split; [|split; assumption]. cbn [fst snd].
    repeat split; cbn [rnd remaining elected eliminated tiebreaks escores];
      try apply no_group_equiv; try assumption; try apply H2.
    apply opt_tb_list. exact Ht.
Qed.

Theorem run_one_shot_log : forall k m tb p p' (s s' : mstate),
  any_tiebreak k tb -> dom k p -> dom k p' -> profile_equiv p p' -> mstate_equiv s s' ->
  mres_equiv_log two_states (run_one_shot cand ceqb k m tb p s) (run_one_shot cand ceqb k m tb p' s').
Proof.
  intros k m tb p p' s s' Hdet Hd Hd' He Hs. unfold Rules.run_one_shot.
  apply (mbind_log state_equiv).
  - apply mlift_log; [|exact Hs]. apply (round0_anonymous cand ceqb ceqb_spec); assumption.
  - intros s0 s0' s1 s1' H0 Hs1. apply (mbind_log (step_rel k)).
    + apply one_shot_step_log; try assumption. apply H0.
    + intros [np a1] [np' a1'] s2 s2' [_ [H1 _]] Hs2. cbn [fst snd] in H1. apply mret_log; [|exact Hs2].
      exists s0, a1, s0', a1'. split; [reflexivity|split; [reflexivity|split; assumption]].
Qed.

Lemma mres_log_weaken : forall {A} (R R' : A -> A -> Prop) x y,
  (forall a b, R a b -> R' a b) -> mres_equiv_log R x y -> mres_equiv_log R' x y.
Proof.
  intros A R R' x y HR H. unfold AnonRules.mres_equiv_log in *.
  destruct x as [[a s1]|e]; destruct y as [[b s2]|e']; cbn in H |- *; try contradiction; [|exact H].
  destruct H as [H Hs]. split; [apply HR; exact H|exact Hs].
Qed.

Theorem one_shot_script_anonymous : forall k m tb p p' (s : mstate),
  any_tiebreak k tb -> dom k p -> dom k p' -> profile_equiv p p' ->
  mres_equiv_log (Forall2 state_equiv) (run_one_shot cand ceqb k m tb p s) (run_one_shot cand ceqb k m tb p' s).
Proof.
  intros k m tb p p' s Hdet Hd Hd' He.
  apply (mres_log_weaken two_states); [apply (two_states_Forall2 cand)|].
  apply run_one_shot_log; try assumption. apply mstate_equiv_refl.
Qed.

Lemma run_plurality_log : forall m tb p p' (s s' : mstate),
  dom SKFpv p -> dom SKFpv p' -> profile_equiv p p' -> mstate_equiv s s' ->
  mres_equiv_log two_states (run_plurality cand ceqb m tb p s) (run_plurality cand ceqb m tb p' s').
Proof.
  intros m tb p p' s s' Hd Hd' He Hs. unfold Rules.run_plurality, mbind, mlift.
  rewrite (ranking_validate_wf cand p (proj1 (proj2 Hd))), (ranking_validate_wf cand p' (proj1 (proj2 Hd'))).
  cbn [ok]. apply run_one_shot_log; try assumption. right. exact I.
Qed.

Theorem plurality_script_anonymous : forall m tb p p' (s : mstate),
  dom SKFpv p -> dom SKFpv p' -> profile_equiv p p' ->
  mres_equiv_log (Forall2 state_equiv) (run_rule cand ceqb (RPlurality m tb) p s)
                                       (run_rule cand ceqb (RPlurality m tb) p' s).
Proof.
  intros m tb p p' s Hd Hd' He. cbn [Rules.run_rule].
  apply (mres_log_weaken two_states); [apply (two_states_Forall2 cand)|].
  apply run_plurality_log; try assumption. apply mstate_equiv_refl.
Qed.

Theorem borda_script_anonymous : forall m v tb p p' (s : mstate),
  dom SKBorda p -> dom SKBorda p' -> profile_equiv p p' ->
  mres_equiv_log (Forall2 state_equiv) (run_rule cand ceqb (RBorda m v tb) p s)
                                       (run_rule cand ceqb (RBorda m v tb) p' s).
Proof.
  intros m v tb p p' s Hd Hd' He. cbn [Rules.run_rule]. unfold Rules.default_borda.
  rewrite <- (Permutation_length (proj2 He)).
  set (v' := match v with Some (x :: l) => x :: l | _ => borda_vector (length (cands p)) end).
  unfold mbind, mlift. destruct (validate_vector v') as [[]|e]; [|exact eq_refl].
  cbn [ok]. rewrite (ranking_validate_wf cand p (proj1 (proj2 Hd))), (ranking_validate_wf cand p' (proj1 (proj2 Hd'))).
  cbn [ok]. apply one_shot_script_anonymous.
  - right. exact I.
  - split; [apply Hd|apply (proj2 Hd)].
  - split; [apply Hd'|apply (proj2 Hd')].
  - exact He.
Qed.

(* ------------------------------------------------------------------ *)
(** * CondoBorda and TopTwo *)

Theorem condo_script_anonymous : forall m p p' (s : mstate),
  dom SKBorda p -> dom SKBorda p' -> profile_equiv p p' ->
  mres_equiv_log (Forall2 state_equiv) (run_rule cand ceqb (RCondoBorda m) p s)
                                       (run_rule cand ceqb (RCondoBorda m) p' s).
Proof.
  intros m p p' s Hd Hd' He. cbn [Rules.run_rule].
  assert (Hw : wf_profile p) by apply Hd. assert (Hw' : wf_profile p') by apply Hd'.
  assert (Hpw : pw_domain cand p) by (split; [exact Hw|apply Hd]).
  assert (Hpw' : pw_domain cand p') by (split; [exact Hw'|apply Hd']).
  pose proof (mstate_equiv_refl cand ceqb s) as Hs.
  unfold Rules.run_condo. apply (mbind_log (fun _ _ => True)).
  { apply mlift_log; [|exact Hs].
    rewrite (ranking_validate_wf cand p Hw), (ranking_validate_wf cand p' Hw'). exact I. }
  intros _ _ s1 s1' _ Hs1. apply (mbind_log state_equiv).
  { apply mlift_log; [|exact Hs1]. apply (round0_anonymous cand ceqb ceqb_spec); assumption. }
  intros s0 s0' s2 s2' H0 Hs2. apply (mbind_log (step_rel SKBorda)).
  - unfold Rules.condo_step. apply (mbind_log groups_equiv).
    + apply mlift_log; [|exact Hs2]. apply (dominating_tiers_anonymous cand ceqb ceqb_spec); assumption.
    + intros t t' s3 s3' Ht Hs3. apply (mbind_log elect_equiv_tb).
      * apply elect_top_m_log; [exact Ht| |exact Hs3]. right. cbn [C08_rules.popt_ok].
        split; [exact Hw|split; [exact Hw'|exact He]].
      * intros [[el rem] tb] [[el' rem'] tb'] s4 s4' [Hel [Hrm Htb]] Hs4. cbn [fst snd] in Hel, Hrm, Htb.
        destruct (remove_cand_prof_anonymous cand ceqb ceqb_spec (flat el) (flat el') p p'
                    (dom_nodup cand _ p Hd) (dom_nodup cand _ p' Hd')
                    (dom_nonneg cand _ p Hd) (dom_nonneg cand _ p' Hd')
                    (perm_flat_seteq cand el el' Hel) He) as [np [np' [Enp [Enp' Hnp]]]].
        unfold mbind, mlift. rewrite Enp, Enp'. cbn [ok].
        pose proof (dom_remove cand ceqb ceqb_spec SKBorda _ p np Hd Enp) as Hdn.
        pose proof (dom_remove cand ceqb ceqb_spec SKBorda _ p' np' Hd' Enp') as Hdn'.
        pose proof (borda_scores_anonymous cand ceqb ceqb_spec np np' (proj1 (proj2 Hdn)) (proj1 (proj2 Hdn')) Hnp) as H2.
        destruct (borda_scores cand ceqb np) as [d1|e2]; destruct (borda_scores cand ceqb np') as [d1'|e2'];
          cbn [res_equiv] in H2; try contradiction; [|subst e2'; exact eq_refl].
        apply mret_log; [|exact Hs4].
        split; [exact Hnp|]. split; [|split; assumption]. cbn [fst snd].
        repeat split; cbn [rnd remaining elected eliminated tiebreaks escores];
          try apply no_group_equiv; try assumption; try apply H2.
        apply opt_tb_list. exact Htb.
  - intros [np a1] [np' a1'] s3 s3' [_ [H1 _]] Hs3. cbn [fst snd] in H1. apply mret_log; [|exact Hs3].
    constructor; [exact H0|constructor; [exact H1|constructor]].
Qed.

Lemma plurality_stage_log : forall m tb p p' (prev prev' : estate) (s s' : mstate),
  dom SKFpv p -> dom SKFpv p' -> profile_equiv p p' -> rnd prev = rnd prev' -> mstate_equiv s s' ->
  mres_equiv_log (step_rel SKFpv) (plurality_stage cand ceqb m tb p prev s)
                                  (plurality_stage cand ceqb m tb p' prev' s').
Proof.
  intros m tb p p' prev prev' s s' Hd Hd' He Hrnd Hs. unfold Rules.plurality_stage.
  apply (mbind_log two_states).
  - apply run_plurality_log; assumption.
  - intros x y s1 s1' [a0 [a1 [b0 [b1 [-> [-> [_ H1]]]]]]] Hs1.
    destruct H1 as [_ [Hrem [Hel [_ [Htb _]]]]].
    destruct (remove_cand_prof_anonymous cand ceqb ceqb_spec (flat (remaining a1)) (flat (remaining b1)) p p'
                (dom_nodup cand _ p Hd) (dom_nodup cand _ p' Hd')
                (dom_nonneg cand _ p Hd) (dom_nonneg cand _ p' Hd')
                (perm_flat_seteq cand _ _ Hrem) He) as [np [np' [Enp [Enp' Hnp]]]].
    unfold mbind, mlift. rewrite Enp, Enp'. cbn [ok].
    pose proof (dom_remove cand ceqb ceqb_spec SKFpv _ p np Hd Enp) as Hdn.
    pose proof (dom_remove cand ceqb ceqb_spec SKFpv _ p' np' Hd' Enp') as Hdn'.
    pose proof (first_place_votes_anonymous cand ceqb ceqb_spec np np' (proj1 (proj2 Hdn)) (proj1 (proj2 Hdn')) Hnp) as H2.
    destruct (first_place_votes cand ceqb np) as [d1|e2]; destruct (first_place_votes cand ceqb np') as [d1'|e2'];
      cbn [res_equiv] in H2; try contradiction; [|subst e2'; exact eq_refl].
    apply mret_log; [|exact Hs1].
    split; [exact Hnp|]. split; [|split; assumption]. cbn [fst snd].
    repeat split; cbn [rnd remaining elected eliminated tiebreaks escores];
      try apply no_group_equiv; try assumption; try apply H2.
    + rewrite Hrnd. reflexivity.
    + apply real_groups_equiv. exact Hel.
Qed.

Theorem toptwo_script_anonymous : forall tb p p' (s : mstate),
  dom SKFpv p -> dom SKFpv p' -> profile_equiv p p' ->
  mres_equiv_log (Forall2 state_equiv) (run_rule cand ceqb (RTopTwo tb) p s) (run_rule cand ceqb (RTopTwo tb) p' s).
Proof.
  intros tb p p' s Hd Hd' He. cbn [Rules.run_rule].
  pose proof (mstate_equiv_refl cand ceqb s) as Hs.
  unfold Rules.run_toptwo. apply (mbind_log (fun _ _ => True)).
  { apply mlift_log; [|exact Hs].
    rewrite (ranking_validate_wf cand p (proj1 (proj2 Hd))), (ranking_validate_wf cand p' (proj1 (proj2 Hd'))).
    exact I. }
  intros _ _ s1 s1' _ Hs1. apply (mbind_log state_equiv).
  { apply mlift_log; [|exact Hs1]. apply (round0_anonymous cand ceqb ceqb_spec); assumption. }
  intros s0 s0' s2 s2' H0 Hs2. apply (mbind_log (step_rel SKFpv)).
  { apply plurality_stage_log; try assumption. apply H0. }
  intros [p1 a1] [p1' a1'] s3 s3' [Hp1 [Ha1 [Hd1 Hd1']]] Hs3. cbn [fst snd] in Hp1, Ha1, Hd1, Hd1'.
  apply (mbind_log two_states).
  { apply run_plurality_log; assumption. }
  intros x y s4 s4' [q0 [q1 [r0 [r1 [-> [-> [Hq0 Hq1]]]]]]] Hs4.
  apply (mbind_log (step_rel SKFpv)).
  { apply one_shot_step_log; try assumption; [right; exact I|apply Hq0]. }
  intros _ _ s5 s5' _ Hs5. apply mret_log; [|exact Hs5].
  constructor; [exact H0|constructor; [exact Ha1|constructor; [|constructor]]].
  destruct Hq1 as [_ [A [B [C [D E]]]]].
  repeat split; cbn [rnd remaining elected eliminated tiebreaks escores]; try assumption; apply E.
Qed.

End ScriptAnon.
