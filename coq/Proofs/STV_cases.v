(* Proofs/STV_cases.v — C02, round legality in declarative form: a successful round from a valid
   profile is an election (E), a default election (D) or an elimination (X) in the sense of
   Spec/STVSpec.v; an unbreakable tie for the single seat of a one-by-one round raises ValueError. *)
From VK Require Import Base Core STV EditSpec ScoreSpec STVSpec.
From VK.Proofs Require Import Lib_sets Lib_rk Lib_condense Lib_condense12 C12_edit C03_transfer
  C04_scoring Elect STV_lib STV_wsum STV_tb STV_step STV_round STV_threshold STV_weights STV_inv.
From Coq Require Import Permutation Lia Lqa Setoid Morphisms.

Section WithCand.
Variable cand : Type.
Variable ceqb : cand -> cand -> bool.
Hypothesis ceqb_spec : forall a b, reflect (a = b) (ceqb a b).

Notation cset := (cset cand).
Notation ranking := (ranking cand).
Notation ballot := (ballot cand).
Notation profile := (profile cand).
Notation mstate := (mstate cand).
Notation estate := (estate cand).
Notation flat := (flat cand).
Notation set_diff := (set_diff cand ceqb).
Notation tally := (tally cand ceqb).
Notation wf_stv0 := (wf_stv0 cand).
Notation state_of := (state_of cand ceqb).
Notation step_ctx := (step_ctx cand ceqb).
Notation script_ok := (script_ok cand).
Notation reaches := (reaches cand ceqb).
Notation max_tally := (max_tally cand ceqb).
Notation min_tally := (min_tally cand ceqb).
Notation tied_with := (tied_with cand ceqb).
Notation sorted_by_tally := (sorted_by_tally cand ceqb).
Notation elect_case := (elect_case cand ceqb).
Notation default_case := (default_case cand ceqb).
Notation elim_case := (elim_case cand ceqb).
Notation singletons := (singletons cand).
Notation tiebreak_set := (tiebreak_set cand ceqb).
Notation stv_step := (stv_step cand ceqb).
Notation lookup0 := (lookup0 cand ceqb).
Notation first_place_votes := (first_place_votes cand ceqb).

(* a first-place tie-break on the initial profile lists the candidates by non-increasing tally *)
Lemma tiebreak_sorted : forall low (p0 : profile) (s s' : mstate) l,
  wf_stv0 p0 -> incl l (cands p0) ->
  tiebreak_set low (Some p0) TBFirstPlace s = inl (singletons l, s') ->
  sorted_by_tally p0 l.
Proof.
  intros low p0 s s' l Hwf Hincl H pre a mid b post Hl.
  destruct (fpv_succeeds cand ceqb ceqb_spec p0 Hwf) as [d0 Hd0].
  assert (Ha : In a (cands p0)).
  { apply Hincl. rewrite Hl. apply in_or_app. right. left. reflexivity. }
  assert (Hb : In b (cands p0)).
  { apply Hincl. rewrite Hl. apply in_or_app. right. right. apply in_or_app. right. left. reflexivity. }
  destruct (fpv_lookup cand ceqb ceqb_spec p0 d0 Hwf Hd0 a Ha) as [Hpa Hta].
  destruct (fpv_lookup cand ceqb ceqb_spec p0 d0 Hwf Hd0 b Hb) as [Hpb Htb].
  rewrite <- Hta, <- Htb.
  apply (tiebreak_set_order cand ceqb ceqb_spec low p0 TBFirstPlace s s' (singletons l) d0
           (or_introl (conj eq_refl Hd0)) (proj1 Hwf) H l pre a mid b post _ _ eq_refl Hl Hpa Hpb).
Qed.

Section Ctx.
Variable cfg : stv_cfg.
Variable t : Q.
Variables p0 p : profile.
Variable prev : estate.
Hypothesis Hctx : step_ctx p0 p prev.

Let r := remaining prev.
Let cs := cands p.
Let bs := ballots p.

(* the first group of the ranking: exactly the candidates of maximal tally *)
Lemma first_group_tied : forall g rest w, r = g :: rest -> In w g -> max_tally p w /\ tied_with p w g.
Proof.
  intros g rest w Hr Hw.
  assert (Hg : In g r) by (rewrite Hr; left; reflexivity).
  pose proof (ctx_group_in cand ceqb p0 p prev Hctx g w Hg Hw) as Hwc.
  split.
  - split; [exact Hwc|]. intros c Hc.
    apply (ctx_first_max cand ceqb ceqb_spec p0 p prev Hctx g rest w c Hr Hw Hc).
  - intros c. split.
    + intros Hc. split; [apply (ctx_group_in cand ceqb p0 p prev Hctx g c Hg Hc)|].
      apply (ctx_same_group cand ceqb ceqb_spec p0 p prev Hctx g c w Hg Hc Hw).
    + intros [Hc Heq]. apply (ctx_flat_in cand ceqb p0 p prev Hctx) in Hc. fold r in Hc. rewrite Hr in Hc.
      unfold Core.flat in Hc. cbn [concat] in Hc. apply in_app_or in Hc. destruct Hc as [Hc|Hc]; [exact Hc|].
      exfalso. apply in_concat_iff in Hc. destruct Hc as (g2 & Hg2 & Hc2).
      apply in_split in Hg2. destruct Hg2 as (mid & post & ->).
      pose proof (ctx_order cand ceqb ceqb_spec p0 p prev Hctx [] g mid g2 post w c Hr Hw Hc2) as Hlt.
      fold bs in Hlt. fold bs in Heq. lra.
Qed.

(* the last group of the ranking: exactly the candidates of minimal tally *)
Lemma last_group_tied : forall pre low x, r = pre ++ [low] -> In x low -> min_tally p x /\ tied_with p x low.
Proof.
  intros pre low x Hr Hx.
  assert (Hg : In low r) by (rewrite Hr; apply in_or_app; right; left; reflexivity).
  pose proof (ctx_group_in cand ceqb p0 p prev Hctx low x Hg Hx) as Hxc.
  split.
  - split; [exact Hxc|]. intros c Hc.
    apply (ctx_last_min cand ceqb ceqb_spec p0 p prev Hctx pre low x c Hr Hx Hc).
  - intros c. split.
    + intros Hc. split; [apply (ctx_group_in cand ceqb p0 p prev Hctx low c Hg Hc)|].
      apply (ctx_same_group cand ceqb ceqb_spec p0 p prev Hctx low c x Hg Hc Hx).
    + intros [Hc Heq]. apply (ctx_flat_in cand ceqb p0 p prev Hctx) in Hc. fold r in Hc. rewrite Hr in Hc.
      rewrite (flat_app cand) in Hc. apply in_app_or in Hc. destruct Hc as [Hc|Hc].
      * exfalso. apply in_concat_iff in Hc. destruct Hc as (g1 & Hg1 & Hc1).
        apply in_split in Hg1. destruct Hg1 as (pre' & mid & ->).
        assert (Hr' : r = pre' ++ g1 :: mid ++ low :: []) by (rewrite Hr, <- app_assoc; reflexivity).
        pose proof (ctx_order cand ceqb ceqb_spec p0 p prev Hctx pre' g1 mid low [] c x Hr' Hc1 Hx) as Hlt.
        fold bs in Hlt. fold bs in Heq. lra.
      * unfold Core.flat in Hc. cbn [concat] in Hc. rewrite app_nil_r in Hc. exact Hc.
Qed.

(* C02: a successful round is a legal step of the documented count *)
Theorem step_cases : forall n (s s' : mstate) np st,
  (s_transfer cfg = TRandom -> script_ok s) ->
  stv_step cfg t p0 n p prev s = inl ((np, st), s') ->
  wf_stv0 np /\ state_of np st /\
  (elect_case cfg t p prev st np \/ default_case cfg t n p prev st np \/ elim_case cfg t n p0 p st np).
Proof.
  intros n s s' np st Hscr Hstep.
  destruct (stv_step_summary cand ceqb ceqb_spec cfg t p0 p prev Hctx n s s' np st Hscr Hstep)
    as (_ & Hwfn & Hst & _).
  split; [exact Hwfn|]. split; [exact Hst|].
  destruct (stv_step_ok_inv cand ceqb ceqb_spec cfg t p0 p prev Hctx n s s' np st Hscr Hstep)
    as [[Hsome (W & others & mvs & s1 & Hr)]|[(Hnone & Hcnt & _ & Hd)|(Hnone & Hcnt & x & Hx)]].
  - left. pose proof Hr as Hr'.
    destruct Hr' as [HrW HrGroups HrNe HrNd HrPart HrReach HrElim HrChoice HrSuf HrTr HrNp HrWf HrSt HrRnd].
    assert (HWin : forall w, In w W -> In w (cands p)).
    { intros w Hw. apply (er_W_in cand ceqb _ _ _ _ _ _ _ _ _ _ _ _ Hr w Hw). }
    unfold STVSpec.elect_case. rewrite HrW.
    split; [destruct Hsome as (c & Hc & Hct); exists c; split; assumption|].
    split; [exact HrElim|]. split; [exact HrNe|]. split; [exact HrNd|].
    split; [intros w Hw; split; [apply HWin; exact Hw|apply HrReach; exact Hw]|].
    split; [apply (er_cands cand ceqb _ _ _ _ _ _ _ _ _ _ _ _ Hr)|].
    destruct (s_simul cfg) eqn:Esim.
    + destruct HrChoice as [(_ & _ & Htb & rest & Hrem & _ & Hun)|(E & _)]; [|congruence].
      split; [|split; [exact Htb|exists rest; exact Hrem]].
      intros c [Hc Hct]. apply (ctx_flat_in cand ceqb p0 p prev Hctx) in Hc.
      rewrite Hrem, (flat_app cand), HrW in Hc. apply in_app_or in Hc. destruct Hc as [Hc|Hc]; [exact Hc|].
      exfalso. apply (Qlt_not_le _ _ (Hun c Hc)). exact Hct.
    + destruct HrChoice as [(E & _)|(_ & w & g & rest & Hrem & Hwg & Hel & Hcase)]; [congruence|].
      destruct (first_group_tied g rest w Hrem Hwg) as [Hmax Htied].
      exists w, g. split; [exact Hel|]. split; [exact Hmax|]. split; [exact Htied|].
      destruct Hcase as [(Hg & Htb & _ & _)|(Hlen & kind & l & Hk & Htb & Hperm & _ & _)].
      * left. split; assumption.
      * right. split; [exact Hlen|]. exists kind, l. split; [exact Hk|]. split; [exact Htb|exact Hperm].
  - right. left. destruct Hd as [Hnp Hel Helim Htb _ _ _].
    unfold STVSpec.default_case. repeat split; assumption.
  - right. right. pose proof Hx as Hx'.
    destruct Hx' as [HxIn (pre & low & Hrem & Hxl & Hcase) HxSuf HxEl HxElim HxNp HxWf HxSt HxRnd].
    destruct (last_group_tied pre low x Hrem Hxl) as [Hmin Htied].
    split; [exact Hnone|]. split; [exact Hcnt|]. exists x, low.
    split; [exact Hmin|]. split; [exact HxEl|]. split; [exact HxElim|].
    split; [apply (xr_cands cand ceqb _ _ _ _ _ _ _ _ Hx)|].
    split; [apply (xr_ballots cand ceqb _ _ _ _ _ _ _ _ Hx)|]. split; [exact Htied|].
    destruct Hcase as [(Hl & Htb & _)|(Hlen & l & Htb & Hperm & Htie)].
    + left. split; assumption.
    + right. split; [exact Hlen|]. exists l. split; [exact Htb|]. split; [exact Hperm|].
      apply (tiebreak_sorted low p0 s s' (l ++ [x]) (ctx_p0 cand ceqb p0 p prev Hctx)); [|exact Htie].
      intros c Hc. apply (ctx_sub cand ceqb p0 p prev Hctx).
      apply (proj1 (proj1 (Htied c) (Permutation_in c Hperm Hc))).
Qed.

(* one-by-one: two or more candidates share the top tally above the threshold and no tie-break was
   requested: ValueError *)
Theorem single_tie_error : forall n (s : mstate) g rest,
  (exists c, reaches t p c) -> s_simul cfg = false -> s_tiebreak cfg = None ->
  r = g :: rest -> (2 <= length g)%nat ->
  stv_step cfg t p0 n p prev s = inr EValue.
Proof.
  intros n s g rest (c & Hc & Hct) Hsim Htb Hr Hlen.
  assert (Hab : above cand t (escores prev) <> []).
  { apply (above_ne_iff cand ceqb ceqb_spec p0 p prev Hctx t). exists c. split; assumption. }
  rewrite (stv_step_single cand ceqb cfg t p0 n p prev s Hab Hsim).
  assert (Hgne : g <> []) by (intros E; rewrite E in Hlen; cbn in Hlen; lia).
  unfold STV.single_elect. unfold mbind at 1. change (remaining prev) with r.
  rewrite Hr, (elect_top_1_eq cand ceqb g rest (Some p) (s_tiebreak cfg) s Hgne), Htb.
  assert (El : Nat.leb (length g) 1 = false) by (apply Nat.leb_gt; lia).
  rewrite El. reflexivity.
Qed.

End Ctx.

End WithCand.
