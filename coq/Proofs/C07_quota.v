(* Proofs/C07_quota.v — C07 with the random transfer: which failures of the count remain possible
   under the hypotheses of c07_droop_pc, and when the random-transfer shortage cannot occur.
   A  integral piles without bullet votes: transferable units = tally, hence no shortage
   B  the invariants along the points a count passes through (random transfer included)
   C  the failures of a Droop / random-transfer run, exactly
   D  no bullet votes in the winners' piles + a fitting script => the run returns (and C07 holds) *)
From Coq Require Import List ZArith QArith Bool Permutation Lia Lqa Qround.
From VK Require Import Base Core STV Rules EditSpec.
From VK.Spec Require Import STVSpec STVErrSpec PCSpec LiveSpec C07QuotaSpec.
From VK.Proofs Require Import STV_lib STV_threshold STV_inv STV_final C03_transfer C01_hare_lib
  C01_live C20_more C07_pc.
Import ListNotations.

Section Quota.
Variable cand : Type.
Variable ceqb : cand -> cand -> bool.
Hypothesis ceqb_spec : forall a b, reflect (a = b) (ceqb a b).

Notation cset := (cset cand).
Notation ballot := (ballot cand).
Notation profile := (profile cand).
Notation estate := (estate cand).
Notation mstate := (mstate cand).
Notation flat := (flat cand).
Notation total_wt := (total_wt cand).
Notation tally := (tally cand ceqb).
Notation wf_stv0 := (wf_stv0 cand).
Notation wf_stv_profile := (wf_stv_profile cand).
Notation integral_weights := (integral_weights cand).
Notation script_ok := (script_ok cand).
Notation stv_inv := (STVSpec.stv_inv cand ceqb).
Notation stv_init := (stv_init cand).
Notation stv_step := (stv_step cand ceqb).
Notation stv_loop := (stv_loop cand ceqb).
Notation run_stv := (run_stv cand ceqb).
Notation initial_state := (initial_state cand ceqb).
Notation count_elected := (count_elected cand).
Notation reaches := (reaches cand ceqb).
Notation reached := (reached cand ceqb).
Notation transferable_units := (transferable_units cand ceqb).
Notation seat_tie_failure := (seat_tie_failure cand ceqb).
Notation shortage := (shortage cand ceqb).
Notation no_bullet := (no_bullet cand ceqb).
Notation no_bullet_piles := (no_bullet_piles cand ceqb).
Notation fitting_script := (fitting_script cand ceqb).

(* ====================== A: no bullet votes => no shortage ====================== *)

Lemma units_eq_tally : forall (w : cand) (bs : list ballot),
  (forall b, In b bs -> is_integral (wt b) = true) ->
  (forall b, In b bs -> first_is cand ceqb w b = true ->
     nonempty (strip cand ceqb [w] (rk b)) = true) ->
  inject_Z (fold_right Z.add 0%Z
     (map (fun b => Qtrunc (wt b))
        (filter (fun b => first_is cand ceqb w b && nonempty (strip cand ceqb [w] (rk b)))
                (filter (first_is cand ceqb w) bs))))
  == tally w bs.
Proof.
  intros w bs. unfold STVSpec.tally, EditSpec.wt_where.
  induction bs as [|b bs IH]; intros Hint Hnb; [reflexivity|].
  assert (IH' := IH (fun b' Hb' => Hint b' (or_intror Hb'))
                    (fun b' Hb' => Hnb b' (or_intror Hb'))).
  cbn [filter]. destruct (first_is cand ceqb w b) eqn:Ef; [|exact IH'].
  cbn [filter]. rewrite Ef, (Hnb b (or_introl eq_refl) Ef). cbn [andb map fold_right qsum].
  rewrite inject_Z_plus, IH', (Qtrunc_integral _ (Hint b (or_introl eq_refl))). reflexivity.
Qed.

Lemma Qfloor_inject : forall q z, q == inject_Z z -> Qfloor q = z.
Proof. intros q z H. rewrite H. apply Qfloor_Z. Qed.

(* integral weights, a pile without bullet votes, a non-negative threshold: no shortage *)
Theorem no_bullet_no_shortage : forall t (pr : profile) w,
  0 <= t -> integral_weights pr -> no_bullet pr w -> ~ shortage t pr w.
Proof.
  intros t pr w Ht Hint Hnb [_ Hlt].
  unfold STVSpec.integral_weights in Hint. rewrite Forall_forall in Hint.
  pose proof (units_eq_tally w (ballots pr) Hint Hnb) as Hu.
  unfold STVErrSpec.transferable_units, Core.pile in Hlt.
  set (u := fold_right Z.add 0%Z _) in *.
  assert (Hf : Qfloor (tally w (ballots pr)) = u).
  { apply Qfloor_inject. symmetry. exact Hu. }
  rewrite Hf in Hlt.
  assert (H0 : (0 <= Qfloor t)%Z).
  { change 0%Z with (Qfloor (inject_Z 0)). rewrite Qfloor_Z.
    rewrite <- (Qfloor_Z 0). apply Qfloor_resp_le. exact Ht. }
  lia.
Qed.

(* ====================== B: the points a count passes through ====================== *)

Section Pass.
Variable cfg : stv_cfg.
Variables t N : Q.
Variable p0 : profile.
Hypothesis Hk : s_transfer cfg <> TFullWeight.
Hypothesis HN : N < inject_Z (s_m cfg + 1) * t.
Hypothesis Ht : 0 < t.

Lemma reached_inv_gen : forall pa stsa (sa : mstate) pb stsb sb,
  reached cfg t p0 pa stsa sa pb stsb sb ->
  stv_inv cfg t N p0 pa stsa -> (count_elected stsa <= s_m cfg)%Z ->
  (s_transfer cfg = TRandom -> script_ok sa /\ integral_weights pa) ->
  stv_inv cfg t N p0 pb stsb /\ (count_elected stsb <= s_m cfg)%Z /\
  (s_transfer cfg = TRandom -> script_ok sb /\ integral_weights pb).
Proof.
  intros pa stsa sa pb stsb sb H Hinv Hle Hr.
  induction H as [|pr prev older s1 np st s2 Hre IH Hcnt Hstep]; [split; [exact Hinv|split; [exact Hle|exact Hr]]|].
  destruct IH as (Hinv1 & Hle1 & Hr1).
  assert (Hscr1 : s_transfer cfg = TRandom -> script_ok s1) by (intros E; apply (Hr1 E)).
  destruct (stv_inv_step cand ceqb ceqb_spec cfg t N p0 pr prev older s1 s2 np st Hinv1 Hscr1 Hstep)
    as [Hinv2 Hsuf].
  split; [exact Hinv2|]. split.
  - apply (droop_step_count cand ceqb ceqb_spec cfg t N p0 Hk HN Ht pr prev older s1 s2 np st
             Hinv1 Hscr1 Hle1 Hstep).
  - intros E. destruct (Hr1 E) as [Hs1 Hi1]. split.
    + apply (script_ok_suffix cand s1 s2 Hsuf). exact Hs1.
    + apply (step_integral cand ceqb ceqb_spec cfg t p0 pr prev
               (inv_ctx_head cand ceqb cfg t N p0 pr prev older Hinv1) _ s1 s2 np st E Hs1 Hi1 Hstep).
Qed.

End Pass.

(* ====================== C: the failures of a Droop count, random transfer included ========== *)

(* what a failing round of a Droop count with the fractional or random transfer looks like, at a
   point where at most m are elected and (random transfer) the weights are whole numbers *)
Lemma droop_round_failure : forall cfg t N (p0 pr : profile) prev older (s1 : mstate) e,
  stv_inv cfg t N p0 pr (prev :: older) -> (count_elected (prev :: older) <= s_m cfg)%Z ->
  0 < t ->
  (s_transfer cfg = TRandom -> script_ok s1 /\ integral_weights pr) ->
  stv_step cfg t p0 (count_elected (prev :: older)) pr prev s1 = inr e ->
  seat_tie_failure cfg t pr prev s1 e \/
  (s_transfer cfg = TRandom /\ e = EValue /\ exists w, shortage t pr w) \/
  e = EScript.
Proof.
  intros cfg t N p0 pr prev older s1 e Hinv Hle Ht Hr Hstep.
  assert (Hscr1 : s_transfer cfg = TRandom -> script_ok s1) by (intros E; apply (Hr E)).
  destruct (step_failure cand ceqb ceqb_spec cfg t N p0 pr prev older s1 e Hinv Hscr1 Hstep)
    as [Hf|[Hf|[Hf|[Hf|Hf]]]].
  - left. exact Hf.
  - exfalso. destruct Hf as (_ & _ & Hz & _). lra.
  - destruct Hf as (Ek & w & Hw & [[-> (b & Hb & _ & Hbad)]|[[-> Hsh]| ->]]).
    + exfalso. destruct (Hr Ek) as [_ Hi]. unfold STVSpec.integral_weights in Hi.
      rewrite Forall_forall in Hi. rewrite (Hi b Hb) in Hbad. discriminate.
    + right. left. split; [exact Ek|]. split; [reflexivity|]. exists w. split; assumption.
    + right. right. reflexivity.
  - right. right. destruct Hf as (-> & _). reflexivity.
  - exfalso. destruct Hf as (_ & _ & Hgt). lia.
Qed.

(* a failing Droop run (fractional or random transfer) on a valid-or-empty profile *)
Theorem droop_run_errors : forall cfg (p : profile) (s : mstate) e,
  wf_stv0 p -> s_quota cfg = QDroop -> s_transfer cfg <> TFullWeight ->
  (s_transfer cfg = TRandom -> script_ok s) ->
  run_stv cfg p s = inr e ->
  (e = EValue /\ ~ (1 <= s_m cfg <= Z.of_nat (length (cands p)))%Z) \/
  (e = EType /\ s_transfer cfg = TRandom /\ ~ integral_weights p) \/
  exists t s0 (pr : profile) prev older (s1 : mstate),
    stv_init cfg p = inl t /\ initial_state p = inl s0 /\
    reached cfg t p p [s0] s pr (prev :: older) s1 /\
    count_elected (prev :: older) <> s_m cfg /\
    stv_step cfg t p (count_elected (prev :: older)) pr prev s1 = inr e /\
    (seat_tie_failure cfg t pr prev s1 e \/
     (s_transfer cfg = TRandom /\ e = EValue /\ exists w, shortage t pr w) \/
     e = EScript).
Proof.
  intros cfg p s e Hwf Hq Hk Hscr H.
  pose proof (run_stv_no_fuel cand ceqb ceqb_spec cfg p s Hwf Hscr) as Hnf.
  rewrite (run_stv_unfold cand ceqb) in H, Hnf.
  destruct (stv_init cfg p) as [t|e0] eqn:Ei.
  - right. right. destruct (initial_state_ok cand ceqb ceqb_spec p Hwf) as [s0 E0]. rewrite E0 in H, Hnf.
    destruct (run_facts cand ceqb cfg p t s0 Hwf Hq Ei E0) as (HN & Ht & Hinv & Hle & _).
    assert (Hint : s_transfer cfg = TRandom -> script_ok s /\ integral_weights p).
    { intros E. split; [apply Hscr; exact E|].
      exact (stv_init_ok_integral cand cfg p t Ei E). }
    destruct (loop_err_reached cand ceqb cfg t p _ p s0 [] s e H)
      as [->|(pr & prev & older & s1 & Hre & Hc & Hs)]; [exfalso; apply Hnf; exact H|].
    destruct (reached_inv_gen cfg t _ p Hk HN Ht p [s0] s pr (prev :: older) s1 Hre Hinv Hle Hint)
      as (Hinv1 & Hle1 & Hr1).
    exists t, s0, pr, prev, older, s1. repeat (split; [first [reflexivity|assumption]|]).
    apply (droop_round_failure cfg t _ p pr prev older s1 e Hinv1 Hle1 Ht Hr1 Hs).
  - injection H as <-.
    destruct (stv_init_err_gen cand cfg p e0 Hwf Ei) as [(-> & Ek & Hn)|(-> & _ & [Hc|Hc])].
    + right. left. split; [reflexivity|]. split; assumption.
    + left. split; [reflexivity|exact Hc].
    + congruence.
Qed.

(* ====================== D: no bullet votes + fitting script => the run returns ========== *)

Theorem droop_random_live : forall cfg (p : profile) (s : mstate),
  wf_stv0 p -> s_quota cfg = QDroop -> s_transfer cfg = TRandom ->
  script_ok s -> integral_weights p ->
  (1 <= s_m cfg <= Z.of_nat (length (cands p)))%Z -> can_break cfg ->
  no_bullet_piles cfg p s -> fitting_script cfg p s ->
  exists out s', run_stv cfg p s = inl (out, s').
Proof.
  intros cfg p s Hwf Hq Ek Hscr Hint Hm Hcb Hnb Hfit.
  destruct (run_stv cfg p s) as [[out s']|e] eqn:Hrun; [exists out, s'; reflexivity|exfalso].
  assert (Hk : s_transfer cfg <> TFullWeight) by (rewrite Ek; discriminate).
  destruct (droop_run_errors cfg p s e Hwf Hq Hk (fun _ => Hscr) Hrun)
    as [[_ Hbad]|[(_ & _ & Hbad)|(t & s0 & pr & prev & older & s1 & Ei & E0 & Hre & Hc & Hs & Hcase)]];
    [contradiction|contradiction|].
  assert (HES : e <> EScript).
  { intros ->. apply (Hfit t s0 pr prev older s1 Ei E0 Hre Hc). exact Hs. }
  destruct Hcase as [Hf|[(_ & _ & w & Hsh)|He]]; [| |contradiction].
  - destruct Hf as (Hsim & g & rest & _ & _ & _ & [[_ [Hn|Hi]]|[He _]]); [| |contradiction].
    + destruct Hcb as [Hs1|(kind & Hkd & _)]; congruence.
    + destruct Hcb as [Hs1|(kind & Hkd & Hne)]; [congruence|]. rewrite Hkd in Hi.
      injection Hi as ->. apply Hne. reflexivity.
  - destruct (run_facts cand ceqb cfg p t s0 Hwf Hq Ei E0) as (HN & Ht & Hinv & Hle & _).
    destruct (reached_inv_gen cfg t _ p Hk HN Ht p [s0] s pr (prev :: older) s1 Hre Hinv Hle
                (fun _ => conj Hscr Hint)) as (_ & _ & Hr1).
    apply (no_bullet_no_shortage t pr w); [lra|apply (Hr1 Ek)| |exact Hsh].
    apply (Hnb t s0 pr prev older s1 w Ei E0 Hre Hc). apply Hsh.
Qed.

(* C07 for the random transfer without the proviso "if the count returns" *)
Theorem droop_pc_random_live : forall cfg (p : profile) (A : cset) (k : nat) t (s : mstate),
  wf_stv_profile p -> s_quota cfg = QDroop -> s_transfer cfg = TRandom ->
  script_ok s -> integral_weights p ->
  (1 <= s_m cfg <= Z.of_nat (length (cands p)))%Z -> can_break cfg ->
  NoDup A -> incl A (cands p) -> stv_init cfg p = inl t ->
  Qnat k * t <= coal_wt cand ceqb A (ballots p) ->
  no_bullet_piles cfg p s -> fitting_script cfg p s ->
  exists out s', run_stv cfg p s = inl (out, s') /\
    (Nat.min k (Nat.min (length A) (Z.to_nat (s_m cfg)))
     <= winners_in cand ceqb A (flat (elected_upto cand out (length out - 1))))%nat.
Proof.
  intros cfg p A k t s Hwf Hq Ek Hscr Hint Hm Hcb HA Hincl Ei Hcoal Hnb Hfit.
  destruct (droop_random_live cfg p s (proj1 Hwf) Hq Ek Hscr Hint Hm Hcb Hnb Hfit) as (out & s' & Hrun).
  exists out, s'. split; [exact Hrun|].
  apply (droop_pc cand ceqb ceqb_spec cfg p A k t s s' out Hwf Hq); try assumption.
  - rewrite Ek. discriminate.
  - intros _. exact Hscr.
Qed.

(* forward reading of [reached], to enumerate the points of a concrete count *)
Lemma reached_head : forall cfg t p0 pa stsa (sa : mstate) pb stsb sb,
  reached cfg t p0 pa stsa sa pb stsb sb ->
  (pb = pa /\ stsb = stsa /\ sb = sa) \/
  exists prev older np st s2, stsa = prev :: older /\
    count_elected (prev :: older) <> s_m cfg /\
    stv_step cfg t p0 (count_elected (prev :: older)) pa prev sa = inl ((np, st), s2) /\
    reached cfg t p0 np (st :: prev :: older) s2 pb stsb sb.
Proof.
  intros cfg t p0 pa stsa sa pb stsb sb H.
  induction H as [|pr prev older s1 np st s2 Hre IH Hcnt Hstep]; [left; repeat split|].
  right. destruct IH as [(-> & <- & ->)|(prev' & older' & np' & st' & s2' & -> & Hc' & Hs' & Hre')].
  - exists prev, older, np, st, s2. repeat (split; [first [reflexivity|assumption]|]).
    apply reached_here.
  - exists prev', older', np', st', s2'. repeat (split; [first [reflexivity|assumption]|]).
    apply (reached_next cand ceqb cfg t p0 np' (st' :: prev' :: older') s2' pr prev older s1 np st s2
             Hre' Hcnt Hstep).
Qed.

(* executable test of [no_bullet] *)
Definition no_bullet_b (pr : profile) (w : cand) : bool :=
  forallb (fun b => implb (first_is cand ceqb w b) (nonempty (strip cand ceqb [w] (rk b)))) (ballots pr).

Lemma no_bullet_b_ok : forall pr w, no_bullet_b pr w = true -> no_bullet pr w.
Proof.
  intros pr w H b Hb Hf. unfold no_bullet_b in H. rewrite forallb_forall in H.
  specialize (H b Hb). rewrite Hf in H. exact H.
Qed.

End Quota.
