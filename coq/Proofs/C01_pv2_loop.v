(* Proofs/C01_pv2_loop.v — the PluralityVeto loop (Model/PV.v, [pv_loop]) under the invariant of
   C01_pv2_inv.v:
   L1 [pv_elect_facts]      the electing round: exactly the standing candidates, m of them;
   L2 [pv_step_err]         the only failures of an eliminating round;
   L3 [pv_loop_ok]          shape of every successful loop;
   L4 [pv_never_success]    fewer standing candidates than seats: the loop never returns;
   L5 [pv_loop_err], [pv_loop_fuel_enough], [pv_loop_spin]  errors, termination, non-termination. *)
From VK Require Import Base Core STV Rules PV.
From VK.Spec Require Import ScoreSpec STVSpec RunSpec.
From VK.Proofs Require Import Lib_sets C04_scoring Elect C12_edit C20_validation STV_tb STV_inv C08_anon
  C01_lib C01_pv C01_pv2_lib C01_pv2_veto C01_pv2_scores C01_pv2_inv.
From Coq Require Import Permutation Lia Lqa.

Arguments iv_elim_nd {cand ceqb cs nb notie o p prev older}.
Arguments iv_elim_in {cand ceqb cs nb notie o p prev older}.
Arguments iv_bal {cand ceqb cs nb notie o p prev older}.
Arguments iv_len {cand ceqb cs nb notie o p prev older}.
Arguments iv_order {cand ceqb cs nb notie o p prev older}.
Arguments iv_pc_nd {cand ceqb cs nb notie o p prev older}.
Arguments iv_pc {cand ceqb cs nb notie o p prev older}.
Arguments iv_okb {cand ceqb cs nb notie o p prev older}.
Arguments iv_tie {cand ceqb cs nb notie o p prev older}.
Arguments iv_el {cand ceqb cs nb notie o p prev older}.
Arguments iv_x {cand ceqb cs nb notie o p prev older}.
Arguments iv_rem {cand ceqb cs nb notie o p prev older}.
Arguments iv_knd {cand ceqb cs nb notie o p prev older}.
Arguments iv_keys {cand ceqb cs nb notie o p prev older}.
Arguments iv_nn {cand ceqb cs nb notie o p prev older}.
Arguments iv_sum {cand ceqb cs nb notie o p prev older}.
Arguments iv_first {cand ceqb cs nb notie o p prev older}.
Arguments iv_r0 {cand ceqb cs nb notie o p prev older}.
Arguments iv_rnd {cand ceqb cs nb notie o p prev older}.
Arguments iv_parts {cand ceqb cs nb notie o p prev older}.

Section Loop.
Variable cand : Type.
Variable ceqb : cand -> cand -> bool.
Hypothesis ceqb_spec : forall a b, reflect (a = b) (ceqb a b).

Notation cset := (cset cand).
Notation ranking := (ranking cand).
Notation ballot := (ballot cand).
Notation profile := (profile cand).
Notation scores := (scores cand).
Notation estate := (estate cand).
Notation mstate := (mstate cand).
Notation flat := (flat cand).
Notation wf_ranking := (wf_ranking cand).
Notation wf_profile := (wf_profile cand).
Notation first_place_votes := (first_place_votes cand ceqb).
Notation borda_scores := (borda_scores cand ceqb).
Notation score_rankings := (score_rankings cand ceqb).
Notation tiebreak_set := (tiebreak_set cand ceqb).
Notation dedup := (dedup cand ceqb).
Notation pv_obj := (pv_obj cand).
Notation pv_step := (pv_step cand ceqb).
Notation pv_loop := (pv_loop cand ceqb).
Notation count_elected := (count_elected cand).
Notation all_elected := (all_elected cand).
Notation all_eliminated := (all_eliminated cand).
Notation elected_in := (elected_in cand).
Notation eliminated_in := (eliminated_in cand).
Notation parts := (parts cand).
Notation nlive := (nlive cand).
Notation tb_rec_ok := (tb_rec_ok cand ceqb).

(* ------------------------------------------------------------------ *)
(** * errors of a tie-break behind which stands a run profile *)

Lemma tiebreak_set_err_gen : forall g (pr : profile) kind (s : mstate) e,
  tiebreak_set g (Some pr) kind s = inr e ->
  e = EScript \/ (kind = TBInvalid /\ e = EValue) \/
  (kind = TBFirstPlace /\ first_place_votes pr = inr e) \/
  (kind = TBBorda /\ borda_scores pr = inr e).
Proof.
  intros g pr kind s e H. unfold Core.tiebreak_set in H. destruct kind.
  - left. unfold mbind in H. destruct (draw_perm cand ceqb g s) as [[l s1]|e'] eqn:E; [discriminate|].
    injection H as <-. apply (draw_perm_err cand ceqb _ _ _ E).
  - unfold mbind, mlift in H. destruct (first_place_votes pr) as [d|e'] eqn:Ed.
    + left. cbn in H.
      match type of H with (if ?c then _ else _) _ = _ => destruct c end;
        [apply (random_break_err cand ceqb _ _ _ H)|discriminate].
    + right. right. left. split; [reflexivity|]. cbn in H. injection H as <-. reflexivity.
  - unfold mbind, mlift in H. destruct (borda_scores pr) as [d|e'] eqn:Ed.
    + left. cbn in H.
      match type of H with (if ?c then _ else _) _ = _ => destruct c end;
        [apply (random_break_err cand ceqb _ _ _ H)|discriminate].
    + right. right. right. split; [reflexivity|]. cbn in H. injection H as <-. reflexivity.
  - right. left. injection H as <-. split; reflexivity.
Qed.

(* positional scoring of a profile whose ballots are exhausted or well-formed fails only with
   TypeError, on an exhausted ballot *)
Lemma score_err_dead : forall (pr : profile) v e,
  valid_vector v -> NoDup (cands pr) ->
  (forall b, In b (ballots pr) -> rk b = [] \/ wf_ranking (cands pr) (rk b)) ->
  score_rankings pr v = inr e ->
  e = EType /\ exists b, In b (ballots pr) /\ rk b = [].
Proof.
  intros pr v e Hv Hnd Hbs H.
  destruct (add_missing cand ceqb pr) as [p'|e'] eqn:Eam.
  - exfalso.
    assert (Hwf : wf_profile pr).
    { split; [exact Hnd|]. apply Forall_forall. intros b Hb. destruct (Hbs b Hb) as [Hr|Hw]; [|exact Hw].
      exfalso.
      assert (Herr : add_missing cand ceqb pr = inr EType).
      { apply (add_missing_error cand ceqb). split; [reflexivity|]. exists b. split; assumption. }
      congruence. }
    destruct (c04_scored_proof cand ceqb ceqb_spec pr v Hwf Hv) as [d Hd]. congruence.
  - apply (add_missing_error cand ceqb) in Eam as Ham. destruct Ham as [-> Hex].
    unfold Core.score_rankings in H. rewrite (proj2 (validate_vector_iff v) Hv) in H. cbn [rbind] in H.
    cbv zeta in H. rewrite Eam in H. cbn [rbind] in H. injection H as <-. split; [reflexivity|exact Hex].
Qed.

Variable cs : cset.
Hypothesis Hcs : NoDup cs.
Variable tb : option tb_kind.
Variable nb : nat.
Variable notie : bool.
Variable m : Z.
Variable n : nat.
Hypothesis Hn : n = length cs.
Hypothesis Hmpos : (0 < m)%Z.
Hypothesis Htbnt : tb = None -> notie = true.

Notation pv_inv := (pv_inv cand ceqb cs nb notie).
Notation standing := (standing cand ceqb cs).
Notation round_elim := (round_elim cand).
Notation zeros := (zeros cand).

(* the errors a configured tie-break can produce during a run *)
Definition tie_err_class (e : exn) : Prop :=
  (tb <> None /\ e = EScript) \/ (tb = Some TBInvalid /\ e = EValue) \/
  ((tb = Some TBFirstPlace \/ tb = Some TBBorda) /\ e = EType).

Lemma inv_tiebreak_err : forall o p prev older k g (s1 : mstate) e,
  pv_inv o p prev older -> tb = Some k ->
  tiebreak_set g (Some p) k s1 = inr e -> tie_err_class e.
Proof.
  intros o p prev older k g s1 e Hinv Hk H.
  assert (Hbs : forall b, In b (ballots p) -> rk b = [] \/ wf_ranking (cands p) (rk b)).
  { intros b Hb. rewrite (iv_bal Hinv) in Hb.
    pose proof (iv_okb Hinv) as Hok. rewrite Forall_forall in Hok.
    destruct (Hok b Hb) as [[Hr _]|[Hw _]]; [left; exact Hr|right].
    eapply wf_ranking_incl; [exact Hw|]. intros c Hc. apply (iv_pc Hinv).
    destruct Hw as [_ [_ [_ Hincl]]]. apply Hincl. exact Hc. }
  destruct (tiebreak_set_err_gen _ _ _ _ _ H) as [->|[[-> ->]|[[-> Hs]|[-> Hs]]]].
  - left. split; [rewrite Hk; discriminate|reflexivity].
  - right. left. split; [exact Hk|reflexivity].
  - right. right. split; [left; exact Hk|].
    unfold Core.first_place_votes in Hs.
    apply (score_err_dead _ _ _ (fpv_vector_valid_vector _) (iv_pc_nd Hinv) Hbs Hs).
  - right. right. split; [right; exact Hk|].
    unfold Core.borda_scores in Hs.
    apply (score_err_dead _ _ _ (borda_vector_valid _) (iv_pc_nd Hinv) Hbs Hs).
Qed.

(* ------------------------------------------------------------------ *)
(** * L2: failures of an eliminating round *)

Theorem pv_step_err : forall (o : pv_obj) (p : profile) (prev : estate) (older : list estate)
                             (s : mstate) e,
  pv_inv o p prev older ->
  (Z.of_nat n - Z.of_nat (length (pv_elim cand o)) =? m)%Z = false ->
  pv_step m tb n o p prev s = inr e ->
  (e = EUnbound /\ nb = 0%nat) \/ (notie = false /\ tie_err_class e).
Proof.
  intros o p prev older s e Hinv Hm H.
  unfold PV.pv_step in H. cbv zeta in H. rewrite Hm in H.
  destruct (pv_order cand o) as [|i0 ord0] eqn:Eord.
  { left. injection H as <-. split; [reflexivity|].
    pose proof (Permutation_length (iv_order Hinv)) as Hlen.
    rewrite Eord, seq_length in Hlen. cbn [length] in Hlen. lia. }
  rewrite <- Eord in H.
  unfold mbind in H at 1.
  destruct (veto_loop cand ceqb (pv_order cand o) 0 (pv_ballots cand o) p tb (escores prev) [] s)
    as [[[[idx hit] tbs] s1]|e0] eqn:Hveto.
  - (* the rest of the round cannot fail *)
    exfalso.
    set (elim := (if (rnd prev =? 0)%Z
                  then map fst (filter (fun q : cand * Q => Qle_bool (snd q) 0) (escores prev))
                  else []) ++ match hit with Some c => [c] | None => [] end) in *.
    destruct (remove_prof_cands cand ceqb ceqb_spec elim false true p (iv_pc_nd Hinv))
      as [np [Hrm [Hnb _]]].
    rewrite pvm_lift_bind, Hrm in H.
    assert (Hok : Forall (okb cand (standing o)) (ballots np)).
    { rewrite Hnb, (iv_bal Hinv).
      change (remove_cand_bs cand ceqb elim false true (pv_ballots cand o))
        with (map (scrub cand ceqb elim) (pv_ballots cand o)).
      eapply (scrub_map_okb cand ceqb ceqb_spec); [apply (iv_okb Hinv)|].
      intros c Hc _. exact Hc. }
    destruct (pv_scores_total cand ceqb ceqb_spec _ _ Hok) as [d Hd].
    rewrite pvm_lift_bind, Hd in H. discriminate.
  - injection H as <-. right.
    assert (Hidx : forall i, In i (pv_order cand o) -> (i < length (pv_ballots cand o))%nat).
    { intros i Hi. apply (Permutation_in _ (iv_order Hinv)) in Hi. apply in_seq in Hi.
      rewrite (iv_len Hinv). lia. }
    assert (Hokr : Forall (okr cand (standing o)) (pv_ballots cand o)).
    { eapply Forall_impl; [|apply (iv_okb Hinv)]. intros b. apply okb_okr. }
    destruct (Bool.bool_dec notie true) as [Ent|Ent].
    + (* no tie anywhere: the pass cannot fail *)
      exfalso.
      destruct (veto_err cand ceqb ceqb_spec (standing o) _ _ _ _ _ _ _ _ _ Hveto)
        as [k [g [s1 [Hk [Hl2 [[b [Hb Hg]] _]]]]]].
      * exact Hidx.
      * exact Hokr.
      * intros c Hc. apply (iv_keys Hinv). exact Hc.
      * intros _. apply (iv_tie Hinv). exact Ent.
      * intros k _. apply (inv_tb_profile_ok cand ceqb cs nb notie _ _ _ _ Hinv).
      * pose proof (iv_tie Hinv Ent) as Ht. rewrite Forall_forall in Ht.
        specialize (Ht b Hb). unfold has_tie in Ht. apply not_true_iff_false in Ht. apply Ht.
        apply existsb_exists. exists g. split; [exact Hg|]. apply Nat.ltb_lt. lia.
    + apply not_true_is_false in Ent. split; [exact Ent|].
      destruct (veto_err cand ceqb ceqb_spec (standing o) _ _ _ _ _ _ _ _ _ Hveto Hidx Hokr)
        as [k [g [s1 [Hk [_ [_ Htb]]]]]].
      * intros c Hc. apply (iv_keys Hinv). exact Hc.
      * intros Hnone. specialize (Htbnt Hnone). congruence.
      * intros k _. apply (inv_tb_profile_ok cand ceqb cs nb notie _ _ _ _ Hinv).
      * eapply inv_tiebreak_err; eassumption.
Qed.

(* ------------------------------------------------------------------ *)
(** * L1: the electing round *)

Definition elect_state (prev : estate) : estate :=
  mkState (rnd prev + 1) (no_group cand) (remaining prev) (no_group cand) [] [].

Lemma count_none : forall hist : list estate,
  Forall (fun st => elected st = [[]]) hist -> count_elected hist = 0%Z.
Proof. intros hist H. apply (pv_count_elected_none cand). exact H. Qed.

Lemma inv_count0 : forall o p prev older, pv_inv o p prev older -> count_elected (prev :: older) = 0%Z.
Proof. intros o p prev older Hinv. apply count_none. apply (iv_el Hinv). Qed.

Lemma inv_standing_Z : forall o p prev older, pv_inv o p prev older ->
  Z.of_nat (length (standing o)) = (Z.of_nat n - Z.of_nat (length (pv_elim cand o)))%Z.
Proof.
  intros o p prev older Hinv.
  pose proof (inv_standing_count cand ceqb ceqb_spec cs Hcs nb notie _ _ _ _ Hinv) as H. lia.
Qed.

Theorem pv_elect_facts : forall o p prev older,
  pv_inv o p prev older ->
  (Z.of_nat n - Z.of_nat (length (pv_elim cand o)) =? m)%Z = true ->
  parts cs (elect_state prev :: prev :: older) /\
  count_elected (elect_state prev :: prev :: older) = m /\
  Permutation (all_elected (elect_state prev :: prev :: older)) (standing o) /\
  Z.of_nat (length (standing o)) = m.
Proof.
  intros o p prev older Hinv Hm. apply Z.eqb_eq in Hm.
  pose proof (inv_keys_perm cand ceqb cs Hcs nb notie _ _ _ _ Hinv) as Hkp.
  assert (Hel : elected_in (elect_state prev) = flat (remaining prev)).
  { unfold STVSpec.elected_in. cbn [elect_state elected]. apply (flat_real_groups cand). }
  assert (Hae : all_elected (elect_state prev :: prev :: older) = flat (remaining prev)).
  { rewrite (all_elected_cons cand), Hel, (all_elected_none cand _ (iv_el Hinv)). apply app_nil_r. }
  assert (Hlen : Z.of_nat (length (standing o)) = m) by (rewrite (inv_standing_Z _ _ _ _ Hinv); exact Hm).
  split; [|split; [|split; [|exact Hlen]]].
  - cbn [C01_pv2_lib.parts]. split; [|apply (iv_parts Hinv)].
    rewrite Hae, (all_eliminated_cons cand). cbn [elect_state remaining].
    change (eliminated_in (elect_state prev)) with (@nil cand).
    change (flat (no_group cand)) with (@nil cand). cbn [app].
    eapply Permutation_trans; [apply Permutation_app; [exact Hkp|apply (iv_x Hinv)]|].
    eapply Permutation_trans; [apply Permutation_app_comm|].
    exact (app_set_diff_perm cand ceqb ceqb_spec _ cs (iv_elim_nd Hinv) Hcs (iv_elim_in Hinv)).
  - rewrite (count_elected_cons cand), Hel, (inv_count0 _ _ _ _ Hinv).
    rewrite (Permutation_length Hkp). lia.
  - rewrite Hae. exact Hkp.
Qed.

(* ------------------------------------------------------------------ *)
(** * the loop, one round at a time *)

Lemma pv_loop_step : forall fuel o p prev older (s : mstate),
  pv_inv o p prev older ->
  pv_loop (S fuel) m tb n o p (prev :: older) s =
  match pv_step m tb n o p prev s with
  | inl ((o', np, st), s1) => pv_loop fuel m tb n o' np (st :: prev :: older) s1
  | inr e => inr e
  end.
Proof.
  intros fuel o p prev older s Hinv. cbn [PV.pv_loop]. rewrite (inv_count0 _ _ _ _ Hinv).
  assert (Hle : (m <=? 0)%Z = false) by (apply Z.leb_gt; exact Hmpos). rewrite Hle.
  unfold mbind. destruct (pv_step m tb n o p prev s) as [[[[o' np] st] s1]|e]; reflexivity.
Qed.

Lemma pv_loop_zero : forall o p prev older (s : mstate),
  pv_inv o p prev older -> pv_loop 0 m tb n o p (prev :: older) s = inr EFuel.
Proof.
  intros o p prev older s Hinv. cbn [PV.pv_loop]. rewrite (inv_count0 _ _ _ _ Hinv).
  assert (Hle : (m <=? 0)%Z = false) by (apply Z.leb_gt; exact Hmpos). rewrite Hle. reflexivity.
Qed.

Lemma pv_loop_elect : forall fuel o p prev older (s : mstate),
  pv_inv o p prev older ->
  (Z.of_nat n - Z.of_nat (length (pv_elim cand o)) =? m)%Z = true ->
  pv_loop (S fuel) m tb n o p (prev :: older) s = inl (rev (elect_state prev :: prev :: older), s).
Proof.
  intros fuel o p prev older s Hinv Hm. rewrite (pv_loop_step _ _ _ _ _ _ Hinv).
  rewrite (pv_step_elect cand ceqb m tb n o p prev s Hm).
  apply (pv_loop_done cand ceqb).
  destruct (pv_elect_facts _ _ _ _ Hinv Hm) as [_ [Hc _]].
  change (mkState (rnd prev + 1) (no_group cand) (remaining prev) (no_group cand) [] []) with (elect_state prev).
  rewrite Hc. apply Z.leb_refl.
Qed.

(* what a recorded tie-break is: a set of at least two candidates of the profile and a strict
   order of exactly that set *)
Definition rec_good (x : cset * ranking) : Prop :=
  (2 <= length (fst x))%nat /\ NoDup (fst x) /\ incl (fst x) cs /\
  exists l, snd x = singletons cand l /\ Permutation l (fst x).

Definition recs_ok (hist : list estate) : Prop :=
  Forall (fun st => Forall rec_good (tiebreaks st) /\ (length (tiebreaks st) <= 1)%nat) hist.

Lemma inv_rec_good : forall o p prev older x,
  pv_inv o p prev older -> tb_rec_ok (pv_ballots cand o) p tb x -> rec_good x.
Proof.
  intros o p prev older [g t] Hinv [Hl2 [[b [others [Hb Hrev]]] [k [s1 [s2 [Hk Htb]]]]]]. cbn [fst snd] in *.
  assert (Hg : In g (rk b)) by (eapply rev_head_in; exact Hrev).
  assert (Hr : rk b <> []) by (intros E; rewrite E in Hg; destruct Hg).
  destruct (inv_live_in cand ceqb cs nb notie _ _ _ _ Hinv b Hb Hr) as [[_ [_ [Hnd Hincl]]] _].
  assert (HgS : incl g (standing o)).
  { intros c Hc. apply Hincl. eapply in_group_flat; eassumption. }
  assert (Hgnd : NoDup g) by (eapply NoDup_flat_group; eassumption).
  assert (Hgne : g <> []) by (intros E; rewrite E in Hl2; cbn [length] in Hl2; lia).
  split; [exact Hl2|]. split; [exact Hgnd|]. split.
  - intros c Hc. apply HgS in Hc. apply (standing_In cand ceqb ceqb_spec) in Hc. apply Hc.
  - apply (tiebreak_set_linear cand ceqb ceqb_spec g (Some p) k s1 s2 t Hgnd Hgne); [|exact Htb].
    eapply (tb_profile_ok_incl cand); [exact HgS|].
    apply (inv_tb_profile_ok cand ceqb cs nb notie _ _ _ _ Hinv).
Qed.

(* the number of candidates still standing *)
Definition standing_count (o : pv_obj) : Z := (Z.of_nat n - Z.of_nat (length (pv_elim cand o)))%Z.

Lemma step_ok_count : forall o p prev older s s' o' np st,
  pv_inv o p prev older ->
  (standing_count o =? m)%Z = false ->
  pv_step m tb n o p prev s = inl ((o', np, st), s') ->
  pv_inv o' np st (prev :: older) /\ (standing_count o' <= standing_count o)%Z /\
  (Forall rec_good (tiebreaks st) /\ (length (tiebreaks st) <= 1)%nat) /\
  (older <> [] -> standing o <> [] ->
     standing_count o' = (standing_count o - 1)%Z /\ exists c, eliminated st = [[c]] /\ In c (standing o)).
Proof.
  intros o p prev older s s' o' np st Hinv Hm H.
  destruct (pv_step_ok cand ceqb ceqb_spec cs Hcs tb nb notie m n _ _ _ _ _ _ _ _ _ Hinv Hm H)
    as [Hinv' [hit [Hx [_ [He [_ [Hhit [Hrec [Hrl _]]]]]]]]].
  split; [exact Hinv'|]. unfold standing_count. rewrite He, app_length. split; [lia|].
  split.
  { split; [|exact Hrl]. eapply Forall_impl; [|exact Hrec]. intros x Hx0. exact (inv_rec_good _ _ _ _ _ Hinv Hx0). }
  intros Ho Hs. destruct older as [|x l]; [contradiction Ho; reflexivity|].
  destruct hit as [c|].
  - unfold C01_pv2_inv.round_elim, hit_list in *. cbn [app] in *.
    assert (Hd : dedup [c] = [c]) by reflexivity. rewrite Hd in *. cbn [length]. split; [lia|].
    exists c. split; [exact Hx|exact Hhit].
  - exfalso. pose proof (inv_nlive_pos cand ceqb cs nb notie _ _ _ _ Hinv Ho Hs). lia.
Qed.

(* ------------------------------------------------------------------ *)
(** * L4: too few candidates standing *)

Theorem pv_never_success : forall fuel o p prev older (s s' : mstate) sts,
  pv_inv o p prev older -> (standing_count o < m)%Z ->
  pv_loop fuel m tb n o p (prev :: older) s = inl (sts, s') -> False.
Proof.
  induction fuel as [|fuel IH]; intros o p prev older s s' sts Hinv Hlt H.
  - rewrite (pv_loop_zero _ _ _ _ _ Hinv) in H. discriminate.
  - rewrite (pv_loop_step _ _ _ _ _ _ Hinv) in H.
    assert (Hm : (standing_count o =? m)%Z = false) by (apply Z.eqb_neq; lia).
    destruct (pv_step m tb n o p prev s) as [[[[o' np] st] s1]|e] eqn:Hstep; [|discriminate].
    destruct (step_ok_count _ _ _ _ _ _ _ _ _ Hinv Hm Hstep) as [Hinv' [Hle _]].
    eapply IH; [exact Hinv'|lia|exact H].
Qed.

(* ------------------------------------------------------------------ *)
(** * L3: successful loops *)

(* histories (newest first) in which every round after the first strikes exactly one candidate *)
Fixpoint singles (hist : list estate) : Prop :=
  match hist with
  | st :: ((_ :: _ :: _) as older) => (exists c, eliminated st = [[c]]) /\ singles older
  | _ => True
  end.

Theorem pv_loop_ok : forall fuel o p prev older (s s' : mstate) sts,
  pv_inv o p prev older -> singles (prev :: older) -> recs_ok (prev :: older) ->
  pv_loop fuel m tb n o p (prev :: older) s = inl (sts, s') ->
  exists newer o' p' prev' older',
    newer ++ prev :: older = prev' :: older' /\
    sts = rev (elect_state prev' :: prev' :: older') /\
    pv_inv o' p' prev' older' /\ standing_count o' = m /\
    singles (prev' :: older') /\ recs_ok (prev' :: older').
Proof.
  induction fuel as [|fuel IH]; intros o p prev older s s' sts Hinv Hsing Hrecs H.
  - rewrite (pv_loop_zero _ _ _ _ _ Hinv) in H. discriminate.
  - destruct (standing_count o =? m)%Z eqn:Hm.
    + rewrite (pv_loop_elect _ _ _ _ _ _ Hinv Hm) in H. injection H as <- _.
      exists [], o, p, prev, older. split; [reflexivity|]. split; [reflexivity|].
      split; [exact Hinv|]. split; [apply Z.eqb_eq; exact Hm|]. split; [exact Hsing|exact Hrecs].
    + rewrite (pv_loop_step _ _ _ _ _ _ Hinv) in H.
      destruct (pv_step m tb n o p prev s) as [[[[o' np] st] s1]|e] eqn:Hstep; [|discriminate].
      destruct (step_ok_count _ _ _ _ _ _ _ _ _ Hinv Hm Hstep) as [Hinv' [Hle [Hrec Hone]]].
      assert (Hgt : (m < standing_count o)%Z).
      { destruct (Z_lt_le_dec (standing_count o) m) as [Hlt|Hge].
        - exfalso. eapply pv_never_success; [exact Hinv'|lia|exact H].
        - apply Z.eqb_neq in Hm. lia. }
      assert (Hsne : standing o <> []).
      { intros E. pose proof (inv_standing_Z _ _ _ _ Hinv) as Hz. rewrite E in Hz. cbn [length] in Hz.
        unfold standing_count in Hgt. lia. }
      assert (Hsing' : singles (st :: prev :: older)).
      { cbn [singles]. destruct older as [|x l]; [exact I|]. split; [|exact Hsing].
        destruct (Hone ltac:(discriminate) Hsne) as [_ [c [Hc _]]]. exists c. exact Hc. }
      assert (Hrecs' : recs_ok (st :: prev :: older)) by (constructor; [exact Hrec|exact Hrecs]).
      destruct (IH _ _ _ _ _ _ _ Hinv' Hsing' Hrecs' H)
        as [newer [o2 [p2 [prev2 [older2 [Hh [Hs Hrest]]]]]]].
      exists (newer ++ [st]), o2, p2, prev2, older2. split; [|split; [exact Hs|exact Hrest]].
      rewrite <- app_assoc. exact Hh.
Qed.

Lemma singles_newer : forall newer (a b : estate),
  singles (newer ++ [a; b]) -> Forall (fun st => exists c, eliminated st = [[c]]) newer.
Proof.
  induction newer as [|x nw IH]; intros a b H; [constructor|].
  assert (Hx : (exists c, eliminated x = [[c]]) /\ singles (nw ++ [a; b])).
  { cbn [app] in H. destruct nw as [|y [|z nw']]; cbn [app singles] in H |- *; exact H. }
  destruct Hx as [Hx Hs]. constructor; [exact Hx|exact (IH _ _ Hs)].
Qed.

(* ------------------------------------------------------------------ *)
(** * L5: errors, termination, non-termination *)

Theorem pv_loop_err : forall fuel o p prev older (s : mstate) e,
  pv_inv o p prev older ->
  pv_loop fuel m tb n o p (prev :: older) s = inr e ->
  e = EFuel \/ (e = EUnbound /\ nb = 0%nat) \/ (notie = false /\ tie_err_class e).
Proof.
  induction fuel as [|fuel IH]; intros o p prev older s e Hinv H.
  - rewrite (pv_loop_zero _ _ _ _ _ Hinv) in H. injection H as <-. left. reflexivity.
  - destruct (standing_count o =? m)%Z eqn:Hm.
    + rewrite (pv_loop_elect _ _ _ _ _ _ Hinv Hm) in H. discriminate.
    + rewrite (pv_loop_step _ _ _ _ _ _ Hinv) in H.
      destruct (pv_step m tb n o p prev s) as [[[[o' np] st] s1]|e0] eqn:Hstep.
      * destruct (step_ok_count _ _ _ _ _ _ _ _ _ Hinv Hm Hstep) as [Hinv' _].
        exact (IH _ _ _ _ _ _ Hinv' H).
      * injection H as <-. right. exact (pv_step_err _ _ _ _ _ _ Hinv Hm Hstep).
Qed.

Lemma tie_err_not_fuel : forall e, tie_err_class e -> e <> EFuel.
Proof. intros e [[_ ->]|[[_ ->]|[_ ->]]]; discriminate. Qed.

(* with at least m candidates standing after the first round, enough fuel rules EFuel out *)
Theorem pv_loop_fuel_enough : forall fuel o p prev older (s : mstate) e,
  pv_inv o p prev older -> older <> [] ->
  (m <= standing_count o)%Z -> (standing_count o - m < Z.of_nat fuel)%Z ->
  pv_loop fuel m tb n o p (prev :: older) s = inr e -> e <> EFuel.
Proof.
  induction fuel as [|fuel IH]; intros o p prev older s e Hinv Ho Hge Hfuel H; [lia|].
  destruct (standing_count o =? m)%Z eqn:Hm.
  - rewrite (pv_loop_elect _ _ _ _ _ _ Hinv Hm) in H. discriminate.
  - rewrite (pv_loop_step _ _ _ _ _ _ Hinv) in H.
    destruct (pv_step m tb n o p prev s) as [[[[o' np] st] s1]|e0] eqn:Hstep.
    + destruct (step_ok_count _ _ _ _ _ _ _ _ _ Hinv Hm Hstep) as [Hinv' [_ [_ Hone]]].
      apply Z.eqb_neq in Hm.
      assert (Hsne : standing o <> []).
      { intros E. pose proof (inv_standing_Z _ _ _ _ Hinv) as Hz. rewrite E in Hz. cbn [length] in Hz.
        unfold standing_count in *. lia. }
      destruct (Hone Ho Hsne) as [Hc _].
      eapply IH; [exact Hinv'|discriminate|lia|lia|exact H].
    + injection H as <-.
      destruct (pv_step_err _ _ _ _ _ _ Hinv Hm Hstep) as [[-> _]|[_ Hc]]; [discriminate|].
      exact (tie_err_not_fuel _ Hc).
Qed.

(* without a tie-break rule an eliminating round never fails once there are ballots *)
Lemma pv_step_total_none : forall o p prev older (s : mstate),
  tb = None -> (0 < nb)%nat -> pv_inv o p prev older ->
  (standing_count o =? m)%Z = false ->
  exists o' np st s1, pv_step m tb n o p prev s = inl ((o', np, st), s1).
Proof.
  intros o p prev older s Htb Hnb Hinv Hm.
  destruct (pv_step m tb n o p prev s) as [[[[o' np] st] s1]|e] eqn:Hstep.
  - exists o', np, st, s1. reflexivity.
  - exfalso. destruct (pv_step_err _ _ _ _ _ _ Hinv Hm Hstep) as [[_ Hz]|[_ Hc]]; [lia|].
    destruct Hc as [[Hne _]|[[Hk _]|[[Hk|Hk] _]]]; congruence.
Qed.

Theorem pv_loop_spin : forall fuel o p prev older (s : mstate),
  tb = None -> (0 < nb)%nat -> pv_inv o p prev older -> (standing_count o < m)%Z ->
  pv_loop fuel m tb n o p (prev :: older) s = inr EFuel.
Proof.
  induction fuel as [|fuel IH]; intros o p prev older s Htb Hnb Hinv Hlt.
  - apply (pv_loop_zero _ _ _ _ _ Hinv).
  - rewrite (pv_loop_step _ _ _ _ _ _ Hinv).
    assert (Hm : (standing_count o =? m)%Z = false) by (apply Z.eqb_neq; lia).
    destruct (pv_step_total_none _ _ _ _ s Htb Hnb Hinv Hm) as [o' [np [st [s1 Hstep]]]].
    rewrite Hstep.
    destruct (step_ok_count _ _ _ _ _ _ _ _ _ Hinv Hm Hstep) as [Hinv' [Hle _]].
    apply (IH _ _ _ _ _ Htb Hnb Hinv'). lia.
Qed.

Theorem pv_loop_total_none : forall fuel o p prev older (s : mstate),
  tb = None -> (0 < nb)%nat -> pv_inv o p prev older -> older <> [] ->
  (m <= standing_count o)%Z -> (standing_count o - m < Z.of_nat fuel)%Z ->
  exists sts s', pv_loop fuel m tb n o p (prev :: older) s = inl (sts, s').
Proof.
  intros fuel o p prev older s Htb Hnb Hinv Ho Hge Hfuel.
  destruct (pv_loop fuel m tb n o p (prev :: older) s) as [[sts s']|e] eqn:H.
  - exists sts, s'. reflexivity.
  - exfalso. pose proof (pv_loop_fuel_enough _ _ _ _ _ _ _ Hinv Ho Hge Hfuel H) as Hnf.
    destruct (pv_loop_err _ _ _ _ _ _ _ Hinv H) as [->|[[_ Hz]|[_ Hc]]]; [congruence|lia|].
    destruct Hc as [[Hne _]|[[Hk _]|[[Hk|Hk] _]]]; congruence.
Qed.

End Loop.
