(* Proofs/C20_gen.v — C20, generator side, one level up from Proofs/C20_blocs.v: the constructor of
   the name models as transcribed in Spec/GenConstructSpec.v ([gen_construct] = bloc_checks, then one
   combine_intervals per voter bloc).  Statements are collected in Properties/C20_gen.v. *)
From VK Require Import Base Core GenValidation PrefInterval.
From VK.Spec Require Import BTSpec BlocSpec GenConstructSpec.
From VK.Proofs Require Import Lib_rk Lib_sets C15_interval C15_bt C20_blocs C14_gen2.
From Coq Require Import Permutation Lia Lqa Setoid Morphisms.

Implicit Types (props : list (positive * Q))
               (intervals : list (positive * list (positive * pinterval)))
               (cohesion : list (positive * list (positive * Q))).

(* ------------------------------------------------------------------ *)
(** * Dictionary access *)

Ltac destruct_find E :=
  match goal with |- context [find ?f ?l] => destruct (find f l) eqn:E end.

Lemma dict_get_inl : forall (A : Type) (d : list (positive * A)) k v,
  dict_get d k = inl v -> In (k, v) d.
Proof.
  intros A d k v. unfold dict_get. destruct_find E; [|discriminate].
  match goal with p : (_ * A)%type |- _ => destruct p as [k' v'] end.
  unfold ok. cbn [snd]. intros H. injection H as <-. apply find_some in E. destruct E as [Hin E].
  cbn [fst] in E. apply Pos.eqb_eq in E. subst k'. exact Hin.
Qed.

Lemma dict_get_present : forall (A : Type) (d : list (positive * A)) k,
  In k (map fst d) -> exists v, dict_get d k = inl v.
Proof.
  intros A d k H. unfold dict_get. destruct_find E.
  - eexists. reflexivity.
  - exfalso. apply in_map_iff in H. destruct H as (p & <- & Hp).
    pose proof (find_none _ _ E p Hp) as Hn. cbv beta in Hn. rewrite Pos.eqb_refl in Hn.
    discriminate.
Qed.

Lemma dict_get_inr : forall (A : Type) (d : list (positive * A)) k e,
  dict_get d k = inr e -> e = EKey /\ ~ In k (map fst d).
Proof.
  intros A d k e H. split.
  - unfold dict_get in H. revert H. destruct_find E; [discriminate|]. unfold err. intros H.
    injection H as <-. reflexivity.
  - intros Hin. destruct (dict_get_present A d k Hin) as (v & Hv). rewrite Hv in H. discriminate.
Qed.

(* for rational rows the access is lookupP *)
Lemma dict_get_lookupP : forall (row : list (positive * Q)) k,
  In k (map fst row) -> dict_get row k = inl (lookupP row k).
Proof.
  intros row k H. destruct (dict_get_present Q row k H) as (v & Hv). rewrite Hv.
  revert Hv. unfold dict_get, lookupP. destruct_find E; [|discriminate].
  unfold ok. intros Hv. injection Hv as <-. reflexivity.
Qed.

(* ------------------------------------------------------------------ *)
(** * One row of a nested dictionary, read at the bloc names *)

Lemma row_values_inl : forall (A : Type) (tbl : list (positive * list (positive * A))) blocs b vs,
  row_values tbl blocs b = inl vs ->
  exists row, dict_get tbl b = inl row /\ In (b, row) tbl /\
              Forall2 (fun b2 v => In (b2, v) row) blocs vs.
Proof.
  intros A tbl blocs b vs. unfold row_values, rbind.
  destruct (dict_get tbl b) as [row|e] eqn:E; [|discriminate].
  intros H. exists row. split; [reflexivity|]. split; [apply (dict_get_inl _ _ _ _ E)|].
  apply rmap_ok_inv in H. clear E.
  induction H as [|b2 v blocs vs Hv _ IH]; constructor; [|exact IH].
  apply (dict_get_inl _ _ _ _ Hv).
Qed.

Lemma row_values_present : forall (A : Type) (tbl : list (positive * list (positive * A))) blocs b,
  In b (map fst tbl) -> rows_cover tbl blocs -> exists vs, row_values tbl blocs b = inl vs.
Proof.
  intros A tbl blocs b Hb Hcov. destruct (dict_get_present _ tbl b Hb) as (row & Hrow).
  unfold row_values, rbind. rewrite Hrow.
  destruct (rmap (dict_get row) blocs) as [vs|e] eqn:E; [exists vs; reflexivity|].
  exfalso. apply rmap_err_inv in E. destruct E as (l1 & b2 & l2 & El & Hb2 & _).
  apply dict_get_inr in Hb2. destruct Hb2 as [_ Hb2]. apply Hb2.
  apply (Hcov (b, row) (dict_get_inl _ _ _ _ Hrow) b2). rewrite El. apply in_or_app. right. left.
  reflexivity.
Qed.

Lemma row_values_inr : forall (A : Type) (tbl : list (positive * list (positive * A))) blocs b e,
  row_values tbl blocs b = inr e ->
  e = EKey /\
  (~ In b (map fst tbl) \/
   exists row b2, dict_get tbl b = inl row /\ In b2 blocs /\ ~ In b2 (map fst row)).
Proof.
  intros A tbl blocs b e. unfold row_values, rbind.
  destruct (dict_get tbl b) as [row|e'] eqn:E.
  - intros H. apply rmap_err_inv in H. destruct H as (l1 & b2 & l2 & El & Hb2 & _).
    apply dict_get_inr in Hb2. destruct Hb2 as [-> Hb2]. split; [reflexivity|]. right.
    exists row, b2. split; [reflexivity|]. split; [|exact Hb2].
    rewrite El. apply in_or_app. right. left. reflexivity.
  - intros H. injection H as <-. apply dict_get_inr in E. destruct E as [-> E].
    split; [reflexivity|]. left. exact E.
Qed.

Lemma Forall2_len : forall (A B : Type) (R : A -> B -> Prop) la lb,
  Forall2 R la lb -> length la = length lb.
Proof.
  intros A B R la lb H. induction H as [|a b la lb _ _ IH]; [reflexivity|].
  cbn [length]. rewrite IH. reflexivity.
Qed.

Lemma Forall2_r_Forall : forall (A B : Type) (R : A -> B -> Prop) (P : B -> Prop) la lb,
  Forall2 R la lb -> (forall a b, R a b -> P b) -> Forall P lb.
Proof.
  intros A B R P la lb H HP. induction H as [|a b la lb Hab _ IH]; constructor; [|exact IH].
  apply (HP a b Hab).
Qed.

Lemma picked_intervals_wf : forall intervals blocs b is,
  intervals_wf intervals -> bloc_intervals intervals blocs b = inl is ->
  Forall wf_interval is /\ length is = length blocs.
Proof.
  intros intervals blocs b is Hwf H. apply row_values_inl in H.
  destruct H as (row & _ & Hrow & HF). split.
  - apply (Forall2_r_Forall _ _ _ _ _ _ HF). intros b2 i Hin. apply (Hwf (b, row) Hrow (b2, i) Hin).
  - symmetry. apply (Forall2_len _ _ _ _ _ HF).
Qed.

Lemma picked_cohesion_nonneg : forall cohesion blocs b ps,
  cohesion_nonneg cohesion -> bloc_cohesion cohesion blocs b = inl ps ->
  Forall (fun p => 0 <= p) ps /\ length ps = length blocs.
Proof.
  intros cohesion blocs b ps Hnn H. apply row_values_inl in H.
  destruct H as (row & _ & Hrow & HF). split.
  - apply (Forall2_r_Forall _ _ _ _ _ _ HF). intros b2 q Hin. apply (Hnn (b, row) Hrow (b2, q) Hin).
  - symmetry. apply (Forall2_len _ _ _ _ _ HF).
Qed.

(* a cohesion row whose keys are exactly the bloc names: the picked values are the row's values *)
Lemma picked_row_sum : forall (row : list (positive * Q)) blocs ps,
  NoDup (map fst row) -> NoDup blocs -> same_names (map fst row) blocs ->
  rmap (dict_get row) blocs = inl ps -> qsum ps == qsum (map snd row).
Proof.
  intros row blocs ps Hndr Hndb Hsame H.
  assert (E : rmap (dict_get row) blocs = inl (map (lookupP row) blocs)).
  { apply rmap_total. intros k Hk. apply dict_get_lookupP. apply Hsame. exact Hk. }
  rewrite E in H. injection H as <-.
  assert (HP : Permutation blocs (map fst row)).
  { apply NoDup_Permutation; [exact Hndb|exact Hndr|]. intros k. symmetry. apply Hsame. }
  rewrite (qsum_perm _ _ (Permutation_map (lookupP row) HP)). rewrite map_map.
  apply qsum_Forall2. clear - Hndr.
  assert (G : forall p, In p row -> lookupP row (fst p) == snd p).
  { intros [k v] Hp. cbn [fst snd]. rewrite (lookupP_spec row k v Hndr Hp). reflexivity. }
  revert G. generalize (lookupP row). intros g G.
  induction row as [|p row IH]; cbn [map]; constructor.
  - apply G. left. reflexivity.
  - apply IH.
    + cbn [map] in Hndr. inversion Hndr; assumption.
    + intros q Hq. apply G. right. exact Hq.
Qed.

(* ------------------------------------------------------------------ *)
(** * One entry of the dict comprehension *)

Lemma construct_bloc_inl : forall intervals cohesion blocs b x,
  construct_bloc intervals cohesion blocs b = inl x ->
  exists is ps r, x = (b, r) /\ bloc_intervals intervals blocs b = inl is /\
                  bloc_cohesion cohesion blocs b = inl ps /\ combine_intervals is ps = inl r.
Proof.
  intros intervals cohesion blocs b x. unfold construct_bloc, rbind.
  destruct (bloc_intervals intervals blocs b) as [is|e1] eqn:E1; [|discriminate].
  destruct (bloc_cohesion cohesion blocs b) as [ps|e2] eqn:E2; [|discriminate].
  destruct (combine_intervals is ps) as [r|e3] eqn:E3; [|discriminate].
  unfold ok. intros H. injection H as <-. exists is, ps, r.
  split; [reflexivity|]. split; [reflexivity|]. split; [reflexivity|exact E3].
Qed.

Lemma construct_bloc_intro : forall intervals cohesion blocs b is ps r,
  bloc_intervals intervals blocs b = inl is -> bloc_cohesion cohesion blocs b = inl ps ->
  combine_intervals is ps = inl r -> construct_bloc intervals cohesion blocs b = inl (b, r).
Proof.
  intros intervals cohesion blocs b is ps r H1 H2 H3. unfold construct_bloc, rbind.
  rewrite H1, H2, H3. reflexivity.
Qed.

Lemma combine_inl_inv : forall (is : list pinterval) (ps : list Q) r,
  combine_intervals is ps = inl r ->
  NoDup (concat (map pi_cands is)) /\ rounds_to_one (qsum ps) = true.
Proof.
  intros is ps r Hc. split.
  - destruct (nodup_pos_dec (concat (map pi_cands is))) as [H|H]; [exact H|].
    rewrite (combine_error_overlap is ps H) in Hc. discriminate Hc.
  - destruct (rounds_to_one (qsum ps)) eqn:E; [reflexivity|].
    rewrite (combine_error_props is ps E) in Hc. discriminate Hc.
Qed.

(* the ways one entry can fail *)
Lemma construct_bloc_inr : forall intervals cohesion blocs b e,
  intervals_wf intervals -> cohesion_nonneg cohesion ->
  construct_bloc intervals cohesion blocs b = inr e ->
  (e = EKey /\ (bloc_intervals intervals blocs b = inr EKey \/
                bloc_cohesion cohesion blocs b = inr EKey)) \/
  (e = EValue /\ exists is ps, bloc_intervals intervals blocs b = inl is /\
                               bloc_cohesion cohesion blocs b = inl ps /\
                               (~ NoDup (concat (map pi_cands is)) \/ ~ sums_to_one (qsum ps))).
Proof.
  intros intervals cohesion blocs b e Hwf Hnn. unfold construct_bloc, rbind.
  destruct (bloc_intervals intervals blocs b) as [is|e1] eqn:E1.
  2:{ intros H. injection H as <-. pose proof E1 as E1'. apply row_values_inr in E1'.
      destruct E1' as [-> _]. left. split; [reflexivity|]. left. reflexivity. }
  destruct (bloc_cohesion cohesion blocs b) as [ps|e2] eqn:E2.
  2:{ intros H. injection H as <-. pose proof E2 as E2'. apply row_values_inr in E2'.
      destruct E2' as [-> _]. left. split; [reflexivity|]. right. reflexivity. }
  destruct (combine_intervals is ps) as [r|e3] eqn:E3; [discriminate|].
  intros H. injection H as <-. right.
  destruct (picked_intervals_wf intervals blocs b is Hwf E1) as [W1 W2].
  destruct (picked_cohesion_nonneg cohesion blocs b ps Hnn E2) as [N1 N2].
  assert (Hlen : length is = length ps) by (rewrite W2, N2; reflexivity).
  apply (combine_error is ps W1 Hlen N1) in E3. destruct E3 as [-> Hcase].
  split; [reflexivity|]. exists is, ps. split; [reflexivity|]. split; [reflexivity|].
  destruct Hcase as [H|H]; [left; exact H|right; apply rounds_to_one_false_iff; exact H].
Qed.

(* ------------------------------------------------------------------ *)
(** * The constructor *)

(* nothing is combined before the parameter checks pass: their error is the constructor's *)
Theorem gen_checks_first : forall props intervals cohesion e,
  bloc_checks props (map fst intervals) cohesion = inr e ->
  gen_construct props intervals cohesion = inr e.
Proof. intros props intervals cohesion e H. unfold gen_construct, rbind. rewrite H. reflexivity. Qed.

Theorem gen_after_checks : forall props intervals cohesion,
  bloc_checks props (map fst intervals) cohesion = inl tt ->
  gen_construct props intervals cohesion =
  rmap (construct_bloc intervals cohesion (map fst props)) (map fst props).
Proof. intros props intervals cohesion H. unfold gen_construct, rbind. rewrite H. reflexivity. Qed.

Lemma gen_inl_checks : forall props intervals cohesion out,
  gen_construct props intervals cohesion = inl out ->
  bloc_checks props (map fst intervals) cohesion = inl tt.
Proof.
  intros props intervals cohesion out H.
  destruct (bloc_checks_total props (map fst intervals) cohesion) as [E|E]; [exact E|].
  rewrite (gen_checks_first _ _ _ _ E) in H. discriminate.
Qed.

(* (i) each of the four bloc-parameter preconditions, for ALL inputs violating it *)
Theorem gen_refuses_parameters : forall props intervals cohesion,
  (~ props_ok props -> gen_construct props intervals cohesion = inr EValue) /\
  (~ names_pi_ok props (map fst intervals) -> gen_construct props intervals cohesion = inr EValue) /\
  (~ names_coh_ok props cohesion -> gen_construct props intervals cohesion = inr EValue) /\
  ((exists row, In row cohesion /\ ~ row_ok row) ->
     gen_construct props intervals cohesion = inr EValue).
Proof.
  intros props intervals cohesion.
  pose proof (proj2 (bloc_checks_err_iff props (map fst intervals) cohesion)) as H.
  repeat split; intros Hbad; apply gen_checks_first; apply H; tauto.
Qed.

(* the outer keys exist once the checks passed *)
Theorem gen_outer_keys : forall props intervals cohesion b,
  bloc_checks props (map fst intervals) cohesion = inl tt -> In b (map fst props) ->
  (exists row, dict_get intervals b = inl row) /\ (exists row, dict_get cohesion b = inl row).
Proof.
  intros props intervals cohesion b H Hb. apply bloc_checks_ok_iff in H.
  destruct H as (_ & H2 & H3 & _). split; apply dict_get_present; [apply H2|apply H3]; exact Hb.
Qed.

(* the first failing entry decides *)
Theorem gen_first_failure : forall props intervals cohesion pre b post e,
  bloc_checks props (map fst intervals) cohesion = inl tt ->
  map fst props = pre ++ b :: post ->
  (forall b', In b' pre -> exists x, construct_bloc intervals cohesion (map fst props) b' = inl x) ->
  construct_bloc intervals cohesion (map fst props) b = inr e ->
  gen_construct props intervals cohesion = inr e.
Proof.
  intros props intervals cohesion pre b post e Hck Hsplit Hpre Hb.
  rewrite (gen_after_checks _ _ _ Hck). apply rmap_err_inv. exists pre, b, post.
  split; [exact Hsplit|]. split; [exact Hb|exact Hpre].
Qed.

(* error kinds *)
Theorem gen_error_kinds : forall props intervals cohesion e,
  intervals_wf intervals -> cohesion_nonneg cohesion ->
  gen_construct props intervals cohesion = inr e ->
  e = EValue \/
  (e = EKey /\ bloc_checks props (map fst intervals) cohesion = inl tt /\
   exists b b2, In b (map fst props) /\ In b2 (map fst props) /\
     ((exists row, dict_get intervals b = inl row /\ ~ In b2 (map fst row)) \/
      (exists row, dict_get cohesion b = inl row /\ ~ In b2 (map fst row)))).
Proof.
  intros props intervals cohesion e Hwf Hnn H.
  destruct (bloc_checks_total props (map fst intervals) cohesion) as [E|E].
  2:{ rewrite (gen_checks_first _ _ _ _ E) in H. injection H as <-. left. reflexivity. }
  rewrite (gen_after_checks _ _ _ E) in H. apply rmap_err_inv in H.
  destruct H as (pre & b & post & Hsplit & Hb & _).
  assert (Hbin : In b (map fst props)).
  { rewrite Hsplit. apply in_or_app. right. left. reflexivity. }
  destruct (gen_outer_keys _ _ _ b E Hbin) as [(rowi & Hrowi) (rowc & Hrowc)].
  destruct (construct_bloc_inr _ _ _ _ _ Hwf Hnn Hb) as [[-> Hk]|[-> _]]; [|left; reflexivity].
  right. split; [reflexivity|]. split; [exact E|].
  destruct Hk as [Hk|Hk]; apply row_values_inr in Hk; destruct Hk as [_ [Hk|Hk]].
  - exfalso. apply Hk. apply in_map_iff. exists (b, rowi). split; [reflexivity|].
    apply (dict_get_inl _ _ _ _ Hrowi).
  - destruct Hk as (row & b2 & Hrow & Hb2 & Hn). exists b, b2. split; [exact Hbin|].
    split; [exact Hb2|]. left. exists row. split; assumption.
  - exfalso. apply Hk. apply in_map_iff. exists (b, rowc). split; [reflexivity|].
    apply (dict_get_inl _ _ _ _ Hrowc).
  - destruct Hk as (row & b2 & Hrow & Hb2 & Hn). exists b, b2. split; [exact Hbin|].
    split; [exact Hb2|]. right. exists row. split; assumption.
Qed.

(* with complete inner dictionaries KeyError cannot happen *)
Theorem gen_only_value_error : forall props intervals cohesion e,
  intervals_wf intervals -> cohesion_nonneg cohesion ->
  rows_cover intervals (map fst props) -> rows_cover cohesion (map fst props) ->
  gen_construct props intervals cohesion = inr e -> e = EValue.
Proof.
  intros props intervals cohesion e Hwf Hnn Hci Hcc H.
  destruct (gen_error_kinds _ _ _ _ Hwf Hnn H) as [E|(_ & _ & b & b2 & Hb & Hb2 & Hk)]; [exact E|].
  exfalso. destruct Hk as [(row & Hrow & Hn)|(row & Hrow & Hn)]; apply Hn.
  - apply (Hci (b, row) (dict_get_inl _ _ _ _ Hrow) b2 Hb2).
  - apply (Hcc (b, row) (dict_get_inl _ _ _ _ Hrow) b2 Hb2).
Qed.

(* (iii) what a successful construction returns *)
Theorem gen_success : forall props intervals cohesion out,
  intervals_wf intervals -> cohesion_nonneg cohesion ->
  gen_construct props intervals cohesion = inl out ->
  map fst out = map fst props /\
  forall b r, In (b, r) out ->
    In b (map fst props) /\
    exists is ps,
      bloc_intervals intervals (map fst props) b = inl is /\
      bloc_cohesion cohesion (map fst props) b = inl ps /\
      combine_intervals is ps = inl r /\
      Forall wf_interval is /\ length is = length ps /\ Forall (fun p => 0 <= p) ps /\
      NoDup (concat (map pi_cands is)) /\ sums_to_one (qsum ps) /\
      wf_interval r /\ NoDup (map fst (pi_int r)) /\ NoDup (pi_zero r) /\ NoDup (pi_cands r) /\
      (forall c, In c (map fst (pi_int r)) -> ~ In c (pi_zero r)) /\
      Permutation (pi_cands r) (concat (map pi_cands is)).
Proof.
  intros props intervals cohesion out Hwf Hnn H.
  pose proof (gen_inl_checks _ _ _ _ H) as Hck. rewrite (gen_after_checks _ _ _ Hck) in H.
  apply rmap_ok_inv in H. revert H. generalize (map fst props) at 2 3 4. intros l H.
  induction H as [|b x l out Hbx _ IH].
  - split; [reflexivity|]. intros b r [].
  - destruct IH as [IH1 IH2].
    destruct (construct_bloc_inl _ _ _ _ _ Hbx) as (is & ps & r & -> & E1 & E2 & E3).
    split; [cbn [map fst]; rewrite IH1; reflexivity|].
    intros b' r' [E|Hin].
    + injection E as <- <-. split; [left; reflexivity|]. exists is, ps.
      destruct (picked_intervals_wf _ _ _ _ Hwf E1) as [W1 W2].
      destruct (picked_cohesion_nonneg _ _ _ _ Hnn E2) as [N1 N2].
      assert (Hlen : length is = length ps) by (rewrite W2, N2; reflexivity).
      destruct (combine_inl_inv is ps r E3) as [Hnd Hr].
      destruct (combine_ok is ps W1 Hlen N1 Hnd Hr) as (r' & Hr' & _ & _ & _ & _ & _ & Cwf & C7 & C8).
      rewrite E3 in Hr'. injection Hr' as <-.
      destruct (combine_cands is ps r W1 Hlen N1 Hnd Hr E3) as (D1 & D2 & D3).
      split; [exact E1|]. split; [exact E2|]. split; [exact E3|]. split; [exact W1|].
      split; [exact Hlen|]. split; [exact N1|]. split; [exact Hnd|].
      split; [apply rounds_to_one_true_iff; exact Hr|]. split; [exact Cwf|].
      split; [exact C7|]. split; [exact C8|]. split; [exact D2|]. split; [exact D1|exact D3].
    + destruct (IH2 b' r' Hin) as [Hb' Hrest]. split; [right; exact Hb'|exact Hrest].
Qed.

(* (ii) exactness *)
Definition gen_preconditions (props : list (positive * Q))
           (intervals : list (positive * list (positive * pinterval)))
           (cohesion : list (positive * list (positive * Q))) : Prop :=
  props_ok props /\ names_pi_ok props (map fst intervals) /\ names_coh_ok props cohesion /\
  rows_ok cohesion /\ blocs_disjoint intervals (map fst props) /\
  picked_rows_ok cohesion (map fst props).

Lemma rmap_all_ok : forall (A B : Type) (f : A -> res B) (l : list A),
  (forall a, In a l -> exists b, f a = inl b) -> exists out, rmap f l = inl out.
Proof.
  intros A B f l H. destruct (rmap f l) as [out|e] eqn:E; [exists out; reflexivity|].
  exfalso. apply rmap_err_inv in E. destruct E as (l1 & a & l2 & El & Ha & _).
  destruct (H a) as (b & Hb); [rewrite El; apply in_or_app; right; left; reflexivity|].
  rewrite Hb in Ha. discriminate.
Qed.

Theorem gen_accepts_iff : forall props intervals cohesion,
  intervals_wf intervals -> cohesion_nonneg cohesion ->
  rows_cover intervals (map fst props) -> rows_cover cohesion (map fst props) ->
  ((exists out, gen_construct props intervals cohesion = inl out) <->
   gen_preconditions props intervals cohesion).
Proof.
  intros props intervals cohesion Hwf Hnn Hci Hcc. unfold gen_preconditions. split.
  - intros (out & H). pose proof (gen_inl_checks _ _ _ _ H) as Hck.
    pose proof (proj1 (bloc_checks_ok_iff _ _ _) Hck) as (P1 & P2 & P3 & P4).
    split; [exact P1|]. split; [exact P2|]. split; [exact P3|]. split; [exact P4|].
    destruct (gen_success _ _ _ _ Hwf Hnn H) as [Hkeys Hout].
    assert (Hall : forall b, In b (map fst props) -> exists r, In (b, r) out).
    { intros b Hb. rewrite <- Hkeys in Hb. apply in_map_iff in Hb.
      destruct Hb as ([b' r] & E & Hin). cbn [fst] in E. subst b'. exists r. exact Hin. }
    split.
    + intros b is Hb His. destruct (Hall b Hb) as (r & Hr).
      destruct (Hout b r Hr) as (_ & is' & ps & E1 & _ & _ & _ & _ & _ & Hnd & _).
      rewrite His in E1. injection E1 as <-.
      apply (proj1 (proj2 (overlap_meaning (map pi_cands is)))). exact Hnd.
    + intros b ps Hb Hps. destruct (Hall b Hb) as (r & Hr).
      destruct (Hout b r Hr) as (_ & is & ps' & _ & E2 & _ & _ & _ & _ & _ & Hs & _).
      rewrite Hps in E2. injection E2 as <-. exact Hs.
  - intros (P1 & P2 & P3 & P4 & P5 & P6).
    assert (Hck : bloc_checks props (map fst intervals) cohesion = inl tt).
    { apply bloc_checks_ok_iff. split; [exact P1|split; [exact P2|split; [exact P3|exact P4]]]. }
    rewrite (gen_after_checks _ _ _ Hck). apply rmap_all_ok. intros b Hb.
    destruct (row_values_present _ intervals (map fst props) b (proj1 (P2 b) Hb) Hci) as (is & E1).
    destruct (row_values_present _ cohesion (map fst props) b (proj1 (P3 b) Hb) Hcc) as (ps & E2).
    fold (bloc_intervals intervals (map fst props) b) in E1.
    fold (bloc_cohesion cohesion (map fst props) b) in E2.
    destruct (picked_intervals_wf _ _ _ _ Hwf E1) as [W1 W2].
    destruct (picked_cohesion_nonneg _ _ _ _ Hnn E2) as [N1 N2].
    assert (Hlen : length is = length ps) by (rewrite W2, N2; reflexivity).
    assert (Hnd : NoDup (concat (map pi_cands is))).
    { apply (proj2 (overlap_meaning (map pi_cands is))). apply (P5 b is Hb E1). }
    assert (Hr : rounds_to_one (qsum ps) = true).
    { apply rounds_to_one_true_iff. apply (P6 b ps Hb E2). }
    destruct (combine_ok is ps W1 Hlen N1 Hnd Hr) as (r & Hc & _).
    exists (b, r). apply (construct_bloc_intro _ _ _ _ is ps r E1 E2 Hc).
Qed.

Theorem gen_rejects_iff : forall props intervals cohesion,
  intervals_wf intervals -> cohesion_nonneg cohesion ->
  rows_cover intervals (map fst props) -> rows_cover cohesion (map fst props) ->
  (gen_construct props intervals cohesion = inr EValue <->
   ~ gen_preconditions props intervals cohesion).
Proof.
  intros props intervals cohesion Hwf Hnn Hci Hcc.
  pose proof (gen_accepts_iff props intervals cohesion Hwf Hnn Hci Hcc) as Hacc. split.
  - intros H Hpre. apply Hacc in Hpre. destruct Hpre as (out & Hout). rewrite Hout in H.
    discriminate.
  - intros Hn. destruct (gen_construct props intervals cohesion) as [out|e] eqn:E.
    + exfalso. apply Hn. apply Hacc. exists out. reflexivity.
    + rewrite (gen_only_value_error _ _ _ e Hwf Hnn Hci Hcc E). reflexivity.
Qed.

(* overlapping intervals of some voter bloc: refused with ValueError, whatever else *)
Theorem gen_refuses_overlap : forall props intervals cohesion b is,
  intervals_wf intervals -> cohesion_nonneg cohesion ->
  rows_cover intervals (map fst props) -> rows_cover cohesion (map fst props) ->
  In b (map fst props) -> bloc_intervals intervals (map fst props) b = inl is ->
  self_repeating (map pi_cands is) \/ overlapping (map pi_cands is) ->
  gen_construct props intervals cohesion = inr EValue.
Proof.
  intros props intervals cohesion b is Hwf Hnn Hci Hcc Hb His Hbad.
  apply (gen_rejects_iff _ _ _ Hwf Hnn Hci Hcc). intros (_ & _ & _ & _ & P5 & _).
  destruct (P5 b is Hb His) as [N1 N2]. destruct Hbad; contradiction.
Qed.

(* cohesion rows with exactly the bloc names as keys: the proportions handed to
   combine_preference_intervals are the row, so its second sum test repeats __init__'s *)
Theorem gen_picked_rows_redundant : forall (props : list (positive * Q)) cohesion,
  NoDup (map fst props) -> rows_exact cohesion (map fst props) -> rows_ok cohesion ->
  picked_rows_ok cohesion (map fst props).
Proof.
  intros props cohesion Hnd Hex Hrows b ps Hb Hps.
  unfold bloc_cohesion, row_values, rbind in Hps.
  destruct (dict_get cohesion b) as [row|e] eqn:E; [|discriminate].
  pose proof (dict_get_inl _ _ _ _ E) as Hrow. destruct (Hex (b, row) Hrow) as [X1 X2].
  cbn [snd] in X1, X2. pose proof (Hrows (b, row) Hrow) as Hok.
  unfold row_ok, dict_total, sums_to_one in Hok |- *. cbn [snd] in Hok.
  rewrite (picked_row_sum row (map fst props) ps X1 Hnd X2 Hps). exact Hok.
Qed.

Lemma rows_exact_cover : forall (A : Type) (tbl : list (positive * list (positive * A))) blocs,
  rows_exact tbl blocs -> rows_cover tbl blocs.
Proof. intros A tbl blocs H row Hrow b2 Hb2. apply (proj2 (H row Hrow)). exact Hb2. Qed.

Theorem gen_accepts_iff_dicts : forall props intervals cohesion,
  intervals_wf intervals -> cohesion_nonneg cohesion -> NoDup (map fst props) ->
  rows_cover intervals (map fst props) -> rows_exact cohesion (map fst props) ->
  ((exists out, gen_construct props intervals cohesion = inl out) <->
   props_ok props /\ names_pi_ok props (map fst intervals) /\ names_coh_ok props cohesion /\
   rows_ok cohesion /\ blocs_disjoint intervals (map fst props)) /\
  (gen_construct props intervals cohesion = inr EValue <->
   ~ props_ok props \/ ~ names_pi_ok props (map fst intervals) \/ ~ names_coh_ok props cohesion \/
   (exists row, In row cohesion /\ ~ row_ok row) \/
   (exists b is, In b (map fst props) /\ bloc_intervals intervals (map fst props) b = inl is /\
                 (self_repeating (map pi_cands is) \/ overlapping (map pi_cands is)))).
Proof.
  intros props intervals cohesion Hwf Hnn Hnd Hci Hex.
  pose proof (rows_exact_cover _ _ _ Hex) as Hcc.
  pose proof (gen_accepts_iff props intervals cohesion Hwf Hnn Hci Hcc) as Hacc.
  assert (Hacc' : (exists out, gen_construct props intervals cohesion = inl out) <->
     props_ok props /\ names_pi_ok props (map fst intervals) /\ names_coh_ok props cohesion /\
     rows_ok cohesion /\ blocs_disjoint intervals (map fst props)).
  { rewrite Hacc. unfold gen_preconditions. split.
    - intros (P1 & P2 & P3 & P4 & P5 & _).
      split; [exact P1|split; [exact P2|split; [exact P3|split; [exact P4|exact P5]]]].
    - intros (P1 & P2 & P3 & P4 & P5). split; [exact P1|]. split; [exact P2|]. split; [exact P3|].
      split; [exact P4|]. split; [exact P5|].
      apply (gen_picked_rows_redundant props cohesion Hnd Hex P4). }
  split; [exact Hacc'|]. split.
  - intros H.
    destruct (bloc_checks_total props (map fst intervals) cohesion) as [E|E].
    2:{ apply bloc_checks_err_iff in E. tauto. }
    right. right. right. right.
    rewrite (gen_after_checks _ _ _ E) in H. apply rmap_err_inv in H.
    destruct H as (pre & b & post & Hsplit & Hb & _).
    assert (Hbin : In b (map fst props)).
    { rewrite Hsplit. apply in_or_app. right. left. reflexivity. }
    destruct (construct_bloc_inr _ _ _ _ _ Hwf Hnn Hb) as [[Hk _]|[_ (is & ps & E1 & E2 & Hcase)]];
      [discriminate Hk|].
    exists b, is. split; [exact Hbin|]. split; [exact E1|].
    destruct Hcase as [Hc|Hc].
    + apply (proj1 (overlap_meaning (map pi_cands is))). exact Hc.
    + exfalso. apply Hc. apply bloc_checks_ok_iff in E. destruct E as (_ & _ & _ & P4).
      apply (gen_picked_rows_redundant props cohesion Hnd Hex P4 b ps Hbin E2).
  - intros Hbad. apply (gen_rejects_iff _ _ _ Hwf Hnn Hci Hcc).
    intros (P1 & P2 & P3 & P4 & P5 & _).
    destruct Hbad as [H|[H|[H|[(row & Hrow & H)|(b & is & Hb & His & H)]]]]; try contradiction.
    + apply H. apply (P4 row Hrow).
    + destruct (P5 b is Hb His) as [N1 N2]. destruct H; contradiction.
Qed.

(* the boundary of the sum tests, for all inputs *)
Theorem gen_boundary : forall props intervals cohesion,
  (dict_total props <= 1 - (5 # 1000000000) \/ 1 + (5 # 1000000000) <= dict_total props ->
   gen_construct props intervals cohesion = inr EValue) /\
  (forall row, In row cohesion ->
     dict_total (snd row) <= 1 - (5 # 1000000000) \/ 1 + (5 # 1000000000) <= dict_total (snd row) ->
     gen_construct props intervals cohesion = inr EValue) /\
  (forall out, gen_construct props intervals cohesion = inl out ->
     (1 - (5 # 1000000000) < dict_total props /\ dict_total props < 1 + (5 # 1000000000)) /\
     forall row, In row cohesion ->
       1 - (5 # 1000000000) < dict_total (snd row) /\ dict_total (snd row) < 1 + (5 # 1000000000)).
Proof.
  intros props intervals cohesion.
  destruct (gen_refuses_parameters props intervals cohesion) as (R1 & _ & _ & R4).
  split; [|split].
  - intros H. apply R1. unfold props_ok. apply not_sums_to_one_iff. exact H.
  - intros row Hrow H. apply R4. exists row. split; [exact Hrow|]. unfold row_ok.
    apply not_sums_to_one_iff. exact H.
  - intros out H. apply gen_inl_checks in H. apply bloc_checks_ok_iff in H.
    destruct H as (P1 & _ & _ & P4). split; [exact P1|]. intros row Hrow. apply (P4 row Hrow).
Qed.

(* no partial result *)
Theorem gen_no_partial : forall props intervals cohesion e,
  gen_construct props intervals cohesion = inr e ->
  forall out, gen_construct props intervals cohesion <> inl out.
Proof. intros props intervals cohesion e H out H'. rewrite H in H'. discriminate. Qed.

(* the flat branch *)
Theorem gen_flat : forall props (intervals : list (positive * pinterval)) cohesion,
  (gen_construct_flat props intervals cohesion = inl intervals <->
   props_ok props /\ names_pi_ok props (map fst intervals) /\ names_coh_ok props cohesion /\
   rows_ok cohesion) /\
  (gen_construct_flat props intervals cohesion = inr EValue <->
   ~ props_ok props \/ ~ names_pi_ok props (map fst intervals) \/ ~ names_coh_ok props cohesion \/
   (exists row, In row cohesion /\ ~ row_ok row)) /\
  (gen_construct_flat props intervals cohesion = inl intervals \/
   gen_construct_flat props intervals cohesion = inr EValue).
Proof.
  intros props intervals cohesion. unfold gen_construct_flat, rbind.
  rewrite <- bloc_checks_ok_iff, <- bloc_checks_err_iff.
  destruct (bloc_checks_total props (map fst intervals) cohesion) as [E|E]; rewrite E.
  - split; [split; reflexivity|]. split; [split; discriminate|]. left. reflexivity.
  - split; [split; discriminate|]. split; [split; reflexivity|]. right. reflexivity.
Qed.
