(* Proofs/C14_runs.v — property C14 at the level of whole generator runs: the typed run functions
   of Spec/GenRunSpec.v (the compositions Model/Dispatch.v performs inside the op_gen_ functions) return
   well-formed profiles of exactly the requested size, fail only on impossible recorded draws
   (EScript) or in the documented ValueError cases, and succeed on every admissible draw.
   This file: the generic tail lemma and the name models (Plackett-Luce, Cumulative, exact and MCMC
   Bradley-Terry), AlternatingCrossover, CambridgeSampler, the spatial models.  The slate models
   are in Proofs/C14_runs_slate.v. *)
From VK Require Import Base Core GenValidation PrefInterval Generators Generators2.
From VK.Spec Require Import Content GenSpec Gen2Spec BTSpec GenRunSpec.
From VK.Proofs Require Import Lib_rk Lib_sets C12_expand C15_bt C14_wf C14_kernels C14_sizes C14_gen2.
From Coq Require Import Permutation Lia Lqa Setoid Morphisms.

Local Notation twt := (total_wt pcand).

(* ------------------------------------------------------------------ *)
(** * Forall2 helpers *)

Lemma Forall2_compose : forall (A B C : Type) (R : A -> B -> Prop) (S : B -> C -> Prop) l1 l2 l3,
  Forall2 R l1 l2 -> Forall2 S l2 l3 -> Forall2 (fun a c => exists b, R a b /\ S b c) l1 l3.
Proof.
  intros A B C R S l1 l2 l3 H. revert l3. induction H as [|a b l1 l2 Hab _ IH]; intros l3 H2.
  - inversion H2. constructor.
  - inversion H2 as [|b' c l2' l3' Hbc Hrest]; subst. constructor.
    + exists b. split; assumption.
    + apply IH. exact Hrest.
Qed.

Lemma Forall2_weaken : forall (A B : Type) (R S : A -> B -> Prop) l1 l2,
  (forall a b, In a l1 -> In b l2 -> R a b -> S a b) -> Forall2 R l1 l2 -> Forall2 S l1 l2.
Proof.
  intros A B R S l1 l2 Himp H. induction H as [|a b l1 l2 Hab _ IH]; constructor.
  - apply Himp; [left; reflexivity|left; reflexivity|exact Hab].
  - apply IH. intros a' b' Ha Hb. apply Himp; right; assumption.
Qed.

Lemma Forall2_In_r : forall (A B : Type) (R : A -> B -> Prop) l1 l2 y,
  Forall2 R l1 l2 -> In y l2 -> exists x, In x l1 /\ R x y.
Proof.
  intros A B R l1 l2 y H. induction H as [|a b l1 l2 Hab _ IH]; intros Hy; [destruct Hy|].
  destruct Hy as [<-|Hy].
  - exists a. split; [left; reflexivity|exact Hab].
  - destruct (IH Hy) as (x & Hx & Hr). exists x. split; [right; exact Hx|exact Hr].
Qed.

Lemma Forall2_In_l : forall (A B : Type) (R : A -> B -> Prop) l1 l2 x,
  Forall2 R l1 l2 -> In x l1 -> exists y, In y l2 /\ R x y.
Proof.
  intros A B R l1 l2 x H. induction H as [|a b l1 l2 Hab _ IH]; intros Hx; [destruct Hx|].
  destruct Hx as [<-|Hx].
  - exists b. split; [left; reflexivity|exact Hab].
  - destruct (IH Hx) as (y & Hy & Hr). exists y. split; [right; exact Hy|exact Hr].
Qed.

Lemma Forall2_map_r : forall (A B C : Type) (R : A -> C -> Prop) (f : B -> C) l1 l2,
  Forall2 (fun a b => R a (f b)) l1 l2 -> Forall2 R l1 (map f l2).
Proof. intros A B C R f l1 l2 H. induction H; cbn [map]; constructor; assumption. Qed.

Lemma Forall2_map_l : forall (A B C : Type) (R : C -> B -> Prop) (f : A -> C) l1 l2,
  Forall2 (fun a b => R (f a) b) l1 l2 -> Forall2 R (map f l1) l2.
Proof. intros A B C R f l1 l2 H. induction H; cbn [map]; constructor; assumption. Qed.

Lemma Forall2_map_l_inv : forall (A B C : Type) (R : C -> B -> Prop) (f : A -> C) l1 l2,
  Forall2 R (map f l1) l2 -> Forall2 (fun a b => R (f a) b) l1 l2.
Proof.
  intros A B C R f l1. induction l1 as [|a l1 IH]; intros l2 H; inversion H; subst; constructor.
  - assumption.
  - apply IH. assumption.
Qed.

Lemma Forall2_len : forall (A B : Type) (R : A -> B -> Prop) l1 l2, Forall2 R l1 l2 -> length l1 = length l2.
Proof. intros A B R l1 l2 H. induction H; cbn [length]; congruence. Qed.

Lemma Forall2_map_eq : forall (A B C : Type) (f : A -> C) (g : B -> C) l1 l2,
  Forall2 (fun a b => f a = g b) l1 l2 -> map f l1 = map g l2.
Proof. intros A B C f g l1 l2 H. induction H; cbn [map]; congruence. Qed.

(* ------------------------------------------------------------------ *)
(** * result-monad helpers *)

Lemma rbind_inl : forall (A B : Type) (x : res A) (f : A -> res B) b,
  rbind x f = inl b -> exists a, x = inl a /\ f a = inl b.
Proof. intros A B [a|e] f b H; cbn [rbind] in H; [exists a; split; [reflexivity|exact H]|discriminate]. Qed.

Lemma rbind_inr : forall (A B : Type) (x : res A) (f : A -> res B) e,
  rbind x f = inr e -> x = inr e \/ exists a, x = inl a /\ f a = inr e.
Proof. intros A B [a|e'] f e H; cbn [rbind] in H; [right; exists a; split; [reflexivity|exact H]|left; injection H as ->; reflexivity]. Qed.

Lemma rmap_err_in : forall (A B : Type) (f : A -> res B) l e,
  rmap f l = inr e -> exists a, In a l /\ f a = inr e.
Proof.
  intros A B f l e H. apply rmap_err_inv in H. destruct H as (l1 & a & l2 & -> & Ha & _).
  exists a. split; [apply in_or_app; right; left; reflexivity|exact Ha].
Qed.

Lemma rmap_succeeds : forall (A B : Type) (f : A -> res B) l,
  (forall a, In a l -> exists b, f a = inl b) -> exists bs, rmap f l = inl bs.
Proof.
  intros A B f l. induction l as [|a l IH]; intros H; cbn [rmap].
  - eexists. reflexivity.
  - destruct (H a (or_introl eq_refl)) as (b & Hb). rewrite Hb. cbn [rbind].
    destruct IH as (bs & Hbs); [intros a' Ha'; apply H; right; exact Ha'|].
    rewrite Hbs. cbn [rbind]. eexists. reflexivity.
Qed.

(* collect: all kernels succeed, ballots and calls in order *)
Lemma collect_inv : forall (A : Type) (l : list (res (A * list gcall))) xs calls,
  collect l = inl (xs, calls) ->
  exists ys, Forall2 (fun r y => r = inl y) l ys /\ xs = map fst ys /\ calls = concat (map snd ys).
Proof.
  intros A l xs calls H. unfold collect in H. apply rbind_inl in H. destruct H as (ys & Hr & H).
  injection H as <- <-. exists ys. split; [|split; reflexivity].
  apply rmap_ok_inv in Hr. exact Hr.
Qed.

Lemma collect_map_inv : forall (A D : Type) (f : D -> res (A * list gcall)) ds xs calls,
  collect (map f ds) = inl (xs, calls) ->
  Forall2 (fun d x => exists c, f d = inl (x, c)) ds xs /\ length xs = length ds.
Proof.
  intros A D f ds xs calls H. apply collect_inv in H. destruct H as (ys & HF & -> & _).
  assert (HF' : Forall2 (fun d y => f d = inl y) ds ys) by (apply (Forall2_map_l_inv _ _ _ (fun r y => r = inl y) f); exact HF).
  split.
  - apply Forall2_map_r. eapply Forall2_weaken; [|exact HF'].
    intros d [x c] _ _ Hd. exists c. exact Hd.
  - rewrite map_length. symmetry. apply (Forall2_len _ _ _ _ _ HF').
Qed.

Lemma collect_err : forall (A : Type) (l : list (res (A * list gcall))) e,
  collect l = inr e -> In (inr e) l.
Proof.
  intros A l e H. unfold collect in H. apply rbind_inr in H. destruct H as [H|(ys & _ & H)]; [|discriminate].
  apply rmap_err_in in H. destruct H as (a & Ha & ->). exact Ha.
Qed.

Lemma collect_map_err : forall (A D : Type) (f : D -> res (A * list gcall)) ds e,
  collect (map f ds) = inr e -> exists d, In d ds /\ f d = inr e.
Proof.
  intros A D f ds e H. apply collect_err in H. apply in_map_iff in H. destruct H as (d & Hd & Hin).
  exists d. split; assumption.
Qed.

Lemma collect_map_succeeds : forall (A D : Type) (f : D -> res (A * list gcall)) ds,
  (forall d, In d ds -> exists y, f d = inl y) -> exists out, collect (map f ds) = inl out.
Proof.
  intros A D f ds H. unfold collect.
  destruct (rmap_succeeds _ _ (fun x : res (A * list gcall) => x) (map f ds)) as (ys & Hys).
  - intros r Hr. apply in_map_iff in Hr. destruct Hr as (d & <- & Hd). apply H. exact Hd.
  - rewrite Hys. cbn [rbind]. eexists. reflexivity.
Qed.

(* ------------------------------------------------------------------ *)
(** * The common tail: from pools of unit-weight ballots of a given shape to [run_wf] *)

Section Finish.
Context {X : Type}.
Variable bid : X -> bloc.
Variable size : X -> nat.
Variable shape : X -> ranking pcand -> list (pcand * Q) -> Prop.

Definition pool_ok (x : X) (bp : bloc * list gballot) : Prop :=
  fst bp = bid x /\ length (snd bp) = size x /\
  forall b, In b (snd bp) -> wt b == 1 /\ shape x (rk b) (sc b).

Theorem finish_run_wf : forall (blocs : list X) pools by_bloc agg,
  Forall2 pool_ok blocs pools ->
  finish_blocs pools = inl (by_bloc, agg) ->
  run_wf bid size shape blocs by_bloc agg.
Proof.
  intros blocs pools by_bloc agg HP H.
  pose proof (by_bloc_condensed pools by_bloc agg H) as HC.
  destruct (finish_blocs_ok pools by_bloc agg H) as (_ & Hcat & Hcands).
  pose proof (by_bloc_sum pools by_bloc agg H) as Hsum.
  destruct (finish_total pools by_bloc agg H) as (_ & _ & Htot).
  assert (Hunit : forall bp b, In bp pools -> In b (snd bp) -> wt b == 1).
  { intros bp b Hbp Hb. destruct (Forall2_In_r _ _ _ _ _ _ HP Hbp) as (x & _ & (_ & _ & Hx)).
    apply (Hx b Hb). }
  assert (Hwp : forall bp, In bp pools -> whole_pos_weights (snd bp)).
  { intros bp Hbp b Hb. apply whole_pos_1. apply (Hunit bp b Hbp Hb). }
  destruct (finish_integral_positive pools by_bloc agg H Hwp) as (Hwa & Hwb).
  assert (HF : Forall2 (fun x (bq : bloc * gprofile) =>
             fst bq = bid x /\
             twt (ballots (snd bq)) == Qnat (size x) /\
             whole_pos_weights (ballots (snd bq)) /\
             (forall b, In b (ballots (snd bq)) -> shape x (rk b) (sc b))) blocs by_bloc).
  { pose proof (Forall2_compose _ _ _ _ _ _ _ _ HP HC) as HPC.
    eapply Forall2_weaken; [|exact HPC].
    intros x bq _ Hbq (bp & (Hn & Hl & Hs) & (Hn' & _ & _ & Hinv & _ & _ & _ & Hu)).
    split; [rewrite Hn', Hn; reflexivity|].
    split; [rewrite Hu, Hl; [reflexivity|]; intros b Hb; apply (Hs b Hb)|].
    split; [apply Hwb; exact Hbq|].
    intros b Hb. destruct (Hinv b Hb) as (y & Hy & -> & ->). apply (Hs y Hy). }
  unfold run_wf. split; [exact HF|]. split; [exact Hcat|].
  split; [intros k; apply (Hsum k)|].
  split.
  { rewrite (Htot Hunit).
    replace (map (fun bp : bloc * list gballot => length (snd bp)) pools) with (map size blocs);
      [reflexivity|].
    apply Forall2_map_eq. eapply Forall2_weaken; [|exact HP].
    intros x bp _ _ (_ & Hl & _). symmetry. exact Hl. }
  split; [exact Hwa|]. split.
  - intros b Hb. rewrite Hcat in Hb. apply in_concat in Hb. destruct Hb as (l & Hl & Hbl).
    apply in_map_iff in Hl. destruct Hl as (bq & <- & Hbq).
    destruct (Forall2_In_r _ _ _ _ _ _ HF Hbq) as (x & Hx & (_ & _ & _ & Hs)).
    exists x. split; [exact Hx|]. apply Hs. exact Hbl.
  - intros Hne. apply Hcands. intros ->. apply Forall2_len in HF. destruct blocs; [contradiction|discriminate].
Qed.
End Finish.

(* ------------------------------------------------------------------ *)
(** * run_finish and bloc-structured runs *)

(* the tail with any type of primitive-call log ([gcall] for Generators.v, [camcall] for Cambridge) *)
Definition finish_gen {C : Type} (pools : list (bloc * (list gballot * list C)))
  : res (list (bloc * gprofile) * gprofile * list C) :=
  let! r := finish_blocs (map (fun x => (fst x, fst (snd x))) pools) in
  ok (fst r, snd r, concat (map (fun x => snd (snd x)) pools)).

Lemma run_finish_gen : forall pools, run_finish pools = finish_gen pools.
Proof. reflexivity. Qed.

Lemma finish_gen_inv : forall (C : Type) (pools : list (bloc * (list gballot * list C))) by_bloc agg calls,
  finish_gen pools = inl (by_bloc, agg, calls) ->
  finish_blocs (map (fun x : bloc * (list gballot * list C) => (fst x, fst (snd x))) pools)
    = inl (by_bloc, agg) /\ calls = concat (map (fun x : bloc * (list gballot * list C) => snd (snd x)) pools).
Proof.
  intros C pools by_bloc agg calls H. unfold finish_gen in H. apply rbind_inl in H.
  destruct H as ([bb ag] & Hf & H). cbn [fst snd] in H. injection H as <- <- <-.
  split; [exact Hf|reflexivity].
Qed.

Lemma finish_gen_total : forall (C : Type) (pools : list (bloc * (list gballot * list C))),
  exists out, finish_gen pools = inl out.
Proof.
  intros C pools. unfold finish_gen.
  destruct (finish_blocs_never_errors (map (fun x : bloc * (list gballot * list C) => (fst x, fst (snd x))) pools))
    as (r & Hr).
  rewrite Hr. cbn [rbind]. eexists. reflexivity.
Qed.

Section BlocRun.
Context {X C : Type}.
Variable pool : X -> res (bloc * (list gballot * list C)).
Definition bloc_run (blocs : list X) : res (list (bloc * gprofile) * gprofile * list C) :=
  let! pools := rmap pool blocs in finish_gen pools.

Lemma bloc_run_inv : forall blocs by_bloc agg calls,
  bloc_run blocs = inl (by_bloc, agg, calls) ->
  exists pools, Forall2 (fun x p => pool x = inl p) blocs pools /\ finish_blocs (map (fun x : bloc * (list gballot * list C) => (fst x, fst (snd x))) pools)
      = inl (by_bloc, agg) /\ calls = concat (map (fun x : bloc * (list gballot * list C) => snd (snd x)) pools).
Proof.
  intros blocs by_bloc agg calls H. unfold bloc_run in H. apply rbind_inl in H.
  destruct H as (pools & Hp & H). apply rmap_ok_inv in Hp. apply finish_gen_inv in H.
  exists pools. split; [exact Hp|exact H].
Qed.

Lemma bloc_run_wf : forall (bid : X -> bloc) (size : X -> nat) shape blocs by_bloc agg calls,
  (forall x p, In x blocs -> pool x = inl p -> pool_ok bid size shape x (fst p, fst (snd p))) ->
  bloc_run blocs = inl (by_bloc, agg, calls) ->
  run_wf bid size shape blocs by_bloc agg.
Proof.
  intros bid size shape blocs by_bloc agg calls Hok H. apply bloc_run_inv in H.
  destruct H as (pools & HF & Hfin & _).
  refine (finish_run_wf bid size shape blocs _ by_bloc agg _ Hfin).
  apply Forall2_map_r. eapply Forall2_weaken; [|exact HF].
  intros x p Hx _ Hp. apply (Hok x p Hx Hp).
Qed.

Lemma bloc_run_err : forall blocs e, bloc_run blocs = inr e -> exists x, In x blocs /\ pool x = inr e.
Proof.
  intros blocs e H. unfold bloc_run in H. apply rbind_inr in H. destruct H as [H|(pools & _ & H)].
  - apply rmap_err_in in H. exact H.
  - destruct (finish_gen_total C pools) as (out & Ho). rewrite Ho in H. discriminate.
Qed.

Lemma bloc_run_succeeds : forall blocs,
  (forall x, In x blocs -> exists p, pool x = inl p) -> exists out, bloc_run blocs = inl out.
Proof.
  intros blocs H. unfold bloc_run. destruct (rmap_succeeds _ _ pool blocs H) as (pools & Hp).
  rewrite Hp. cbn [rbind]. apply finish_gen_total.
Qed.
End BlocRun.

(* shapes *)
Lemma complete_shape_rank_of : forall nz zero order tail,
  Permutation order nz -> Permutation tail zero -> complete_shape nz zero (rank_of order tail) [].
Proof.
  intros nz zero order tail Po Pt. split; [reflexivity|]. exists order, tail.
  split; [exact Po|]. split; [exact Pt|]. split; [reflexivity|].
  split; [apply flat_rank_of|]. rewrite flat_rank_of.
  assert (P : Permutation (order ++ tail) (nz ++ zero)) by (apply Permutation_app; assumption).
  split; [exact P|]. intros Hnd. apply (Permutation_NoDup (Permutation_sym P) Hnd).
Qed.

(* ------------------------------------------------------------------ *)
(** * name / short-name Plackett-Luce *)

Lemma pl_ballot_shape : forall iv bl d b calls,
  pl_ballot iv bl d = inl (b, calls) -> wt b == 1 /\ short_pl_shape iv bl (rk b) (sc b).
Proof.
  intros iv bl d b calls H. pose proof (pl_ballot_wf iv bl d b calls H) as W. cbv zeta in W.
  destruct W as (Hwt & Hsc & (order & tail & Ho & Ht & Hrk & Hlo & Hndo & Hio & Hlt & Hndt & Hit)
                 & _ & Hlen & Hincl & Hnd).
  split; [exact Hwt|]. split; [exact Hsc|]. split; [exact Hlen|]. split; [exact Hincl|].
  split.
  { intros Hc. apply Hnd. unfold pi_cands in Hc. destruct (Lib_sets.NoDup_app_inv _ _ Hc) as (_ & _ & Hd). exact Hd. }
  split.
  { exists order, tail. repeat split; assumption. }
  intros Hc Hbl. pose proof H as H'. rewrite Hbl in H'. destruct (pl_complete iv d b calls Hc H') as (o' & t' & Hrk' & Po & Pt & _).
  rewrite Hrk', Hsc.
  change (singletons pcand o' ++ match t' with [] => [] | _ :: _ => [t'] end) with (rank_of o' t').
  apply complete_shape_rank_of; assumption.
Qed.


Lemma pl_pool_inv : forall bl x p, pl_pool bl x = inl p ->
  exists bs calls, pl_bloc (snd (fst x)) bl (snd x) = inl (bs, calls) /\ p = (fst (fst x), (bs, calls)).
Proof.
  intros bl x p H. unfold pl_pool in H. apply rbind_inl in H. destruct H as ([bs calls] & Hr & H).
  injection H as <-. exists bs, calls. split; [exact Hr|reflexivity].
Qed.

Lemma pl_pool_ok : forall bl x p, pl_pool bl x = inl p ->
  pool_ok pl_bid pl_size (pl_shape_of bl) x (fst p, fst (snd p)).
Proof.
  intros bl x p H. apply pl_pool_inv in H. destruct H as (bs & calls & Hr & ->). cbn [fst snd].
  unfold pl_bloc in Hr. apply collect_map_inv in Hr. destruct Hr as (HF & Hl).
  split; [reflexivity|]. split; [exact Hl|].
  intros b Hb. destruct (Forall2_In_r _ _ _ _ _ _ HF Hb) as (d & _ & (c & Hd)).
  apply (pl_ballot_shape _ _ _ _ _ Hd).
Qed.

Theorem gen_pl_wf : forall bl blocs by_bloc agg calls,
  gen_pl_run bl blocs = inl (by_bloc, agg, calls) ->
  run_wf pl_bid pl_size (pl_shape_of bl) blocs by_bloc agg.
Proof.
  intros bl blocs by_bloc agg calls H.
  apply (bloc_run_wf (pl_pool bl) pl_bid pl_size (pl_shape_of bl) blocs by_bloc agg calls); [|exact H].
  intros x p _ Hp. apply pl_pool_ok. exact Hp.
Qed.


Theorem gen_pl_errors : forall bl blocs e,
  gen_pl_run bl blocs = inr e ->
  e = EScript \/ (e = EValue /\ exists x, In x blocs /\ snd x <> [] /\ pl_short_of_zero bl x).
Proof.
  intros bl blocs e H. apply (bloc_run_err (pl_pool bl)) in H. destruct H as (x & Hx & H).
  unfold pl_pool in H. apply rbind_inr in H. destruct H as [H|(r & _ & H)]; [|discriminate].
  unfold pl_bloc in H. apply collect_map_err in H. destruct H as (d & Hd & H).
  destruct (pl_ballot_errors (snd (fst x)) bl d) as (H1 & H2). cbv zeta in H1, H2.
  destruct (H1 e H) as [E|E]; [left; exact E|right]. subst e.
  split; [reflexivity|]. exists x. split; [exact Hx|]. split.
  - intros Hc. rewrite Hc in Hd. destruct Hd.
  - apply H2 in H. apply H.
Qed.


Lemma pl_ballot_succeeds : forall iv bl d,
  valid_sample (map fst (pi_int iv)) (Nat.min bl (length (pi_int iv))) (fst d) = true ->
  ((length (pi_int iv) < bl)%nat ->
     (bl - length (pi_int iv) <= length (pi_zero iv))%nat /\
     valid_sample (pi_zero iv) (bl - length (pi_int iv)) (snd d) = true) ->
  exists y, pl_ballot iv bl d = inl y.
Proof.
  intros iv bl d Hv Ht. unfold pl_ballot. rewrite pl_counts_spec, Hv. cbn [negb].
  destruct (bl - length (pi_int iv))%nat as [|t] eqn:Et; [eexists; reflexivity|].
  destruct Ht as (Hle & Hz); [lia|].
  destruct (Nat.ltb_spec (length (pi_zero iv)) (S t)) as [Hlt|Hge]; [lia|].
  rewrite Hz. cbn [negb]. eexists. reflexivity.
Qed.

Theorem gen_pl_succeeds : forall bl blocs,
  (forall x, In x blocs -> snd x <> [] -> ~ pl_short_of_zero bl x) ->
  (forall x, In x blocs -> pl_draws_ok bl x) ->
  exists out, gen_pl_run bl blocs = inl out.
Proof.
  intros bl blocs Hz Hd. apply (bloc_run_succeeds (pl_pool bl)). intros x Hx.
  unfold pl_pool, pl_bloc.
  destruct (collect_map_succeeds _ _ (pl_ballot (snd (fst x)) bl) (snd x)) as (out & Ho).
  - intros d Hin. destruct (Hd x Hx d Hin) as (H1 & H2). apply pl_ballot_succeeds; [exact H1|].
    intros Hlt. split; [|apply H2; exact Hlt].
    assert (Hne : snd x <> []) by (intros Hc; rewrite Hc in Hin; destruct Hin).
    specialize (Hz x Hx Hne). unfold pl_short_of_zero in Hz. lia.
  - rewrite Ho. cbn [rbind]. eexists. reflexivity.
Qed.

(* name_PlackettLuce: all blocs rank the same candidate set [cs] completely *)
Theorem gen_name_pl_complete : forall (cs : list pcand) blocs by_bloc agg calls,
  (forall x, In x blocs -> NoDup (pi_cands (snd (fst x))) /\ Permutation (pi_cands (snd (fst x))) cs) ->
  gen_pl_run (length cs) blocs = inl (by_bloc, agg, calls) ->
  forall b, In b (ballots agg) ->
    sc b = [] /\ Permutation (flat pcand (rk b)) cs /\ NoDup (flat pcand (rk b)) /\
    exists x, In x blocs /\ complete_shape (map fst (pi_int (snd (fst x)))) (pi_zero (snd (fst x))) (rk b) (sc b).
Proof.
  intros cs blocs by_bloc agg calls Hcs H b Hb.
  destruct (gen_pl_wf _ _ _ _ _ H) as (_ & _ & _ & _ & _ & Hs & _).
  destruct (Hs b Hb) as (x & Hx & (Hsc & _ & _ & _ & _ & Hc)).
  destruct (Hcs x Hx) as (Hnd & P).
  assert (Hl : length cs = length (pi_cands (snd (fst x)))) by (symmetry; apply Permutation_length; exact P).
  specialize (Hc Hnd Hl). pose proof Hc as Hc'.
  destruct Hc as (_ & order & tail & _ & _ & _ & _ & Pf & Hndf).
  split; [exact Hsc|]. split; [eapply Permutation_trans; [exact Pf|exact P]|].
  split; [apply Hndf; exact Hnd|]. exists x. split; [exact Hx|exact Hc'].
Qed.

(* ------------------------------------------------------------------ *)
(** * name_Cumulative *)

Lemma cumulative_ballot_shape : forall iv nv d b calls,
  cumulative_ballot iv nv d = inl (b, calls) -> wt b == 1 /\ cumulative_shape iv nv (rk b) (sc b).
Proof.
  intros iv nv d b calls H. pose proof (cumulative_ballot_wf iv nv d b calls H) as W.
  destruct W as (Hrk & Hwt & _ & _ & Hnd & _ & Hincl & Hv & Hsum & _).
  split; [exact Hwt|]. split; [exact Hrk|]. split; [exact Hnd|]. split; [exact Hincl|].
  split; [|exact Hsum]. intros c v Hcv. apply (Hv c v Hcv).
Qed.


Lemma cum_pool_ok : forall nv x p, cum_pool nv x = inl p ->
  pool_ok cum_bid cum_size (cum_shape_of nv) x (fst p, fst (snd p)).
Proof.
  intros nv x p H. unfold cum_pool in H. apply rbind_inl in H. destruct H as ([bs calls] & Hr & H).
  injection H as <-. cbn [fst snd].
  unfold cumulative_bloc in Hr. apply collect_map_inv in Hr. destruct Hr as (HF & Hl).
  split; [reflexivity|]. split; [exact Hl|].
  intros b Hb. destruct (Forall2_In_r _ _ _ _ _ _ HF Hb) as (d & _ & (c & Hd)).
  apply (cumulative_ballot_shape _ _ _ _ _ Hd).
Qed.

Theorem gen_cumulative_wf : forall nv blocs by_bloc agg calls,
  gen_cumulative_run nv blocs = inl (by_bloc, agg, calls) ->
  run_wf cum_bid cum_size (cum_shape_of nv) blocs by_bloc agg.
Proof.
  intros nv blocs by_bloc agg calls H.
  apply (bloc_run_wf (cum_pool nv) cum_bid cum_size (cum_shape_of nv) blocs by_bloc agg calls); [|exact H].
  intros x p _ Hp. apply cum_pool_ok. exact Hp.
Qed.

Theorem gen_cumulative_errors : forall nv blocs e, gen_cumulative_run nv blocs = inr e -> e = EScript.
Proof.
  intros nv blocs e H. apply (bloc_run_err (cum_pool nv)) in H. destruct H as (x & Hx & H).
  unfold cum_pool in H. apply rbind_inr in H. destruct H as [H|(r & _ & H)]; [|discriminate].
  unfold cumulative_bloc in H. apply collect_map_err in H. destruct H as (d & Hd & H).
  unfold cumulative_ballot in H.
  destruct (valid_iid (map fst (pi_int (snd (fst x)))) nv d); cbn [negb] in H; [discriminate|].
  injection H as <-. reflexivity.
Qed.

Theorem gen_cumulative_succeeds : forall nv blocs,
  (forall x d, In x blocs -> In d (snd x) -> valid_iid (map fst (pi_int (snd (fst x)))) nv d = true) ->
  exists out, gen_cumulative_run nv blocs = inl out.
Proof.
  intros nv blocs Hd. apply (bloc_run_succeeds (cum_pool nv)). intros x Hx.
  unfold cum_pool, cumulative_bloc.
  destruct (collect_map_succeeds _ _ (cumulative_ballot (snd (fst x)) nv) (snd x)) as (out & Ho).
  - intros d Hin. unfold cumulative_ballot. rewrite (Hd x d Hx Hin). cbn [negb]. eexists. reflexivity.
  - rewrite Ho. cbn [rbind]. eexists. reflexivity.
Qed.

(* ------------------------------------------------------------------ *)
(** * exact name_BradleyTerry *)


Lemma bt_pool_ok : forall x p, bt_pool x = inl p ->
  pool_ok bt_bid bt_size bt_shape_of x (fst p, fst (snd p)).
Proof.
  intros x p H. unfold bt_pool in H. apply rbind_inl in H. destruct H as ([bs calls] & Hr & H).
  injection H as <-. cbn [fst snd].
  apply table_bloc_ok in Hr. destruct Hr as (_ & Hl & _ & -> & Hin).
  split; [reflexivity|]. split; [exact Hl|].
  intros b Hb. apply in_map_iff in Hb. destruct Hb as (r & <- & Hr).
  split; [reflexivity|]. destruct (Hin r Hr) as (v & Hv & _).
  cbn [unit_ballot plain_ballot rk sc]. apply complete_shape_rank_of; [|reflexivity].
  assert (Hk : In r (map fst (bt_pdf (pi_int (bt_iv x))))) by (apply in_map_iff; exists (r, v); split; [reflexivity|exact Hv]).
  rewrite bt_pdf_keys in Hk. apply (perms_spec pcand) in Hk. exact Hk.
Qed.

Theorem gen_bt_wf : forall blocs by_bloc agg calls,
  gen_bt_run blocs = inl (by_bloc, agg, calls) ->
  run_wf bt_bid bt_size bt_shape_of blocs by_bloc agg.
Proof.
  intros blocs by_bloc agg calls H.
  apply (bloc_run_wf bt_pool bt_bid bt_size bt_shape_of blocs by_bloc agg calls); [|exact H].
  intros x p _ Hp. apply bt_pool_ok. exact Hp.
Qed.

Lemma table_bloc_errors : forall tbl zero n draws e, table_bloc tbl zero n draws = inr e -> e = EScript.
Proof.
  intros tbl zero n draws e H. unfold table_bloc in H.
  destruct (Nat.eqb (length draws) n); cbn [negb] in H; [|injection H as <-; reflexivity].
  match type of H with (if negb ?c then _ else _) = _ => destruct c end; cbn [negb] in H;
    [discriminate|injection H as <-; reflexivity].
Qed.

Lemma table_bloc_succeeds : forall tbl zero n draws,
  length draws = n -> (forall r, In r draws -> exists v, In (r, v) tbl /\ 0 < v) ->
  exists out, table_bloc tbl zero n draws = inl out.
Proof.
  intros tbl zero n draws Hl Hin. unfold table_bloc.
  apply Nat.eqb_eq in Hl. rewrite Hl. cbn [negb].
  match goal with |- context [forallb ?f draws] => assert (E : forallb f draws = true) end.
  { apply forallb_forall. intros r Hr. destruct (Hin r Hr) as (v & Hv & Hp).
    apply existsb_exists. exists (r, v). split; [exact Hv|]. cbn [fst snd].
    rewrite list_peqb_refl. cbn [andb]. unfold Qlt_bool. apply negb_true_iff.
    destruct (Qle_bool v 0) eqn:Ec; [|reflexivity]. apply Qle_bool_iff in Ec. lra. }
  rewrite E. cbn [negb]. eexists. reflexivity.
Qed.

Theorem gen_bt_errors : forall blocs e, gen_bt_run blocs = inr e -> e = EScript.
Proof.
  intros blocs e H. apply (bloc_run_err bt_pool) in H. destruct H as (x & Hx & H).
  unfold bt_pool in H. apply rbind_inr in H. destruct H as [H|(r & _ & H)]; [|discriminate].
  apply table_bloc_errors in H. exact H.
Qed.

(* the recorded draws are rankings the table gives positive probability, as many as requested *)
Theorem gen_bt_succeeds : forall blocs,
  (forall x, In x blocs -> length (snd x) = snd (fst x) /\
     forall r, In r (snd x) -> exists v, In (r, v) (bt_pdf (pi_int (bt_iv x))) /\ 0 < v) ->
  exists out, gen_bt_run blocs = inl out.
Proof.
  intros blocs Hd. apply (bloc_run_succeeds bt_pool). intros x Hx. unfold bt_pool.
  destruct (Hd x Hx) as (Hl & Hin).
  destruct (table_bloc_succeeds (bt_pdf (pi_int (bt_iv x))) (pi_zero (bt_iv x)) _ _ Hl Hin) as (out & Ho).
  rewrite Ho. cbn [rbind]. eexists. reflexivity.
Qed.

(* ------------------------------------------------------------------ *)
(** * name_BradleyTerry MCMC *)


Lemma full_sample_perm : forall (pop r : list pcand),
  valid_sample pop (length pop) r = true -> NoDup pop /\ Permutation r pop.
Proof.
  intros pop r H. apply valid_sample_iff in H. destruct H as (L & N & I).
  assert (Hp : NoDup pop) by (apply (NoDup_incl_NoDup N); [lia|exact I]).
  split; [exact Hp|]. apply NoDup_incl_length_perm; assumption.
Qed.

Lemma btm_pool_ok : forall x p, btm_pool x = inl p ->
  pool_ok btm_bid btm_size btm_shape_of x (fst p, fst (snd p)).
Proof.
  intros x p H. unfold btm_pool in H. apply rbind_inl in H. destruct H as (bs & Hr & H).
  injection H as <-. cbn [fst snd].
  pose proof Hr as Hv. unfold bt_mcmc_bloc in Hv.
  destruct (valid_sample (map fst (pi_int (snd (fst (fst x))))) (length (pi_int (snd (fst (fst x))))) (snd (fst x)))
    eqn:Ev; cbn [negb] in Hv; [clear Hv|discriminate].
  rewrite <- (map_length fst) in Ev. apply full_sample_perm in Ev. destruct Ev as (_ & Ps).
  apply bt_mcmc_bloc_ok in Hr. destruct Hr as (_ & _ & _ & _ & Hl & Hb).
  split; [reflexivity|]. split; [exact Hl|].
  intros b Hin. destruct (Hb b Hin) as (r & Pr & Hrk & Hwt & Hsc & _).
  split; [exact Hwt|]. rewrite Hsc, Hrk.
  change (singletons pcand r ++ match pi_zero (snd (fst (fst x))) with [] => [] | _ :: _ => [pi_zero (snd (fst (fst x)))] end)
    with (rank_of r (pi_zero (snd (fst (fst x))))).
  apply complete_shape_rank_of; [|reflexivity]. eapply Permutation_trans; [exact Pr|exact Ps].
Qed.

Theorem gen_bt_mcmc_wf : forall blocs by_bloc agg calls,
  gen_bt_mcmc_run blocs = inl (by_bloc, agg, calls) ->
  run_wf btm_bid btm_size btm_shape_of blocs by_bloc agg /\ calls = [].
Proof.
  intros blocs by_bloc agg calls H. split.
  - apply (bloc_run_wf btm_pool btm_bid btm_size btm_shape_of blocs by_bloc agg calls); [|exact H].
    intros x p _ Hp. apply btm_pool_ok. exact Hp.
  - apply (bloc_run_inv btm_pool) in H. destruct H as (pools & HF & _ & ->).
    induction HF as [|x p blocs pools Hp _ IH]; [reflexivity|].
    cbn [map concat]. rewrite IH. unfold btm_pool in Hp. apply rbind_inl in Hp.
    destruct Hp as (bs & _ & Hp). injection Hp as <-. reflexivity.
Qed.

Theorem gen_bt_mcmc_errors : forall blocs e, gen_bt_mcmc_run blocs = inr e -> e = EScript.
Proof.
  intros blocs e H. apply (bloc_run_err btm_pool) in H. destruct H as (x & Hx & H).
  unfold btm_pool in H. apply rbind_inr in H. destruct H as [H|(r & _ & H)]; [|discriminate].
  unfold bt_mcmc_bloc in H.
  match type of H with (if negb ?c then _ else _) = _ => destruct c end; cbn [negb] in H;
    [|injection H as <-; reflexivity].
  match type of H with (if negb ?c then _ else _) = _ => destruct c end; cbn [negb] in H;
    [discriminate|injection H as <-; reflexivity].
Qed.

(* the seed is an arrangement of the supported candidates and every proposal is a position j with
   j + 1 inside the ranking (the uniform number is unconstrained) *)
Theorem gen_bt_mcmc_succeeds : forall blocs,
  (forall x, In x blocs ->
     valid_sample (map fst (pi_int (btm_iv x))) (length (pi_int (btm_iv x))) (snd (fst x)) = true /\
     forall s, In s (snd x) -> (S (fst s) < length (snd (fst x)))%nat) ->
  exists out, gen_bt_mcmc_run blocs = inl out.
Proof.
  intros blocs Hd. apply (bloc_run_succeeds btm_pool). intros x Hx. unfold btm_pool, bt_mcmc_bloc.
  destruct (Hd x Hx) as (Hv & Hs). unfold btm_iv in Hv. rewrite Hv. cbn [negb].
  match goal with |- context [forallb ?f (snd x)] => assert (E : forallb f (snd x) = true) end.
  { apply forallb_forall. intros s Hin. apply Nat.ltb_lt. apply (Hs s Hin). }
  rewrite E. cbn [negb rbind]. eexists. reflexivity.
Qed.

(* ------------------------------------------------------------------ *)
(** * AlternatingCrossover *)

Lemma interleave_NoDup : forall a b : list pcand, NoDup (a ++ b) -> NoDup (interleave a b).
Proof.
  induction a as [|x a IH]; intros b H; [constructor|].
  destruct b as [|y b]; [constructor|]. cbn [interleave].
  cbn [app] in H. inversion H as [|x' l Hx Hrest]; subst.
  pose proof (NoDup_remove_1 _ _ _ Hrest) as H1. pose proof (NoDup_remove_2 _ _ _ Hrest) as H2.
  constructor.
  - intros [->|Hc].
    + apply Hx. apply in_or_app. right. left. reflexivity.
    + apply Hx. apply interleave_incl in Hc. apply in_app_or in Hc. apply in_or_app.
      destruct Hc as [Hc|Hc]; [left; exact Hc|right; right; exact Hc].
  - constructor.
    + intros Hc. apply H2. apply interleave_incl in Hc. exact Hc.
    + apply IH. exact H1.
Qed.


Lemma ac_ballot_shape : forall cross bo oo bc oc,
  Permutation bo bc -> Permutation oo oc ->
  ac_shape bc oc (rk (ac_ballot cross bo oo)) (sc (ac_ballot cross bo oo)).
Proof.
  intros cross bo oo bc oc Pb Po.
  destruct (ac_ballot_wf cross bo oo) as (_ & Hsc & Hrk & Hfl & Hincl & _ & _).
  assert (P : Permutation (bo ++ oo) (bc ++ oc)) by (apply Permutation_app; assumption).
  split; [exact Hsc|]. exists (if cross then interleave oo bo else bo ++ oo).
  split; [exact Hrk|]. split; [exact Hfl|]. rewrite Hfl in Hincl. split.
  { intros c Hc. apply (Permutation_in _ P). apply Hincl. exact Hc. }
  split.
  { intros Hnd. destruct cross.
    - apply interleave_NoDup. apply (Permutation_NoDup (l := bo ++ oo)); [apply Permutation_app_comm|].
      apply (Permutation_NoDup (Permutation_sym P) Hnd).
    - apply (Permutation_NoDup (Permutation_sym P) Hnd). }
  intros Hl. destruct cross; [|exact P].
  eapply Permutation_trans; [apply interleave_perm|].
  - rewrite (Permutation_length Pb), (Permutation_length Po). symmetry. exact Hl.
  - eapply Permutation_trans; [apply Permutation_app_comm|exact P].
Qed.

Lemma ac_pool_ok : forall x p, ac_pool x = inl p ->
  pool_ok ac_id ac_size ac_shape_of x (fst p, fst (snd p)).
Proof.
  intros x p H. unfold ac_pool in H. apply rbind_inl in H. destruct H as ([bs calls] & Hr & H).
  injection H as <-. unfold pool_ok. cbn [fst snd]. apply ac_bloc_ok in Hr. destruct Hr as (Hl & Hk).
  split; [reflexivity|]. split; [exact Hl|].
  intros b Hb. apply In_nth_error in Hb. destruct Hb as (k & Hb).
  assert (Hlt : (k < length (ac_draws x))%nat).
  { rewrite <- Hl. apply nth_error_Some. rewrite Hb. discriminate. }
  destruct (nth_error (ac_draws x) k) as [d|] eqn:Ed; [|apply nth_error_None in Ed; lia].
  destruct (Hk k d Ed) as (Hb' & P1 & P2). rewrite Hb in Hb'. injection Hb' as ->.
  split; [apply ac_ballot_wf|]. apply ac_ballot_shape; assumption.
Qed.

Theorem gen_ac_wf : forall blocs by_bloc agg calls,
  gen_ac_run blocs = inl (by_bloc, agg, calls) ->
  run_wf ac_id ac_size ac_shape_of blocs by_bloc agg.
Proof.
  intros blocs by_bloc agg calls H.
  apply (bloc_run_wf ac_pool ac_id ac_size ac_shape_of blocs by_bloc agg calls); [|exact H].
  intros x p _ Hp. apply ac_pool_ok. exact Hp.
Qed.

Lemma ac_bloc_errors : forall draws n_cross i pb po p_bloc p_opp e,
  ac_bloc n_cross i pb po p_bloc p_opp draws = inr e -> e = EScript.
Proof.
  induction draws as [|[bo oo] draws IH]; intros n_cross i pb po p_bloc p_opp e H; cbn [ac_bloc] in H;
    [discriminate|].
  match type of H with (if negb ?c then _ else _) = _ => destruct c end; cbn [negb] in H;
    [|injection H as <-; reflexivity].
  apply rbind_inr in H. destruct H as [H|([bs cs] & _ & H)]; [|discriminate].
  apply (IH _ _ _ _ _ _ _ H).
Qed.

Theorem gen_ac_errors : forall blocs e, gen_ac_run blocs = inr e -> e = EScript.
Proof.
  intros blocs e H. apply (bloc_run_err ac_pool) in H. destruct H as (x & Hx & H).
  unfold ac_pool in H. apply rbind_inr in H. destruct H as [H|(r & _ & H)]; [|discriminate].
  apply ac_bloc_errors in H. exact H.
Qed.

Lemma valid_sample_perm_pop : forall pop pop' k r,
  Permutation pop pop' -> valid_sample pop k r = true -> valid_sample pop' k r = true.
Proof.
  intros pop pop' k r P H. apply valid_sample_iff in H. destruct H as (L & N & I).
  apply valid_sample_iff. split; [exact L|]. split; [exact N|].
  intros c Hc. apply (Permutation_in _ P). apply I. exact Hc.
Qed.

Lemma ac_bloc_succeeds : forall draws n_cross i pb po p_bloc p_opp bc oc,
  Permutation pb bc -> Permutation po oc ->
  (forall d, In d draws -> valid_sample bc (length bc) (fst d) = true /\
                           valid_sample oc (length oc) (snd d) = true) ->
  exists out, ac_bloc n_cross i pb po p_bloc p_opp draws = inl out.
Proof.
  induction draws as [|[bo oo] draws IH]; intros n_cross i pb po p_bloc p_opp bc oc Pb Po Hd;
    cbn [ac_bloc]; [eexists; reflexivity|].
  destruct (Hd (bo, oo) (or_introl eq_refl)) as (V1 & V2). cbn [fst snd] in V1, V2.
  rewrite (Permutation_length Pb), (Permutation_length Po).
  rewrite (valid_sample_perm_pop _ _ _ _ (Permutation_sym Pb) V1),
          (valid_sample_perm_pop _ _ _ _ (Permutation_sym Po) V2). cbn [andb negb].
  destruct (IH n_cross (S i) bo oo p_bloc p_opp bc oc) as ([bs cs] & Ho).
  - apply (proj2 (full_sample_perm _ _ V1)).
  - apply (proj2 (full_sample_perm _ _ V2)).
  - intros d Hin. apply Hd. right. exact Hin.
  - rewrite Ho. cbn [rbind]. eexists. reflexivity.
Qed.

(* every recorded pair of orders is a complete duplicate-free arrangement of the bloc's supported
   own / opposing candidates *)
Theorem gen_ac_succeeds : forall blocs,
  (forall x d, In x blocs -> In d (ac_draws x) ->
     valid_sample (ac_bcands x) (length (ac_bcands x)) (fst d) = true /\
     valid_sample (ac_ocands x) (length (ac_ocands x)) (snd d) = true) ->
  exists out, gen_ac_run blocs = inl out.
Proof.
  intros blocs Hd. apply (bloc_run_succeeds ac_pool). intros x Hx. unfold ac_pool.
  destruct (ac_bloc_succeeds (ac_draws x) (ac_ncross x) O (ac_bcands x) (ac_ocands x) (ac_pb x) (ac_po x)
              (ac_bcands x) (ac_ocands x) (Permutation_refl _) (Permutation_refl _)) as (out & Ho).
  - intros d Hin. apply (Hd x d Hx Hin).
  - rewrite Ho. cbn [rbind]. eexists. reflexivity.
Qed.

(* the crossover split inside one bloc: in generation order the first n_cross ballots are
   crossover ballots (opposing candidate first, alternating), the others bloc-first *)
Theorem gen_ac_split : forall x bs calls,
  ac_pool x = inl (ac_id x, (bs, calls)) ->
  length bs = length (ac_draws x) /\
  forall k d, nth_error (ac_draws x) k = Some d ->
    nth_error bs k = Some (ac_ballot (Nat.ltb k (ac_ncross x)) (fst d) (snd d)) /\
    flat pcand (rk (ac_ballot (Nat.ltb k (ac_ncross x)) (fst d) (snd d))) =
      (if Nat.ltb k (ac_ncross x) then interleave (snd d) (fst d) else fst d ++ snd d).
Proof.
  intros x bs calls H. unfold ac_pool in H. apply rbind_inl in H. destruct H as ([bs' calls'] & Hr & H).
  injection H as <- <-. apply ac_bloc_ok in Hr. destruct Hr as (Hl & Hk).
  split; [exact Hl|]. intros k d Hd. destruct (Hk k d Hd) as (Hb & _ & _). cbn [Nat.add] in Hb.
  split; [exact Hb|]. apply ac_ballot_wf.
Qed.

(* ------------------------------------------------------------------ *)
(** * CambridgeSampler *)


Lemma gen_cambridge_run_eq : forall freqs blocs,
  gen_cambridge_run freqs blocs = bloc_run (GenRunSpec.cam_pool freqs) blocs.
Proof. reflexivity. Qed.

Lemma cam_pool_ok : forall freqs x p, GenRunSpec.cam_pool freqs x = inl p ->
  pool_ok cam_id cam_size cam_shape_of x (fst p, fst (snd p)).
Proof.
  intros freqs x p H. unfold GenRunSpec.cam_pool in H. apply rbind_inl in H. destruct H as ([bs calls] & Hr & H).
  injection H as <-. unfold pool_ok. cbn [fst snd]. apply cam_bloc_wf in Hr.
  destruct Hr as (Hld & Hlb & _ & Hk & Hu).
  split; [reflexivity|]. split; [exact Hlb|].
  intros b Hb. split; [apply (Hu b Hb)|].
  apply In_nth_error in Hb. destruct Hb as (k & Hb).
  assert (Hlt : (k < length (cam_draws x))%nat).
  { rewrite Hld, <- Hlb. apply nth_error_Some. rewrite Hb. discriminate. }
  destruct (nth_error (cam_draws x) k) as [d|] eqn:Ed; [|apply nth_error_None in Ed; lia].
  destruct (Hk k d Ed) as ((b' & Hb' & Hc) & _). rewrite Hb in Hb'. injection Hb' as <-.
  pose proof (cam_ballot_wf _ _ _ _ _ _ _ Hc) as W. cbv zeta in W.
  destruct W as (_ & (_ & _ & Hid & _) & _ & _ & Hsc & Hrk & Hfl & Hincl & Hsl & _ & _ & Hnd).
  split; [exact Hsc|]. eexists. split; [exact Hrk|]. split; [exact Hfl|]. split.
  { intros c Hc'. apply Hid. apply Hincl. exact Hc'. }
  split.
  { intros c Hc'. destruct (Hsl c Hc') as [E|E]; apply pmem_In in E; [left|right]; exact E. }
  intros Hdis. apply Hnd. intros c E1 E2. apply pmem_In in E1. apply pmem_In in E2. apply (Hdis c E1 E2).
Qed.

Theorem gen_cambridge_wf : forall freqs blocs by_bloc agg calls,
  gen_cambridge_run freqs blocs = inl (by_bloc, agg, calls) ->
  run_wf cam_id cam_size cam_shape_of blocs by_bloc agg.
Proof.
  intros freqs blocs by_bloc agg calls H. rewrite gen_cambridge_run_eq in H.
  apply (bloc_run_wf (GenRunSpec.cam_pool freqs) cam_id cam_size cam_shape_of blocs by_bloc agg calls); [|exact H].
  intros x p _ Hp. apply (cam_pool_ok freqs). exact Hp.
Qed.

Lemma cam_collect_map_err : forall (f : btype * list pcand -> res (gballot * list camcall)) ds e,
  cam_collect (map f ds) = inr e -> exists d, In d ds /\ f d = inr e.
Proof.
  intros f ds e H. unfold cam_collect in H. apply rbind_inr in H. destruct H as [H|(ys & _ & H)]; [|discriminate].
  apply rmap_err_in in H. destruct H as (a & Ha & ->). apply in_map_iff in Ha.
  destruct Ha as (d & Hd & Hin). exists d. split; assumption.
Qed.

Theorem gen_cambridge_errors : forall freqs blocs e, gen_cambridge_run freqs blocs = inr e -> e = EScript.
Proof.
  intros freqs blocs e H. rewrite gen_cambridge_run_eq in H.
  apply (bloc_run_err (GenRunSpec.cam_pool freqs)) in H. destruct H as (x & Hx & H).
  unfold GenRunSpec.cam_pool in H. apply rbind_inr in H. destruct H as [H|(r & _ & H)]; [|discriminate].
  unfold cam_bloc in H.
  match type of H with (if negb ?c then _ else _) = _ => destruct c end; cbn [negb] in H;
    [|injection H as <-; reflexivity].
  match type of H with (if negb ?c then _ else _) = _ => destruct c end; cbn [negb] in H;
    [|injection H as <-; reflexivity].
  match type of H with (if negb ?c then _ else _) = _ => destruct c end; cbn [negb] in H;
    [|injection H as <-; reflexivity].
  apply rbind_inr in H. destruct H as [H|(r & _ & H)]; [|discriminate].
  apply cam_collect_map_err in H. destruct H as (d & _ & H). unfold cam_ballot in H.
  match type of H with (if negb ?c then _ else _) = _ => destruct c end; cbn [negb] in H;
    [discriminate|injection H as <-; reflexivity].
Qed.


Theorem gen_cambridge_succeeds : forall freqs blocs,
  (forall x, In x blocs -> cam_draws_ok freqs x) ->
  exists out, gen_cambridge_run freqs blocs = inl out.
Proof.
  intros freqs blocs Hd. rewrite gen_cambridge_run_eq.
  apply (bloc_run_succeeds (GenRunSpec.cam_pool freqs)). intros x Hx.
  destruct (Hd x Hx) as (Hl & H1 & H2 & H3). unfold GenRunSpec.cam_pool, cam_bloc.
  apply Nat.eqb_eq in Hl. rewrite Hl. cbn [negb].
  assert (Hin : forall (tbl : list (btype * Q)) (t : btype) v, In (t, v) tbl -> 0 < v ->
            existsb (fun e : btype * Q => btype_eqb (fst e) t && Qlt_bool 0 (snd e)) tbl = true).
  { intros tbl t v Hv Hp. apply existsb_exists. exists (t, v). split; [exact Hv|]. cbn [fst snd].
    assert (E : btype_eqb t t = true) by (apply btype_eqb_true_iff; reflexivity). rewrite E. cbn [andb].
    unfold Qlt_bool. apply negb_true_iff. destruct (Qle_bool v 0) eqn:Ec; [|reflexivity].
    apply Qle_bool_iff in Ec. lra. }
  match goal with |- context [forallb ?f (firstn (cam_nb x) (cam_draws x))] =>
    assert (E1 : forallb f (firstn (cam_nb x) (cam_draws x)) = true) end.
  { apply forallb_forall. intros d Hdn. destruct (H1 d Hdn) as (v & Hv & Hp). apply (Hin _ _ v Hv Hp). }
  rewrite E1. cbn [negb].
  match goal with |- context [forallb ?f (skipn (cam_nb x) (cam_draws x))] =>
    assert (E2 : forallb f (skipn (cam_nb x) (cam_draws x)) = true) end.
  { apply forallb_forall. intros d Hdn. destruct (H2 d Hdn) as (v & Hv & Hp). apply (Hin _ _ v Hv Hp). }
  rewrite E2. cbn [negb]. unfold cam_collect.
  destruct (rmap_succeeds _ _ (fun y : res (gballot * list camcall) => y)
              (map (cam_ballot (cam_iv x) (cam_own x) (cam_so x) (cam_sp x)) (cam_draws x))) as (ys & Hys).
  - intros r Hr. apply in_map_iff in Hr. destruct Hr as (d & <- & Hdn).
    unfold cam_ballot. rewrite (H3 d Hdn). cbn [negb]. eexists. reflexivity.
  - rewrite Hys. cbn [rbind]. eexists. reflexivity.
Qed.

(* ------------------------------------------------------------------ *)
(** * spatial models *)

Theorem gen_spatial_wf : forall cs dists p,
  (forall ds, In ds dists -> length ds = length cs) ->
  gen_spatial_run cs dists = inl p ->
  NoDup cs /\ (cs <> [] -> cands p = cs) /\
  twt (ballots p) == Qnat (length dists) /\
  whole_pos_weights (ballots p) /\
  NoDup (map rk (ballots p)) /\
  (forall b, In b (ballots p) ->
     complete_shape cs [] (rk b) (sc b) /\
     exists ds, In ds dists /\ flat pcand (rk b) = sort_by_distance cs ds /\
       wt b = Qnat (pool_count (map (sort_by_distance cs) dists) (sort_by_distance cs ds)) /\
       (0 < pool_count (map (sort_by_distance cs) dists) (sort_by_distance cs ds))%nat) /\
  (forall ds, In ds dists ->
     exists b, In b (ballots p) /\ rk b = singletons pcand (sort_by_distance cs ds)).
Proof.
  intros cs dists p Hlen H. unfold gen_spatial_run in H. apply pool_to_profile_ok in H.
  destruct H as (Hnd & Hc & Hb & Hcov & Hndr & Htot & Hw).
  split; [exact Hnd|]. split; [exact Hc|]. split; [rewrite Htot, map_length; reflexivity|].
  split; [exact Hw|]. split; [exact Hndr|]. split.
  - intros b Hin. destruct (Hb b Hin) as (r & Hr & Hrk & Hsc & Hwt & Hpos).
    apply in_map_iff in Hr. destruct Hr as (ds & <- & Hds).
    destruct (sort_by_distance_ok cs ds (eq_sym (Hlen ds Hds))) as (_ & _ & _ & _ & _ & P).
    split.
    + rewrite Hsc, Hrk. pose proof (complete_shape_rank_of cs [] (sort_by_distance cs ds) [] P (Permutation_refl _)) as S.
      unfold rank_of in S. rewrite app_nil_r in S. exact S.
    + exists ds. split; [exact Hds|]. split; [rewrite Hrk; apply (flat_singletons pcand)|].
      split; [exact Hwt|exact Hpos].
  - intros ds Hds. apply Hcov. apply in_map. exact Hds.
Qed.

Theorem gen_spatial_errors : forall cs dists,
  (forall e, gen_spatial_run cs dists = inr e -> e = EValue) /\
  (gen_spatial_run cs dists = inr EValue <-> ~ NoDup cs) /\
  (NoDup cs -> exists p, gen_spatial_run cs dists = inl p).
Proof. intros cs dists. apply pool_to_profile_errors. Qed.
