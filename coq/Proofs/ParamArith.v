(* Proofs/ParamArith.v — parametricity translations (Paramcoq) of the arithmetic the model uses.
   Paramcoq names the translation of a constant after its SHORT name, so [Pos.add], [N.add],
   [Z.add], [Nat.add] would all become [add_R].  Every arithmetic constant is therefore registered
   here under an explicit name before any [Parametricity Recursive] on model code.

   Two ways of registering a constant [f] over ground types (positive, N, Z, nat, bool, comparison, Q):
   - [Parametricity f as f_R]: Paramcoq's own translation (used where it goes through);
   - [Realizer f as f_R := proof]: on ground types the parametricity relation IS equality
     ([positive_R p q <-> p = q], ...), so [f_R : x_R x x' -> ... -> T_R (f x ..) (f x' ..)] is proved
     directly from reflexivity of the relation.  Used where Paramcoq leaves proof obligations
     (fixpoints whose first [match] is not on the structural argument, e.g. [Pos.sub_mask]) and for the
     division functions.  No axiom either way. *)
From Param Require Import Param.
From Coq Require Import List ZArith QArith Bool.

Parametricity Recursive positive.
Parametricity Recursive bool.
Parametricity Recursive comparison.
Parametricity Recursive nat.
Parametricity Recursive Z.
Parametricity Recursive N.
Parametricity Recursive Q.
Parametricity Recursive list.
Parametricity Recursive option.
Parametricity Recursive prod.
Parametricity Recursive sum.
Parametricity Recursive unit.

(* ---- on ground types the relation is equality ---- *)
Lemma positive_R_refl : forall p, positive_R p p.
Proof. induction p as [p IH|p IH|]; constructor; exact IH. Defined.
Lemma positive_R_eq : forall p q, positive_R p q -> p = q.
Proof. intros p q H; induction H; congruence. Defined.
Lemma bool_R_refl : forall b, bool_R b b.
Proof. intros [|]; constructor. Defined.
Lemma bool_R_eq : forall a b, bool_R a b -> a = b.
Proof. intros a b H; destruct H; reflexivity. Defined.
Lemma comparison_R_refl : forall c, comparison_R c c.
Proof. intros [| |]; constructor. Defined.
Lemma comparison_R_eq : forall a b, comparison_R a b -> a = b.
Proof. intros a b H; destruct H; reflexivity. Defined.
Lemma nat_R_refl : forall n, nat_R n n.
Proof. induction n as [|n IH]; constructor; exact IH. Defined.
Lemma nat_R_eq : forall n m, nat_R n m -> n = m.
Proof. intros n m H; induction H; congruence. Defined.
Lemma Z_R_refl : forall z, Z_R z z.
Proof. intros [|p|p]; constructor; apply positive_R_refl. Defined.
Lemma Z_R_eq : forall a b, Z_R a b -> a = b.
Proof.
  intros a b H; destruct H as [|p q Hp|p q Hp]; try reflexivity;
    apply positive_R_eq in Hp; congruence.
Defined.
Lemma N_R_refl : forall n, N_R n n.
Proof. intros [|p]; constructor; apply positive_R_refl. Defined.
Lemma N_R_eq : forall a b, N_R a b -> a = b.
Proof.
  intros a b H; destruct H as [|p q Hp]; try reflexivity;
    apply positive_R_eq in Hp; congruence.
Defined.
Lemma Q_R_refl : forall q, Q_R q q.
Proof. intros [n d]; constructor; [apply Z_R_refl|apply positive_R_refl]. Defined.
Lemma Q_R_eq : forall a b, Q_R a b -> a = b.
Proof.
  intros a b H; destruct H as [n n' Hn d d' Hd].
  apply Z_R_eq in Hn; apply positive_R_eq in Hd; congruence.
Defined.
Lemma unit_R_refl : forall u, unit_R u u.
Proof. intros []; constructor. Defined.

Lemma prod_R_ground : forall A B (RA : A -> A -> Type) (RB : B -> B -> Type),
  (forall a, RA a a) -> (forall b, RB b b) -> forall x, prod_R A A RA B B RB x x.
Proof. intros A B RA RB HA HB [a b]; constructor; auto. Defined.

Ltac ground_eqs :=
  repeat match goal with
  | H : positive_R _ _ |- _ => apply positive_R_eq in H
  | H : Z_R _ _ |- _ => apply Z_R_eq in H
  | H : N_R _ _ |- _ => apply N_R_eq in H
  | H : nat_R _ _ |- _ => apply nat_R_eq in H
  | H : bool_R _ _ |- _ => apply bool_R_eq in H
  | H : comparison_R _ _ |- _ => apply comparison_R_eq in H
  | H : Q_R _ _ |- _ => apply Q_R_eq in H
  end.
Ltac ground_realizer :=
  intros; ground_eqs; subst;
  first [ apply positive_R_refl | apply Z_R_refl | apply N_R_refl | apply nat_R_refl
        | apply bool_R_refl | apply comparison_R_refl | apply Q_R_refl
        | apply prod_R_ground; intros;
          first [ apply positive_R_refl | apply Z_R_refl | apply N_R_refl | apply nat_R_refl ] ].

(* ---- Pos : Paramcoq's own translation ---- *)
Parametricity Pos.succ as Pos_succ_R.
Parametricity Pos.pred_double as Pos_pred_double_R.
Parametricity Pos.pred as Pos_pred_R.
Parametricity Pos.add as Pos_add_R.
Parametricity Pos.add_carry as Pos_add_carry_R.
Parametricity Pos.mul as Pos_mul_R.
Parametricity Pos.compare_cont as Pos_compare_cont_R.
Parametricity Pos.compare as Pos_compare_R.
Parametricity Pos.eqb as Pos_eqb_R.
Parametricity Pos.leb as Pos_leb_R.
Parametricity Pos.ltb as Pos_ltb_R.
Parametricity Pos.iter_op as Pos_iter_op_R.
Parametricity Pos.of_succ_nat as Pos_of_succ_nat_R.
Parametricity Pos.to_nat as Pos_to_nat_R.

(* [Pos.sub]: realizer ([Pos.sub_mask] is [{struct y}] but matches on [x] first) *)
Definition Pos_sub_real : forall x x', positive_R x x' -> forall y y', positive_R y y' ->
  positive_R (Pos.sub x y) (Pos.sub x' y').
Proof. ground_realizer. Defined.
Realizer Pos.sub as Pos_sub_R := Pos_sub_real.

(* ---- Z : Paramcoq's own translation ---- *)
Parametricity Z.double as Z_double_R.
Parametricity Z.succ_double as Z_succ_double_R.
Parametricity Z.pred_double as Z_pred_double_R.
Parametricity Z.pos_sub as Z_pos_sub_R.
Parametricity Z.add as Z_add_R.
Parametricity Z.opp as Z_opp_R.
Parametricity Z.sub as Z_sub_R.
Parametricity Z.mul as Z_mul_R.
Parametricity Z.compare as Z_compare_R.
Parametricity Z.leb as Z_leb_R.
Parametricity Z.ltb as Z_ltb_R.
Parametricity Z.eqb as Z_eqb_R.
Parametricity Z.of_nat as Z_of_nat_R.
Parametricity Z.to_nat as Z_to_nat_R.
Parametricity Z.of_N as Z_of_N_R.
Parametricity Zeq_bool as Zeq_bool_R.
Parametricity Z.pos_div_eucl as Z_pos_div_eucl_R.
Parametricity Z.div_eucl as Z_div_eucl_R.
Parametricity Z.modulo as Z_modulo_R.

(* [Z.quot] goes through [N.pos_div_eucl]/[N.sub]: realizer *)
Definition Z_quot_real : forall x x', Z_R x x' -> forall y y', Z_R y y' ->
  Z_R (Z.quot x y) (Z.quot x' y').
Proof. ground_realizer. Defined.
Realizer Z.quot as Z_quot_R := Z_quot_real.

(* ---- nat ---- *)
Parametricity Nat.add as Nat_add_R.
Parametricity Nat.mul as Nat_mul_R.
Parametricity Nat.eqb as Nat_eqb_R.
Parametricity Nat.leb as Nat_leb_R.
Parametricity Nat.ltb as Nat_ltb_R.
(* [Nat.sub] returns its matched argument in a branch; Paramcoq leaves an obligation: realizer *)
Definition Nat_sub_real : forall x x', nat_R x x' -> forall y y', nat_R y y' ->
  nat_R (Nat.sub x y) (Nat.sub x' y').
Proof. ground_realizer. Defined.
Realizer Nat.sub as Nat_sub_R := Nat_sub_real.

(* ---- Q ---- *)
Parametricity Qnum.
Parametricity Qden.
Parametricity inject_Z.
Parametricity Qplus.
Parametricity Qmult.
Parametricity Qopp.
Parametricity Qminus.
Parametricity Qinv.
Parametricity Qdiv.
Parametricity Qeq_bool.
Parametricity Qle_bool.
