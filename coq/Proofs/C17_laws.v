(* Proofs/C17_laws.v — C17: the laws of the random tiebreak, of one RandomDictator step, of one
   BoostedRandomDictator step and of the multi-seat RandomDictator sequence (Model/Laws.v), and
   their link with the script reading (Model/Rules.v: draw_ballot, dictator_pick, rd_step,
   brd_step).  The laws of the primitives (categorical, uniform permutation, U[0,1)) are the
   trusted assumptions; everything built on them is proved here. *)
From VK Require Import Base Core STV Rules Laws.
From VK.Spec Require Import EditSpec ScoreSpec LawSpec.
From VK.Proofs Require Import Lib_condense12 C12_edit C12_expand C06_pairwise C04_scoring Elect Lib_sets Dist.
From Coq Require Import Permutation Lia Lqa Setoid Morphisms.

Section C17.
Variable cand : Type.
Variable ceqb : cand -> cand -> bool.
Hypothesis ceqb_spec : forall a b, reflect (a = b) (ceqb a b).

Notation cset := (cset cand).
Notation ranking := (ranking cand).
Notation ballot := (ballot cand).
Notation profile := (profile cand).
Notation scores := (scores cand).
Notation mstate := (mstate cand).
Notation estate := (estate cand).
Notation memb := (memb cand ceqb).
Notation perms := (perms cand).
Notation uperm := (uperm cand).
Notation list_eqb := (list_eqb cand ceqb).
Notation at_pos := (at_pos cand ceqb).
Notation is_head := (is_head cand ceqb).
Notation among_first := (among_first cand ceqb).
Notation is_last := (is_last cand ceqb).
Notation swapc := (swapc cand ceqb).
Notation total_wt := (total_wt cand).
Notation choices_pop := (choices_pop cand).
Notation law_draw_ballot := (law_draw_ballot cand).
Notation law_pick := (law_pick cand).
Notation law_rd_winner := (law_rd_winner cand).
Notation law_brd_winner := (law_brd_winner cand).
Notation law_rd_sequence := (law_rd_sequence cand ceqb).
Notation first_share := (first_share cand ceqb).
Notation rd_closed_form := (rd_closed_form cand ceqb).
Notation squares_closed_form := (squares_closed_form cand ceqb).
Notation squares := (squares cand).
Notation lookup0 := (lookup0 cand ceqb).
Notation first_group_ok := (first_group_ok cand).
Notation rd_domain := (rd_domain cand).
Notation nonneg_weights := (nonneg_weights cand).
Notation some_first := (some_first cand).
Notation rd_path_prob := (rd_path_prob cand ceqb).
Notation rd_path_ok := (rd_path_ok cand ceqb).
Notation rd_tree_ok := (rd_tree_ok cand ceqb).
Notation rd_ballot_ok := (rd_ballot_ok cand).
Notation rd_seats_ok := (rd_seats_ok cand).
Notation flat := (flat cand).
Notation strip := (strip cand ceqb).
Notation scrub := (scrub cand ceqb).
Notation condense_bs := (condense_bs cand ceqb).
Notation draw_ballot := (draw_ballot cand ceqb).
Notation dictator_pick := (dictator_pick cand ceqb).
Notation elect_one := (elect_one cand ceqb).
Notation rd_step := (rd_step cand ceqb).
Notation brd_step := (brd_step cand ceqb).
Notation remove_cand_prof := (remove_cand_prof cand ceqb).
Notation ranking_eqb := (ranking_eqb cand ceqb).

Local Lemma ceqb_refl' : forall a, ceqb a a = true.
Proof. intros a. destruct (ceqb_spec a a) as [_|H]; [reflexivity|contradiction]. Qed.

Local Lemma memb_In' : forall c s, memb c s = true <-> In c s.
Proof. exact (memb_In cand ceqb ceqb_spec). Qed.

Lemma prob_false : forall {A} (d : dist A), prob (fun _ => false) d == 0.
Proof.
  intros A d. rewrite prob_as_sum. apply qsum_map_zero. intros aw _. reflexivity.
Qed.

(* ------------------------------------------------------------------ *)
(** * T. The uniform tiebreak *)

Lemma list_eqb_spec : forall a b, reflect (a = b) (list_eqb a b).
Proof.
  induction a as [|x a IH]; intros [|y b]; cbn [LawSpec.list_eqb].
  - constructor. reflexivity.
  - constructor. discriminate.
  - constructor. discriminate.
  - destruct (ceqb_spec x y) as [->|Hne]; cbn [andb].
    + destruct (IH b) as [->|Hne]; constructor; [reflexivity|].
      intros E. injection E as E. contradiction.
    + constructor. intros E. injection E as E _. contradiction.
Qed.

Lemma perms_nonempty : forall s, perms s <> [].
Proof.
  intros s H. pose proof (perms_length cand s) as Hl. rewrite H in Hl. cbn [length] in Hl.
  pose proof (fact_pos (length s)). lia.
Qed.

Theorem uperm_mass : forall s, mass (uperm s) == 1.
Proof. intros s. unfold Laws.uperm. apply mass_uniform_of. apply perms_nonempty. Qed.

Lemma uperm_support : forall s o w, In (o, w) (uperm s) -> Permutation o s.
Proof.
  intros s o w H. unfold Laws.uperm in H. apply uniform_of_support in H.
  apply (perms_spec cand) in H. exact H.
Qed.

Lemma uperm_nonneg : forall s, nonneg_dist (uperm s).
Proof. intros s. unfold Laws.uperm. apply nonneg_uniform_of. Qed.

(* every permutation of s has probability 1/n!, anything else probability 0 *)
Theorem uperm_order : forall s p, NoDup s ->
  prob (list_eqb p) (uperm s) ==
  if is_perm_of cand ceqb p s then 1 / Qnat (fact (length s)) else 0.
Proof.
  intros s p Hnd. unfold Laws.uperm.
  rewrite (prob_uniform_of_point list_eqb list_eqb_spec p (perms s) (perms_NoDup cand s Hnd)).
  rewrite (perms_length cand).
  destruct (is_perm_of cand ceqb p s) eqn:Hp.
  - apply (is_perm_of_perm cand ceqb ceqb_spec) in Hp. destruct Hp as [Hp _].
    assert (Hex : existsb (list_eqb p) (perms s) = true).
    { apply existsb_exists. exists p. split; [apply (perms_spec cand); exact Hp|].
      destruct (list_eqb_spec p p) as [_|H]; [reflexivity|contradiction]. }
    rewrite Hex. reflexivity.
  - assert (Hex : existsb (list_eqb p) (perms s) = false).
    { apply not_true_is_false. intros Hex. apply existsb_exists in Hex.
      destruct Hex as (o & Ho & Heq). destruct (list_eqb_spec p o) as [->|]; [|discriminate].
      apply (perms_spec cand) in Ho.
      rewrite (is_perm_of_intro cand ceqb ceqb_spec o s Hnd Ho) in Hp. discriminate. }
    rewrite Hex. reflexivity.
Qed.

Corollary uperm_order_perm : forall s p, NoDup s -> Permutation p s ->
  prob (list_eqb p) (uperm s) == 1 / Qnat (fact (length s)).
Proof.
  intros s p Hnd Hp. rewrite (uperm_order s p Hnd).
  rewrite (is_perm_of_intro cand ceqb ceqb_spec p s Hnd Hp). reflexivity.
Qed.

Corollary uperm_order_not_perm : forall s p, NoDup s -> ~ Permutation p s ->
  prob (list_eqb p) (uperm s) == 0.
Proof.
  intros s p Hnd Hp. rewrite (uperm_order s p Hnd).
  destruct (is_perm_of cand ceqb p s) eqn:E; [|reflexivity].
  apply (is_perm_of_perm cand ceqb ceqb_spec) in E. destruct E as [E _]. contradiction.
Qed.

(* --- the position of a candidate in a uniform order --- *)

Lemma ceqb_swapc : forall c c' x, ceqb c (swapc c c' x) = ceqb c' x.
Proof.
  intros c c' x. unfold C06_pairwise.swapc.
  destruct (ceqb_spec x c) as [->|Hxc].
  - destruct (ceqb_spec c c') as [->|Hcc'].
    + symmetry. apply ceqb_refl'.
    + destruct (ceqb_spec c' c) as [E|_]; [congruence|reflexivity].
  - destruct (ceqb_spec x c') as [->|Hxc'].
    + rewrite !ceqb_refl'. reflexivity.
    + destruct (ceqb_spec c x) as [E|_]; [congruence|].
      destruct (ceqb_spec c' x) as [E|_]; [congruence|reflexivity].
Qed.

Lemma at_pos_swapc : forall c c' i o, at_pos c i (map (swapc c c') o) = at_pos c' i o.
Proof.
  intros c c' i o. unfold LawSpec.at_pos. rewrite nth_error_map.
  destruct (nth_error o i) as [x|]; cbn [option_map]; [apply ceqb_swapc|reflexivity].
Qed.

(* two members of s are equally likely to stand at position i *)
Lemma at_pos_prob_sym : forall s c c' i, NoDup s -> In c s -> In c' s ->
  prob (at_pos c i) (uperm s) == prob (at_pos c' i) (uperm s).
Proof.
  intros s c c' i Hnd Hc Hc'. unfold Laws.uperm. rewrite !prob_uniform_of_sum.
  set (w := 1 / Qnat (length (perms s))).
  transitivity (qsum (map (fun o => if at_pos c i o then w else 0)
                          (map (map (swapc c c')) (perms s)))).
  - apply qsum_perm. apply Permutation_map. apply Permutation_sym.
    apply (perms_swapc_perm cand ceqb ceqb_spec); assumption.
  - rewrite map_map. apply qsum_map_ext_in. intros o _. rewrite at_pos_swapc. reflexivity.
Qed.

(* some member of s stands at position i < |s| *)
Lemma at_pos_prob_total : forall s i, NoDup s -> (i < length s)%nat ->
  qsum (map (fun c => prob (at_pos c i) (uperm s)) s) == 1.
Proof.
  intros s i Hnd Hi. unfold Laws.uperm.
  set (w := 1 / Qnat (length (perms s))).
  transitivity (qsum (map (fun c => qsum (map (fun o => if at_pos c i o then w else 0) (perms s))) s)).
  { apply qsum_map_ext_in. intros c _. apply prob_uniform_of_sum. }
  rewrite qsum_swap.
  transitivity (qsum (map (fun _ : list cand => w) (perms s))).
  - apply qsum_map_ext_in. intros o Ho. apply (perms_spec cand) in Ho.
    assert (Hlen : (i < length o)%nat) by (rewrite (Permutation_length Ho); exact Hi).
    destruct (nth_error o i) as [x|] eqn:Hx; [|apply nth_error_None in Hx; lia].
    assert (Hxs : In x s).
    { eapply Permutation_in; [exact Ho|]. eapply nth_error_In. exact Hx. }
    transitivity (qsum (map (fun c => if ceqb c x then w else 0) s)).
    + apply qsum_map_ext_in. intros c _. unfold LawSpec.at_pos. rewrite Hx. reflexivity.
    + rewrite (qsum_indicator ceqb ceqb_spec x w s Hnd).
      assert (Hex : existsb (fun c => ceqb c x) s = true).
      { apply existsb_exists. exists x. split; [exact Hxs|apply ceqb_refl']. }
      rewrite Hex. reflexivity.
  - rewrite qsum_map_const. unfold w. field. apply Qnat_neq0.
    rewrite (perms_length cand). apply fact_pos.
Qed.

(* every member of s is equally likely to stand at each position: probability 1/n *)
Theorem uperm_position : forall s c i, NoDup s -> In c s -> (i < length s)%nat ->
  prob (at_pos c i) (uperm s) == 1 / Qnat (length s).
Proof.
  intros s c i Hnd Hc Hi.
  pose proof (at_pos_prob_total s i Hnd Hi) as Ht.
  assert (Hs : qsum (map (fun c' => prob (at_pos c' i) (uperm s)) s)
               == Qnat (length s) * prob (at_pos c i) (uperm s)).
  { rewrite <- qsum_map_const. apply qsum_map_ext_in. intros c' Hc'.
    apply at_pos_prob_sym; assumption. }
  rewrite Hs in Ht.
  assert (Hn : ~ Qnat (length s) == 0) by (apply Qnat_neq0; lia).
  apply (Qmult_inj_l _ _ (Qnat (length s)) Hn). rewrite Ht. field. exact Hn.
Qed.

(* a candidate outside s never appears *)
Lemma uperm_position_out : forall s c i, ~ In c s -> prob (at_pos c i) (uperm s) == 0.
Proof.
  intros s c i Hc. rewrite <- (prob_false (uperm s)). apply prob_ext_in.
  intros o w Ho. apply uperm_support in Ho. unfold LawSpec.at_pos.
  destruct (nth_error o i) as [x|] eqn:Hx; [|reflexivity].
  destruct (ceqb_spec c x) as [->|_]; [|reflexivity].
  exfalso. apply Hc. eapply Permutation_in; [exact Ho|]. eapply nth_error_In. exact Hx.
Qed.

Theorem uperm_first : forall s c, NoDup s -> In c s ->
  prob (is_head c) (uperm s) == 1 / Qnat (length s).
Proof.
  intros s c Hnd Hc. unfold LawSpec.is_head. apply uperm_position; [exact Hnd|exact Hc|].
  destruct s; [destruct Hc|cbn [length]; lia].
Qed.

(* in a duplicate-free order, "among the first k" is the disjoint union of "at position i", i < k *)
Lemma among_first_split : forall c o k, NoDup o ->
  (if among_first k c o then 1 else 0) ==
  qsum (map (fun i => if at_pos c i o then 1 else 0) (seq 0 k)).
Proof.
  intros c o. unfold LawSpec.among_first. induction o as [|x o IH]; intros k Hnd.
  - rewrite firstn_nil. cbn [Core.memb existsb]. symmetry. apply qsum_map_zero.
    intros i _. unfold LawSpec.at_pos. destruct i; reflexivity.
  - destruct k as [|k].
    + reflexivity.
    + inversion Hnd as [|x' o' Hx Hnd']; subst.
      cbn [firstn Core.memb existsb seq map]. rewrite qsum_cons, <- seq_shift, map_map.
      transitivity ((if ceqb c x then 1 else 0) + (if memb c (firstn k o) then 1 else 0)).
      * fold (memb c (firstn k o)). destruct (ceqb_spec c x) as [->|_]; cbn [orb].
        -- destruct (memb x (firstn k o)) eqn:Hm; [|ring].
           exfalso. apply Hx. apply memb_In' in Hm. rewrite <- (firstn_skipn k o).
           apply in_or_app. left. exact Hm.
        -- ring.
      * rewrite (IH k Hnd'). unfold LawSpec.at_pos. cbn [nth_error]. reflexivity.
Qed.

(* each member of s is among the first k <= n of the order with probability k/n *)
Theorem uperm_seat : forall s c k, NoDup s -> In c s -> (k <= length s)%nat ->
  prob (among_first k c) (uperm s) == Qnat k / Qnat (length s).
Proof.
  intros s c k Hnd Hc Hk.
  rewrite (prob_sum_events (among_first k c) (fun i => at_pos c i) (seq 0 k) (uperm s)).
  - transitivity (qsum (map (fun _ : nat => 1 / Qnat (length s)) (seq 0 k))).
    + apply qsum_map_ext_in. intros i Hi. apply in_seq in Hi.
      apply uperm_position; [exact Hnd|exact Hc|lia].
    + rewrite qsum_map_const, seq_length. unfold Qdiv. ring.
  - intros o w Ho. apply uperm_support in Ho. apply among_first_split.
    eapply Permutation_NoDup; [apply Permutation_sym; exact Ho|exact Hnd].
Qed.

(* each member of s is the last of the order (the one eliminated) with probability 1/n *)
Theorem uperm_last : forall s c, NoDup s -> In c s ->
  prob (is_last c) (uperm s) == 1 / Qnat (length s).
Proof.
  intros s c Hnd Hc.
  rewrite (prob_ext_in (is_last c) (at_pos c (length s - 1)) (uperm s)).
  - apply uperm_position; [exact Hnd|exact Hc|]. destruct s; [destruct Hc|cbn [length]; lia].
  - intros o w Ho. apply uperm_support in Ho. unfold LawSpec.is_last.
    rewrite (Permutation_length Ho). reflexivity.
Qed.

(* ------------------------------------------------------------------ *)
(** * R. One RandomDictator step *)

Lemma choices_pop_total : forall p : profile,
  qsum (map snd (choices_pop p)) = total_wt (ballots p).
Proof.
  intros p. unfold Laws.choices_pop, Core.total_wt. rewrite map_map. reflexivity.
Qed.

Lemma law_draw_ballot_support : forall (p : profile) r w,
  In (r, w) (law_draw_ballot p) -> exists b, In b (ballots p) /\ r = rk b.
Proof.
  intros p r w H. unfold Laws.law_draw_ballot, categorical, Laws.choices_pop in H.
  rewrite map_map in H. cbn [fst snd] in H. apply in_map_iff in H.
  destruct H as (b & E & Hb). injection E as <- _. exists b. split; [exact Hb|reflexivity].
Qed.

(* the winner read off the drawn ballot: uniform on its first position *)
Lemma law_pick_mass : forall (r : ranking), first_group_ok r -> mass (law_pick r) == 1.
Proof.
  intros r (s & r' & -> & Hne & Hnd). destruct s as [|x [|y s']]; [contradiction| |].
  - cbn [Laws.law_pick]. apply mass_dret.
  - set (s := x :: y :: s') in *.
    change (law_pick (s :: r'))
      with (dbind (uperm s) (fun l => match l with c0 :: _ => dret c0 | [] => [] end)).
    rewrite mass_dbind_one; [apply uperm_mass|]. intros o w Ho. apply uperm_support in Ho.
    destruct o as [|z o]; [|apply mass_dret].
    apply Permutation_length in Ho. discriminate.
Qed.

Lemma law_pick_prob : forall (r : ranking) c, first_group_ok r ->
  prob (ceqb c) (law_pick r) == first_share c r.
Proof.
  intros r c (s & r' & -> & Hne & Hnd). destruct s as [|x [|y s']]; [contradiction| |].
  - cbn [Laws.law_pick Laws.first_share Core.memb existsb length].
    rewrite prob_dret, orb_false_r. destruct (ceqb c x); [|reflexivity].
    change (Qnat 1) with 1. reflexivity.
  - set (s := x :: y :: s') in *.
    change (law_pick (s :: r'))
      with (dbind (uperm s) (fun l => match l with c0 :: _ => dret c0 | [] => [] end)).
    transitivity (prob (is_head c) (uperm s)).
    + rewrite prob_dbind, prob_as_sum. apply qsum_map_ext_in. intros [o w] _. cbn [fst snd].
      unfold LawSpec.is_head, LawSpec.at_pos. destruct o as [|z o]; cbn [nth_error].
      * rewrite prob_nil. ring.
      * rewrite prob_dret. destruct (ceqb c z); ring.
    + cbn [Laws.first_share]. destruct (memb c s) eqn:Hm.
      * apply uperm_first; [exact Hnd|apply memb_In'; exact Hm].
      * apply uperm_position_out. intros Hin. apply memb_In' in Hin. congruence.
Qed.

Lemma prob_rd_winner_sum : forall (p : profile) c,
  prob (ceqb c) (law_rd_winner p) ==
  qsum (map (fun b => wt b / total_wt (ballots p) * prob (ceqb c) (law_pick (rk b))) (ballots p)).
Proof.
  intros p c. unfold Laws.law_rd_winner, Laws.law_draw_ballot. rewrite prob_dbind.
  unfold categorical. rewrite choices_pop_total. unfold Laws.choices_pop.
  rewrite !map_map. cbn [fst snd]. reflexivity.
Qed.

Lemma total_pos_neq0 : forall p : profile, 0 < total_wt (ballots p) -> ~ total_wt (ballots p) == 0.
Proof. intros p H E. rewrite E in H. apply (Qlt_irrefl 0). exact H. Qed.

Theorem rd_step_law : forall p : profile, rd_domain p ->
  mass (law_rd_winner p) == 1 /\
  forall c, prob (ceqb c) (law_rd_winner p) == rd_closed_form p c.
Proof.
  intros p [Hall Htot]. rewrite Forall_forall in Hall. split.
  - unfold Laws.law_rd_winner. rewrite mass_dbind_one.
    + unfold Laws.law_draw_ballot. apply mass_categorical. rewrite choices_pop_total.
      apply total_pos_neq0. exact Htot.
    + intros r w Hr. apply law_draw_ballot_support in Hr. destruct Hr as (b & Hb & ->).
      apply law_pick_mass. apply Hall. exact Hb.
  - intros c. rewrite prob_rd_winner_sum. unfold Laws.rd_closed_form. rewrite <- qsum_map_div.
    apply qsum_map_ext_in. intros b Hb. rewrite (law_pick_prob (rk b) c (Hall b Hb)).
    unfold Qdiv. ring.
Qed.

(* a true probability distribution when the weights are non-negative *)
Lemma law_pick_nonneg : forall r : ranking, nonneg_dist (law_pick r).
Proof.
  intros [|s r']; [intros a w []|]. destruct s as [|x [|y s']].
  - intros a w [].
  - intros a w [E|[]]. injection E as _ <-. lra.
  - set (s := x :: y :: s').
    change (nonneg_dist (dbind (uperm s) (fun l => match l with c0 :: _ => dret c0 | [] => [] end))).
    apply nonneg_dbind; [apply uperm_nonneg|]. intros o w _. destruct o as [|z o].
    + intros a q [].
    + intros a q [E|[]]. injection E as _ <-. lra.
Qed.

Theorem rd_step_nonneg : forall p : profile, nonneg_weights p -> nonneg_dist (law_rd_winner p).
Proof.
  intros p Hw. unfold Laws.law_rd_winner. apply nonneg_dbind.
  - unfold Laws.law_draw_ballot. apply nonneg_categorical. intros r w Hin.
    unfold Laws.choices_pop in Hin. apply in_map_iff in Hin. destruct Hin as (b & E & Hb).
    injection E as _ <-. unfold LawSpec.nonneg_weights in Hw. rewrite Forall_forall in Hw.
    apply Hw. exact Hb.
  - intros r w _. apply law_pick_nonneg.
Qed.

Corollary rd_step_prob_range : forall (p : profile) (ev : cand -> bool), nonneg_weights p ->
  0 <= prob ev (law_rd_winner p) /\ prob ev (law_rd_winner p) <= mass (law_rd_winner p).
Proof.
  intros p ev H. pose proof (rd_step_nonneg p H) as Hn.
  split; [apply prob_nonneg|apply prob_le_mass]; exact Hn.
Qed.

(* the closed form is the candidate's share of the first-place tally *)
Theorem rd_closed_form_fpv : forall (p : profile) (d : scores) c q,
  wf_profile cand p -> first_place_votes cand ceqb p = inl d -> In (c, q) d ->
  rd_closed_form p c == q / total_wt (ballots p).
Proof.
  intros p d c q Hwf Hd Hin.
  destruct (c04_fpv_special_proof cand ceqb ceqb_spec p d Hwf Hd) as (_ & _ & Hq).
  rewrite (Hq c q Hin). unfold Laws.rd_closed_form.
  assert (E : qsum (map (fun b => wt b * first_share c (rk b)) (ballots p)) ==
              qsum (map (fun b : ballot => if memb c (hd [] (rk b))
                          then wt b / Qnat (length (hd [] (rk b))) else 0) (ballots p))).
  { apply qsum_map_ext_in. intros b _. unfold Laws.first_share.
    destruct (rk b) as [|s r']; cbn [hd].
    - cbn [Core.memb existsb]. ring.
    - destruct (memb c s); unfold Qdiv; ring. }
  rewrite E. reflexivity.
Qed.

(* --- the script reading: inversion of draw_ballot, dictator_pick, elect_one --- *)

Lemma draw_ballot_inv : forall (p : profile) (st st' : mstate) r,
  draw_ballot p st = inl (r, st') ->
  0 < total_wt (ballots p) /\
  (exists rest, scr st = DRank r :: rest /\
                st' = mkM rest (CChoices (choices_pop p) :: lg st)) /\
  exists b, In b (ballots p) /\ ranking_eqb r (rk b) = true /\ 0 < wt b.
Proof.
  intros p st st' r H. unfold Rules.draw_ballot in H. unfold Laws.choices_pop.
  destruct (ballots p) as [|b0 bs] eqn:Hbs; [discriminate|].
  destruct (Qle_bool (total_wt (b0 :: bs)) 0) eqn:Hle; [discriminate|].
  unfold mbind, Core.next_draw in H.
  destruct (scr st) as [|d rest] eqn:Hscr; [discriminate|]. unfold ok in H.
  destruct d as [|r0| | | |]; try discriminate.
  destruct (existsb (fun b => ranking_eqb r0 (rk b) && pos_wt cand b) (b0 :: bs)) eqn:Hex;
    [|discriminate].
  unfold mret, ok in H. injection H as <- <-. split; [|split].
  - apply Qnot_le_lt. intros Hc. apply Qle_bool_iff in Hc. congruence.
  - exists rest. split; reflexivity.
  - apply existsb_exists in Hex. destruct Hex as (b & Hb & Hand).
    apply andb_true_iff in Hand. destruct Hand as [Hr Hw]. exists b. split; [exact Hb|].
    split; [exact Hr|]. unfold pos_wt, Qlt_bool in Hw. apply negb_true_iff in Hw.
    apply Qnot_le_lt. intros Hc. apply Qle_bool_iff in Hc. congruence.
Qed.

Lemma draw_ballot_run : forall (p : profile) b rest l0,
  0 < total_wt (ballots p) -> In b (ballots p) -> 0 < wt b ->
  draw_ballot p (mkM (DRank (rk b) :: rest) l0) =
  inl (rk b, mkM rest (CChoices (choices_pop p) :: l0)).
Proof.
  intros p b rest l0 Htot Hb Hw. unfold Rules.draw_ballot, Laws.choices_pop.
  destruct (ballots p) as [|b0 bs] eqn:Hbs; [destruct Hb|].
  assert (Hle : Qle_bool (total_wt (b0 :: bs)) 0 = false).
  { apply not_true_is_false. intros Hc. apply Qle_bool_iff in Hc. lra. }
  rewrite Hle. unfold mbind, Core.next_draw. cbn [scr lg]. unfold ok.
  assert (Hex : existsb (fun b' => ranking_eqb (rk b) (rk b') && pos_wt cand b') (b0 :: bs) = true).
  { apply existsb_exists. exists b. split; [exact Hb|]. apply andb_true_iff. split.
    - apply (ranking_eqb_refl cand ceqb ceqb_spec).
    - unfold pos_wt, Qlt_bool. apply negb_true_iff. apply not_true_is_false.
      intros Hc. apply Qle_bool_iff in Hc. lra. }
  rewrite Hex. reflexivity.
Qed.

Lemma dictator_pick_inv : forall (r : ranking) (st st' : mstate) w tbs,
  dictator_pick r st = inl ((w, tbs), st') ->
  exists s r', r = s :: r' /\ In w s /\
    ((s = [w] /\ st' = st) \/
     (exists rest l, scr st = DPerm (w :: l) :: rest /\ Permutation (w :: l) s /\
                     st' = mkM rest (CSample s :: lg st))).
Proof.
  intros r st st' w tbs H. destruct r as [|s r']; [discriminate|].
  exists s, r'. split; [reflexivity|]. cbn [Rules.dictator_pick] in H.
  destruct s as [|x [|y s']]; [discriminate| |].
  - unfold mret, ok in H. injection H as <- _ <-. split; [left; reflexivity|].
    left. split; reflexivity.
  - set (s := x :: y :: s') in *. cbn [Core.tiebreak_set] in H. unfold mbind in H.
    destruct (Core.draw_perm cand ceqb s st) as [[l st1]|e] eqn:Hd; [|discriminate].
    unfold mret, ok in H.
    destruct (draw_perm_inv cand ceqb ceqb_spec _ _ _ _ Hd) as (Hp & _ & rest & Hscr & ->).
    destruct l as [|c l]; [discriminate|]. cbn [Core.singletons map] in H.
    injection H as <- _ <-. split.
    + eapply Permutation_in; [exact Hp|left; reflexivity].
    + right. exists rest, l. split; [exact Hscr|]. split; [exact Hp|reflexivity].
Qed.

Lemma elect_one_inv : forall w tbs (p : profile) (prev : estate) (st st' : mstate) np e,
  elect_one w tbs p prev st = inl ((np, e), st') ->
  st' = st /\ elected e = [[w]] /\ tiebreaks e = tbs /\ remove_cand_prof [w] true false p = inl np.
Proof.
  intros w tbs p prev st st' np e H. unfold Rules.elect_one, mbind, mlift in H.
  destruct (remove_cand_prof [w] true false p) as [np0|e0]; [|discriminate]. unfold ok in H.
  destruct (first_place_votes cand ceqb np0) as [d|e0]; [|discriminate].
  unfold mret, ok in H. injection H as <- <- <-. repeat split; reflexivity.
Qed.

(* any successful RandomDictator step: its first primitive call is random.choices on exactly the
   population of the law; a random.sample on the tied first position may follow; the winner is
   listed first on a positive-weight ballot *)
Theorem rd_step_inv : forall (p : profile) (prev : estate) (st st' : mstate) np e,
  rd_step p prev st = inl ((np, e), st') ->
  exists w, elected e = [[w]] /\ remove_cand_prof [w] true false p = inl np /\
    0 < total_wt (ballots p) /\
    (exists later, lg st' = later ++ CChoices (choices_pop p) :: lg st /\
       (later = [] \/ exists s, later = [CSample s])) /\
    exists b s r', In b (ballots p) /\ 0 < wt b /\ rk b = s :: r' /\ In w s.
Proof.
  intros p prev st st' np e H. unfold Rules.rd_step, mbind in H.
  destruct (draw_ballot p st) as [[r st1]|e0] eqn:Hd; [|discriminate].
  destruct (dictator_pick r st1) as [[[w tbs] st2]|e0] eqn:Hp; [|discriminate].
  destruct (elect_one_inv _ _ _ _ _ _ _ _ H) as (-> & Hel & _ & Hrem).
  destruct (draw_ballot_inv _ _ _ _ Hd) as (Htot & (rest & Hscr & ->) & b & Hb & Hrb & Hwb).
  destruct (dictator_pick_inv _ _ _ _ _ Hp) as (s & r' & -> & Hws & Hcase).
  exists w. split; [exact Hel|]. split; [exact Hrem|]. split; [exact Htot|]. split.
  - destruct Hcase as [[_ ->]|(rest' & l & _ & _ & ->)]; cbn [lg].
    + exists []. split; [reflexivity|left; reflexivity].
    + exists [CSample s]. split; [reflexivity|right; exists s; reflexivity].
  - destruct (rk b) as [|sb rb] eqn:Hrk; [discriminate|].
    cbn [Core.ranking_eqb] in Hrb. apply andb_true_iff in Hrb. destruct Hrb as [Hs _].
    exists b, sb, rb. split; [exact Hb|]. split; [exact Hwb|]. split; [exact Hrk|].
    apply (cset_eqb_iff cand ceqb ceqb_spec) in Hs. destruct Hs as [Hincl _]. apply Hincl. exact Hws.
Qed.

Theorem draw_ballot_call : forall (p : profile) (st st' : mstate) r,
  draw_ballot p st = inl (r, st') -> lg st' = CChoices (choices_pop p) :: lg st.
Proof.
  intros p st st' r H. destruct (draw_ballot_inv _ _ _ _ H) as (_ & (rest & _ & ->) & _).
  reflexivity.
Qed.

Lemma first_share_nonneg : forall c (r : ranking), 0 <= first_share c r.
Proof.
  intros c [|s r']; cbn [Laws.first_share]; [apply Qle_refl|].
  destruct (memb c s); [|apply Qle_refl]. unfold Qdiv. rewrite Qmult_1_l.
  apply Qinv_le_0_compat. apply Qnat_nonneg.
Qed.

Lemma first_share_pos : forall c s (r' : ranking), In c s -> 0 < first_share c (s :: r').
Proof.
  intros c s r' Hc. cbn [Laws.first_share]. apply memb_In' in Hc. rewrite Hc.
  unfold Qdiv. rewrite Qmult_1_l. apply Qinv_lt_0_compat. apply Qnat_pos.
  apply memb_In' in Hc. destruct s; [destruct Hc|cbn [length]; lia].
Qed.

(* the script reading agrees with the support of the law: an elected candidate has positive
   probability ... *)
Theorem rd_script_sound : forall (p : profile) (prev : estate) (st st' : mstate) np e,
  rd_domain p -> nonneg_weights p ->
  rd_step p prev st = inl ((np, e), st') ->
  exists w, elected e = [[w]] /\ 0 < prob (ceqb w) (law_rd_winner p).
Proof.
  intros p prev st st' np e Hdom Hnn H.
  destruct (rd_step_inv _ _ _ _ _ _ H) as (w & Hel & _ & Htot & _ & b & s & r' & Hb & Hwb & Hrk & Hws).
  exists w. split; [exact Hel|]. destruct (rd_step_law p Hdom) as [_ ->].
  unfold Laws.rd_closed_form. apply Qlt_shift_div_l; [exact Htot|]. rewrite Qmult_0_l.
  unfold LawSpec.nonneg_weights in Hnn. rewrite Forall_forall in Hnn.
  apply (qsum_map_pos (fun b0 : ballot => wt b0 * first_share w (rk b0)) (ballots p) b).
  - intros b0 Hb0. apply Qmult_le_0_compat; [apply Hnn; exact Hb0|apply first_share_nonneg].
  - exact Hb.
  - rewrite Hrk. apply Qmult_lt_0_compat; [exact Hwb|apply first_share_pos; exact Hws].
Qed.

(* ... and every candidate of positive probability is elected by some valid script: the script
   makes rd_step reduce to electing that candidate (elect_one makes no draw) *)
Theorem rd_script_complete : forall (p : profile) c l0,
  rd_domain p -> 0 < prob (ceqb c) (law_rd_winner p) ->
  exists sc tbs st2, forall prev, rd_step p prev (mkM sc l0) = elect_one c tbs p prev st2.
Proof.
  intros p c l0 Hdom Hpos. destruct (rd_step_law p Hdom) as [_ Hlaw]. rewrite Hlaw in Hpos.
  destruct Hdom as [Hall Htot]. rewrite Forall_forall in Hall.
  unfold Laws.rd_closed_form in Hpos.
  assert (Hnum : 0 < qsum (map (fun b => wt b * first_share c (rk b)) (ballots p))).
  { apply (Qmult_lt_r _ _ (/ total_wt (ballots p))); [apply Qinv_lt_0_compat; exact Htot|].
    rewrite Qmult_0_l. exact Hpos. }
  apply qsum_map_pos_inv in Hnum. destruct Hnum as (b & Hb & Hterm).
  destruct (Hall b Hb) as (s & r' & Hrk & Hne & Hnd).
  assert (Hfs : 0 <= first_share c (rk b)) by apply first_share_nonneg.
  assert (Hfs_pos : 0 < first_share c (rk b)).
  { destruct (Qlt_le_dec 0 (first_share c (rk b))) as [Hl|Hl]; [exact Hl|].
    assert (E : first_share c (rk b) == 0) by (apply Qle_antisym; assumption).
    rewrite E, Qmult_0_r in Hterm. exfalso. apply (Qlt_irrefl 0). exact Hterm. }
  assert (Hwb : 0 < wt b).
  { destruct (Qlt_le_dec 0 (wt b)) as [Hl|Hl]; [exact Hl|]. exfalso.
    assert (wt b * first_share c (rk b) <= 0); [|lra].
    rewrite <- (Qmult_0_l (first_share c (rk b))). apply Qmult_le_compat_r; assumption. }
  assert (Hcs : In c s).
  { rewrite Hrk in Hfs_pos. cbn [Laws.first_share] in Hfs_pos.
    destruct (memb c s) eqn:Hm; [apply memb_In'; exact Hm|].
    exfalso. apply (Qlt_irrefl 0). exact Hfs_pos. }
  destruct s as [|x [|y s']]; [contradiction| |].
  - destruct Hcs as [->|[]].
    exists [DRank (rk b)], [], (mkM [] (CChoices (choices_pop p) :: l0)). intros prev.
    unfold Rules.rd_step, mbind. rewrite (draw_ballot_run p b [] l0 Htot Hb Hwb).
    rewrite Hrk. reflexivity.
  - set (s := x :: y :: s') in *.
    apply in_split in Hcs. destruct Hcs as (l1 & l2 & Hs).
    assert (Hperm : Permutation (c :: l1 ++ l2) s) by (rewrite Hs; apply Permutation_middle).
    exists [DRank (rk b); DPerm (c :: l1 ++ l2)],
           [(s, Core.singletons cand (c :: l1 ++ l2))],
           (mkM [] (CSample s :: CChoices (choices_pop p) :: l0)).
    intros prev. unfold Rules.rd_step, mbind. rewrite (draw_ballot_run p b _ l0 Htot Hb Hwb).
    rewrite Hrk. unfold s at 1. cbn [Rules.dictator_pick]. fold s.
    cbn [Core.tiebreak_set]. unfold Core.draw_perm, mbind, Core.next_draw. cbn [scr lg]. unfold ok.
    rewrite (is_perm_of_intro cand ceqb ceqb_spec _ s Hnd Hperm). reflexivity.
Qed.

(* ------------------------------------------------------------------ *)
(** * B. One BoostedRandomDictator step *)

(* summing g(value) over the entries of a duplicate-free dictionary whose key is x gives
   g (the looked-up value), provided g 0 == 0 for absent keys *)
Lemma qsum_lookup0 : forall (g : Q -> Q) (x : cand) (d : scores),
  NoDup (map fst d) -> g 0 == 0 ->
  qsum (map (fun q => if ceqb x (fst q) then g (snd q) else 0) d) == g (lookup0 x d).
Proof.
  intros g x d Hnd Hg0. induction d as [|[a v] d IH].
  - cbn [map]. rewrite qsum_nil. symmetry. exact Hg0.
  - cbn [map fst snd] in *. inversion Hnd as [|a' l' Ha Hnd']; subst. rewrite qsum_cons.
    unfold Core.lookup0, Core.lookup. cbn [find fst snd].
    destruct (ceqb_spec x a) as [->|Hne].
    + cbn [snd]. rewrite qsum_map_zero; [ring|]. intros [a' v'] Hin. cbn [fst snd].
      destruct (ceqb_spec a a') as [<-|_]; [|reflexivity].
      exfalso. apply Ha. apply in_map_iff. exists (a, v'). split; [reflexivity|exact Hin].
    + rewrite (IH Hnd'). unfold Core.lookup0, Core.lookup. ring.
Qed.

Definition sumsq (d : scores) : Q := qsum (map (fun q => snd q * snd q) d).

Lemma squares_z : forall (d : scores) (t : Q), ~ t == 0 ->
  qsum (map snd (map (fun q : cand * Q => (fst q, (snd q / t) * (snd q / t))) d))
  == sumsq d / (t * t).
Proof.
  intros d t Ht. rewrite map_map. cbn [snd]. unfold sumsq. rewrite <- qsum_map_div.
  apply qsum_map_ext_in. intros q _. field. exact Ht.
Qed.

(* the normaliser z of [squares], which brd_step tests against 0 *)
Lemma squares_mass_sumsq : forall (d : scores) (t : Q), ~ t == 0 ->
  squares_mass cand d t == sumsq d / (t * t).
Proof.
  intros d t Ht. unfold Rules.squares_mass. rewrite <- (squares_z d t Ht), map_map. reflexivity.
Qed.

Lemma squares_mass_zero_iff : forall (d : scores) (t : Q), ~ t == 0 ->
  (squares_mass cand d t == 0 <-> sumsq d == 0).
Proof.
  intros d t Ht. rewrite (squares_mass_sumsq d t Ht).
  assert (Htt : ~ t * t == 0) by (intros E'; apply Qmult_integral in E'; tauto).
  split; intros E.
  - rewrite <- (Qmult_div_r (sumsq d) (t * t) Htt). rewrite E. ring.
  - rewrite E. field. exact Ht.
Qed.

Lemma squares_total : forall (d : scores) (t : Q), ~ t == 0 -> ~ sumsq d == 0 ->
  qsum (map snd (squares d t)) == 1.
Proof.
  intros d t Ht Hs. unfold Rules.squares. cbv zeta.
  set (sq := map (fun q : cand * Q => (fst q, (snd q / t) * (snd q / t))) d).
  rewrite map_map. cbn [snd]. rewrite qsum_map_div.
  assert (Hz : ~ qsum (map snd sq) == 0).
  { unfold sq. rewrite (squares_z d t Ht). intros E. apply Hs.
    assert (Htt : ~ t * t == 0) by (intros E'; apply Qmult_integral in E'; tauto).
    rewrite <- (Qmult_div_r (sumsq d) (t * t) Htt). rewrite E. ring. }
  field. exact Hz.
Qed.

(* numpy choice(cands, p = squares): candidate x has probability d_x^2 / sum d_i^2 — the
   normalisation by the total weight cancels *)
Theorem squares_law : forall (d : scores) (t : Q) x,
  NoDup (map fst d) -> ~ t == 0 -> ~ sumsq d == 0 ->
  mass (categorical (squares d t)) == 1 /\
  prob (ceqb x) (categorical (squares d t)) == squares_closed_form d x.
Proof.
  intros d t x Hnd Ht Hs. pose proof (squares_total d t Ht Hs) as Htot. split.
  - apply mass_categorical. rewrite Htot. intros E. discriminate.
  - rewrite prob_categorical, Htot. fold (prob (ceqb x) (squares d t)).
    rewrite prob_as_sum. unfold Rules.squares. cbv zeta. rewrite !map_map. cbn [fst snd].
    set (z := qsum (map (fun q : cand * Q => (snd q / t) * (snd q / t)) d)).
    assert (Hz : z == sumsq d / (t * t)).
    { unfold z. rewrite <- (squares_z d t Ht), map_map. reflexivity. }
    rewrite (qsum_lookup0 (fun v => (v / t) * (v / t) / z) x d Hnd).
    + unfold Laws.squares_closed_form. fold (sumsq d). rewrite Hz. field. split; assumption.
    + unfold Qdiv. ring.
Qed.

Lemma Qnat_ge2 : forall n, (2 <= n)%nat -> 1 <= Qnat n - 1.
Proof.
  intros n Hn. assert (H : 2 <= Qnat n).
  { unfold Qnat. change 2 with (inject_Z 2). rewrite <- Zle_Qle. lia. }
  lra.
Qed.

(* the mixing weight 1/(c-1) is a probability for c >= 2 candidates: for u uniform on [0,1) the
   branch condition u <= 1/(c-1) holds with probability exactly 1/(c-1) *)
Theorem brd_lambda_range : forall n, (2 <= n)%nat ->
  0 < 1 / (Qnat n - 1) /\ 1 / (Qnat n - 1) <= 1.
Proof.
  intros n Hn. pose proof (Qnat_ge2 n Hn) as H. split.
  - unfold Qdiv. rewrite Qmult_1_l. apply Qinv_lt_0_compat. lra.
  - apply Qle_shift_div_r; lra.
Qed.

Theorem brd_step_law : forall (p : profile) (d : scores) x,
  rd_domain p -> (2 <= length (cands p))%nat ->
  NoDup (map fst d) -> 0 < sumsq d ->
  let lam := 1 / (Qnat (length (cands p)) - 1) in
  mass (law_brd_winner p d) == 1 /\
  prob (ceqb x) (law_brd_winner p d) ==
    lam * squares_closed_form d x + (1 - lam) * rd_closed_form p x.
Proof.
  intros p d x Hdom Hc Hnd Hs lam.
  assert (Ht : ~ total_wt (ballots p) == 0) by (apply total_pos_neq0; apply Hdom).
  assert (Hs' : ~ sumsq d == 0) by (intros E; rewrite E in Hs; apply (Qlt_irrefl 0); exact Hs).
  destruct (squares_law d (total_wt (ballots p)) x Hnd Ht Hs') as [Hm1 Hp1].
  destruct (rd_step_law p Hdom) as [Hm2 Hp2].
  unfold Laws.law_brd_winner. subst lam.
  destruct (cands p) as [|c1 [|c2 cs]]; cbn [length] in Hc; [lia|lia|]. split.
  - apply mass_dmix_one; assumption.
  - rewrite prob_dmix, Hp1, Hp2. reflexivity.
Qed.

Theorem brd_step_nonneg : forall (p : profile) (d : scores),
  nonneg_weights p -> (2 <= length (cands p))%nat -> 0 < total_wt (ballots p) ->
  nonneg_dist (law_brd_winner p d).
Proof.
  intros p d Hw Hc Ht. unfold Laws.law_brd_winner.
  pose proof (brd_lambda_range _ Hc) as [Hl0 Hl1].
  destruct (cands p) as [|c1 [|c2 cs]]; cbn [length] in Hc; [lia|lia|].
  apply nonneg_dmix; [lra|exact Hl1| |apply rd_step_nonneg; exact Hw].
  apply nonneg_categorical. intros a w Hin. unfold Rules.squares in Hin. cbv zeta in Hin.
  rewrite map_map in Hin. cbn [fst snd] in Hin. apply in_map_iff in Hin.
  destruct Hin as (q & E & _). injection E as _ <-.
  set (t := total_wt (ballots p)).
  assert (Hsq : forall v : Q, 0 <= (v / t) * (v / t)).
  { intros v. destruct (Qlt_le_dec (v / t) 0) as [Hn|Hn].
    - setoid_replace ((v / t) * (v / t)) with ((- (v / t)) * (- (v / t))) by ring.
      apply Qmult_le_0_compat; lra.
    - apply Qmult_le_0_compat; exact Hn. }
  unfold Qdiv at 1. apply Qmult_le_0_compat; [apply Hsq|]. apply Qinv_le_0_compat.
  rewrite map_map. cbn [snd]. apply qsum_map_nonneg. intros [a' v'] _. cbn [snd]. apply Hsq.
Qed.

(* a single remaining candidate is elected with probability 1 *)
Theorem brd_single_law : forall (p : profile) (d : scores) c,
  cands p = [c] ->
  law_brd_winner p d = dret c /\ mass (law_brd_winner p d) == 1 /\
  prob (ceqb c) (law_brd_winner p d) == 1.
Proof.
  intros p d c Hc. unfold Laws.law_brd_winner. rewrite Hc. split; [reflexivity|].
  split; [apply mass_dret|]. rewrite prob_dret, ceqb_refl'. reflexivity.
Qed.

(* --- the script reading of brd_step --- *)

(* any run of brd_step that does not stop with a script error first consumes a DUnit draw and
   logs CUniform as its first call *)
Lemma brd_step_first : forall (p : profile) (prev : estate) (st st' : mstate) x,
  brd_step p prev st = inl (x, st') ->
  exists u rest, scr st = DUnit u :: rest.
Proof.
  intros p prev st st' x H. unfold Rules.brd_step, mbind, Core.next_draw in H.
  destruct (scr st) as [|du rest]; [discriminate|]. unfold ok in H.
  destruct du as [| | |u| |]; try discriminate. exists u, rest. reflexivity.
Qed.

Definition not_single (p : profile) : Prop := forall c, cands p <> [c].

(* single remaining candidate: elected outright, whatever u *)
Theorem brd_single_script : forall (p : profile) (prev : estate) (st : mstate) u rest c,
  scr st = DUnit u :: rest -> cands p = [c] ->
  brd_step p prev st = elect_one c [] p prev (mkM rest (CUniform :: lg st)).
Proof.
  intros p prev st u rest c Hscr Hc. unfold Rules.brd_step, mbind, Core.next_draw.
  rewrite Hscr, Hc. reflexivity.
Qed.

Corollary brd_single : forall (p : profile) (d : scores) c,
  cands p = [c] ->
  mass (law_brd_winner p d) == 1 /\ prob (ceqb c) (law_brd_winner p d) == 1 /\
  forall (prev : estate) (st : mstate) u rest, scr st = DUnit u :: rest ->
    brd_step p prev st = elect_one c [] p prev (mkM rest (CUniform :: lg st)).
Proof.
  intros p d c Hc. destruct (brd_single_law p d c Hc) as (_ & Hm & Hp).
  split; [exact Hm|]. split; [exact Hp|]. intros prev st u rest Hscr.
  exact (brd_single_script p prev st u rest c Hscr Hc).
Qed.

(* u > 1/(c-1): the step IS a RandomDictator step on the advanced state *)
Theorem brd_else_branch : forall (p : profile) (prev : estate) (st : mstate) u rest,
  scr st = DUnit u :: rest -> not_single p ->
  Qle_bool u (1 / (Qnat (length (cands p)) - 1)) = false ->
  brd_step p prev st = rd_step p prev (mkM rest (CUniform :: lg st)).
Proof.
  intros p prev st u rest Hscr Hns Hle. unfold Rules.brd_step, mbind, Core.next_draw.
  rewrite Hscr. unfold ok.
  destruct (cands p) as [|c1 [|c2 cs]] eqn:Hc; [| exfalso; apply (Hns c1); exact Hc |];
    rewrite Hle; reflexivity.
Qed.

(* u <= 1/(c-1): the next call is numpy choice on exactly the population of the law, and the
   winner is one of the scored candidates *)
Theorem brd_squares_branch : forall (p : profile) (prev : estate) (st st' : mstate) u rest np e,
  scr st = DUnit u :: rest -> not_single p ->
  Qle_bool u (1 / (Qnat (length (cands p)) - 1)) = true ->
  brd_step p prev st = inl ((np, e), st') ->
  ~ total_wt (ballots p) == 0 /\
  ~ squares_mass cand (escores prev) (total_wt (ballots p)) == 0 /\
  exists w rest', rest = DCand w :: rest' /\ In w (map fst (escores prev)) /\
    elected e = [[w]] /\ remove_cand_prof [w] true false p = inl np /\
    st' = mkM rest' (CNpChoice (squares (escores prev) (total_wt (ballots p))) :: CUniform :: lg st).
Proof.
  intros p prev st st' u rest np e Hscr Hns Hle H.
  unfold Rules.brd_step, mbind, Core.next_draw in H. rewrite Hscr in H. unfold ok in H.
  assert (H' : (if Qeq_bool (total_wt (ballots p)) 0 then mfail EValue else
            if Qeq_bool (squares_mass cand (escores prev) (total_wt (ballots p))) 0
            then mfail EValue else
            fun s0 : mstate =>
            match (match scr s0 with
                   | [] => err EScript
                   | d0 :: rest0 =>
                       inl (d0, mkM rest0 (CNpChoice (squares (escores prev) (total_wt (ballots p))) :: lg s0))
                   end) with
            | inl (dc, s1) =>
                match dc with
                | DCand w => if memb w (map fst (escores prev))
                             then elect_one w [] p prev else mfail EScript
                | _ => mfail EScript
                end s1
            | inr e0 => inr e0
            end) (mkM rest (CUniform :: lg st)) = inl ((np, e), st')).
  { destruct (cands p) as [|c1 [|c2 cs]] eqn:Hc; [| exfalso; apply (Hns c1); exact Hc |];
      rewrite Hle in H; exact H. }
  clear H. destruct (Qeq_bool (total_wt (ballots p)) 0) eqn:Hq; [discriminate|].
  split; [intros E; apply Qeq_bool_iff in E; congruence|].
  destruct (Qeq_bool (squares_mass cand (escores prev) (total_wt (ballots p))) 0) eqn:Hq2;
    [discriminate|].
  split; [intros E; apply Qeq_bool_iff in E; congruence|].
  cbn [scr lg] in H'. destruct rest as [|dc rest']; [discriminate|].
  destruct dc as [| | | |w|]; try discriminate.
  destruct (memb w (map fst (escores prev))) eqn:Hm; [|discriminate].
  destruct (elect_one_inv _ _ _ _ _ _ _ _ H') as (-> & Hel & _ & Hrem).
  exists w, rest'. split; [reflexivity|]. split; [apply memb_In'; exact Hm|].
  split; [exact Hel|]. split; [exact Hrem|reflexivity].
Qed.

(* every successful step: the first draw consumed is a DUnit and the first call logged is
   random.uniform *)
Theorem brd_step_log : forall (p : profile) (prev : estate) (st st' : mstate) np e,
  brd_step p prev st = inl ((np, e), st') ->
  exists u rest later, scr st = DUnit u :: rest /\ lg st' = later ++ CUniform :: lg st.
Proof.
  intros p prev st st' np e H. destruct (brd_step_first _ _ _ _ _ H) as (u & rest & Hscr).
  exists u, rest.
  assert (Hcases : (exists c, cands p = [c]) \/ not_single p).
  { destruct (cands p) as [|c1 [|c2 cs]] eqn:Hc.
    - right. intros c E. rewrite Hc in E. discriminate.
    - left. exists c1. reflexivity.
    - right. intros c E. rewrite Hc in E. discriminate. }
  destruct Hcases as [(c & Hc)|Hns].
  - rewrite (brd_single_script p prev st u rest c Hscr Hc) in H.
    destruct (elect_one_inv _ _ _ _ _ _ _ _ H) as (-> & _). exists []. split; [exact Hscr|reflexivity].
  - destruct (Qle_bool u (1 / (Qnat (length (cands p)) - 1))) eqn:Hle.
    + destruct (brd_squares_branch p prev st st' u rest np e Hscr Hns Hle H)
        as (_ & _ & w & rest' & _ & _ & _ & _ & ->).
      exists [CNpChoice (squares (escores prev) (total_wt (ballots p)))].
      split; [exact Hscr|reflexivity].
    + rewrite (brd_else_branch p prev st u rest Hscr Hns Hle) in H.
      destruct (rd_step_inv _ _ _ _ _ _ H) as (w & _ & _ & _ & (later & Hlg & _) & _).
      cbn [lg] in Hlg. exists (later ++ [CChoices (choices_pop p)]). split; [exact Hscr|].
      rewrite Hlg, <- app_assoc. reflexivity.
Qed.

(* the random tiebreak of the script reading: one random.sample call on exactly the tied set,
   answered by a permutation of it — the outcome space of [law_random_tiebreak] *)
Theorem random_tiebreak_call : forall (s : cset) (po : option profile) (st st' : mstate) t,
  tiebreak_set cand ceqb s po TBRandom st = inl (t, st') ->
  exists l, t = Core.singletons cand l /\ Permutation l s /\ NoDup l /\
            scr st = DPerm l :: scr st' /\ lg st' = CSample s :: lg st.
Proof.
  intros s po st st' t H. cbn [Core.tiebreak_set] in H. unfold mbind in H.
  destruct (Core.draw_perm cand ceqb s st) as [[l st1]|e0] eqn:Hd; [|discriminate].
  unfold mret, ok in H. injection H as <- <-.
  destruct (draw_perm_inv cand ceqb ceqb_spec _ _ _ _ Hd) as (Hp & Hnd & rest & Hscr & ->).
  exists l. repeat split; assumption.
Qed.

(* ------------------------------------------------------------------ *)
(** * M. Multi-seat RandomDictator *)

(* the recursive equation of the law of the sequence of winners, without any hypothesis *)
Theorem rd_sequence_rec : forall k (p : profile) w ws,
  prob (list_eqb (w :: ws)) (law_rd_sequence (S k) p) ==
  prob (ceqb w) (law_rd_winner p) *
  match remove_cand_prof [w] true false p with
  | inl np => prob (list_eqb ws) (law_rd_sequence k np)
  | inr _ => 0
  end.
Proof.
  intros k p w ws. cbn [Laws.law_rd_sequence]. rewrite prob_dbind.
  rewrite (prob_as_sum (ceqb w) (law_rd_winner p)), <- qsum_map_scal_r.
  apply qsum_map_ext_in. intros [x q] _. cbn [fst snd].
  destruct (ceqb_spec w x) as [<-|Hne].
  - destruct (remove_cand_prof [w] true false p) as [np|e0].
    + rewrite prob_dbind_dret.
      rewrite (prob_ext_in (fun l => list_eqb (w :: ws) (w :: l)) (list_eqb ws)); [reflexivity|].
      intros l q' _. cbn [LawSpec.list_eqb]. rewrite ceqb_refl'. reflexivity.
    + rewrite prob_nil. reflexivity.
  - assert (E : prob (list_eqb (w :: ws))
                  match remove_cand_prof [x] true false p with
                  | inl np => dbind (law_rd_sequence k np) (fun l => dret (x :: l))
                  | inr _ => []
                  end == 0).
    { destruct (remove_cand_prof [x] true false p) as [np|e0]; [|rewrite prob_nil; reflexivity].
      rewrite prob_dbind_dret. rewrite <- (prob_false (law_rd_sequence k np)).
      apply prob_ext_in. intros l q' _. cbn [LawSpec.list_eqb].
      destruct (ceqb_spec w x) as [E|_]; [contradiction|reflexivity]. }
    rewrite E. ring.
Qed.

Lemma rd_sequence_zero : forall (p : profile), law_rd_sequence 0 p = dret [].
Proof. reflexivity. Qed.

(* P(w1, ..., wk) = product of the one-step closed forms along the path, when the profiles met
   along the path are in the domain of a step *)
Theorem rd_sequence_path : forall ws (p : profile), rd_path_ok ws p ->
  prob (list_eqb ws) (law_rd_sequence (length ws) p) == rd_path_prob ws p.
Proof.
  induction ws as [|w ws IH]; intros p Hok.
  - cbn [length Laws.law_rd_sequence LawSpec.rd_path_prob]. rewrite prob_dret. reflexivity.
  - cbn [length LawSpec.rd_path_prob]. cbn [LawSpec.rd_path_ok] in Hok. destruct Hok as [Hdom Hrest].
    rewrite rd_sequence_rec. destruct (rd_step_law p Hdom) as [_ ->].
    destruct (remove_cand_prof [w] true false p) as [np|e0]; [|reflexivity].
    rewrite (IH np Hrest). reflexivity.
Qed.

(* the support of one step: only candidates listed first on some ballot *)
Lemma law_rd_winner_support : forall (p : profile) w q,
  In (w, q) (law_rd_winner p) -> some_first p w.
Proof.
  intros p w q H. unfold Laws.law_rd_winner in H. apply dbind_support in H.
  destruct H as (r & q1 & q2 & Hr & Hw & _). apply law_draw_ballot_support in Hr.
  destruct Hr as (b & Hb & ->). destruct (rk b) as [|s r'] eqn:Hrk; [destruct Hw|].
  exists b, s, r'. split; [exact Hb|]. split; [exact Hrk|].
  destruct s as [|x [|y s']]; [destruct Hw| |].
  - destruct Hw as [E|[]]. injection E as <- _. left. reflexivity.
  - set (s := x :: y :: s') in *.
    change (In (w, q2) (dbind (uperm s) (fun l => match l with c0 :: _ => dret c0 | [] => [] end))) in Hw.
    apply dbind_support in Hw. destruct Hw as (o & q3 & q4 & Ho & Hw & _).
    apply uperm_support in Ho. destruct o as [|z o]; [destruct Hw|].
    destruct Hw as [E|[]]. injection E as <- _.
    eapply Permutation_in; [exact Ho|left; reflexivity].
Qed.

(* total mass 1 when every reachable profile stays in the domain *)
Theorem rd_sequence_mass : forall k (p : profile), rd_tree_ok k p ->
  mass (law_rd_sequence k p) == 1.
Proof.
  induction k as [|k IH]; intros p Hok.
  - apply mass_dret.
  - cbn [LawSpec.rd_tree_ok] in Hok. destruct Hok as [Hdom Hnext].
    cbn [Laws.law_rd_sequence]. rewrite mass_dbind_one; [apply (rd_step_law p Hdom)|].
    intros w q Hw. apply law_rd_winner_support in Hw.
    destruct (Hnext w Hw) as (np & -> & Hnp).
    rewrite mass_dbind_one; [apply IH; exact Hnp|]. intros l q' _. apply mass_dret.
Qed.

(* --- a concrete class of profiles on which the invariant holds --- *)

Lemma total_wt_pos : forall bs : list ballot, bs <> [] -> Forall (fun b => 0 < wt b) bs ->
  0 < total_wt bs.
Proof.
  intros bs Hne Hall. unfold Core.total_wt.
  destruct bs as [|b bs]; [contradiction|].
  apply (qsum_map_pos (@wt cand) (b :: bs) b).
  - intros x Hx. rewrite Forall_forall in Hall. apply Qlt_le_weak. apply Hall. exact Hx.
  - left. reflexivity.
  - inversion Hall; assumption.
Qed.

Lemma filter_out_one_length : forall w (l : list cand), NoDup l ->
  (length l <= S (length (filter (fun c => negb (memb c [w])) l)))%nat.
Proof.
  intros w l Hnd. induction Hnd as [|x l Hx _ IH]; cbn [filter length]; [lia|].
  destruct (memb x [w]) eqn:Hm; cbn [negb length]; [|lia].
  apply memb_In' in Hm. destruct Hm as [<-|[]].
  rewrite filter_all_true; [lia|]. intros c Hc. cbn [Core.memb existsb]. rewrite orb_false_r.
  destruct (ceqb_spec c w) as [->|_]; [contradiction|reflexivity].
Qed.

Lemma seats_ok_domain : forall k (p : profile), rd_seats_ok (S k) p -> rd_domain p.
Proof.
  intros k p H. destruct (H (Nat.lt_0_succ k)) as (_ & Hne & Hall). split.
  - eapply Forall_impl; [|exact Hall]. intros b (_ & _ & Hnd & Hgr & Hlen).
    destruct (rk b) as [|s r']; [cbn in Hlen; lia|]. exists s, r'. split; [reflexivity|].
    inversion Hgr as [|s0 r0 Hs _]; subst. split; [exact Hs|].
    rewrite (flat_cons cand) in Hnd. apply NoDup_app_inv in Hnd. apply Hnd.
  - apply total_wt_pos; [exact Hne|]. eapply Forall_impl; [|exact Hall]. intros b Hb. apply Hb.
Qed.

Lemma scrub_ballot_ok : forall k w (b : ballot), rd_ballot_ok (S (S k)) b ->
  rd_ballot_ok (S k) (scrub [w] b) /\ pos_wt cand (scrub [w] b) = true.
Proof.
  intros k w b (Hsc & Hwt & Hnd & _ & Hlen).
  assert (Hflat : flat (strip [w] (rk b)) = filter (fun c => negb (memb c [w])) (flat (rk b)))
    by apply strip_flat.
  assert (Hlen' : (S k <= length (flat (strip [w] (rk b))))%nat).
  { rewrite Hflat. pose proof (filter_out_one_length w (flat (rk b)) Hnd). lia. }
  assert (Hne : nonempty (strip [w] (rk b)) = true).
  { destruct (strip [w] (rk b)); [cbn in Hlen'; lia|reflexivity]. }
  rewrite (scrub_sf cand ceqb [w] b Hsc), Hne. split.
  - unfold LawSpec.rd_ballot_ok. cbn [sc wt rk]. split; [reflexivity|]. split; [exact Hwt|]. split.
    + rewrite Hflat. apply NoDup_filter. exact Hnd.
    + split; [apply strip_no_empty|exact Hlen'].
  - apply pos_wt_iff. exact Hwt.
Qed.

(* every ballot ranks at least as many candidates as there are seats: the invariant holds *)
Theorem seats_ok_tree : forall k (p : profile), rd_seats_ok k p -> rd_tree_ok k p.
Proof.
  induction k as [|k IH]; intros p H; [exact I|].
  cbn [LawSpec.rd_tree_ok]. split; [apply (seats_ok_domain k p H)|]. intros w _.
  destruct (H (Nat.lt_0_succ k)) as (Hndc & Hne & Hall).
  unfold Core.remove_cand_prof, Core.mk_profile.
  assert (Hnd' : NoDup (set_diff cand ceqb (cands p) [w])) by (apply set_diff_NoDup; exact Hndc).
  rewrite (proj2 (has_dup_false_iff cand ceqb ceqb_spec _) Hnd'). unfold ok.
  eexists. split; [reflexivity|]. apply IH. intros Hk. cbn [ballots cands].
  destruct k as [|k]; [lia|]. split; [|split].
  - destruct (set_diff cand ceqb (cands p) [w]) as [|c0 cs0] eqn:Hsd; [|exact Hnd'].
    unfold Core.cast_cands. apply (dedup_NoDup cand ceqb ceqb_spec).
  - (* some ballot is left: the total weight is still positive *)
    rewrite remove_cand_bs_unfold. cbn [kept_of].
    set (kept := filter (pos_wt cand) (map (scrub [w]) (ballots p))).
    assert (Hkept : kept = map (scrub [w]) (ballots p)).
    { unfold kept. apply filter_all_true. intros b' Hb'. apply in_map_iff in Hb'.
      destruct Hb' as (b & <- & Hb). rewrite Forall_forall in Hall.
      apply (scrub_ballot_ok k w b (Hall b Hb)). }
    assert (Htot : 0 < total_wt kept).
    { apply total_wt_pos.
      - rewrite Hkept. destruct (ballots p); [contradiction|discriminate].
      - rewrite Hkept. apply Forall_forall. intros b' Hb'. apply in_map_iff in Hb'.
        destruct Hb' as (b & <- & Hb). rewrite Forall_forall in Hall.
        apply (scrub_ballot_ok k w b (Hall b Hb)). }
    intros E. rewrite <- (condense_total cand ceqb kept), E in Htot.
    apply (Qlt_irrefl 0). exact Htot.
  - rewrite remove_cand_bs_unfold. cbn [kept_of].
    set (kept := filter (pos_wt cand) (map (scrub [w]) (ballots p))).
    assert (Hkall : Forall (rd_ballot_ok (S k)) kept).
    { apply Forall_forall. intros b' Hb'. unfold kept in Hb'. apply filter_In in Hb'.
      destruct Hb' as [Hb' _]. apply in_map_iff in Hb'. destruct Hb' as (b & <- & Hb).
      rewrite Forall_forall in Hall. apply (scrub_ballot_ok k w b (Hall b Hb)). }
    assert (Hsf : score_free cand (condense_bs kept)).
    { apply condense_sf. eapply Forall_impl; [|exact Hkall]. intros b Hb. apply Hb. }
    assert (Hpos : all_pos cand (condense_bs kept)).
    { apply condense_pos. eapply Forall_impl; [|exact Hkall]. intros b Hb. apply Hb. }
    apply Forall_forall. intros k0 Hk0.
    unfold score_free in Hsf. unfold all_pos in Hpos. rewrite Forall_forall in Hsf, Hpos, Hkall.
    destruct (condense_rk_in cand ceqb kept k0 Hk0) as (b' & Hb' & Hrk).
    destruct (Hkall b' Hb') as (_ & _ & Hnd0 & Hgr0 & Hlen0).
    split; [apply Hsf; exact Hk0|]. split; [apply Hpos; exact Hk0|]. rewrite Hrk.
    split; [exact Hnd0|]. split; [exact Hgr0|exact Hlen0].
Qed.

Corollary rd_sequence_mass_seats : forall k (p : profile), rd_seats_ok k p ->
  mass (law_rd_sequence k p) == 1.
Proof. intros k p H. apply rd_sequence_mass. apply seats_ok_tree. exact H. Qed.

End C17.
