(* Proofs/STV_inv.v — the invariants of the STV count, for the properties C01/C02/C03 and for
   whoever builds on them (Droop proportionality):
     A  stv_step_summary / stv_step_wf   a round from a valid profile yields a valid-or-empty profile,
                                         its state, and removes exactly the elected/eliminated
     E  stv_step_monotone / stv_step_quota_bound   (weights; exact accounting is in STV_weights.v)
     F  stv_inv_init / stv_inv_step / stv_loop_inv  the invariant [stv_inv] (Spec/STVSpec.v)
     G,H  partition, count, termination of run_stv
     I  droop_no_overelection                       at most m - e candidates reach a Droop quota *)
From VK Require Import Base Core STV Rules EditSpec ScoreSpec STVSpec.
From VK.Proofs Require Import Lib_sets Lib_rk Lib_condense Lib_condense12 C12_edit C03_transfer
  C04_scoring Elect STV_lib STV_wsum STV_tb STV_step STV_round STV_threshold STV_weights.
From Coq Require Import Permutation Lia Lqa Setoid Morphisms.

Section WithCand.
Variable cand : Type.
Variable ceqb : cand -> cand -> bool.
Hypothesis ceqb_spec : forall a b, reflect (a = b) (ceqb a b).

Notation cset := (cset cand).
Notation ranking := (ranking cand).
Notation ballot := (ballot cand).
Notation profile := (profile cand).
Notation scores := (scores cand).
Notation mstate := (mstate cand).
Notation estate := (estate cand).
Notation memb := (memb cand ceqb).
Notation flat := (flat cand).
Notation set_diff := (set_diff cand ceqb).
Notation total_wt := (total_wt cand).
Notation tally := (tally cand ceqb).
Notation wf_stv0 := (wf_stv0 cand).
Notation wf_stv_profile := (wf_stv_profile cand).
Notation state_of := (state_of cand ceqb).
Notation step_ctx := (step_ctx cand ceqb).
Notation script_ok := (script_ok cand).
Notation first_place_votes := (first_place_votes cand ceqb).
Notation score_to_ranking := (score_to_ranking cand).
Notation real_groups := (real_groups cand).
Notation count_elected := (count_elected cand).
Notation elected_in := (elected_in cand).
Notation eliminated_in := (eliminated_in cand).
Notation all_elected := (all_elected cand).
Notation all_eliminated := (all_eliminated cand).
Notation hist_ok := (hist_ok cand).
Notation stv_inv := (stv_inv cand ceqb).
Notation stv_step := (stv_step cand ceqb).
Notation stv_loop := (stv_loop cand ceqb).
Notation stv_init := (stv_init cand).
Notation run_stv := (run_stv cand ceqb).
Notation initial_state := (initial_state cand ceqb).
Notation elect_round := (elect_round cand ceqb).
Notation elim_round := (elim_round cand ceqb).
Notation default_round := (default_round cand).
Notation scr_suffix := (scr_suffix cand).
Notation no_group := (no_group cand).
Notation empty_profile := (empty_profile cand).

(* ====================== bookkeeping on state lists ====================== *)

Lemma flat_real_groups : forall r : ranking, flat (real_groups r) = flat r.
Proof. intros [|[|c g] [|g2 r]]; reflexivity. Qed.

Lemma flat_concat_map : forall {A} (f : A -> ranking) (l : list A),
  flat (concat (map f l)) = concat (map (fun x => flat (f x)) l).
Proof.
  intros A f l. induction l as [|a l IH]; [reflexivity|]. cbn [map concat].
  rewrite (flat_app cand), IH. reflexivity.
Qed.

Lemma count_elected_all : forall sts, count_elected sts = Z.of_nat (length (all_elected sts)).
Proof. intros sts. unfold STV.count_elected. rewrite flat_concat_map. reflexivity. Qed.

Lemma all_elected_cons : forall st sts, all_elected (st :: sts) = elected_in st ++ all_elected sts.
Proof. reflexivity. Qed.

Lemma all_eliminated_cons : forall st sts,
  all_eliminated (st :: sts) = eliminated_in st ++ all_eliminated sts.
Proof. reflexivity. Qed.

Lemma count_elected_cons : forall st sts,
  count_elected (st :: sts) = (Z.of_nat (length (elected_in st)) + count_elected sts)%Z.
Proof.
  intros st sts. rewrite !count_elected_all, all_elected_cons, app_length. lia.
Qed.

Lemma perm_step_el : forall (E1 AE R R' AX C : list cand),
  Permutation (E1 ++ R') R -> Permutation (AE ++ R ++ AX) C ->
  Permutation ((E1 ++ AE) ++ R' ++ AX) C.
Proof.
  intros E1 AE R R' AX C H1 H2. rewrite <- app_assoc.
  eapply Permutation_trans; [apply Permutation_app_swap_app|].
  eapply Permutation_trans; [|exact H2]. apply Permutation_app_head.
  rewrite app_assoc. apply Permutation_app_tail. exact H1.
Qed.

Lemma perm_step_x : forall (X1 AE R R' AX C : list cand),
  Permutation (X1 ++ R') R -> Permutation (AE ++ R ++ AX) C ->
  Permutation (AE ++ R' ++ X1 ++ AX) C.
Proof.
  intros X1 AE R R' AX C H1 H2. eapply Permutation_trans; [|exact H2].
  apply Permutation_app_head. rewrite app_assoc. apply Permutation_app_tail.
  eapply Permutation_trans; [apply Permutation_app_comm|exact H1].
Qed.

(* ====================== A: what one round does to the candidates ====================== *)

Lemma empty_profile_wf : wf_stv0 empty_profile.
Proof. split; constructor. Qed.

Section Step.
Variable cfg : stv_cfg.
Variable t : Q.
Variables p0 p : profile.
Variable prev : estate.
Hypothesis Hctx : step_ctx p0 p prev.
Variable n : Z.
Variables s s' : mstate.
Variable np : profile.
Variable st : estate.
Hypothesis Hscr : s_transfer cfg = TRandom -> script_ok s.
Hypothesis Hstep : stv_step cfg t p0 n p prev s = inl ((np, st), s').

Let Hwf : wf_stv0 p := ctx_wf cand ceqb p0 p prev Hctx.

(* the round's elected and eliminated candidates together with the new candidate list rearrange
   the old candidate list; the new profile is valid-or-empty and [st] is its state *)
Theorem stv_step_summary :
  Permutation (elected_in st ++ eliminated_in st ++ cands np) (cands p) /\
  wf_stv0 np /\ state_of np st /\ scr_suffix s s'.
Proof.
  destruct (stv_step_ok_inv cand ceqb ceqb_spec cfg t p0 p prev Hctx n s s' np st Hscr Hstep)
    as [[_ (W & others & mvs & s1 & Hr)]|[(_ & _ & -> & Hd)|(_ & _ & x & Hx)]].
  - (* election *)
    pose proof Hr as Hr'.
    destruct Hr' as [HrW HrGroups HrNe HrNd HrPart HrReach HrElim HrChoice HrSuf HrTr HrNp HrWf HrSt HrRnd].
    assert (HE : elected_in st = W).
    { unfold STVSpec.elected_in. rewrite flat_real_groups. apply HrW. }
    assert (HX : eliminated_in st = []).
    { unfold STVSpec.eliminated_in. rewrite HrElim. reflexivity. }
    rewrite HE, HX, (er_cands cand ceqb _ _ _ _ _ _ _ _ _ _ _ _ Hr). cbn [app].
    split; [|split; [exact HrWf|split; [exact HrSt|]]].
    + apply (app_set_diff_perm cand ceqb ceqb_spec).
      * exact HrNd.
      * apply Hwf.
      * intros c Hc. apply (er_W_in cand ceqb _ _ _ _ _ _ _ _ _ _ _ _ Hr c Hc).
    + eapply scr_suffix_trans; [exact HrSuf|].
      apply (transfers_wf cand ceqb ceqb_spec _ p _ t W s1 s' mvs HrTr Hwf).
      intros Hk. apply (script_ok_suffix cand s s1 HrSuf).
      apply Hscr. exact Hk.
  - (* default election *)
    destruct Hd as [-> Hel Helim Htb Hsc Hrem Hrnd].
    assert (HE : elected_in st = flat (remaining prev)).
    { unfold STVSpec.elected_in. rewrite flat_real_groups, Hel. reflexivity. }
    assert (HX : eliminated_in st = []).
    { unfold STVSpec.eliminated_in. rewrite Helim. reflexivity. }
    rewrite HE, HX. cbn [app cands STV.empty_profile]. rewrite app_nil_r.
    split; [apply (ctx_flat_perm cand ceqb p0 p prev Hctx)|]. split; [apply empty_profile_wf|].
    split; [|apply scr_suffix_refl]. split; [rewrite Hsc; reflexivity|rewrite Hrem, Hsc; reflexivity].
  - (* elimination *)
    pose proof Hx as Hx'.
    destruct Hx' as [HxIn HxLow HxSuf HxEl HxElim HxNp HxWf HxSt HxRnd].
    assert (HE : elected_in st = []).
    { unfold STVSpec.elected_in. rewrite HxEl. reflexivity. }
    assert (HX : eliminated_in st = [x]).
    { unfold STVSpec.eliminated_in. rewrite HxElim. reflexivity. }
    rewrite HE, HX, (xr_cands cand ceqb _ _ _ _ _ _ _ _ Hx). cbn [app].
    split; [|split; [exact HxWf|split; [exact HxSt|exact HxSuf]]].
    apply (app_set_diff_perm cand ceqb ceqb_spec [x]).
    + constructor; [intros []|constructor].
    + apply Hwf.
    + intros c [<-|[]]. exact HxIn.
Qed.

Theorem stv_step_wf :
  wf_stv0 np /\ state_of np st /\
  NoDup (elected_in st ++ eliminated_in st) /\
  incl (elected_in st ++ eliminated_in st) (cands p) /\
  NoDup (cands np) /\
  (forall c, In c (cands np) <-> In c (cands p) /\ ~ In c (elected_in st ++ eliminated_in st)) /\
  step_ctx p0 np st.
Proof.
  destruct stv_step_summary as (Hperm & Hwfn & Hst & _).
  rewrite app_assoc in Hperm.
  assert (Hnd : NoDup ((elected_in st ++ eliminated_in st) ++ cands np)).
  { eapply Permutation_NoDup; [apply Permutation_sym; exact Hperm|apply Hwf]. }
  destruct (NoDup_app_inv _ _ Hnd) as (Hnd1 & Hnd2 & Hdis).
  assert (Hin : forall c, In c ((elected_in st ++ eliminated_in st) ++ cands np) <-> In c (cands p)).
  { intros c. split; intros H; [eapply Permutation_in; [exact Hperm|exact H]|].
    eapply Permutation_in; [apply Permutation_sym; exact Hperm|exact H]. }
  split; [exact Hwfn|]. split; [exact Hst|]. split; [exact Hnd1|]. split.
  { intros c Hc. apply Hin. apply in_or_app. left. exact Hc. }
  split; [exact Hnd2|]. split.
  { intros c. split.
    - intros Hc. split; [apply Hin; apply in_or_app; right; exact Hc|].
      intros Hc'. apply (Hdis c Hc' Hc).
    - intros [Hc Hn]. apply Hin in Hc. apply in_app_or in Hc. destruct Hc as [Hc|Hc]; [contradiction|exact Hc]. }
  constructor.
  - apply Hctx.
  - intros c Hc. apply (ctx_sub cand ceqb p0 p prev Hctx). apply Hin. apply in_or_app. right. exact Hc.
  - exact Hwfn.
  - exact Hst.
Qed.

End Step.

(* ====================== F: the invariant ====================== *)

Lemma is_integral_inject : forall z, is_integral (inject_Z z) = true.
Proof.
  intros z. unfold is_integral, Qtrunc. cbn [inject_Z Qnum Qden]. rewrite Z.quot_1_r.
  apply Qeq_bool_iff. reflexivity.
Qed.

Lemma total_wt_nonneg : forall p, wf_stv0 p -> 0 <= total_wt (ballots p).
Proof.
  intros p [_ H]. unfold Core.total_wt. apply Lib_sets.qsum_nonneg. apply Forall_forall.
  intros x Hx. apply in_map_iff in Hx. destruct Hx as (b & <- & Hb). rewrite Forall_forall in H.
  apply Qlt_le_weak. apply (H b Hb).
Qed.

Lemma initial_state_inv : forall (p : profile) s0, initial_state p = inl s0 ->
  state_of p s0 /\ elected s0 = no_group /\ eliminated s0 = no_group.
Proof.
  intros p s0 H. unfold STV.initial_state, rbind in H.
  destruct (first_place_votes p) as [d|e] eqn:E; [|discriminate]. injection H as <-.
  split; [split; [exact E|reflexivity]|]. split; reflexivity.
Qed.

Theorem stv_inv_init : forall cfg (p0 : profile) t s0,
  wf_stv0 p0 -> stv_init cfg p0 = inl t -> initial_state p0 = inl s0 ->
  stv_inv cfg t (total_wt (ballots p0)) p0 p0 [s0].
Proof.
  intros cfg p0 t s0 Hwf Hinit Hs0.
  destruct (initial_state_inv p0 s0 Hs0) as (Hst & Hel & Helim).
  assert (Hctx : step_ctx p0 p0 s0) by (constructor; [exact Hwf|apply incl_refl|exact Hwf|exact Hst]).
  pose proof (threshold_value cand cfg p0 t Hinit (total_wt_nonneg p0 Hwf)) as [Hm Hq]. cbv zeta in Hm, Hq.
  assert (HE : elected_in s0 = []) by (unfold STVSpec.elected_in; rewrite Hel; reflexivity).
  assert (HX : eliminated_in s0 = []) by (unfold STVSpec.eliminated_in; rewrite Helim; reflexivity).
  constructor.
  - exists s0, []. split; [reflexivity|exact Hctx].
  - cbn [STVSpec.hist_ok]. split; [|exact I].
    unfold STVSpec.all_elected, STVSpec.all_eliminated. cbn [map concat]. rewrite HE, HX.
    cbn [app]. rewrite !app_nil_r. apply (ctx_flat_perm cand ceqb p0 p0 s0 Hctx).
  - rewrite count_elected_all. unfold STVSpec.all_elected. cbn [map concat]. rewrite HE. cbn. lia.
  - intros _. right. rewrite count_elected_all. unfold STVSpec.all_elected. cbn [map concat].
    rewrite HE. cbn [app length Z.of_nat]. change (inject_Z 0) with 0. lra.
  - destruct (s_quota cfg); [|apply Hq|destruct Hq]. destruct Hq as (_ & _ & H1). lra.
  - destruct (s_quota cfg); [| |destruct Hq]; destruct Hq as (-> & _); apply is_integral_inject.
Qed.

Lemma perm_step_both : forall (E X AE R R' AX C : list cand),
  Permutation (E ++ X ++ R') R -> Permutation (AE ++ R ++ AX) C ->
  Permutation ((E ++ AE) ++ R' ++ (X ++ AX)) C.
Proof.
  intros E X AE R R' AX C H1 H2.
  eapply Permutation_trans; [|apply (perm_step_el E AE R (X ++ R') AX C H1 H2)].
  apply Permutation_app_head. rewrite <- app_assoc. apply Permutation_app_swap_app.
Qed.

Lemma Permutation_length3 : forall (a b c d : list cand), Permutation (a ++ b ++ c) d ->
  (length a + length b + length c = length d)%nat.
Proof. intros a b c d H. apply Permutation_length in H. rewrite !app_length in H. lia. Qed.

Theorem stv_inv_step : forall cfg t N (p0 p : profile) prev older (s s' : mstate) np st,
  stv_inv cfg t N p0 p (prev :: older) ->
  (s_transfer cfg = TRandom -> script_ok s) ->
  stv_step cfg t p0 (count_elected (prev :: older)) p prev s = inl ((np, st), s') ->
  stv_inv cfg t N p0 np (st :: prev :: older) /\ scr_suffix s s'.
Proof.
  intros cfg t N p0 p prev older s s' np st Hinv Hscr Hstep.
  destruct Hinv as [(prev' & older' & Heq & Hctx) Hhist Henough Hweight Ht0 Htint].
  injection Heq as <- <-.
  pose proof (ctx_wf cand ceqb p0 p prev Hctx) as Hwf.
  destruct (stv_step_summary cfg t p0 p prev Hctx _ s s' np st Hscr Hstep) as (Hperm & Hwfn & Hst & Hsuf).
  destruct (stv_step_wf cfg t p0 p prev Hctx _ s s' np st Hscr Hstep) as (_ & _ & _ & _ & _ & _ & Hctx').
  split; [|exact Hsuf].
  pose proof (Permutation_length3 _ _ _ _ Hperm) as Hlen.
  destruct (stv_step_ok_inv cand ceqb ceqb_spec cfg t p0 p prev Hctx _ s s' np st Hscr Hstep)
    as [[_ (W & others & mvs & s1 & Hr)]|[(_ & Hcnt & _ & Hd)|(_ & Hcnt & x & Hx)]].
  - (* election *)
    pose proof Hr as Hr'.
    destruct Hr' as [HrW HrGroups HrNe HrNd HrPart HrReach HrElim HrChoice HrSuf HrTr HrNp HrWf HrSt HrRnd].
    assert (HE : elected_in st = W) by (unfold STVSpec.elected_in; rewrite flat_real_groups; exact HrW).
    assert (HX : eliminated_in st = []) by (unfold STVSpec.eliminated_in; rewrite HrElim; reflexivity).
    rewrite HE, HX in Hlen, Hperm. cbn [length] in Hlen.
    constructor.
    + exists st, (prev :: older). split; [reflexivity|exact Hctx'].
    + cbn [STVSpec.hist_ok] in Hhist |- *. split; [|exact Hhist].
      rewrite all_elected_cons, all_eliminated_cons, HE, HX. destruct Hhist as [Hh _].
      apply (perm_step_both W [] _ (flat (remaining prev)) _ _ _); [|exact Hh].
      eapply Permutation_trans; [|apply Permutation_sym, (ctx_flat_perm cand ceqb p0 p prev Hctx)].
      eapply Permutation_trans; [|exact Hperm]. apply Permutation_app_head. cbn [app].
      apply (ctx_flat_perm cand ceqb p0 np st Hctx').
    + rewrite count_elected_cons, HE. lia.
    + intros Hk. right. destruct (Hweight Hk) as [[Ecs _]|Hw].
      { exfalso. apply HrNe. destruct W as [|w W']; [reflexivity|].
        pose proof (er_W_in cand ceqb _ _ _ _ _ _ _ _ _ _ _ _ Hr w (or_introl eq_refl)) as Hin.
        rewrite Ecs in Hin. destruct Hin. }
      assert (Hb : total_wt (ballots np) <= total_wt (ballots p) - t * Qnat (length W)).
      { apply (elect_round_bound cand ceqb ceqb_spec cfg t p0 p prev st np s s' W others mvs s1 Hctx Hr Hk).
        intros Hrand. split; [apply Hscr; exact Hrand|exact Htint]. }
      rewrite count_elected_cons, HE, inject_Z_plus. fold (Qnat (length W)). lra.
    + exact Ht0.
    + exact Htint.
  - (* default election *)
    destruct Hd as [-> Hel Helim Htb Hsc Hrem Hrnd].
    assert (HE : elected_in st = flat (remaining prev)).
    { unfold STVSpec.elected_in. rewrite flat_real_groups, Hel. reflexivity. }
    assert (HX : eliminated_in st = []) by (unfold STVSpec.eliminated_in; rewrite Helim; reflexivity).
    rewrite HE, HX in Hlen, Hperm. cbn [length cands STV.empty_profile] in Hlen.
    constructor.
    + exists st, (prev :: older). split; [reflexivity|exact Hctx'].
    + cbn [STVSpec.hist_ok] in Hhist |- *. split; [|exact Hhist].
      rewrite all_elected_cons, all_eliminated_cons, HE, HX. destruct Hhist as [Hh _].
      apply (perm_step_both (flat (remaining prev)) [] _ (flat (remaining prev)) _ _ _); [|exact Hh].
      rewrite Hrem. cbn [app]. unfold Core.flat at 2. cbn [concat app]. rewrite app_nil_r. apply Permutation_refl.
    + rewrite count_elected_cons, HE. cbn [cands STV.empty_profile length]. lia.
    + intros _. left. split; reflexivity.
    + exact Ht0.
    + exact Htint.
  - (* elimination *)
    pose proof Hx as Hx'.
    destruct Hx' as [HxIn HxLow HxSuf HxEl HxElim HxNp HxWf HxSt HxRnd].
    assert (HE : elected_in st = []) by (unfold STVSpec.elected_in; rewrite HxEl; reflexivity).
    assert (HX : eliminated_in st = [x]) by (unfold STVSpec.eliminated_in; rewrite HxElim; reflexivity).
    rewrite HE, HX in Hlen, Hperm. cbn [length] in Hlen.
    constructor.
    + exists st, (prev :: older). split; [reflexivity|exact Hctx'].
    + cbn [STVSpec.hist_ok] in Hhist |- *. split; [|exact Hhist].
      rewrite all_elected_cons, all_eliminated_cons, HE, HX. destruct Hhist as [Hh _].
      apply (perm_step_both [] [x] _ (flat (remaining prev)) _ _ _); [|exact Hh].
      eapply Permutation_trans; [|apply Permutation_sym, (ctx_flat_perm cand ceqb p0 p prev Hctx)].
      eapply Permutation_trans; [|exact Hperm]. cbn [app]. constructor.
      apply (ctx_flat_perm cand ceqb p0 np st Hctx').
    + rewrite count_elected_cons, HE. cbn [length]. lia.
    + intros Hk. right. destruct (Hweight Hk) as [[Ecs _]|Hw].
      { rewrite Ecs in HxIn. destruct HxIn. }
      pose proof (elim_round_monotone cand ceqb p0 p prev st np s s' x Hwf Hx) as Hm.
      rewrite count_elected_cons, HE. cbn [length Z.of_nat Z.add]. lra.
    + exact Ht0.
    + exact Htint.
Qed.

(* ====================== errors of a round never include EFuel ====================== *)

Lemma do_transfer_err_kind : forall k w fpv (bs : list ballot) t (s : mstate) e,
  do_transfer cand ceqb k w fpv bs t s = inr e ->
  e = EZeroDiv \/ e = EType \/ e = EValue \/ e = EScript.
Proof.
  intros k w fpv bs t s e H. destruct k; cbn [STV.do_transfer] in H.
  - unfold mlift in H. destruct (frac_transfer cand ceqb w fpv bs t) as [a|e'] eqn:E; [discriminate|].
    injection H as <-. destruct (frac_errors cand ceqb w fpv bs t) as (_ & _ & Hk).
    destruct (Hk e' E) as [Hx|Hx]; rewrite Hx; auto.
  - destruct (rand_errors cand ceqb w fpv bs t s) as (_ & _ & Hk).
    destruct (Hk e H) as [Hx|[Hx|Hx]]; rewrite Hx; auto.
  - discriminate.
Qed.

Theorem stv_step_err_kinds : forall cfg t (p0 p : profile) prev n (s : mstate) e,
  step_ctx p0 p prev -> (s_transfer cfg = TRandom -> script_ok s) ->
  stv_step cfg t p0 n p prev s = inr e ->
  e = EValue \/ e = EScript \/ e = EZeroDiv \/ e = EType \/ e = EIndex.
Proof.
  intros cfg t p0 p prev n s e Hctx Hscr H.
  destruct (stv_step_err_inv cand ceqb ceqb_spec cfg t p0 p prev Hctx n s e Hscr H)
    as [(_ & _ & g & rest & _ & _ & Hcase)|[(w & s1 & _ & _ & _ & Hd)|[(_ & low & Ht)|(_ & He & _)]]].
  - destruct Hcase as [[_ He]|(kind & _ & Ht)]; [auto|].
    destruct (tiebreak_set_err cand ceqb ceqb_spec g p kind s e (ctx_wf cand ceqb p0 p prev Hctx) Ht)
      as [He|[_ He]]; auto.
  - destruct (do_transfer_err_kind _ _ _ _ _ _ _ Hd) as [He|[He|[He|He]]]; auto.
  - destruct (tiebreak_set_err cand ceqb ceqb_spec low p0 TBFirstPlace s e (ctx_p0 cand ceqb p0 p prev Hctx) Ht)
      as [He|[E _]]; [auto|discriminate].
  - auto 6.
Qed.

(* ====================== the loop ====================== *)

Notation stv_loop_unfold := (stv_loop_unfold cand ceqb).

Theorem stv_loop_inv : forall fuel cfg t N (p0 p : profile) sts (s s' : mstate) out,
  stv_inv cfg t N p0 p sts -> (s_transfer cfg = TRandom -> script_ok s) ->
  stv_loop fuel cfg t p0 p sts s = inl (out, s') ->
  exists pf stsf, stv_inv cfg t N p0 pf stsf /\ out = rev stsf /\ count_elected stsf = s_m cfg /\
    scr_suffix s s'.
Proof.
  induction fuel as [|fuel IH]; intros cfg t N p0 p sts s s' out Hinv Hscr H;
    rewrite stv_loop_unfold in H.
  - destruct (Z.eqb (count_elected sts) (s_m cfg)) eqn:E; [|discriminate].
    injection H as <- <-. exists p, sts. split; [exact Hinv|]. split; [reflexivity|].
    split; [apply Z.eqb_eq; exact E|apply scr_suffix_refl].
  - destruct (Z.eqb (count_elected sts) (s_m cfg)) eqn:E.
    + injection H as <- <-. exists p, sts. split; [exact Hinv|]. split; [reflexivity|].
      split; [apply Z.eqb_eq; exact E|apply scr_suffix_refl].
    + destruct sts as [|prev older]; [discriminate|].
      destruct (stv_step cfg t p0 (count_elected (prev :: older)) p prev s) as [[[np st] s1]|e] eqn:Es;
        [|discriminate].
      destruct (stv_inv_step cfg t N p0 p prev older s s1 np st Hinv Hscr Es) as [Hinv' Hsuf].
      destruct (IH cfg t N p0 np (st :: prev :: older) s1 s' out Hinv') as (pf & stsf & H1 & H2 & H3 & H4).
      * intros Hk. apply (script_ok_suffix cand s s1 Hsuf). apply Hscr. exact Hk.
      * exact H.
      * exists pf, stsf. split; [exact H1|]. split; [exact H2|]. split; [exact H3|].
        eapply scr_suffix_trans; eassumption.
Qed.

(* H: the fuel |cands|+2 is never exhausted *)
Theorem stv_loop_no_fuel : forall fuel cfg t N (p0 p : profile) sts (s : mstate),
  stv_inv cfg t N p0 p sts -> (s_transfer cfg = TRandom -> script_ok s) ->
  (length (cands p) + 1 <= fuel)%nat ->
  stv_loop fuel cfg t p0 p sts s <> inr EFuel.
Proof.
  induction fuel as [|fuel IH]; intros cfg t N p0 p sts s Hinv Hscr Hf; [lia|].
  rewrite stv_loop_unfold.
  destruct (Z.eqb (count_elected sts) (s_m cfg)) eqn:E; [discriminate|].
  destruct Hinv as [(prev & older & -> & Hctx) Hhist Henough Hweight Ht0 Htint].
  assert (Hinv : stv_inv cfg t N p0 p (prev :: older)).
  { constructor; try assumption. exists prev, older. split; [reflexivity|exact Hctx]. }
  destruct (stv_step cfg t p0 (count_elected (prev :: older)) p prev s) as [[[np st] s1]|e] eqn:Es.
  - destruct (stv_inv_step cfg t N p0 p prev older s s1 np st Hinv Hscr Es) as [Hinv' Hsuf].
    assert (Hscr1 : s_transfer cfg = TRandom -> script_ok s1).
    { intros Hk. apply (script_ok_suffix cand s s1 Hsuf). apply Hscr. exact Hk. }
    destruct (stv_step_summary cfg t p0 p prev Hctx _ s s1 np st Hscr Es) as (Hperm & _ & _ & _).
    pose proof (Permutation_length3 _ _ _ _ Hperm) as Hlen.
    destruct (stv_step_ok_inv cand ceqb ceqb_spec cfg t p0 p prev Hctx _ s s1 np st Hscr Es)
      as [[_ (W & others & mvs & s2 & Hr)]|[(_ & Hcnt & _ & Hd)|(_ & Hcnt & x & Hx)]].
    + destruct Hr as [HrW _ HrNe _ _ _ _ _ _ _ _ _ _ _].
      assert (HE : elected_in st = W) by (unfold STVSpec.elected_in; rewrite flat_real_groups; exact HrW).
      rewrite HE in Hlen. apply (IH cfg t N p0 np _ s1 Hinv' Hscr1).
      destruct W as [|w W']; [contradiction HrNe; reflexivity|]. cbn [length] in Hlen. lia.
    + (* default election: the count is complete *)
      destruct Hd as [_ Hel _ _ _ _ _].
      assert (HE : elected_in st = flat (remaining prev)).
      { unfold STVSpec.elected_in. rewrite flat_real_groups, Hel. reflexivity. }
      rewrite stv_loop_unfold, count_elected_cons, HE.
      rewrite (Permutation_length (ctx_flat_perm cand ceqb p0 p prev Hctx)).
      assert (Em : (Z.of_nat (length (cands p)) + count_elected (prev :: older) =? s_m cfg)%Z = true)
        by (apply Z.eqb_eq; lia).
      rewrite Em. discriminate.
    + destruct Hx as [_ _ _ _ HxElim _ _ _ _].
      assert (HX : eliminated_in st = [x]) by (unfold STVSpec.eliminated_in; rewrite HxElim; reflexivity).
      rewrite HX in Hlen. cbn [length] in Hlen. apply (IH cfg t N p0 np _ s1 Hinv' Hscr1). lia.
  - intros Hfuel. injection Hfuel as ->.
    destruct (stv_step_err_kinds cfg t p0 p prev _ s EFuel Hctx Hscr Es) as [H|[H|[H|[H|H]]]]; discriminate.
Qed.

(* ====================== run_stv ====================== *)

Lemma stv_validate_ok : forall p, wf_stv0 p -> stv_validate cand p = inl tt.
Proof.
  intros p [_ Hwf]. unfold STV.stv_validate. apply rfirst_err_ok_inv. intros b Hb.
  rewrite Forall_forall in Hwf. destruct (Hwf b Hb) as (Hne & Hs & _).
  destruct (rk b) as [|g r] eqn:E; [contradiction Hne; reflexivity|].
  assert (Hex : existsb (fun s0 : list cand => Nat.ltb 1 (length s0)) (g :: r) = false).
  { destruct (existsb (fun s0 : list cand => Nat.ltb 1 (length s0)) (g :: r)) eqn:Ex; [|reflexivity].
    apply existsb_exists in Ex. destruct Ex as (g0 & Hg0 & Hl). rewrite Forall_forall in Hs.
    rewrite (Hs g0 Hg0) in Hl. discriminate. }
  cbv beta iota. rewrite Hex. reflexivity.
Qed.

Notation integral_weights := (integral_weights cand).

Lemma integral_weights_forallb : forall p : profile,
  integral_weights p <-> forallb (fun b => is_integral (wt b)) (ballots p) = true.
Proof.
  intros p. unfold STVSpec.integral_weights. rewrite Forall_forall, forallb_forall. reflexivity.
Qed.

(* the errors of the constructor on a valid profile, in order: (since the up-front check of the
   random transfer) TypeError for a non-integral weight under the random transfer, else ValueError
   for the seat count or the quota name *)
Lemma stv_init_err_gen : forall cfg p e, wf_stv0 p -> stv_init cfg p = inr e ->
  (e = EType /\ s_transfer cfg = TRandom /\ ~ integral_weights p) \/
  (e = EValue /\ (s_transfer cfg = TRandom -> integral_weights p) /\
   (~ (1 <= s_m cfg <= Z.of_nat (length (cands p)))%Z \/ s_quota cfg = QBad)).
Proof.
  intros cfg p e Hwf H. unfold STV.stv_init, rbind in H. rewrite (stv_validate_ok p Hwf) in H.
  destruct (is_trandom (s_transfer cfg) &&
            negb (forallb (fun b => is_integral (wt b)) (ballots p))) eqn:Ec.
  { left. injection H as <-. apply andb_true_iff in Ec. destruct Ec as [Ec1 Ec2].
    apply negb_true_iff in Ec2. split; [reflexivity|]. split.
    - destruct (s_transfer cfg); try discriminate. reflexivity.
    - intros Hi. apply integral_weights_forallb in Hi. congruence. }
  right.
  assert (Hint : s_transfer cfg = TRandom -> integral_weights p).
  { intros Ht. rewrite Ht in Ec. cbn [is_trandom andb] in Ec. apply negb_false_iff in Ec.
    apply integral_weights_forallb. exact Ec. }
  destruct ((s_m cfg <=? 0)%Z || (Z.of_nat (length (cands p)) <? s_m cfg)%Z) eqn:E.
  - injection H as <-. split; [reflexivity|]. split; [exact Hint|]. left. apply orb_true_iff in E.
    destruct E as [E|E]; [apply Z.leb_le in E|apply Z.ltb_lt in E]; lia.
  - unfold threshold in H. destruct (s_quota cfg); try discriminate. injection H as <-.
    split; [reflexivity|]. split; [exact Hint|]. right. reflexivity.
Qed.

(* with a deterministic transfer, or integral weights, only the ValueErrors remain *)
Lemma stv_init_err : forall cfg p e, wf_stv0 p ->
  (s_transfer cfg = TRandom -> integral_weights p) -> stv_init cfg p = inr e ->
  e = EValue /\ (~ (1 <= s_m cfg <= Z.of_nat (length (cands p)))%Z \/ s_quota cfg = QBad).
Proof.
  intros cfg p e Hwf Hint H.
  destruct (stv_init_err_gen cfg p e Hwf H) as [(_ & Ht & Hn)|(He & _ & Hc)].
  - exfalso. apply Hn. apply Hint. exact Ht.
  - split; assumption.
Qed.

(* success of the constructor with the random transfer implies integral weights *)
Lemma stv_init_ok_integral : forall cfg (p : profile) t, stv_init cfg p = inl t ->
  s_transfer cfg = TRandom -> integral_weights p.
Proof.
  intros cfg p t H Ht. apply integral_weights_forallb.
  exact (stv_init_random_integral cand cfg p t H Ht).
Qed.

Lemma initial_state_ok : forall p, wf_stv0 p -> exists s0, initial_state p = inl s0.
Proof.
  intros p Hwf. unfold STV.initial_state, rbind.
  destruct (fpv_succeeds cand ceqb ceqb_spec p Hwf) as [d Hd]. rewrite Hd. eexists. reflexivity.
Qed.

Notation run_stv_unfold := (run_stv_unfold cand ceqb).

Theorem run_stv_inv : forall cfg (p : profile) (s s' : mstate) out,
  wf_stv0 p -> (s_transfer cfg = TRandom -> script_ok s) ->
  run_stv cfg p s = inl (out, s') ->
  exists t pf stsf, stv_init cfg p = inl t /\
    stv_inv cfg t (total_wt (ballots p)) p pf stsf /\ out = rev stsf /\
    count_elected stsf = s_m cfg.
Proof.
  intros cfg p s s' out Hwf Hscr H. rewrite run_stv_unfold in H.
  destruct (stv_init cfg p) as [t|e] eqn:Ei; [|discriminate].
  destruct (initial_state p) as [s0|e] eqn:E0; [|discriminate].
  pose proof (stv_inv_init cfg p t s0 Hwf Ei E0) as Hinv.
  destruct (stv_loop_inv _ cfg t _ p p [s0] s s' out Hinv Hscr H) as (pf & stsf & H1 & H2 & H3 & _).
  exists t, pf, stsf. split; [reflexivity|]. split; [exact H1|]. split; [exact H2|exact H3].
Qed.

Theorem run_stv_no_fuel : forall cfg (p : profile) (s : mstate),
  wf_stv0 p -> (s_transfer cfg = TRandom -> script_ok s) -> run_stv cfg p s <> inr EFuel.
Proof.
  intros cfg p s Hwf Hscr. rewrite run_stv_unfold.
  destruct (stv_init cfg p) as [t|e] eqn:Ei.
  - destruct (initial_state_ok p Hwf) as [s0 E0]. rewrite E0.
    apply (stv_loop_no_fuel _ cfg t (total_wt (ballots p)) p p [s0] s (stv_inv_init cfg p t s0 Hwf Ei E0) Hscr).
    lia.
  - destruct (stv_init_err_gen cfg p e Hwf Ei) as [(-> & _)|(-> & _)]; discriminate.
Qed.

(* ====================== G: the recorded rounds ====================== *)

Lemma hist_app : forall p0 l1 l2, hist_ok p0 (l1 ++ l2) -> hist_ok p0 l2.
Proof.
  intros p0 l1 l2. induction l1 as [|a l1 IH]; intros H; [exact H|].
  apply IH. cbn [app STVSpec.hist_ok] in H. apply H.
Qed.

Lemma concat_rev_perm : forall {A} (l : list (list A)), Permutation (concat (rev l)) (concat l).
Proof.
  intros A l. induction l as [|a l IH]; [constructor|]. cbn [rev concat].
  rewrite concat_app. cbn [concat]. rewrite app_nil_r.
  eapply Permutation_trans; [apply Permutation_app_comm|]. apply Permutation_app_head. exact IH.
Qed.

Lemma concat_map_perm : forall {A B} (f g : A -> list B) (l : list A),
  (forall x, Permutation (f x) (g x)) -> Permutation (concat (map f l)) (concat (map g l)).
Proof.
  intros A B f g l H. induction l as [|a l IH]; [constructor|]. cbn [map concat].
  apply Permutation_app; [apply H|exact IH].
Qed.

Lemma elected_upto_rev : forall (a : list estate) st,
  Permutation (flat (elected_upto cand (a ++ [st]) (length a))) (all_elected (st :: rev a)).
Proof.
  intros a st. unfold STVSpec.elected_upto.
  assert (E : firstn (S (length a)) (a ++ [st]) = a ++ [st]).
  { apply firstn_all2. rewrite app_length. cbn [length]. lia. }
  rewrite E, flat_concat_map. unfold STVSpec.all_elected.
  change (fun x : estate => flat (real_groups (elected x))) with elected_in.
  replace (st :: rev a) with (rev (a ++ [st])) by (rewrite rev_app_distr; reflexivity).
  rewrite map_rev. apply Permutation_sym. apply concat_rev_perm.
Qed.

Lemma firstn_app_exact : forall {A} (a b : list A) x, firstn (S (length a)) (a ++ x :: b) = a ++ [x].
Proof.
  intros A a b x. induction a as [|y a IH]; [reflexivity|]. simpl. f_equal. exact IH.
Qed.

Theorem hist_partition : forall p0 (stsf : list estate) r st, hist_ok p0 stsf ->
  nth_error (rev stsf) r = Some st ->
  Permutation (flat (elected_upto cand (rev stsf) r) ++ flat (remaining st) ++
               flat (eliminated_upto cand (rev stsf) r)) (cands p0).
Proof.
  intros p0 stsf r st Hh Hn. apply nth_error_split in Hn. destruct Hn as (a & b & Hout & Hlen).
  assert (Hsts : stsf = rev b ++ st :: rev a).
  { rewrite <- (rev_involutive stsf), Hout, rev_app_distr. cbn [rev]. rewrite <- app_assoc. reflexivity. }
  rewrite Hsts in Hh. apply hist_app in Hh. cbn [STVSpec.hist_ok] in Hh. destruct Hh as [Hh _].
  eapply Permutation_trans; [|exact Hh]. rewrite Hout, <- Hlen.
  unfold STVSpec.elected_upto, STVSpec.eliminated_upto. rewrite firstn_app_exact.
  apply Permutation_app; [|apply Permutation_app_head].
  - pose proof (elected_upto_rev a st) as H. unfold STVSpec.elected_upto in H.
    assert (E : firstn (S (length a)) (a ++ [st]) = a ++ [st]).
    { apply firstn_all2. rewrite app_length. cbn [length]. lia. }
    rewrite E in H. exact H.
  - rewrite rev_app_distr. cbn [rev app]. rewrite flat_concat_map. unfold STVSpec.all_eliminated.
    apply concat_map_perm. intros x. unfold STVSpec.eliminated_in, Core.flat.
    apply concat_rev_perm.
Qed.

Lemma firstn_le_app : forall {A} (l : list A) i j, (i <= j)%nat ->
  exists ext, firstn j l = firstn i l ++ ext.
Proof.
  intros A l i j H. exists (firstn (j - i) (skipn i l)).
  replace j with (i + (j - i))%nat at 1 by lia. apply firstn_add_skipn.
Qed.

Theorem elected_upto_mono : forall (out : list estate) r r' c, (r <= r')%nat ->
  In c (flat (elected_upto cand out r)) -> In c (flat (elected_upto cand out r')).
Proof.
  intros out r r' c Hle H. unfold STVSpec.elected_upto in *.
  destruct (firstn_le_app out (S r) (S r')) as [ext E]; [lia|].
  rewrite E, map_app, concat_app, (flat_app cand). apply in_or_app. left. exact H.
Qed.

Theorem eliminated_upto_mono : forall (out : list estate) r r' c, (r <= r')%nat ->
  In c (flat (eliminated_upto cand out r)) -> In c (flat (eliminated_upto cand out r')).
Proof.
  intros out r r' c Hle H. unfold STVSpec.eliminated_upto in *.
  destruct (firstn_le_app out (S r) (S r')) as [ext E]; [lia|].
  rewrite E, rev_app_distr, map_app, concat_app, (flat_app cand). apply in_or_app. right. exact H.
Qed.

Lemma all_elected_rev : forall sts : list estate, Permutation (all_elected (rev sts)) (all_elected sts).
Proof. intros sts. unfold STVSpec.all_elected. rewrite map_rev. apply concat_rev_perm. Qed.

Lemma count_elected_rev : forall sts, count_elected (rev sts) = count_elected sts.
Proof.
  intros sts. rewrite !count_elected_all. f_equal. apply Permutation_length. apply all_elected_rev.
Qed.

Lemma hist_elected_nodup : forall p0 sts, NoDup (cands p0) -> hist_ok p0 sts -> NoDup (all_elected sts).
Proof.
  intros p0 sts Hnd H. destruct sts as [|st older]; [constructor|].
  cbn [STVSpec.hist_ok] in H. destruct H as [H _].
  apply (Permutation_NoDup (Permutation_sym H)) in Hnd. apply (NoDup_app_inv _ _ Hnd).
Qed.

(* the three statements of C01 on a finished STV count *)
Theorem run_stv_outcome : forall cfg (p : profile) (s s' : mstate) out,
  wf_stv0 p -> (s_transfer cfg = TRandom -> script_ok s) ->
  run_stv cfg p s = inl (out, s') ->
  (forall r st, nth_error out r = Some st ->
     Permutation (flat (elected_upto cand out r) ++ flat (remaining st) ++ flat (eliminated_upto cand out r))
                 (cands p)) /\
  count_elected out = s_m cfg /\ NoDup (all_elected out).
Proof.
  intros cfg p s s' out Hwf Hscr H.
  destruct (run_stv_inv cfg p s s' out Hwf Hscr H) as (t & pf & stsf & _ & Hinv & -> & Hcnt).
  destruct Hinv as [_ Hhist _ _ _ _]. split; [|split].
  - intros r st Hn. apply (hist_partition p stsf r st Hhist Hn).
  - rewrite count_elected_rev. exact Hcnt.
  - eapply Permutation_NoDup; [apply Permutation_sym, all_elected_rev|].
    apply (hist_elected_nodup p stsf (proj1 Hwf) Hhist).
Qed.

Theorem run_stv_partition : forall cfg (p : profile) (s s' : mstate) out,
  wf_stv0 p -> (s_transfer cfg = TRandom -> script_ok s) ->
  run_stv cfg p s = inl (out, s') ->
  forall r st, nth_error out r = Some st ->
    Permutation (flat (elected_upto cand out r) ++ flat (remaining st) ++ flat (eliminated_upto cand out r))
                (cands p).
Proof. intros cfg p s s' out Hwf Hscr H. apply (run_stv_outcome cfg p s s' out Hwf Hscr H). Qed.

Theorem run_stv_count : forall cfg (p : profile) (s s' : mstate) out,
  wf_stv0 p -> (s_transfer cfg = TRandom -> script_ok s) ->
  run_stv cfg p s = inl (out, s') ->
  count_elected out = s_m cfg /\ NoDup (all_elected out).
Proof. intros cfg p s s' out Hwf Hscr H. apply (run_stv_outcome cfg p s s' out Hwf Hscr H). Qed.

(* the cumulative lists are what Election.get_elected / get_eliminated / get_remaining return *)
Lemma norm_index_nat : forall n r, (r < n)%nat -> norm_index n (Z.of_nat r) = inl r.
Proof.
  intros n r H. unfold norm_index.
  assert (E1 : (Z.of_nat r <? - Z.of_nat n)%Z = false) by (apply Z.ltb_ge; lia).
  assert (E2 : (Z.of_nat n - 1 <? Z.of_nat r)%Z = false) by (apply Z.ltb_ge; lia).
  rewrite E1, E2. cbn [orb]. unfold ok. f_equal. rewrite Z.mod_small by lia. apply Nat2Z.id.
Qed.

Theorem queries_upto : forall (sts : list estate) r, (r < length sts)%nat ->
  get_elected cand sts (Z.of_nat r) = inl (elected_upto cand sts r) /\
  get_eliminated cand sts (Z.of_nat r) = inl (eliminated_upto cand sts r) /\
  exists st, nth_error sts r = Some st /\ get_remaining cand sts (Z.of_nat r) = inl (remaining st).
Proof.
  intros sts r H. unfold get_elected, get_eliminated, get_remaining, rbind.
  rewrite (norm_index_nat _ _ H). split; [reflexivity|]. split; [reflexivity|].
  destruct (nth_error sts r) as [st|] eqn:E.
  - exists st. split; reflexivity.
  - apply nth_error_None in E. lia.
Qed.

(* ====================== I: a Droop quota cannot be reached by too many ====================== *)

Lemma qsum_ge_const : forall {A} (f : A -> Q) (c : Q) (l : list A),
  (forall a, In a l -> c <= f a) -> c * Qnat (length l) <= qsum (map f l).
Proof.
  intros A f c l H. induction l as [|a l IH].
  - cbn [map length]. rewrite Lib_sets.qsum_nil. change (Qnat 0) with 0. lra.
  - cbn [map length]. rewrite Lib_sets.qsum_cons, Qnat_S.
    specialize (H a (or_introl eq_refl)) as Ha.
    assert (IH' := IH (fun b Hb => H b (or_intror Hb))). lra.
Qed.

(* candidates of the current profile that reach the threshold, and those already elected, have
   each a full threshold of the initial weight *)
Theorem reachers_bound : forall cfg t N (p0 p : profile) sts (W : cset),
  stv_inv cfg t N p0 p sts -> s_transfer cfg <> TFullWeight ->
  NoDup W -> incl W (cands p) -> W <> [] ->
  (forall w, In w W -> t <= tally w (ballots p)) ->
  t * inject_Z (Z.of_nat (length W) + count_elected sts) <= N.
Proof.
  intros cfg t N p0 p sts W Hinv Hk Hnd Hincl Hne Hreach.
  destruct Hinv as [(prev & older & -> & Hctx) _ _ Hweight _ _].
  pose proof (ctx_wf cand ceqb p0 p prev Hctx) as Hwf.
  destruct (Hweight Hk) as [[Ecs _]|Hw].
  { exfalso. destruct W as [|w W']; [apply Hne; reflexivity|].
    specialize (Hincl w (or_introl eq_refl)). rewrite Ecs in Hincl. destruct Hincl. }
  pose proof (app_set_diff_perm cand ceqb ceqb_spec W (cands p) Hnd (proj1 Hwf) Hincl) as Hperm.
  pose proof (tally_total cand ceqb ceqb_spec p Hwf) as Htot.
  rewrite <- (Lib_sets.qsum_perm _ _ (Permutation_map (fun c => tally c (ballots p)) Hperm)) in Htot.
  rewrite map_app, Lib_sets.qsum_app in Htot.
  assert (H0 : 0 <= qsum (map (fun c => tally c (ballots p)) (set_diff (cands p) W))).
  { apply Lib_sets.qsum_nonneg. apply Forall_forall. intros x Hx. apply in_map_iff in Hx.
    destruct Hx as (c & <- & _). apply tally_nonneg. intros b Hb.
    apply (ctx_bs_pos cand ceqb p0 p prev Hctx b Hb). }
  pose proof (qsum_ge_const (fun c => tally c (ballots p)) t W Hreach) as HW.
  rewrite inject_Z_plus. fold (Qnat (length W)). lra.
Qed.

Theorem droop_seats : forall cfg t N (p0 p : profile) sts (W : cset),
  stv_inv cfg t N p0 p sts -> s_transfer cfg <> TFullWeight ->
  N < inject_Z (s_m cfg + 1) * t -> 0 < t ->
  NoDup W -> incl W (cands p) ->
  (forall w, In w W -> t <= tally w (ballots p)) ->
  W <> [] -> (Z.of_nat (length W) + count_elected sts <= s_m cfg)%Z.
Proof.
  intros cfg t N p0 p sts W Hinv Hk HN Ht Hnd Hincl Hreach Hne.
  pose proof (reachers_bound cfg t N p0 p sts W Hinv Hk Hnd Hincl Hne Hreach) as Hb.
  assert (Hlt : inject_Z (Z.of_nat (length W) + count_elected sts) < inject_Z (s_m cfg + 1)).
  { apply (Qmult_lt_r _ _ t Ht). lra. }
  rewrite <- Zlt_Qlt in Hlt. lia.
Qed.

Section Droop.
Variable cfg : stv_cfg.
Variables t N : Q.
Variable p0 : profile.
Hypothesis Hk : s_transfer cfg <> TFullWeight.
Hypothesis HN : N < inject_Z (s_m cfg + 1) * t.
Hypothesis Ht : 0 < t.

(* no over-election: the number of elected candidates never exceeds m *)
Lemma droop_step_count : forall (p : profile) prev older (s s' : mstate) np st,
  stv_inv cfg t N p0 p (prev :: older) ->
  (s_transfer cfg = TRandom -> script_ok s) ->
  (count_elected (prev :: older) <= s_m cfg)%Z ->
  stv_step cfg t p0 (count_elected (prev :: older)) p prev s = inl ((np, st), s') ->
  (count_elected (st :: prev :: older) <= s_m cfg)%Z.
Proof.
  intros p prev older s s' np st Hinv Hscr Hle Hstep.
  pose proof Hinv as Hinv0.
  destruct Hinv as [(prev' & older' & Heq & Hctx) _ _ _ _ _]. injection Heq as <- <-.
  destruct (stv_step_ok_inv cand ceqb ceqb_spec cfg t p0 p prev Hctx _ s s' np st Hscr Hstep)
    as [[_ (W & others & mvs & s1 & Hr)]|[(_ & Hcnt & _ & Hd)|(_ & Hcnt & x & Hx)]].
  - pose proof Hr as Hr'.
    destruct Hr' as [HrW _ HrNe HrNd _ HrReach _ _ _ _ _ _ _ _].
    assert (HE : elected_in st = W) by (unfold STVSpec.elected_in; rewrite flat_real_groups; exact HrW).
    rewrite count_elected_cons, HE.
    apply (droop_seats cfg t N p0 p (prev :: older) W Hinv0 Hk HN Ht HrNd); [|exact HrReach|exact HrNe].
    intros c Hc. apply (er_W_in cand ceqb _ _ _ _ _ _ _ _ _ _ _ _ Hr c Hc).
  - destruct Hd as [_ Hel _ _ _ _ _].
    assert (HE : elected_in st = flat (remaining prev)).
    { unfold STVSpec.elected_in. rewrite flat_real_groups, Hel. reflexivity. }
    rewrite count_elected_cons, HE, (Permutation_length (ctx_flat_perm cand ceqb p0 p prev Hctx)). lia.
  - destruct Hx as [_ _ _ HxEl _ _ _ _ _].
    assert (HE : elected_in st = []) by (unfold STVSpec.elected_in; rewrite HxEl; reflexivity).
    rewrite count_elected_cons, HE. cbn [length]. lia.
Qed.

(* errors of a round under a Droop quota with a quota-preserving transfer *)
Definition droop_error (e : exn) : Prop :=
  e = EScript \/
  (e = EValue /\ s_simul cfg = false /\ (s_tiebreak cfg = None \/ s_tiebreak cfg = Some TBInvalid)) \/
  (s_transfer cfg = TRandom /\ (e = EType \/ e = EValue)).

Lemma droop_step_errors : forall (p : profile) prev older (s : mstate) e,
  stv_inv cfg t N p0 p (prev :: older) ->
  (s_transfer cfg = TRandom -> script_ok s) ->
  (count_elected (prev :: older) <= s_m cfg)%Z ->
  stv_step cfg t p0 (count_elected (prev :: older)) p prev s = inr e ->
  droop_error e.
Proof.
  intros p prev older s e Hinv Hscr Hle Hstep.
  destruct Hinv as [(prev' & older' & Heq & Hctx) _ Henough _ _ _]. injection Heq as <- <-.
  pose proof (ctx_wf cand ceqb p0 p prev Hctx) as Hwf.
  destruct (stv_step_err_inv cand ceqb ceqb_spec cfg t p0 p prev Hctx _ s e Hscr Hstep)
    as [(_ & Hsim & g & rest & _ & _ & Hcase)|[(w & s1 & Hw & Hreach & _ & Hd)|[(_ & low & Htb)|(_ & He & Ecs & Hm)]]].
  - destruct Hcase as [[Hnone He]|(kind & Hkind & Htb)].
    + right. left. split; [exact He|]. split; [exact Hsim|]. left. exact Hnone.
    + destruct (tiebreak_set_err cand ceqb ceqb_spec g p kind s e Hwf Htb) as [He|[Hinv He]].
      * left. exact He.
      * right. left. split; [exact He|]. split; [exact Hsim|]. right. rewrite Hkind, Hinv. reflexivity.
  - destruct (s_transfer cfg) eqn:Ek; cbn [STV.do_transfer] in Hd.
    + exfalso. unfold mlift in Hd.
      destruct (frac_transfer cand ceqb w _ (pile cand ceqb p w) t) as [a|e'] eqn:E; [discriminate|].
      injection Hd as ->.
      destruct (frac_errors cand ceqb w (lookup0 cand ceqb w (escores prev)) (pile cand ceqb p w) t)
        as (Hz & Hty & Hkinds).
      destruct (Hkinds e E) as [He|He]; subst e.
      * apply Hz in E. rewrite (proj2 (ctx_score cand ceqb ceqb_spec p0 p prev Hctx w Hw)) in E. lra.
      * apply Hty in E. destruct E as [_ (b & Hb & Hrk)]. apply pile_in in Hb.
        destruct Hwf as [_ Hwfb]. rewrite Forall_forall in Hwfb.
        apply (proj1 (Hwfb b (proj1 Hb))). exact Hrk.
    + destruct (rand_errors cand ceqb w (lookup0 cand ceqb w (escores prev)) (pile cand ceqb p w) t s1)
        as (_ & _ & Hkinds).
      destruct (Hkinds e Hd) as [He|[He|He]].
      * right. right. split; [exact Ek|left; exact He].
      * right. right. split; [exact Ek|right; exact He].
      * left. exact He.
    + contradiction Hk; reflexivity.
  - left. destruct (tiebreak_set_err cand ceqb ceqb_spec low p0 TBFirstPlace s e (ctx_p0 cand ceqb p0 p prev Hctx) Htb)
      as [He|[E _]]; [exact He|discriminate].
  - exfalso. rewrite Ecs in Henough. cbn [length] in Henough. lia.
Qed.

Theorem droop_loop_errors : forall fuel (p : profile) sts (s : mstate) e,
  stv_inv cfg t N p0 p sts -> (s_transfer cfg = TRandom -> script_ok s) ->
  (count_elected sts <= s_m cfg)%Z ->
  stv_loop fuel cfg t p0 p sts s = inr e -> e = EFuel \/ droop_error e.
Proof.
  induction fuel as [|fuel IH]; intros p sts s e Hinv Hscr Hle H; rewrite stv_loop_unfold in H.
  - destruct (Z.eqb (count_elected sts) (s_m cfg)); [discriminate|]. injection H as <-. left. reflexivity.
  - destruct (Z.eqb (count_elected sts) (s_m cfg)); [discriminate|].
    pose proof Hinv as Hinv0.
    destruct Hinv as [(prev & older & -> & Hctx) _ _ _ _ _].
    destruct (stv_step cfg t p0 (count_elected (prev :: older)) p prev s) as [[[np st] s1]|e'] eqn:Es.
    + destruct (stv_inv_step cfg t N p0 p prev older s s1 np st Hinv0 Hscr Es) as [Hinv' Hsuf].
      apply (IH np (st :: prev :: older) s1 e Hinv').
      * intros Hr. apply (script_ok_suffix cand s s1 Hsuf). apply Hscr. exact Hr.
      * apply (droop_step_count p prev older s s1 np st Hinv0 Hscr Hle Es).
      * exact H.
    + injection H as <-. right. apply (droop_step_errors p prev older s e' Hinv0 Hscr Hle Es).
Qed.

End Droop.

(* run level: with a Droop quota and the fractional (or random) transfer a valid profile never
   meets IndexError / ZeroDivisionError / non-termination; what can still go wrong is listed *)
Theorem droop_run_errors : forall cfg (p : profile) (s : mstate) e,
  wf_stv0 p -> s_quota cfg = QDroop -> s_transfer cfg <> TFullWeight ->
  (s_transfer cfg = TRandom -> script_ok s) ->
  run_stv cfg p s = inr e ->
  (e = EValue /\ ~ (1 <= s_m cfg <= Z.of_nat (length (cands p)))%Z) \/
  e = EScript \/
  (e = EValue /\ s_simul cfg = false /\ (s_tiebreak cfg = None \/ s_tiebreak cfg = Some TBInvalid)) \/
  (s_transfer cfg = TRandom /\ (e = EType \/ e = EValue)).
Proof.
  intros cfg p s e Hwf Hq Hk Hscr H.
  pose proof (run_stv_no_fuel cfg p s Hwf Hscr) as Hnf.
  rewrite run_stv_unfold in H, Hnf.
  destruct (stv_init cfg p) as [t|e0] eqn:Ei.
  - destruct (initial_state_ok p Hwf) as [s0 E0]. rewrite E0 in H, Hnf.
    pose proof (stv_inv_init cfg p t s0 Hwf Ei E0) as Hinv.
    pose proof (threshold_value cand cfg p t Ei (total_wt_nonneg p Hwf)) as [Hm Hqv].
    cbv zeta in Hm, Hqv. rewrite Hq in Hqv. destruct Hqv as (_ & HN & H1).
    assert (Hle : (count_elected [s0] <= s_m cfg)%Z).
    { destruct (initial_state_inv p s0 E0) as (_ & Hel & _).
      rewrite count_elected_all. unfold STVSpec.all_elected, STVSpec.elected_in. cbn [map concat].
      rewrite Hel. cbn. lia. }
    destruct (droop_loop_errors cfg t _ p Hk HN ltac:(lra) _ p [s0] s e Hinv Hscr Hle H) as [->|Hd].
    + exfalso. apply Hnf. exact H.
    + right. exact Hd.
  - injection H as <-.
    destruct (stv_init_err_gen cfg p e0 Hwf Ei) as [(-> & Ht & _)|(-> & _ & [Hm|Hb])].
    + right. right. right. split; [exact Ht|left; reflexivity].
    + left. split; [reflexivity|exact Hm].
    + rewrite Hq in Hb. discriminate.
Qed.

End WithCand.
