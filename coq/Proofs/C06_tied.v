(* Proofs/C06_tied.v — C06 on ranked ballots WITH tied positions and with ballots of weight zero
   ([tied_profile], Spec/PairwiseTiedSpec.v): what ballot_fill / head2head_count do on a tied
   position (the tied pair is counted for BOTH directions, so it cancels in the margin), the
   dictionary, the digraph, the dominating tiers and DominatingSets.  Builds on C06_pairwise
   (halving lemma, pairwise_entries), C06_tiers (tiers of a semi-complete digraph) and C08_pairwise
   (fillF, the total function behind fill_ballot). *)
From VK Require Import Base Core STV Pairwise Rules PairwiseSpec ScoreSpec PairwiseTiedSpec.
From VK.Proofs Require Import C12_expand Lib_rk Lib_sets C06_pairwise C06_tiers C08_pairwise.
From Coq Require Import Permutation Lia Lqa Setoid Morphisms Relations.

Section Tied.
Variable cand : Type.
Variable ceqb : cand -> cand -> bool.
Hypothesis ceqb_spec : forall a b, reflect (a = b) (ceqb a b).

Notation cset := (cset cand).
Notation ranking := (ranking cand).
Notation ballot := (ballot cand).
Notation profile := (profile cand).
Notation memb := (memb cand ceqb).
Notation flat := (flat cand).
Notation singletons := (singletons cand).
Notation perms := (perms cand).
Notation before := (before cand ceqb).
Notation prefers := (prefers cand ceqb).
Notation above := (above cand ceqb).
Notation together := (together cand ceqb).
Notation spref_share := (spref_share cand ceqb).
Notation spref_weight := (spref_weight cand ceqb).
Notation tie_share := (tie_share cand ceqb).
Notation tie_weight := (tie_weight cand ceqb).
Notation smargin := (smargin cand ceqb).
Notation sbeats := (sbeats cand ceqb).
Notation pw_ballot := (pw_ballot cand).
Notation tied_profile := (tied_profile cand).
Notation h2h := (h2h cand ceqb).
Notation h2h_term := (h2h_term cand ceqb).
Notation fillF := (fillF cand ceqb).
Notation ballot_fill := (ballot_fill cand ceqb).
Notation missing_singletons := (missing_singletons cand ceqb).
Notation pairwise_entries := (pairwise_entries cand ceqb).
Notation edge := (edge cand ceqb).
Notation tiers_of := (tiers_of cand ceqb).
Notation dominating_tiers := (dominating_tiers cand ceqb).
Notation has_condorcet_winner := (has_condorcet_winner cand ceqb).
Notation run_dominating := (run_dominating cand ceqb).

Local Notation memb_In := (Lib_sets.memb_In cand ceqb ceqb_spec).
Local Notation memb_false_iff := (Lib_sets.memb_false_iff cand ceqb ceqb_spec).

(* ------------------------------------------------------------------ *)
(** * [prefers], [above], [together] *)

Lemma memb_app : forall c (l1 l2 : cset), memb c (l1 ++ l2) = memb c l1 || memb c l2.
Proof. intros c l1 l2. unfold Core.memb. apply existsb_app. Qed.

Lemma prefers_app : forall a b (r1 r2 : ranking),
  prefers a b (r1 ++ r2) =
  if memb a (flat r1) || memb b (flat r1) then prefers a b r1 else prefers a b r2.
Proof.
  intros a b r1 r2. induction r1 as [|g r1 IH].
  - reflexivity.
  - cbn [app Pairwise.prefers]. rewrite (Lib_sets.flat_cons cand), !memb_app.
    destruct (memb a g); [reflexivity|]. destruct (memb b g).
    + cbn [orb]. rewrite orb_true_r. reflexivity.
    + cbn [orb]. exact IH.
Qed.

Lemma prefers_singletons_before : forall a b (o : list cand), prefers a b (singletons o) = before a b o.
Proof.
  intros a b o. rewrite (prefers_singletons cand ceqb).
  - rewrite (Lib_sets.flat_singletons cand). reflexivity.
  - apply (C06_pairwise.singletons_all_single cand).
Qed.

Lemma together_notin_r : forall a b (r : ranking), ~ In b (flat r) -> together a b r = false.
Proof.
  intros a b r. induction r as [|g r IH]; intros Hb; [reflexivity|].
  unfold PairwiseTiedSpec.together. cbn [existsb]. rewrite (Lib_sets.flat_cons cand) in Hb.
  assert (Hbg : memb b g = false).
  { apply memb_false_iff. intros H. apply Hb. apply in_or_app. left. exact H. }
  rewrite Hbg, andb_false_r. cbn [orb]. apply IH. intros H. apply Hb. apply in_or_app. right. exact H.
Qed.

Lemma together_sym : forall a b (r : ranking), together a b r = together b a r.
Proof.
  intros a b r. unfold PairwiseTiedSpec.together. induction r as [|g r IH]; [reflexivity|].
  cbn [existsb]. rewrite IH, (andb_comm (memb a g)). reflexivity.
Qed.

Lemma together_In : forall a b (r : ranking), together a b r = true -> In a (flat r) /\ In b (flat r).
Proof.
  intros a b r H. unfold PairwiseTiedSpec.together in H. apply existsb_exists in H.
  destruct H as [g [Hg H]]. apply andb_true_iff in H. destruct H as [Ha Hb].
  apply memb_In in Ha. apply memb_In in Hb.
  split; unfold Core.flat; apply in_concat_iff; exists g; split; assumption.
Qed.

Lemma above_In : forall a b (r : ranking), above a b r = true -> In a (flat r).
Proof.
  intros a b r. induction r as [|g r IH]; intros H; [discriminate|].
  cbn [PairwiseTiedSpec.above] in H. rewrite (Lib_sets.flat_cons cand). apply in_or_app.
  destruct (memb b g); [discriminate|]. destruct (memb a g) eqn:Ha.
  - left. apply memb_In. exact Ha.
  - right. apply IH. exact H.
Qed.

(* on a ranking that lists nobody twice: head2head_count counts the ballot for cand1 exactly when
   cand1 is strictly above cand2 OR shares cand2's position; never both *)
Lemma prefers_above_together : forall a b (r : ranking), NoDup (flat r) ->
  prefers a b r = above a b r || together a b r /\
  (above a b r = true -> together a b r = false).
Proof.
  intros a b r. induction r as [|g r IH]; intros Hnd.
  - split; [reflexivity|discriminate].
  - rewrite (Lib_sets.flat_cons cand) in Hnd.
    destruct (Lib_sets.NoDup_app_inv _ _ Hnd) as [_ [Hndr Hdisj]].
    destruct (IH Hndr) as [IH1 IH2].
    cbn [Pairwise.prefers PairwiseTiedSpec.above]. unfold PairwiseTiedSpec.together. cbn [existsb].
    fold (together a b r).
    destruct (memb a g) eqn:Ha; destruct (memb b g) eqn:Hb; cbn [andb orb].
    + split; [reflexivity|discriminate].
    + assert (Ht : together a b r = false).
      { rewrite together_sym. apply together_notin_r. intros H. apply memb_In in Ha.
        exact (Hdisj a Ha H). }
      rewrite Ht. split; reflexivity.
    + assert (Ht : together a b r = false).
      { apply together_notin_r. intros H. apply memb_In in Hb. exact (Hdisj b Hb H). }
      rewrite Ht. split; [reflexivity|discriminate].
    + split; [exact IH1|exact IH2].
Qed.

(* ------------------------------------------------------------------ *)
(** * [missing_singletons] on an arbitrary ranking *)

Lemma miss_sub : forall cs (r : ranking), incl (missing_singletons cs r) cs.
Proof. intros cs r c Hc. unfold Pairwise.missing_singletons in Hc. apply filter_In in Hc. tauto. Qed.

Lemma miss_NoDup : forall cs (r : ranking), NoDup cs -> NoDup (missing_singletons cs r).
Proof. intros cs r H. apply NoDup_filter. exact H. Qed.

(* a candidate that the ranking does not list is among the candidates appended by ballot_fill
   (so are the members of tied positions, but they occur earlier in the ballot) *)
Lemma miss_unlisted : forall cs (r : ranking) c, In c cs -> ~ In c (flat r) ->
  In c (missing_singletons cs r).
Proof.
  intros cs r c Hc Hn. unfold Pairwise.missing_singletons. apply filter_In. split; [exact Hc|].
  apply negb_true_iff. apply not_true_is_false. intros H. apply existsb_exists in H.
  destruct H as [s [Hs He]]. apply (Lib_sets.cset_eqb_iff cand ceqb ceqb_spec) in He.
  destruct He as [_ He]. apply Hn. unfold Core.flat. apply in_concat_iff. exists s.
  split; [exact Hs|]. apply He. left. reflexivity.
Qed.

(* ------------------------------------------------------------------ *)
(** * one ballot: what its completions contribute to head2head_count(a, b) *)

Lemma wf_ranking_len : forall cs (r : ranking), NoDup cs -> wf_ranking cand cs r ->
  (length r <= length (flat r) <= length cs)%nat.
Proof.
  intros cs r Hcs [_ [Hne [Hnd Hincl]]]. split.
  - clear Hnd Hincl. induction Hne as [|g r Hg _ IH]; [apply le_n|].
    rewrite (Lib_sets.flat_cons cand), app_length. cbn [length].
    destruct g as [|c g]; [congruence|]. cbn [length]. lia.
  - apply NoDup_incl_length; assumption.
Qed.

Lemma full_ranking_lists_all : forall cs (r : ranking), NoDup cs -> wf_ranking cand cs r ->
  Nat.ltb (length r) (length cs) = false -> incl cs (flat r).
Proof.
  intros cs r Hcs Hwf Hlt. apply Nat.ltb_ge in Hlt. pose proof (wf_ranking_len cs r Hcs Hwf) as Hl.
  destruct Hwf as [_ [_ [Hnd Hincl]]]. apply NoDup_length_incl; [exact Hnd|lia|exact Hincl].
Qed.

Lemma listed_share : forall a b (x : ballot), NoDup (flat (rk x)) ->
  memb a (flat (rk x)) || memb b (flat (rk x)) = true ->
  (if prefers a b (rk x) then wt x else 0) == spref_share a b x + tie_share a b x.
Proof.
  intros a b x Hnd Hl. destruct (prefers_above_together a b (rk x) Hnd) as [Hp Hex].
  unfold PairwiseTiedSpec.spref_share, PairwiseTiedSpec.tie_share. rewrite Hp, Hl.
  destruct (above a b (rk x)) eqn:Ea.
  - rewrite (Hex eq_refl). cbn [orb]. ring.
  - cbn [orb]. destruct (together a b (rk x)); ring.
Qed.

Theorem fill_h2h_tied : forall cs (x : ballot) a b, NoDup cs -> pw_ballot cs x ->
  In a cs -> In b cs -> a <> b ->
  qsum (map (h2h_term a b) (fillF cs x)) == spref_share a b x + tie_share a b x.
Proof.
  intros cs x a b Hcs [Hwf [_ _]] Ha Hb Hab. pose proof Hwf as [Hne [Hgs [Hnd Hincl]]].
  unfold C08_pairwise.fillF. destruct (Nat.ltb (length (rk x)) (length cs)) eqn:Hlt.
  - rewrite map_map. unfold C06_pairwise.h2h_term. cbn [rk wt Core.plain_ballot].
    set (ms := missing_singletons cs (rk x)). set (w := wt x / Qnat (length (perms ms))).
    assert (Hk : ~ Qnat (length (perms ms)) == 0).
    { apply Lib_sets.Qnat_neq0. apply (C06_pairwise.perms_length_pos cand). }
    assert (Hpre : forall o, prefers a b (rk x ++ singletons o) =
              if memb a (flat (rk x)) || memb b (flat (rk x)) then prefers a b (rk x) else before a b o).
    { intros o. rewrite prefers_app, prefers_singletons_before. reflexivity. }
    destruct (memb a (flat (rk x)) || memb b (flat (rk x))) eqn:Hl.
    + rewrite <- (listed_share a b x Hnd Hl).
      transitivity (qsum (map (fun _ : list cand => if prefers a b (rk x) then w else 0) (perms ms))).
      * apply Lib_sets.qsum_map_ext_in. intros o _. rewrite Hpre. reflexivity.
      * rewrite Lib_sets.qsum_map_const. destruct (prefers a b (rk x)); [|ring].
        unfold w. field. exact Hk.
    + apply orb_false_iff in Hl. destruct Hl as [Hma Hmb].
      assert (Eab : above a b (rk x) = false).
      { destruct (above a b (rk x)) eqn:E; [|reflexivity]. apply above_In in E.
        apply memb_In in E. congruence. }
      assert (Et : together a b (rk x) = false).
      { apply together_notin_r. apply memb_false_iff. exact Hmb. }
      unfold PairwiseTiedSpec.spref_share, PairwiseTiedSpec.tie_share. rewrite Eab, Et, Hma, Hmb.
      cbn [orb].
      transitivity (ind_sum cand ceqb a b w (perms ms)).
      * unfold ind_sum. apply Lib_sets.qsum_map_ext_in. intros o _. rewrite Hpre. reflexivity.
      * rewrite (perms_half cand ceqb ceqb_spec).
        -- unfold w. field. exact Hk.
        -- apply miss_NoDup. exact Hcs.
        -- apply miss_unlisted; [exact Ha|apply memb_false_iff; exact Hma].
        -- apply miss_unlisted; [exact Hb|apply memb_false_iff; exact Hmb].
        -- exact Hab.
  - pose proof (full_ranking_lists_all cs (rk x) Hcs Hwf Hlt) as Hall.
    cbn [map]. rewrite Lib_sets.qsum_cons, Lib_sets.qsum_nil. unfold C06_pairwise.h2h_term.
    assert (Hl : memb a (flat (rk x)) || memb b (flat (rk x)) = true).
    { apply orb_true_iff. left. apply memb_In. apply Hall. exact Ha. }
    rewrite (listed_share a b x Hnd Hl). ring.
Qed.

(* every completion mentions exactly the candidates; positive weight is inherited *)
Lemma fillF_props : forall cs (x y : ballot), NoDup cs -> pw_ballot cs x -> In y (fillF cs x) ->
  incl (ballot_cands cand y) cs /\ incl cs (ballot_cands cand y) /\ (0 < wt x -> 0 < wt y).
Proof.
  intros cs x y Hcs [Hwf [Hsc _]] Hy. pose proof Hwf as [Hne [Hgs [Hnd Hincl]]].
  unfold C08_pairwise.fillF in Hy. destruct (Nat.ltb (length (rk x)) (length cs)) eqn:Hlt.
  - apply in_map_iff in Hy. destruct Hy as [o [<- Ho]]. apply (perms_spec cand) in Ho.
    unfold Core.ballot_cands. cbn [rk sc wt Core.plain_ballot map]. rewrite app_nil_r.
    rewrite (Lib_sets.flat_app cand), (Lib_sets.flat_singletons cand). split; [|split].
    + intros c Hc. apply in_app_or in Hc. destruct Hc as [Hc|Hc]; [apply Hincl; exact Hc|].
      apply (Permutation_in _ Ho) in Hc. apply (miss_sub cs (rk x)). exact Hc.
    + intros c Hc. apply in_or_app. destruct (memb c (flat (rk x))) eqn:Hm.
      * left. apply memb_In. exact Hm.
      * right. apply (Permutation_in _ (Permutation_sym Ho)). apply miss_unlisted; [exact Hc|].
        apply memb_false_iff. exact Hm.
    + intros Hw. apply Qlt_shift_div_l.
      * apply Lib_sets.Qnat_pos. apply (C06_pairwise.perms_length_pos cand).
      * rewrite Qmult_0_l. exact Hw.
  - destruct Hy as [<-|[]]. unfold Core.ballot_cands. split; [|split].
    + intros c Hc. apply in_app_or in Hc. destruct Hc as [Hc|Hc]; [apply Hincl|apply Hsc]; exact Hc.
    + intros c Hc. apply in_or_app. left. apply (full_ranking_lists_all cs (rk x) Hcs Hwf Hlt). exact Hc.
    + intros Hw. exact Hw.
Qed.

Lemma fillF_nonempty : forall cs (x : ballot), fillF cs x <> [].
Proof.
  intros cs x. unfold C08_pairwise.fillF. destruct (Nat.ltb _ _); [|discriminate].
  pose proof (C06_pairwise.perms_length_pos cand (missing_singletons cs (rk x))) as H.
  destruct (perms (missing_singletons cs (rk x))); [cbn in H; lia|discriminate].
Qed.

(* ------------------------------------------------------------------ *)
(** * [ballot_fill] on a tied profile *)

Definition filledT (p : profile) : list ballot := concat (map (fillF (cands p)) (ballots p)).

Lemma tied_wf : forall p, tied_profile p -> wf_profile cand p.
Proof.
  intros p [Hcs [Hall _]]. split; [exact Hcs|]. rewrite Forall_forall in Hall |- *.
  intros x Hx. apply (Hall x Hx).
Qed.

Theorem tied_fill_ok : forall p, tied_profile p ->
  ballot_fill p = inl (mkProfile (filledT p) (cast_cands cand ceqb (filledT p))).
Proof. intros p Hp. apply (C08_pairwise.ballot_fill_ok cand ceqb). apply tied_wf. exact Hp. Qed.

Theorem tied_filled_h2h : forall p a b, tied_profile p -> In a (cands p) -> In b (cands p) -> a <> b ->
  h2h (filledT p) a b == spref_weight (ballots p) a b + tie_weight (ballots p) a b.
Proof.
  intros p a b [Hcs [Hall _]] Ha Hb Hab.
  unfold Pairwise.h2h, filledT, PairwiseTiedSpec.spref_weight, PairwiseTiedSpec.tie_weight.
  fold (h2h_term a b). rewrite qsum_concat_map. rewrite <- Lib_sets.qsum_map_plus.
  apply Lib_sets.qsum_map_ext_in. intros x Hx. rewrite Forall_forall in Hall.
  apply fill_h2h_tied; auto.
Qed.

Theorem tied_filled_cands : forall p, tied_profile p ->
  Permutation (cast_cands cand ceqb (filledT p)) (cands p).
Proof.
  intros p [Hcs [Hall Hex]]. rewrite Forall_forall in Hall. unfold Core.cast_cands.
  apply NoDup_Permutation; [apply (Lib_sets.dedup_NoDup cand ceqb ceqb_spec)|exact Hcs|].
  intros c. rewrite (Lib_sets.dedup_In cand ceqb ceqb_spec). rewrite in_concat_iff. split.
  - intros [g [Hg Hc]]. apply in_map_iff in Hg. destruct Hg as [y [<- Hy]].
    unfold filledT in Hy. apply in_concat_iff in Hy. destruct Hy as [ys [Hys Hy]].
    apply in_map_iff in Hys. destruct Hys as [x [<- Hx]].
    destruct (fillF_props (cands p) x y Hcs (Hall x Hx) Hy) as [Hi _].
    destruct (Qlt_bool 0 (wt y)); [apply Hi; exact Hc|destruct Hc].
  - intros Hc. apply Exists_exists in Hex. destruct Hex as [x [Hx Hw]].
    pose proof (fillF_nonempty (cands p) x) as Hfn.
    destruct (fillF (cands p) x) as [|y ys] eqn:Ef; [congruence|].
    assert (Hy : In y (fillF (cands p) x)) by (rewrite Ef; left; reflexivity).
    destruct (fillF_props (cands p) x y Hcs (Hall x Hx) Hy) as [_ [Hi Hwy]].
    exists (if Qlt_bool 0 (wt y) then ballot_cands cand y else []). split.
    + apply in_map_iff. exists y. split; [reflexivity|].
      unfold filledT. apply in_concat_iff. exists (fillF (cands p) x). split; [|exact Hy].
      apply in_map. exact Hx.
    + specialize (Hwy Hw). apply Lib_rk.Qlt_bool_iff in Hwy. rewrite Hwy. apply Hi. exact Hc.
Qed.

Lemma tie_weight_sym : forall (bs : list ballot) a b, tie_weight bs a b == tie_weight bs b a.
Proof.
  intros bs a b. unfold PairwiseTiedSpec.tie_weight. apply Lib_sets.qsum_map_ext_in. intros x _.
  unfold PairwiseTiedSpec.tie_share. rewrite together_sym. reflexivity.
Qed.

(* ------------------------------------------------------------------ *)
(** * statements in terms of the result of [ballot_fill] *)

Section OfProfile.
Variable p fp : profile.
Hypothesis Hp : tied_profile p.
Hypothesis Hfp : ballot_fill p = inl fp.

Let es := pairwise_entries (ballots fp) (cands fp).
Let cs := cands fp.

Lemma fp_eq : fp = mkProfile (filledT p) (cast_cands cand ceqb (filledT p)).
Proof. rewrite (tied_fill_ok p Hp) in Hfp. injection Hfp as <-. reflexivity. Qed.

Theorem tied_cands_perm : Permutation (cands fp) (cands p).
Proof. rewrite fp_eq. cbn [cands]. apply tied_filled_cands. exact Hp. Qed.

Lemma tcs_NoDup : NoDup cs.
Proof.
  eapply Permutation_NoDup; [apply Permutation_sym; exact tied_cands_perm|apply Hp].
Qed.

Lemma tcs_In : forall c, In c cs <-> In c (cands p).
Proof.
  intros c. pose proof tied_cands_perm as HP. split; intros Hc.
  - eapply Permutation_in; [exact HP|exact Hc].
  - eapply Permutation_in; [apply Permutation_sym; exact HP|exact Hc].
Qed.

Theorem tied_h2h : forall a b, In a (cands p) -> In b (cands p) -> a <> b ->
  h2h (ballots fp) a b == spref_weight (ballots p) a b + tie_weight (ballots p) a b.
Proof. intros a b Ha Hb Hab. rewrite fp_eq. cbn [ballots]. apply tied_filled_h2h; assumption. Qed.

Theorem tied_margin : forall a b, In a (cands p) -> In b (cands p) -> a <> b ->
  h2h (ballots fp) a b - h2h (ballots fp) b a == smargin (ballots p) a b.
Proof.
  intros a b Ha Hb Hab. rewrite (tied_h2h a b Ha Hb Hab), (tied_h2h b a Hb Ha (not_eq_sym Hab)).
  rewrite (tie_weight_sym (ballots p) b a). unfold PairwiseTiedSpec.smargin. ring.
Qed.

Theorem tied_edge_iff : forall a b,
  edge es a b = true <->
  In a (cands p) /\ In b (cands p) /\ a <> b /\
  spref_weight (ballots p) b a <= spref_weight (ballots p) a b.
Proof.
  intros a b. unfold es.
  rewrite (edge_iff_h2h cand ceqb ceqb_spec (ballots fp) (cands fp) tcs_NoDup).
  change (cands fp) with cs. rewrite !tcs_In. split.
  - intros [Ha [Hb [Hab Hm]]]. repeat split; auto.
    pose proof (tied_margin a b Ha Hb Hab) as E. unfold PairwiseTiedSpec.smargin in E. lra.
  - intros [Ha [Hb [Hab Hm]]]. repeat split; auto.
    pose proof (tied_margin a b Ha Hb Hab) as E. unfold PairwiseTiedSpec.smargin in E. lra.
Qed.

(* the dictionary: sound, complete, no repeated key *)
Theorem tied_dict :
  (forall a b v, In (a, b, v) es ->
     In a (cands p) /\ In b (cands p) /\ a <> b /\
     v == smargin (ballots p) a b /\ 0 <= smargin (ballots p) a b) /\
  (forall a b, In a (cands p) -> In b (cands p) -> a <> b -> 0 <= smargin (ballots p) a b ->
     exists v, In (a, b, v) es /\ v == smargin (ballots p) a b) /\
  NoDup (map fst es).
Proof.
  split; [|split].
  - intros a b v Hin. apply (entries_sound cand ceqb _ _ tcs_NoDup) in Hin.
    destruct Hin as [Ha [Hb [Hab [Hv Hm]]]]. apply tcs_In in Ha. apply tcs_In in Hb.
    pose proof (tied_margin a b Ha Hb Hab) as E. cbv beta in Hv, Hm.
    repeat split; auto; [rewrite <- E; exact Hv|rewrite <- E; exact Hm].
  - intros a b Ha Hb Hab Hm. pose proof (tied_margin a b Ha Hb Hab) as E.
    destruct (entries_complete cand ceqb (ballots fp) (cands fp) a b) as [v [Hv Hveq]].
    + apply tcs_In. exact Ha.
    + apply tcs_In. exact Hb.
    + exact Hab.
    + cbv beta. rewrite E. exact Hm.
    + exists v. split; [exact Hv|]. cbv beta in Hveq. rewrite Hveq. exact E.
  - apply (entries_keys_NoDup cand ceqb). exact tcs_NoDup.
Qed.

Lemma tes_semi : forall a b, In a cs -> In b cs -> a <> b -> edge es a b = true \/ edge es b a = true.
Proof.
  intros a b Ha Hb Hab. apply tcs_In in Ha. apply tcs_In in Hb.
  destruct (Qlt_le_dec (spref_weight (ballots p) a b) (spref_weight (ballots p) b a)) as [Hlt|Hle].
  - right. apply tied_edge_iff. repeat split; auto. apply Qlt_le_weak. exact Hlt.
  - left. apply tied_edge_iff. repeat split; auto.
Qed.

Lemma tnoedge_iff_beats : forall a b, In a (cands p) -> In b (cands p) -> a <> b ->
  (edge es b a = false <-> sbeats (ballots p) a b).
Proof.
  intros a b Ha Hb Hab. unfold PairwiseTiedSpec.sbeats. rewrite <- not_true_iff_false.
  rewrite tied_edge_iff. split.
  - intros Hno. apply Qnot_le_lt. intros Hle. apply Hno. repeat split; auto.
  - intros Hlt [_ [_ [_ Hle]]]. apply (Qlt_not_le _ _ Hlt). exact Hle.
Qed.

Lemma sbeats_irrefl : forall c, ~ sbeats (ballots p) c c.
Proof. intros c. unfold PairwiseTiedSpec.sbeats. apply Qlt_irrefl. Qed.

Lemma tcs_nonempty : cs <> [].
Proof.
  destruct Hp as [_ [Hall Hex]]. apply Exists_exists in Hex. destruct Hex as [x [Hx _]].
  rewrite Forall_forall in Hall. destruct (Hall x Hx) as [[Hne [Hgs [_ Hincl]]] _].
  assert (Hc : exists c, In c (flat (rk x))).
  { destruct (rk x) as [|g r]; [congruence|]. inversion Hgs as [|? ? Hg _]; subst.
    destruct g as [|c g]; [congruence|]. exists c. rewrite (Lib_sets.flat_cons cand). left. reflexivity. }
  destruct Hc as [c Hc]. apply Hincl in Hc. apply tcs_In in Hc. intros Hnil. rewrite Hnil in Hc. destruct Hc.
Qed.

Lemma tiers_T_partition :
  Permutation (concat (tiers_of es cs)) (cands p) /\
  (forall T, In T (tiers_of es cs) -> T <> []) /\
  (forall T1 T2 c, earlier (tiers_of es cs) T1 T2 -> In c T1 -> In c T2 -> False).
Proof.
  split; [|split].
  - eapply Permutation_trans; [apply tiers_perm|]. exact tied_cands_perm.
  - apply tiers_nonempty.
  - apply tiers_disjoint.
Qed.

Lemma tiers_T_dominate : forall T1 T2 a b, earlier (tiers_of es cs) T1 T2 -> In a T1 -> In b T2 ->
  sbeats (ballots p) a b.
Proof.
  intros T1 T2 a b He Ha Hb.
  destruct (tiers_dominate_edges cand ceqb ceqb_spec es cs tcs_NoDup tes_semi T1 T2 a b He Ha Hb) as [Hab Hba].
  destruct (earlier_in _ _ _ He) as [HT1 HT2].
  pose proof (tiers_sub cand ceqb es cs T1 a HT1 Ha) as Hacs.
  pose proof (tiers_sub cand ceqb es cs T2 b HT2 Hb) as Hbcs.
  apply tnoedge_iff_beats; [apply tcs_In; exact Hacs|apply tcs_In; exact Hbcs| |exact Hba].
  intros ->. exact (tiers_disjoint cand ceqb es cs T1 T2 b He Ha Hb).
Qed.

Lemma tiers_T_minimal : forall T T1 T2, In T (tiers_of es cs) ->
  (forall c, In c T <-> In c T1 \/ In c T2) -> T1 <> [] -> T2 <> [] ->
  (forall a b, In a T1 -> In b T2 -> sbeats (ballots p) a b) -> False.
Proof.
  intros T T1 T2 HT Hsplit H1 H2 Hbeat.
  destruct T1 as [|a1 T1']; [congruence|]. destruct T2 as [|b2 T2']; [congruence|].
  apply (tiers_minimal_edges cand ceqb ceqb_spec es cs tcs_NoDup tes_semi T (a1 :: T1') (b2 :: T2') a1 b2 HT Hsplit).
  - intros c Hc1 Hc2. exact (sbeats_irrefl c (Hbeat c c Hc1 Hc2)).
  - left. reflexivity.
  - left. reflexivity.
  - intros a b Ha Hb.
    assert (Hacs : In a (cands p)).
    { apply tcs_In. apply (tiers_sub cand ceqb es cs T a HT). apply Hsplit. left. exact Ha. }
    assert (Hbcs : In b (cands p)).
    { apply tcs_In. apply (tiers_sub cand ceqb es cs T b HT). apply Hsplit. right. exact Hb. }
    apply tnoedge_iff_beats; [exact Hacs|exact Hbcs| |apply Hbeat; assumption].
    intros ->. exact (sbeats_irrefl b (Hbeat b b Ha Hb)).
Qed.

Lemma tiers_T_smith : forall T0 rest, tiers_of es cs = T0 :: rest ->
  (incl T0 (cands p) /\
   forall a b, In a T0 -> In b (cands p) -> ~ In b T0 -> sbeats (ballots p) a b) /\
  (forall D, D <> [] ->
     (incl D (cands p) /\ forall a b, In a D -> In b (cands p) -> ~ In b D -> sbeats (ballots p) a b) ->
     incl T0 D).
Proof.
  intros T0 rest Heq.
  assert (HT0 : In T0 (tiers_of es cs)) by (rewrite Heq; left; reflexivity).
  split.
  - split.
    + intros c Hc. apply tcs_In. exact (tiers_sub cand ceqb es cs T0 c HT0 Hc).
    + intros a b Ha Hb Hnb.
      destruct (top_dominates_edges cand ceqb ceqb_spec es cs tcs_NoDup tes_semi T0 rest a b Heq Ha) as [_ Hba];
        [apply tcs_In; exact Hb|exact Hnb|].
      apply tnoedge_iff_beats; [apply tcs_In; exact (tiers_sub cand ceqb es cs T0 a HT0 Ha)|exact Hb| |exact Hba].
      intros ->. contradiction.
  - intros D Hne [HD Hdom]. destruct D as [|d D']; [congruence|].
    apply (top_least_edges cand ceqb ceqb_spec es cs tcs_NoDup tes_semi T0 rest (d :: D') d Heq).
    + intros c Hc. apply tcs_In. apply HD. exact Hc.
    + left. reflexivity.
    + intros a b Ha Hb Hnb. apply tcs_In in Hb.
      apply tnoedge_iff_beats; [apply HD; exact Ha|exact Hb| |apply Hdom; assumption].
      intros ->. contradiction.
Qed.

Lemma cw_edges_iff_T : forall c,
  cw_edges cand ceqb es cs c <->
  (In c (cands p) /\ forall d, In d (cands p) -> d <> c -> sbeats (ballots p) c d).
Proof.
  intros c. unfold cw_edges. rewrite tcs_In. split.
  - intros [Hc Hcw]. split; [exact Hc|]. intros d Hd Hdc.
    apply tnoedge_iff_beats; [exact Hc|exact Hd|congruence|]. apply Hcw; [apply tcs_In; exact Hd|exact Hdc].
  - intros [Hc Hcw]. split; [exact Hc|]. intros d Hd Hdc. apply tcs_In in Hd.
    apply tnoedge_iff_beats; [exact Hc|exact Hd|congruence|]. apply Hcw; assumption.
Qed.

End OfProfile.

(* ------------------------------------------------------------------ *)
(** * statements in terms of [dominating_tiers p] *)

Section TiersT.
Variable p : profile.
Hypothesis Hp : tied_profile p.

Lemma tied_fill_total : exists fp, ballot_fill p = inl fp.
Proof. eexists. apply tied_fill_ok. exact Hp. Qed.

Lemma dt_unfold : forall fp, ballot_fill p = inl fp ->
  dominating_tiers p = inl (tiers_of (pairwise_entries (ballots fp) (cands fp)) (cands fp)).
Proof.
  intros fp Hfp. unfold Pairwise.dominating_tiers, Pairwise.pairwise_graph. rewrite Hfp. reflexivity.
Qed.

Lemma dt_inv : forall ts, dominating_tiers p = inl ts ->
  exists fp, ballot_fill p = inl fp /\
             ts = tiers_of (pairwise_entries (ballots fp) (cands fp)) (cands fp).
Proof.
  intros ts Ht. destruct tied_fill_total as [fp Hfp].
  exists fp. split; [exact Hfp|]. rewrite (dt_unfold fp Hfp) in Ht. injection Ht as <-. reflexivity.
Qed.

Theorem tied_tiers_top_exists : exists T0 rest, dominating_tiers p = inl (T0 :: rest).
Proof.
  destruct tied_fill_total as [fp Hfp].
  destruct (tiers_top_exists cand ceqb (pairwise_entries (ballots fp) (cands fp)) (cands fp)
              (tcs_nonempty p fp Hp Hfp)) as [T0 [rest Heq]].
  exists T0, rest. rewrite (dt_unfold fp Hfp), Heq. reflexivity.
Qed.

Theorem tied_tiers_partition : forall ts, dominating_tiers p = inl ts ->
  Permutation (concat ts) (cands p) /\
  (forall T, In T ts -> T <> []) /\
  (forall T1 T2 c, earlier ts T1 T2 -> In c T1 -> In c T2 -> False).
Proof. intros ts Ht. destruct (dt_inv ts Ht) as [fp [Hfp ->]]. apply tiers_T_partition; assumption. Qed.

Theorem tied_tiers_dominate : forall ts T1 T2 a b, dominating_tiers p = inl ts ->
  earlier ts T1 T2 -> In a T1 -> In b T2 -> sbeats (ballots p) a b.
Proof. intros ts T1 T2 a b Ht. destruct (dt_inv ts Ht) as [fp [Hfp ->]]. apply tiers_T_dominate; assumption. Qed.

Theorem tied_tiers_minimal : forall ts T T1 T2, dominating_tiers p = inl ts -> In T ts ->
  (forall c, In c T <-> In c T1 \/ In c T2) -> T1 <> [] -> T2 <> [] ->
  (forall a b, In a T1 -> In b T2 -> sbeats (ballots p) a b) -> False.
Proof. intros ts T T1 T2 Ht. destruct (dt_inv ts Ht) as [fp [Hfp ->]]. apply tiers_T_minimal; assumption. Qed.

Theorem tied_smith : forall T0 rest, dominating_tiers p = inl (T0 :: rest) ->
  (incl T0 (cands p) /\
   forall a b, In a T0 -> In b (cands p) -> ~ In b T0 -> sbeats (ballots p) a b) /\
  (forall D, D <> [] ->
     (incl D (cands p) /\ forall a b, In a D -> In b (cands p) -> ~ In b D -> sbeats (ballots p) a b) ->
     incl T0 D).
Proof.
  intros T0 rest Ht. destruct (dt_inv _ Ht) as [fp [Hfp Heq]].
  apply (tiers_T_smith p fp Hp Hfp T0 rest). symmetry. exact Heq.
Qed.

Theorem tied_condorcet_iff :
  (has_condorcet_winner p = inl true <->
   exists c, In c (cands p) /\ forall d, In d (cands p) -> d <> c -> sbeats (ballots p) c d) /\
  (has_condorcet_winner p = inl true \/ has_condorcet_winner p = inl false) /\
  (forall c, (In c (cands p) /\ forall d, In d (cands p) -> d <> c -> sbeats (ballots p) c d) ->
             exists rest, dominating_tiers p = inl ([c] :: rest)).
Proof.
  destruct tied_tiers_top_exists as [T0 [rest Ht]].
  destruct (dt_inv _ Ht) as [fp [Hfp Heq]]. symmetry in Heq.
  assert (Hcw : forall c, (In c (cands p) /\ forall d, In d (cands p) -> d <> c -> sbeats (ballots p) c d) ->
                          T0 = [c]).
  { intros c Hc. apply (cw_edges_iff_T p fp Hp Hfp) in Hc.
    exact (top_of_cw cand ceqb ceqb_spec _ _ (tcs_NoDup p fp Hp Hfp) (tes_semi p fp Hp Hfp) T0 rest c Heq Hc). }
  assert (Hhas : has_condorcet_winner p = inl (Nat.eqb (length T0) 1)).
  { unfold Pairwise.has_condorcet_winner. rewrite Ht. reflexivity. }
  split; [|split].
  - rewrite Hhas. split.
    + intros H. injection H as H. apply Nat.eqb_eq in H.
      destruct T0 as [|c [|c' T0']]; try discriminate. exists c. apply (cw_edges_iff_T p fp Hp Hfp).
      exact (cw_of_top cand ceqb ceqb_spec _ _ (tcs_NoDup p fp Hp Hfp) (tes_semi p fp Hp Hfp) [c] rest c Heq eq_refl).
    + intros [c Hc]. rewrite (Hcw c Hc). reflexivity.
  - rewrite Hhas. destruct (Nat.eqb (length T0) 1); [left|right]; reflexivity.
  - intros c Hc. exists rest. rewrite Ht, (Hcw c Hc). reflexivity.
Qed.

End TiersT.

(* ------------------------------------------------------------------ *)
(** * DominatingSets on a tied profile *)

Lemma tied_ranking_validate : forall p, tied_profile p -> ranking_validate cand p = inl tt.
Proof.
  intros p [_ [Hall _]]. apply ranking_validate_ok. intros b Hb.
  rewrite Forall_forall in Hall. apply (Hall b Hb).
Qed.

Theorem tied_dominating : forall p (s : mstate cand), tied_profile p ->
  exists top rest, dominating_tiers p = inl (top :: rest) /\
    run_dominating p s =
      inl ([all_tied_state cand p; mkState 1 rest [top] (no_group cand) [] []], s).
Proof.
  intros p s Hp. destruct (tied_tiers_top_exists p Hp) as [top [rest Ht]].
  exists top, rest. split; [exact Ht|].
  unfold Rules.run_dominating, mbind, mlift. rewrite (tied_ranking_validate p Hp), Ht.
  destruct (C06_tiers.remove_cand_prof_ok cand ceqb ceqb_spec p top true false (proj1 Hp)) as [np Hnp].
  unfold ok. cbv beta iota. rewrite Hnp. reflexivity.
Qed.

(* ------------------------------------------------------------------ *)
(** * the untied domain of Properties/C06.v is a special case *)

Lemma above_untied : forall a b (r : ranking), a <> b -> Forall (fun g => length g = 1%nat) r ->
  above a b r = before a b (flat r).
Proof.
  intros a b r Hab H. induction H as [|g r Hg _ IH]; [reflexivity|].
  destruct g as [|x [|y g]]; try discriminate.
  cbn [PairwiseTiedSpec.above Core.memb existsb]. rewrite (Lib_sets.flat_cons cand).
  cbn [app PairwiseSpec.before]. rewrite !orb_false_r. rewrite IH.
  destruct (ceqb_spec a x) as [->|Hax].
  - destruct (ceqb_spec b x) as [->|_]; [congruence|reflexivity].
  - destruct (ceqb b x); reflexivity.
Qed.

Lemma together_untied : forall a b (r : ranking), a <> b -> Forall (fun g => length g = 1%nat) r ->
  together a b r = false.
Proof.
  intros a b r Hab H. unfold PairwiseTiedSpec.together. induction H as [|g r Hg _ IH]; [reflexivity|].
  destruct g as [|x [|y g]]; try discriminate.
  cbn [existsb Core.memb]. rewrite !orb_false_r, IH, orb_false_r.
  destruct (ceqb_spec a x) as [->|_]; [|reflexivity].
  destruct (ceqb_spec b x) as [->|_]; [congruence|reflexivity].
Qed.

Lemma spref_share_untied : forall a b (x : ballot), a <> b ->
  Forall (fun g => length g = 1%nat) (rk x) ->
  spref_share a b x = pref_share cand ceqb a b x /\ tie_share a b x = 0.
Proof.
  intros a b x Hab Hs. unfold PairwiseTiedSpec.spref_share, PairwiseTiedSpec.tie_share,
    PairwiseSpec.pref_share, PairwiseSpec.listing. cbv zeta.
  rewrite (above_untied a b (rk x) Hab Hs), (together_untied a b (rk x) Hab Hs).
  split; [|reflexivity].
  destruct (memb a (flat (rk x))) eqn:Ha.
  - cbn [orb]. destruct (before a b (flat (rk x))); reflexivity.
  - rewrite (before_notin cand ceqb ceqb_spec); [|apply memb_false_iff; exact Ha].
    cbn [orb]. reflexivity.
Qed.

Theorem untied_is_tied : forall p, untied_profile cand p ->
  tied_profile p /\
  forall a b, a <> b ->
    spref_weight (ballots p) a b == pref_weight cand ceqb (ballots p) a b /\
    tie_weight (ballots p) a b == 0.
Proof.
  intros p [Hcs [Hne Hall]]. rewrite Forall_forall in Hall. split.
  - split; [exact Hcs|]. split.
    + apply Forall_forall. intros x Hx. destruct (Hall x Hx) as [H1 [H2 [H3 [H4 [H5 H6]]]]].
      split; [|split; [exact H5|apply Qlt_le_weak; exact H6]].
      split; [exact H1|]. split; [|split; [exact H3|exact H4]].
      apply Forall_forall. intros g Hg. rewrite Forall_forall in H2. specialize (H2 g Hg).
      destruct g; [discriminate|discriminate].
    + destruct (ballots p) as [|x bs] eqn:Eb; [congruence|]. apply Exists_cons_hd.
      apply (Hall x). left. reflexivity.
  - intros a b Hab. unfold PairwiseTiedSpec.spref_weight, PairwiseSpec.pref_weight,
      PairwiseTiedSpec.tie_weight. split.
    + apply Lib_sets.qsum_map_ext_in. intros x Hx. destruct (Hall x Hx) as [_ [H2 _]].
      rewrite (proj1 (spref_share_untied a b x Hab H2)). reflexivity.
    + rewrite <- (Lib_sets.qsum_map_zero (fun _ : ballot => 0) (ballots p)) by (intros; reflexivity).
      apply Lib_sets.qsum_map_ext_in. intros x Hx. destruct (Hall x Hx) as [_ [H2 _]].
      rewrite (proj2 (spref_share_untied a b x Hab H2)). reflexivity.
Qed.

End Tied.
