(* Proofs/C09_drawfree_seq.v — C09, sequences of queries ([ask], [ask_all], [alone] of
   Spec/DrawFreeSpec.v): every query is local (touches the random source only through
   next_draw), the five cumulative queries never touch it, a sequence of answers depends on the
   source only through its script, and on a finished election where every in-range get_profile
   is answered from every state (in particular a [replay_safe] one) each answer of any sequence
   equals the answer given in isolation from any state, and the source is left untouched. *)
From Coq Require Import List ZArith QArith Bool Permutation Lia.
From VK Require Import Base Core STV Pairwise Rules PV Election Election2.
From VK.Spec Require Import STVSpec QuerySpec TieSpec ScoreSpec ReplaySpec QuietSpec DrawFreeSpec.
From VK.Proofs Require Import Lib_sets C10_script C10_quiet C09_queries C20_validation C09_status
  C09_drawfree C09_drawfree_rules.
Import ListNotations.

Section Seq.
Variable cand : Type.
Variable ceqb : cand -> cand -> bool.
Hypothesis ceqb_spec : forall a b, reflect (a = b) (ceqb a b).

Notation profile := (profile cand).
Notation estate := (estate cand).
Notation mstate := (mstate cand).
Notation M := (M cand).
Notation Local := (Local cand).
Notation get_profile := (get_profile cand ceqb).
Notation get_step := (get_step cand ceqb).
Notation election := (election cand).
Notation answer := (answer cand).
Notation ask := (ask cand ceqb).
Notation ask_all := (ask_all cand ceqb).
Notation alone := (alone cand ceqb).
Notation pure_answer := (pure_answer cand ceqb).
Notation replay_safe := (replay_safe cand ceqb).
Notation total_replay := (total_replay cand ceqb).

(* ------------------------------------------------------------------ *)
(** * every query is local *)

Lemma get_step_as_bind : forall r (p : profile) (sts : list estate) i (s : mstate),
  get_step r p sts i s =
  mbind (get_profile r p sts i)
        (fun np => mlift (let! k := norm_index (length sts) i in
                          match nth_error sts k with
                          | Some st => ok (np, st)
                          | None => err EIndex
                          end)) s.
Proof.
  intros r p sts i s. unfold Election2.get_step, mbind.
  destruct (get_profile r p sts i s) as [[np s']|e]; [|reflexivity].
  unfold mlift. destruct (norm_index (length sts) i) as [k|e]; cbn [rbind]; [|reflexivity].
  destruct (nth_error sts k); reflexivity.
Qed.

Lemma Local_get_step : forall r (p : profile) (sts : list estate) i, Local (get_step r p sts i).
Proof.
  intros r p sts i. eapply Local_ext; [intros s; apply get_step_as_bind|].
  apply Local_bind; [apply Local_get_profile|]. intros np. apply Local_lift.
Qed.

Theorem Local_ask : forall (e : election) q, Local (ask e q).
Proof.
  intros e q. destruct q; cbn [DrawFreeSpec.ask]; try apply Local_lift.
  - apply Local_bind; [apply Local_get_profile|]. intros np. apply Local_ret.
  - apply Local_bind; [apply Local_get_step|]. intros x. apply Local_ret.
Qed.

(* each answer is determined by the query, the election (rule parameters, initial profile, records)
   and the prefix of the script it consumed *)
Theorem ask_prefix : forall (e : election) q (s : mstate) a s',
  ask e q s = inl (a, s') ->
  exists used calls,
    scr s = used ++ scr s' /\ lg s' = calls ++ lg s /\ length calls = length used /\
    forall (s2 : mstate) rest, scr s2 = used ++ rest ->
      ask e q s2 = inl (a, mkM rest (calls ++ lg s2)).
Proof. intros e q. exact (local_prefix cand _ _ (Local_ask e q)). Qed.

(* a query that consumed nothing left the source untouched and is answered alike from every state *)
Theorem ask_no_draw : forall (e : election) q (s : mstate) a s',
  ask e q s = inl (a, s') -> lg s' = lg s ->
  s' = s /\ forall s2 : mstate, ask e q s2 = inl (a, s2).
Proof.
  intros e q s a s' H Hlg.
  pose proof (local_quiet_log cand _ _ (Local_ask e q) s a s' H Hlg) as ->.
  split; [reflexivity|]. exact (local_no_draw_state cand _ _ (Local_ask e q) s a H).
Qed.

(* the five cumulative queries never touch the random source *)
Theorem ask_pure : forall (e : election) q r, pure_answer e q = Some r ->
  forall s : mstate, ask e q s = match r with inl a => inl (a, s) | inr x => inr x end.
Proof.
  intros e q r H s.
  destruct q; cbn [DrawFreeSpec.pure_answer] in H; try discriminate;
    inversion H; subst r; cbn [DrawFreeSpec.ask]; unfold mlift;
    match goal with |- match ?x with _ => _ end = _ => destruct x end; reflexivity.
Qed.

(* ------------------------------------------------------------------ *)
(** * sequences *)

Lemma ask_all_length : forall (e : election) qs (s : mstate), length (fst (ask_all e qs s)) = length qs.
Proof.
  intros e qs. induction qs as [|q qs IH]; intros s; [reflexivity|].
  cbn [DrawFreeSpec.ask_all]. destruct (ask e q s) as [[a s']|x].
  - specialize (IH s'). destruct (ask_all e qs s') as [l sf]. cbn [fst length] in *. rewrite IH. reflexivity.
  - specialize (IH s). destruct (ask_all e qs s) as [l sf]. cbn [fst length] in *. rewrite IH. reflexivity.
Qed.

(* asking qs1 then qs2 = asking qs1, then asking qs2 from the state qs1 left *)
Lemma ask_all_app : forall (e : election) qs1 qs2 (s : mstate),
  ask_all e (qs1 ++ qs2) s =
  (fst (ask_all e qs1 s) ++ fst (ask_all e qs2 (snd (ask_all e qs1 s))),
   snd (ask_all e qs2 (snd (ask_all e qs1 s)))).
Proof.
  intros e qs1 qs2. induction qs1 as [|q qs1 IH]; intros s.
  - cbn [app DrawFreeSpec.ask_all fst snd]. destruct (ask_all e qs2 s); reflexivity.
  - cbn [app DrawFreeSpec.ask_all]. destruct (ask e q s) as [[a s']|x].
    + rewrite (IH s'). destruct (ask_all e qs1 s') as [l sf]. reflexivity.
    + rewrite (IH s). destruct (ask_all e qs1 s) as [l sf]. reflexivity.
Qed.

(* the answers of a sequence depend on the random source only through its script *)
Theorem ask_all_script : forall (e : election) qs (s s2 : mstate), scr s2 = scr s ->
  fst (ask_all e qs s2) = fst (ask_all e qs s) /\
  scr (snd (ask_all e qs s2)) = scr (snd (ask_all e qs s)).
Proof.
  intros e qs. induction qs as [|q qs IH]; intros s s2 Hscr; [split; [reflexivity|exact Hscr]|].
  cbn [DrawFreeSpec.ask_all].
  pose proof (local_same_script cand _ _ (Local_ask e q) s s2 Hscr) as Hsame.
  destruct (ask e q s) as [[a s']|x]; destruct (ask e q s2) as [[a2 s2']|x2]; try contradiction.
  - destruct Hsame as [-> [Hs' _]]. destruct (IH s' s2' Hs') as [H1 H2].
    destruct (ask_all e qs s') as [l sf]. destruct (ask_all e qs s2') as [l2 sf2].
    cbn [fst snd] in *. split; [rewrite H1; reflexivity|exact H2].
  - subst x2. destruct (IH s s2 Hscr) as [H1 H2].
    destruct (ask_all e qs s) as [l sf]. destruct (ask_all e qs s2) as [l2 sf2].
    cbn [fst snd] in *. split; [rewrite H1; reflexivity|exact H2].
Qed.

(* ------------------------------------------------------------------ *)
(** * elections whose get_profile is answered from every state *)

Lemma ask_isolated : forall e : election, total_replay e ->
  forall q (s s0 : mstate),
    ask e q s = match alone e q s0 with inl a => inl (a, s) | inr x => inr x end.
Proof.
  intros e Htot q s s0. unfold DrawFreeSpec.alone.
  destruct (pure_answer e q) as [r|] eqn:Hp.
  - rewrite (ask_pure e q r Hp s), (ask_pure e q r Hp s0). destruct r; reflexivity.
  - destruct q as [i|i| | | | |]; cbn [DrawFreeSpec.pure_answer] in Hp; try discriminate.
    + cbn [DrawFreeSpec.ask]. unfold mbind.
      destruct (in_range_dec (length (e_states cand e)) i) as [Hin|Hout].
      * destruct (Htot i Hin) as [pr Hg]. rewrite (Hg s), (Hg s0). reflexivity.
      * destruct (out_of_range cand ceqb (e_states cand e) i) as [_ [_ [_ [_ [_ [Ho _]]]]]].
        rewrite (Ho Hout _ _ s), (Ho Hout _ _ s0). reflexivity.
    + cbn [DrawFreeSpec.ask]. unfold mbind.
      destruct (in_range_dec (length (e_states cand e)) i) as [Hin|Hout].
      * destruct (Htot i Hin) as [pr Hg].
        destruct (norm_index_in _ _ Hin) as [_ Hlt].
        destruct (nth_error (e_states cand e) (round_of (length (e_states cand e)) i)) as [st|] eqn:Est;
          [|apply nth_error_None in Est; lia].
        rewrite (proj2 (get_step_ok_iff cand ceqb _ _ _ i s pr st s) (conj (Hg s) Est)).
        rewrite (proj2 (get_step_ok_iff cand ceqb _ _ _ i s0 pr st s0) (conj (Hg s0) Est)).
        reflexivity.
      * rewrite (get_step_out_of_range cand ceqb _ _ _ i s Hout).
        rewrite (get_step_out_of_range cand ceqb _ _ _ i s0 Hout). reflexivity.
Qed.

(* D: any sequence of queries — each answer is the answer given in isolation (from ANY state s0),
   and the random source comes out as it went in *)
Theorem ask_all_isolated : forall e : election, total_replay e ->
  forall qs (s s0 : mstate), ask_all e qs s = (map (fun q => alone e q s0) qs, s).
Proof.
  intros e Htot qs s s0. induction qs as [|q qs IH]; [reflexivity|].
  cbn [DrawFreeSpec.ask_all map]. rewrite (ask_isolated e Htot q s s0).
  destruct (alone e q s0) as [a|x]; rewrite IH; reflexivity.
Qed.

Lemma replay_safe_total_replay : forall e : election,
  replay_safe (e_rule cand e) (e_profile cand e) (e_states cand e) -> total_replay e.
Proof.
  intros e Hsafe i Hin.
  destruct (replay_safe_total cand ceqb ceqb_spec _ _ _ Hsafe i Hin) as [pr [st [_ [Hg _]]]].
  exists pr. exact Hg.
Qed.

(* the statement for the finished elections of the draw-free theorems *)
Theorem ask_all_replay_safe : forall e : election,
  replay_safe (e_rule cand e) (e_profile cand e) (e_states cand e) ->
  forall qs (s s0 : mstate),
    ask_all e qs s = (map (fun q => alone e q s0) qs, s) /\
    (forall pre q post, qs = pre ++ q :: post ->
       (* the answer to q after the history pre is its answer in isolation ... *)
       nth_error (fst (ask_all e qs s)) (length pre) = Some (alone e q s0) /\
       (* ... and asking q did not change the answers to the later queries *)
       fst (ask_all e post (snd (ask_all e (pre ++ [q]) s))) = fst (ask_all e post s0)).
Proof.
  intros e Hsafe qs s s0. pose proof (replay_safe_total_replay e Hsafe) as Htot.
  split; [exact (ask_all_isolated e Htot qs s s0)|].
  intros pre q post ->. split.
  - rewrite (ask_all_isolated e Htot _ s s0). cbn [fst]. rewrite map_app. cbn [map].
    rewrite nth_error_app2 by (rewrite map_length; lia). rewrite map_length, Nat.sub_diag. reflexivity.
  - rewrite (ask_all_isolated e Htot (pre ++ [q]) s s0). cbn [snd].
    rewrite (ask_all_isolated e Htot post s s0), (ask_all_isolated e Htot post s0 s0). reflexivity.
Qed.

End Seq.
