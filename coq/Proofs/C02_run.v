(* Proofs/C02_run.v — C02 at run level.
   A  run_trace_inv: along the trace of a successful [run_stv] from a valid-or-empty profile (every
      transfer rule, the random one included for scripts satisfying [script_ok]) every round starts
      from a valid context [step_ctx], an admissible script, and the loop invariant [stv_inv].
   B  run_legal: every consecutive pair of recorded rounds is an election / default election /
      elimination in the sense of Spec/STVSpec.v.
   C  (further down) the per-ranking law of an election round with the random transfer, the order
      of a one-by-one election tie, and the exact error behaviour of a round. *)
From Coq Require Import List ZArith QArith Bool Permutation Lia Lqa.
From VK Require Import Base Core STV Rules EditSpec.
From VK.Spec Require Import STVSpec ScoreSpec TieSpec ReplaySpec.
From VK.Proofs Require Import Lib_sets Lib_rk Lib_condense Lib_condense12 C12_edit C03_transfer Elect
  C09_queries C10_quiet C10_tiebreak C09_replay
  STV_lib STV_wsum STV_tb STV_step STV_round STV_threshold STV_weights STV_inv STV_cases STV_final
  C03_random.
From VK.Spec Require Import STVRunSpec.
From Coq Require Import Setoid Morphisms.
Import ListNotations.

Section Run.
Variable cand : Type.
Variable ceqb : cand -> cand -> bool.
Hypothesis ceqb_spec : forall a b, reflect (a = b) (ceqb a b).

Notation cset := (cset cand).
Notation ranking := (ranking cand).
Notation ballot := (ballot cand).
Notation profile := (profile cand).
Notation scores := (scores cand).
Notation estate := (estate cand).
Notation mstate := (mstate cand).
Notation flat := (flat cand).
Notation total_wt := (total_wt cand).
Notation tally := (tally cand ceqb).
Notation wf_stv0 := (wf_stv0 cand).
Notation state_of := (state_of cand ceqb).
Notation step_ctx := (step_ctx cand ceqb).
Notation script_ok := (script_ok cand).
Notation scr_suffix := (scr_suffix cand).
Notation stv_trace := (stv_trace cand ceqb).
Notation stv_inv := (STVSpec.stv_inv cand ceqb).
Notation stv_init := (stv_init cand).
Notation stv_step := (stv_step cand ceqb).
Notation run_stv := (run_stv cand ceqb).
Notation initial_state := (initial_state cand ceqb).
Notation count_elected := (count_elected cand).
Notation elect_case := (elect_case cand ceqb).
Notation default_case := (default_case cand ceqb).
Notation elim_case := (elim_case cand ceqb).

(* ====================== A: the invariant along the trace ====================== *)

Lemma rev_firstn_S : forall (sts : list estate) r st, nth_error sts r = Some st ->
  rev (firstn (S r) sts) = st :: rev (firstn r sts).
Proof.
  intros sts r st H. rewrite (firstn_S_nth_error sts r st H), rev_app_distr. reflexivity.
Qed.

Lemma inv_head_ctx : forall cfg t N (p0 p : profile) st older,
  stv_inv cfg t N p0 p (st :: older) -> step_ctx p0 p st.
Proof.
  intros cfg t N p0 p st older [(prev & older' & Heq & Hctx) _ _ _ _ _].
  injection Heq as <- <-. exact Hctx.
Qed.

Lemma trace_inv : forall cfg t (p : profile) sts ps ss s0 (s : mstate),
  wf_stv0 p -> stv_init cfg p = inl t -> initial_state p = inl s0 ->
  stv_trace cfg t p sts ps ss ->
  nth_error ps 0 = Some p -> nth_error sts 0 = Some s0 -> nth_error ss 0 = Some s ->
  (s_transfer cfg = TRandom -> script_ok s) ->
  forall r pr st sa,
    nth_error ps r = Some pr -> nth_error sts r = Some st -> nth_error ss r = Some sa ->
    stv_inv cfg t (total_wt (ballots p)) p pr (rev (firstn (S r) sts)) /\
    (s_transfer cfg = TRandom -> script_ok sa).
Proof.
  intros cfg t p sts ps ss s0 s Hwf Ht H0 [Hlp [Hls [Hso Hstep]]] Hp0 Hs0 Hss0 Hscr.
  induction r as [|r IH]; intros pr st sa Hp Hr Ha.
  - rewrite Hp0 in Hp. rewrite Hs0 in Hr. rewrite Hss0 in Ha.
    injection Hp as <-. injection Hr as <-. injection Ha as <-.
    rewrite (rev_firstn_S sts 0 s0 Hs0). cbn [firstn rev].
    split; [apply (stv_inv_init cand ceqb cfg p t s0 Hwf Ht H0)|exact Hscr].
  - pose proof (nth_error_lt _ _ _ Hp) as Hlt.
    destruct (nth_error_ex ps r ltac:(lia)) as [pr0 Hpr0].
    destruct (nth_error_ex sts r ltac:(lia)) as [st0 Hst0].
    destruct (nth_error_ex ss r ltac:(lia)) as [sa0 Hsa0].
    destruct (IH pr0 st0 sa0 Hpr0 Hst0 Hsa0) as [Hinv Hscr0].
    pose proof (Hstep r pr0 st0 sa0 pr st sa Hpr0 Hst0 Hsa0 Hp Hr Ha) as Hs.
    rewrite (rev_firstn_S sts r st0 Hst0) in Hinv.
    rewrite <- (STV_inv.count_elected_rev cand (firstn (S r) sts)) in Hs.
    rewrite (rev_firstn_S sts r st0 Hst0) in Hs.
    destruct (stv_inv_step cand ceqb ceqb_spec cfg t _ p pr0 st0 _ sa0 sa pr st Hinv Hscr0 Hs)
      as [Hinv' Hsuf].
    rewrite (rev_firstn_S sts (S r) st Hr), (rev_firstn_S sts r st0 Hst0).
    split; [exact Hinv'|]. intros Hk. apply (script_ok_suffix cand sa0 sa Hsuf). apply Hscr0. exact Hk.
Qed.

(* a successful run has a trace along which the invariant holds *)
Theorem run_trace_inv : forall cfg (p : profile) (s s' : mstate) sts,
  wf_stv0 p -> (s_transfer cfg = TRandom -> script_ok s) ->
  run_stv cfg p s = inl (sts, s') ->
  exists t ps ss s0,
    stv_init cfg p = inl t /\ stv_trace cfg t p sts ps ss /\
    nth_error ps 0 = Some p /\ nth_error ss 0 = Some s /\ last ss s = s' /\
    initial_state p = inl s0 /\ nth_error sts 0 = Some s0 /\
    forall r pr st sa,
      nth_error ps r = Some pr -> nth_error sts r = Some st -> nth_error ss r = Some sa ->
      stv_inv cfg t (total_wt (ballots p)) p pr (rev (firstn (S r) sts)) /\
      step_ctx p pr st /\ (s_transfer cfg = TRandom -> script_ok sa).
Proof.
  intros cfg p s s' sts Hwf Hscr H.
  destruct (stv_run_trace cand ceqb cfg p s s' sts H) as [t [ps [ss [Ht [Htr [Hp0 [Hs0 Hlast]]]]]]].
  destruct (C10_quiet.run_stv_inv cand ceqb cfg p s s' sts H) as [t' [s0 [newer [Ht' [H0 [Hsts _]]]]]].
  assert (Hst0 : nth_error sts 0 = Some s0) by (rewrite Hsts; reflexivity).
  exists t, ps, ss, s0. split; [exact Ht|]. split; [exact Htr|]. split; [exact Hp0|].
  split; [exact Hs0|]. split; [exact Hlast|]. split; [exact H0|]. split; [exact Hst0|].
  intros r pr st sa Hp Hr Ha.
  destruct (trace_inv cfg t p sts ps ss s0 s Hwf Ht H0 Htr Hp0 Hst0 Hs0 Hscr r pr st sa Hp Hr Ha)
    as [Hinv Hsa].
  split; [exact Hinv|]. split; [|exact Hsa].
  rewrite (rev_firstn_S sts r st Hr) in Hinv. exact (inv_head_ctx _ _ _ _ _ _ _ Hinv).
Qed.

(* ====================== B: every round of the run is legal ====================== *)

Theorem run_legal : forall cfg (p : profile) (s s' : mstate) sts,
  wf_stv0 p -> (s_transfer cfg = TRandom -> script_ok s) ->
  run_stv cfg p s = inl (sts, s') ->
  exists t ps ss,
    stv_init cfg p = inl t /\ stv_trace cfg t p sts ps ss /\
    nth_error ps 0 = Some p /\ nth_error ss 0 = Some s /\ last ss s = s' /\
    (exists s0, initial_state p = inl s0 /\ nth_error sts 0 = Some s0) /\
    (forall r pr st, nth_error ps r = Some pr -> nth_error sts r = Some st -> step_ctx p pr st) /\
    (forall r sa, nth_error ss r = Some sa -> s_transfer cfg = TRandom -> script_ok sa) /\
    (forall r pr st pr' st',
       nth_error ps r = Some pr -> nth_error sts r = Some st ->
       nth_error ps (S r) = Some pr' -> nth_error sts (S r) = Some st' ->
       elect_case cfg t pr st st' pr' \/
       default_case cfg t (count_elected (firstn (S r) sts)) pr st st' pr' \/
       elim_case cfg t (count_elected (firstn (S r) sts)) p pr st' pr').
Proof.
  intros cfg p s s' sts Hwf Hscr H.
  destruct (run_trace_inv cfg p s s' sts Hwf Hscr H)
    as [t [ps [ss [s0 [Ht [Htr [Hp0 [Hs0 [Hlast [H0 [Hst0 Hall]]]]]]]]]]].
  exists t, ps, ss. split; [exact Ht|]. split; [exact Htr|]. split; [exact Hp0|].
  split; [exact Hs0|]. split; [exact Hlast|]. split; [exists s0; split; assumption|].
  pose proof Htr as [Hlp [Hls [Hso Hstep]]].
  split; [|split].
  - intros r pr st Hp Hr. pose proof (nth_error_lt _ _ _ Hp) as Hlt.
    destruct (nth_error_ex ss r ltac:(lia)) as [sa Hsa].
    exact (proj1 (proj2 (Hall r pr st sa Hp Hr Hsa))).
  - intros r sa Hsa. pose proof (nth_error_lt _ _ _ Hsa) as Hlt.
    destruct (nth_error_ex ps r ltac:(lia)) as [pr Hp].
    destruct (nth_error_ex sts r ltac:(lia)) as [st Hr].
    exact (proj2 (proj2 (Hall r pr st sa Hp Hr Hsa))).
  - intros r pr st pr' st' Hp Hr Hp' Hr'. pose proof (nth_error_lt _ _ _ Hp') as Hlt.
    destruct (nth_error_ex ss r ltac:(lia)) as [sa Hsa].
    destruct (nth_error_ex ss (S r) ltac:(lia)) as [sb Hsb].
    destruct (Hall r pr st sa Hp Hr Hsa) as [_ [Hctx Hscra]].
    pose proof (Hstep r pr st sa pr' st' sb Hp Hr Hsa Hp' Hr' Hsb) as Hs.
    exact (proj2 (proj2 (step_cases cand ceqb ceqb_spec cfg t p pr st Hctx _ sa sb pr' st' Hscra Hs))).
Qed.

(* ====================== C: how a tie for the single seat is resolved ====================== *)

Notation singletons := (singletons cand).
Notation tiebreak_set := (tiebreak_set cand ceqb).
Notation first_place_votes := (first_place_votes cand ceqb).
Notation borda_scores := (borda_scores cand ceqb).
Notation scored_resolution := (scored_resolution cand ceqb).
Notation resolution := (resolution cand ceqb).
Notation reaches := (reaches cand ceqb).
Notation max_tally := (max_tally cand ceqb).
Notation tied_with := (tied_with cand ceqb).

Lemma scored_res : forall kind (q : profile) g tt (sa s1 : mstate) (d : scores),
  (kind = TBFirstPlace /\ first_place_votes q = inl d) \/
  (kind = TBBorda /\ borda_scores q = inl d) ->
  NoDup (cands q) ->
  tiebreak_set g (Some q) kind sa = inl (tt, s1) ->
  scored_resolution kind q g tt sa s1.
Proof.
  intros kind q g tt sa s1 d Hd Hnd H. exists d. split; [exact Hd|]. split.
  - intros l Hl pre a mid b post qa qb Hsplit Ha Hb.
    exact (tiebreak_set_order cand ceqb ceqb_spec g q kind sa s1 tt d Hd Hnd H
             l pre a mid b post qa qb Hl Hsplit Ha Hb).
  - destruct (c10_scored_trace_proof cand ceqb ceqb_spec g q kind d sa s1 tt Hd H)
      as [ls [Hscr [_ [HF Htt]]]].
    exists ls. split; [exact Hscr|]. split; [exact HF|exact Htt].
Qed.

Lemma resolution_of : forall kind (q : profile) g tt (sa s1 : mstate),
  wf_stv0 q -> tiebreak_set g (Some q) kind sa = inl (tt, s1) -> resolution kind q g tt sa s1.
Proof.
  intros kind q g tt sa s1 Hwf H. destruct kind; cbn [STVRunSpec.resolution].
  - destruct (c10_random_trace_proof cand ceqb ceqb_spec g (Some q) sa s1 tt H)
      as [l [Hs [_ [Ht [Hp Hn]]]]].
    exists l. repeat split; assumption.
  - destruct (fpv_succeeds cand ceqb ceqb_spec q Hwf) as [d Hd].
    apply (scored_res TBFirstPlace q g tt sa s1 d); [left; split; [reflexivity|exact Hd]|apply Hwf|exact H].
  - destruct (borda_succeeds cand ceqb ceqb_spec q Hwf) as [d Hd].
    apply (scored_res TBBorda q g tt sa s1 d); [right; split; [reflexivity|exact Hd]|apply Hwf|exact H].
  - discriminate H.
Qed.

(* one-by-one mode: the [exists kind l] of [elect_case], made precise *)
Theorem single_elect_order : forall cfg t (p0 p : profile) prev n (s s' : mstate) np st,
  step_ctx p0 p prev -> (s_transfer cfg = TRandom -> script_ok s) ->
  stv_step cfg t p0 n p prev s = inl ((np, st), s') ->
  (exists c, reaches t p c) -> s_simul cfg = false ->
  exists w g, elected st = [[w]] /\ max_tally p w /\ tied_with p w g /\
    ((g = [w] /\ tiebreaks st = []) \/
     ((2 <= length g)%nat /\ exists kind l s1,
        s_tiebreak cfg = Some kind /\ tiebreaks st = [(g, singletons (w :: l))] /\
        Permutation (w :: l) g /\
        tiebreak_set g (Some p) kind s = inl (singletons (w :: l), s1) /\
        resolution kind p g (singletons (w :: l)) s s1)).
Proof.
  intros cfg t p0 p prev n s s' np st Hctx Hscr Hstep Hsome Hsim.
  pose proof (ctx_wf cand ceqb p0 p prev Hctx) as Hwf.
  destruct (stv_step_ok_inv cand ceqb ceqb_spec cfg t p0 p prev Hctx n s s' np st Hscr Hstep)
    as [[_ (W & others & mvs & s1 & Hr)]|[(Hnone & _)|(Hnone & _)]];
    [|exfalso; apply (not_both cand ceqb t p Hsome Hnone)|exfalso; apply (not_both cand ceqb t p Hsome Hnone)].
  destruct (er_choice _ _ _ _ _ _ _ _ _ _ _ _ _ _ Hr)
    as [(E & _)|(_ & w & g & rest & Hrem & Hwg & Hel & Hcase)]; [congruence|].
  destruct (first_group_tied cand ceqb ceqb_spec p0 p prev Hctx g rest w Hrem Hwg) as [Hmax Htw].
  exists w, g. split; [exact Hel|]. split; [exact Hmax|]. split; [exact Htw|].
  destruct Hcase as [(Hg & Htb & _)|(Hlen & kind & l & Hk & Htb & Hperm & Htie & _)].
  - left. split; assumption.
  - right. split; [exact Hlen|]. exists kind, l, s1. split; [exact Hk|]. split; [exact Htb|].
    split; [exact Hperm|]. split; [exact Htie|]. apply (resolution_of kind p g _ s s1 Hwf Htie).
Qed.

(* ====================== D: the election round with the random transfer ====================== *)

Notation strip := (strip cand ceqb).
Notation first_is := (first_is cand ceqb).
Notation pile := (pile cand ceqb).
Notation wtof_rk := (wtof_rk cand ceqb).
Notation wt_where := (wt_where cand).
Notation maps_to := (maps_to cand ceqb).
Notation head_cand := (head_cand cand).
Notation lookup0 := (lookup0 cand ceqb).
Notation do_transfer := (do_transfer cand ceqb).
Notation transfers := (transfers cand ceqb).
Notation elect_round := (elect_round cand ceqb).
Notation cls := (cls cand ceqb).
Notation wsumr := (wsumr cand).
Notation after := (after cand ceqb).
Notation led_by := (led_by cand ceqb).
Notation sample_of := (sample_of cand ceqb).
Notation samples_to := (samples_to cand ceqb).
Notation plainb := (fun r : ranking => plain_ballot cand r 1).

Lemma wsumr_plain : forall phi (l : list ranking), wsumr phi (map plainb l) == qsum (map phi l).
Proof.
  intros phi l. induction l as [|r l IH]; [reflexivity|]. cbn [map].
  rewrite (wsumr_cons cand), IH, Lib_sets.qsum_cons. unfold Core.plain_ballot. cbn [rk wt]. ring.
Qed.

Lemma wt_where_pile : forall (p : profile) w (q : ballot -> bool),
  wt_where (fun b => first_is w b && q b) (pile p w) = wt_where (fun b => first_is w b && q b) (ballots p).
Proof.
  intros p w q. unfold EditSpec.wt_where, Core.pile. rewrite Lib_rk.filter_filter.
  rewrite (Lib_rk.filter_ext_in _ _ (fun b => first_is w b && q b) (ballots p)); [reflexivity|].
  intros b _. destruct (first_is w b); reflexivity.
Qed.

(* one winner: the pile of w is replaced by the drawn sample, one unit ballot per ranking *)
Lemma rand_xfer_law : forall (p : profile) w fpv t (s1 s2 : mstate) a,
  do_transfer TRandom w fpv (pile p w) t s1 = inl (a, s2) ->
  fpv == tally w (ballots p) -> is_integral t = true ->
  exists l : list ranking,
    scr s1 = DRanks l :: scr s2 /\ sample_of t (ballots p) w l /\
    forall phi, cls phi -> wsumr phi a == qsum (map phi l).
Proof.
  intros p w fpv t s1 s2 a H Hfpv Hint. cbn [STV.do_transfer] in H.
  destruct (rand_ok_inv cand ceqb w fpv _ t s1 a s2 H) as (Hgood & _ & l & Hs & _ & Hv & Ha).
  destruct (valid_sample_spec cand ceqb ceqb_spec w _ _ l Hv) as (Hlen & _ & Hsrc).
  destruct (rand_submultiset cand ceqb ceqb_spec w fpv _ t s1 a s2 H) as (l' & Hs' & _ & _ & Hcnt & _).
  assert (El : l' = l) by congruence. subst l'.
  exists l. split; [exact Hs|]. split; [split; [|split]|].
  - unfold Qnat. rewrite Hlen. unfold Zminus.
    rewrite inject_Z_plus, inject_Z_opp, (Qtrunc_integral t Hint).
    destruct (integral_total cand (pile p w) (fun b Hb => proj1 (Hgood b Hb))) as [z Hz].
    rewrite <- (tally_pile cand ceqb) in Hz. rewrite <- Hfpv in Hz.
    rewrite (Qtrunc_int fpv z Hz), <- Hz, Hfpv. reflexivity.
  - intros r Hr. destruct (Hsrc r Hr) as (b & Hb & Hf & Hne & Heq).
    exists b. split; [apply (pile_in cand ceqb p w b); exact Hb|]. repeat split; assumption.
  - intros r Hr. rewrite <- (wt_where_pile p w (maps_to [w] r)). apply Hcnt. exact Hr.
  - intros phi Hc. rewrite Ha. unfold C03_transfer.rt_out.
    rewrite (rt_others_pile cand ceqb p w). cbn [app].
    rewrite (plain_keep_all cand l (sample_nonempty cand ceqb ceqb_spec w _ _ l Hv)).
    rewrite (wsumr_condense cand ceqb _ _ Hc). apply wsumr_plain.
Qed.

Lemma transfers_rand_law : forall (p : profile) d t ws (sa sb : mstate) ms,
  transfers TRandom p d t ws sa ms sb -> is_integral t = true ->
  (forall w, In w ws -> lookup0 w d == tally w (ballots p)) ->
  exists ls : list (list ranking),
    scr sa = map (fun l => DRanks l) ls ++ scr sb /\
    Forall2 (sample_of t (ballots p)) ws ls /\
    forall phi, cls phi -> qsum (map (wsumr phi) ms) == qsum (map phi (concat ls)).
Proof.
  intros p d t ws sa sb ms H Hint Hl. induction H as [sa|w ws sa a sm ms sb Hw Hd _ IH].
  - exists []. split; [reflexivity|]. split; [constructor|]. intros phi _. reflexivity.
  - destruct (rand_xfer_law p w _ t sa sm a Hd (Hl w (or_introl eq_refl)) Hint) as (l & Hs & Hsm & Hlaw).
    destruct IH as (ls & IH1 & IH2 & IH3); [intros w' Hw'; apply Hl; right; exact Hw'|].
    exists (l :: ls). split; [cbn [map app]; rewrite Hs, IH1; reflexivity|].
    split; [constructor; assumption|]. intros phi Hc. cbn [map concat].
    rewrite Lib_sets.qsum_cons, map_app, Lib_sets.qsum_app, (Hlaw phi Hc), (IH3 phi Hc). reflexivity.
Qed.

Section RandomRound.
Variable cfg : stv_cfg.
Variable t : Q.
Variables p0 p : profile.
Variables prev st : estate.
Variable np : profile.
Variables s s' : mstate.
Variables W others : cset.
Variable mvs : list (list ballot).
Variable s1 : mstate.
Hypothesis Hctx : step_ctx p0 p prev.
Hypothesis Hr : elect_round cfg t p prev st np s s' W others mvs s1.
Hypothesis Ek : s_transfer cfg = TRandom.
Hypothesis Hscr : script_ok s.
Hypothesis Hint : is_integral t = true.

Let bs := ballots p.
Let Hwf : wf_stv0 p := ctx_wf cand ceqb p0 p prev Hctx.

(* the transfer law of an election round with the random transfer, for every class function:
   the sampled rankings count one unit each, the ballots not led by a winner keep their weight *)
Theorem elect_round_random_law :
  exists (pre : list (draw cand)) (ls : list (list ranking)),
    scr s = pre ++ map (fun l => DRanks l) ls ++ scr s' /\
    Forall2 (sample_of t bs) W ls /\
    forall phi, cls phi ->
      wsumr phi (ballots np) ==
      qsum (map (after W phi) (concat ls)) +
      qsum (map (fun b => if led_by W b then 0 else wt b * after W phi (rk b)) bs).
Proof.
  pose proof (er_tr _ _ _ _ _ _ _ _ _ _ _ _ _ _ Hr) as Htr. rewrite Ek in Htr.
  destruct (transfers_rand_law p _ t W s1 s' mvs Htr Hint
              (fun w Hw => er_lookup cand ceqb ceqb_spec cfg t p0 p prev st np s s' W others mvs s1 Hctx Hr w Hw))
    as (ls & Hs1 & HF & Hlaw).
  destruct (er_suf _ _ _ _ _ _ _ _ _ _ _ _ _ _ Hr) as [pre Hpre].
  exists pre, ls. split; [rewrite Hpre, Hs1; reflexivity|]. split; [exact HF|].
  intros phi Hc.
  pose proof (er_B_wf cand ceqb ceqb_spec cfg t p0 p prev st np s s' W others mvs s1 Hctx Hr (fun _ => Hscr)) as HB.
  pose proof (after_cls cand ceqb ceqb_spec W phi Hc) as Hc'.
  rewrite (er_ballots cand ceqb cfg t p prev st np s s' W others mvs s1 Hr).
  rewrite (wsumr_remove cand ceqb W phi _ (wf_ballots_sf cand _ _ HB) (wf_ballots_pos cand _ _ HB) Hc).
  rewrite (wsumr_app cand), !(wsumr_concat cand), map_map.
  rewrite (Hlaw (after W phi) Hc').
  apply Qplus_inj_l.
  set (g := fun c (b : ballot) => if memb cand ceqb c W then 0 else wt b * after W phi (rk b)).
  assert (E2 : qsum (map (fun c => wsumr (after W phi) (pile p c)) others)
               == qsum (map (fun c => qsum (map (g c) (pile p c))) (W ++ others))).
  { rewrite map_app, Lib_sets.qsum_app.
    rewrite (Lib_sets.qsum_map_zero (fun c => qsum (map (g c) (pile p c))) W).
    - rewrite Qplus_0_l. apply Lib_sets.qsum_map_ext_in. intros c Hc0. unfold STV_wsum.wsumr.
      apply Lib_sets.qsum_map_ext_in. intros b _. unfold g.
      rewrite (proj2 (Lib_rk.memb_false_iff cand ceqb ceqb_spec c W)
                 (er_others_notin cand ceqb cfg t p0 p prev st np s s' W others mvs s1 Hctx Hr c Hc0)).
      reflexivity.
    - intros c Hc0. apply Lib_sets.qsum_map_zero. intros b _. unfold g.
      rewrite (proj2 (Lib_rk.memb_In cand ceqb ceqb_spec c W) Hc0). reflexivity. }
  rewrite E2.
  rewrite (sum_by_piles cand ceqb ceqb_spec p (W ++ others) g Hwf
             (er_all_nd cand ceqb cfg t p0 p prev st np s s' W others mvs s1 Hctx Hr)
             (er_part _ _ _ _ _ _ _ _ _ _ _ _ _ _ Hr)).
  apply Lib_sets.qsum_map_ext_in. intros b Hb. destruct Hwf as [_ Hwfb].
  rewrite Forall_forall in Hwfb.
  destruct (wf_ballot_head cand _ b (Hwfb b Hb)) as (h & rest & _ & _ & Hh).
  unfold STVRunSpec.led_by. rewrite Hh. reflexivity.
Qed.

(* per continuing ranking *)
Theorem elect_round_random_weights :
  exists (pre : list (draw cand)) (ls : list (list ranking)),
    scr s = pre ++ map (fun l => DRanks l) ls ++ scr s' /\
    Forall2 (sample_of t bs) W ls /\
    forall r' : ranking, nonempty r' = true ->
      wtof_rk r' (ballots np) ==
      Qnat (samples_to W r' ls) + wt_where (fun b => negb (led_by W b) && maps_to W r' b) bs.
Proof.
  destruct elect_round_random_law as (pre & ls & Hs & HF & Hlaw).
  exists pre, ls. split; [exact Hs|]. split; [exact HF|]. intros r' Hne.
  rewrite <- (wsumr_ind cand ceqb).
  rewrite (Hlaw (ind_rk cand ceqb r') (ind_rk_cls cand ceqb ceqb_spec r')).
  apply Qplus_comp.
  - unfold STVRunSpec.samples_to. generalize (concat ls) as l. intros l.
    induction l as [|r l IH]; [reflexivity|]. cbn [map filter]. rewrite Lib_sets.qsum_cons, IH.
    rewrite (after_ind_rk cand ceqb W r' r Hne).
    destruct (ranking_eqb cand ceqb r' (strip W r)); cbn [length]; [rewrite Lib_sets.Qnat_S|]; ring.
  - unfold EditSpec.wt_where. rewrite Lib_rk.qsum_filter_as_ite.
    apply Lib_sets.qsum_map_ext_in. intros b _. rewrite (after_ind_rk cand ceqb W r' (rk b) Hne).
    unfold EditSpec.maps_to. destruct (led_by W b); cbn [negb andb]; [reflexivity|].
    destruct (ranking_eqb cand ceqb r' (strip W (rk b))); ring.
Qed.

End RandomRound.

(* the same, read off the result of stv_step *)
Theorem round_weights_random : forall cfg t (p0 p : profile) prev n (s s' : mstate) np st,
  step_ctx p0 p prev ->
  stv_step cfg t p0 n p prev s = inl ((np, st), s') ->
  s_transfer cfg = TRandom -> script_ok s -> is_integral t = true ->
  (exists c, reaches t p c) ->
  exists (pre : list (draw cand)) (ls : list (list ranking)),
    scr s = pre ++ map (fun l => DRanks l) ls ++ scr s' /\
    Forall2 (sample_of t (ballots p)) (flat (elected st)) ls /\
    forall r' : ranking, nonempty r' = true ->
      wtof_rk r' (ballots np) ==
      Qnat (samples_to (flat (elected st)) r' ls) +
      wt_where (fun b => negb (led_by (flat (elected st)) b) && maps_to (flat (elected st)) r' b)
               (ballots p).
Proof.
  intros cfg t p0 p prev n s s' np st Hctx Hstep Ek Hscr Hint Hsome.
  destruct (stv_step_ok_inv cand ceqb ceqb_spec cfg t p0 p prev Hctx n s s' np st (fun _ => Hscr) Hstep)
    as [[_ (W & others & mvs & s1 & Hr)]|[(Hnone & _)|(Hnone & _)]];
    [|exfalso; apply (not_both cand ceqb t p Hsome Hnone)|exfalso; apply (not_both cand ceqb t p Hsome Hnone)].
  rewrite (er_W _ _ _ _ _ _ _ _ _ _ _ _ _ _ Hr).
  exact (elect_round_random_weights cfg t p0 p prev st np s s' W others mvs s1 Hctx Hr Ek Hscr Hint).
Qed.

(* ====================== E: exactly when a round fails (fractional transfer) ====================== *)

(* Under the run invariant, with the fractional transfer and a positive threshold (a Droop quota
   is >= 1), at most m elected so far: a round raises e if and only if
   - one-by-one mode, somebody reaches the threshold, two or more candidates share the top tally
     and either no tiebreak is configured (e = ValueError) or the configured tiebreak fails with e;
   - or nobody reaches the threshold, the candidates are not the open seats, two or more share the
     lowest tally and the first_place tiebreak on the initial profile fails with e. *)
Theorem step_error_iff : forall cfg t N (p0 p : profile) prev older (s : mstate) e,
  stv_inv cfg t N p0 p (prev :: older) -> s_transfer cfg = TFractional -> 0 < t ->
  (count_elected (prev :: older) <= s_m cfg)%Z ->
  (stv_step cfg t p0 (count_elected (prev :: older)) p prev s = inr e <->
   ((exists c, reaches t p c) /\ s_simul cfg = false /\
    exists g rest, remaining prev = g :: rest /\ (2 <= length g)%nat /\
      ((s_tiebreak cfg = None /\ e = EValue) \/
       (exists kind, s_tiebreak cfg = Some kind /\ tiebreak_set g (Some p) kind s = inr e)))
   \/
   ((forall c, In c (cands p) -> tally c (ballots p) < t) /\
    Z.of_nat (length (cands p)) <> (s_m cfg - count_elected (prev :: older))%Z /\
    exists pre low, remaining prev = pre ++ [low] /\ (2 <= length low)%nat /\
      tiebreak_set low (Some p0) TBFirstPlace s = inr e)).
Proof.
  intros cfg t N p0 p prev older s e Hinv Ek Ht Hle.
  pose proof (inv_head_ctx _ _ _ _ _ _ _ Hinv) as Hctx.
  pose proof (inv_enough _ _ _ _ _ _ _ _ Hinv) as Henough.
  pose proof (ctx_wf cand ceqb p0 p prev Hctx) as Hwf.
  set (n := count_elected (prev :: older)) in *.
  assert (Hscr : s_transfer cfg = TRandom -> script_ok s) by (intros E; congruence).
  split.
  - intros H.
    destruct (above cand t (escores prev)) as [|a0 l0] eqn:Ea.
    + pose proof (proj1 (above_nil_iff cand ceqb ceqb_spec p0 p prev Hctx t) Ea) as Hnone.
      destruct (Z.eqb (Z.of_nat (length (cands p))) (s_m cfg - n)) eqn:En.
      { rewrite (stv_step_default cand ceqb cfg t p0 n p prev s Ea En) in H. discriminate. }
      right. split; [exact Hnone|]. split; [apply Z.eqb_neq; exact En|].
      rewrite (stv_step_elim cand ceqb cfg t p0 n p prev s Ea En) in H.
      destruct (list_eq_dec (cand_eq_dec cand ceqb ceqb_spec) (cands p) []) as [Ecs|Hne].
      { exfalso. apply Z.eqb_neq in En. rewrite Ecs in En, Henough. cbn [length] in En, Henough. lia. }
      destruct (ctx_r_last cand ceqb p0 p prev Hctx Hne) as (pre & low & Hr' & Hlnd & Hlin).
      rewrite Hr', rev_app_distr in H. cbn [rev app] in H.
      assert (Hlne : low <> []).
      { pose proof (ctx_groups_ne cand ceqb p0 p prev Hctx Hne) as Hg. rewrite Hr' in Hg.
        rewrite Forall_forall in Hg. apply Hg. apply in_or_app. right. left. reflexivity. }
      assert (Hlin0 : incl low (cands p0)).
      { intros c Hc. apply (ctx_sub cand ceqb p0 p prev Hctx). apply Hlin. exact Hc. }
      destruct (pick_elim cand ceqb p0 low s) as [[[x tbs] s1]|e'] eqn:Epick.
      * exfalso. destruct (remove_cand_prof_ok cand ceqb ceqb_spec p0 p prev Hctx x) as [Hrm Hwfn].
        rewrite Hrm in H. destruct (fpv_state cand ceqb ceqb_spec _ Hwfn) as [d' Hd']. rewrite Hd' in H.
        discriminate.
      * injection H as <-. exists pre, low. split; [exact Hr'|].
        apply (pick_elim_err cand ceqb ceqb_spec p0 p prev Hctx low s e' Hlnd Hlin0 Hlne Epick).
    + assert (Hab : above cand t (escores prev) <> []) by (rewrite Ea; discriminate).
      pose proof (proj1 (above_ne_iff cand ceqb ceqb_spec p0 p prev Hctx t) Hab) as Hsome.
      left.
      destruct (stv_step_err_inv cand ceqb ceqb_spec cfg t p0 p prev Hctx n s e Hscr H)
        as [(Hs & Hsim & Hg)|[(w & s1 & Hw & Hreach & _ & Hd)|[(Hnone & _)|(Hnone & _)]]].
      * split; [exact Hs|]. split; [exact Hsim|exact Hg].
      * exfalso. rewrite Ek in Hd. cbn [STV.do_transfer] in Hd. unfold mlift in Hd.
        destruct (frac_transfer cand ceqb w _ (pile p w) t) as [a|e'] eqn:E; [discriminate|].
        destruct (frac_errors cand ceqb w (lookup0 w (escores prev)) (pile p w) t) as (Hz & Hty & Hkinds).
        destruct (Hkinds e' E) as [He|He]; subst e'.
        -- apply Hz in E. rewrite (proj2 (ctx_score cand ceqb ceqb_spec p0 p prev Hctx w Hw)) in E. lra.
        -- apply Hty in E. destruct E as [_ (b & Hb & Hrk)]. apply pile_in in Hb.
           destruct Hwf as [_ Hwfb]. rewrite Forall_forall in Hwfb.
           apply (proj1 (Hwfb b (proj1 Hb))). exact Hrk.
      * exfalso. apply (not_both cand ceqb t p Hsome Hnone).
      * exfalso. apply (not_both cand ceqb t p Hsome Hnone).
  - intros [(Hsome & Hsim & g & rest & Hrem & Hlen & Hcase)|(Hnone & Hcnt & pre & low & Hrem & Hlen & Htie)].
    + destruct Hcase as [[Hnone ->]|(kind & Hk & Htie)].
      * apply (single_tie_error cand ceqb ceqb_spec cfg t p0 p prev Hctx n s g rest Hsome Hsim Hnone Hrem Hlen).
      * assert (Hab : above cand t (escores prev) <> []).
        { apply (above_ne_iff cand ceqb ceqb_spec p0 p prev Hctx t). exact Hsome. }
        rewrite (stv_step_single cand ceqb cfg t p0 n p prev s Hab Hsim).
        assert (Hgne : g <> []) by (intros E; rewrite E in Hlen; cbn in Hlen; lia).
        unfold STV.single_elect. unfold mbind at 1.
        rewrite Hrem, (elect_top_1_eq cand ceqb g rest (Some p) (s_tiebreak cfg) s Hgne), Hk.
        assert (El : Nat.leb (length g) 1 = false) by (apply Nat.leb_gt; lia).
        rewrite El, Htie. reflexivity.
    + assert (Ea : above cand t (escores prev) = []).
      { apply (above_nil_iff cand ceqb ceqb_spec p0 p prev Hctx t). exact Hnone. }
      assert (En : Z.eqb (Z.of_nat (length (cands p))) (s_m cfg - n) = false) by (apply Z.eqb_neq; exact Hcnt).
      rewrite (stv_step_elim cand ceqb cfg t p0 n p prev s Ea En).
      rewrite Hrem, rev_app_distr. cbn [rev app].
      destruct low as [|a [|b rest']]; [cbn in Hlen; lia|cbn in Hlen; lia|].
      unfold STV_step.pick_elim. unfold mbind. rewrite Htie. reflexivity.
Qed.
(* ====================== F: the transfer law of every round of the run ====================== *)

Notation round_weights := (round_weights cand ceqb).

Theorem step_weights : forall cfg t (p0 p : profile) prev n (s s' : mstate) np st,
  step_ctx p0 p prev ->
  stv_step cfg t p0 n p prev s = inl ((np, st), s') ->
  (s_transfer cfg = TRandom -> script_ok s /\ is_integral t = true) ->
  round_weights cfg t n p np st s s'.
Proof.
  intros cfg t p0 p prev n s s' np st Hctx Hstep Hrand.
  assert (Hscr : s_transfer cfg = TRandom -> script_ok s) by (intros E; apply (Hrand E)).
  destruct (stv_step_ok_inv cand ceqb ceqb_spec cfg t p0 p prev Hctx n s s' np st Hscr Hstep)
    as [[Hsome _]|[(Hnone & Hcnt & _ & Hd)|(Hnone & Hcnt & _)]].
  - left. assert (Hsome' : exists c, reaches t p c) by exact Hsome.
    split; [exact Hsome'|]. split.
    + intros Hk r' Hne.
      exact (round_weights_elect cand ceqb ceqb_spec cfg t p0 p prev n s s' np st Hctx Hstep r' Hk Hsome' Hne).
    + intros Hk. destruct (Hrand Hk) as [Hs Hint].
      exact (round_weights_random cfg t p0 p prev n s s' np st Hctx Hstep Hk Hs Hint Hsome').
  - right. left. split; [exact Hnone|]. split; [exact Hcnt|].
    rewrite (dr_np _ _ _ _ Hd). reflexivity.
  - right. right. split; [exact Hnone|]. split; [exact Hcnt|].
    exact (round_weights_elim cand ceqb ceqb_spec cfg t p0 p prev n s s' np st Hctx Hstep Hscr Hnone Hcnt).
Qed.

Theorem run_weights : forall cfg (p : profile) (s s' : mstate) sts,
  wf_stv0 p -> (s_transfer cfg = TRandom -> script_ok s) ->
  run_stv cfg p s = inl (sts, s') ->
  exists t ps ss,
    stv_init cfg p = inl t /\ stv_trace cfg t p sts ps ss /\
    nth_error ps 0 = Some p /\ nth_error ss 0 = Some s /\ last ss s = s' /\
    forall r pr pr' st' sa sb,
      nth_error ps r = Some pr -> nth_error ps (S r) = Some pr' ->
      nth_error sts (S r) = Some st' ->
      nth_error ss r = Some sa -> nth_error ss (S r) = Some sb ->
      round_weights cfg t (count_elected (firstn (S r) sts)) pr pr' st' sa sb.
Proof.
  intros cfg p s s' sts Hwf Hscr H.
  destruct (run_trace_inv cfg p s s' sts Hwf Hscr H)
    as [t [ps [ss [s0 [Ht [Htr [Hp0 [Hs0 [Hlast [H0 [Hst0 Hall]]]]]]]]]]].
  exists t, ps, ss. split; [exact Ht|]. split; [exact Htr|]. split; [exact Hp0|].
  split; [exact Hs0|]. split; [exact Hlast|].
  pose proof Htr as [Hlp [Hls [Hso Hstep]]].
  intros r pr pr' st' sa sb Hp Hp' Hr' Hsa Hsb.
  pose proof (nth_error_lt _ _ _ Hp) as Hlt.
  destruct (nth_error_ex sts r ltac:(lia)) as [st Hr].
  destruct (Hall r pr st sa Hp Hr Hsa) as [Hinv [Hctx Hscra]].
  pose proof (Hstep r pr st sa pr' st' sb Hp Hr Hsa Hp' Hr' Hsb) as Hs.
  apply (step_weights cfg t p pr st _ sa sb pr' st' Hctx Hs).
  intros E. split; [apply Hscra; exact E|]. exact (inv_t_int _ _ _ _ _ _ _ _ Hinv).
Qed.

(* ====================== G: a failing Droop / fractional run fails at such a round ====================== *)

Notation stv_loop := (stv_loop cand ceqb).

(* the error of a failing loop is raised by a round that starts from a state satisfying the
   invariant with at most m elected *)
Lemma droop_loop_error_round : forall cfg t N (p0 : profile),
  s_transfer cfg <> TFullWeight -> N < inject_Z (s_m cfg + 1) * t -> 0 < t ->
  forall fuel (p : profile) sts (s : mstate) e,
  stv_inv cfg t N p0 p sts -> (s_transfer cfg = TRandom -> script_ok s) ->
  (count_elected sts <= s_m cfg)%Z ->
  stv_loop fuel cfg t p0 p sts s = inr e ->
  e = EFuel \/
  exists (p' : profile) prev older (s1 : mstate),
    stv_inv cfg t N p0 p' (prev :: older) /\ (s_transfer cfg = TRandom -> script_ok s1) /\
    (count_elected (prev :: older) <= s_m cfg)%Z /\
    stv_step cfg t p0 (count_elected (prev :: older)) p' prev s1 = inr e.
Proof.
  intros cfg t N p0 Hk HN Ht.
  induction fuel as [|fuel IH]; intros p sts s e Hinv Hscr Hle H;
    rewrite (stv_loop_unfold cand ceqb) in H.
  - destruct (Z.eqb (count_elected sts) (s_m cfg)); [discriminate|]. injection H as <-. left. reflexivity.
  - destruct (Z.eqb (count_elected sts) (s_m cfg)); [discriminate|].
    pose proof Hinv as Hinv0.
    destruct Hinv as [(prev & older & -> & Hctx) _ _ _ _ _].
    destruct (stv_step cfg t p0 (count_elected (prev :: older)) p prev s) as [[[np st] s1]|e'] eqn:Es.
    + destruct (stv_inv_step cand ceqb ceqb_spec cfg t N p0 p prev older s s1 np st Hinv0 Hscr Es)
        as [Hinv' Hsuf].
      apply (IH np (st :: prev :: older) s1 e Hinv').
      * intros E. apply (script_ok_suffix cand s s1 Hsuf). apply Hscr. exact E.
      * apply (droop_step_count cand ceqb ceqb_spec cfg t N p0 Hk HN Ht p prev older s s1 np st
                 Hinv0 Hscr Hle Es).
      * exact H.
    + injection H as <-. right. exists p, prev, older, s.
      split; [exact Hinv0|]. split; [exact Hscr|]. split; [exact Hle|exact Es].
Qed.

(* Droop quota, fractional transfer, valid-or-empty profile: a failing run either was refused at
   construction (m out of range) or reached a round — satisfying the invariant — that is an
   unbreakable tie in the exact sense of [step_error_iff] *)
Theorem droop_run_error_exact : forall cfg (p : profile) (s : mstate) e,
  wf_stv0 p -> s_quota cfg = QDroop -> s_transfer cfg = TFractional ->
  run_stv cfg p s = inr e ->
  (e = EValue /\ ~ (1 <= s_m cfg <= Z.of_nat (length (cands p)))%Z) \/
  exists t (pr : profile) prev older (s1 : mstate),
    stv_init cfg p = inl t /\ 1 <= t /\
    stv_inv cfg t (total_wt (ballots p)) p pr (prev :: older) /\
    (count_elected (prev :: older) <= s_m cfg)%Z /\
    (((exists c, reaches t pr c) /\ s_simul cfg = false /\
      exists g rest, remaining prev = g :: rest /\ (2 <= length g)%nat /\
        ((s_tiebreak cfg = None /\ e = EValue) \/
         (exists kind, s_tiebreak cfg = Some kind /\ tiebreak_set g (Some pr) kind s1 = inr e)))
     \/
     ((forall c, In c (cands pr) -> tally c (ballots pr) < t) /\
      Z.of_nat (length (cands pr)) <> (s_m cfg - count_elected (prev :: older))%Z /\
      exists pre low, remaining prev = pre ++ [low] /\ (2 <= length low)%nat /\
        tiebreak_set low (Some p) TBFirstPlace s1 = inr e)).
Proof.
  intros cfg p s e Hwf Hq Ek H.
  assert (Hscr : s_transfer cfg = TRandom -> script_ok s) by (intros E; congruence).
  assert (Hk : s_transfer cfg <> TFullWeight) by (rewrite Ek; discriminate).
  pose proof (run_stv_no_fuel cand ceqb ceqb_spec cfg p s Hwf Hscr) as Hnf.
  rewrite (run_stv_unfold cand ceqb) in H, Hnf.
  destruct (stv_init cfg p) as [t|e0] eqn:Ei.
  - right. destruct (initial_state_ok cand ceqb ceqb_spec p Hwf) as [s0 E0]. rewrite E0 in H, Hnf.
    pose proof (stv_inv_init cand ceqb cfg p t s0 Hwf Ei E0) as Hinv.
    pose proof (threshold_value cand cfg p t Ei (total_wt_nonneg cand p Hwf)) as [Hm Hqv].
    cbv zeta in Hm, Hqv. rewrite Hq in Hqv. destruct Hqv as (_ & HN & H1).
    assert (Hle : (count_elected [s0] <= s_m cfg)%Z).
    { destruct (initial_state_inv cand ceqb p s0 E0) as (_ & Hel & _).
      rewrite (count_elected_all cand). unfold STVSpec.all_elected, STVSpec.elected_in. cbn [map concat].
      rewrite Hel. cbn. lia. }
    assert (Ht : 0 < t) by lra.
    destruct (droop_loop_error_round cfg t _ p Hk HN Ht _ p [s0] s e Hinv Hscr Hle H)
      as [->|(pr & prev & older & s1 & Hinv1 & _ & Hle1 & Hs1)].
    + exfalso. apply Hnf. exact H.
    + exists t, pr, prev, older, s1. split; [reflexivity|]. split; [exact H1|].
      split; [exact Hinv1|]. split; [exact Hle1|].
      exact (proj1 (step_error_iff cfg t _ p pr prev older s1 e Hinv1 Ek Ht Hle1) Hs1).
  - left. injection H as <-. assert (Hint : s_transfer cfg = TRandom -> integral_weights cand p) by (intros E; congruence).
    destruct (stv_init_err cand cfg p e0 Hwf Hint Ei) as [-> [Hm|Hb]].
    + split; [reflexivity|exact Hm].
    + rewrite Hq in Hb. discriminate.
Qed.

End Run.
