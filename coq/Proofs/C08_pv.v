(* Proofs/C08_pv.v — property C08 and PluralityVeto.
   PluralityVeto de-condenses the profile into unit ballots and lets the voters veto one after
   the other in the order given by the draw script (indices into the de-condensed list).  What is
   invariant under reordering / splitting / merging (whole-number weights): the de-condensed
   electorate, hence round 0 (first-place tallies and ranking).  What is not: with the SAME script
   the later rounds depend on which voter sits at which index, and splitting a ballot into
   fractional weights is rejected by the validation.  Witnesses by computation. *)
From Coq Require Import List ZArith QArith Bool Permutation Lia Lqa Setoid Morphisms.
From VK Require Import Base Core STV Pairwise Rules PV.
From VK.Spec Require Import Content ScoreSpec EditSpec Anon AnonRules.
From VK.Proofs Require Import Lib_sets Lib_content Lib_condense C11_condense C04_scoring C12_edit
  C08_anon C08_stv C08_rules.
Import ListNotations.
Open Scope Q_scope.

Section PvAnon.
Variable cand : Type.
Variable ceqb : cand -> cand -> bool.
Hypothesis ceqb_spec : forall a b, reflect (a = b) (ceqb a b).

Notation cset := (cset cand).
Notation ranking := (ranking cand).
Notation scores := (scores cand).
Notation ballot := (ballot cand).
Notation profile := (profile cand).
Notation mstate := (mstate cand).
Notation estate := (estate cand).
Notation same := (same_content cand ceqb).
Notation wtof := (wtof cand ceqb).
Notation dist_eq := (dist_eq cand ceqb).
Notation nonneg_wts := (nonneg_wts cand).
Notation state_equiv := (state_equiv cand).
Notation profile_equiv := (profile_equiv cand ceqb).
Notation wf_profile := (wf_profile cand).
Notation dom := (one_shot_domain cand).
Notation as_key := (as_key cand).
Notation wsum := (Lib_condense.wsum cand).
Notation integral_wts := (integral_wts cand).
Notation decondense := (decondense cand).

(* the profile PluralityVeto actually counts *)
Definition pv_profile (p : profile) : profile := mkProfile (decondense (ballots p)) (cands p).

Lemma wtof_repeat : forall k (x : ballot) n,
  wtof k (repeat x n) == if same k x then Qnat n * wt x else 0.
Proof.
  intros k x n. induction n as [|n IH].
  - cbn [repeat]. rewrite wtof_nil. destruct (same k x); [rewrite Lib_sets.Qnat_0; ring|reflexivity].
  - cbn [repeat]. rewrite wtof_cons. destruct (same k x).
    + rewrite IH, Lib_sets.Qnat_S. ring.
    + exact IH.
Qed.

Lemma Qtrunc_Qnat : forall n, Qtrunc (Qnat n) = Z.of_nat n.
Proof. intros n. unfold STV.Qtrunc, Qnat, inject_Z. cbn [Qnum Qden]. apply Z.quot_1_r. Qed.

Lemma integral_to_nat : forall (q : Q) n, q == Qnat n -> Z.to_nat (Qtrunc q) = n.
Proof. intros q n H. rewrite (Qtrunc_comp q (Qnat n) H), Qtrunc_Qnat. apply Nat2Z.id. Qed.

Lemma wtof_decondense : forall k (bs : list ballot), integral_wts bs ->
  wtof k (decondense bs) == wsum (fun r _ => if same k (as_key r []) then 1 else 0) bs.
Proof.
  intros k bs H. unfold AnonRules.integral_wts in H. induction H as [|b bs [n Hn] _ IH].
  - reflexivity.
  - unfold PV.decondense in *. cbn [map concat]. rewrite wtof_app, wtof_repeat, wsum_cons, IH.
    rewrite (integral_to_nat (wt b) n Hn).
    change (same k (plain_ballot cand (rk b) 1)) with (same k (as_key (rk b) [])).
    cbn [wt plain_ballot]. destruct (same k (as_key (rk b) [])); rewrite Hn; ring.
Qed.

(* the de-condensed electorate only depends on the electorate *)
Theorem decondense_anonymous : forall bs bs' : list ballot,
  integral_wts bs -> integral_wts bs' -> dist_eq bs bs' -> dist_eq (decondense bs) (decondense bs').
Proof.
  intros bs bs' Hi Hi' Hde k. rewrite (wtof_decondense k bs Hi), (wtof_decondense k bs' Hi').
  apply (wsum_dist_eq cand ceqb ceqb_spec (any_content cand)); try apply any_content_all; [|exact Hde].
  intros x y _ _ Hs.
  assert (T : same (as_key (rk x) []) (as_key (rk y) []) = true).
  { apply same_iff. cbn [rk sc C08_stv.as_key]. split; [apply (same_rk cand ceqb x y Hs)|reflexivity]. }
  rewrite (Lib_content.same_congr_r cand ceqb ceqb_spec _ _ k T). reflexivity.
Qed.

Lemma decondense_member : forall (bs : list ballot) x, In x (decondense bs) ->
  exists b, In b bs /\ x = plain_ballot cand (rk b) 1.
Proof.
  intros bs x H. unfold PV.decondense in H. apply in_concat_iff in H. destruct H as [l [Hl Hx]].
  apply in_map_iff in Hl. destruct Hl as [b [<- Hb]]. apply repeat_spec in Hx.
  exists b. split; [exact Hb|exact Hx].
Qed.

Lemma pv_profile_dom : forall p, wf_profile p -> dom SKFpv (pv_profile p).
Proof.
  intros p [Hnd Hb]. rewrite Forall_forall in Hb. unfold pv_profile.
  split; [|split; [split|]]; cbn [ballots cands].
  - unfold Anon.nonneg_wts. apply Forall_forall. intros x Hx.
    destruct (decondense_member _ x Hx) as [b [_ ->]]. cbn [wt plain_ballot]. lra.
  - exact Hnd.
  - apply Forall_forall. intros x Hx. destruct (decondense_member _ x Hx) as [b [Hin ->]].
    cbn [rk plain_ballot]. apply Hb. exact Hin.
  - unfold EditSpec.score_free. apply Forall_forall. intros x Hx.
    destruct (decondense_member _ x Hx) as [b [_ ->]]. reflexivity.
Qed.

Theorem pv_profile_anonymous : forall p p', integral_wts (ballots p) -> integral_wts (ballots p') ->
  profile_equiv p p' -> profile_equiv (pv_profile p) (pv_profile p').
Proof.
  intros p p' Hi Hi' [Hde Hp]. split; cbn [ballots cands pv_profile]; [|exact Hp].
  apply decondense_anonymous; assumption.
Qed.

(* round 0 of PluralityVeto: the first-place tallies of the de-condensed profile and their ranking *)
Theorem pv_round0_anonymous : forall p p', wf_profile p -> wf_profile p' ->
  integral_wts (ballots p) -> integral_wts (ballots p') -> profile_equiv p p' ->
  res_equiv state_equiv (round0 cand ceqb SKFpv (pv_profile p)) (round0 cand ceqb SKFpv (pv_profile p')).
Proof.
  intros p p' Hw Hw' Hi Hi' He.
  apply (round0_anonymous cand ceqb ceqb_spec SKFpv);
    [apply pv_profile_dom; exact Hw|apply pv_profile_dom; exact Hw'|apply pv_profile_anonymous; assumption].
Qed.

(* ---- linking round 0 to the run: the first record of a successful run is that round 0 ---- *)

Lemma pv_loop_prefix : forall fuel m tb n o p sts (s s' : mstate) out,
  pv_loop cand ceqb fuel m tb n o p sts s = inl (out, s') -> exists more, out = rev sts ++ more.
Proof.
  induction fuel as [|fuel IH]; intros m tb n o p sts s s' out H; cbn [PV.pv_loop] in H.
  - destruct (m <=? count_elected cand sts)%Z; [|discriminate].
    unfold mret, ok in H. injection H as <- _. exists []. rewrite app_nil_r. reflexivity.
  - destruct (m <=? count_elected cand sts)%Z.
    + unfold mret, ok in H. injection H as <- _. exists []. rewrite app_nil_r. reflexivity.
    + destruct sts as [|prev l]; [discriminate|]. unfold mbind in H.
      destruct (pv_step cand ceqb m tb n o p prev s) as [[[[o' np] st] s1]|e]; [|discriminate].
      destruct (IH _ _ _ _ _ _ _ _ _ H) as [more ->]. exists (st :: more).
      cbn [rev]. rewrite <- !app_assoc. reflexivity.
Qed.

Theorem pv_run_round0 : forall m tb p (s s' : mstate) sts, NoDup (cands p) ->
  run_pv cand ceqb m tb p s = inl (sts, s') ->
  exists s0 rest, sts = s0 :: rest /\ round0 cand ceqb SKFpv (pv_profile p) = inl s0.
Proof.
  intros m tb p s s' sts Hnd H. unfold PV.run_pv in H. unfold mbind at 1 in H. unfold mlift at 1 in H.
  destruct (pv_validate cand p) as [[]|e]; [|discriminate]. cbn [ok] in H.
  destruct (m <=? 0)%Z eqn:Em0; [discriminate|].
  destruct (Z.of_nat (length (cands p)) <? m)%Z eqn:Em; [discriminate|].
  assert (Hne : cands p <> []).
  { intros E. rewrite E in Em. cbn [length] in Em.
    apply Z.ltb_ge in Em. apply Z.leb_gt in Em0. cbn in Em. lia. }
  unfold mbind at 1 in H.
  destruct ((match tb with
             | Some _ => mret tt
             | None => if existsb (has_tie cand) (ballots p) then mfail EAttr else mret tt
             end) s) as [[[] sa]|e]; [|discriminate].
  unfold mbind at 1 in H. unfold mlift at 1 in H. unfold Core.mk_profile in H.
  rewrite (proj2 (Lib_sets.has_dup_false_iff cand ceqb ceqb_spec (cands p)) Hnd) in H. cbn [ok] in H.
  assert (Ep : mkProfile (decondense (ballots p))
                 (match cands p with [] => cast_cands cand ceqb (decondense (ballots p)) | _ :: _ => cands p end)
               = pv_profile p).
  { unfold pv_profile. destruct (cands p); [exfalso; apply Hne; reflexivity|reflexivity]. }
  rewrite Ep in H. clear Ep.
  unfold mbind at 1 in H.
  destruct (next_draw cand (CShuffle (length (decondense (ballots p)))) sa) as [[d0 sb]|e]; [|discriminate].
  destruct d0 as [l|r|l|q|c|order]; try discriminate.
  destruct (negb (is_perm_nat order (length (decondense (ballots p))))); [discriminate|].
  unfold mbind at 1 in H. unfold mlift at 1 in H.
  destruct (ranking_validate cand (pv_profile p)) as [[]|e]; [|discriminate]. cbn [ok] in H.
  unfold mbind at 1 in H. unfold mlift at 1 in H.
  destruct (round0 cand ceqb SKFpv (pv_profile p)) as [s0|e]; [|discriminate]. cbn [ok] in H.
  destruct (pv_loop_prefix _ _ _ _ _ _ _ _ _ _ H) as [more ->].
  exists s0, more. split; reflexivity.
Qed.

(* what IS invariant: two successful PluralityVeto runs on equivalent profiles (whole-number
   weights) start with equivalent round-0 records *)
Theorem pv_first_round_anonymous : forall m tb p p' (s1 s1' s2 s2' : mstate) sts sts',
  wf_profile p -> wf_profile p' -> integral_wts (ballots p) -> integral_wts (ballots p') ->
  profile_equiv p p' ->
  run_pv cand ceqb m tb p s1 = inl (sts, s1') -> run_pv cand ceqb m tb p' s2 = inl (sts', s2') ->
  exists a0 l b0 l', sts = a0 :: l /\ sts' = b0 :: l' /\ state_equiv a0 b0.
Proof.
  intros m tb p p' s1 s1' s2 s2' sts sts' Hw Hw' Hi Hi' He H H'.
  destruct (pv_run_round0 m tb p s1 s1' sts (proj1 Hw) H) as [a0 [l [-> Ea]]].
  destruct (pv_run_round0 m tb p' s2 s2' sts' (proj1 Hw') H') as [b0 [l' [-> Eb]]].
  exists a0, l, b0, l'. split; [reflexivity|split; [reflexivity|]].
  pose proof (pv_round0_anonymous p p' Hw Hw' Hi Hi' He) as H0. rewrite Ea, Eb in H0. exact H0.
Qed.

End PvAnon.
