(* Proofs/C08_scripts2.v — property C08, anonymity of the STV family beyond the deterministic
   path: EVERY tiebreak setting and EVERY draw script, as long as the transfer is not the random
   one.  The script is then consulted only by [tiebreak_set] (the election tiebreak of the
   one-by-one mode and the first-place elimination tiebreak on the initial profile), and a recorded
   order answers any listing of the same tied set (Proofs/C08_scripts.v).

   The step lemma is stated for a recorded round [prev] that need not belong to the current profile
   (only its internal shape [state_int_ok] is used) so that it also serves the get_profile replay of
   Alaska, which may diverge from the recorded run when it draws again. *)
From Coq Require Import List ZArith QArith Bool Permutation Lia Lqa Setoid Morphisms.
From VK Require Import Base Core STV Pairwise Rules.
From VK.Spec Require Import Content ScoreSpec EditSpec Anon AnonRules.
From VK.Proofs Require Import Lib_sets Lib_content Lib_condense C11_condense C04_scoring C12_edit Elect
  C08_anon C08_stv C08_pairwise C08_rules C08_dictator C08_scripts.
Import ListNotations.
Open Scope Q_scope.

Lemma forallb_perm : forall {A} (f : A -> bool) l l', Permutation l l' -> forallb f l = forallb f l'.
Proof.
  intros A f l l' H. induction H as [|x l l' _ IH|x y l|l l' l'' _ IH1 _ IH2]; cbn [forallb].
  - reflexivity.
  - rewrite IH. reflexivity.
  - destruct (f x); destruct (f y); reflexivity.
  - congruence.
Qed.

Lemma forallb_ext_in_local : forall {A} (f g : A -> bool) l,
  (forall a, In a l -> f a = g a) -> forallb f l = forallb g l.
Proof.
  intros A f g l H. induction l as [|a l IH]; [reflexivity|]. cbn [forallb].
  rewrite (H a (or_introl eq_refl)), IH; [reflexivity|]. intros x Hx. apply H. right. exact Hx.
Qed.

Lemma Forall2_weaken : forall {A B} (R R' : A -> B -> Prop) l l',
  (forall a b, R a b -> R' a b) -> Forall2 R l l' -> Forall2 R' l l'.
Proof. intros A B R R' l l' H H2. induction H2; constructor; auto. Qed.

Section Scripts2.
Variable cand : Type.
Variable ceqb : cand -> cand -> bool.
Hypothesis ceqb_spec : forall a b, reflect (a = b) (ceqb a b).

Notation cset := (cset cand).
Notation ranking := (ranking cand).
Notation scores := (scores cand).
Notation ballot := (ballot cand).
Notation profile := (profile cand).
Notation mstate := (mstate cand).
Notation estate := (estate cand).
Notation memb := (memb cand ceqb).
Notation flat := (flat cand).
Notation set_diff := (set_diff cand ceqb).
Notation pile := (pile cand ceqb).
Notation dist_eq := (dist_eq cand ceqb).
Notation groups_equiv := (groups_equiv cand).
Notation scores_equiv := (scores_equiv cand).
Notation tiebreak_equiv := (tiebreak_equiv cand).
Notation state_equiv := (state_equiv cand).
Notation profile_equiv := (profile_equiv cand ceqb).
Notation wf_profile := (wf_profile cand).
Notation stv_domain := (stv_domain cand).
Notation stv_state_ok := (stv_state_ok cand).
Notation stv_step_equiv := (stv_step_equiv cand ceqb).
Notation elect_equiv_tb := (elect_equiv_tb cand).
Notation mstate_equiv := (mstate_equiv cand ceqb).
Notation mres_equiv_log := (mres_equiv_log cand ceqb).
Notation popt_ok := (popt_ok cand ceqb).
Notation mbind_log := (mbind_log cand ceqb).
Notation mret_log := (mret_log cand ceqb).
Notation mlift_log := (mlift_log cand ceqb).
Notation np_equiv := (np_equiv cand ceqb).
Notation mid_equiv := (mid_equiv cand ceqb).
Notation small_groups := (small_groups cand).
Notation uniform := (uniform cand ceqb).
Notation tr_zero := C08_stv.tr_zero.
Notation tr_out := (tr_out cand ceqb).
Notation transfers := (transfers cand ceqb).
Notation pool := (pool cand ceqb).
Notation next_profile := (next_profile cand ceqb).
Notation elim_pick := (elim_pick cand ceqb).
Notation ranked := (ranked cand).
Notation lookup0 := (lookup0 cand ceqb).

(* ------------------------------------------------------------------ *)
(** * Plumbing *)

(* a bind whose continuation also learns where its argument came from *)
Lemma mbind_log_eq : forall {A B} (R : A -> A -> Prop) (R2 : B -> B -> Prop)
    (x y : M cand A) (f g : A -> M cand B) (s s' : mstate),
  mres_equiv_log R (x s) (y s') ->
  (forall a b s1 s1', x s = inl (a, s1) -> y s' = inl (b, s1') -> R a b -> mstate_equiv s1 s1' ->
     mres_equiv_log R2 (f a s1) (g b s1')) ->
  mres_equiv_log R2 (mbind x f s) (mbind y g s').
Proof.
  intros A B R R2 x y f g s s' H Hf. unfold mbind.
  destruct (x s) as [[a s1]|e]; destruct (y s') as [[b s2]|e']; cbn in H; try contradiction.
  - destruct H as [HR Hs]. apply Hf; try reflexivity; assumption.
  - exact H.
Qed.

(* ------------------------------------------------------------------ *)
(** * What is used of a recorded round *)

(* the tallies have distinct keys and the remaining-ranking is those tallies sorted *)
Definition state_int_ok (st : estate) : Prop :=
  NoDup (map fst (escores st)) /\ remaining st = score_to_ranking cand (escores st) true.

Lemma state_ok_int : forall p st, NoDup (cands p) -> stv_state_ok p st -> state_int_ok st.
Proof. intros p st Hnd [Hk Hr]. split; [rewrite Hk; exact Hnd|exact Hr]. Qed.

Lemma int_uniform : forall st, state_int_ok st -> uniform (remaining st) (escores st).
Proof.
  intros st [Hn Hr].
  apply (state_uniform cand ceqb ceqb_spec (mkProfile [] (map fst (escores st))) st); [exact Hn|].
  split; [reflexivity|exact Hr].
Qed.

Lemma int_flat : forall st, state_int_ok st -> Permutation (flat (remaining st)) (map fst (escores st)).
Proof. intros st [_ Hr]. rewrite Hr. apply score_to_ranking_flat_perm_all. Qed.

Lemma int_lookup : forall st st', state_int_ok st -> state_int_ok st' -> state_equiv st st' ->
  forall c, lookup0 c (escores st) == lookup0 c (escores st').
Proof.
  intros st st' [Hn _] [Hn' _] He c. apply (lookup0_equiv cand ceqb ceqb_spec); try assumption. apply He.
Qed.

(* ------------------------------------------------------------------ *)
(** * The tiebreak answers with groups of at most one candidate *)

Lemma singletons_small : forall l : list cand, small_groups (singletons cand l).
Proof.
  intros l. unfold C08_stv.small_groups, Core.singletons. apply Forall_forall. intros g Hg.
  apply in_map_iff in Hg. destruct Hg as [c [<- _]]. cbn [length]. lia.
Qed.

Lemma tiebreak_set_small : forall g p k (s s' : mstate) t,
  tiebreak_set cand ceqb g p k s = inl (t, s') -> small_groups t.
Proof.
  intros g p k s s' t H. pose proof (tiebreak_set_inv cand ceqb ceqb_spec _ _ _ _ _ _ H) as Hi.
  assert (Hsc : forall d, tb_scored cand ceqb g d t -> small_groups t).
  { intros d [[_ ->]|[_ [l [-> _]]]]; [|apply singletons_small].
    constructor; [cbn [length]; lia|constructor]. }
  destruct k.
  - destruct Hi as [l [-> _]]. apply singletons_small.
  - destruct Hi as [pr [d [_ [_ Hd]]]]. exact (Hsc d Hd).
  - destruct Hi as [pr [d [_ [_ Hd]]]]. exact (Hsc d Hd).
  - destruct Hi.
Qed.

(* electing one candidate: at most one name comes back *)
Lemma elect_top_1_small : forall r p tb (s s' : mstate) el rem tbi,
  elect_top_m cand ceqb r 1 p tb s = inl ((el, rem, tbi), s') -> (length (flat el) <= 1)%nat.
Proof.
  intros r p tb s s' el rem tbi H.
  destruct (elect_top_m_shape cand ceqb _ _ _ _ _ _ _ _ _ H) as [_ [[_ [_ [_ Hn]]]|Hx]]; [lia|].
  destruct Hx as [pre [g [post [t [kind [k [_ [_ [Hk [Hk0 [_ [Ht [Hel _]]]]]]]]]]]]]. subst el.
  assert (k = 1%nat /\ length (flat pre) = 0%nat) by lia. destruct H0 as [-> Hp].
  rewrite (flat_app cand), app_length, Hp. cbn [plus].
  pose proof (tiebreak_set_small _ _ _ _ _ _ Ht) as Hs.
  destruct t as [|g0 t0]; [cbn; lia|]. cbn [firstn]. rewrite (flat_cons cand). cbn [Core.flat concat].
  rewrite app_nil_r. inversion Hs; subst. assumption.
Qed.

(* ------------------------------------------------------------------ *)
(** * All the transfers of a simultaneous election, membership checks included *)

(* the first failing check, if any *)
Fixpoint tr_err (k : transfer_kind) (ws : list cand) (cs : cset) (d : scores) : option exn :=
  match ws with
  | [] => None
  | w :: ws' =>
      if negb (memb w cs) then Some EKey
      else if tr_zero k (lookup0 w d) then Some EZeroDiv else tr_err k ws' cs d
  end.

Lemma transfer_all_gen : forall k ws (p : profile) (d : scores) t (s : mstate),
  k <> TRandom -> ranked (ballots p) ->
  transfer_all cand ceqb k ws p d t s =
  match tr_err k ws (cands p) d with
  | Some e => inr e
  | None => inl (transfers k ws p d t, s)
  end.
Proof.
  intros k ws p d t s Hk Hr. induction ws as [|w ws IH]; [reflexivity|].
  cbn [STV.transfer_all tr_err]. destruct (memb w (cands p)); cbn [negb]; [|reflexivity].
  unfold mbind.
  assert (Hrp : ranked (pile p w)).
  { unfold C08_stv.ranked, Core.pile. apply Forall_forall. intros b Hb. apply filter_In in Hb.
    unfold C08_stv.ranked in Hr. rewrite Forall_forall in Hr. apply Hr, Hb. }
  rewrite (do_transfer_det cand ceqb k w _ _ t s Hk Hrp).
  destruct (tr_zero k (lookup0 w d)); [reflexivity|].
  rewrite IH. destruct (tr_err k ws (cands p) d); reflexivity.
Qed.

Lemma tr_err_all_in : forall k ws cs d, incl ws cs ->
  tr_err k ws cs d = if existsb (fun w => tr_zero k (lookup0 w d)) ws then Some EZeroDiv else None.
Proof.
  intros k ws cs d. induction ws as [|w ws IH]; intros Hi; [reflexivity|]. cbn [tr_err existsb].
  rewrite (proj2 (Lib_sets.memb_In cand ceqb ceqb_spec w cs) (Hi w (or_introl eq_refl))). cbn [negb].
  destruct (tr_zero k (lookup0 w d)); [reflexivity|]. cbn [orb].
  apply IH. intros x Hx. apply Hi. right. exact Hx.
Qed.

Lemma tr_err_no_zero : forall k ws cs d, (forall w, In w ws -> tr_zero k (lookup0 w d) = false) ->
  tr_err k ws cs d = if forallb (fun w => memb w cs) ws then None else Some EKey.
Proof.
  intros k ws cs d. induction ws as [|w ws IH]; intros Hz; [reflexivity|]. cbn [tr_err forallb].
  destruct (memb w cs); cbn [negb andb]; [|reflexivity].
  rewrite (Hz w (or_introl eq_refl)). apply IH. intros x Hx. apply Hz. right. exact Hx.
Qed.

Lemma tr_err_equiv : forall k ws ws' cs cs' (d d' : scores),
  Permutation ws ws' -> Permutation cs cs' -> (forall c, lookup0 c d == lookup0 c d') ->
  (incl ws cs \/ forall w, In w ws -> tr_zero k (lookup0 w d) = false) ->
  tr_err k ws cs d = tr_err k ws' cs' d'.
Proof.
  intros k ws ws' cs cs' d d' Hw Hc Hl [Hi|Hz].
  - rewrite (tr_err_all_in k ws cs d Hi), (tr_err_all_in k ws' cs' d').
    + rewrite (existsb_perm _ ws ws' Hw).
      rewrite (existsb_ext_in (fun w => tr_zero k (lookup0 w d)) (fun w => tr_zero k (lookup0 w d')) ws');
        [reflexivity|]. intros w _. apply tr_zero_comp, Hl.
    + intros x Hx. eapply Permutation_in; [exact Hc|]. apply Hi.
      eapply Permutation_in; [apply Permutation_sym; exact Hw|exact Hx].
  - rewrite (tr_err_no_zero k ws cs d Hz), (tr_err_no_zero k ws' cs' d').
    + rewrite (forallb_perm _ ws ws' Hw).
      rewrite (forallb_ext_in_local (fun w => memb w cs) (fun w => memb w cs') ws'); [reflexivity|].
      intros w _. apply (memb_seteq cand ceqb ceqb_spec). apply (perm_seteq cand). exact Hc.
    + intros w Hin. rewrite <- (tr_zero_comp k _ _ (Hl w)). apply Hz.
      eapply Permutation_in; [apply Permutation_sym; exact Hw|exact Hin].
Qed.

(* everybody in the groups that reached the quota has a tally >= t *)
Lemma quota_groups_ge : forall r (d : scores) t el, uniform r d ->
  quota_groups cand ceqb r d t = inl el ->
  forall c, In c (flat el) -> Qle_bool t (lookup0 c d) = true.
Proof.
  induction r as [|g r IH]; intros d t el Hu H c Hc; cbn [STV.quota_groups] in H.
  - inversion H; subst. destruct Hc.
  - destruct g as [|c0 g0]; [discriminate|].
    destruct (STV.score_ge cand ceqb d t c0) eqn:Eg.
    + destruct (quota_groups cand ceqb r d t) as [x|e] eqn:E; cbn [rbind ok] in H; [|discriminate].
      inversion H; subst el. rewrite (flat_cons cand) in Hc. apply in_app_or in Hc. destruct Hc as [Hc|Hc].
      * unfold STV.score_ge in Eg. rewrite <- Eg. apply Qle_bool_comp; [reflexivity|].
        apply (Hu (c0 :: g0)); [left; reflexivity|exact Hc|left; reflexivity].
      * apply (IH d t x); [|exact E|exact Hc]. intros g c1 c2 Hg. apply Hu. right. exact Hg.
    + inversion H; subst. destruct Hc.
Qed.

Lemma pos_not_zero : forall k t x, 0 < t -> Qle_bool t x = true -> tr_zero k x = false.
Proof.
  intros k t x Ht Hx. destruct k; try reflexivity. cbn [C08_stv.tr_zero].
  apply Qle_bool_iff in Hx. apply not_true_is_false. intros H. apply Qeq_bool_iff in H. lra.
Qed.

Lemma domain_popt : forall p p', stv_domain p -> stv_domain p' -> profile_equiv p p' ->
  popt_ok (Some p) (Some p').
Proof.
  intros p p' Hd Hd' He. cbn [C08_rules.popt_ok].
  split; [apply (domain_wf cand p Hd)|split; [apply (domain_wf cand p' Hd')|exact He]].
Qed.

(* ------------------------------------------------------------------ *)
(** * The election rounds, any source state *)

Section Step.
Variable cfg : stv_cfg.
Variable t : Q.
Variables p p' : profile.
Variables prev prev' : estate.
Hypothesis Htr : s_transfer cfg <> TRandom.
Hypothesis Hd : stv_domain p.
Hypothesis Hd' : stv_domain p'.
Hypothesis He : profile_equiv p p'.
Hypothesis Hst : state_int_ok prev.
Hypothesis Hst' : state_int_ok prev'.
Hypothesis Hse : state_equiv prev prev'.

Let Hl := int_lookup prev prev' Hst Hst' Hse.
Let Hrem : groups_equiv (remaining prev) (remaining prev') := proj1 (proj2 Hse).

Lemma simultaneous_log : forall s s' : mstate, mstate_equiv s s' ->
  ((0 < t \/ s_transfer cfg = TFullWeight) \/ map fst (escores prev) = cands p) ->
  mres_equiv_log (fun x y => groups_equiv (fst x) (fst y) /\ np_equiv (snd x) (snd y))
    (simultaneous_elect cand ceqb cfg t p prev s) (simultaneous_elect cand ceqb cfg t p' prev' s').
Proof.
  intros s s' Hs Hsafe. unfold STV.simultaneous_elect, mbind, mlift.
  pose proof (quota_groups_anonymous cand ceqb (remaining prev) (remaining prev') (escores prev) (escores prev') t
                Hrem (int_uniform prev Hst) Hl) as Hq.
  destruct (quota_groups cand ceqb (remaining prev) (escores prev) t) as [el|e] eqn:Eq;
  destruct (quota_groups cand ceqb (remaining prev') (escores prev') t) as [el'|e'] eqn:Eq';
    cbn [res_equiv] in Hq; try contradiction; [|subst e'; exact eq_refl].
  cbn [ok]. rewrite (bbfc_ok cand ceqb ceqb_spec p Hd), (bbfc_ok cand ceqb ceqb_spec p' Hd'). cbn [ok].
  rewrite (transfer_all_gen _ _ p _ t s Htr (all_ok_ranked cand _ _ (proj2 Hd))).
  rewrite (transfer_all_gen _ _ p' _ t s' Htr (all_ok_ranked cand _ _ (proj2 Hd'))).
  pose proof (groups_equiv_flat cand el el' Hq) as Hwp.
  assert (Hcond : incl (flat el) (cands p) \/
                  forall w, In w (flat el) -> tr_zero (s_transfer cfg) (lookup0 w (escores prev)) = false).
  { destruct Hsafe as [[Hpos|Hfull]|Hkeys].
    - right. intros w Hw. apply (pos_not_zero _ t); [exact Hpos|].
      apply (quota_groups_ge _ _ _ _ (int_uniform prev Hst) Eq). exact Hw.
    - right. intros w _. rewrite Hfull. reflexivity.
    - left. intros c Hc. rewrite <- Hkeys. apply (Permutation_in _ (int_flat prev Hst)).
      apply (quota_groups_incl cand ceqb _ _ _ _ Eq). exact Hc. }
  rewrite <- (tr_err_equiv (s_transfer cfg) (flat el) (flat el') (cands p) (cands p')
                (escores prev) (escores prev') Hwp (proj2 He) Hl Hcond).
  destruct (tr_err (s_transfer cfg) (flat el) (cands p) (escores prev)); [exact eq_refl|].
  assert (Hoth : Permutation (set_diff (flat (remaining prev)) (flat el))
                             (set_diff (flat (remaining prev')) (flat el'))).
  { rewrite <- (set_diff_seteq cand ceqb ceqb_spec _ _ _ (perm_seteq cand _ _ Hwp)).
    unfold Core.set_diff. apply Permutation_filter_local. apply (groups_equiv_flat cand). exact Hrem. }
  rewrite <- (subsetb_perm_r cand ceqb ceqb_spec _ _ _ (proj2 He)).
  rewrite <- (subsetb_perm_l cand ceqb ceqb_spec (cands p) _ _ Hoth).
  destruct (subsetb cand ceqb (set_diff (flat (remaining prev)) (flat el)) (cands p)); cbn [negb];
    [|exact eq_refl].
  fold (pool (transfers (s_transfer cfg) (flat el) p (escores prev) t) p (set_diff (flat (remaining prev)) (flat el))).
  fold (pool (transfers (s_transfer cfg) (flat el') p' (escores prev') t) p' (set_diff (flat (remaining prev')) (flat el'))).
  rewrite (mk_next_ok cand ceqb ceqb_spec _ _ _ (proj1 Hd)), (mk_next_ok cand ceqb ceqb_spec _ _ _ (proj1 Hd')).
  cbn. split; [|exact Hs]. split; [exact Hq|].
  destruct (transfers_anonymous cand ceqb ceqb_spec (s_transfer cfg) (flat el) (flat el') p p' (escores prev) (escores prev') t
              Hwp (domain_nonneg cand p Hd) (domain_nonneg cand p' Hd') (proj1 He) Hl) as [_ Hm].
  apply (rebuild_anonymous cand ceqb ceqb_spec p p' Hd Hd' He).
  - apply (perm_seteq cand). exact Hwp.
  - exact Hm.
  - unfold C08_stv.transfers. apply (concat_ok cand). intros c. apply (tr_out_ok cand ceqb ceqb_spec), (pile_ok cand ceqb), Hd.
  - unfold C08_stv.transfers. apply (concat_ok cand). intros c. apply (tr_out_ok cand ceqb ceqb_spec), (pile_ok cand ceqb), Hd'.
  - exact Hoth.
Qed.

Lemma single_log : forall s s' : mstate, mstate_equiv s s' ->
  mres_equiv_log (fun x y => groups_equiv (fst (fst x)) (fst (fst y)) /\
                              Forall2 tiebreak_equiv (snd (fst x)) (snd (fst y)) /\ np_equiv (snd x) (snd y))
    (single_elect cand ceqb cfg t p prev s) (single_elect cand ceqb cfg t p' prev' s').
Proof.
  intros s s' Hs. unfold STV.single_elect.
  apply (mbind_log_eq elect_equiv_tb).
  { apply (elect_top_m_log cand ceqb ceqb_spec); [exact Hrem| |exact Hs]. right. apply domain_popt; assumption. }
  intros [[el rem] tb] [[el' rem'] tb'] s1 s1' E1 E1' [Hel [Hrm Ht]] Hs1. cbn [fst snd] in Hel, Hrm, Ht.
  pose proof (elect_top_1_small _ _ _ _ _ _ _ _ E1) as Hn.
  pose proof (groups_equiv_flat cand el el' Hel) as Hfl.
  assert (Hn' : (length (flat el') <= 1)%nat) by (rewrite <- (Permutation_length Hfl); exact Hn).
  unfold mbind, mlift. rewrite (bbfc_ok cand ceqb ceqb_spec p Hd), (bbfc_ok cand ceqb ceqb_spec p' Hd'). cbn [ok].
  destruct Hel as [|g g' el1 el1' Hg Hel1]; [exact eq_refl|].
  destruct g as [|w g0]; [apply Permutation_nil in Hg; subst g'; exact eq_refl|].
  assert (Hone : forall (x : cand) (h : list cand) (r : ranking),
            (length (flat ((x :: h) :: r)) <= 1)%nat -> h = [] /\ flat r = []).
  { intros x h r Hlen. rewrite (flat_cons cand) in Hlen. cbn [length app] in Hlen. rewrite app_length in Hlen.
    destruct h as [|y h]; [|cbn [length] in Hlen; lia]. split; [reflexivity|].
    destruct (flat r); [reflexivity|cbn [length] in Hlen; lia]. }
  destruct (Hone w g0 el1 Hn) as [-> Hf1]. apply Permutation_length_1_inv in Hg. subst g'.
  destruct (Hone w [] el1' Hn') as [_ Hf1'].
  rewrite <- (memb_seteq cand ceqb ceqb_spec (cands p) (cands p') w (perm_seteq cand _ _ (proj2 He))).
  destruct (memb w (cands p)); cbn [negb]; [|exact eq_refl].
  assert (Hrp : forall q : profile, stv_domain q -> ranked (pile q w)).
  { intros q Hq. apply (all_ok_ranked cand (cands q)). apply (pile_ok cand ceqb). apply Hq. }
  rewrite (do_transfer_det cand ceqb _ w _ _ t s1 Htr (Hrp p Hd)), (do_transfer_det cand ceqb _ w _ _ t s1' Htr (Hrp p' Hd')).
  rewrite <- (tr_zero_comp (s_transfer cfg) _ _ (Hl w)).
  destruct (tr_zero (s_transfer cfg) (lookup0 w (escores prev))); [exact eq_refl|].
  pose proof (groups_equiv_flat cand rem rem' Hrm) as Hfr.
  rewrite <- (subsetb_perm_r cand ceqb ceqb_spec _ _ _ (proj2 He)).
  rewrite <- (subsetb_perm_l cand ceqb ceqb_spec (cands p) _ _ Hfr).
  destruct (subsetb cand ceqb (flat rem) (cands p)); cbn [negb]; [|exact eq_refl].
  assert (Hfe : flat ([w] :: el1) = [w]) by (rewrite (flat_cons cand), Hf1; reflexivity).
  assert (Hfe' : flat ([w] :: el1') = [w]) by (rewrite (flat_cons cand), Hf1'; reflexivity).
  rewrite Hfe, Hfe'.
  fold (pool (tr_out (s_transfer cfg) w (lookup0 w (escores prev)) t (pile p w)) p (flat rem)).
  fold (pool (tr_out (s_transfer cfg) w (lookup0 w (escores prev')) t (pile p' w)) p' (flat rem')).
  rewrite (mk_next_ok cand ceqb ceqb_spec _ _ _ (proj1 Hd)), (mk_next_ok cand ceqb ceqb_spec _ _ _ (proj1 Hd')).
  cbn. split; [|exact Hs1]. split; [constructor; [apply Permutation_refl|exact Hel1]|].
  split; [apply (opt_tb_list cand); exact Ht|].
  apply (rebuild_anonymous cand ceqb ceqb_spec p p' Hd Hd' He).
  - intros c; reflexivity.
  - apply (tr_out_anonymous cand ceqb ceqb_spec);
      [apply (nonneg_filter cand), (domain_nonneg cand p Hd)
      |apply (nonneg_filter cand), (domain_nonneg cand p' Hd')|apply Hl
      |apply (pile_anonymous cand ceqb ceqb_spec), He].
  - apply (tr_out_ok cand ceqb ceqb_spec), (pile_ok cand ceqb), Hd.
  - apply (tr_out_ok cand ceqb ceqb_spec), (pile_ok cand ceqb), Hd'.
  - exact Hfr.
Qed.

End Step.

(* ------------------------------------------------------------------ *)
(** * The elimination round: first-place tiebreak on the initial profile, any script *)

Lemma elim_pick_log : forall lowest lowest' p0 p0' (s s' : mstate),
  mstate_equiv s s' -> stv_domain p0 -> stv_domain p0' -> profile_equiv p0 p0' -> Permutation lowest lowest' ->
  mres_equiv_log (fun x y => fst x = fst y /\ Forall2 tiebreak_equiv (snd x) (snd y))
    (elim_pick lowest p0 s) (elim_pick lowest' p0' s').
Proof.
  intros lowest lowest' p0 p0' s s' Hs Hd Hd' He Hp. unfold C08_stv.elim_pick.
  destruct lowest as [|c [|c2 l]].
  - apply Permutation_nil in Hp. subst lowest'. exact eq_refl.
  - apply Permutation_length_1_inv in Hp. subst lowest'. apply mret_log; [|exact Hs]. split; [reflexivity|constructor].
  - destruct lowest' as [|c' [|c2' l']];
      try (apply Permutation_length in Hp; cbn [length] in Hp; lia).
    apply (mbind_log_eq groups_equiv).
    + apply (tiebreak_set_log cand ceqb ceqb_spec); [apply domain_popt; assumption|exact Hp|exact Hs].
    + intros tb tb' s1 s1' E E' Ht Hs1.
      pose proof (tiebreak_set_small _ _ _ _ _ _ E) as Hsm.
      assert (Hsr : small_groups (rev tb)).
      { unfold C08_stv.small_groups in *. rewrite Forall_forall in Hsm |- *. intros g Hg. apply Hsm. apply in_rev. exact Hg. }
      remember (rev tb) as rtb eqn:Ertb. remember (rev tb') as rtb' eqn:Ertb'.
      assert (Hrv : Forall2 (@Permutation cand) rtb rtb') by (subst rtb rtb'; apply Forall2_rev; exact Ht).
      clear Ertb Ertb'.
      destruct Hrv as [|g g' rt rt' Hg _]; [exact eq_refl|].
      destruct g as [|x g0]; [apply Permutation_nil in Hg; subst g'; exact eq_refl|].
      unfold C08_stv.small_groups in Hsr. inversion Hsr as [|y z Hlen _]; subst.
      destruct g0 as [|x2 g0]; [|cbn [length] in Hlen; lia].
      apply Permutation_length_1_inv in Hg. subst g'.
      apply mret_log; [|exact Hs1]. split; [reflexivity|].
      constructor; [|constructor]. split; cbn [fst snd]; [exact Hp|exact Ht].
Qed.

(* ------------------------------------------------------------------ *)
(** * The last part of a step, any source state *)

Lemma finish_log : forall (np np' : profile) r (el el' elim elim' : ranking) tbs tbs' (s s' : mstate),
  mstate_equiv s s' -> profile_equiv np np' -> stv_domain np -> stv_domain np' ->
  groups_equiv el el' -> groups_equiv elim elim' -> Forall2 tiebreak_equiv tbs tbs' ->
  mres_equiv_log stv_step_equiv
    (mbind (mlift (first_place_votes cand ceqb np))
           (fun d => mret (np, state_of_scores cand r el elim tbs d)) s)
    (mbind (mlift (first_place_votes cand ceqb np'))
           (fun d => mret (np', state_of_scores cand r el' elim' tbs' d)) s').
Proof.
  intros np np' r el el' elim elim' tbs tbs' s s' Hs He Hd Hd' Hel Helim Htbs.
  pose proof (first_place_votes_anonymous cand ceqb ceqb_spec np np' (domain_wf cand np Hd) (domain_wf cand np' Hd') He) as H.
  unfold mbind, mlift.
  destruct (first_place_votes cand ceqb np) as [d|e] eqn:E; destruct (first_place_votes cand ceqb np') as [d'|e'] eqn:E';
    cbn [res_equiv] in H; try contradiction; [|subst e'; exact eq_refl].
  pose proof (score_rankings_keys cand ceqb np _ d E) as Hk.
  pose proof (score_rankings_keys cand ceqb np' _ d' E') as Hk'.
  assert (Hn : NoDup (map fst d)) by (rewrite Hk; apply Hd).
  assert (Hn' : NoDup (map fst d')) by (rewrite Hk'; apply Hd').
  cbn. split; [|exact Hs]. unfold Anon.stv_step_equiv. cbn [fst snd].
  split; [exact He|]. split.
  - unfold Anon.state_equiv, STV.state_of_scores. cbn [rnd remaining elected eliminated tiebreaks escores].
    split; [reflexivity|]. split; [apply (ranking_of_scores cand); assumption|].
    split; [exact Hel|]. split; [exact Helim|]. split; [exact Htbs|exact H].
  - split; [exact Hd|]. split; [exact Hd'|]. split; split; cbn; try assumption; reflexivity.
Qed.

(* ------------------------------------------------------------------ *)
(** * One whole step, any tiebreak setting, any script *)

(* when the simultaneous mode cannot meet a zero tally among the winners *)
Definition no_zero_transfer (cfg : stv_cfg) (t : Q) : Prop := 0 < t \/ s_transfer cfg = TFullWeight.

Theorem stv_step_log : forall cfg t p0 p0' n p p' prev prev' (s s' : mstate),
  s_transfer cfg <> TRandom -> mstate_equiv s s' ->
  stv_domain p0 -> stv_domain p0' -> profile_equiv p0 p0' ->
  stv_domain p -> stv_domain p' -> profile_equiv p p' ->
  state_int_ok prev -> state_int_ok prev' -> state_equiv prev prev' ->
  (s_simul cfg = true -> no_zero_transfer cfg t \/ map fst (escores prev) = cands p) ->
  mres_equiv_log stv_step_equiv
    (stv_step cand ceqb cfg t p0 n p prev s) (stv_step cand ceqb cfg t p0' n p' prev' s').
Proof.
  intros cfg t p0 p0' n p p' prev prev' s s' Htr Hs Hd0 Hd0' He0 Hd Hd' He Hst Hst' Hse Hsim.
  unfold STV.stv_step. cbv zeta.
  apply (mbind_log mid_equiv).
  - rewrite !match_nonempty.
    rewrite <- (above_agree cand (escores prev) (escores prev') t (proj2 (proj2 (proj2 (proj2 (proj2 Hse)))))).
    destruct (nonempty (filter (fun q : cand * Q => Qle_bool t (snd q)) (escores prev))).
    + destruct (s_simul cfg).
      * apply (mbind_log (fun x y => groups_equiv (fst x) (fst y) /\ np_equiv (snd x) (snd y))).
        -- apply simultaneous_log; try assumption. apply Hsim. reflexivity.
        -- intros [el np] [el' np'] s1 s1' [H1 H2] Hs1. cbn [fst snd] in H1, H2. apply mret_log; [|exact Hs1].
           unfold C08_stv.mid_equiv. cbn [fst snd]. split; [exact H1|]. split; [apply no_group_equiv|]. split; [constructor|exact H2].
      * apply (mbind_log (fun x y => groups_equiv (fst (fst x)) (fst (fst y)) /\
                           Forall2 tiebreak_equiv (snd (fst x)) (snd (fst y)) /\ np_equiv (snd x) (snd y))).
        -- apply single_log; assumption.
        -- intros [[el tbs] np] [[el' tbs'] np'] s1 s1' [H1 [H2 H3]] Hs1. cbn [fst snd] in H1, H2, H3.
           apply mret_log; [|exact Hs1].
           unfold C08_stv.mid_equiv. cbn [fst snd]. split; [exact H1|]. split; [apply no_group_equiv|]. split; assumption.
    + rewrite <- (Permutation_length (proj2 He)).
      destruct (Z.of_nat (length (cands p)) =? s_m cfg - n)%Z.
      * apply mret_log; [|exact Hs]. unfold C08_stv.mid_equiv. cbn [fst snd].
        split; [apply Hse|]. split; [apply no_group_equiv|]. split; [constructor|].
        split; [split; [apply (dist_eq_refl cand ceqb)|apply Permutation_refl]|split; apply (empty_domain cand)].
      * remember (rev (remaining prev)) as rr eqn:Err. remember (rev (remaining prev')) as rr' eqn:Err'.
        assert (Hrv : Forall2 (@Permutation cand) rr rr') by (subst rr rr'; apply Forall2_rev; apply Hse).
        clear Err Err'.
        destruct Hrv as [|lowest lowest' rt rt' Hlow _]; [exact eq_refl|].
        apply (mbind_log (fun x y => fst x = fst y /\ Forall2 tiebreak_equiv (snd x) (snd y))).
        -- apply (elim_pick_log lowest lowest' p0 p0' s s'); assumption.
        -- intros [x tbs] [x' tbs'] s1 s1' [Hx Htbs] Hs1. cbn [fst snd] in Hx, Htbs. subst x'.
           unfold mbind, mlift.
           rewrite (remove_cand_prof_next cand ceqb ceqb_spec [x] p (proj1 Hd)), (remove_cand_prof_next cand ceqb ceqb_spec [x] p' (proj1 Hd')).
           cbn. split; [|exact Hs1]. unfold C08_stv.mid_equiv. cbn [fst snd].
           split; [apply no_group_equiv|]. split; [constructor; [apply Permutation_refl|constructor]|].
           split; [exact Htbs|]. split; [|split].
           ++ apply (next_profile_anonymous cand ceqb ceqb_spec);
                [apply (domain_nonneg cand p Hd)|apply (domain_nonneg cand p' Hd')
                |intros c; reflexivity|apply He|apply He].
           ++ apply (next_profile_domain cand ceqb ceqb_spec); [apply Hd|apply Hd].
           ++ apply (next_profile_domain cand ceqb ceqb_spec); [apply Hd'|apply Hd'].
  - intros [[[el elim] tbs] np] [[[el' elim'] tbs'] np'] s1 s1' [H1 [H2 [H3 [H4 [H5 H6]]]]] Hs1.
    cbn [fst snd] in H1, H2, H3, H4, H5, H6.
    rewrite (proj1 Hse). apply finish_log; assumption.
Qed.

(* ------------------------------------------------------------------ *)
(** * The whole count *)

(* related rounds, both of the recorded shape *)
Definition st_rel (a b : estate) : Prop := state_equiv a b /\ state_int_ok a /\ state_int_ok b.

Lemma st_rel_equiv : forall l l', Forall2 st_rel l l' -> Forall2 state_equiv l l'.
Proof. intros l l'. apply Forall2_weaken. intros a b H. apply H. Qed.

Lemma stv_loop_log : forall fuel cfg t p0 p0',
  s_transfer cfg <> TRandom -> stv_domain p0 -> stv_domain p0' -> profile_equiv p0 p0' ->
  forall p p' sts sts' (s s' : mstate), mstate_equiv s s' ->
  stv_domain p -> stv_domain p' -> profile_equiv p p' ->
  Forall2 st_rel sts sts' ->
  (forall prev prev' l l', sts = prev :: l -> sts' = prev' :: l' ->
     stv_state_ok p prev /\ stv_state_ok p' prev') ->
  mres_equiv_log (Forall2 st_rel)
    (stv_loop cand ceqb fuel cfg t p0 p sts s) (stv_loop cand ceqb fuel cfg t p0' p' sts' s').
Proof.
  intros fuel cfg t p0 p0' Htr Hd0 Hd0' He0.
  induction fuel as [|fuel IH]; intros p p' sts sts' s s' Hs Hd Hd' He Hsts Hhead.
  - cbn [STV.stv_loop]. rewrite <- (count_elected_equiv cand sts sts' (st_rel_equiv _ _ Hsts)).
    destruct (count_elected cand sts =? s_m cfg)%Z; [|exact eq_refl].
    apply mret_log; [apply Forall2_rev; exact Hsts|exact Hs].
  - cbn [STV.stv_loop]. rewrite <- (count_elected_equiv cand sts sts' (st_rel_equiv _ _ Hsts)).
    destruct (count_elected cand sts =? s_m cfg)%Z.
    + apply mret_log; [apply Forall2_rev; exact Hsts|exact Hs].
    + destruct Hsts as [|prev prev' sts sts' Hprev Hsts]; [exact eq_refl|].
      destruct (Hhead prev prev' sts sts' eq_refl eq_refl) as [Hok Hok'].
      apply (mbind_log stv_step_equiv).
      * destruct Hprev as [Hpe [Hi Hi']].
        apply stv_step_log; try assumption. intros _. right. apply Hok.
      * intros [np st] [np' st'] s1 s1' [H1 [H2 [H3 [H4 [H5 H6]]]]] Hs1. cbn [fst snd] in H1, H2, H3, H4, H5, H6.
        apply IH; try assumption.
        -- constructor; [|constructor; assumption].
           split; [exact H2|]. split; [apply (state_ok_int np st (proj1 H3) H5)|apply (state_ok_int np' st' (proj1 H4) H6)].
        -- intros a a' l l' Ea Ea'. inversion Ea; inversion Ea'; subst. split; assumption.
Qed.

Theorem run_stv_log : forall cfg p p' (s s' : mstate),
  s_transfer cfg <> TRandom -> mstate_equiv s s' ->
  stv_domain p -> stv_domain p' -> profile_equiv p p' ->
  mres_equiv_log (Forall2 st_rel) (run_stv cand ceqb cfg p s) (run_stv cand ceqb cfg p' s').
Proof.
  intros cfg p p' s s' Htr Hs Hd Hd' He.
  unfold STV.run_stv, mbind, mlift.
  rewrite (stv_init_anonymous cand ceqb ceqb_spec cfg p p' Hd Hd' He (fun H => False_ind _ (Htr H))).
  destruct (stv_init cand cfg p') as [t|e]; [|exact eq_refl]. cbn [ok].
  pose proof (initial_state_anonymous cand ceqb ceqb_spec p p' Hd Hd' He) as H0.
  destruct (initial_state cand ceqb p) as [s0|e]; destruct (initial_state cand ceqb p') as [s0'|e'];
    cbn [res_equiv] in H0; try contradiction; [|subst e'; exact eq_refl].
  cbn [ok]. rewrite <- (Permutation_length (proj2 He)).
  destruct H0 as [H1 [H2 H3]].
  apply stv_loop_log; try assumption.
  - constructor; [|constructor].
    split; [exact H1|]. split; [apply (state_ok_int p s0 (proj1 Hd) H2)|apply (state_ok_int p' s0' (proj1 Hd') H3)].
  - intros a a' l l' Ea Ea'. inversion Ea; inversion Ea'; subst. split; assumption.
Qed.

(* the rule entry point: equivalent source states, then the same source state *)
Theorem stv_rule_log : forall cfg p p' (s s' : mstate),
  s_transfer cfg <> TRandom -> mstate_equiv s s' ->
  stv_domain p -> stv_domain p' -> profile_equiv p p' ->
  mres_equiv_log (Forall2 state_equiv) (run_rule cand ceqb (RSTV cfg) p s) (run_rule cand ceqb (RSTV cfg) p' s').
Proof.
  intros cfg p p' s s' Htr Hs Hd Hd' He. cbn [Rules.run_rule].
  apply (mres_log_weaken cand ceqb (Forall2 st_rel)); [apply st_rel_equiv|]. apply run_stv_log; assumption.
Qed.

Theorem stv_script_anonymous : forall cfg p p' (s : mstate),
  s_transfer cfg <> TRandom -> stv_domain p -> stv_domain p' -> profile_equiv p p' ->
  mres_equiv_log (Forall2 state_equiv) (run_rule cand ceqb (RSTV cfg) p s) (run_rule cand ceqb (RSTV cfg) p' s).
Proof.
  intros cfg p p' s Htr Hd Hd' He. apply stv_rule_log; try assumption. apply (mstate_equiv_refl cand ceqb).
Qed.

End Scripts2.
