(* Proofs/C01_pv.v — run-level facts about the PluralityVeto model (Model/PV.v):
   P1 [pv_success_shape]   the shape of every successful run: nobody is elected before the last
                           round, the last round elects the whole [remaining] of the round before,
                           at least m candidates;
   P2 [pv_no_elect_never_terminates], [pv_short_elect_never_terminates]
                           once the "as many candidates left as seats" branch has been taken without
                           reaching m winners the loop can only run out of fuel (the real code spins);
   P3 [pv_step_shapes]     the two shapes of one [pv_step];
   P4 [pv_errors_coarse], [pv_args]
                           the [EOther] branch of [pv_loop] is unreachable; bad m gives EValue.
   Two closed examples at the end (a successful run, and the recorded finding
   "plurality-veto-nontermination"). *)
From VK Require Import Base Core STV Rules PV.
From VK.Proofs Require Import Lib_sets.
From Coq Require Import Lia.

(* ------------------------------------------------------------------ *)
(** * inversion of the state-and-error monad (local copies, to keep the imports small) *)

Section PVMonad.
Context {cand : Type}.
Notation M := (M cand).
Notation mstate := (mstate cand).

Lemma pvm_bind_inv : forall {A B} (x : M A) (k : A -> M B) (s : mstate) r,
  mbind x k s = inl r -> exists a s1, x s = inl (a, s1) /\ k a s1 = inl r.
Proof.
  intros A B x k s r H. unfold mbind in H. destruct (x s) as [[a s1]|e]; [|discriminate].
  exists a, s1. split; [reflexivity|exact H].
Qed.

Lemma pvm_bind_ok : forall {A B} (x : M A) (k : A -> M B) (s s1 : mstate) a,
  x s = inl (a, s1) -> mbind x k s = k a s1.
Proof. intros A B x k s s1 a H. unfold mbind. rewrite H. reflexivity. Qed.

Lemma pvm_lift_bind_inv : forall {A B} (r : res A) (k : A -> M B) (s : mstate) out,
  mbind (mlift r) k s = inl out -> exists a, r = inl a /\ k a s = inl out.
Proof.
  intros A B r k s out H. unfold mbind, mlift in H. destruct r as [a|e]; [|discriminate].
  exists a. split; [reflexivity|exact H].
Qed.

Lemma pvm_lift_bind : forall {A B} (r : res A) (k : A -> M B) (s : mstate),
  mbind (mlift r) k s = match r with inl a => k a s | inr e => inr e end.
Proof. intros A B r k s. unfold mbind, mlift. destruct r; reflexivity. Qed.

Lemma pvm_ret_inv : forall {A} (a b : A) (s s1 : mstate), mret a s = inl (b, s1) -> a = b /\ s1 = s.
Proof. intros A a b s s1 H. unfold mret, ok in H. inversion H. split; reflexivity. Qed.

Lemma pvm_fail_inv : forall {A} (e : exn) (s : mstate) (r : A * mstate), mfail e s = inl r -> False.
Proof. intros A e s r H. unfold mfail, err in H. discriminate. Qed.

End PVMonad.

(* ------------------------------------------------------------------ *)
(** * a list fact about the Election queries *)

Lemma pv_norm_index_last : forall k, norm_index (S k) (-1) = inl k.
Proof.
  intros k. unfold Rules.norm_index.
  assert (H1 : ((-1 <? - Z.of_nat (S k)) || (Z.of_nat (S k) - 1 <? -1))%Z = false).
  { apply orb_false_iff. split; apply Z.ltb_ge; lia. }
  rewrite H1. unfold ok. f_equal.
  assert (H2 : ((-1) mod Z.of_nat (S k) = Z.of_nat k)%Z).
  { symmetry. apply (Z.mod_unique (-1) (Z.of_nat (S k)) (-1) (Z.of_nat k)); lia. }
  rewrite H2. apply Nat2Z.id.
Qed.

Section PVRun.
Variable cand : Type.
Variable ceqb : cand -> cand -> bool.
Hypothesis ceqb_spec : forall a b, reflect (a = b) (ceqb a b).

Notation cset := (cset cand).
Notation ranking := (ranking cand).
Notation ballot := (ballot cand).
Notation profile := (profile cand).
Notation scores := (scores cand).
Notation estate := (estate cand).
Notation mstate := (mstate cand).
Notation M := (M cand).
Notation flat := (flat cand).
Notation dedup := (dedup cand ceqb).
Notation set_diff := (set_diff cand ceqb).
Notation real_groups := (real_groups cand).
Notation count_elected := (count_elected cand).
Notation no_group := (no_group cand).
Notation empty_profile := (empty_profile cand).
Notation remove_cand_prof := (remove_cand_prof cand ceqb).
Notation get_elected := (get_elected cand).
Notation pv_obj := (pv_obj cand).
Notation pv_validate := (pv_validate cand).
Notation pv_step := (pv_step cand ceqb).
Notation pv_loop := (pv_loop cand ceqb).
Notation run_pv := (run_pv cand ceqb).

(* ------------------------------------------------------------------ *)
(** * counting the elected *)

Lemma pv_flat_real_groups : forall r : ranking, flat (real_groups r) = flat r.
Proof. intros [|[|c g] [|g2 r]]; reflexivity. Qed.

Lemma pv_count_elected_cons : forall (st : estate) (sts : list estate),
  count_elected (st :: sts) = (Z.of_nat (length (flat (elected st))) + count_elected sts)%Z.
Proof.
  intros st sts. rewrite <- (pv_flat_real_groups (elected st)).
  unfold STV.count_elected, Core.flat. cbn [map concat]. rewrite concat_app, app_length. lia.
Qed.

Lemma pv_count_elected_nonneg : forall sts : list estate, (0 <= count_elected sts)%Z.
Proof. intros sts. unfold STV.count_elected. lia. Qed.

Lemma pv_elected_none_concat : forall sts : list estate,
  Forall (fun st => elected st = [[]]) sts ->
  concat (map (fun s => real_groups (elected s)) sts) = [].
Proof.
  intros sts H. induction H as [|st sts Hst _ IH]; [reflexivity|].
  cbn [map concat]. rewrite Hst, IH. reflexivity.
Qed.

Lemma pv_count_elected_none : forall sts : list estate,
  Forall (fun st => elected st = [[]]) sts -> count_elected sts = 0%Z.
Proof.
  intros sts H. unfold STV.count_elected. rewrite (pv_elected_none_concat sts H). reflexivity.
Qed.

Lemma pv_get_elected_last : forall (l : list estate) (last : estate),
  Forall (fun st => elected st = [[]]) l ->
  get_elected (l ++ [last]) (-1) = inl (real_groups (elected last)).
Proof.
  intros l last H. unfold Rules.get_elected.
  assert (Hlen : length (l ++ [last]) = S (length l)) by (rewrite app_length; cbn [length]; lia).
  rewrite Hlen, pv_norm_index_last. cbn [rbind]. unfold ok. f_equal.
  rewrite firstn_all2 by (rewrite Hlen; lia).
  rewrite map_app, concat_app, (pv_elected_none_concat l H). cbn [map concat app].
  apply app_nil_r.
Qed.

(* ------------------------------------------------------------------ *)
(** * one step *)

(* the "as many candidates left as seats" branch, computed *)
Lemma pv_step_elect : forall m tb n (o : pv_obj) (p : profile) (prev : estate) (s : mstate),
  (Z.of_nat n - Z.of_nat (length (pv_elim cand o)) =? m)%Z = true ->
  pv_step m tb n o p prev s =
  inl ((o, empty_profile,
        mkState (rnd prev + 1) no_group (remaining prev) no_group [] []), s).
Proof.
  intros m tb n o p prev s H. unfold PV.pv_step. cbv zeta. rewrite H. reflexivity.
Qed.

(* P3 without the NoDup clause: needs no hypothesis on [ceqb] *)
Lemma pv_step_shapes_core : forall m tb n (o : pv_obj) (p : profile) (prev : estate) (s : mstate)
                                   (o' : pv_obj) (np : profile) (st : estate) (s' : mstate),
  pv_step m tb n o p prev s = inl ((o', np, st), s') ->
  rnd st = (rnd prev + 1)%Z /\
  ( ((Z.of_nat n - Z.of_nat (length (pv_elim cand o)) =? m)%Z = true /\
     o' = o /\ elected st = remaining prev /\ remaining st = [[]] /\ eliminated st = [[]])
    \/
    ((Z.of_nat n - Z.of_nat (length (pv_elim cand o)) =? m)%Z = false /\
     elected st = [[]] /\
     exists elim : cset,
       eliminated st = [dedup elim] /\
       remove_cand_prof elim false true p = inl np /\
       pv_ballots cand o' = ballots np /\
       pv_elim cand o' = pv_elim cand o ++ set_diff (dedup elim) (pv_elim cand o)) ).
Proof.
  intros m tb n o p prev s o' np st s' H.
  destruct (Z.of_nat n - Z.of_nat (length (pv_elim cand o)) =? m)%Z eqn:Em.
  - rewrite (pv_step_elect m tb n o p prev s Em) in H. inversion H; subst.
    split; [reflexivity|]. left. repeat split; reflexivity.
  - unfold PV.pv_step in H. cbv zeta in H. rewrite Em in H.
    destruct (pv_order cand o) as [|i ord] eqn:Eo; [exfalso; exact (pvm_fail_inv _ _ _ H)|].
    apply pvm_bind_inv in H. destruct H as [[[idx hit] tbs] [s1 [_ H]]].
    cbv beta iota zeta in H.
    apply pvm_lift_bind_inv in H. destruct H as [np0 [Hrm H]].
    apply pvm_lift_bind_inv in H. destruct H as [d [_ H]].
    apply pvm_ret_inv in H. destruct H as [H _]. inversion H; subst o' np0 st. clear H.
    split; [reflexivity|]. right. split; [reflexivity|]. split; [reflexivity|].
    eexists. split; [reflexivity|]. split; [exact Hrm|]. split; reflexivity.
Qed.

(* P3 *)
Theorem pv_step_shapes : forall m tb n (o : pv_obj) (p : profile) (prev : estate) (s : mstate)
                                (o' : pv_obj) (np : profile) (st : estate) (s' : mstate),
  pv_step m tb n o p prev s = inl ((o', np, st), s') ->
  rnd st = (rnd prev + 1)%Z /\
  ( ((Z.of_nat n - Z.of_nat (length (pv_elim cand o)) =? m)%Z = true /\
     o' = o /\ elected st = remaining prev /\ remaining st = [[]] /\ eliminated st = [[]])
    \/
    ((Z.of_nat n - Z.of_nat (length (pv_elim cand o)) =? m)%Z = false /\
     elected st = [[]] /\
     exists elim : cset,
       eliminated st = [dedup elim] /\
       remove_cand_prof elim false true p = inl np /\
       pv_ballots cand o' = ballots np /\
       pv_elim cand o' = pv_elim cand o ++ set_diff (dedup elim) (pv_elim cand o) /\
       incl (pv_elim cand o) (pv_elim cand o') /\
       (NoDup (pv_elim cand o) -> NoDup (pv_elim cand o'))) ).
Proof.
  intros m tb n o p prev s o' np st s' H.
  destruct (pv_step_shapes_core _ _ _ _ _ _ _ _ _ _ _ H)
    as [Hrnd [Ha | [Hm [Hel [elim [Helim [Hrm [Hb He]]]]]]]].
  - split; [exact Hrnd|]. left. exact Ha.
  - split; [exact Hrnd|]. right. split; [exact Hm|]. split; [exact Hel|].
    exists elim. split; [exact Helim|]. split; [exact Hrm|]. split; [exact Hb|].
    split; [exact He|]. rewrite He. split.
    + apply incl_appl. apply incl_refl.
    + intros Hnd. apply NoDup_app_intro.
      * exact Hnd.
      * apply (set_diff_NoDup cand ceqb). apply (dedup_NoDup cand ceqb ceqb_spec).
      * intros a Ha Hin. apply (set_diff_In cand ceqb ceqb_spec) in Hin.
        destruct Hin as [_ Hn]. exact (Hn Ha).
Qed.

(* ------------------------------------------------------------------ *)
(** * the loop *)

Lemma pv_loop_done : forall fuel m tb n (o : pv_obj) (p : profile) (sts : list estate) (s : mstate),
  (m <=? count_elected sts)%Z = true ->
  pv_loop fuel m tb n o p sts s = inl (rev sts, s).
Proof.
  intros fuel m tb n o p sts s H. destruct fuel as [|fuel]; cbn [PV.pv_loop]; rewrite H; reflexivity.
Qed.

(* P2 *)
Theorem pv_no_elect_never_terminates :
  forall fuel m tb n (o : pv_obj) (p : profile) (prev : estate) (older : list estate) (s : mstate),
  (Z.of_nat n - Z.of_nat (length (pv_elim cand o)) =? m)%Z = true ->
  remaining prev = [[]] ->
  (count_elected (prev :: older) < m)%Z ->
  pv_loop fuel m tb n o p (prev :: older) s = inr EFuel.
Proof.
  induction fuel as [|fuel IH]; intros m tb n o p prev older s Hm Hrem Hlt.
  - cbn [PV.pv_loop].
    assert (Hle : (m <=? count_elected (prev :: older))%Z = false) by (apply Z.leb_gt; exact Hlt).
    rewrite Hle. reflexivity.
  - cbn [PV.pv_loop].
    assert (Hle : (m <=? count_elected (prev :: older))%Z = false) by (apply Z.leb_gt; exact Hlt).
    rewrite Hle. rewrite (pvm_bind_ok _ _ _ _ _ (pv_step_elect m tb n o p prev s Hm)).
    cbv beta iota. apply IH.
    + exact Hm.
    + reflexivity.
    + rewrite pv_count_elected_cons. cbn [elected]. rewrite Hrem.
      replace (Z.of_nat (length (flat [[]]))) with 0%Z by reflexivity. lia.
Qed.

Theorem pv_short_elect_never_terminates :
  forall fuel m tb n (o : pv_obj) (p : profile) (prev : estate) (older : list estate) (s : mstate),
  (Z.of_nat n - Z.of_nat (length (pv_elim cand o)) =? m)%Z = true ->
  (Z.of_nat (length (flat (real_groups (remaining prev)))) + count_elected (prev :: older) < m)%Z ->
  pv_loop fuel m tb n o p (prev :: older) s = inr EFuel.
Proof.
  intros fuel m tb n o p prev older s Hm Hlt.
  assert (Hle : (m <=? count_elected (prev :: older))%Z = false) by (apply Z.leb_gt; lia).
  destruct fuel as [|fuel]; cbn [PV.pv_loop]; rewrite Hle; [reflexivity|].
  rewrite (pvm_bind_ok _ _ _ _ _ (pv_step_elect m tb n o p prev s Hm)). cbv beta iota.
  apply pv_no_elect_never_terminates.
  - exact Hm.
  - reflexivity.
  - rewrite pv_count_elected_cons. cbn [elected].
    rewrite pv_flat_real_groups in Hlt. exact Hlt.
Qed.

Lemma pv_loop_success :
  forall fuel m tb n (o : pv_obj) (p : profile) (prev : estate) (older : list estate)
         (s : mstate) (sts : list estate) (s' : mstate),
  (0 < m)%Z ->
  Forall (fun st => elected st = [[]]) (prev :: older) ->
  pv_loop fuel m tb n o p (prev :: older) s = inl (sts, s') ->
  exists (older' : list estate) (prev' last : estate),
    sts = older' ++ [prev'; last] /\
    Forall (fun st => elected st = [[]]) (older' ++ [prev']) /\
    elected last = remaining prev' /\ remaining last = [[]] /\ eliminated last = [[]] /\
    (m <= Z.of_nat (length (flat (remaining prev'))))%Z.
Proof.
  induction fuel as [|fuel IH]; intros m tb n o p prev older s sts s' Hpos Hall H.
  - cbn [PV.pv_loop] in H. rewrite (pv_count_elected_none _ Hall) in H.
    assert (Hle : (m <=? 0)%Z = false) by (apply Z.leb_gt; exact Hpos).
    rewrite Hle in H. exfalso. exact (pvm_fail_inv _ _ _ H).
  - cbn [PV.pv_loop] in H. rewrite (pv_count_elected_none _ Hall) in H.
    assert (Hle : (m <=? 0)%Z = false) by (apply Z.leb_gt; exact Hpos).
    rewrite Hle in H.
    apply pvm_bind_inv in H. destruct H as [[[o' np] st] [s1 [Hstep Hloop]]].
    cbv beta iota in Hloop.
    destruct (pv_step_shapes_core _ _ _ _ _ _ _ _ _ _ _ Hstep)
      as [_ [[Hm [-> [Hel [Hrem Helim]]]] | [_ [Hel _]]]].
    + (* the electing branch *)
      assert (Hcnt : count_elected (st :: prev :: older)
                     = Z.of_nat (length (flat (remaining prev)))).
      { rewrite pv_count_elected_cons, Hel, (pv_count_elected_none _ Hall). lia. }
      destruct (m <=? Z.of_nat (length (flat (remaining prev))))%Z eqn:Hreach.
      * rewrite pv_loop_done in Hloop by (rewrite Hcnt; exact Hreach).
        inversion Hloop; subst sts s'. exists (rev older), prev, st.
        split; [cbn [rev]; rewrite <- app_assoc; reflexivity|].
        split; [apply (Forall_rev Hall)|].
        split; [exact Hel|]. split; [exact Hrem|]. split; [exact Helim|].
        apply Z.leb_le. exact Hreach.
      * apply Z.leb_gt in Hreach.
        rewrite (pv_no_elect_never_terminates fuel m tb n o np st (prev :: older) s1 Hm Hrem) in Hloop
          by (rewrite Hcnt; exact Hreach).
        discriminate.
    + (* an eliminating round *)
      apply (IH m tb n o' np st (prev :: older) s1 sts s' Hpos); [|exact Hloop].
      constructor; [exact Hel|exact Hall].
Qed.

(* ------------------------------------------------------------------ *)
(** * the run *)

(* P1 *)
Theorem pv_success_shape : forall m tb (p : profile) (s : mstate) (sts : list estate) (s' : mstate),
  run_pv m tb p s = inl (sts, s') ->
  (1 <= m <= Z.of_nat (length (cands p)))%Z /\
  exists (older : list estate) (prev last : estate),
    sts = older ++ [prev; last] /\
    Forall (fun st => elected st = [[]]) (older ++ [prev]) /\
    elected last = remaining prev /\ remaining last = [[]] /\ eliminated last = [[]] /\
    (m <= Z.of_nat (length (flat (remaining prev))))%Z /\
    get_elected sts (-1) = inl (real_groups (remaining prev)).
Proof.
  intros m tb p s sts s' H. unfold PV.run_pv in H.
  apply pvm_lift_bind_inv in H. destruct H as [[] [_ H]].
  destruct (m <=? 0)%Z eqn:H1; [exfalso; exact (pvm_fail_inv _ _ _ H)|]. apply Z.leb_gt in H1.
  destruct (Z.of_nat (length (cands p)) <? m)%Z eqn:H2; [exfalso; exact (pvm_fail_inv _ _ _ H)|].
  apply Z.ltb_ge in H2.
  split; [lia|].
  apply pvm_bind_inv in H. destruct H as [[] [s1 [_ H]]]. cbv beta zeta in H.
  apply pvm_lift_bind_inv in H. destruct H as [dp [_ H]].
  apply pvm_bind_inv in H. destruct H as [d0 [s2 [_ H]]].
  destruct d0 as [l|r|l|q|c|order]; try (exfalso; exact (pvm_fail_inv _ _ _ H)).
  destruct (negb (is_perm_nat order (length (decondense cand (ballots p)))));
    [exfalso; exact (pvm_fail_inv _ _ _ H)|].
  apply pvm_lift_bind_inv in H. destruct H as [[] [_ H]].
  apply pvm_lift_bind_inv in H. destruct H as [s0 [Hs0 H]].
  assert (Hel0 : elected s0 = [[]]).
  { unfold Rules.round0 in Hs0. destruct (score_fn cand ceqb SKFpv dp) as [d|e]; cbn [rbind] in Hs0;
      [|discriminate]. unfold ok in Hs0. inversion Hs0. reflexivity. }
  apply pv_loop_success in H; [|lia|constructor; [exact Hel0|constructor]].
  destruct H as [older [prev [last [-> [Hall [Hel [Hrem [Helim Hm]]]]]]]].
  exists older, prev, last.
  split; [reflexivity|]. split; [exact Hall|]. split; [exact Hel|]. split; [exact Hrem|].
  split; [exact Helim|]. split; [exact Hm|].
  replace (older ++ [prev; last]) with ((older ++ [prev]) ++ [last])
    by (rewrite <- app_assoc; reflexivity).
  rewrite (pv_get_elected_last _ last Hall), Hel. reflexivity.
Qed.

(* P4, second half *)
Theorem pv_args : forall m tb (p : profile) (s : mstate),
  (m <= 0 \/ Z.of_nat (length (cands p)) < m)%Z ->
  pv_validate p = inl tt ->
  run_pv m tb p s = inr EValue.
Proof.
  intros m tb p s Hm Hv. unfold PV.run_pv. rewrite pvm_lift_bind, Hv.
  destruct (m <=? 0)%Z eqn:H1; [reflexivity|]. apply Z.leb_gt in H1.
  destruct (Z.of_nat (length (cands p)) <? m)%Z eqn:H2; [reflexivity|]. apply Z.ltb_ge in H2. lia.
Qed.

(* ------------------------------------------------------------------ *)
(** * P4, first half: no error path of the run raises [EOther] *)

Definition pv_rno_other {A} (r : res A) : Prop := forall e, r = inr e -> e <> EOther.
Definition pv_no_other {A} (x : M A) : Prop := forall s e, x s = inr e -> e <> EOther.

Lemma rno_inl : forall A (a : A), pv_rno_other (inl a).
Proof. intros A a e H. discriminate. Qed.

Lemma rno_ok : forall A (a : A), pv_rno_other (ok a).
Proof. intros A a. apply rno_inl. Qed.

Lemma rno_err : forall A e, e <> EOther -> pv_rno_other (@err A e).
Proof. intros A e Hne e' H. unfold err in H. injection H as He. subst e'. exact Hne. Qed.

Lemma rno_bind : forall A B (r : res A) (f : A -> res B),
  pv_rno_other r -> (forall a, pv_rno_other (f a)) -> pv_rno_other (rbind r f).
Proof.
  intros A B r f Hr Hf e H. destruct r as [a|e1]; cbn [rbind] in H.
  - exact (Hf a e H).
  - injection H as He. subst e1. apply (Hr e). reflexivity.
Qed.

Lemma rno_rmap : forall A B (f : A -> res B) (l : list A),
  (forall a, pv_rno_other (f a)) -> pv_rno_other (rmap f l).
Proof.
  intros A B f l Hf. induction l as [|a l IH]; cbn [rmap]; [apply rno_ok|].
  apply rno_bind; [apply Hf|]. intros b. apply rno_bind; [exact IH|]. intros bs. apply rno_ok.
Qed.

Lemma rno_rfirst_err : forall A (f : A -> res unit) (l : list A),
  (forall a, pv_rno_other (f a)) -> pv_rno_other (rfirst_err f l).
Proof.
  intros A f l Hf. induction l as [|a l IH]; cbn [rfirst_err]; [apply rno_ok|].
  apply rno_bind; [apply Hf|]. intros _. exact IH.
Qed.

Lemma no_ret : forall A (a : A), pv_no_other (mret a).
Proof. intros A a s e H. unfold mret, ok in H. discriminate. Qed.

Lemma no_fail : forall A e, e <> EOther -> pv_no_other (@mfail cand A e).
Proof. intros A e Hne s e' H. unfold mfail, err in H. injection H as He. subst e'. exact Hne. Qed.

Lemma no_lift : forall A (r : res A), pv_rno_other r -> pv_no_other (mlift r).
Proof.
  intros A r Hr s e H. unfold mlift in H. destruct r as [a|e1]; [unfold ok in H; discriminate|].
  injection H as He. subst e1. apply (Hr e). reflexivity.
Qed.

Lemma no_bind : forall A B (x : M A) (k : A -> M B),
  pv_no_other x -> (forall a, pv_no_other (k a)) -> pv_no_other (mbind x k).
Proof.
  intros A B x k Hx Hk s e H. unfold mbind in H. destruct (x s) as [[a s1]|e1] eqn:E.
  - exact (Hk a s1 e H).
  - injection H as He. subst e1. exact (Hx s e E).
Qed.

Ltac pv_nofail := apply no_fail; discriminate.
Ltac pv_rnoerr := apply rno_err; discriminate.

Lemma rno_mk_profile : forall bs cs, pv_rno_other (mk_profile cand ceqb bs cs).
Proof. intros bs cs. unfold Core.mk_profile. destruct (has_dup cand ceqb cs); [pv_rnoerr|apply rno_ok]. Qed.

Lemma rno_validate_vector_from : forall v prev, pv_rno_other (validate_vector_from prev v).
Proof.
  induction v as [|x v IH]; intros prev; cbn [validate_vector_from]; [apply rno_ok|].
  destruct (Qlt_bool x 0); [pv_rnoerr|]. destruct prev as [q|]; [|apply IH].
  destruct (Qlt_bool q x); [pv_rnoerr|apply IH].
Qed.

Lemma rno_add_missing : forall p : profile, pv_rno_other (add_missing cand ceqb p).
Proof.
  intros p. unfold Core.add_missing. apply rno_bind; [|intros bs; apply rno_ok].
  apply rno_rmap. intros b. unfold Core.add_missing_ballot.
  destruct (rk b) as [|g r]; [pv_rnoerr|apply rno_ok].
Qed.

Lemma rno_score_rankings : forall (p : profile) v, pv_rno_other (score_rankings cand ceqb p v).
Proof.
  intros p v. unfold Core.score_rankings. apply rno_bind.
  - unfold Core.validate_vector. apply rno_validate_vector_from.
  - intros _. cbv zeta. apply rno_bind; [apply rno_add_missing|]. intros p'.
    destruct (existsb _ (ballots p')); [pv_rnoerr|].
    destruct (negb _); [pv_rnoerr|apply rno_ok].
Qed.

Lemma rno_first_place_votes : forall p : profile, pv_rno_other (first_place_votes cand ceqb p).
Proof. intros p. unfold Core.first_place_votes. apply rno_score_rankings. Qed.

Lemma rno_borda_scores : forall p : profile, pv_rno_other (borda_scores cand ceqb p).
Proof. intros p. unfold Core.borda_scores. apply rno_score_rankings. Qed.

Lemma no_next_draw : forall c, pv_no_other (next_draw cand c).
Proof.
  intros c s e H. unfold Core.next_draw in H. destruct (scr s) as [|d rest].
  - unfold err in H. injection H as He. subst e. discriminate.
  - unfold ok in H. discriminate.
Qed.

Lemma no_draw_perm : forall g : cset, pv_no_other (draw_perm cand ceqb g).
Proof.
  intros g. unfold Core.draw_perm. apply no_bind; [apply no_next_draw|]. intros d.
  destruct d as [l|r|l|q|c|l]; try pv_nofail.
  destruct (is_perm_of cand ceqb l g); [apply no_ret|pv_nofail].
Qed.

Lemma no_random_break : forall r : ranking, pv_no_other (random_break cand ceqb r).
Proof.
  induction r as [|g r IH]; cbn [random_break]; [apply no_ret|].
  destruct g as [|c [|c' g]].
  - apply no_bind; [exact IH|intros rest; apply no_ret].
  - apply no_bind; [exact IH|intros rest; apply no_ret].
  - apply no_bind; [apply no_draw_perm|]. intros l.
    apply no_bind; [exact IH|intros rest; apply no_ret].
Qed.

Lemma no_tiebreak_set : forall (g : cset) (p : option profile) k,
  pv_no_other (tiebreak_set cand ceqb g p k).
Proof.
  intros g p k. unfold Core.tiebreak_set. destruct k.
  - apply no_bind; [apply no_draw_perm|intros l; apply no_ret].
  - destruct p as [pr|]; [|pv_nofail].
    apply no_bind; [apply no_lift; apply rno_first_place_votes|]. intros d. cbv zeta.
    destruct (existsb _ _); [apply no_random_break|apply no_ret].
  - destruct p as [pr|]; [|pv_nofail].
    apply no_bind; [apply no_lift; apply rno_borda_scores|]. intros d. cbv zeta.
    destruct (existsb _ _); [apply no_random_break|apply no_ret].
  - pv_nofail.
Qed.

Lemma rno_dec : forall c (d : scores), pv_rno_other (dec cand ceqb c d).
Proof.
  intros c d. unfold PV.dec. destruct (lookup cand ceqb c d) as [q|]; [apply rno_ok|pv_rnoerr].
Qed.

Lemma no_veto_loop : forall order idx (bs : list ballot) (p : profile) tb (d : scores) tbs,
  pv_no_other (veto_loop cand ceqb order idx bs p tb d tbs).
Proof.
  induction order as [|bi rest IH]; intros idx bs p tb d tbs; cbn [veto_loop]; [apply no_ret|].
  destruct (nth_error bs bi) as [b|]; [|pv_nofail].
  destruct (rev (rk b)) as [|lastg others]; [apply IH|].
  apply no_bind.
  - destruct lastg as [|c [|c' g]]; [apply no_ret|apply no_ret|].
    destruct tb as [k|]; [|pv_nofail].
    apply no_bind; [apply no_tiebreak_set|intros t; apply no_ret].
  - intros [t tbs']. destruct (rev t) as [|[|c g] others']; [pv_nofail|pv_nofail|].
    apply no_bind; [apply no_lift; apply rno_dec|]. intros d'.
    destruct (Qle_bool _ 0); [apply no_ret|apply IH].
Qed.

Lemma rno_remove_cand_prof : forall removed cf lz (p : profile),
  pv_rno_other (remove_cand_prof removed cf lz p).
Proof. intros removed cf lz p. unfold Core.remove_cand_prof. cbv zeta. apply rno_mk_profile. Qed.

Lemma rno_pv_scores : forall bs : list ballot, pv_rno_other (pv_scores cand ceqb bs).
Proof.
  intros bs. unfold PV.pv_scores. apply rno_bind; [apply rno_mk_profile|].
  intros sp. apply rno_first_place_votes.
Qed.

Lemma no_pv_step : forall m tb n (o : pv_obj) (p : profile) (prev : estate),
  pv_no_other (pv_step m tb n o p prev).
Proof.
  intros m tb n o p prev. unfold PV.pv_step. cbv zeta.
  destruct (Z.of_nat n - Z.of_nat (length (pv_elim cand o)) =? m)%Z; [apply no_ret|].
  destruct (pv_order cand o) as [|i ord]; [pv_nofail|].
  apply no_bind; [apply no_veto_loop|]. intros [[idx hit] tbs].
  apply no_bind; [apply no_lift; apply rno_remove_cand_prof|]. intros np.
  apply no_bind; [apply no_lift; apply rno_pv_scores|]. intros d. apply no_ret.
Qed.

(* the [[] => mfail EOther] branch needs an empty state list; the list only grows *)
Lemma no_pv_loop : forall fuel m tb n (o : pv_obj) (p : profile) (prev : estate) (older : list estate),
  pv_no_other (pv_loop fuel m tb n o p (prev :: older)).
Proof.
  induction fuel as [|fuel IH]; intros m tb n o p prev older; cbn [PV.pv_loop];
    (destruct (m <=? count_elected (prev :: older))%Z; [apply no_ret|]).
  - pv_nofail.
  - apply no_bind; [apply no_pv_step|]. intros [[o' np] st]. apply IH.
Qed.

Theorem pv_errors_coarse : forall m tb (p : profile) (s : mstate) e,
  run_pv m tb p s = inr e -> e <> EOther.
Proof.
  intros m tb p. change (pv_no_other (run_pv m tb p)). unfold PV.run_pv.
  apply no_bind.
  { apply no_lift. unfold PV.pv_validate. apply rno_rfirst_err. intros b.
    destruct (rk b) as [|g r]; [pv_rnoerr|]. destruct (is_integral (wt b)); [apply rno_ok|pv_rnoerr]. }
  intros _. destruct (m <=? 0)%Z; [pv_nofail|].
  destruct (Z.of_nat (length (cands p)) <? m)%Z; [pv_nofail|].
  apply no_bind.
  { destruct tb as [k|]; [apply no_ret|]. destruct (existsb _ _); [pv_nofail|apply no_ret]. }
  intros _. cbv zeta.
  apply no_bind; [apply no_lift; apply rno_mk_profile|]. intros dp.
  apply no_bind; [apply no_next_draw|]. intros d0.
  destruct d0 as [l|r|l|q|c|order]; try pv_nofail.
  destruct (negb _); [pv_nofail|].
  apply no_bind.
  { apply no_lift. unfold STV.ranking_validate. apply rno_rfirst_err. intros b.
    destruct (rk b) as [|g r]; [pv_rnoerr|apply rno_ok]. }
  intros _. apply no_bind.
  { apply no_lift. unfold Rules.round0, Rules.score_fn.
    apply rno_bind; [apply rno_first_place_votes|]. intros d. apply rno_ok. }
  intros s0. apply no_pv_loop.
Qed.

End PVRun.

(* ------------------------------------------------------------------ *)
(** * closed examples: cand := positive, ceqb := Pos.eqb *)

Definition pv_ex_ballot (l : list positive) (w : Z) : ballot positive :=
  plain_ballot positive (map (fun c => [c]) l) (inject_Z w).

(* (a) 1>2>3 twice, 2>1>3 once; one seat; shuffle script = the identity order of the 3 unit ballots *)
Definition pv_ex_profile : profile positive :=
  mkProfile [pv_ex_ballot [1; 2; 3]%positive 2; pv_ex_ballot [2; 1; 3]%positive 1]
            [1; 2; 3]%positive.
Definition pv_ex_script : mstate positive := mkM [DIdxs [0; 1; 2]%nat] [].

Definition pv_ex_s0 : estate positive :=
  mkState 0 [[1]; [2]; [3]]%positive [[]] [[]] [] [(1%positive, 2); (2%positive, 1); (3%positive, 0)].
Definition pv_ex_s1 : estate positive :=
  mkState 1 [[1]; [2]]%positive [[]] [[3]]%positive [] [(2%positive, 1); (1%positive, 2)].
Definition pv_ex_s2 : estate positive :=
  mkState 2 [[1]]%positive [[]] [[2]]%positive [] [(1%positive, 3)].
Definition pv_ex_s3 : estate positive :=
  mkState 3 [[]] [[1]]%positive [[]] [] [].

Example pv_success_example :
  run_pv positive Pos.eqb 1 None pv_ex_profile pv_ex_script
  = inl ([pv_ex_s0; pv_ex_s1; pv_ex_s2; pv_ex_s3], mkM [] [CShuffle 3]).
Proof. vm_compute. reflexivity. Qed.

(* the concrete states have the shape promised by [pv_success_shape] (m = 1) *)
Example pv_success_example_shape :
  (1 <= 1 <= Z.of_nat (length (cands pv_ex_profile)))%Z /\
  [pv_ex_s0; pv_ex_s1; pv_ex_s2; pv_ex_s3] = [pv_ex_s0; pv_ex_s1] ++ [pv_ex_s2; pv_ex_s3] /\
  Forall (fun st => elected st = [[]]) ([pv_ex_s0; pv_ex_s1] ++ [pv_ex_s2]) /\
  elected pv_ex_s3 = remaining pv_ex_s2 /\ remaining pv_ex_s3 = [[]] /\ eliminated pv_ex_s3 = [[]] /\
  (1 <= Z.of_nat (length (flat positive (remaining pv_ex_s2))))%Z /\
  get_elected positive [pv_ex_s0; pv_ex_s1; pv_ex_s2; pv_ex_s3] (-1)
  = inl (real_groups positive (remaining pv_ex_s2)) /\
  real_groups positive (remaining pv_ex_s2) = [[1%positive]].
Proof.
  split; [vm_compute; split; discriminate|].
  split; [reflexivity|].
  split; [repeat constructor|].
  split; [reflexivity|]. split; [reflexivity|]. split; [reflexivity|].
  split; [vm_compute; discriminate|].
  split; [vm_compute; reflexivity|reflexivity].
Qed.

(* (b) the recorded finding "plurality-veto-nontermination": A>B>C three times, two seats.  B and C
   have no first-place votes and are both eliminated in round 1, one candidate is left for two
   seats, and the real loop spins for ever (model: EFuel). *)
Definition pv_spin_profile : profile positive :=
  mkProfile [pv_ex_ballot [1; 2; 3]%positive 3] [1; 2; 3]%positive.

Example pv_nontermination_example :
  run_pv positive Pos.eqb 2 None pv_spin_profile (mkM [DIdxs [0; 1; 2]%nat] []) = inr EFuel.
Proof. vm_compute. reflexivity. Qed.
