(* Proofs/C16_runs.v — property C16 at the level of whole generator runs (Spec/GenRunSpec.v):
   (e) every ballot of a run is the image of ITS OWN recorded draw by the one-ballot kernel (the
       kernels take disjoint draws; the primitive calls logged for a ballot depend on the parameters
       only, so the draws are identically distributed and, the primitives being independent across
       calls, independent), and the bloc's profile counts these ballots content by content;
   (d) in every slate model built on [slate_ballot] the candidates of one slate, read off the ballot
       in ballot order, are exactly the recorded Plackett-Luce draw from the voter bloc's interval
       for that slate (the call logged for it is GPL (pi_int iv) |pi_int iv|). *)
From VK Require Import Base Core GenValidation PrefInterval Generators Generators2 Laws.
From VK.Spec Require Import Content GenSpec Gen2Spec BTSpec GenLaws GenRunSpec.
From VK.Proofs Require Import Lib_rk Lib_sets C12_expand C15_bt C15_slate C14_wf C14_kernels C14_types
     C14_sizes C14_gen2 C16_laws C14_runs C14_runs_slate.
From Coq Require Import Permutation Lia Lqa Setoid Morphisms.

Local Notation wtofP := (wtof pcand Pos.eqb).

(* ------------------------------------------------------------------ *)
(** * the profile of a bloc counts the pool *)

Section Pools.
Context {X C : Type}.
Variable pool : X -> res (bloc * (list gballot * list C)).

Lemma bloc_run_pools : forall blocs by_bloc agg calls,
  bloc_run pool blocs = inl (by_bloc, agg, calls) ->
  exists pools, Forall2 (fun x p => pool x = inl p) blocs pools /\
    Forall2 (fun (p : bloc * (list gballot * list C)) (bq : bloc * gprofile) =>
               fst bq = fst p /\ forall k, wtofP k (ballots (snd bq)) == wtofP k (fst (snd p)))
            pools by_bloc /\
    calls = concat (map (fun p : bloc * (list gballot * list C) => snd (snd p)) pools).
Proof.
  intros blocs by_bloc agg calls H. apply bloc_run_inv in H. destruct H as (pools & HF & Hfin & Hc).
  exists pools. split; [exact HF|]. split; [|exact Hc].
  pose proof (by_bloc_condensed _ _ _ Hfin) as HC. apply Forall2_map_l_inv in HC.
  eapply Forall2_weaken; [|exact HC]. intros p bq _ _ (Hn & Hw & _). cbn [fst snd] in Hn, Hw.
  split; [exact Hn|exact Hw].
Qed.
End Pools.

(* ------------------------------------------------------------------ *)
(** * (e) pointwise kernels *)


Lemma collect_map_calls : forall (A D : Type) (f : D -> res (A * list gcall)) (cs : list gcall) ds xs calls,
  (forall d x c, f d = inl (x, c) -> c = cs) ->
  collect (map f ds) = inl (xs, calls) -> calls = concat (map (fun _ => cs) ds).
Proof.
  intros A D f cs ds xs calls Hc H. apply collect_inv in H. destruct H as (ys & HF & _ & ->).
  apply Forall2_map_l_inv in HF. clear xs. induction HF as [|d [x c] ds ys Hd _ IH]; [reflexivity|].
  cbn [map concat snd]. rewrite IH, (Hc d x c Hd). reflexivity.
Qed.

Theorem pl_run_pointwise : forall bl blocs by_bloc agg calls,
  gen_pl_run bl blocs = inl (by_bloc, agg, calls) ->
  (exists pools : list (list gballot),
     Forall2 (fun (x : pl_in) pool =>
                Forall2 (fun d b => pl_ballot (snd (fst x)) bl d = inl (b, pl_calls (snd (fst x)) bl))
                        (snd x) pool) blocs pools /\
     Forall2 (fun pool (bq : bloc * gprofile) => forall k, wtofP k (ballots (snd bq)) == wtofP k pool)
             pools by_bloc) /\
  calls = concat (map (fun x : pl_in => concat (map (fun _ => pl_calls (snd (fst x)) bl) (snd x))) blocs).
Proof.
  intros bl blocs by_bloc agg calls H. apply (bloc_run_pools (pl_pool bl)) in H.
  destruct H as (pools & HF & HW & ->).
  assert (Hcalls : forall iv d b c, pl_ballot iv bl d = inl (b, c) -> c = pl_calls iv bl).
  { intros iv d b c Hd. pose proof (pl_ballot_wf iv bl d b c Hd) as W. cbv zeta in W.
    destruct W as (_ & _ & _ & Hc & _). exact Hc. }
  split.
  - exists (map (fun p : bloc * (list gballot * list gcall) => fst (snd p)) pools). split.
    + apply Forall2_map_r. eapply Forall2_weaken; [|exact HF]. intros x p _ _ Hp.
      apply pl_pool_inv in Hp. destruct Hp as (bs & cs & Hr & ->). cbn [fst snd].
      unfold pl_bloc in Hr. apply collect_map_inv in Hr. destruct Hr as (Hr & _).
      eapply Forall2_weaken; [|exact Hr]. intros d b _ _ (c & Hd). rewrite <- (Hcalls _ _ _ _ Hd). exact Hd.
    + apply Forall2_map_l. eapply Forall2_weaken; [|exact HW]. intros p bq _ _ (_ & Hw). exact Hw.
  - clear HW. induction HF as [|x p blocs pools Hp _ IH]; [reflexivity|].
    cbn [map concat]. rewrite IH. f_equal.
    apply pl_pool_inv in Hp. destruct Hp as (bs & cs & Hr & ->). cbn [snd].
    unfold pl_bloc in Hr. apply (collect_map_calls _ _ _ (pl_calls (snd (fst x)) bl) _ _ _ (Hcalls _) Hr).
Qed.

Theorem cumulative_run_pointwise : forall nv blocs by_bloc agg calls,
  gen_cumulative_run nv blocs = inl (by_bloc, agg, calls) ->
  (exists pools : list (list gballot),
     Forall2 (fun (x : cum_in) pool =>
                Forall2 (fun d b => cumulative_ballot (snd (fst x)) nv d = inl (b, [GIID (pi_int (snd (fst x))) nv]))
                        (snd x) pool) blocs pools /\
     Forall2 (fun pool (bq : bloc * gprofile) => forall k, wtofP k (ballots (snd bq)) == wtofP k pool)
             pools by_bloc) /\
  calls = concat (map (fun x : cum_in => map (fun _ => GIID (pi_int (snd (fst x))) nv) (snd x)) blocs).
Proof.
  intros nv blocs by_bloc agg calls H. apply (bloc_run_pools (cum_pool nv)) in H.
  destruct H as (pools & HF & HW & ->).
  assert (Hcalls : forall iv d b c, cumulative_ballot iv nv d = inl (b, c) -> c = [GIID (pi_int iv) nv]).
  { intros iv d b c Hd. unfold cumulative_ballot in Hd.
    destruct (valid_iid (map fst (pi_int iv)) nv d); cbn [negb] in Hd; [|discriminate].
    injection Hd as _ <-. reflexivity. }
  assert (Hinv : forall x p, cum_pool nv x = inl p ->
            exists bs cs, cumulative_bloc (snd (fst x)) nv (snd x) = inl (bs, cs) /\ p = (fst (fst x), (bs, cs))).
  { intros x p Hp. unfold cum_pool in Hp. apply rbind_inl in Hp. destruct Hp as ([bs cs] & Hr & Hp).
    injection Hp as <-. exists bs, cs. split; [exact Hr|reflexivity]. }
  split.
  - exists (map (fun p : bloc * (list gballot * list gcall) => fst (snd p)) pools). split.
    + apply Forall2_map_r. eapply Forall2_weaken; [|exact HF]. intros x p _ _ Hp.
      apply Hinv in Hp. destruct Hp as (bs & cs & Hr & ->). cbn [fst snd].
      unfold cumulative_bloc in Hr. apply collect_map_inv in Hr. destruct Hr as (Hr & _).
      eapply Forall2_weaken; [|exact Hr]. intros d b _ _ (c & Hd). rewrite <- (Hcalls _ _ _ _ Hd). exact Hd.
    + apply Forall2_map_l. eapply Forall2_weaken; [|exact HW]. intros p bq _ _ (_ & Hw). exact Hw.
  - clear HW. induction HF as [|x p blocs pools Hp _ IH]; [reflexivity|].
    cbn [map concat]. rewrite IH. f_equal.
    apply Hinv in Hp. destruct Hp as (bs & cs & Hr & ->). cbn [snd].
    unfold cumulative_bloc in Hr.
    rewrite (collect_map_calls _ _ _ [GIID (pi_int (snd (fst x))) nv] _ _ _ (Hcalls _) Hr).
    clear. induction (snd x) as [|d ds IH]; [reflexivity|]. cbn [map concat app]. rewrite IH. reflexivity.
Qed.

(* exact name-BT: ONE table call per bloc for all its ballots (n independent draws from the C15
   table); ballot j is the j-th drawn ranking followed by the zero-support group *)
Theorem bt_run_pointwise : forall blocs by_bloc agg calls,
  gen_bt_run blocs = inl (by_bloc, agg, calls) ->
  (exists pools : list (list gballot),
     Forall2 (fun (x : bt_in) pool =>
                pool = map (fun r => unit_ballot (rank_of r (pi_zero (bt_iv x)))) (snd x) /\
                length (snd x) = snd (fst x) /\
                forall r, In r (snd x) -> exists v, In (r, v) (bt_pdf (pi_int (bt_iv x))) /\ 0 < v)
             blocs pools /\
     Forall2 (fun pool (bq : bloc * gprofile) => forall k, wtofP k (ballots (snd bq)) == wtofP k pool)
             pools by_bloc) /\
  calls = map (fun x : bt_in => GTable (bt_pdf (pi_int (bt_iv x))) (snd (fst x))) blocs.
Proof.
  intros blocs by_bloc agg calls H. apply (bloc_run_pools bt_pool) in H.
  destruct H as (pools & HF & HW & ->).
  assert (Hinv : forall x p, bt_pool x = inl p ->
            p = (fst (fst (fst x)), (map (fun r => unit_ballot (rank_of r (pi_zero (bt_iv x)))) (snd x),
                                      [GTable (bt_pdf (pi_int (bt_iv x))) (snd (fst x))])) /\
            length (snd x) = snd (fst x) /\
            forall r, In r (snd x) -> exists v, In (r, v) (bt_pdf (pi_int (bt_iv x))) /\ 0 < v).
  { intros x p Hp. unfold bt_pool in Hp. apply rbind_inl in Hp. destruct Hp as ([bs cs] & Hr & Hp).
    injection Hp as <-. apply table_bloc_ok in Hr. destruct Hr as (Hl & _ & -> & -> & Hin).
    split; [reflexivity|]. split; [exact Hl|exact Hin]. }
  split.
  - exists (map (fun p : bloc * (list gballot * list gcall) => fst (snd p)) pools). split.
    + apply Forall2_map_r. eapply Forall2_weaken; [|exact HF]. intros x p _ _ Hp.
      apply Hinv in Hp. destruct Hp as (-> & Hl & Hin). cbn [fst snd]. split; [reflexivity|]. split; assumption.
    + apply Forall2_map_l. eapply Forall2_weaken; [|exact HW]. intros p bq _ _ (_ & Hw). exact Hw.
  - clear HW. induction HF as [|x p blocs pools Hp _ IH]; [reflexivity|].
    cbn [map concat]. rewrite IH. apply Hinv in Hp. destruct Hp as (-> & _). reflexivity.
Qed.

(* ------------------------------------------------------------------ *)
(** * (d) within-slate Plackett-Luce order on a slate ballot *)

Lemma slots_nth : forall b t r i c, nth_error t i = Some b -> nth_error r i = Some c -> In c (slots b t r).
Proof.
  intros b t. induction t as [|b0 t IH]; intros r i c Ht Hr; [destruct i; discriminate|].
  destruct r as [|c0 r]; [destruct i; discriminate|]. rewrite slots_cons.
  destruct i as [|i]; cbn [nth_error] in Ht, Hr.
  - injection Ht as ->. injection Hr as ->. rewrite Pos.eqb_refl. left. reflexivity.
  - destruct (Pos.eqb b b0); [right|]; apply (IH r i c Ht Hr).
Qed.

Lemma filter_slots : forall (sel : pcand -> bool) bl t r,
  length r = length t ->
  (forall i b c, nth_error t i = Some b -> nth_error r i = Some c -> sel c = Pos.eqb bl b) ->
  filter sel r = slots bl t r.
Proof.
  intros sel bl t. induction t as [|b0 t IH]; intros r Hl H.
  - destruct r; [reflexivity|discriminate].
  - destruct r as [|c0 r]; [discriminate|]. rewrite slots_cons. cbn [filter].
    rewrite (H O b0 c0 eq_refl eq_refl).
    assert (E : filter sel r = slots bl t r).
    { apply IH; [cbn [length] in Hl; lia|]. intros i b c Ht Hr. apply (H (S i) b c Ht Hr). }
    rewrite E. reflexivity.
Qed.

Lemma slate_nz_disjoint : forall ivs bl iv bl' iv' c,
  NoDup (map fst ivs) -> NoDup (slate_nz ivs) ->
  In (bl, iv) ivs -> In (bl', iv') ivs ->
  In c (map fst (pi_int iv)) -> In c (map fst (pi_int iv')) -> bl = bl'.
Proof.
  induction ivs as [|[b0 iv0] ivs IH]; intros bl iv bl' iv' c Hk Hnd H1 H2 Hc Hc'; [destruct H1|].
  cbn [map fst] in Hk. inversion Hk as [|x l Hnotin Hk']; subst.
  unfold slate_nz in Hnd. cbn [map concat snd] in Hnd. fold (slate_nz ivs) in Hnd.
  destruct (Lib_sets.NoDup_app_inv _ _ Hnd) as (_ & Hnd' & Hdis).
  assert (Hmem : forall b i, In (b, i) ivs -> In c (map fst (pi_int i)) -> In c (slate_nz ivs)).
  { intros b i Hin Hci. unfold slate_nz. apply in_concat. exists (map fst (pi_int i)). split; [|exact Hci].
    apply in_map_iff. exists (b, i). split; [reflexivity|exact Hin]. }
  destruct H1 as [E1|H1]; destruct H2 as [E2|H2].
  - injection E1 as <- <-. injection E2 as <- <-. reflexivity.
  - injection E1 as <- <-. exfalso. apply (Hdis c Hc). apply (Hmem bl' iv' H2 Hc').
  - injection E2 as <- <-. exfalso. apply (Hdis c Hc'). apply (Hmem bl iv H1 Hc).
  - apply (IH bl iv bl' iv' c Hk' Hnd' H1 H2 Hc Hc').
Qed.

(* any ballot [slate_ballot] builds from a type with the right multiplicities *)
Theorem slate_ballot_within_order : forall ivs zero t orders b calls,
  NoDup (map fst ivs) -> NoDup (slate_nz ivs) ->
  (forall c, In c zero -> ~ In c (slate_nz ivs)) ->
  (forall x, In x t -> In x (map fst ivs)) ->
  (forall bl iv, In (bl, iv) ivs -> count_bloc bl t = length (pi_int iv)) ->
  slate_ballot ivs zero t orders = inl (b, calls) ->
  calls = map (fun x : bloc * pinterval => GPL (pi_int (snd x)) (length (pi_int (snd x))))
              (filter (fun x : bloc * pinterval => nonempty (pi_int (snd x))) ivs) /\
  forall bl iv, In (bl, iv) ivs -> pi_int iv <> [] ->
    filter (fun c => pmem c (map fst (pi_int iv))) (flat pcand (rk b)) = order_of orders bl /\
    valid_sample (map fst (pi_int iv)) (length (pi_int iv)) (order_of orders bl) = true.
Proof.
  intros ivs zero t orders b calls Hk Hnd Hz T1 T2 H.
  pose proof (slate_ballot_inv _ _ _ _ _ _ H) as (_ & _ & _ & _ & Hv).
  destruct (slate_ballot_wf ivs zero t orders b calls Hk T1 T2 H)
    as (r & _ & _ & _ & Hfl & Hl & W6 & _ & Hc).
  split; [exact Hc|]. intros bl iv Hbi Hne. split; [|apply (Hv bl iv Hbi Hne)].
  destruct (W6 bl iv Hbi) as (Hs & _). rewrite <- (Hs Hne), Hfl, filter_app.
  assert (Ez : filter (fun c => pmem c (map fst (pi_int iv))) zero = []).
  { apply filter_all_false. intros c Hc0. apply pmem_false. intros Hin. apply (Hz c Hc0).
    unfold slate_nz. apply in_concat. exists (map fst (pi_int iv)). split; [|exact Hin].
    apply in_map_iff. exists (bl, iv). split; [reflexivity|exact Hbi]. }
  rewrite Ez, app_nil_r. apply filter_slots; [exact Hl|].
  intros i b0 c Ht Hr.
  assert (Hb0 : In b0 (map fst ivs)) by (apply T1; apply (nth_error_In _ _ Ht)).
  apply in_map_iff in Hb0. destruct Hb0 as ([b0' iv0] & Eb & Hbi0). cbn [fst] in Eb. subst b0'.
  destruct (W6 b0 iv0 Hbi0) as (_ & _ & _ & Hincl & _).
  pose proof (Hincl c (slots_nth _ _ _ _ _ Ht Hr)) as Hc0.
  destruct (Pos.eqb_spec bl b0) as [->|Hneq].
  - apply pmem_In.
    assert (E : iv = iv0).
    { clear - Hk Hbi Hbi0. induction ivs as [|[b1 iv1] ivs IH]; [destruct Hbi|].
      cbn [map fst] in Hk. inversion Hk as [|x l Hnotin Hk']; subst.
      destruct Hbi as [E1|Hbi]; destruct Hbi0 as [E2|Hbi0].
      - congruence.
      - injection E1 as <- <-. exfalso. apply Hnotin. apply in_map_iff. exists (b1, iv0). split; [reflexivity|exact Hbi0].
      - injection E2 as <- <-. exfalso. apply Hnotin. apply in_map_iff. exists (b1, iv). split; [reflexivity|exact Hbi].
      - apply (IH Hk' Hbi Hbi0). }
    rewrite E. exact Hc0.
  - apply pmem_false. intros Hin. apply Hneq.
    apply (slate_nz_disjoint ivs bl iv b0 iv0 c Hk Hnd Hbi Hbi0 Hin Hc0).
Qed.

(* ------------------------------------------------------------------ *)
(** * (d) + (e) for the three slate models at run level *)



Theorem slate_pl_run_pointwise : forall blocs by_bloc agg calls,
  (forall x, In x blocs -> spl_params_ok x /\
     (forall c, In c (spl_zero x) -> ~ In c (slate_nz (spl_ivs x))) /\
     forall d, In d (spl_ballots x) -> spl_draw_shape_ok x d) ->
  gen_slate_pl_run blocs = inl (by_bloc, agg, calls) ->
  exists pools : list (list gballot),
    Forall2 (fun (x : spl_in) pool =>
               Forall2 (fun (d : spl_draw) b =>
                          exists t c1,
                            type_loop (fst (fst d)) (map fst (spl_coh x)) (map snd (spl_coh x))
                                      (spl_sizes x) [] (snd (fst d)) = inl (t, c1) /\
                            slate_ballot (spl_ivs x) (spl_zero x) t (snd d) = inl (b, slate_calls (spl_ivs x)) /\
                            within_slate_order (spl_ivs x) (snd d) b)
                       (spl_ballots x) pool) blocs pools /\
    Forall2 (fun pool (bq : bloc * gprofile) => forall k, wtofP k (ballots (snd bq)) == wtofP k pool)
            pools by_bloc.
Proof.
  intros blocs by_bloc agg calls Hok H. apply (bloc_run_pools spl_pool) in H.
  destruct H as (pools & HF & HW & _).
  exists (map (fun p : bloc * (list gballot * list gcall) => fst (snd p)) pools). split.
  - apply Forall2_map_r. eapply Forall2_weaken; [|exact HF]. intros x p Hx _ Hp.
    destruct (Hok x Hx) as (Hpar & Hz & Hd).
    apply spl_pool_inv in Hp. destruct Hp as (bs & Hr & _ & ->). apply rmap_ok_inv in Hr.
    apply Forall2_map_r. eapply Forall2_weaken; [|exact Hr]. intros d y Hdin _ Hone.
    apply spl_one_inv in Hone. destruct Hone as (t & c1 & b & c2 & Ht & Hb & ->). cbn [fst].
    destruct (spl_type_counts x d t c1 Hpar (Hd d Hdin) Ht) as (T1 & T2).
    pose proof Hpar as ((Hk & _ & _ & Hnd) & _).
    destruct (slate_ballot_within_order _ _ _ _ _ _ Hk Hnd Hz T1 T2 Hb) as (Hc & Hw).
    exists t, c1. split; [exact Ht|]. split; [rewrite Hb, Hc; reflexivity|exact Hw].
  - apply Forall2_map_l. eapply Forall2_weaken; [|exact HW]. intros p bq _ _ (_ & Hw). exact Hw.
Qed.

Theorem slate_bt_run_pointwise : forall blocs by_bloc agg calls,
  (forall x, In x blocs -> slate_params_ok (sbt_ivs x) (sbt_sizes x) /\
     (forall c, In c (sbt_zero x) -> ~ In c (slate_nz (sbt_ivs x)))) ->
  gen_slate_bt_run blocs = inl (by_bloc, agg, calls) ->
  exists pools : list (list gballot),
    Forall2 (fun (x : sbt_in) pool =>
               Forall2 (fun (d : list bloc * list (bloc * list pcand)) b =>
                          (exists v, In (fst d, v) (sbt_table x) /\ 0 < v) /\
                          slate_ballot (sbt_ivs x) (sbt_zero x) (fst d) (snd d) = inl (b, slate_calls (sbt_ivs x)) /\
                          within_slate_order (sbt_ivs x) (snd d) b)
                       (sbt_ballots x) pool) blocs pools /\
    Forall2 (fun pool (bq : bloc * gprofile) => forall k, wtofP k (ballots (snd bq)) == wtofP k pool)
            pools by_bloc.
Proof.
  intros blocs by_bloc agg calls Hok H. apply (bloc_run_pools sbt_pool) in H.
  destruct H as (pools & HF & HW & _).
  exists (map (fun p : bloc * (list gballot * list gcall) => fst (snd p)) pools). split.
  - apply Forall2_map_r. eapply Forall2_weaken; [|exact HF]. intros x p Hx _ Hp.
    destruct (Hok x Hx) as ((Hk & Hs & _ & Hnd) & Hz).
    unfold sbt_pool in Hp. apply rbind_inl in Hp. destruct Hp as (bs & Hr & Hp). injection Hp as <-.
    cbn [fst snd]. apply rmap_ok_inv in Hr.
    apply Forall2_map_r. eapply Forall2_weaken; [|exact Hr]. intros d [b c2] _ _ Hone. cbn [fst].
    apply sbt_one_inv in Hone. destruct Hone as ((v & Hv & Hpos) & Hb).
    pose proof Hv as Hv'. unfold sbt_table in Hv'. rewrite Hs in Hv'.
    destruct (slate_bt_type_counts (sbt_ivs x) _ _ _ _ _ Hk Hv') as (T1 & T2 & _).
    destruct (slate_ballot_within_order _ _ _ _ _ _ Hk Hnd Hz T1 T2 Hb) as (Hc & Hw).
    split; [exists v; split; assumption|]. split; [rewrite Hb, Hc; reflexivity|exact Hw].
  - apply Forall2_map_l. eapply Forall2_weaken; [|exact HW]. intros p bq _ _ (_ & Hw). exact Hw.
Qed.

(* MCMC: ballot j is built from the j-th state of the chain (which depends on the steps 1..j) and
   its own per-slate orders *)
Theorem slate_mcmc_run_pointwise : forall blocs by_bloc agg calls,
  (forall x, In x blocs -> sm_params_ok x /\
     (forall c, In c (sm_zero x) -> ~ In c (slate_nz (sm_ivs x)))) ->
  gen_slate_mcmc_run blocs = inl (by_bloc, agg, calls) ->
  exists pools : list (list gballot),
    Forall2 (fun (x : sm_in) pool =>
               length (sm_orders x) = length (sm_steps x) /\
               Forall2 (fun (to : list bloc * list (bloc * list pcand)) b =>
                          slate_ballot (sm_ivs x) (sm_zero x) (fst to) (snd to) = inl (b, slate_calls (sm_ivs x)) /\
                          within_slate_order (sm_ivs x) (snd to) b)
                       (combine (slate_mcmc_run (sm_own x) (sm_coh x) (sm_seed x) (sm_steps x)) (sm_orders x))
                       pool) blocs pools /\
    Forall2 (fun pool (bq : bloc * gprofile) => forall k, wtofP k (ballots (snd bq)) == wtofP k pool)
            pools by_bloc.
Proof.
  intros blocs by_bloc agg calls Hok H. apply (bloc_run_pools sm_pool) in H.
  destruct H as (pools & HF & HW & _).
  exists (map (fun p : bloc * (list gballot * list gcall) => fst (snd p)) pools). split.
  - apply Forall2_map_r. eapply Forall2_weaken; [|exact HF]. intros x p Hx _ Hp.
    destruct (Hok x Hx) as ((Hk & Hnd & Pseed) & Hz).
    apply sm_pool_inv in Hp. destruct Hp as (_ & Hlo & bs & Hr & ->). cbn [fst snd].
    split; [exact Hlo|]. apply rmap_ok_inv in Hr.
    apply Forall2_map_r. eapply Forall2_weaken; [|exact Hr]. intros [t os] [b c2] Hin _ Hone. cbn [fst snd] in *.
    apply in_combine_l in Hin. destruct (slate_mcmc_run_perm _ _ _ _ _ Hin) as (Pt & _).
    destruct (type_perm_counts (sm_ivs x) t Hk (Permutation_trans Pt Pseed)) as (T1 & T2).
    destruct (slate_ballot_within_order _ _ _ _ _ _ Hk Hnd Hz T1 T2 Hone) as (Hc & Hw).
    split; [rewrite Hone, Hc; reflexivity|exact Hw].
  - apply Forall2_map_l. eapply Forall2_weaken; [|exact HW]. intros p bq _ _ (_ & Hw). exact Hw.
Qed.

(* ------------------------------------------------------------------ *)
(** * bloc-first versus opposing-first ballots in the crossover split *)

Definition all_single (r : ranking pcand) (s : list (pcand * Q)) : Prop :=
  Forall (fun pos : list pcand => exists c, pos = [c]) r.

Lemma all_single_singletons : forall l s, all_single (singletons pcand l) s.
Proof.
  intros l s. unfold all_single, singletons. apply Forall_forall. intros pos Hp.
  apply in_map_iff in Hp. destruct Hp as (c & <- & _). exists c. reflexivity.
Qed.

Lemma first_in_compat : forall sl (k b : gballot),
  all_single (rk k) (sc k) -> all_single (rk b) (sc b) -> key_match pcand Pos.eqb k b = true ->
  first_in sl (rk k) == first_in sl (rk b).
Proof.
  intros sl k b Hk Hb Hm. unfold key_match in Hm. apply andb_true_iff in Hm. destruct Hm as (Hr & _).
  destruct (rk k) as [|p1 r1]; destruct (rk b) as [|p2 r2]; try discriminate Hr; [reflexivity|].
  cbn [ranking_eqb] in Hr. apply andb_true_iff in Hr. destruct Hr as (Hc & _).
  inversion Hk as [|x l (c1 & E1) _]; subst. inversion Hb as [|x l (c2 & E2) _]; subst.
  apply (cset_eqb_iff pcand Pos.eqb Pos.eqb_spec) in Hc. destruct Hc as (Hi & _).
  destruct (Hi c1 (or_introl eq_refl)) as [<-|[]]. reflexivity.
Qed.

Lemma weight_first_condense : forall sl (pool : list gballot),
  (forall b, In b pool -> all_single (rk b) (sc b)) ->
  weight_first_in sl (condense_bs pcand Pos.eqb pool) == weight_first_in sl pool.
Proof.
  intros sl pool H.
  apply (Lib_condense.condense_bs_wsum pcand Pos.eqb all_single (fun r _ => first_in sl r)).
  - intros k b Hk Hb Hm. apply first_in_compat; assumption.
  - apply Forall_forall. exact H.
Qed.

Lemma weight_first_count : forall sl n (a c : Q) (bs : list gballot) i,
  (forall k b, nth_error bs k = Some b ->
     wt b == 1 /\ first_in sl (rk b) = if Nat.ltb (i + k) n then a else c) ->
  weight_first_in sl bs ==
    a * Qnat (Nat.min (n - i) (length bs)) + c * Qnat (length bs - Nat.min (n - i) (length bs)).
Proof.
  intros sl n a c bs. induction bs as [|b bs IH]; intros i H.
  - unfold weight_first_in. cbn [map length]. rewrite Nat.min_0_r. cbn [Nat.sub]. rewrite qsum_nil, Qnat_0. ring.
  - unfold weight_first_in in *. cbn [map]. rewrite qsum_cons, (IH (S i)).
    + destruct (H O b eq_refl) as (Hw & Hf). rewrite Hw, Hf, Nat.add_0_r. cbn [length].
      destruct (Nat.ltb_spec i n) as [Hlt|Hge].
      * replace (Nat.min (n - i) (S (length bs))) with (S (Nat.min (n - S i) (length bs))) by lia.
        replace (S (length bs) - S (Nat.min (n - S i) (length bs)))%nat
          with (length bs - Nat.min (n - S i) (length bs))%nat by lia.
        rewrite Qnat_S. ring.
      * replace (Nat.min (n - i) (S (length bs))) with O by lia.
        replace (Nat.min (n - S i) (length bs)) with O by lia.
        rewrite !Nat.sub_0_r, Qnat_S, Qnat_0. ring.
    + intros k b' Hk. replace (S i + k)%nat with (i + S k)%nat by lia. apply (H (S k) b' Hk).
Qed.

Lemma pmem_perm : forall c l l', Permutation l l' -> pmem c l = pmem c l'.
Proof.
  intros c l l' P. destruct (pmem c l') eqn:E.
  - apply pmem_In. apply pmem_In in E. apply (Permutation_in _ (Permutation_sym P) E).
  - apply pmem_false. apply pmem_false in E. intros Hc. apply E. apply (Permutation_in _ P Hc).
Qed.

(* AlternatingCrossover: in every bloc's profile the ballots that start with an opposing-slate
   candidate weigh exactly the number of crossover voters, the others start with an own-slate
   candidate *)
Theorem gen_ac_crossover_split : forall blocs by_bloc agg calls,
  (forall x, In x blocs -> ac_bcands x <> [] /\ ac_ocands x <> [] /\
     forall c, In c (ac_bcands x) -> ~ In c (ac_ocands x)) ->
  gen_ac_run blocs = inl (by_bloc, agg, calls) ->
  Forall2 (fun (x : ac_in) (bq : bloc * gprofile) =>
             weight_first_in (ac_ocands x) (ballots (snd bq)) ==
               Qnat (Nat.min (ac_ncross x) (length (ac_draws x))) /\
             weight_first_in (ac_bcands x) (ballots (snd bq)) ==
               Qnat (length (ac_draws x) - Nat.min (ac_ncross x) (length (ac_draws x))))
          blocs by_bloc.
Proof.
  intros blocs by_bloc agg calls Hok H. apply (bloc_run_inv ac_pool) in H.
  destruct H as (pools & HF & Hfin & _).
  destruct (finish_blocs_ok _ _ _ Hfin) as (HB & _ & _). apply Forall2_map_l_inv in HB.
  pose proof (Forall2_compose _ _ _ _ _ _ _ _ HF HB) as HC.
  eapply Forall2_weaken; [|exact HC]. intros x bq Hx _ (p & Hp & (_ & Hbal & _)). cbn [fst snd] in Hbal.
  destruct (Hok x Hx) as (Hbne & Hone & Hdis).
  unfold ac_pool in Hp. apply rbind_inl in Hp. destruct Hp as ([bs cs] & Hr & Hp). injection Hp as <-.
  cbn [fst snd] in Hbal. rewrite Hbal. apply ac_bloc_ok in Hr. destruct Hr as (Hl & Hk).
  assert (Hsingle : forall b, In b bs -> all_single (rk b) (sc b)).
  { intros b Hb. apply In_nth_error in Hb. destruct Hb as (k & Hb).
    assert (Hlt : (k < length (ac_draws x))%nat) by (rewrite <- Hl; apply nth_error_Some; rewrite Hb; discriminate).
    destruct (nth_error (ac_draws x) k) as [d|] eqn:Ed; [|apply nth_error_None in Ed; lia].
    destruct (Hk k d Ed) as (Hb' & _). rewrite Hb in Hb'. injection Hb' as ->. apply all_single_singletons. }
  assert (Hfirst : forall k b, nth_error bs k = Some b ->
            wt b == 1 /\
            first_in (ac_ocands x) (rk b) = (if Nat.ltb (0 + k) (ac_ncross x) then 1 else 0) /\
            first_in (ac_bcands x) (rk b) = (if Nat.ltb (0 + k) (ac_ncross x) then 0 else 1)).
  { intros k b Hb.
    assert (Hlt : (k < length (ac_draws x))%nat) by (rewrite <- Hl; apply nth_error_Some; rewrite Hb; discriminate).
    destruct (nth_error (ac_draws x) k) as [[bo oo]|] eqn:Ed; [|apply nth_error_None in Ed; lia].
    destruct (Hk k (bo, oo) Ed) as (Hb' & P1 & P2). cbn [fst snd] in *. rewrite Hb in Hb'. injection Hb' as ->.
    split; [reflexivity|].
    destruct bo as [|b0 bo]; [apply Permutation_nil in P1; contradiction|].
    destruct oo as [|o0 oo]; [apply Permutation_nil in P2; contradiction|].
    assert (Hb0 : In b0 (ac_bcands x)) by (apply (Permutation_in _ P1); left; reflexivity).
    assert (Ho0 : In o0 (ac_ocands x)) by (apply (Permutation_in _ P2); left; reflexivity).
    assert (E1 : pmem b0 (ac_bcands x) = true) by (apply pmem_In; exact Hb0).
    assert (E2 : pmem o0 (ac_ocands x) = true) by (apply pmem_In; exact Ho0).
    assert (E3 : pmem b0 (ac_ocands x) = false) by (apply pmem_false; apply Hdis; exact Hb0).
    assert (E4 : pmem o0 (ac_bcands x) = false).
    { apply pmem_false. intros Hc. apply (Hdis o0 Hc Ho0). }
    unfold ac_ballot, unit_ballot, plain_ballot. cbn [rk Nat.add].
    destruct (Nat.ltb k (ac_ncross x)); cbn [interleave app singletons map first_in];
      rewrite ?E1, ?E2, ?E3, ?E4; split; reflexivity. }
  split.
  - rewrite (weight_first_condense _ _ Hsingle).
    rewrite (weight_first_count (ac_ocands x) (ac_ncross x) 1 0 bs O).
    + rewrite Nat.sub_0_r, Hl. ring.
    + intros k b Hb. destruct (Hfirst k b Hb) as (A & B & _). split; assumption.
  - rewrite (weight_first_condense _ _ Hsingle).
    rewrite (weight_first_count (ac_bcands x) (ac_ncross x) 0 1 bs O).
    + rewrite Nat.sub_0_r, Hl. ring.
    + intros k b Hb. destruct (Hfirst k b Hb) as (A & _ & B). split; assumption.
Qed.

(* CambridgeSampler: nb ballots start with an own-slate candidate, nc with an opposing-slate one *)
Theorem gen_cambridge_split : forall freqs blocs by_bloc agg calls,
  (forall x, In x blocs -> cam_own x <> cam_opp x /\
     (forall c, In c (cam_so x) -> In c (cam_sp x) -> False) /\
     (exists c, In c (map fst (pi_int (cam_iv x))) /\ In c (cam_so x)) /\
     (exists c, In c (map fst (pi_int (cam_iv x))) /\ In c (cam_sp x))) ->
  gen_cambridge_run freqs blocs = inl (by_bloc, agg, calls) ->
  Forall2 (fun (x : cam_in) (bq : bloc * gprofile) =>
             weight_first_in (cam_so x) (ballots (snd bq)) == Qnat (cam_nb x) /\
             weight_first_in (cam_sp x) (ballots (snd bq)) == Qnat (cam_nc x))
          blocs by_bloc.
Proof.
  intros freqs blocs by_bloc agg calls Hok H. rewrite gen_cambridge_run_eq in H.
  apply (bloc_run_inv (GenRunSpec.cam_pool freqs)) in H. destruct H as (pools & HF & Hfin & _).
  destruct (finish_blocs_ok _ _ _ Hfin) as (HB & _ & _). apply Forall2_map_l_inv in HB.
  pose proof (Forall2_compose _ _ _ _ _ _ _ _ HF HB) as HC.
  eapply Forall2_weaken; [|exact HC]. intros x bq Hx _ (p & Hp & (_ & Hbal & _)). cbn [fst snd] in Hbal.
  destruct (Hok x Hx) as (Hne & Hdis & (c1 & Hc1 & Hs1) & (c2 & Hc2 & Hs2)).
  unfold GenRunSpec.cam_pool in Hp. apply rbind_inl in Hp. destruct Hp as ([bs cs] & Hr & Hp). injection Hp as <-.
  cbn [fst snd] in Hbal. rewrite Hbal.
  pose proof (cam_bloc_wf _ _ _ _ _ _ _ _ _ _ _ Hr) as (Hld & Hlb & _ & Hk & Hu).
  assert (Hnth : forall k b, nth_error bs k = Some b -> exists d, nth_error (cam_draws x) k = Some d).
  { intros k b Hb. assert (Hlt : (k < length (cam_draws x))%nat).
    { rewrite Hld, <- Hlb. apply nth_error_Some. rewrite Hb. discriminate. }
    destruct (nth_error (cam_draws x) k) as [d|] eqn:Ed; [exists d; reflexivity|apply nth_error_None in Ed; lia]. }
  assert (Hsingle : forall b, In b bs -> all_single (rk b) (sc b)).
  { intros b Hb. apply In_nth_error in Hb. destruct Hb as (k & Hb). destruct (Hnth k b Hb) as (d & Ed).
    destruct (Hk k d Ed) as ((b' & Hb' & Hc) & _). rewrite Hb in Hb'. injection Hb' as <-.
    pose proof (cam_ballot_wf _ _ _ _ _ _ _ Hc) as W. cbv zeta in W.
    destruct W as (_ & _ & _ & _ & _ & Hrk & _). rewrite Hrk. apply all_single_singletons. }
  assert (Hfirst : forall k b, nth_error bs k = Some b ->
            wt b == 1 /\
            first_in (cam_so x) (rk b) = (if Nat.ltb (0 + k) (cam_nb x) then 1 else 0) /\
            first_in (cam_sp x) (rk b) = (if Nat.ltb (0 + k) (cam_nb x) then 0 else 1)).
  { intros k b Hb. destruct (Hnth k b Hb) as (d & Ed).
    split; [apply (Hu b (nth_error_In _ _ Hb))|].
    destruct (cam_bloc_first_choice _ _ _ _ _ _ _ _ _ _ _ k d b Hr Ed Hb) as (F1 & F2).
    destruct (Hk k d Ed) as ((b' & Hb' & Hc) & _). rewrite Hb in Hb'. injection Hb' as <-.
    pose proof (cam_ballot_wf _ _ _ _ _ _ _ Hc) as W. cbv zeta in W.
    destruct W as (_ & _ & _ & _ & _ & Hrk & Hfl & _).
    cbn [Nat.add]. destruct (Nat.ltb_spec k (cam_nb x)) as [Hlt|Hge].
    - destruct (F1 Hlt) as (c & rest & Efl & Ec & _).
      { exists c1. split; [exact Hc1|apply pmem_In; exact Hs1]. }
      rewrite Hfl in Efl. rewrite Hrk, Efl. cbn [singletons map first_in]. rewrite Ec.
      assert (E : pmem c (cam_sp x) = false).
      { apply pmem_false. intros Hin. apply pmem_In in Ec. apply (Hdis c Ec Hin). }
      rewrite E. split; reflexivity.
    - destruct (F2 Hge Hne) as (c & rest & Efl & Ec & _).
      { exists c2. split; [exact Hc2|apply pmem_In; exact Hs2]. }
      rewrite Hfl in Efl. rewrite Hrk, Efl. cbn [singletons map first_in]. rewrite Ec.
      assert (E : pmem c (cam_so x) = false).
      { apply pmem_false. intros Hin. apply pmem_In in Ec. apply (Hdis c Hin Ec). }
      rewrite E. split; reflexivity. }
  split.
  - rewrite (weight_first_condense _ _ Hsingle).
    rewrite (weight_first_count (cam_so x) (cam_nb x) 1 0 bs O).
    + rewrite Nat.sub_0_r, Hlb. replace (Nat.min (cam_nb x) (cam_nb x + cam_nc x)) with (cam_nb x) by lia. ring.
    + intros k b Hb. destruct (Hfirst k b Hb) as (A & B & _). split; assumption.
  - rewrite (weight_first_condense _ _ Hsingle).
    rewrite (weight_first_count (cam_sp x) (cam_nb x) 0 1 bs O).
    + rewrite Nat.sub_0_r, Hlb. replace (Nat.min (cam_nb x) (cam_nb x + cam_nc x)) with (cam_nb x) by lia.
      replace (cam_nb x + cam_nc x - cam_nb x)%nat with (cam_nc x) by lia. ring.
    + intros k b Hb. destruct (Hfirst k b Hb) as (A & _ & B). split; assumption.
Qed.
