(* Proofs/STV_weights.v — C02/C03 at round level: where the weight goes in one STV round.
   Election round (fractional / full-weight transfer): for every class function phi,
     Σ_{b' in new profile} wt b' * phi (rk b') == Σ_{b in old profile} wt b * share b * phi'(rk b)
   with phi' r = phi (strip W r) when that is non-empty and 0 otherwise.  phi = 1 gives the total
   weight accounting, phi = [· ~ r'] the weight arriving on each continuing ranking. *)
From VK Require Import Base Core STV EditSpec ScoreSpec STVSpec.
From VK.Proofs Require Import Lib_sets Lib_rk Lib_condense Lib_condense12 C12_edit C03_transfer
  C04_scoring Elect STV_lib STV_wsum STV_tb STV_step STV_round STV_threshold.
From Coq Require Import Permutation Lia Lqa Setoid Morphisms.

Section WithCand.
Variable cand : Type.
Variable ceqb : cand -> cand -> bool.
Hypothesis ceqb_spec : forall a b, reflect (a = b) (ceqb a b).

Notation cset := (cset cand).
Notation ranking := (ranking cand).
Notation ballot := (ballot cand).
Notation profile := (profile cand).
Notation scores := (scores cand).
Notation mstate := (mstate cand).
Notation estate := (estate cand).
Notation memb := (memb cand ceqb).
Notation ranking_eqb := (ranking_eqb cand ceqb).
Notation flat := (flat cand).
Notation strip := (strip cand ceqb).
Notation set_diff := (set_diff cand ceqb).
Notation first_is := (first_is cand ceqb).
Notation pile := (pile cand ceqb).
Notation total_wt := (total_wt cand).
Notation wtof_rk := (wtof_rk cand ceqb).
Notation tally := (tally cand ceqb).
Notation wf_stv_ballot := (wf_stv_ballot cand).
Notation wf_stv0 := (wf_stv0 cand).
Notation state_of := (state_of cand ceqb).
Notation step_ctx := (step_ctx cand ceqb).
Notation script_ok := (script_ok cand).
Notation head_cand := (head_cand cand).
Notation keep_share := (keep_share cand ceqb).
Notation moved_to := (moved_to cand ceqb).
Notation exhausted_wt := (exhausted_wt cand ceqb).
Notation lookup0 := (lookup0 cand ceqb).
Notation remove_cand_bs := (remove_cand_bs cand ceqb).
Notation score_free := (score_free cand).
Notation all_pos := (all_pos cand).
Notation do_transfer := (do_transfer cand ceqb).
Notation frac_transfer := (frac_transfer cand ceqb).
Notation transfers := (transfers cand ceqb).
Notation elect_round := (elect_round cand ceqb).
Notation elim_round := (elim_round cand ceqb).
Notation cls := (cls cand ceqb).
Notation wsumr := (wsumr cand).
Notation after := (after cand ceqb).
Notation maps_to := (maps_to cand ceqb).
Notation exhausted := (exhausted cand ceqb).

Let memb_In := Lib_rk.memb_In cand ceqb ceqb_spec.
Let memb_false_iff := Lib_rk.memb_false_iff cand ceqb ceqb_spec.

(* ====================== sums over ballots, pile by pile ====================== *)

Lemma qsum_concat_map : forall {A} (G : A -> Q) (ls : list (list A)),
  qsum (map G (concat ls)) == qsum (map (fun l => qsum (map G l)) ls).
Proof.
  intros A G. induction ls as [|l ls IH]; [reflexivity|]. cbn [concat map].
  rewrite map_app, Lib_sets.qsum_app, Lib_sets.qsum_cons, IH. reflexivity.
Qed.

Lemma sum_by_piles : forall (p : profile) cs' (g : cand -> ballot -> Q),
  wf_stv0 p -> NoDup cs' -> Permutation cs' (cands p) ->
  qsum (map (fun c => qsum (map (g c) (pile p c))) cs') ==
  qsum (map (fun b => match head_cand b with Some h => g h b | None => 0 end) (ballots p)).
Proof.
  intros p cs' g Hwf Hnd Hperm.
  set (G := fun b => match head_cand b with Some h => g h b | None => 0 end).
  assert (Hincl : incl (cands p) cs').
  { intros c Hc. eapply Permutation_in; [apply Permutation_sym; exact Hperm|exact Hc]. }
  rewrite <- (Lib_sets.qsum_perm _ _ (Permutation_map G (piles_all_perm cand ceqb ceqb_spec p cs' Hwf Hnd Hincl))).
  rewrite qsum_concat_map, map_map. apply Lib_sets.qsum_map_ext_in. intros c _.
  apply Lib_sets.qsum_map_ext_in. intros b Hb. apply pile_in in Hb. destruct Hb as [Hb Hf].
  destruct Hwf as [_ Hwfb]. rewrite Forall_forall in Hwfb.
  apply (first_is_head_cand cand ceqb ceqb_spec _ b c (Hwfb b Hb)) in Hf.
  unfold G. rewrite Hf. reflexivity.
Qed.

(* ====================== one winner's transfer ====================== *)

(* share of its weight that a ballot led by the winner c keeps *)
Definition share (k : transfer_kind) (t : Q) (bs : list ballot) (c : cand) : Q :=
  match k with TFractional => (tally c bs - t) / tally c bs | _ => 1 end.

Lemma after_strip_in : forall W w phi r, In w W -> after W phi (strip [w] r) = after W phi r.
Proof.
  intros W w phi r Hw. unfold STV_wsum.after. rewrite (strip_strip_in cand ceqb ceqb_spec W w r Hw).
  reflexivity.
Qed.

Lemma after_zero_mono : forall W w phi r, In w W -> nonempty (strip [w] r) = false -> after W phi r = 0.
Proof.
  intros W w phi r Hw H. unfold STV_wsum.after.
  destruct (nonempty (strip W r)) eqn:E; [|reflexivity]. exfalso.
  apply nonempty_true_iff in E. apply (strip_nonempty_mono cand ceqb ceqb_spec W w r Hw) in E.
  apply nonempty_true_iff in E. congruence.
Qed.

Lemma xfer_law : forall k (p : profile) W w fpv t (s1 s2 : mstate) a phi,
  wf_stv0 p -> k <> TRandom ->
  do_transfer k w fpv (pile p w) t s1 = inl (a, s2) ->
  fpv == tally w (ballots p) -> t <= tally w (ballots p) -> In w W -> cls phi ->
  wsumr (after W phi) a ==
  qsum (map (fun b => wt b * share k t (ballots p) w * after W phi (rk b)) (pile p w)).
Proof.
  intros k p W w fpv t s1 s2 a phi Hwf Hk H Hfpv Hreach Hw Hc.
  pose proof (after_cls cand ceqb ceqb_spec W phi Hc) as Hc'.
  destruct k; [| contradiction Hk; reflexivity |]; cbn [STV.do_transfer] in H.
  - (* fractional *)
    unfold mlift in H. destruct (frac_transfer w fpv (pile p w) t) as [out|e] eqn:E; [|discriminate].
    injection H as <- <-.
    rewrite (wsumr_frac cand ceqb w fpv _ t out _ E Hc').
    destruct (frac_ok_inv cand ceqb w fpv _ t out E) as (Hnz & _ & _).
    assert (Hpos : forall b, In b (pile p w) -> 0 < wt b).
    { intros b Hb. apply pile_in in Hb. destruct Hwf as [_ Hwfb]. rewrite Forall_forall in Hwfb.
      apply (Hwfb b (proj1 Hb)). }
    assert (Hfp : 0 < fpv).
    { assert (0 <= fpv).
      { rewrite Hfpv. apply tally_nonneg. intros b Hb. destruct Hwf as [_ Hwfb].
        rewrite Forall_forall in Hwfb. apply (Hwfb b Hb). }
      destruct (Qlt_le_dec 0 fpv) as [Hlt|Hle]; [exact Hlt|]. exfalso. apply Hnz. lra. }
    set (tv := (fpv - t) / fpv).
    assert (Htv0 : 0 <= tv).
    { unfold tv, Qdiv. apply Qmult_le_0_compat; [lra|]. apply Qlt_le_weak, Qinv_lt_0_compat. exact Hfp. }
    assert (Htv : share TFractional t (ballots p) w == tv).
    { unfold share, tv. rewrite <- Hfpv. reflexivity. }
    apply Lib_sets.qsum_map_ext_in. intros b Hb.
    assert (Hf : first_is w b = true) by (apply pile_in in Hb; apply Hb).
    unfold twt. rewrite Hf, (after_strip_in W w phi (rk b) Hw), Htv.
    destruct (nonempty (strip [w] (rk b))) eqn:En; cbn [andb].
    + destruct (Qlt_bool 0 (wt b * tv)) eqn:El; [reflexivity|].
      apply Lib_rk.Qlt_bool_false_iff in El. specialize (Hpos b Hb).
      assert (Hz : tv == 0).
      { destruct (Qlt_le_dec 0 tv) as [Hlt|Hle]; [|lra]. exfalso.
        pose proof (Qmult_lt_0_compat _ _ Hpos Hlt). lra. }
      rewrite Hz. ring.
    + rewrite (after_zero_mono W w phi (rk b) Hw En). ring.
  - (* full weight *)
    unfold mlift, STV.full_transfer, ok in H. injection H as <- <-.
    pose proof (pile_wf cand ceqb p w Hwf) as Hpw.
    rewrite (wsumr_remove cand ceqb [w] _ (pile p w)
               (wf_ballots_sf cand _ _ Hpw) (wf_ballots_pos cand _ _ Hpw) Hc').
    unfold STV_wsum.wsumr. apply Lib_sets.qsum_map_ext_in. intros b _.
    rewrite (after_after_in cand ceqb ceqb_spec W w phi (rk b) Hw). unfold share. ring.
Qed.

Lemma transfers_law : forall k (p : profile) d t W ws (s s' : mstate) mvs phi,
  transfers k p d t ws s mvs s' -> wf_stv0 p -> k <> TRandom ->
  (forall w, In w ws -> In w W /\ t <= tally w (ballots p) /\ lookup0 w d == tally w (ballots p)) ->
  cls phi ->
  qsum (map (wsumr (after W phi)) mvs) ==
  qsum (map (fun w => qsum (map (fun b => wt b * share k t (ballots p) w * after W phi (rk b))
                                (pile p w))) ws).
Proof.
  intros k p d t W ws s s' mvs phi H Hwf Hk Hws Hc.
  induction H as [s|w ws s a s1 mvs s2 Hw Hd _ IH]; [reflexivity|].
  cbn [map]. rewrite !Lib_sets.qsum_cons.
  destruct (Hws w (or_introl eq_refl)) as (HwW & Hreach & Hl).
  rewrite (xfer_law k p W w _ t s s1 a phi Hwf Hk Hd Hl Hreach HwW Hc).
  rewrite IH; [reflexivity|]. intros w' Hw'. apply Hws. right. exact Hw'.
Qed.


(* ====================== random transfer: only totals ====================== *)

Lemma Qtrunc_int : forall q z, q == inject_Z z -> Qtrunc q = z.
Proof.
  intros [n dn] z H. unfold Qeq in H. cbn in H. unfold Qtrunc. cbn [Qnum Qden].
  assert (E : n = (z * Z.pos dn)%Z) by lia. rewrite E. apply Z.quot_mul. discriminate.
Qed.

Lemma integral_total : forall l : list ballot, (forall b, In b l -> is_integral (wt b) = true) ->
  exists z, total_wt l == inject_Z z.
Proof.
  induction l as [|b l IH]; intros H.
  - exists 0%Z. reflexivity.
  - destruct IH as [z Hz]; [intros b' Hb'; apply H; right; exact Hb'|].
    exists (Qtrunc (wt b) + z)%Z. rewrite (total_wt_cons cand), Hz, inject_Z_plus.
    rewrite (Qtrunc_integral _ (H b (or_introl eq_refl))). reflexivity.
Qed.

Lemma plain_total_le : forall l : list ranking,
  total_wt (filter (keep_ballot cand) (map (fun r => plain_ballot cand r 1) l)) <= Qnat (length l).
Proof.
  induction l as [|r l IH]; [apply Qle_refl|]. cbn [map filter length]. rewrite Qnat_S.
  destruct (keep_ballot cand (plain_ballot cand r 1)).
  - rewrite (total_wt_cons cand). cbn [plain_ballot wt]. lra.
  - pose proof (Qnat_nonneg (length l)). lra.
Qed.

Lemma rt_others_pile : forall (p : profile) w, rt_others cand ceqb w (pile p w) = [].
Proof.
  intros p w. unfold rt_others, Core.pile. rewrite filter_filter.
  rewrite (Lib_sets.filter_all_false _ (ballots p)); [reflexivity|].
  intros b _. destruct (first_is w b); reflexivity.
Qed.

Lemma rand_xfer_bound : forall (p : profile) w fpv t (s1 s2 : mstate) a,
  do_transfer TRandom w fpv (pile p w) t s1 = inl (a, s2) ->
  fpv == tally w (ballots p) -> is_integral t = true ->
  total_wt a <= tally w (ballots p) - t.
Proof.
  intros p w fpv t s1 s2 a H Hfpv Hint. cbn [STV.do_transfer] in H.
  destruct (rand_ok_inv cand ceqb w fpv _ t s1 a s2 H) as (Hgood & HK & l & _ & _ & Hv & ->).
  destruct (valid_sample_spec cand ceqb ceqb_spec w _ _ l Hv) as (Hlen & _ & _).
  unfold rt_out. rewrite (condense_total cand ceqb), rt_others_pile. cbn [app].
  eapply Qle_trans; [apply plain_total_le|]. unfold Qnat. rewrite Hlen.
  unfold Zminus. rewrite inject_Z_plus, inject_Z_opp, (Qtrunc_integral t Hint).
  destruct (integral_total (pile p w) (fun b Hb => proj1 (Hgood b Hb))) as [z Hz].
  rewrite <- tally_pile in Hz. rewrite <- Hfpv in Hz. rewrite (Qtrunc_int fpv z Hz), <- Hz. lra.
Qed.

(* ====================== an election round ====================== *)

Section RoundLaw.
Variable cfg : stv_cfg.
Variable t : Q.
Variables p0 p : profile.
Variables prev st : estate.
Variable np : profile.
Variables s s' : mstate.
Variables W others : cset.
Variable mvs : list (list ballot).
Variable s1 : mstate.
Hypothesis Hctx : step_ctx p0 p prev.
Hypothesis Hr : elect_round cfg t p prev st np s s' W others mvs s1.

Let k := s_transfer cfg.
Let bs := ballots p.
Let Hwf : wf_stv0 p := ctx_wf cand ceqb p0 p prev Hctx.

Lemma er_W_in : forall w, In w W -> In w (cands p).
Proof.
  intros w Hw. eapply Permutation_in; [apply (er_part _ _ _ _ _ _ _ _ _ _ _ _ _ _ Hr)|].
  apply in_or_app. left. exact Hw.
Qed.

Lemma er_all_nd : NoDup (W ++ others).
Proof.
  eapply Permutation_NoDup; [apply Permutation_sym, (er_part _ _ _ _ _ _ _ _ _ _ _ _ _ _ Hr)|apply Hwf].
Qed.

Lemma er_others_notin : forall c, In c others -> ~ In c W.
Proof.
  intros c Hc Hw. destruct (NoDup_app_inv W others er_all_nd) as (_ & _ & H). apply (H c Hw Hc).
Qed.

Lemma er_lookup : forall w, In w W -> lookup0 w (escores prev) == tally w bs.
Proof.
  intros w Hw. apply (ctx_score cand ceqb ceqb_spec p0 p prev Hctx w (er_W_in w Hw)).
Qed.

Lemma er_B_wf : (k = TRandom -> script_ok s) ->
  Forall (wf_stv_ballot (cands p)) (concat mvs ++ concat (map (pile p) others)).
Proof.
  intros Hscr. apply Forall_app. split; [|apply piles_wf; exact Hwf].
  apply concat_Forall.
  apply (transfers_wf cand ceqb ceqb_spec k p _ t W s1 s' mvs (er_tr _ _ _ _ _ _ _ _ _ _ _ _ _ _ Hr) Hwf).
  intros Hk. apply (script_ok_suffix cand s s1 (er_suf _ _ _ _ _ _ _ _ _ _ _ _ _ _ Hr)). apply Hscr. exact Hk.
Qed.

Lemma er_ballots : ballots np = remove_cand_bs W true false (concat mvs ++ concat (map (pile p) others)).
Proof. rewrite (er_np _ _ _ _ _ _ _ _ _ _ _ _ _ _ Hr). reflexivity. Qed.

Lemma er_cands : cands np = set_diff (cands p) W.
Proof. rewrite (er_np _ _ _ _ _ _ _ _ _ _ _ _ _ _ Hr). reflexivity. Qed.

(* the transfer law of an election round, for every class function *)
Theorem elect_round_law : forall phi, k <> TRandom -> cls phi ->
  wsumr phi (ballots np) ==
  qsum (map (fun b => wt b * keep_share k W t bs b * after W phi (rk b)) bs).
Proof.
  intros phi Hk Hc.
  assert (HB := er_B_wf (fun E => False_ind _ (Hk E))).
  pose proof (after_cls cand ceqb ceqb_spec W phi Hc) as Hc'.
  rewrite er_ballots.
  rewrite (wsumr_remove cand ceqb W phi _ (wf_ballots_sf cand _ _ HB) (wf_ballots_pos cand _ _ HB) Hc).
  rewrite (wsumr_app cand), !(wsumr_concat cand), map_map.
  rewrite (transfers_law k p _ t W W s1 s' mvs phi (er_tr _ _ _ _ _ _ _ _ _ _ _ _ _ _ Hr) Hwf Hk); [|
    intros w Hw; split; [exact Hw|]; split;
      [apply (er_reach _ _ _ _ _ _ _ _ _ _ _ _ _ _ Hr w Hw)|apply (er_lookup w Hw)] | exact Hc].
  set (g := fun c b => wt b * (if memb c W then share k t bs c else 1) * after W phi (rk b)).
  assert (E1 : qsum (map (fun w => qsum (map (fun b => wt b * share k t (ballots p) w * after W phi (rk b))
                                              (pile p w))) W)
               == qsum (map (fun c => qsum (map (g c) (pile p c))) W)).
  { apply Lib_sets.qsum_map_ext_in. intros w Hw. apply Lib_sets.qsum_map_ext_in. intros b _.
    unfold g. rewrite (proj2 (memb_In w W) Hw). reflexivity. }
  assert (E2 : qsum (map (fun c => wsumr (after W phi) (pile p c)) others)
               == qsum (map (fun c => qsum (map (g c) (pile p c))) others)).
  { apply Lib_sets.qsum_map_ext_in. intros c Hc0. unfold STV_wsum.wsumr.
    apply Lib_sets.qsum_map_ext_in. intros b _.
    unfold g. rewrite (proj2 (memb_false_iff c W) (er_others_notin c Hc0)). ring. }
  rewrite E1, E2, <- Lib_sets.qsum_app, <- map_app.
  rewrite (sum_by_piles p (W ++ others) g Hwf er_all_nd (er_part _ _ _ _ _ _ _ _ _ _ _ _ _ _ Hr)).
  apply Lib_sets.qsum_map_ext_in. intros b Hb. destruct Hwf as [_ Hwfb].
  rewrite Forall_forall in Hwfb.
  destruct (wf_ballot_head cand _ b (Hwfb b Hb)) as (h & rest & _ & _ & Hh).
  rewrite Hh. unfold g, STVSpec.keep_share. rewrite Hh. fold k.
  destruct k; [|contradiction Hk; reflexivity|].
  - unfold share. destruct (memb h W); reflexivity.
  - unfold share. destruct (memb h W); reflexivity.
Qed.

(* ---------- per-ranking weights (C02) ---------- *)

Lemma after_ind_rk : forall W0 r' r, nonempty r' = true ->
  after W0 (ind_rk cand ceqb r') r = if ranking_eqb r' (strip W0 r) then 1 else 0.
Proof.
  intros W0 r' r Hne. unfold STV_wsum.after, ind_rk.
  destruct (ranking_eqb r' (strip W0 r)) eqn:E.
  - rewrite <- (ranking_eqb_nonempty cand ceqb _ _ E), Hne. reflexivity.
  - destruct (nonempty (strip W0 r)); reflexivity.
Qed.

Theorem elect_round_weights : forall r', k <> TRandom -> nonempty r' = true ->
  wtof_rk r' (ballots np) == moved_to W (keep_share k W t bs) r' bs.
Proof.
  intros r' Hk Hne. rewrite <- (wsumr_ind cand ceqb).
  rewrite (elect_round_law (ind_rk cand ceqb r') Hk (ind_rk_cls cand ceqb ceqb_spec r')).
  unfold STVSpec.moved_to, EditSpec.sum_where. rewrite qsum_filter_as_ite.
  apply Lib_sets.qsum_map_ext_in. intros b _. rewrite (after_ind_rk W r' (rk b) Hne).
  unfold EditSpec.maps_to. destruct (ranking_eqb r' (strip W (rk b))); ring.
Qed.

(* ---------- total weight (C03) ---------- *)

Lemma transfers_each : forall k0 (p1 : profile) d t0 ws (sa sb : mstate) ms,
  transfers k0 p1 d t0 ws sa ms sb ->
  forall w, In w ws -> exists sx sy a, do_transfer k0 w (lookup0 w d) (pile p1 w) t0 sx = inl (a, sy).
Proof.
  intros k0 p1 d t0 ws sa sb ms H. induction H as [sa|w ws sa a sm ms sb Hw Hd _ IH]; intros w' Hw'.
  - destruct Hw'.
  - destruct Hw' as [<-|Hw']; [exists sa, sm, a; exact Hd|apply IH; exact Hw'].
Qed.

Lemma er_tally_pos : k = TFractional -> forall w, In w W -> 0 < tally w bs.
Proof.
  intros Hk w Hw.
  destruct (transfers_each _ _ _ _ _ _ _ _ (er_tr _ _ _ _ _ _ _ _ _ _ _ _ _ _ Hr) w Hw) as (sx & sy & a & Hd).
  fold k in Hd. rewrite Hk in Hd. cbn [STV.do_transfer] in Hd. unfold mlift in Hd.
  destruct (frac_transfer w _ (pile p w) t) as [out|e] eqn:E; [|discriminate].
  destruct (frac_ok_inv cand ceqb w _ _ t out E) as (Hnz & _ & _).
  rewrite (er_lookup w Hw) in Hnz.
  assert (H0 : 0 <= tally w bs).
  { apply tally_nonneg. intros b Hb. apply (ctx_bs_pos cand ceqb p0 p prev Hctx b Hb). }
  destruct (Qlt_le_dec 0 (tally w bs)) as [Hlt|Hle]; [exact Hlt|]. exfalso. apply Hnz. lra.
Qed.

Lemma keep_share_nonneg : forall b, In b bs -> 0 <= keep_share k W t bs b.
Proof.
  intros b Hb. unfold STVSpec.keep_share. destruct k eqn:Ek; try lra.
  destruct (head_cand b) as [h|]; [|lra]. destruct (memb h W) eqn:Em; [|lra].
  apply memb_In in Em. pose proof (er_tally_pos Ek h Em) as Hp.
  pose proof (er_reach _ _ _ _ _ _ _ _ _ _ _ _ _ _ Hr h Em) as Hre. fold bs in Hre.
  unfold Qdiv. apply Qmult_le_0_compat; [lra|]. apply Qlt_le_weak, Qinv_lt_0_compat. exact Hp.
Qed.

Lemma exhausted_wt_nonneg : 0 <= exhausted_wt W (keep_share k W t bs) bs.
Proof.
  unfold STVSpec.exhausted_wt, EditSpec.sum_where. apply Lib_sets.qsum_nonneg. apply Forall_forall.
  intros x Hx. apply in_map_iff in Hx. destruct Hx as (b & <- & Hb). apply filter_In in Hb.
  apply Qmult_le_0_compat; [|apply keep_share_nonneg; apply Hb].
  apply Qlt_le_weak. apply (ctx_bs_pos cand ceqb p0 p prev Hctx b (proj1 Hb)).
Qed.

(* what the quota-elected candidates keep: t each (fractional), nothing (full weight) *)
Lemma kept_by_winners : k <> TRandom ->
  qsum (map (fun b => wt b * (1 - keep_share k W t bs b)) bs) ==
  match k with TFractional => t * Qnat (length W) | _ => 0 end.
Proof.
  intros Hk.
  set (g := fun c (b : ballot) => wt b * (1 - (if memb c W then share k t bs c else 1))).
  assert (E : qsum (map (fun b => wt b * (1 - keep_share k W t bs b)) bs)
              == qsum (map (fun c => qsum (map (g c) (pile p c))) (W ++ others))).
  { rewrite (sum_by_piles p (W ++ others) g Hwf er_all_nd (er_part _ _ _ _ _ _ _ _ _ _ _ _ _ _ Hr)).
    apply Lib_sets.qsum_map_ext_in. intros b Hb. destruct Hwf as [_ Hwfb].
    rewrite Forall_forall in Hwfb.
    destruct (wf_ballot_head cand _ b (Hwfb b Hb)) as (h & rest & _ & _ & Hh).
    rewrite Hh. unfold g, STVSpec.keep_share. rewrite Hh.
    destruct k; [|contradiction Hk; reflexivity|]; unfold share; destruct (memb h W); reflexivity. }
  rewrite E, map_app, Lib_sets.qsum_app.
  assert (Eo : qsum (map (fun c => qsum (map (g c) (pile p c))) others) == 0).
  { apply Lib_sets.qsum_map_zero. intros c Hc. apply Lib_sets.qsum_map_zero. intros b _.
    unfold g. rewrite (proj2 (memb_false_iff c W) (er_others_notin c Hc)). ring. }
  rewrite Eo.
  assert (Ew : forall c, In c W -> qsum (map (g c) (pile p c)) == (1 - share k t bs c) * tally c bs).
  { intros c Hc. unfold g. rewrite (proj2 (memb_In c W) Hc).
    rewrite (Lib_sets.qsum_map_ext_in _ (fun b => (1 - share k t bs c) * wt b)); [|intros b _; ring].
    rewrite Lib_sets.qsum_map_scal. reflexivity. }
  destruct k eqn:Ek; [|contradiction Hk; reflexivity|].
  - rewrite (Lib_sets.qsum_map_ext_in _ (fun _ => t)).
    + rewrite Lib_sets.qsum_map_const. ring.
    + intros c Hc. rewrite (Ew c Hc). unfold share. pose proof (er_tally_pos Ek c Hc). field. lra.
  - rewrite (Lib_sets.qsum_map_zero _ W); [ring|].
    intros c Hc. rewrite (Ew c Hc). unfold share. ring.
Qed.

Theorem elect_round_total : k <> TRandom ->
  total_wt bs - total_wt (ballots np) ==
  match k with TFractional => t * Qnat (length W) | _ => 0 end
  + exhausted_wt W (keep_share k W t bs) bs.
Proof.
  intros Hk.
  assert (Hnp : total_wt (ballots np) ==
                qsum (map (fun b => wt b * keep_share k W t bs b * after W (fun _ => 1) (rk b)) bs)).
  { rewrite <- (wsumr_one cand (ballots np)).
    apply (elect_round_law (fun _ => 1) Hk (fun _ _ _ => Qeq_refl 1)). }
  pose proof (kept_by_winners Hk) as HK.
  assert (Hsum : qsum (map (@wt cand) bs) ==
                 qsum (map (fun b => wt b * (1 - keep_share k W t bs b)) bs)
                 + qsum (map (fun b => if exhausted W b then wt b * keep_share k W t bs b else 0) bs)
                 + qsum (map (fun b => wt b * keep_share k W t bs b * after W (fun _ => 1) (rk b)) bs)).
  { rewrite <- !Lib_sets.qsum_map_plus. apply Lib_sets.qsum_map_ext_in. intros b _.
    unfold STV_wsum.after, EditSpec.exhausted. destruct (nonempty (strip W (rk b))); cbn [negb]; ring. }
  rewrite Hnp, <- HK. unfold Core.total_wt, STVSpec.exhausted_wt, EditSpec.sum_where.
  rewrite qsum_filter_as_ite, Hsum. ring.
Qed.

(* ---------- total weight, any transfer ---------- *)

Lemma er_B_total : (k = TRandom -> script_ok s) ->
  total_wt (ballots np) <= total_wt (concat mvs ++ concat (map (pile p) others)).
Proof.
  intros Hscr. pose proof (er_B_wf Hscr) as HB. rewrite er_ballots.
  pose proof (remove_loss cand ceqb W true false _ (wf_ballots_sf cand _ _ HB) (wf_ballots_pos cand _ _ HB)) as H.
  assert (H0 : 0 <= EditSpec.wt_where cand (exhausted W) (concat mvs ++ concat (map (pile p) others))).
  { unfold EditSpec.wt_where. apply Lib_sets.qsum_nonneg. apply Forall_forall. intros x Hx.
    apply in_map_iff in Hx. destruct Hx as (b & <- & Hb). apply filter_In in Hb.
    rewrite Forall_forall in HB. apply Qlt_le_weak. apply (HB b (proj1 Hb)). }
  lra.
Qed.

Lemma er_tally_split :
  qsum (map (fun c => tally c bs) W) + qsum (map (fun c => tally c bs) others) == total_wt bs.
Proof.
  rewrite <- Lib_sets.qsum_app, <- map_app.
  rewrite (Lib_sets.qsum_perm _ _ (Permutation_map (fun c => tally c bs) (er_part _ _ _ _ _ _ _ _ _ _ _ _ _ _ Hr))).
  apply (tally_total cand ceqb ceqb_spec p Hwf).
Qed.

Lemma transfers_rand_bound : forall d ws (sa sb : mstate) ms,
  transfers TRandom p d t ws sa ms sb -> is_integral t = true ->
  (forall w, In w ws -> lookup0 w d == tally w bs) ->
  qsum (map total_wt ms) <= qsum (map (fun w => tally w bs - t) ws).
Proof.
  intros d ws sa sb ms H Hint Hl. induction H as [sa|w ws sa a sm ms sb Hw Hd _ IH]; [apply Qle_refl|].
  cbn [map]. rewrite !Lib_sets.qsum_cons. apply Qplus_le_compat.
  - apply (rand_xfer_bound p w _ t sa sm a Hd (Hl w (or_introl eq_refl)) Hint).
  - apply IH. intros w' Hw'. apply Hl. right. exact Hw'.
Qed.

(* each quota-elected candidate keeps at least the threshold (fractional and random transfer) *)
Theorem elect_round_bound : k <> TFullWeight ->
  (k = TRandom -> script_ok s /\ is_integral t = true) ->
  total_wt (ballots np) <= total_wt bs - t * Qnat (length W).
Proof.
  intros Hk Hrand.
  assert (Hcase : k = TFractional \/ k = TRandom) by (destruct k; [left|right|contradiction Hk]; reflexivity).
  destruct Hcase as [Ek|Ek].
  - assert (Hk' : k <> TRandom) by (rewrite Ek; discriminate).
    pose proof (elect_round_total Hk') as H. rewrite Ek in H.
    pose proof exhausted_wt_nonneg as H0. rewrite Ek in H0. lra.
  - destruct (Hrand Ek) as [Hscr Hint].
    eapply Qle_trans; [apply er_B_total; intros _; exact Hscr|].
    rewrite (total_wt_app cand), !total_wt_concat, map_map.
    pose proof (er_tr _ _ _ _ _ _ _ _ _ _ _ _ _ _ Hr) as Htr. fold k in Htr. rewrite Ek in Htr.
    pose proof (transfers_rand_bound _ _ _ _ _ Htr Hint (fun w Hw => er_lookup w Hw)) as Hb.
    assert (E : qsum (map (fun w => tally w bs - t) W)
                == qsum (map (fun c => tally c bs) W) - t * Qnat (length W)).
    { pose proof (Lib_sets.qsum_map_const t W) as Hc.
      assert (Hp : qsum (map (fun w => tally w bs - t) W) + qsum (map (fun _ : cand => t) W)
                   == qsum (map (fun c => tally c bs) W)).
      { rewrite <- Lib_sets.qsum_map_plus. apply Lib_sets.qsum_map_ext_in. intros c _. ring. }
      lra. }
    pose proof er_tally_split as Hs.
    assert (Eo : qsum (map (fun c => total_wt (pile p c)) others) == qsum (map (fun c => tally c bs) others))
      by reflexivity.
    lra.
Qed.

(* the total weight never increases in an election round (threshold >= 0) *)
Theorem elect_round_monotone : 0 <= t ->
  (k = TRandom -> script_ok s /\ is_integral t = true) ->
  total_wt (ballots np) <= total_wt bs.
Proof.
  intros Ht Hrand.
  assert (Hcase : k = TFullWeight \/ k <> TFullWeight) by (destruct k; [right|right|left]; congruence).
  destruct Hcase as [Ek|Hk].
  - assert (Hk' : k <> TRandom) by (rewrite Ek; discriminate).
    pose proof (elect_round_total Hk') as H. rewrite Ek in H.
    pose proof exhausted_wt_nonneg as H0. rewrite Ek in H0. lra.
  - pose proof (elect_round_bound Hk Hrand) as H.
    pose proof (Qmult_le_0_compat _ _ Ht (Qnat_nonneg (length W))). lra.
Qed.

End RoundLaw.

(* ====================== an elimination round ====================== *)

Section ElimLaw.
Variables p0 p : profile.
Variables prev st : estate.
Variable np : profile.
Variables s s' : mstate.
Variable x : cand.
Hypothesis Hwf : wf_stv0 p.
Hypothesis Hx : elim_round p0 p prev st np s s' x.

Let Hsf : score_free (ballots p) := wf_ballots_sf cand _ _ (proj2 Hwf).
Let Hpos : all_pos (ballots p) := wf_ballots_pos cand _ _ (proj2 Hwf).

Lemma xr_ballots : ballots np = remove_cand_bs [x] true false (ballots p).
Proof. rewrite (xr_np _ _ _ _ _ _ _ _ _ _ Hx). reflexivity. Qed.

Lemma xr_cands : cands np = set_diff (cands p) [x].
Proof. rewrite (xr_np _ _ _ _ _ _ _ _ _ _ Hx). reflexivity. Qed.

(* the ballots of the eliminated candidate move on at full weight *)
Theorem elim_round_weights : forall r', nonempty r' = true ->
  wtof_rk r' (ballots np) == EditSpec.wt_where cand (maps_to [x] r') (ballots p).
Proof.
  intros r' Hne. rewrite xr_ballots. apply (remove_weights cand ceqb ceqb_spec); assumption.
Qed.

Theorem elim_round_total :
  total_wt (ballots p) - total_wt (ballots np) == EditSpec.wt_where cand (exhausted [x]) (ballots p).
Proof. rewrite xr_ballots. apply (remove_loss cand ceqb); assumption. Qed.

Theorem elim_round_monotone : total_wt (ballots np) <= total_wt (ballots p).
Proof.
  pose proof elim_round_total as H.
  assert (H0 : 0 <= EditSpec.wt_where cand (exhausted [x]) (ballots p)).
  { unfold EditSpec.wt_where. apply Lib_sets.qsum_nonneg. apply Forall_forall. intros y Hy.
    apply in_map_iff in Hy. destruct Hy as (b & <- & Hb). apply filter_In in Hb.
    unfold EditSpec.all_pos in Hpos. rewrite Forall_forall in Hpos. apply Qlt_le_weak.
    apply (Hpos b (proj1 Hb)). }
  lra.
Qed.

End ElimLaw.

End WithCand.
