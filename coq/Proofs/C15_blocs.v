(* Proofs/C15_blocs.v — C15, the slate-Bradley-Terry ballot-type table (slate_bt_pdf =
   slate_BradleyTerry._compute_ballot_type_dist) for ANY number of blocs and for one bloc.

   The raw weight of a type t is c^s * (1-c)^(total - s), s = (own above opp) pairs, total = product
   of ALL bloc sizes (truncated subtraction).  With own, opp of sizes a, b and every other bloc of
   size >= 1:  total - s = (opp above own) pairs + (total - a*b), so for c < 1 the table is
   proportional to c^(own above opp) (1-c)^(opp above own): pairs with a third slate do not count.
   The generator itself refuses more than two slates (__init__ raises), so for three or more blocs
   these are statements about the table function only. *)
From VK Require Import Base Core GenValidation PrefInterval Generators Laws.
From VK.Spec Require Import BTSpec GenLaws.
From VK.Proofs Require Import Lib_rk Lib_sets C12_expand C15_interval C15_bt C15_slate Dist.
From Coq Require Import Permutation Lia Lqa Setoid Morphisms.

(* ------------------------------------------------------------------ *)
(** * powers *)

Lemma Qpow'_add : forall q m n, Qpow' q (m + n) == Qpow' q m * Qpow' q n.
Proof.
  intros q m n. induction m as [|m IH]; cbn [Nat.add Qpow'].
  - ring.
  - rewrite IH. ring.
Qed.

Lemma Qpow'_comp : forall q q' n, q == q' -> Qpow' q n == Qpow' q' n.
Proof.
  intros q q' n H. induction n as [|n IH]; cbn [Qpow']; [reflexivity|]. rewrite IH, H. reflexivity.
Qed.

Lemma Qpow'_zero_S : forall n, Qpow' 0 (S n) == 0.
Proof. intros n. cbn [Qpow']. ring. Qed.

Lemma Qpow'_one : forall n, Qpow' 1 n == 1.
Proof. intros n. induction n as [|n IH]; cbn [Qpow']; [reflexivity|]. rewrite IH. ring. Qed.

Lemma Qpow'_neq0 : forall q n, ~ q == 0 -> ~ Qpow' q n == 0.
Proof.
  intros q n Hq. induction n as [|n IH]; cbn [Qpow'].
  - discriminate.
  - intros E. apply Qmult_integral in E. destruct E as [E|E]; [apply Hq; exact E|apply IH; exact E].
Qed.

(* ------------------------------------------------------------------ *)
(** * the sample of a size list *)

Lemma to_sample_cons : forall z n sizes, to_sample ((z, n) :: sizes) = repeat z n ++ to_sample sizes.
Proof. reflexivity. Qed.

Lemma count_to_sample_notin : forall sizes z,
  ~ In z (map fst sizes) -> count_bloc z (to_sample sizes) = O.
Proof.
  induction sizes as [|[x n] sizes IH]; intros z H; [reflexivity|].
  cbn [map fst In] in H. rewrite to_sample_cons, count_bloc_app.
  rewrite (count_bloc_repeat_other z x n) by (intros E; apply H; left; symmetry; exact E).
  rewrite IH; [reflexivity|]. intros Hc. apply H. right. exact Hc.
Qed.

Lemma count_to_sample_in : forall sizes z n,
  NoDup (map fst sizes) -> In (z, n) sizes -> count_bloc z (to_sample sizes) = n.
Proof.
  induction sizes as [|[x k] sizes IH]; intros z n Hnd Hin; [destruct Hin|].
  cbn [map fst] in Hnd. inversion Hnd as [|y l Hnotin Hnd']; subst.
  rewrite to_sample_cons, count_bloc_app. destruct Hin as [E|Hin].
  - injection E as -> ->. rewrite count_bloc_repeat_same, (count_to_sample_notin sizes z Hnotin). lia.
  - assert (Hne : z <> x).
    { intros ->. apply Hnotin. apply in_map_iff. exists (x, n). split; [reflexivity|exact Hin]. }
    rewrite (count_bloc_repeat_other z x k Hne), (IH z n Hnd' Hin). reflexivity.
Qed.

(* A1: every (own, opp) pair of positions is ordered one way or the other *)
Theorem pairs_total_any : forall sizes own opp a b t,
  NoDup (map fst sizes) -> own <> opp -> In (own, a) sizes -> In (opp, b) sizes ->
  Permutation t (to_sample sizes) ->
  (above_pairs own opp t + above_pairs opp own t = a * b)%nat.
Proof.
  intros sizes own opp a b t Hnd Hne Ha Hb Ht.
  rewrite <- !successes_above_pairs, (successes_sum own opp t Hne).
  rewrite (count_bloc_perm own t _ Ht), (count_bloc_perm opp t _ Ht).
  rewrite (count_to_sample_in sizes own a Hnd Ha), (count_to_sample_in sizes opp b Hnd Hb). reflexivity.
Qed.

(* ------------------------------------------------------------------ *)
(** * the product of all sizes *)

Lemma total_cmp_cons : forall z n sizes, total_cmp ((z, n) :: sizes) = (n * total_cmp sizes)%nat.
Proof. reflexivity. Qed.

Lemma total_cmp_perm : forall s s', Permutation s s' -> total_cmp s = total_cmp s'.
Proof.
  intros s s' P. induction P as [|[x n] l l' _ IH|[x n] [y k] l|l l' l'' _ IH1 _ IH2].
  - reflexivity.
  - rewrite !total_cmp_cons, IH. reflexivity.
  - rewrite !total_cmp_cons. apply Nat.mul_shuffle3.
  - rewrite IH1. exact IH2.
Qed.

Lemma total_cmp_ge1 : forall l, (forall z n, In (z, n) l -> (1 <= n)%nat) -> (1 <= total_cmp l)%nat.
Proof.
  induction l as [|[x k] l IH]; intros H; [apply le_n|].
  rewrite total_cmp_cons.
  assert (Hk : (1 <= k)%nat) by (apply (H x k); left; reflexivity).
  assert (Hl : (1 <= total_cmp l)%nat) by (apply IH; intros z n Hz; apply (H z n); right; exact Hz).
  change 1%nat with (1 * 1)%nat. apply Nat.mul_le_mono; assumption.
Qed.

Lemma sizes_normal_form : forall (sizes : list (bloc * nat)) (own opp : bloc) (a b : nat),
  NoDup (map fst sizes) -> own <> opp -> In (own, a) sizes -> In (opp, b) sizes ->
  exists rest, Permutation sizes ((own, a) :: (opp, b) :: rest) /\
               ~ In own (map fst rest) /\ ~ In opp (map fst rest).
Proof.
  intros sizes own opp a b Hnd Hne Ha Hb.
  destruct (in_split _ _ Ha) as (l1 & l2 & E1).
  assert (P1 : Permutation sizes ((own, a) :: l1 ++ l2)).
  { rewrite E1. apply Permutation_sym. apply Permutation_middle. }
  pose proof (Permutation_in _ P1 Hb) as Hb'. destruct Hb' as [E|Hb'].
  { injection E as E _. contradiction. }
  destruct (in_split _ _ Hb') as (k1 & k2 & E2).
  assert (P2 : Permutation sizes ((own, a) :: (opp, b) :: k1 ++ k2)).
  { eapply Permutation_trans; [exact P1|]. apply perm_skip. rewrite E2.
    apply Permutation_sym. apply Permutation_middle. }
  exists (k1 ++ k2). split; [exact P2|].
  pose proof (Permutation_NoDup (Permutation_map fst P2) Hnd) as Hnd2. cbn [map fst] in Hnd2.
  inversion Hnd2 as [|x l Hown Hnd3]; subst. inversion Hnd3 as [|x l Hopp _]; subst. split.
  - intros Hc. apply Hown. right. exact Hc.
  - exact Hopp.
Qed.

Lemma total_cmp_lower : forall (sizes : list (bloc * nat)) (own opp : bloc) (a b : nat),
  NoDup (map fst sizes) -> own <> opp -> In (own, a) sizes -> In (opp, b) sizes ->
  (forall z n, In (z, n) sizes -> z <> own -> z <> opp -> (1 <= n)%nat) ->
  (a * b <= total_cmp sizes)%nat.
Proof.
  intros sizes own opp a b Hnd Hne Ha Hb Hoth.
  destruct (sizes_normal_form sizes own opp a b Hnd Hne Ha Hb) as (rest & P & Hown & Hopp).
  rewrite (total_cmp_perm _ _ P), !total_cmp_cons.
  assert (Hr : (1 <= total_cmp rest)%nat).
  { apply total_cmp_ge1. intros z n Hz. apply (Hoth z n).
    - apply (Permutation_in _ (Permutation_sym P)). right. right. exact Hz.
    - intros ->. apply Hown. apply in_map_iff. exists (own, n). split; [reflexivity|exact Hz].
    - intros ->. apply Hopp. apply in_map_iff. exists (opp, n). split; [reflexivity|exact Hz]. }
  rewrite Nat.mul_assoc. rewrite <- (Nat.mul_1_r (a * b)) at 1.
  apply Nat.mul_le_mono; [apply le_n|exact Hr].
Qed.

(* A2: the exponent of (1 - cohesion) *)
Theorem slate_bt_exponent : forall sizes own opp a b t,
  NoDup (map fst sizes) -> own <> opp -> In (own, a) sizes -> In (opp, b) sizes ->
  (forall z n, In (z, n) sizes -> z <> own -> z <> opp -> (1 <= n)%nat) ->
  Permutation t (to_sample sizes) ->
  (total_cmp sizes - successes own opp t = above_pairs opp own t + (total_cmp sizes - a * b))%nat.
Proof.
  intros sizes own opp a b t Hnd Hne Ha Hb Hoth Ht.
  pose proof (pairs_total_any sizes own opp a b t Hnd Hne Ha Hb Ht) as Hp.
  pose proof (total_cmp_lower sizes own opp a b Hnd Hne Ha Hb Hoth) as Hl.
  rewrite <- successes_above_pairs in Hp. set (P := (a * b)%nat) in *. lia.
Qed.

(* ------------------------------------------------------------------ *)
(** * the normalising constant *)

Lemma rw_nonneg_any : forall sizes own opp c t, 0 <= c -> c <= 1 -> 0 <= rw sizes own opp c t.
Proof.
  intros sizes own opp c t H0 H1. unfold rw. apply Qmult_le_0_compat; apply Qpow'_nonneg; lra.
Qed.

Lemma filter_split_perm : forall (A : Type) (f : A -> bool) (l : list A),
  Permutation (filter (fun x => negb (f x)) l ++ filter f l) l.
Proof.
  intros A f l. induction l as [|a l IH]; [constructor|].
  cbn [filter]. destruct (f a); cbn [negb app].
  - apply Permutation_sym. apply Permutation_cons_app. apply Permutation_sym. exact IH.
  - apply perm_skip. exact IH.
Qed.

Lemma successes_app_noown : forall own opp l1 l2,
  (forall x, In x l1 -> x <> own) -> successes own opp (l1 ++ l2) = successes own opp l2.
Proof.
  intros own opp l1 l2. induction l1 as [|x l1 IH]; intros H; [reflexivity|].
  cbn [app]. rewrite successes_cons.
  assert (E : Pos.eqb own x = false).
  { apply Pos.eqb_neq. intros ->. apply (H x); [left|]; reflexivity. }
  rewrite E, IH; [reflexivity|]. intros y Hy. apply H. right. exact Hy.
Qed.

Lemma count_bloc_all_other : forall z l, (forall x, In x l -> x <> z) -> count_bloc z l = O.
Proof.
  intros z l. induction l as [|y l IH]; intros H; [reflexivity|].
  rewrite count_bloc_cons.
  assert (E : Pos.eqb z y = false).
  { apply Pos.eqb_neq. intros ->. apply (H y); [left|]; reflexivity. }
  rewrite E, IH; [reflexivity|]. intros x Hx. apply H. right. exact Hx.
Qed.

Lemma successes_all_own : forall own opp l,
  own <> opp -> (forall x, In x l -> x = own) -> successes own opp l = O.
Proof.
  intros own opp l Hne. induction l as [|x l IH]; intros H; [reflexivity|].
  rewrite successes_cons, IH by (intros y Hy; apply H; right; exact Hy).
  rewrite (count_bloc_all_other opp l).
  - destruct (Pos.eqb own x); reflexivity.
  - intros y Hy E. apply Hne. rewrite <- E. symmetry. apply H. right. exact Hy.
Qed.

(* the arrangement "every other slate first, own last" has no (own above opp) pair *)
Lemma zero_success_arrangement : forall own opp l, own <> opp ->
  exists t, Permutation t l /\ successes own opp t = O.
Proof.
  intros own opp l Hne.
  exists (filter (fun x => negb (Pos.eqb x own)) l ++ filter (fun x => Pos.eqb x own) l). split.
  - apply (filter_split_perm _ (fun x => Pos.eqb x own) l).
  - rewrite successes_app_noown.
    + apply successes_all_own; [exact Hne|]. intros x Hx. apply filter_In in Hx.
      destruct Hx as [_ Hx]. apply Pos.eqb_eq in Hx. exact Hx.
    + intros x Hx. apply filter_In in Hx. destruct Hx as [_ Hx]. intros ->.
      rewrite Pos.eqb_refl in Hx. discriminate.
Qed.

Lemma Z_pos_any : forall sizes own opp c,
  own <> opp \/ 0 < c -> 0 <= c -> c < 1 ->
  0 < qsum (map (rw sizes own opp c) (arrangements_ms (to_sample sizes))).
Proof.
  intros sizes own opp c Hcase H0 H1.
  assert (Hnn : forall t, In t (arrangements_ms (to_sample sizes)) -> 0 <= rw sizes own opp c t).
  { intros t _. apply rw_nonneg_any; lra. }
  destruct Hcase as [Hne|Hc].
  - destruct (zero_success_arrangement own opp (to_sample sizes) Hne) as (t0 & Pt0 & Hs0).
    apply (qsum_map_pos _ _ t0 Hnn); [apply arrangements_spec; exact Pt0|].
    unfold rw. rewrite Hs0. cbn [Qpow']. rewrite Qmult_1_l. apply Qpow'_pos. lra.
  - apply (qsum_map_pos _ _ (to_sample sizes) Hnn); [apply arrangements_spec; apply Permutation_refl|].
    unfold rw. apply Qmult_lt_0_compat; apply Qpow'_pos; lra.
Qed.

(* A4: the table sums to one for every cohesion in [0, 1), any size list *)
Theorem slate_sum_any_blocs : forall sizes own opp c,
  own <> opp \/ 0 < c -> 0 <= c -> c < 1 ->
  qsum (map snd (slate_bt_pdf sizes own opp c)) == 1 /\
  NoDup (map fst (slate_bt_pdf sizes own opp c)) /\
  (forall t v, In (t, v) (slate_bt_pdf sizes own opp c) -> 0 <= v).
Proof.
  intros sizes own opp c Hcase H0 H1. pose proof (Z_pos_any sizes own opp c Hcase H0 H1) as HZ.
  split; [|split].
  - apply slate_sum_general. intros E. rewrite E in HZ. apply (Qlt_irrefl 0). exact HZ.
  - rewrite slate_keys. apply arrangements_NoDup.
  - intros t v Hin. destruct (slate_entry_general sizes own opp c t v Hin) as [_ Hv]. rewrite Hv.
    unfold Qdiv. apply Qmult_le_0_compat; [apply rw_nonneg_any; lra|].
    apply Qlt_le_weak. apply Qinv_lt_0_compat. exact HZ.
Qed.

(* own = opp at cohesion 0: every arrangement of two own candidates has one (own, own) pair, every
   raw weight is 0 and the table is 0/0 = 0 everywhere (not reachable: the generator passes two
   different blocs) *)
Theorem slate_sum_same_bloc_refuted :
  exists (sizes : list (bloc * nat)) (own : bloc),
    qsum (map snd (slate_bt_pdf sizes own own 0)) == 0.
Proof. exists [(1%positive, 2%nat)], 1%positive. vm_compute. reflexivity. Qed.

(* ------------------------------------------------------------------ *)
(** * A3: any number of blocs, cohesion in [0, 1) *)

Section AnyBlocs.
Variable sizes : list (bloc * nat).
Variables own opp : bloc.
Variables a b : nat.
Hypothesis Hnd : NoDup (map fst sizes).
Hypothesis Hne : own <> opp.
Hypothesis Ha : In (own, a) sizes.
Hypothesis Hb : In (opp, b) sizes.
Hypothesis Hoth : forall z n, In (z, n) sizes -> z <> own -> z <> opp -> (1 <= n)%nat.

Lemma rw_as_weight : forall c t, Permutation t (to_sample sizes) ->
  rw sizes own opp c t == Qpow' (1 - c) (total_cmp sizes - a * b) * slate_weight c own opp t.
Proof.
  intros c t Ht. unfold rw, slate_weight.
  rewrite (slate_bt_exponent sizes own opp a b t Hnd Hne Ha Hb Hoth Ht), Qpow'_add.
  rewrite successes_above_pairs. ring.
Qed.

Lemma Z_as_weight : forall c all, enumerates all (to_sample sizes) ->
  qsum (map (rw sizes own opp c) (arrangements_ms (to_sample sizes))) ==
  Qpow' (1 - c) (total_cmp sizes - a * b) * qsum (map (slate_weight c own opp) all).
Proof.
  intros c all Hall.
  rewrite (qsum_map_ext_in _ (fun t => Qpow' (1 - c) (total_cmp sizes - a * b) * slate_weight c own opp t)).
  - rewrite qsum_map_scal. apply Qmult_comp; [reflexivity|].
    apply qsum_perm. apply Permutation_map.
    apply (enumerates_perm _ _ _ (to_sample sizes)); [apply arrangements_enumerates|exact Hall].
  - intros t Ht. apply rw_as_weight. apply arrangements_spec. exact Ht.
Qed.

Theorem slate_bt_any_blocs : forall c all,
  0 <= c -> c < 1 -> enumerates all (to_sample sizes) ->
  0 < qsum (map (slate_weight c own opp) all) /\
  (forall t, Permutation t (to_sample sizes) -> exists v, In (t, v) (slate_bt_pdf sizes own opp c)) /\
  (forall t v, In (t, v) (slate_bt_pdf sizes own opp c) ->
     Permutation t (to_sample sizes) /\
     (above_pairs own opp t + above_pairs opp own t = a * b)%nat /\
     v == slate_weight c own opp t / qsum (map (slate_weight c own opp) all)).
Proof.
  intros c all H0 H1 Hall.
  set (kap := Qpow' (1 - c) (total_cmp sizes - a * b)).
  assert (Hk : 0 < kap) by (apply Qpow'_pos; lra).
  pose proof (Z_pos_any sizes own opp c (or_introl Hne) H0 H1) as HZ.
  pose proof (Z_as_weight c all Hall) as HZw. fold kap in HZw.
  set (S := qsum (map (slate_weight c own opp) all)) in *.
  assert (HS : 0 < S).
  { rewrite HZw in HZ. destruct (Qlt_le_dec 0 S) as [Hp|Hq]; [exact Hp|]. exfalso.
    assert (kap * S <= 0).
    { rewrite <- (Qmult_0_r kap). apply Qmult_le_l; assumption. }
    lra. }
  split; [exact HS|]. split.
  - intros t Ht. apply arrangements_spec in Ht. rewrite <- (slate_keys sizes own opp c) in Ht.
    apply in_map_iff in Ht. destruct Ht as ([t' v] & E & Hin). cbn [fst] in E. subst t'.
    exists v. exact Hin.
  - intros t v Hin. destruct (slate_entry_general sizes own opp c t v Hin) as [Ht Hv].
    split; [exact Ht|]. split; [apply (pairs_total_any sizes own opp a b t Hnd Hne Ha Hb Ht)|].
    rewrite Hv, (rw_as_weight c t Ht), HZw. fold kap. field. split; lra.
Qed.

End AnyBlocs.

(* ------------------------------------------------------------------ *)
(** * cohesion 1 *)

Lemma rw_c1 : forall sizes own opp c t, c == 1 ->
  rw sizes own opp c t == if Nat.leb (total_cmp sizes) (successes own opp t) then 1 else 0.
Proof.
  intros sizes own opp c t Hc. unfold rw.
  rewrite (Qpow'_comp c 1 _ Hc), Qpow'_one.
  assert (E0 : 1 - c == 0) by (rewrite Hc; reflexivity).
  rewrite (Qpow'_comp (1 - c) 0 _ E0).
  destruct (Nat.leb_spec (total_cmp sizes) (successes own opp t)) as [Hle|Hlt].
  - replace (total_cmp sizes - successes own opp t)%nat with O by lia. reflexivity.
  - destruct (total_cmp sizes - successes own opp t)%nat as [|k] eqn:E; [lia|].
    rewrite Qpow'_zero_S. ring.
Qed.

Lemma slate_sum_zero : forall sizes own opp c,
  qsum (map (rw sizes own opp c) (arrangements_ms (to_sample sizes))) == 0 ->
  qsum (map snd (slate_bt_pdf sizes own opp c)) == 0.
Proof.
  intros sizes own opp c HZ. apply qsum_map_zero. intros [t v] Hin. cbn [snd].
  destruct (slate_entry_general sizes own opp c t v Hin) as [_ Hv]. rewrite Hv, HZ.
  unfold Qdiv. change (/ 0) with 0. ring.
Qed.

Theorem slate_sum_c1 : forall sizes own opp c, c == 1 ->
  (qsum (map snd (slate_bt_pdf sizes own opp c)) == 1 <->
   exists t, Permutation t (to_sample sizes) /\ (total_cmp sizes <= successes own opp t)%nat) /\
  ((forall t, Permutation t (to_sample sizes) -> (successes own opp t < total_cmp sizes)%nat) ->
   qsum (map snd (slate_bt_pdf sizes own opp c)) == 0).
Proof.
  intros sizes own opp c Hc.
  set (Z := qsum (map (rw sizes own opp c) (arrangements_ms (to_sample sizes)))).
  assert (Hnn : forall t, In t (arrangements_ms (to_sample sizes)) -> 0 <= rw sizes own opp c t).
  { intros t _. apply rw_nonneg_any; rewrite Hc; discriminate. }
  split; [split|].
  - intros Hsum. destruct (Qeq_dec Z 0) as [HZ|HZ].
    + rewrite (slate_sum_zero sizes own opp c HZ) in Hsum. discriminate Hsum.
    + assert (HZp : 0 < Z).
      { pose proof (qsum_map_nonneg _ _ Hnn) as Hge. fold Z in Hge.
        destruct (Qlt_le_dec 0 Z) as [Hp|Hq]; [exact Hp|]. exfalso. apply HZ.
        apply Qle_antisym; assumption. }
      apply qsum_map_pos_inv in HZp. destruct HZp as (t & Ht & Hw).
      exists t. split; [apply arrangements_spec; exact Ht|].
      rewrite (rw_c1 sizes own opp c t Hc) in Hw.
      destruct (Nat.leb_spec (total_cmp sizes) (successes own opp t)) as [Hle|Hlt]; [exact Hle|].
      exfalso. apply (Qlt_irrefl 0). exact Hw.
  - intros (t & Ht & Hle). apply slate_sum_general. fold Z.
    assert (HZp : 0 < Z).
    { apply (qsum_map_pos _ _ t Hnn); [apply arrangements_spec; exact Ht|].
      rewrite (rw_c1 sizes own opp c t Hc). apply Nat.leb_le in Hle. rewrite Hle. reflexivity. }
    intros E. rewrite E in HZp. apply (Qlt_irrefl 0). exact HZp.
  - intros Hall. apply slate_sum_zero. apply qsum_map_zero. intros t Ht.
    rewrite (rw_c1 sizes own opp c t Hc). apply arrangements_spec in Ht. specialize (Hall t Ht).
    apply Nat.leb_gt in Hall. rewrite Hall. reflexivity.
Qed.

(* three blocs of sizes 1, 1, 2 at cohesion 1: total = 2 exceeds every success count (at most 1),
   every raw weight is 0 and the table is 0/0 = 0 everywhere *)
Theorem slate_sum_c1_three_refuted :
  exists (sizes : list (bloc * nat)) (own opp : bloc),
    NoDup (map fst sizes) /\ own <> opp /\ In own (map fst sizes) /\ In opp (map fst sizes) /\
    length sizes = 3%nat /\ (forall z n, In (z, n) sizes -> (1 <= n)%nat) /\
    qsum (map snd (slate_bt_pdf sizes own opp 1)) == 0.
Proof.
  exists [(1%positive, 1%nat); (2%positive, 1%nat); (3%positive, 2%nat)], 1%positive, 2%positive.
  split; [repeat constructor; cbn; intuition discriminate|].
  split; [discriminate|]. split; [left; reflexivity|]. split; [right; left; reflexivity|].
  split; [reflexivity|]. split.
  - intros z n [E|[E|[E|[]]]]; injection E as _ <-; repeat constructor.
  - vm_compute. reflexivity.
Qed.

(* A5: for three blocs the table is NOT proportional to c^(own above any other) (1-c)^(any other
   above own), the weight of the MCMC sampler ([slate_stat]): the types [1;2;3] and [3;1;2] have
   the same table entry but different [slate_stat] *)
Theorem slate_three_blocs_not_all_others_refuted :
  exists (sizes : list (bloc * nat)) (own opp : bloc) (c : Q) (t1 t2 : list bloc) (v1 v2 : Q),
    NoDup (map fst sizes) /\ own <> opp /\ 0 < c /\ c < 1 /\
    In (t1, v1) (slate_bt_pdf sizes own opp c) /\ In (t2, v2) (slate_bt_pdf sizes own opp c) /\
    ~ v1 * slate_stat own c t2 == v2 * slate_stat own c t1.
Proof.
  exists [(1%positive, 1%nat); (2%positive, 1%nat); (3%positive, 1%nat)], 1%positive, 2%positive, (3 # 4).
  exists [1%positive; 2%positive; 3%positive], [3%positive; 1%positive; 2%positive].
  eexists. eexists.
  split; [repeat constructor; cbn; intuition discriminate|].
  split; [discriminate|]. split; [reflexivity|]. split; [reflexivity|].
  split; [vm_compute; left; reflexivity|].
  split; [vm_compute; do 4 right; left; reflexivity|].
  intros H. vm_compute in H. discriminate H.
Qed.

(* ------------------------------------------------------------------ *)
(** * A6: one bloc *)

Theorem arrangements_repeat : forall (x : bloc) n, arrangements_ms (repeat x n) = [repeat x n].
Proof.
  intros x n. pose proof (arrangements_NoDup (repeat x n)) as Hnd.
  pose proof (arrangements_spec (repeat x n)) as Hsp.
  destruct (arrangements_ms (repeat x n)) as [|y [|z L]].
  - exfalso. apply (proj2 (Hsp (repeat x n)) (Permutation_refl _)).
  - assert (Hy : y = repeat x n).
    { apply Permutation_repeat. apply Hsp. left. reflexivity. }
    rewrite Hy. reflexivity.
  - exfalso.
    assert (Hy : y = repeat x n) by (apply Permutation_repeat; apply Hsp; left; reflexivity).
    assert (Hz : z = repeat x n) by (apply Permutation_repeat; apply Hsp; right; left; reflexivity).
    inversion Hnd as [|y' l Hnotin _]; subst. apply Hnotin. left. reflexivity.
Qed.

Theorem slate_one_bloc : forall own opp a c, own <> opp ->
  exists v, slate_bt_pdf [(own, a)] own opp c = [(repeat own a, v)] /\
            (~ c == 1 \/ a = O -> v == 1) /\
            (c == 1 -> (0 < a)%nat -> v == 0).
Proof.
  intros own opp a c Hne.
  rewrite slate_bt_pdf_unfold. unfold rawtab.
  change (to_sample [(own, a)]) with (repeat own a ++ []).
  rewrite app_nil_r, arrangements_repeat. cbn [map fst snd].
  eexists. split; [reflexivity|].
  set (R := rw [(own, a)] own opp c (repeat own a)).
  assert (HR : R == Qpow' (1 - c) a).
  { unfold R, rw. pose proof (successes_opp_first own opp a 0 Hne) as Hs. cbn [repeat app] in Hs.
    rewrite Hs. change (total_cmp [(own, a)]) with (a * 1)%nat.
    rewrite Nat.mul_1_r, Nat.sub_0_r. cbn [Qpow']. ring. }
  rewrite qsum_cons, qsum_nil, !Qred_correct. split.
  - intros Hcase.
    assert (HR0 : ~ R == 0).
    { rewrite HR. destruct Hcase as [Hc| ->].
      - apply Qpow'_neq0. intros E. apply Hc. lra.
      - cbn [Qpow']. discriminate. }
    field. intros E. apply HR0. lra.
  - intros Hc Hpos.
    assert (HR0 : R == 0).
    { rewrite HR. destruct a as [|a']; [lia|].
      assert (E0 : 1 - c == 0) by (rewrite Hc; reflexivity).
      rewrite (Qpow'_comp (1 - c) 0 _ E0). apply Qpow'_zero_S. }
    rewrite HR0. reflexivity.
Qed.
