(* Proofs/C17_adequacy_tie.v — C17 (with the hypotheses of C05 / the STV round context): the
   uniform-permutation law of the random tiebreak ([uperm], Model/Laws.v; algebra in
   Proofs/C17_laws.v) pushed forward through the MODEL's functions that consume the drawn order:
   [tiebreak_set], [elect_top_m], the one-shot rules ([run_rule], outcome = get_elected()), and one
   STV round ([stv_step]: elimination tie, one-by-one election tie). *)
From VK Require Import Base Core STV Pairwise Rules PV Election Laws.
From VK.Spec Require Import ScoreSpec EditSpec RatingSpec TopMSpec STVSpec Anon TieSpec RunSpec
  OneShotSpec LawSpec TieLawSpec.
From VK.Proofs Require Import Lib_sets Lib_rk C04_scoring C12_expand Elect C20_validation C01_rules
  C03_transfer C10_tiebreak STV_lib STV_tb STV_step STV_round C05_tiebreaks Dist C17_laws.
From Coq Require Import Permutation Lia Lqa Setoid Morphisms.

(* ------------------------------------------------------------------ *)
(** * push-forward *)

Lemma prob_push : forall {A B} (ev : B -> bool) (law : dist A) (f : A -> B),
  prob ev (push law f) == prob (fun a => ev (f a)) law.
Proof. intros A B ev law f. unfold push. apply prob_dbind_dret. Qed.

Lemma mass_push : forall {A B} (law : dist A) (f : A -> B), mass (push law f) == mass law.
Proof.
  intros A B law f. unfold push. apply mass_dbind_one. intros a w _. apply mass_dret.
Qed.

(* two outcome functions that agree on the support have the same law of events *)
Lemma prob_push_ext : forall {A B} (ev : B -> bool) (law : dist A) (f f' : A -> B),
  (forall a w, In (a, w) law -> f a = f' a) -> prob ev (push law f) == prob ev (push law f').
Proof.
  intros A B ev law f f' H. rewrite !prob_push. apply prob_ext_in.
  intros a w Ha. rewrite (H a w Ha). reflexivity.
Qed.

Section Tie.
Variable cand : Type.
Variable ceqb : cand -> cand -> bool.
Hypothesis ceqb_spec : forall a b, reflect (a = b) (ceqb a b).

Notation cset := (cset cand).
Notation ranking := (ranking cand).
Notation profile := (profile cand).
Notation scores := (scores cand).
Notation estate := (estate cand).
Notation mstate := (mstate cand).
Notation flat := (flat cand).
Notation singletons := (singletons cand).
Notation memb := (memb cand ceqb).
Notation uperm := (uperm cand).
Notation among_first := (among_first cand ceqb).
Notation is_last := (is_last cand ceqb).
Notation is_head := (is_head cand ceqb).
Notation listed := (listed cand ceqb).
Notation next_order := (next_order cand).
Notation tiebreak_first := (tiebreak_first cand).
Notation top_m_elected := (top_m_elected cand).
Notation run_winners := (run_winners cand).
Notation round_elected := (round_elected cand).
Notation round_eliminated := (round_eliminated cand).
Notation score_to_ranking := (score_to_ranking cand).
Notation first_place_votes := (first_place_votes cand ceqb).
Notation tiebreak_set := (tiebreak_set cand ceqb).
Notation elect_top_m := (elect_top_m cand ceqb).
Notation score_fn := (score_fn cand ceqb).
Notation run_one_shot := (run_one_shot cand ceqb).
Notation run_rule := (run_rule cand ceqb).
Notation one_shot_params := (one_shot_params cand).
Notation one_shot_valid := (one_shot_valid cand).
Notation big := (big cand).
Notation rebuild := (rebuild cand).
Notation no_group := (no_group cand).
Notation tally := (tally cand ceqb).
Notation step_ctx := (step_ctx cand ceqb).
Notation stv_step := (stv_step cand ceqb).
Notation wf_stv0 := (wf_stv0 cand).

Local Lemma memb_In' : forall c s, memb c s = true <-> In c s.
Proof. exact (Lib_rk.memb_In cand ceqb ceqb_spec). Qed.

Local Lemma memb_false' : forall c s, ~ In c s -> memb c s = false.
Proof.
  intros c s H. destruct (memb c s) eqn:E; [|reflexivity]. exfalso. apply H. apply memb_In'. exact E.
Qed.

Local Lemma support_perm : forall g l w, NoDup g -> In (l, w) (uperm g) -> Permutation l g /\ NoDup l.
Proof.
  intros g l w Hnd H. pose proof (uperm_support cand g l w H) as Hp. split; [exact Hp|].
  eapply Permutation_NoDup; [apply Permutation_sym; exact Hp|exact Hnd].
Qed.

(* ------------------------------------------------------------------ *)
(** * the core: an outcome that is "a fixed set, then the first j of the drawn order" *)

Lemma boundary_law_core : forall (g : cset) (j : nat) (fixed : list cand) (F : list cand -> list cand),
  NoDup g -> (j <= length g)%nat ->
  (forall l, Permutation l g -> NoDup l -> F l = fixed ++ firstn j l) ->
  (forall c, In c g -> ~ In c fixed ->
     prob (listed c) (push (uperm g) F) == Qnat j / Qnat (length g)) /\
  (forall c, In c fixed -> prob (listed c) (push (uperm g) F) == 1) /\
  (forall c, ~ In c fixed -> ~ In c g -> prob (listed c) (push (uperm g) F) == 0).
Proof.
  intros g j fixed F Hnd Hj HF. split; [|split].
  - intros c Hc Hnf. rewrite prob_push, <- (uperm_seat cand ceqb ceqb_spec g c j Hnd Hc Hj).
    apply prob_ext_in. intros l w Hl. destruct (support_perm g l w Hnd Hl) as [Hp Hndl].
    rewrite (HF l Hp Hndl). unfold TieLawSpec.listed, LawSpec.among_first.
    apply eq_true_iff_eq. rewrite !memb_In'. rewrite in_app_iff. tauto.
  - intros c Hc. rewrite prob_push, <- (uperm_mass cand g), <- prob_true.
    apply prob_ext_in. intros l w Hl. destruct (support_perm g l w Hnd Hl) as [Hp Hndl].
    rewrite (HF l Hp Hndl). unfold TieLawSpec.listed. apply memb_In'. apply in_or_app. left. exact Hc.
  - intros c Hnf Hng. rewrite prob_push, <- (prob_false (uperm g)).
    apply prob_ext_in. intros l w Hl. destruct (support_perm g l w Hnd Hl) as [Hp Hndl].
    rewrite (HF l Hp Hndl). unfold TieLawSpec.listed. apply memb_false'. intros Hin.
    apply in_app_or in Hin. destruct Hin as [Hin|Hin]; [exact (Hnf Hin)|].
    apply Hng. eapply Permutation_in; [exact Hp|]. rewrite <- (firstn_skipn j l).
    apply in_or_app. left. exact Hin.
Qed.

(* ------------------------------------------------------------------ *)
(** * [tiebreak_set] with tiebreak = random *)

Lemma tiebreak_first_run : forall (g : cset) po j rest lg0 l, Permutation l g -> NoDup l ->
  tiebreak_first j (tiebreak_set g po TBRandom (next_order l rest lg0)) = firstn j l.
Proof.
  intros g po j rest lg0 l Hp Hndl. unfold TieLawSpec.next_order.
  rewrite (tiebreak_random_run cand ceqb ceqb_spec g po l rest lg0 Hp Hndl).
  cbn [TieLawSpec.tiebreak_first]. rewrite (firstn_singletons cand). apply (flat_singletons cand).
Qed.

Theorem tiebreak_set_seat_law : forall (g : cset) po j rest lg0 c,
  NoDup g -> (j <= length g)%nat ->
  prob (listed c)
       (push (uperm g) (fun l => tiebreak_first j (tiebreak_set g po TBRandom (next_order l rest lg0))))
  == if memb c g then Qnat j / Qnat (length g) else 0.
Proof.
  intros g po j rest lg0 c Hnd Hj.
  destruct (boundary_law_core g j [] _ Hnd Hj
              (fun l Hp Hndl => tiebreak_first_run g po j rest lg0 l Hp Hndl)) as [H1 [_ H3]].
  destruct (memb c g) eqn:E.
  - apply H1; [apply memb_In'; exact E|intros []].
  - apply H3; [intros []|]. intros Hin. apply memb_In' in Hin. congruence.
Qed.

(* ------------------------------------------------------------------ *)
(** * [elect_top_m] (elect_cands_from_set_ranking) with a group straddling the last seat *)

Lemma top_m_elected_run : forall (pre : ranking) (g : cset) post m po rest lg0 l,
  (Z.of_nat (length (flat pre)) < m < Z.of_nat (length (flat pre) + length g))%Z ->
  Permutation l g -> NoDup l ->
  elect_top_m (pre ++ g :: post) m po (Some TBRandom) (next_order l rest lg0) =
  inl ((pre ++ singletons (firstn (Z.to_nat m - length (flat pre)) l),
        singletons (skipn (Z.to_nat m - length (flat pre)) l) ++ post,
        Some (g, singletons l)), mkM rest (CSample g :: lg0)).
Proof.
  intros pre g post m po rest lg0 l Hm Hp Hndl. unfold TieLawSpec.next_order.
  rewrite (elect_top_m_straddle_some cand ceqb pre g post m po TBRandom _ (proj1 Hm) (proj2 Hm)).
  rewrite (tiebreak_random_run cand ceqb ceqb_spec g po l rest lg0 Hp Hndl). cbv zeta.
  rewrite (firstn_singletons cand), (skipn_singletons cand). reflexivity.
Qed.

Theorem elect_top_m_boundary_law : forall (pre : ranking) (g : cset) post m po rest lg0,
  NoDup (flat (pre ++ g :: post)) ->
  (Z.of_nat (length (flat pre)) < m < Z.of_nat (length (flat pre) + length g))%Z ->
  let j := (Z.to_nat m - length (flat pre))%nat in
  let outcome := fun l =>
    top_m_elected (elect_top_m (pre ++ g :: post) m po (Some TBRandom) (next_order l rest lg0)) in
  (0 < j < length g)%nat /\
  (forall l, Permutation l g -> NoDup l -> outcome l = flat pre ++ firstn j l) /\
  (forall c, In c g -> prob (listed c) (push (uperm g) outcome) == Qnat j / Qnat (length g)) /\
  (forall c, In c (flat pre) -> prob (listed c) (push (uperm g) outcome) == 1) /\
  (forall c, In c (flat post) -> prob (listed c) (push (uperm g) outcome) == 0).
Proof.
  intros pre g post m po rest lg0 Hnd Hm j outcome.
  assert (Hj : (0 < j < length g)%nat) by (unfold j; lia).
  rewrite (flat_app cand), (flat_cons cand) in Hnd.
  destruct (Lib_sets.NoDup_app_inv _ _ Hnd) as (Hndpre & Hnd2 & Hdis1).
  destruct (Lib_sets.NoDup_app_inv _ _ Hnd2) as (Hndg & Hndpost & Hdis2).
  assert (HF : forall l, Permutation l g -> NoDup l -> outcome l = flat pre ++ firstn j l).
  { intros l Hp Hndl. unfold outcome.
    rewrite (top_m_elected_run pre g post m po rest lg0 l Hm Hp Hndl).
    cbn [TieLawSpec.top_m_elected]. rewrite (flat_app cand), (flat_singletons cand). reflexivity. }
  destruct (boundary_law_core g j (flat pre) outcome Hndg ltac:(lia) HF) as [H1 [H2 H3]].
  split; [exact Hj|]. split; [exact HF|]. split; [|split].
  - intros c Hc. apply H1; [exact Hc|]. intros Hin. apply (Hdis1 c Hin). apply in_or_app. left. exact Hc.
  - exact H2.
  - intros c Hc. apply H3.
    + intros Hin. apply (Hdis1 c Hin). apply in_or_app. right. exact Hc.
    + intros Hin. exact (Hdis2 c Hin Hc).
Qed.

(* ------------------------------------------------------------------ *)
(** * the one-shot rules: the law of get_elected() *)

Lemma flat_real_groups : forall r : ranking, flat (real_groups cand r) = flat r.
Proof. intros [|[|a g] [|h r]]; reflexivity. Qed.

Lemma run_winners_two : forall (a b : estate) (s : mstate),
  run_winners (inl ([a; b], s)) = flat (elected a) ++ flat (elected b).
Proof.
  intros a b s. unfold TieLawSpec.run_winners.
  change (get_elected cand [a; b] (-1))
    with (@inl (Core.ranking cand) exn (real_groups cand (elected a) ++ real_groups cand (elected b) ++ [])).
  rewrite app_nil_r, (flat_app cand), !flat_real_groups. reflexivity.
Qed.

Theorem oneshot_boundary_tie_law : forall r (p : profile) k m d pre g post rest lg0,
  one_shot_params r p = Some (k, m, Some TBRandom) -> one_shot_valid r p -> score_fn k p = inl d ->
  score_to_ranking d true = pre ++ g :: post ->
  (Z.of_nat (length (flat pre)) < m < Z.of_nat (length (flat pre) + length g))%Z ->
  let j := (Z.to_nat m - length (flat pre))%nat in
  let winners := fun l => run_winners (run_rule r p (next_order l rest lg0)) in
  NoDup g /\ (0 < j < length g)%nat /\
  (forall l, Permutation l g -> NoDup l ->
     (exists sts, run_rule r p (next_order l rest lg0) = inl (sts, mkM rest (CSample g :: lg0))) /\
     winners l = flat pre ++ firstn j l) /\
  (forall c, In c g -> prob (listed c) (push (uperm g) winners) == Qnat j / Qnat (length g)) /\
  (forall c, In c (flat pre) -> prob (listed c) (push (uperm g) winners) == 1) /\
  (forall c, In c (flat post) -> prob (listed c) (push (uperm g) winners) == 0) /\
  mass (push (uperm g) winners) == 1.
Proof.
  intros r p k m d pre g post rest lg0 Hp Hv Hd Hr Hm j winners.
  destruct (one_shot_valid_run cand ceqb r p k m (Some TBRandom) Hp Hv) as [Hdom Hrun].
  assert (Hnd : NoDup (flat (pre ++ g :: post))).
  { rewrite <- Hr. eapply Permutation_NoDup;
      [apply Permutation_sym; apply (score_to_ranking_flat_perm_all cand d)|].
    rewrite (C20_validation.score_fn_keys cand ceqb k p d Hd).
    apply (shot_dom_nodup cand k p Hdom). }
  assert (Hj : (0 < j < length g)%nat) by (unfold j; lia).
  assert (Hndg : NoDup g).
  { rewrite (flat_app cand), (flat_cons cand) in Hnd.
    destruct (Lib_sets.NoDup_app_inv _ _ Hnd) as (_ & Hnd2 & _). apply (Lib_sets.NoDup_app_inv _ _ Hnd2). }
  assert (HF : forall l, Permutation l g -> NoDup l ->
     (exists sts, run_rule r p (next_order l rest lg0) = inl (sts, mkM rest (CSample g :: lg0))) /\
     winners l = flat pre ++ firstn j l).
  { intros l Hpl Hndl. unfold winners.
    pose proof (top_m_elected_run pre g post m (Some p) rest lg0 l Hm Hpl Hndl) as Hel.
    rewrite <- Hr in Hel. fold j in Hel.
    destruct (one_shot_elect_ok cand ceqb ceqb_spec k m (Some TBRandom) p _ d _ _ _ _ Hdom Hd Hel)
      as (np & d1 & _ & _ & Hx).
    rewrite Hrun, Hx. split; [eexists; reflexivity|].
    rewrite run_winners_two. cbn [elected state_of_scores].
    rewrite (flat_app cand), (flat_singletons cand). reflexivity. }
  split; [exact Hndg|]. split; [exact Hj|]. split; [exact HF|].
  destruct (elect_top_m_boundary_law pre g post m (Some p) rest lg0 Hnd Hm) as (_ & HF' & H1 & H2 & H3).
  fold j in HF', H1, H2, H3.
  assert (Hext : forall ev, prob ev (push (uperm g) winners) ==
     prob ev (push (uperm g) (fun l => top_m_elected
        (elect_top_m (pre ++ g :: post) m (Some p) (Some TBRandom) (next_order l rest lg0))))).
  { intros ev. apply prob_push_ext. intros l w Hl. destruct (support_perm g l w Hndg Hl) as [Hpl Hndl].
    rewrite (proj2 (HF l Hpl Hndl)), (HF' l Hpl Hndl). reflexivity. }
  split; [intros c Hc; rewrite Hext; apply H1; exact Hc|].
  split; [intros c Hc; rewrite Hext; apply H2; exact Hc|].
  split; [intros c Hc; rewrite Hext; apply H3; exact Hc|].
  rewrite mass_push. apply (uperm_mass cand).
Qed.

(* ------------------------------------------------------------------ *)
(** * one STV round: a tie for elimination *)

Lemma rebuild_app_last : forall (pre2 : ranking) (ls1 : list (list cand)) (g : cset) (l : list cand),
  Forall2 (fun l sg => Permutation l sg /\ NoDup l) ls1 (filter big pre2) -> big g = true ->
  rebuild (pre2 ++ [g]) (ls1 ++ [l]) = rebuild pre2 ls1 ++ singletons l.
Proof.
  induction pre2 as [|h pre2 IH]; intros ls1 g l HF Hb.
  - cbn [filter] in HF. inversion HF; subst. cbn [app TieSpec.rebuild]. rewrite Hb.
    cbn [TieSpec.rebuild]. apply app_nil_r.
  - cbn [filter] in HF. cbn [app TieSpec.rebuild]. destruct (big h) eqn:Eh.
    + inversion HF as [|l1 sg ls1' sgs _ HF']; subst. cbn [app].
      rewrite (IH ls1' g l HF' Hb). apply app_assoc.
    + rewrite (IH ls1 g l HF Hb). reflexivity.
Qed.

Lemma is_last_snoc : forall c (l' : list cand) x, is_last c (l' ++ [x]) = ceqb c x.
Proof.
  intros c l' x. unfold LawSpec.is_last, LawSpec.at_pos. rewrite app_length. cbn [length].
  replace (length l' + 1 - 1)%nat with (length l') by lia.
  rewrite nth_error_app2 by lia. rewrite Nat.sub_diag. reflexivity.
Qed.

Lemma big_iff : forall g : cset, big g = true <-> (2 <= length g)%nat.
Proof. intros g. unfold TieSpec.big. rewrite Nat.ltb_lt. lia. Qed.

Lemma singletons_inj : forall a b : list cand, singletons a = singletons b -> a = b.
Proof.
  induction a as [|x a IH]; intros [|y b] H; try discriminate; [reflexivity|].
  unfold Core.singletons in H. cbn [map] in H. injection H as Hx Hm. subst y. f_equal.
  apply IH. exact Hm.
Qed.

Section Round.
Variable cfg : stv_cfg.
Variable t : Q.
Variables p0 p : profile.
Variable prev : estate.
Variable n : Z.
Hypothesis Hctx : step_ctx p0 p prev.

(* the lowest group of the previous ranking: duplicate-free candidates of p *)
Lemma low_group : forall pre low, remaining prev = pre ++ [low] -> NoDup low /\ incl low (cands p).
Proof.
  intros pre low Hrem. split.
  - pose proof (ctx_flat_nd cand ceqb p0 p prev Hctx) as Hnd. rewrite Hrem, (flat_app cand) in Hnd.
    destruct (Lib_sets.NoDup_app_inv _ _ Hnd) as (_ & Hnd2 & _).
    rewrite (flat_cons cand) in Hnd2. apply (Lib_sets.NoDup_app_inv _ _ Hnd2).
  - intros c Hc. apply (ctx_group_in cand ceqb p0 p prev Hctx low c); [|exact Hc].
    rewrite Hrem. apply in_or_app. right. left. reflexivity.
Qed.

(* the groups of the lowest group re-ranked by the first-place votes of the initial profile *)
Lemma low_regroup : forall pre low d0, remaining prev = pre ++ [low] -> low <> [] ->
  first_place_votes p0 = inl d0 ->
  let r2 := score_to_ranking (filter (fun q => memb (fst q) low) d0) true in
  Permutation (flat r2) low /\ NoDup (flat r2) /\ NoDup (map fst d0) /\ incl low (map fst d0).
Proof.
  intros pre low d0 Hrem Hne Hd0 r2. destruct (low_group pre low Hrem) as [Hnd Hin].
  assert (Hk : NoDup (map fst d0)).
  { rewrite (fpv_keys cand ceqb p0 d0 Hd0). apply (ctx_p0 cand ceqb p0 p prev Hctx). }
  assert (Hi : incl low (map fst d0)).
  { rewrite (fpv_keys cand ceqb p0 d0 Hd0). intros c Hc.
    apply (ctx_sub cand ceqb p0 p prev Hctx). apply Hin. exact Hc. }
  destruct (c10_scored_groups_proof cand ceqb ceqb_spec low d0 Hk Hnd Hne Hi) as [Hperm _].
  cbv zeta in Hperm. fold r2 in Hperm. split; [exact Hperm|]. split; [|split; assumption].
  eapply Permutation_NoDup; [apply Permutation_sym; exact Hperm|exact Hnd].
Qed.

(* the round run forward on a script that answers the draws of the elimination tiebreak *)
Lemma stv_elim_run : forall pre low d0 pre2 g ls1 l rest lg0,
  (forall c, In c (cands p) -> tally c (ballots p) < t) ->
  Z.of_nat (length (cands p)) <> (s_m cfg - n)%Z ->
  remaining prev = pre ++ [low] -> (2 <= length low)%nat ->
  first_place_votes p0 = inl d0 ->
  score_to_ranking (filter (fun q => memb (fst q) low) d0) true = pre2 ++ [g] ->
  (2 <= length g)%nat ->
  Forall2 (fun l sg => Permutation l sg /\ NoDup l) ls1 (filter big pre2) ->
  Permutation l g -> NoDup l ->
  exists x l' np d',
    l = l' ++ [x] /\
    stv_step cfg t p0 n p prev (mkM (map DPerm ls1 ++ DPerm l :: rest) lg0) =
    inl ((np, state_of_scores cand (rnd prev + 1) no_group [[x]]
                 [(low, rebuild pre2 ls1 ++ singletons l)] d'),
         mkM rest (CSample g :: rev (map CSample (filter big pre2)) ++ lg0)).
Proof.
  intros pre low d0 pre2 g ls1 l rest lg0 Hnone Hn Hrem Hlen Hd0 Hr2 Hg HF Hpl Hndl.
  set (s := mkM (map DPerm ls1 ++ DPerm l :: rest) lg0).
  assert (Ea : above cand t (escores prev) = []).
  { apply (above_nil_iff cand ceqb ceqb_spec p0 p prev Hctx t). exact Hnone. }
  assert (En : Z.eqb (Z.of_nat (length (cands p))) (s_m cfg - n) = false) by (apply Z.eqb_neq; exact Hn).
  rewrite (stv_step_elim cand ceqb cfg t p0 n p prev s Ea En), Hrem, rev_app_distr. cbn [rev app].
  assert (Hpe : pick_elim cand ceqb p0 low s =
     match tiebreak_set low (Some p0) TBFirstPlace s with
     | inl (tb, s1) => match rev tb with
                       | (c :: _) :: _ => inl ((c, [(low, tb)]), s1)
                       | _ => inr EIndex
                       end
     | inr e => inr e
     end).
  { destruct low as [|a [|b low']]; [cbn in Hlen; lia|cbn in Hlen; lia|].
    cbn [STV_step.pick_elim]. unfold mbind.
    destruct (tiebreak_set (a :: b :: low') (Some p0) TBFirstPlace s) as [[tb s1]|e]; [|reflexivity].
    destruct (rev tb) as [|[|c gc] rt]; reflexivity. }
  rewrite Hpe. clear Hpe.
  assert (Hbg : big g = true) by (apply big_iff; exact Hg).
  pose proof (tiebreak_scored_run cand ceqb ceqb_spec low p0 TBFirstPlace d0 (ls1 ++ [l]) rest lg0
                (or_introl eq_refl) Hd0) as Hrun.
  cbv zeta in Hrun. rewrite Hr2 in Hrun.
  assert (HF' : Forall2 (fun l sg => Permutation l sg /\ NoDup l) (ls1 ++ [l]) (filter big (pre2 ++ [g]))).
  { rewrite filter_app. cbn [filter]. rewrite Hbg. apply Forall2_app; [exact HF|].
    constructor; [split; assumption|constructor]. }
  specialize (Hrun HF').
  rewrite map_app, <- app_assoc in Hrun. cbn [map app] in Hrun. fold s in Hrun. rewrite Hrun.
  rewrite (rebuild_app_last pre2 ls1 g l HF Hbg), rev_app_distr, (rev_singletons cand).
  destruct (rev l) as [|x rl] eqn:Erev.
  { exfalso. assert (l = []) by (rewrite <- (rev_involutive l), Erev; reflexivity). subst l.
    apply Permutation_nil in Hpl. subst g. cbn in Hg. lia. }
  cbn [Core.singletons map app].
  destruct (remove_cand_prof_ok cand ceqb ceqb_spec p0 p prev Hctx x) as [Hrm Hwfn]. rewrite Hrm.
  destruct (fpv_state cand ceqb ceqb_spec _ Hwfn) as [d' Hd']. rewrite Hd'.
  exists x, (rev rl). eexists. exists d'. split.
  - rewrite <- (rev_involutive l), Erev. reflexivity.
  - rewrite filter_app. cbn [filter]. rewrite Hbg, map_app, rev_app_distr. reflexivity.
Qed.

Theorem stv_elimination_tie_law : forall pre low d0 pre2 g ls1 rest lg0,
  (forall c, In c (cands p) -> tally c (ballots p) < t) ->
  Z.of_nat (length (cands p)) <> (s_m cfg - n)%Z ->
  remaining prev = pre ++ [low] -> (2 <= length low)%nat ->
  first_place_votes p0 = inl d0 ->
  score_to_ranking (filter (fun q => memb (fst q) low) d0) true = pre2 ++ [g] ->
  (2 <= length g)%nat ->
  Forall2 (fun l sg => Permutation l sg /\ NoDup l) ls1 (filter big pre2) ->
  let run := fun l => stv_step cfg t p0 n p prev (mkM (map DPerm ls1 ++ DPerm l :: rest) lg0) in
  NoDup g /\ incl g low /\
  (forall l, Permutation l g -> NoDup l ->
     exists x l' np st,
       l = l' ++ [x] /\
       run l = inl ((np, st), mkM rest (CSample g :: rev (map CSample (filter big pre2)) ++ lg0)) /\
       eliminated st = [[x]] /\ elected st = no_group /\
       tiebreaks st = [(low, rebuild pre2 ls1 ++ singletons l)]) /\
  (forall c, In c g ->
     prob (listed c) (push (uperm g) (fun l => round_eliminated (run l))) == 1 / Qnat (length g)) /\
  (forall c, ~ In c g ->
     prob (listed c) (push (uperm g) (fun l => round_eliminated (run l))) == 0) /\
  mass (push (uperm g) (fun l => round_eliminated (run l))) == 1.
Proof.
  intros pre low d0 pre2 g ls1 rest lg0 Hnone Hn Hrem Hlen Hd0 Hr2 Hg HF run.
  assert (Hlne : low <> []) by (intros E; rewrite E in Hlen; cbn in Hlen; lia).
  destruct (low_regroup pre low d0 Hrem Hlne Hd0) as (Hperm & Hnd2 & _ & _). cbv zeta in Hperm, Hnd2.
  rewrite Hr2, (flat_app cand), (flat_cons cand) in Hperm, Hnd2.
  assert (Hndg : NoDup g).
  { destruct (Lib_sets.NoDup_app_inv _ _ Hnd2) as (_ & H2 & _). apply (Lib_sets.NoDup_app_inv _ _ H2). }
  assert (Hgl : incl g low).
  { intros c Hc. eapply Permutation_in; [exact Hperm|]. apply in_or_app. right.
    apply in_or_app. left. exact Hc. }
  assert (Hrun : forall l, Permutation l g -> NoDup l ->
     exists x l' np st,
       l = l' ++ [x] /\
       run l = inl ((np, st), mkM rest (CSample g :: rev (map CSample (filter big pre2)) ++ lg0)) /\
       eliminated st = [[x]] /\ elected st = no_group /\
       tiebreaks st = [(low, rebuild pre2 ls1 ++ singletons l)]).
  { intros l Hpl Hndl.
    destruct (stv_elim_run pre low d0 pre2 g ls1 l rest lg0 Hnone Hn Hrem Hlen Hd0 Hr2 Hg HF Hpl Hndl)
      as (x & l' & np & d' & El & Hx).
    exists x, l', np. eexists. split; [exact El|]. split; [exact Hx|]. repeat split. }
  assert (Hev : forall c l w, In (l, w) (uperm g) ->
            listed c (round_eliminated (run l)) = is_last c l).
  { intros c l w Hl. destruct (support_perm g l w Hndg Hl) as [Hpl Hndl].
    destruct (Hrun l Hpl Hndl) as (x & l' & np & st & El & Hx & Hel & _).
    rewrite Hx. cbn [TieLawSpec.round_eliminated]. rewrite Hel, El, is_last_snoc.
    unfold TieLawSpec.listed. cbn. apply orb_false_r. }
  split; [exact Hndg|]. split; [exact Hgl|]. split; [exact Hrun|]. split; [|split].
  - intros c Hc. rewrite prob_push, <- (uperm_last cand ceqb ceqb_spec g c Hndg Hc).
    apply prob_ext_in. intros l w Hl. apply (Hev c l w Hl).
  - intros c Hc. rewrite prob_push, <- (prob_false (uperm g)).
    apply prob_ext_in. intros l w Hl. rewrite (Hev c l w Hl).
    destruct (support_perm g l w Hndg Hl) as [Hpl _].
    unfold LawSpec.is_last, LawSpec.at_pos.
    destruct (nth_error l (length l - 1)) as [x|] eqn:Ex; [|reflexivity].
    destruct (ceqb_spec c x) as [->|_]; [|reflexivity].
    exfalso. apply Hc. eapply Permutation_in; [exact Hpl|]. eapply nth_error_In. exact Ex.
  - rewrite mass_push. apply (uperm_mass cand).
Qed.

(* the candidates of the lowest group all have the same first-place tally in the initial profile
   (always so in the first round): the first_place tiebreak is one uniform draw on the whole group *)
Lemma low_all_tied : forall pre low d0 k0, remaining prev = pre ++ [low] -> (2 <= length low)%nat ->
  first_place_votes p0 = inl d0 -> tied_at cand d0 low k0 ->
  exists g, score_to_ranking (filter (fun q => memb (fst q) low) d0) true = [g] /\ Permutation g low.
Proof.
  intros pre low d0 k0 Hrem Hlen Hd0 Htied.
  assert (Hlne : low <> []) by (intros E; rewrite E in Hlen; cbn in Hlen; lia).
  destruct (low_group pre low Hrem) as [Hnd Hin].
  destruct (low_regroup pre low d0 Hrem Hlne Hd0) as (_ & _ & Hk & Hi).
  destruct (c10_scored_groups_proof cand ceqb ceqb_spec low d0 Hk Hnd Hlne Hi) as [Hperm [Hne [_ Hord]]].
  cbv zeta in Hperm, Hne, Hord.
  set (r2 := score_to_ranking (filter (fun q => memb (fst q) low) d0) true) in *.
  assert (Hinl : forall g0 c, In g0 r2 -> In c g0 -> In c low).
  { intros g0 c Hg0 Hc. eapply Permutation_in; [exact Hperm|]. unfold Core.flat.
    apply in_concat. exists g0. split; assumption. }
  destruct r2 as [|g1 [|g2 r']] eqn:Er.
  - exfalso. apply Hlne. apply Permutation_nil. exact Hperm.
  - exists g1. split; [reflexivity|]. unfold Core.flat in Hperm. cbn [concat] in Hperm.
    rewrite app_nil_r in Hperm. exact Hperm.
  - exfalso.
    assert (H1 : g1 <> []) by (apply Hne; left; reflexivity).
    assert (H2 : g2 <> []) by (apply Hne; right; left; reflexivity).
    destruct g1 as [|c1 g1']; [contradiction H1; reflexivity|].
    destruct g2 as [|c2 g2']; [contradiction H2; reflexivity|].
    assert (Hc1 : In c1 low) by (apply (Hinl (c1 :: g1')); [left; reflexivity|left; reflexivity]).
    assert (Hc2 : In c2 low) by (apply (Hinl (c2 :: g2')); [right; left; reflexivity|left; reflexivity]).
    destruct (Htied c1 Hc1) as [q1 [Hq1 Hk1]]. destruct (Htied c2 Hc2) as [q2 [Hq2 Hk2]].
    pose proof (Hord [] (c1 :: g1') [] (c2 :: g2') r' c1 c2 q1 q2 eq_refl
                  (or_introl eq_refl) (or_introl eq_refl) Hq1 Hq2) as Hlt.
    lra.
Qed.

Theorem stv_elimination_tie_law_tied : forall pre low d0 k0 rest lg0,
  (forall c, In c (cands p) -> tally c (ballots p) < t) ->
  Z.of_nat (length (cands p)) <> (s_m cfg - n)%Z ->
  remaining prev = pre ++ [low] -> (2 <= length low)%nat ->
  first_place_votes p0 = inl d0 -> tied_at cand d0 low k0 ->
  exists g, Permutation g low /\ NoDup g /\
    let run := fun l => stv_step cfg t p0 n p prev (next_order l rest lg0) in
    (forall l, Permutation l g -> NoDup l ->
       exists x l' np st,
         l = l' ++ [x] /\ run l = inl ((np, st), mkM rest (CSample g :: lg0)) /\
         eliminated st = [[x]] /\ tiebreaks st = [(low, singletons l)]) /\
    (forall c, In c low ->
       prob (listed c) (push (uperm g) (fun l => round_eliminated (run l))) == 1 / Qnat (length low)).
Proof.
  intros pre low d0 k0 rest lg0 Hnone Hn Hrem Hlen Hd0 Htied.
  destruct (low_all_tied pre low d0 k0 Hrem Hlen Hd0 Htied) as (g & Hr2 & Hperm).
  assert (Hg : (2 <= length g)%nat) by (rewrite (Permutation_length Hperm); exact Hlen).
  destruct (stv_elimination_tie_law pre low d0 [] g [] rest lg0 Hnone Hn Hrem Hlen Hd0 Hr2 Hg
              (Forall2_nil _)) as (Hndg & _ & Hrun & Hp1 & _).
  exists g. split; [exact Hperm|]. split; [exact Hndg|]. cbv zeta. split.
  - intros l Hpl Hndl. destruct (Hrun l Hpl Hndl) as (x & l' & np & st & El & Hx & Hel & _ & Htb).
    exists x, l', np, st. repeat split; assumption.
  - intros c Hc. rewrite <- (Permutation_length Hperm). apply Hp1.
    eapply Permutation_in; [apply Permutation_sym; exact Hperm|exact Hc].
Qed.

(* ------------------------------------------------------------------ *)
(** * one STV round: a tie for the seat of a one-by-one election round, tiebreak = random *)

Theorem stv_election_tie_law : forall g post rest lg0,
  s_simul cfg = false -> s_tiebreak cfg = Some TBRandom -> s_transfer cfg <> TRandom ->
  remaining prev = g :: post -> (2 <= length g)%nat ->
  (exists c, In c (cands p) /\ t <= tally c (ballots p)) ->
  let run := fun l => stv_step cfg t p0 n p prev (next_order l rest lg0) in
  NoDup g /\
  (forall l np st s', Permutation l g -> NoDup l -> run l = inl ((np, st), s') ->
     exists w l', l = w :: l' /\ elected st = [[w]] /\ eliminated st = no_group /\
       tiebreaks st = [(g, singletons l)] /\ cands np = set_diff cand ceqb (cands p) [w]) /\
  (0 < t ->
     (forall l, Permutation l g -> NoDup l -> exists out, run l = inl out) /\
     (forall c, In c g ->
        prob (listed c) (push (uperm g) (fun l => round_elected (run l))) == 1 / Qnat (length g)) /\
     (forall c, ~ In c g ->
        prob (listed c) (push (uperm g) (fun l => round_elected (run l))) == 0)).
Proof.
  intros g post rest lg0 Hsim Htb Htr Hrem Hlen Hsome run.
  assert (Hndg : NoDup g).
  { pose proof (ctx_flat_nd cand ceqb p0 p prev Hctx) as Hnd. rewrite Hrem, (flat_cons cand) in Hnd.
    apply (Lib_sets.NoDup_app_inv _ _ Hnd). }
  assert (Hscr : forall s : mstate, s_transfer cfg = TRandom -> script_ok cand s)
    by (intros s E; contradiction).
  assert (Hno : ~ (forall c, In c (cands p) -> tally c (ballots p) < t)).
  { intros Hnone. destruct Hsome as (c & Hc & Hct). apply (Qlt_not_le _ _ (Hnone c Hc)). exact Hct. }
  assert (HA : forall l np st s', Permutation l g -> NoDup l -> run l = inl ((np, st), s') ->
     exists w l', l = w :: l' /\ elected st = [[w]] /\ eliminated st = no_group /\
       tiebreaks st = [(g, singletons l)] /\ cands np = set_diff cand ceqb (cands p) [w]).
  { intros l np st s' Hpl Hndl Hx. unfold run in Hx.
    destruct (stv_step_ok_inv cand ceqb ceqb_spec cfg t p0 p prev Hctx n _ s' np st (Hscr _) Hx)
      as [[_ (W & others & mvs & s1 & Hr)]|[(Hnone & _)|(Hnone & _)]];
      [|contradiction (Hno Hnone)|contradiction (Hno Hnone)].
    destruct Hr as [HrW _ _ _ _ _ HrElim HrChoice _ _ HrNp _ _ _].
    destruct HrChoice as [(Hs & _)|(_ & w & g0 & rest0 & Hrem0 & Hwg & Hel & Hcase)];
      [rewrite Hsim in Hs; discriminate|].
    rewrite Hrem in Hrem0. injection Hrem0 as <- <-.
    destruct Hcase as [(Eg & _)|(_ & kind & l' & Hk & Htbs & _ & Htie & _)].
    { rewrite Eg in Hlen. cbn in Hlen. lia. }
    rewrite Htb in Hk. injection Hk as <-. unfold TieLawSpec.next_order in Htie.
    rewrite (tiebreak_random_run cand ceqb ceqb_spec g (Some p) l rest lg0 Hpl Hndl) in Htie.
    injection Htie as Hl _. change ([w] :: singletons l') with (singletons (w :: l')) in Hl.
    apply singletons_inj in Hl.
    exists w, l'. split; [exact Hl|]. split; [exact Hel|]. split; [exact HrElim|].
    split; [rewrite Hl; exact Htbs|]. rewrite HrNp, <- HrW, Hel. reflexivity. }
  split; [exact Hndg|]. split; [exact HA|]. intros Ht.
  assert (HB : forall l, Permutation l g -> NoDup l -> exists out, run l = inl out).
  { intros l Hpl Hndl. destruct (run l) as [out|e] eqn:Hx; [exists out; reflexivity|]. exfalso.
    unfold run in Hx.
    destruct (stv_step_err_inv cand ceqb ceqb_spec cfg t p0 p prev Hctx n _ e (Hscr _) Hx)
      as [(_ & _ & g0 & rest0 & Hrem0 & _ & Hcase)|[(w & s1 & Hw & Hwt & _ & Hd)|[(Hnone & _)|(Hnone & _)]]];
      [| |contradiction (Hno Hnone)|contradiction (Hno Hnone)].
    - rewrite Hrem in Hrem0. injection Hrem0 as <- <-.
      destruct Hcase as [(E & _)|(kind & Hk & Htie)]; [rewrite Htb in E; discriminate|].
      rewrite Htb in Hk. injection Hk as <-. unfold TieLawSpec.next_order in Htie.
      rewrite (tiebreak_random_run cand ceqb ceqb_spec g (Some p) l rest lg0 Hpl Hndl) in Htie.
      discriminate.
    - destruct (s_transfer cfg) eqn:Ek; cbn [STV.do_transfer] in Hd.
      + unfold mlift in Hd.
        destruct (frac_transfer cand ceqb w (lookup0 cand ceqb w (escores prev)) (pile cand ceqb p w) t)
          as [a|e'] eqn:Ef; [discriminate|].
        destruct (frac_errors cand ceqb w (lookup0 cand ceqb w (escores prev)) (pile cand ceqb p w) t)
          as (Hz & Hty & Hkinds).
        destruct (ctx_score cand ceqb ceqb_spec p0 p prev Hctx w Hw) as [_ Hlk].
        destruct (Hkinds e' Ef) as [-> | ->].
        * apply Hz in Ef. rewrite Ef in Hlk. rewrite <- Hlk in Hwt. lra.
        * apply Hty in Ef. destruct Ef as (_ & b & Hb & Hrk).
          pose proof (pile_wf cand ceqb p w (ctx_wf cand ceqb p0 p prev Hctx)) as Hpw.
          rewrite Forall_forall in Hpw. destruct (Hpw b Hb) as (Hne & _). contradiction.
      + contradiction Htr. reflexivity.
      + discriminate. }
  assert (Hev : forall c l w, In (l, w) (uperm g) ->
            listed c (round_elected (run l)) = is_head c l).
  { intros c l w Hl. destruct (support_perm g l w Hndg Hl) as [Hpl Hndl].
    destruct (HB l Hpl Hndl) as ([[np st] s'] & Hx).
    destruct (HA l np st s' Hpl Hndl Hx) as (x & l' & El & Hel & _).
    rewrite Hx. cbn [TieLawSpec.round_elected]. rewrite Hel, El.
    unfold TieLawSpec.listed, LawSpec.is_head, LawSpec.at_pos. cbn. apply orb_false_r. }
  split; [exact HB|]. split.
  - intros c Hc. rewrite prob_push, <- (uperm_first cand ceqb ceqb_spec g c Hndg Hc).
    apply prob_ext_in. intros l w Hl. apply (Hev c l w Hl).
  - intros c Hc. rewrite prob_push, <- (prob_false (uperm g)).
    apply prob_ext_in. intros l w Hl. rewrite (Hev c l w Hl).
    destruct (support_perm g l w Hndg Hl) as [Hpl _].
    unfold LawSpec.is_head, LawSpec.at_pos.
    destruct (nth_error l 0) as [x|] eqn:Ex; [|reflexivity].
    destruct (ceqb_spec c x) as [->|_]; [|reflexivity].
    exfalso. apply Hc. eapply Permutation_in; [exact Hpl|]. eapply nth_error_In. exact Ex.
Qed.

End Round.

End Tie.
