(* Proofs/C13_extra.v — C13, error runs: TopTwo and Alaska raise exactly the error of the first
   component that fails (argument check, ranking check, round 0, the Plurality stage, the second
   Plurality / the STV, the get_profile() replay), and only then.  Properties/C13.v characterises
   the successful runs ([= inl ...]) only. *)
From VK Require Import Base Core STV Pairwise Rules PV Election.
From VK.Proofs Require Import C20_validation C05_rating C13_composite.
From Coq Require Import Permutation Lia.

Section Extra.
Variable cand : Type.
Variable ceqb : cand -> cand -> bool.

Notation profile := (profile cand).
Notation estate := (estate cand).
Notation mstate := (mstate cand).
Notation flat := (flat cand).
Notation ranking_validate := (ranking_validate cand).
Notation stv_init := (stv_init cand).
Notation stv_replay := (stv_replay cand ceqb).
Notation run_stv := (run_stv cand ceqb).
Notation run_plurality := (run_plurality cand ceqb).
Notation run_toptwo := (run_toptwo cand ceqb).
Notation run_alaska := (run_alaska cand ceqb).
Notation run_one_shot := (run_one_shot cand ceqb).
Notation plurality_stage := (plurality_stage cand ceqb).
Notation one_shot_step := (one_shot_step cand ceqb).
Notation round0 := (round0 cand ceqb).
Notation first_place_votes := (first_place_votes cand ceqb).
Notation remove_cand_prof := (remove_cand_prof cand ceqb).

(* a Plurality election that returns has exactly two states *)
Lemma run_plurality_two : forall m tb (p : profile) s sts s',
  run_plurality m tb p s = inl (sts, s') -> exists q0 q1, sts = [q0; q1].
Proof.
  intros m tb p s sts s' H. rewrite (run_plurality_prologue cand ceqb) in H.
  destruct (ranking_validate p) as [u|e]; [|discriminate].
  destruct (run_one_shot_inv cand ceqb _ _ _ _ _ _ _ H) as [d [el [rem [t [np [d1 [_ [_ [_ [_ Hs]]]]]]]]]].
  eexists. eexists. exact Hs.
Qed.

Lemma plurality_stage_error_proof : forall m tb (p : profile) prev s e,
  plurality_stage m tb p prev s = inr e <->
  run_plurality m tb p s = inr e \/
  exists q0 q1 sa,
    run_plurality m tb p s = inl ([q0; q1], sa) /\
    (remove_cand_prof (flat (remaining q1)) true false p = inr e \/
     exists p1, remove_cand_prof (flat (remaining q1)) true false p = inl p1 /\
                first_place_votes p1 = inr e).
Proof.
  intros m tb p prev s e. unfold Rules.plurality_stage.
  destruct (run_plurality m tb p s) as [[sts sa]|e0] eqn:E1.
  - destruct (run_plurality_two _ _ _ _ _ _ E1) as [q0 [q1 ->]].
    rewrite (mbind_ok _ _ _ _ _ E1). cbv zeta. rewrite mbind_mlift.
    destruct (remove_cand_prof (flat (remaining q1)) true false p) as [p1|e1] eqn:E2.
    + rewrite mbind_mlift.
      destruct (first_place_votes p1) as [d|e2] eqn:E3.
      * split; [intros H; discriminate H|].
        intros [H|[q0' [q1' [sa' [H [H2|[p1' [H2 H3]]]]]]]]; try discriminate H.
        -- inversion H; subst. congruence.
        -- inversion H; subst. congruence.
      * split.
        -- intros H. inversion H; subst. right. exists q0, q1, sa. split; [reflexivity|].
           right. exists p1. split; [exact E2|exact E3].
        -- intros [H|[q0' [q1' [sa' [H [H2|[p1' [H2 H3]]]]]]]]; try discriminate H.
           ++ inversion H; subst. congruence.
           ++ inversion H; subst. congruence.
    + split.
      * intros H. inversion H; subst. right. exists q0, q1, sa. split; [reflexivity|].
        left. exact E2.
      * intros [H|[q0' [q1' [sa' [H [H2|[p1' [H2 H3]]]]]]]]; try discriminate H.
        -- inversion H; subst. congruence.
        -- inversion H; subst. congruence.
  - rewrite (mbind_err _ _ _ _ E1). split.
    + intros H. left. congruence.
    + intros [H|[q0' [q1' [sa' [H _]]]]]; [congruence|discriminate H].
Qed.

Ltac break_hyps :=
  repeat match goal with
         | H : _ \/ _ |- _ => destruct H
         | H : _ /\ _ |- _ => destruct H
         | H : exists _, _ |- _ => destruct H
         end.

Theorem toptwo_error_proof : forall tb (p : profile) s e,
  run_toptwo tb p s = inr e <->
  ranking_validate p = inr e \/
  ranking_validate p = inl tt /\
  (round0 SKFpv p = inr e \/
   exists s0, round0 SKFpv p = inl s0 /\
   (plurality_stage 2 tb p s0 s = inr e \/
    exists p1 s1 sa, plurality_stage 2 tb p s0 s = inl ((p1, s1), sa) /\
    (run_plurality 1 tb p1 sa = inr e \/
     exists q0 q1 sb, run_plurality 1 tb p1 sa = inl ([q0; q1], sb) /\
                      one_shot_step SKFpv 1 tb p1 q0 sb = inr e))).
Proof.
  intros tb p s e. unfold Rules.run_toptwo. rewrite mbind_mlift.
  destruct (ranking_validate p) as [[]|e0] eqn:E1.
  2:{ split; [intros H; left; congruence|]. intros H. break_hyps; congruence. }
  rewrite mbind_mlift.
  destruct (round0 SKFpv p) as [s0|e0] eqn:E2.
  2:{ split; [intros H; right; split; [reflexivity|left; congruence]|].
      intros H. break_hyps; congruence. }
  destruct (plurality_stage 2 tb p s0 s) as [[[p1 s1] sa]|e0] eqn:E3.
  2:{ rewrite (mbind_err _ _ _ _ E3). split.
      - intros H. right. split; [reflexivity|]. right. exists s0. split; [reflexivity|].
        left. congruence.
      - intros H. break_hyps; congruence. }
  rewrite (mbind_ok _ _ _ _ _ E3). cbn beta iota.
  destruct (run_plurality 1 tb p1 sa) as [[qs sb]|e0] eqn:E4.
  2:{ rewrite (mbind_err _ _ _ _ E4). split.
      - intros H. right. split; [reflexivity|]. right. exists s0. split; [reflexivity|].
        right. exists p1, s1, sa. split; [exact E3|]. left. congruence.
      - intros H. break_hyps; congruence. }
  destruct (run_plurality_two _ _ _ _ _ _ E4) as [q0 [q1 ->]].
  rewrite (mbind_ok _ _ _ _ _ E4).
  destruct (one_shot_step SKFpv 1 tb p1 q0 sb) as [[x sc]|e0] eqn:E5.
  - rewrite (mbind_ok _ _ _ _ _ E5). split; [intros H; discriminate H|].
    intros H. break_hyps; congruence.
  - rewrite (mbind_err _ _ _ _ E5). split.
    + intros H. right. split; [reflexivity|]. right. exists s0. split; [reflexivity|].
      right. exists p1, s1, sa. split; [exact E3|]. right. exists q0, q1, sb.
      split; [exact E4|]. congruence.
    + intros H. break_hyps; congruence.
Qed.

Theorem alaska_error_proof : forall m1 m2 cfg (p : profile) s e,
  run_alaska m1 m2 cfg p s = inr e <->
  alaska_args m1 m2 = inr e \/
  alaska_args m1 m2 = inl tt /\
  (ranking_validate p = inr e \/
   ranking_validate p = inl tt /\
   (round0 SKFpv p = inr e \/
    exists s0, round0 SKFpv p = inl s0 /\
    (plurality_stage m1 (s_tiebreak cfg) p s0 s = inr e \/
     exists p1 s1 sa, plurality_stage m1 (s_tiebreak cfg) p s0 s = inl ((p1, s1), sa) /\
     (stv_init (with_m cfg m2) p1 = inr e \/
      exists t, stv_init (with_m cfg m2) p1 = inl t /\
      (run_stv (with_m cfg m2) p1 sa = inr e \/
       exists ssts sb, run_stv (with_m cfg m2) p1 sa = inl (ssts, sb) /\
         stv_replay (with_m cfg m2) t p1 [] p1 (removelast ssts) sb = inr e))))).
Proof.
  intros m1 m2 cfg p s e. unfold Rules.run_alaska. rewrite mbind_mlift.
  destruct (alaska_args m1 m2) as [[]|e0] eqn:E0.
  2:{ split; [intros H; left; congruence|]. intros H. break_hyps; congruence. }
  rewrite mbind_mlift.
  destruct (ranking_validate p) as [[]|e0] eqn:E1.
  2:{ split; [intros H; right; split; [reflexivity|left; congruence]|].
      intros H. break_hyps; congruence. }
  rewrite mbind_mlift.
  destruct (round0 SKFpv p) as [s0|e0] eqn:E2.
  2:{ split; [intros H; right; split; [reflexivity|right; split; [reflexivity|left; congruence]]|].
      intros H. break_hyps; congruence. }
  destruct (plurality_stage m1 (s_tiebreak cfg) p s0 s) as [[[p1 s1] sa]|e0] eqn:E3.
  2:{ rewrite (mbind_err _ _ _ _ E3). split.
      - intros H. right. split; [reflexivity|]. right. split; [reflexivity|].
        right. exists s0. split; [reflexivity|]. left. congruence.
      - intros H. break_hyps; congruence. }
  rewrite (mbind_ok _ _ _ _ _ E3). cbn beta iota zeta. rewrite mbind_mlift.
  destruct (stv_init (with_m cfg m2) p1) as [t|e0] eqn:E4.
  2:{ split.
      - intros H. right. split; [reflexivity|]. right. split; [reflexivity|].
        right. exists s0. split; [reflexivity|]. right. exists p1, s1, sa. split; [exact E3|].
        left. congruence.
      - intros H. break_hyps; congruence. }
  destruct (run_stv (with_m cfg m2) p1 sa) as [[ssts sb]|e0] eqn:E5.
  2:{ rewrite (mbind_err _ _ _ _ E5). split.
      - intros H. right. split; [reflexivity|]. right. split; [reflexivity|].
        right. exists s0. split; [reflexivity|]. right. exists p1, s1, sa. split; [exact E3|].
        right. exists t. split; [exact E4|]. left. congruence.
      - intros H. break_hyps; congruence. }
  rewrite (mbind_ok _ _ _ _ _ E5).
  destruct (stv_replay (with_m cfg m2) t p1 [] p1 (removelast ssts) sb) as [[pf sc]|e0] eqn:E6.
  - rewrite (mbind_ok _ _ _ _ _ E6). split; [intros H; discriminate H|].
    intros H. break_hyps; congruence.
  - rewrite (mbind_err _ _ _ _ E6). split.
    + intros H. right. split; [reflexivity|]. right. split; [reflexivity|].
      right. exists s0. split; [reflexivity|]. right. exists p1, s1, sa. split; [exact E3|].
      right. exists t. split; [exact E4|]. right. exists ssts, sb. split; [exact E5|]. congruence.
    + intros H. break_hyps; congruence.
Qed.

End Extra.
