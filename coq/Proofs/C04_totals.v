(* Proofs/C04_totals.v — how many points positional scoring hands out (short / long vectors,
   per ballot, listed / unlisted split), dependence on the first n entries only, the special
   cases written as equations, and exactly what [mentions] is.  Proofs behind
   Properties/C04_totals.v; builds on Proofs/C04_scoring.v. *)
From VK Require Import Base Core.
From VK.Proofs Require Import Lib_sets C04_scoring.
From VK.Spec Require Import ScoreSpec.
From Coq Require Import Permutation Lia Lqa Setoid Morphisms.

(* ------------------------------------------------------------------ *)
(** * vectors: entries, spans, prefixes *)

Lemma entry_nil : forall j, entry [] j = 0.
Proof. intros [|j]; reflexivity. Qed.

(* the k entries from offset i on are the first k entries after skipping i (missing entries = 0) *)
Lemma entries_span : forall i k v,
  qsum (map (entry v) (seq i k)) == qsum (firstn k (skipn i v)).
Proof.
  induction i as [|i IH]; intros k v.
  - cbn [skipn]. revert v. induction k as [|k IHk]; intros v.
    + reflexivity.
    + destruct v as [|x v].
      * cbn [firstn]. rewrite qsum_nil. apply qsum_map_zero. intros j _. rewrite entry_nil. reflexivity.
      * cbn [seq map firstn]. rewrite <- seq_shift, map_map, !qsum_cons.
        rewrite (map_ext (fun j => entry (x :: v) (S j)) (entry v)) by (intros j; reflexivity).
        rewrite IHk. reflexivity.
  - rewrite <- seq_shift, map_map. destruct v as [|x v].
    + rewrite skipn_nil, firstn_nil, qsum_nil. apply qsum_map_zero. intros j _. reflexivity.
    + cbn [skipn]. rewrite (map_ext (fun j => entry (x :: v) (S j)) (entry v)) by (intros j; reflexivity).
      apply IH.
Qed.

Lemma entries_firstn : forall n v, qsum (map (entry v) (seq 0 n)) == qsum (firstn n v).
Proof. intros n v. rewrite (entries_span 0 n v). reflexivity. Qed.

(* a non-empty group shares exactly the entries it spans *)
Lemma span_mean_total : forall v i k, (0 < k)%nat ->
  Qnat k * span_mean v i k == qsum (map (entry v) (seq i k)).
Proof.
  intros v i k Hk. unfold span_mean. field. apply Qnat_neq0. exact Hk.
Qed.

Lemma span_mean_ext : forall v1 v2 i k,
  (forall j, (i <= j < i + k)%nat -> entry v1 j == entry v2 j) ->
  span_mean v1 i k == span_mean v2 i k.
Proof.
  intros v1 v2 i k H. unfold span_mean.
  rewrite (qsum_map_ext_in (entry v1) (entry v2)); [reflexivity|].
  intros j Hj. apply in_seq in Hj. apply H. exact Hj.
Qed.

Lemma qsum_nonneg_zero : forall l, Forall (fun x => 0 <= x) l ->
  (qsum l == 0 <-> Forall (fun x => x == 0) l).
Proof.
  intros l H. induction H as [|x l Hx Hl IH].
  - split; [constructor|reflexivity].
  - rewrite qsum_cons. pose proof (qsum_nonneg l Hl) as Hs. split.
    + intros Heq. constructor; [lra|]. apply IH. lra.
    + intros Hall. inversion Hall as [|y l' Hx0 Hl0]; subst. apply IH in Hl0. lra.
Qed.

Lemma entry_ones_lt : forall k j, (j < k)%nat -> entry (repeat 1 k) j = 1.
Proof.
  unfold entry. induction k as [|k IH]; intros j Hj; [lia|].
  destruct j as [|j]; [reflexivity|]. cbn [repeat nth]. apply IH. lia.
Qed.

Lemma entry_ones_ge : forall k j, (k <= j)%nat -> entry (repeat 1 k) j = 0.
Proof.
  intros k j Hj. unfold entry. apply nth_overflow. rewrite repeat_length. exact Hj.
Qed.

Lemma span_mean_ones : forall k i m, (0 < m)%nat -> (i + m <= k)%nat ->
  span_mean (repeat 1 k) i m == 1.
Proof.
  intros k i m Hm Hik. unfold span_mean.
  rewrite (qsum_map_ext_in (entry (repeat 1 k)) (fun _ => 1)).
  - rewrite qsum_map_const, seq_length. field. apply Qnat_neq0. exact Hm.
  - intros j Hj. apply in_seq in Hj. rewrite entry_ones_lt by lia. reflexivity.
Qed.

(* ---------- the Borda vector ---------- *)

Lemma borda_vector_length : forall n, length (borda_vector n) = n.
Proof. induction n as [|n IH]; [reflexivity|]. cbn [borda_vector length]. rewrite IH. reflexivity. Qed.

Lemma borda_vector_map : forall n, borda_vector n = map (fun i => Qnat (n - i)) (seq 0 n).
Proof.
  induction n as [|n IH]; [reflexivity|].
  cbn [borda_vector seq map]. rewrite <- seq_shift, map_map, IH. reflexivity.
Qed.

Lemma borda_vector_sum : forall n, qsum (borda_vector n) == Qnat n * (Qnat n + 1) / 2.
Proof.
  induction n as [|n IH].
  - reflexivity.
  - cbn [borda_vector]. rewrite qsum_cons, IH, Qnat_S. field.
Qed.

Lemma borda_vector_valid : forall n, valid_vector (borda_vector n).
Proof.
  intros n. split.
  - induction n as [|n IH]; [constructor|]. cbn [borda_vector]. constructor; [apply Qnat_nonneg|exact IH].
  - induction n as [|n IH]; [exact I|]. cbn [borda_vector non_increasing]. split; [|exact IH].
    destruct n as [|m]; [exact I|]. cbn [borda_vector]. rewrite (Qnat_S (S m)).
    pose proof (Qnat_nonneg (S m)). lra.
Qed.

(* ------------------------------------------------------------------ *)

Section Totals.
Variable cand : Type.
Variable ceqb : cand -> cand -> bool.
Hypothesis ceqb_spec : forall a b, reflect (a = b) (ceqb a b).

Notation cset := (cset cand).
Notation ranking := (ranking cand).
Notation ballot := (ballot cand).
Notation profile := (profile cand).
Notation scores := (scores cand).
Notation flat := (flat cand).
Notation memb := (memb cand ceqb).
Notation set_diff := (set_diff cand ceqb).
Notation group_allocs := (group_allocs cand).
Notation alloc_of := (alloc_of cand ceqb).
Notation score_rankings := (score_rankings cand ceqb).
Notation first_place_votes := (first_place_votes cand ceqb).
Notation borda_scores := (borda_scores cand ceqb).
Notation mentions := (mentions cand ceqb).
Notation listed_alloc := (listed_alloc cand ceqb).
Notation ballot_alloc := (ballot_alloc cand ceqb).
Notation wf_ranking := (wf_ranking cand).
Notation wf_profile := (wf_profile cand).
Notation total_wt := (total_wt cand).

Local Notation memb_In := (memb_In cand ceqb ceqb_spec).
Local Notation memb_false_iff := (memb_false_iff cand ceqb ceqb_spec).
Local Notation memb_reflect := (memb_reflect cand ceqb ceqb_spec).

(* ---------- totals of a scored profile ---------- *)

Lemma total_firstn : forall (p : profile) v d, wf_profile p -> score_rankings p v = inl d ->
  qsum (map snd d) == total_wt (ballots p) * qsum (firstn (length (cands p)) v).
Proof.
  intros p v d Hwf H.
  destruct (c04_total_proof cand ceqb ceqb_spec p v d Hwf H) as [_ [Ht _]].
  rewrite Ht, entries_firstn. reflexivity.
Qed.

Theorem c04_total_short_proof : forall (p : profile) (v : list Q) (d : scores),
  wf_profile p -> score_rankings p v = inl d ->
  (length v <= length (cands p))%nat ->
  qsum (map snd d) == total_wt (ballots p) * qsum v.
Proof.
  intros p v d Hwf H Hlen. rewrite (total_firstn p v d Hwf H), firstn_all2 by exact Hlen. reflexivity.
Qed.

Theorem c04_total_long_proof : forall (p : profile) (v : list Q) (d : scores),
  wf_profile p -> score_rankings p v = inl d ->
  let n := length (cands p) in
  qsum (map snd d) == total_wt (ballots p) * qsum (firstn n v) /\
  qsum (map snd d) == total_wt (ballots p) * qsum v - total_wt (ballots p) * qsum (skipn n v).
Proof.
  intros p v d Hwf H n. pose proof (total_firstn p v d Hwf H) as Ht. fold n in Ht.
  split; [exact Ht|]. rewrite Ht, <- (qsum_firstn_skipn n v). ring.
Qed.

Theorem c04_total_exact_iff_proof : forall (p : profile) (v : list Q) (d : scores),
  wf_profile p -> score_rankings p v = inl d ->
  (qsum (map snd d) == total_wt (ballots p) * qsum v <->
   (total_wt (ballots p) == 0 \/ Forall (fun x => x == 0) (skipn (length (cands p)) v))).
Proof.
  intros p v d Hwf H. rewrite (total_firstn p v d Hwf H).
  set (n := length (cands p)). set (W := total_wt (ballots p)).
  assert (Hnn : Forall (fun x => 0 <= x) (skipn n v)).
  { destruct (score_rankings_inv cand ceqb p v d H) as [p' [Hv _]].
    apply validate_vector_iff in Hv. destruct Hv as [Hall _].
    rewrite <- (firstn_skipn n v) in Hall. apply Forall_app in Hall. apply Hall. }
  rewrite <- (qsum_nonneg_zero _ Hnn).
  pose proof (qsum_firstn_skipn n v) as Hs. split.
  - intros Heq. apply Qmult_integral.
    setoid_replace (W * qsum (skipn n v)) with (W * qsum v - W * qsum (firstn n v))
      by (rewrite <- Hs; ring).
    rewrite Heq. ring.
  - intros [H0|H0].
    + rewrite H0. ring.
    + rewrite <- Hs, H0. ring.
Qed.

(* ---------- one ballot ---------- *)

Lemma wf_ranking_length : forall cs r, wf_ranking cs r -> (length (flat r) <= length cs)%nat.
Proof. intros cs r [_ [_ [Hnd Hincl]]]. apply NoDup_incl_length; assumption. Qed.

Lemma listed_sum : forall cs r v, wf_ranking cs r ->
  qsum (map (ballot_alloc cs v r) (flat r)) == qsum (firstn (length (flat r)) v).
Proof.
  intros cs r v [_ [_ [Hnd _]]]. set (k := length (flat r)).
  rewrite (qsum_map_ext_in (ballot_alloc cs v r)
             (fun c => alloc_of c (group_allocs (pad_to k v) r)) (flat r)).
  - rewrite (alloc_of_sum_cands cand ceqb ceqb_spec (flat r)).
    + rewrite group_allocs_sum. fold k. rewrite firstn_pad_to. apply entries_firstn.
    + exact Hnd.
    + rewrite group_allocs_keys. apply incl_refl.
  - intros c Hc. unfold ScoreSpec.ballot_alloc. apply memb_In in Hc. rewrite Hc. symmetry.
    change (pad_to k v) with (skipn 0 (pad_to k v)).
    apply (alloc_of_listed cand ceqb ceqb_spec r v (pad_to k v) 0 c).
    + intros j. apply pad_to_nth.
    + exact Hnd.
    + destruct (pad_to_length k v). fold k. lia.
Qed.

Lemma set_diff_length : forall cs l, NoDup cs -> NoDup l -> incl l cs ->
  length (set_diff cs l) = (length cs - length l)%nat.
Proof.
  intros cs l Hcs Hl Hincl.
  pose proof (Permutation_length (app_set_diff_perm cand ceqb ceqb_spec l cs Hl Hcs Hincl)) as H.
  rewrite app_length in H. lia.
Qed.

Lemma unlisted_sum : forall cs r v, NoDup cs -> wf_ranking cs r ->
  let k := length (flat r) in
  qsum (map (ballot_alloc cs v r) (set_diff cs (flat r)))
  == qsum (firstn (length cs - k) (skipn k v)).
Proof.
  intros cs r v Hcs Hr k. pose proof (wf_ranking_length cs r Hr) as Hle.
  destruct Hr as [_ [_ [Hnd Hincl]]].
  rewrite (qsum_map_ext_in (ballot_alloc cs v r) (fun _ => span_mean v k (length cs - k))).
  - rewrite qsum_map_const, (set_diff_length cs (flat r) Hcs Hnd Hincl). fold k.
    rewrite <- entries_span. destruct (length cs - k)%nat as [|m] eqn:Hm.
    + rewrite Qnat_0. cbn [seq map]. rewrite qsum_nil. ring.
    + apply span_mean_total. lia.
  - intros c Hc. apply (set_diff_In cand ceqb ceqb_spec) in Hc. destruct Hc as [_ Hn].
    apply memb_false_iff in Hn. unfold ScoreSpec.ballot_alloc. rewrite Hn. reflexivity.
Qed.

Theorem c04_ballot_points_proof : forall (cs : cset) (r : ranking) (v : list Q) (w : Q),
  NoDup cs -> wf_ranking cs r ->
  let n := length cs in
  let k := length (flat r) in
  (* all points of the ballot *)
  qsum (map (fun c => w * ballot_alloc cs v r c) cs) == w * qsum (firstn n v) /\
  ((length v <= n)%nat -> qsum (map (fun c => w * ballot_alloc cs v r c) cs) == w * qsum v) /\
  (* the listed candidates receive the first k entries *)
  qsum (map (fun c => w * ballot_alloc cs v r c) (flat r)) == w * qsum (firstn k v) /\
  (* the unlisted candidates: each the mean of the next n - k entries, together all of them *)
  (forall c, In c cs -> ~ In c (flat r) -> ballot_alloc cs v r c == span_mean v k (n - k)) /\
  qsum (map (fun c => w * ballot_alloc cs v r c) (set_diff cs (flat r)))
    == w * qsum (firstn (n - k) (skipn k v)) /\
  (* a position group g starting at offset i, together, receives exactly the entries it spans *)
  (forall (i : nat) (g : cset), g <> [] ->
     Qnat (length g) * span_mean v i (length g) == qsum (firstn (length g) (skipn i v))).
Proof.
  intros cs r v w Hcs Hr n k.
  assert (Hall : qsum (map (fun c => w * ballot_alloc cs v r c) cs) == w * qsum (firstn n v)).
  { rewrite qsum_map_scal, (ballot_alloc_total cand ceqb ceqb_spec cs r v Hcs Hr), entries_firstn.
    reflexivity. }
  split; [exact Hall|]. split.
  { intros Hlen. rewrite Hall. unfold n. rewrite firstn_all2 by exact Hlen. reflexivity. }
  split.
  { rewrite qsum_map_scal, (listed_sum cs r v Hr). reflexivity. }
  split.
  { intros c _ Hn. apply memb_false_iff in Hn. unfold ScoreSpec.ballot_alloc. rewrite Hn. reflexivity. }
  split.
  { rewrite qsum_map_scal, (unlisted_sum cs r v Hcs Hr). reflexivity. }
  intros i g Hg. rewrite <- entries_span. apply span_mean_total.
  destruct g; [contradiction|cbn [length]; lia].
Qed.

(* ---------- scores depend only on the first n entries ---------- *)

Lemma listed_alloc_ext : forall r v1 v2 i c,
  (forall j, (j < i + length (flat r))%nat -> entry v1 j == entry v2 j) ->
  listed_alloc v1 i r c == listed_alloc v2 i r c.
Proof.
  induction r as [|s r IH]; intros v1 v2 i c H; [reflexivity|].
  rewrite flat_cons, app_length in H. cbn [ScoreSpec.listed_alloc]. destruct (memb c s).
  - apply span_mean_ext. intros j Hj. apply H. lia.
  - apply IH. intros j Hj. apply H. lia.
Qed.

Lemma ballot_alloc_ext : forall cs r v1 v2 c, wf_ranking cs r ->
  (forall j, (j < length cs)%nat -> entry v1 j == entry v2 j) ->
  ballot_alloc cs v1 r c == ballot_alloc cs v2 r c.
Proof.
  intros cs r v1 v2 c Hr H. pose proof (wf_ranking_length cs r Hr) as Hle.
  unfold ScoreSpec.ballot_alloc. destruct (memb c (flat r)).
  - apply listed_alloc_ext. intros j Hj. apply H. lia.
  - apply span_mean_ext. intros j Hj. apply H. lia.
Qed.

Theorem c04_vector_ext_proof : forall (p : profile) (v1 v2 : list Q) (d1 d2 : scores),
  wf_profile p -> score_rankings p v1 = inl d1 -> score_rankings p v2 = inl d2 ->
  (forall j, (j < length (cands p))%nat -> entry v1 j == entry v2 j) ->
  map fst d1 = map fst d2 /\
  forall c q1 q2, In (c, q1) d1 -> In (c, q2) d2 -> q1 == q2.
Proof.
  intros p v1 v2 d1 d2 Hwf H1 H2 Hent.
  destruct (c04_definition_proof cand ceqb ceqb_spec p v1 d1 Hwf H1) as [K1 D1].
  destruct (c04_definition_proof cand ceqb ceqb_spec p v2 d2 Hwf H2) as [K2 D2].
  split; [congruence|]. intros c q1 q2 Hq1 Hq2. rewrite (D1 c q1 Hq1), (D2 c q2 Hq2).
  apply qsum_map_ext_in. intros b Hb. destruct Hwf as [_ Hbs]. rewrite Forall_forall in Hbs.
  rewrite (ballot_alloc_ext (cands p) (rk b) v1 v2 c (Hbs b Hb) Hent). reflexivity.
Qed.

(* ---------- first-place votes = the vector [1] ---------- *)

Lemma valid_one : valid_vector [1].
Proof. split; [repeat constructor; discriminate|cbn; auto]. Qed.

Lemma fpv_entries_one : forall n j, entry (fpv_vector n) j == entry [1] j.
Proof.
  intros n [|j]; [reflexivity|]. rewrite fpv_entry_S. destruct j; reflexivity.
Qed.

Lemma wf_no_cands : forall p : profile, wf_profile p -> cands p = [] -> ballots p = [].
Proof.
  intros p [_ Hbs] Hc. rewrite Hc in Hbs. destruct (ballots p) as [|b bs]; [reflexivity|].
  exfalso. inversion Hbs as [|x l [Hne [Hg [_ Hincl]]] _]; subst.
  destruct (rk b) as [|g r]; [contradiction|]. inversion Hg as [|y l' Hgne _]; subst.
  destruct g as [|c g]; [contradiction|]. apply (Hincl c). rewrite flat_cons. left. reflexivity.
Qed.

Theorem c04_fpv_is_vector_one_proof : forall (p : profile) (d : scores),
  wf_profile p -> first_place_votes p = inl d ->
  (exists d1, score_rankings p [1] = inl d1 /\ map fst d1 = map fst d /\
     forall c q q1, In (c, q) d -> In (c, q1) d1 -> q == q1) /\
  qsum (map snd d) == total_wt (ballots p).
Proof.
  intros p d Hwf H. split.
  - destruct (c04_scored_proof cand ceqb ceqb_spec p [1] Hwf valid_one) as [d1 H1].
    exists d1. split; [exact H1|]. unfold Core.first_place_votes in H.
    destruct (c04_vector_ext_proof p _ [1] d d1 Hwf H H1) as [K E].
    + intros j _. apply fpv_entries_one.
    + split; [symmetry; exact K|exact E].
  - unfold Core.first_place_votes in H.
    destruct (c04_total_proof cand ceqb ceqb_spec p _ d Hwf H) as [_ [Ht _]]. rewrite Ht.
    destruct (length (cands p)) as [|n] eqn:Hlen.
    + apply length_zero_iff_nil in Hlen. rewrite (wf_no_cands p Hwf Hlen).
      unfold Core.total_wt. cbn [map seq]. rewrite qsum_nil. ring.
    + cbn [seq map]. rewrite qsum_cons, fpv_entry_0.
      rewrite qsum_map_zero; [ring|]. intros j Hj. apply in_seq in Hj. apply fpv_entry_later. lia.
Qed.

(* ---------- Borda ---------- *)

Theorem c04_borda_is_score_vector_proof : forall (p : profile),
  let n := length (cands p) in
  borda_scores p = score_rankings p (borda_vector n) /\
  borda_vector n = map (fun i => Qnat (n - i)) (seq 0 n) /\
  length (borda_vector n) = n /\
  valid_vector (borda_vector n) /\
  forall d, wf_profile p -> borda_scores p = inl d ->
    qsum (map snd d) == total_wt (ballots p) * (Qnat n * (Qnat n + 1) / 2).
Proof.
  intros p n. split; [reflexivity|]. split; [apply borda_vector_map|].
  split; [apply borda_vector_length|]. split; [apply borda_vector_valid|].
  intros d Hwf H. unfold Core.borda_scores in H. fold n in H.
  rewrite (c04_total_short_proof p _ d Hwf H) by (rewrite borda_vector_length; apply Nat.le_refl).
  rewrite borda_vector_sum. reflexivity.
Qed.

(* ---------- mentions ---------- *)

Lemma mentions_inv : forall (p : profile) d, mentions p = inl d ->
  d = map (fun c => (c, qsum (map (fun b => if memb c (flat (rk b)) then wt b else 0) (ballots p))))
          (cands p).
Proof.
  intros p d H. unfold Core.mentions in H.
  destruct (existsb _ (ballots p)); [discriminate|].
  destruct (all_known cand ceqb (cands p) (ballots p)); cbn [negb] in H; [|discriminate].
  unfold ok in H. inversion H. reflexivity.
Qed.

(* weight w to every member of l, summed over a duplicate-free superset *)
Lemma count_listed : forall (cs l : cset) (w : Q), NoDup cs -> NoDup l -> incl l cs ->
  qsum (map (fun c => if memb c l then w else 0) cs) == Qnat (length l) * w.
Proof.
  intros cs l w Hcs Hl Hincl.
  pose proof (app_set_diff_perm cand ceqb ceqb_spec l cs Hl Hcs Hincl) as Hperm.
  rewrite <- (qsum_perm _ _ (Permutation_map (fun c => if memb c l then w else 0) Hperm)).
  rewrite map_app, qsum_app.
  rewrite (qsum_map_ext_in (fun c => if memb c l then w else 0) (fun _ => w) l).
  - rewrite qsum_map_const, qsum_map_zero; [ring|].
    intros c Hc. apply (set_diff_In cand ceqb ceqb_spec) in Hc. destruct Hc as [_ Hn].
    apply memb_false_iff in Hn. rewrite Hn. reflexivity.
  - intros c Hc. apply memb_In in Hc. rewrite Hc. reflexivity.
Qed.

Lemma listed_alloc_ones : forall r k i c, In c (flat r) -> (i + length (flat r) <= k)%nat ->
  listed_alloc (repeat 1 k) i r c == 1.
Proof.
  induction r as [|s r IH]; intros k i c Hc Hk; [destruct Hc|].
  rewrite flat_cons in Hc, Hk. rewrite app_length in Hk. cbn [ScoreSpec.listed_alloc].
  destruct (memb_reflect c s) as [Hin|Hnin].
  - apply span_mean_ones; [destruct s; [destruct Hin|cbn [length]; lia]|lia].
  - apply IH; [|lia]. apply in_app_or in Hc. destruct Hc as [Hc|Hc]; [contradiction|exact Hc].
Qed.

(* a ballot listing k candidates, scored with k ones: 1 to each listed candidate whatever the
   ties, 0 to each unlisted one *)
Lemma ballot_alloc_ones : forall cs r c, wf_ranking cs r ->
  ballot_alloc cs (repeat 1 (length (flat r))) r c == if memb c (flat r) then 1 else 0.
Proof.
  intros cs r c Hr. unfold ScoreSpec.ballot_alloc. destruct (memb_reflect c (flat r)) as [Hin|Hnin].
  - apply listed_alloc_ones; [exact Hin|lia].
  - apply span_mean_zero. intros j Hj. rewrite entry_ones_ge by exact Hj. reflexivity.
Qed.

Theorem c04_mentions_exact_proof : forall (p : profile) (d : scores),
  wf_profile p -> mentions p = inl d ->
  map fst d = cands p /\
  (forall b c, In b (ballots p) ->
     ballot_alloc (cands p) (repeat 1 (length (flat (rk b)))) (rk b) c
     == if memb c (flat (rk b)) then 1 else 0) /\
  (forall c q, In (c, q) d ->
     q == qsum (map (fun b => wt b * ballot_alloc (cands p) (repeat 1 (length (flat (rk b)))) (rk b) c)
                    (ballots p))) /\
  qsum (map snd d) == qsum (map (fun b => wt b * Qnat (length (flat (rk b)))) (ballots p)).
Proof.
  intros p d Hwf H. pose proof (mentions_inv p d H) as Hd. destruct Hwf as [Hcs Hbs].
  rewrite Forall_forall in Hbs. split; [|split; [|split]].
  - rewrite Hd, map_map. cbn [fst]. apply map_id.
  - intros b c Hb. apply ballot_alloc_ones. apply Hbs. exact Hb.
  - intros c q Hin. rewrite Hd in Hin. apply in_map_iff in Hin. destruct Hin as [c' [Heq _]].
    inversion Heq; subst c' q. apply qsum_map_ext_in. intros b Hb.
    rewrite (ballot_alloc_ones (cands p) (rk b) c (Hbs b Hb)).
    destruct (memb c (flat (rk b))); ring.
  - rewrite Hd, map_map. cbn [snd].
    rewrite (qsum_swap (fun c b => if memb c (flat (rk b)) then wt b else 0) (cands p) (ballots p)).
    apply qsum_map_ext_in. intros b Hb. destruct (Hbs b Hb) as [_ [_ [Hnd Hincl]]].
    rewrite (count_listed (cands p) (flat (rk b)) (wt b) Hcs Hnd Hincl). ring.
Qed.

Lemma valid_ones : forall k, valid_vector (repeat 1 k).
Proof.
  intros k. split.
  - induction k as [|k IH]; [constructor|]. cbn [repeat]. constructor; [discriminate|exact IH].
  - induction k as [|k IH]; [exact I|]. cbn [repeat non_increasing]. split; [|exact IH].
    destruct k; [exact I|]. cbn [repeat]. apply Qle_refl.
Qed.

Theorem c04_mentions_uniform_proof : forall (p : profile) (k : nat) (d : scores),
  wf_profile p -> (forall b, In b (ballots p) -> length (flat (rk b)) = k) ->
  mentions p = inl d ->
  exists d1, score_rankings p (repeat 1 k) = inl d1 /\ map fst d1 = map fst d /\
    forall c q q1, In (c, q) d -> In (c, q1) d1 -> q == q1.
Proof.
  intros p k d Hwf Hk H.
  destruct (c04_scored_proof cand ceqb ceqb_spec p (repeat 1 k) Hwf (valid_ones k)) as [d1 H1].
  exists d1. split; [exact H1|].
  destruct (c04_definition_proof cand ceqb ceqb_spec p _ d1 Hwf H1) as [K1 D1].
  destruct (c04_mentions_exact_proof p d Hwf H) as [K [_ [D _]]].
  split; [congruence|]. intros c q q1 Hq Hq1. rewrite (D c q Hq), (D1 c q1 Hq1).
  apply qsum_map_ext_in. intros b Hb. rewrite (Hk b Hb). reflexivity.
Qed.

End Totals.

(* ------------------------------------------------------------------ *)
(** * concrete refutations *)

Local Notation B r w := (plain_ballot positive r w).

Ltac ex_nodup := repeat (constructor; [cbn; intuition discriminate|]); constructor.
Ltac ex_incl := let x := fresh "x" in let Hx := fresh "Hx" in
  intros x Hx; cbn in Hx |- *; intuition.
Ltac ex_wf :=
  split; [cbn; ex_nodup|];
  repeat (constructor; [cbn; repeat split;
    [discriminate|repeat (constructor; [discriminate|]); constructor|ex_nodup|ex_incl]|]);
  constructor.

(* two candidates, the vector (3,2,1): an untied full ballot, a tied ballot and a partial ballot
   each hand out 3 + 2 = 5 per unit weight, not 6 *)
Definition long_p : Core.profile positive :=
  mkProfile [B [[1];[2]]%positive 1; B [[1;2]]%positive 1; B [[2]]%positive 1] [1;2]%positive.
Definition long_v : list Q := [3; 2; 1].

Theorem c04_total_long_refuted_proof :
  exists (p : Core.profile positive) (v : list Q) (d : Core.scores positive),
    wf_profile positive p /\ valid_vector v /\ (length (cands p) < length v)%nat /\
    score_rankings positive Pos.eqb p v = inl d /\
    total_wt positive (ballots p) == 3 /\ qsum v == 6 /\ qsum (map snd d) == 15 /\
    ~ qsum (map snd d) == total_wt positive (ballots p) * qsum v.
Proof.
  exists long_p, long_v. eexists.
  split; [unfold long_p; ex_wf|].
  split; [split; [repeat constructor; discriminate|cbn; repeat split; discriminate]|].
  split; [cbn; lia|].
  split; [vm_compute; reflexivity|].
  split; [vm_compute; reflexivity|]. split; [vm_compute; reflexivity|].
  split; [vm_compute; reflexivity|].
  intros H. vm_compute in H. discriminate.
Qed.

(* mentions is not the positional score of any single vector: ballots (1) and (2 > 1) over the
   candidates {1,2}; every vector gives both candidates entry 0 + entry 1, mentions gives 2 and 1 *)
Definition ment_p : Core.profile positive :=
  mkProfile [B [[1]]%positive 1; B [[2];[1]]%positive 1] [1;2]%positive.

Theorem c04_mentions_single_vector_refuted_proof :
  exists (p : Core.profile positive) (dm : Core.scores positive),
    wf_profile positive p /\ mentions positive Pos.eqb p = inl dm /\
    forall v d, score_rankings positive Pos.eqb p v = inl d ->
      ~ (forall c q q', In (c, q) d -> In (c, q') dm -> q == q').
Proof.
  exists ment_p. eexists. split; [unfold ment_p; ex_wf|]. split; [vm_compute; reflexivity|].
  intros v d H Heq.
  assert (Hwf : wf_profile positive ment_p) by (unfold ment_p; ex_wf).
  destruct (c04_definition_proof positive Pos.eqb Pos.eqb_spec ment_p v d Hwf H) as [K D].
  destruct d as [|[c1 q1] [|[c2 q2] [|x d]]]; try discriminate K.
  cbn in K. inversion K; subst c1 c2.
  pose proof (D 1%positive q1 (or_introl eq_refl)) as E1.
  pose proof (D 2%positive q2 (or_intror (or_introl eq_refl))) as E2.
  assert (E1' : q1 == 1 * span_mean v 0 1 + (1 * span_mean v 1 1 + 0)) by exact E1.
  assert (E2' : q2 == 1 * span_mean v 1 1 + (1 * span_mean v 0 1 + 0)) by exact E2.
  pose proof (Heq 1%positive q1 _ (or_introl eq_refl) (or_introl eq_refl)) as M1.
  pose proof (Heq 2%positive q2 _ (or_intror (or_introl eq_refl)) (or_intror (or_introl eq_refl))) as M2.
  assert (Hc : q1 == q2) by (rewrite E1', E2'; ring).
  rewrite M1, M2 in Hc. vm_compute in Hc. discriminate.
Qed.
