(* Proofs/C16_laws.v — property C16: laws of the generators' kernels (Dist reading).
   The laws of the numpy / random primitives themselves are the trusted assumptions; here:
   the closed forms of successive sampling without replacement (Plackett-Luce) and of
   independent draws, the support = what the model's CORE accepts, the exact tables, and the
   detailed-balance equations of the two MCMC chains. *)
From VK Require Import Base Core GenValidation PrefInterval Generators Laws BTSpec GenSpec GenLaws.
From VK Require Import Lib_rk Lib_sets Dist C12_expand C15_bt C15_slate C14_wf C14_kernels C14_types.
From Coq Require Import Permutation Lia Lqa Setoid Morphisms.

(* ------------------------------------------------------------------ *)
(** * Generic helpers *)

Lemma prob_false : forall {A} (d : dist A), prob (fun _ => false) d == 0.
Proof.
  intros A d. induction d as [|aw d IH]; [reflexivity|].
  rewrite prob_cons, IH. ring.
Qed.

Lemma list_peqb_cons : forall a l b m,
  list_peqb (a :: l) (b :: m) = Pos.eqb a b && list_peqb l m.
Proof.
  intros a l b m. apply eq_true_iff_eq.
  rewrite andb_true_iff, !list_peqb_true_iff, Pos.eqb_eq. split.
  - intros E. injection E as -> ->. split; reflexivity.
  - intros [-> ->]. reflexivity.
Qed.

Lemma list_peqb_nil_cons : forall b (m : list pcand), list_peqb [] (b :: m) = false.
Proof. intros b m. apply list_peqb_false_iff. discriminate. Qed.

Lemma list_peqb_cons_nil : forall a (l : list pcand), list_peqb (a :: l) [] = false.
Proof. intros a l. apply list_peqb_false_iff. discriminate. Qed.

Definition positive_pop (pop : list (pcand * Q)) : Prop := forall c w, In (c, w) pop -> 0 < w.

Lemma positive_pop_sum : forall pop, positive_pop pop -> pop <> [] -> 0 < qsum (map snd pop).
Proof.
  intros [|[c w] pop] H Hne; [contradiction|].
  apply (qsum_map_pos snd ((c, w) :: pop) (c, w)).
  - intros [c' w'] Hin. cbn [snd]. apply Qlt_le_weak. apply (H c' w' Hin).
  - left. reflexivity.
  - cbn [snd]. apply (H c w). left. reflexivity.
Qed.

Lemma categorical_support : forall (pop : list (pcand * Q)) c w,
  In (c, w) (categorical pop) -> In c (map fst pop).
Proof.
  intros pop c w H. unfold categorical in H. apply in_map_iff in H.
  destruct H as ([c' w'] & E & Hin). cbn [fst snd] in E. injection E as <- _.
  apply in_map_iff. exists (c', w'). split; [reflexivity|exact Hin].
Qed.

(* selecting the entry of c1 from a population with distinct keys *)
Lemma sum_select : forall (pop : list (pcand * Q)) c1 K,
  NoDup (map fst pop) ->
  qsum (map (fun p : pcand * Q => if Pos.eqb c1 (fst p) then snd p * K else 0) pop)
  == lookupP pop c1 * K.
Proof.
  intros pop c1 K. induction pop as [|[a v] pop IH]; intros Hnd.
  - cbn [map]. rewrite qsum_nil. unfold lookupP. cbn [find]. ring.
  - cbn [map fst] in Hnd. inversion Hnd as [|x l Hnotin Hnd']; subst.
    cbn [map fst snd]. rewrite qsum_cons, (IH Hnd'), lookupP_cons.
    destruct (Pos.eqb_spec c1 a) as [->|Hne].
    + rewrite (lookupP_not_in pop a Hnotin). ring.
    + ring.
Qed.

(* ------------------------------------------------------------------ *)
(** * B1. Plackett-Luce = successive sampling without replacement *)

Lemma remove_key_In : forall c pop p, In p (remove_key c pop) -> In p pop.
Proof.
  intros c pop. induction pop as [|q pop IH]; intros p H; cbn [remove_key] in H; [destruct H|].
  destruct (Pos.eqb c (fst q)).
  - right. exact H.
  - destruct H as [<-|H]; [left; reflexivity|right; apply IH; exact H].
Qed.

Lemma remove_key_positive : forall c pop, positive_pop pop -> positive_pop (remove_key c pop).
Proof. intros c pop H c' w Hin. apply (H c' w). apply (remove_key_In c pop _ Hin). Qed.

Lemma remove_key_length : forall c pop, In c (map fst pop) ->
  S (length (remove_key c pop)) = length pop.
Proof.
  intros c pop. induction pop as [|q pop IH]; intros H; [destruct H|].
  cbn [remove_key]. destruct (Pos.eqb_spec c (fst q)) as [E|Hne]; [reflexivity|].
  cbn [length]. rewrite IH; [reflexivity|]. destruct H as [H|H]; [congruence|exact H].
Qed.

Lemma remove_key_keys : forall c pop, NoDup (map fst pop) ->
  NoDup (map fst (remove_key c pop)) /\
  forall c', In c' (map fst (remove_key c pop)) <-> In c' (map fst pop) /\ c' <> c.
Proof.
  intros c pop. induction pop as [|[a v] pop IH]; intros Hnd.
  - cbn. split; [constructor|]. intros c'. tauto.
  - cbn [map fst] in Hnd. inversion Hnd as [|x l Hnotin Hnd']; subst.
    destruct (IH Hnd') as (IH1 & IH2). cbn [remove_key fst].
    destruct (Pos.eqb_spec c a) as [->|Hne].
    + split; [exact Hnd'|]. intros c'. cbn [map fst In]. split.
      * intros H. split; [right; exact H|]. intros ->. contradiction.
      * intros [[E|H] Hne]; [congruence|exact H].
    + cbn [map fst]. split.
      * constructor; [|exact IH1]. intros Hc. apply IH2 in Hc. destruct Hc as [Hc _]. contradiction.
      * intros c'. cbn [In]. rewrite IH2. split.
        -- intros [<-|[H1 H2]]; [split; [left; reflexivity|congruence]|split; [right; exact H1|exact H2]].
        -- intros [[<-|H1] H2]; [left; reflexivity|right; split; assumption].
Qed.

Lemma remove_key_lookup : forall c pop c', c' <> c ->
  lookupP (remove_key c pop) c' = lookupP pop c'.
Proof.
  intros c pop c' Hne. induction pop as [|[a v] pop IH]; [reflexivity|].
  cbn [remove_key fst]. destruct (Pos.eqb_spec c a) as [->|Hca].
  - rewrite lookupP_cons. apply Pos.eqb_neq in Hne. rewrite Hne. reflexivity.
  - rewrite !lookupP_cons. destruct (Pos.eqb c' a); [reflexivity|exact IH].
Qed.

Lemma remove_key_sum : forall c pop,
  qsum (map snd (remove_key c pop)) == qsum (map snd pop) - lookupP pop c.
Proof.
  intros c pop. induction pop as [|[a v] pop IH].
  - cbn. reflexivity.
  - cbn [remove_key fst]. rewrite lookupP_cons. destruct (Pos.eqb c a).
    + cbn [map snd]. rewrite qsum_cons. ring.
    + cbn [map snd]. rewrite !qsum_cons, IH. ring.
Qed.

Theorem law_pl_mass : forall k pop,
  positive_pop pop -> (k <= length pop)%nat -> mass (law_pl pop k) == 1.
Proof.
  induction k as [|k IH]; intros pop Hpos Hk; cbn [law_pl].
  - apply mass_dret.
  - assert (Hne : pop <> []) by (intros ->; cbn in Hk; lia).
    pose proof (positive_pop_sum pop Hpos Hne) as HW.
    rewrite mass_dbind_one.
    + apply mass_categorical. intros E. rewrite E in HW. apply (Qlt_irrefl 0). exact HW.
    + intros c w Hin. apply categorical_support in Hin.
      rewrite mass_dbind_one; [|intros o q _; apply mass_dret].
      apply IH; [apply remove_key_positive; exact Hpos|].
      pose proof (remove_key_length c pop Hin). lia.
Qed.

(* one step of the recursion *)
Lemma prob_pl_cons : forall pop k c1 o1,
  NoDup (map fst pop) ->
  prob (list_peqb (c1 :: o1)) (law_pl pop (S k)) ==
  lookupP pop c1 / qsum (map snd pop) * prob (list_peqb o1) (law_pl (remove_key c1 pop) k).
Proof.
  intros pop k c1 o1 Hnd. cbn [law_pl]. rewrite prob_dbind.
  set (W := qsum (map snd pop)).
  set (P1 := prob (list_peqb o1) (law_pl (remove_key c1 pop) k)).
  unfold categorical. rewrite map_map. cbn [fst snd]. fold W.
  transitivity (qsum (map (fun p : pcand * Q => if Pos.eqb c1 (fst p) then snd p * (P1 / W) else 0) pop)).
  - apply qsum_map_ext_in. intros [c w] _. cbn [fst snd]. rewrite prob_dbind_dret.
    destruct (Pos.eqb_spec c1 c) as [<-|Hne].
    + rewrite (prob_ext_in _ (list_peqb o1)).
      * fold P1. unfold Qdiv. ring.
      * intros o q _. rewrite list_peqb_cons, Pos.eqb_refl. reflexivity.
    + rewrite (prob_ext_in _ (fun _ => false)).
      * rewrite prob_false. ring.
      * intros o q _. rewrite list_peqb_cons. apply Pos.eqb_neq in Hne. rewrite Hne. reflexivity.
  - rewrite (sum_select pop c1 (P1 / W) Hnd). unfold Qdiv. ring.
Qed.

Lemma prob_pl_nil : forall pop o, prob (list_peqb o) (law_pl pop 0) == if list_peqb o [] then 1 else 0.
Proof. intros pop o. cbn [law_pl]. apply prob_dret. Qed.

Lemma prob_pl_S_nil : forall pop k, prob (list_peqb []) (law_pl pop (S k)) == 0.
Proof.
  intros pop k. cbn [law_pl]. rewrite prob_dbind. apply qsum_map_zero. intros [c w] _. cbn [fst snd].
  rewrite prob_dbind_dret, (prob_ext_in _ (fun _ => false)).
  - rewrite prob_false. ring.
  - intros o q _. apply list_peqb_nil_cons.
Qed.

Lemma pl_closed_ext : forall o w w' W W',
  (forall c, In c o -> w c == w' c) -> W == W' -> pl_closed w W o == pl_closed w' W' o.
Proof.
  induction o as [|c o IH]; intros w w' W W' Hw HW; cbn [pl_closed]; [reflexivity|].
  assert (Hc : w c == w' c) by (apply Hw; left; reflexivity).
  apply Qmult_comp.
  - apply Qdiv_comp; assumption.
  - apply IH; [intros c' Hc'; apply Hw; right; exact Hc'|]. rewrite Hc, HW. reflexivity.
Qed.

(* P(order = [c1..ck]) = prod_i w(c_i) / (W - sum_{j<i} w(c_j)) *)
Theorem law_pl_prob : forall order pop,
  NoDup (map fst pop) -> NoDup order -> incl order (map fst pop) ->
  prob (list_peqb order) (law_pl pop (length order)) ==
  pl_closed (lookupP pop) (qsum (map snd pop)) order.
Proof.
  induction order as [|c1 o1 IH]; intros pop Hnd Hndo Hin.
  - cbn [length pl_closed]. rewrite prob_pl_nil. reflexivity.
  - cbn [length pl_closed]. rewrite (prob_pl_cons pop (length o1) c1 o1 Hnd).
    inversion Hndo as [|x l Hnotin Hndo']; subst.
    destruct (remove_key_keys c1 pop Hnd) as (K1 & K2).
    rewrite (IH (remove_key c1 pop) K1 Hndo').
    + apply Qmult_comp; [reflexivity|]. apply pl_closed_ext.
      * intros c Hc. rewrite remove_key_lookup; [reflexivity|]. intros ->. contradiction.
      * apply remove_key_sum.
    + intros c Hc. apply K2. split; [apply Hin; right; exact Hc|]. intros ->. contradiction.
Qed.

(* every outcome of the law is a possible sample *)
Lemma law_pl_support : forall k pop o w,
  NoDup (map fst pop) -> In (o, w) (law_pl pop k) ->
  length o = k /\ NoDup o /\ incl o (map fst pop).
Proof.
  induction k as [|k IH]; intros pop o w Hnd Hin; cbn [law_pl] in Hin.
  - destruct Hin as [E|[]]. injection E as <- _. split; [reflexivity|]. split; [constructor|intros c []].
  - apply dbind_support in Hin. destruct Hin as (c & w1 & q1 & Hc & Hin & _).
    apply categorical_support in Hc.
    apply dbind_support in Hin. destruct Hin as (o' & w2 & q2 & Ho' & Hd & _).
    destruct Hd as [E|[]]. injection E as <- _.
    destruct (remove_key_keys c pop Hnd) as (K1 & K2).
    destruct (IH _ _ _ K1 Ho') as (L & N & I).
    split; [cbn [length]; rewrite L; reflexivity|]. split.
    + constructor; [|exact N]. intros Hc'. apply I in Hc'. apply K2 in Hc'. destruct Hc' as [_ Hc']. congruence.
    + intros c' [<-|Hc']; [exact Hc|]. apply I in Hc'. apply K2 in Hc'. destruct Hc' as [Hc' _]. exact Hc'.
Qed.

Theorem law_pl_prob_invalid : forall k pop order,
  NoDup (map fst pop) -> valid_sample (map fst pop) k order = false ->
  prob (list_peqb order) (law_pl pop k) == 0.
Proof.
  intros k pop order Hnd Hv. rewrite (prob_ext_in _ (fun _ => false)); [apply prob_false|].
  intros o w Hin. destruct (list_peqb order o) eqn:E; [|reflexivity].
  apply list_peqb_true_iff in E. subst o. apply (law_pl_support k pop order w Hnd) in Hin.
  apply valid_sample_iff in Hin. congruence.
Qed.

Lemma nonneg_law_pl : forall k pop, positive_pop pop -> nonneg_dist (law_pl pop k).
Proof.
  induction k as [|k IH]; intros pop Hpos; cbn [law_pl].
  - intros a w [E|[]]. injection E as _ <-. discriminate.
  - apply nonneg_dbind.
    + apply nonneg_categorical. intros a w Hin. apply Qlt_le_weak. apply (Hpos a w Hin).
    + intros c w _. apply nonneg_dbind; [apply IH; apply remove_key_positive; exact Hpos|].
      intros o q _ a w' [E|[]]. injection E as _ <-. discriminate.
Qed.

Lemma law_pl_prob_pos : forall order pop,
  NoDup (map fst pop) -> positive_pop pop -> NoDup order -> incl order (map fst pop) ->
  0 < prob (list_peqb order) (law_pl pop (length order)).
Proof.
  induction order as [|c1 o1 IH]; intros pop Hnd Hpos Hndo Hin.
  - cbn [length]. rewrite prob_pl_nil. reflexivity.
  - cbn [length]. rewrite (prob_pl_cons pop (length o1) c1 o1 Hnd).
    inversion Hndo as [|x l Hnotin Hndo']; subst.
    destruct (remove_key_keys c1 pop Hnd) as (K1 & K2).
    assert (Hc1 : In c1 (map fst pop)) by (apply Hin; left; reflexivity).
    assert (Hne : pop <> []) by (intros ->; destruct Hc1).
    pose proof (positive_pop_sum pop Hpos Hne) as HW.
    assert (Hw : 0 < lookupP pop c1) by (apply (Hpos c1); apply lookupP_in; exact Hc1).
    apply Qmult_lt_0_compat.
    + apply Qlt_shift_div_l; [exact HW|]. lra.
    + apply IH; [exact K1|apply remove_key_positive; exact Hpos|exact Hndo'|].
      intros c Hc. apply K2. split; [apply Hin; right; exact Hc|]. intros ->. contradiction.
Qed.

(* positive probability <-> the model's CORE accepts the draw *)
Theorem law_pl_support_valid : forall k pop order,
  NoDup (map fst pop) -> positive_pop pop ->
  (0 < prob (list_peqb order) (law_pl pop k) <-> valid_sample (map fst pop) k order = true).
Proof.
  intros k pop order Hnd Hpos. split.
  - intros H. apply prob_pos_inv in H. destruct H as (o & w & Hin & E & _).
    apply list_peqb_true_iff in E. subst o. apply valid_sample_iff.
    apply (law_pl_support k pop order w Hnd Hin).
  - intros H. apply valid_sample_iff in H. destruct H as (<- & N & I).
    apply law_pl_prob_pos; assumption.
Qed.

(* ------------------------------------------------------------------ *)
(** * B2. independent categorical draws *)

Theorem law_iid_mass : forall k pop,
  ~ qsum (map snd pop) == 0 -> mass (law_iid pop k) == 1.
Proof.
  induction k as [|k IH]; intros pop HW; cbn [law_iid].
  - apply mass_dret.
  - rewrite mass_dbind_one; [apply mass_categorical; exact HW|].
    intros c w _. rewrite mass_dbind_one; [|intros o q _; apply mass_dret]. apply IH. exact HW.
Qed.

Lemma prob_iid_cons : forall pop k c1 o1,
  NoDup (map fst pop) ->
  prob (list_peqb (c1 :: o1)) (law_iid pop (S k)) ==
  lookupP pop c1 / qsum (map snd pop) * prob (list_peqb o1) (law_iid pop k).
Proof.
  intros pop k c1 o1 Hnd. cbn [law_iid]. rewrite prob_dbind.
  set (W := qsum (map snd pop)).
  set (P1 := prob (list_peqb o1) (law_iid pop k)).
  unfold categorical. rewrite map_map. cbn [fst snd]. fold W.
  transitivity (qsum (map (fun p : pcand * Q => if Pos.eqb c1 (fst p) then snd p * (P1 / W) else 0) pop)).
  - apply qsum_map_ext_in. intros [c w] _. cbn [fst snd]. rewrite prob_dbind_dret.
    destruct (Pos.eqb_spec c1 c) as [<-|Hne].
    + rewrite (prob_ext_in _ (list_peqb o1)).
      * fold P1. unfold Qdiv. ring.
      * intros o q _. rewrite list_peqb_cons, Pos.eqb_refl. reflexivity.
    + rewrite (prob_ext_in _ (fun _ => false)).
      * rewrite prob_false. ring.
      * intros o q _. rewrite list_peqb_cons. apply Pos.eqb_neq in Hne. rewrite Hne. reflexivity.
  - rewrite (sum_select pop c1 (P1 / W) Hnd). unfold Qdiv. ring.
Qed.

(* P(sequence = [c1..ck]) = prod_i w(c_i) / W; candidates outside the population have w = 0 *)
Theorem law_iid_prob : forall draws pop,
  NoDup (map fst pop) ->
  prob (list_peqb draws) (law_iid pop (length draws)) ==
  iid_closed (lookupP pop) (qsum (map snd pop)) draws.
Proof.
  induction draws as [|c1 o1 IH]; intros pop Hnd; cbn [length iid_closed].
  - cbn [law_iid]. rewrite prob_dret. reflexivity.
  - rewrite (prob_iid_cons pop (length o1) c1 o1 Hnd), (IH pop Hnd). reflexivity.
Qed.

Lemma law_iid_support : forall k pop o w,
  In (o, w) (law_iid pop k) -> length o = k /\ incl o (map fst pop).
Proof.
  induction k as [|k IH]; intros pop o w Hin; cbn [law_iid] in Hin.
  - destruct Hin as [E|[]]. injection E as <- _. split; [reflexivity|intros c []].
  - apply dbind_support in Hin. destruct Hin as (c & w1 & q1 & Hc & Hin & _).
    apply categorical_support in Hc.
    apply dbind_support in Hin. destruct Hin as (o' & w2 & q2 & Ho' & Hd & _).
    destruct Hd as [E|[]]. injection E as <- _. destruct (IH _ _ _ Ho') as (L & I).
    split; [cbn [length]; rewrite L; reflexivity|].
    intros c' [<-|Hc']; [exact Hc|apply I; exact Hc'].
Qed.

Theorem law_iid_support_valid : forall k pop draws,
  NoDup (map fst pop) -> positive_pop pop -> pop <> [] ->
  (0 < prob (list_peqb draws) (law_iid pop k) <-> valid_iid (map fst pop) k draws = true).
Proof.
  intros k pop draws Hnd Hpos Hne. split.
  - intros H. apply prob_pos_inv in H. destruct H as (o & w & Hin & E & _).
    apply list_peqb_true_iff in E. subst o. apply valid_iid_iff. apply (law_iid_support k pop draws w Hin).
  - intros H. apply valid_iid_iff in H. destruct H as (<- & I).
    pose proof (positive_pop_sum pop Hpos Hne) as HW.
    clear Hne. induction draws as [|c1 o1 IH]; cbn [length].
    + cbn [law_iid]. rewrite prob_dret. reflexivity.
    + rewrite (prob_iid_cons pop (length o1) c1 o1 Hnd).
      assert (Hc1 : In c1 (map fst pop)) by (apply I; left; reflexivity).
      assert (Hw : 0 < lookupP pop c1) by (apply (Hpos c1); apply lookupP_in; exact Hc1).
      apply Qmult_lt_0_compat.
      * apply Qlt_shift_div_l; [exact HW|]. lra.
      * apply IH. intros c Hc. apply I. right. exact Hc.
Qed.

(* ------------------------------------------------------------------ *)
(** * name-Plackett-Luce and name-Cumulative ballots *)

Lemma ranking_eqb_rank_of : forall o t t', Permutation t t' ->
  ranking_eqb pcand Pos.eqb (rank_of o t) (rank_of o t') = true.
Proof.
  intros o t t' P. apply (Lib_sets.ranking_eqb_Forall2 pcand Pos.eqb Pos.eqb_spec).
  unfold rank_of. apply Forall2_app.
  - clear. induction o as [|c o IH]; [constructor|]. cbn [singletons map]. constructor; [|exact IH].
    split; apply incl_refl.
  - destruct t as [|c t]; destruct t' as [|c' t'].
    + constructor.
    + apply Permutation_nil in P. discriminate.
    + apply Permutation_sym, Permutation_nil in P. discriminate.
    + constructor; [|constructor]. split; intros x Hx.
      * apply (Permutation_in _ P Hx).
      * apply (Permutation_in _ (Permutation_sym P) Hx).
Qed.

Theorem name_pl_law : forall iv d b calls,
  NoDup (pi_cands iv) -> positive_pop (pi_int iv) ->
  pl_ballot iv (length (pi_cands iv)) d = inl (b, calls) ->
  hd_error calls = Some (GPL (pi_int iv) (length (pi_int iv))) /\
  ranking_eqb pcand Pos.eqb (rk b) (rk (pl_ballot_of iv (fst d))) = true /\
  wt b == 1 /\ sc b = [] /\
  valid_sample (map fst (pi_int iv)) (length (pi_int iv)) (fst d) = true /\
  prob (list_peqb (fst d)) (law_pl (pi_int iv) (length (pi_int iv))) ==
    pl_closed (lookupP (pi_int iv)) (qsum (map snd (pi_int iv))) (fst d) /\
  0 < prob (list_peqb (fst d)) (law_pl (pi_int iv) (length (pi_int iv))).
Proof.
  intros iv d b calls Hnd Hpos H.
  assert (Hk : Nat.min (length (pi_cands iv)) (length (pi_int iv)) = length (pi_int iv)).
  { unfold pi_cands. rewrite app_length, map_length. lia. }
  assert (Ht : (length (pi_cands iv) - length (pi_int iv))%nat = length (pi_zero iv)).
  { unfold pi_cands. rewrite app_length, map_length. lia. }
  apply pl_ballot_inv in H. rewrite Hk, Ht in H. destruct H as (Hv & Hcase).
  unfold pi_cands in Hnd. apply Lib_sets.NoDup_app_inv in Hnd. destruct Hnd as (Hkeys & Hz & _).
  pose proof Hv as Hv'. apply valid_sample_iff in Hv'. destruct Hv' as (L & N & I).
  assert (Hb : hd_error calls = Some (GPL (pi_int iv) (length (pi_int iv))) /\
               ranking_eqb pcand Pos.eqb (rk b) (rk (pl_ballot_of iv (fst d))) = true /\
               wt b == 1 /\ sc b = []).
  { destruct Hcase as [(Hz0 & -> & ->)|(_ & _ & Hvz & -> & ->)].
    - split; [reflexivity|]. split; [|split; reflexivity].
      unfold pl_ballot_of, unit_ballot, plain_ballot. cbn [rk].
      destruct (pi_zero iv); [|discriminate]. apply ranking_eqb_rank_of. constructor.
    - split; [reflexivity|]. split; [|split; reflexivity].
      unfold pl_ballot_of, unit_ballot, plain_ballot. cbn [rk]. apply ranking_eqb_rank_of.
      apply valid_sample_iff in Hvz. destruct Hvz as (Lz & Nz & Iz).
      apply NoDup_incl_length_perm; assumption. }
  destruct Hb as (B1 & B2 & B3 & B4).
  split; [exact B1|]. split; [exact B2|]. split; [exact B3|]. split; [exact B4|].
  split; [exact Hv|]. rewrite <- L. split.
  - apply law_pl_prob; assumption.
  - apply law_pl_prob_pos; assumption.
Qed.

Theorem law_name_pl_pushforward : forall iv (ev : gballot -> bool),
  prob ev (law_name_pl iv) ==
  prob (fun o => ev (pl_ballot_of iv o)) (law_pl (pi_int iv) (length (pi_int iv))).
Proof. intros iv ev. unfold law_name_pl. apply prob_dbind_dret. Qed.

Theorem law_name_pl_mass : forall iv, positive_pop (pi_int iv) -> mass (law_name_pl iv) == 1.
Proof.
  intros iv Hpos. unfold law_name_pl. rewrite mass_dbind_one; [|intros o q _; apply mass_dret].
  apply law_pl_mass; [exact Hpos|apply le_n].
Qed.

Theorem cumulative_law : forall iv nv d b calls,
  NoDup (map fst (pi_int iv)) -> positive_pop (pi_int iv) ->
  cumulative_ballot iv nv d = inl (b, calls) ->
  calls = [GIID (pi_int iv) nv] /\
  b = mkBallot [] 1 (count_scores d []) None None /\
  (forall c v, In (c, v) (sc b) -> v == Qnat (draw_count d c)) /\
  prob (list_peqb d) (law_iid (pi_int iv) nv) ==
    iid_closed (lookupP (pi_int iv)) (qsum (map snd (pi_int iv))) d /\
  (nv <> O -> 0 < prob (list_peqb d) (law_iid (pi_int iv) nv)).
Proof.
  intros iv nv d b calls Hnd Hpos H. pose proof H as H'. apply cumulative_ballot_wf in H'.
  destruct H' as (_ & _ & L & I & _ & _ & _ & Hs & _ & Hc).
  unfold cumulative_ballot in H.
  destruct (valid_iid (map fst (pi_int iv)) nv d) eqn:Ev; cbn [negb] in H; [|discriminate].
  injection H as Hb _. split; [exact Hc|]. split; [symmetry; exact Hb|].
  split; [intros c v Hcv; apply (Hs c v Hcv)|]. rewrite <- L. split.
  - apply law_iid_prob. exact Hnd.
  - intros Hn. apply law_iid_support_valid; try assumption.
    + intros E. rewrite E in I. destruct d as [|c d]; [exfalso; apply Hn; reflexivity|]. apply (I c). left. reflexivity.
    + rewrite L. exact Ev.
Qed.

Theorem law_cumulative_mass : forall iv nv,
  positive_pop (pi_int iv) -> pi_int iv <> [] -> mass (law_cumulative iv nv) == 1.
Proof.
  intros iv nv Hpos Hne. unfold law_cumulative.
  rewrite mass_dbind_one; [|intros o q _; apply mass_dret].
  apply law_iid_mass. pose proof (positive_pop_sum _ Hpos Hne) as HW. intros E. rewrite E in HW.
  apply (Qlt_irrefl 0). exact HW.
Qed.

(* ------------------------------------------------------------------ *)
(** * B5. name-Bradley-Terry chain: detailed balance *)

Lemma swap_adj_decomp : forall (A : Type) j (x : list A) a b,
  nth_error x j = Some a -> nth_error x (S j) = Some b ->
  exists l1 l2, x = l1 ++ a :: b :: l2 /\ swap_adj j x = l1 ++ b :: a :: l2 /\ length l1 = j.
Proof.
  intros A j. induction j as [|j IH]; intros x a b Ha Hb.
  - destruct x as [|a' [|b' l2]]; cbn in Ha, Hb; try discriminate.
    injection Ha as ->. injection Hb as ->. exists [], l2. repeat split.
  - destruct x as [|y x]; cbn [nth_error] in Ha, Hb; [discriminate|].
    destruct (IH x a b Ha Hb) as (l1 & l2 & -> & Hs & Hl). exists (y :: l1), l2.
    cbn [swap_adj app length]. rewrite Hs, Hl. repeat split.
Qed.

Lemma swap_adj_out : forall (A : Type) j (x : list A), nth_error x (S j) = None -> swap_adj j x = x.
Proof.
  intros A j. induction j as [|j IH]; intros x H.
  - destruct x as [|a [|b l]]; cbn in H; try reflexivity. discriminate.
  - destruct x as [|a x]; [reflexivity|]. cbn [nth_error] in H. cbn [swap_adj]. rewrite IH; [reflexivity|exact H].
Qed.

Lemma swap_adj_invol : forall (A : Type) j (x : list A), swap_adj j (swap_adj j x) = x.
Proof.
  intros A j. induction j as [|j IH]; intros x.
  - destruct x as [|a [|b l]]; reflexivity.
  - destruct x as [|a x]; [reflexivity|]. cbn [swap_adj]. rewrite IH. reflexivity.
Qed.

Lemma nth_error_mid : forall (A : Type) (l1 : list A) a b l2,
  nth_error (l1 ++ a :: b :: l2) (length l1) = Some a /\
  nth_error (l1 ++ a :: b :: l2) (S (length l1)) = Some b.
Proof.
  intros A l1 a b l2. induction l1 as [|y l1 IH]; cbn [app length nth_error]; [split; reflexivity|exact IH].
Qed.

Lemma nth_error_S_Some : forall (A : Type) (x : list A) j b,
  nth_error x (S j) = Some b -> exists a, nth_error x j = Some a.
Proof.
  intros A x j b H. destruct (nth_error x j) as [a|] eqn:E; [exists a; reflexivity|].
  apply nth_error_None in E. assert (nth_error x (S j) <> None) by congruence.
  apply nth_error_Some in H0. lia.
Qed.

Lemma make_pow_swap : forall l1 a b l2,
  make_pow (l1 ++ a :: b :: l2) * b == make_pow (l1 ++ b :: a :: l2) * a.
Proof.
  induction l1 as [|y l1 IH]; intros a b l2.
  - cbn [app make_pow length Qpow']. ring.
  - cbn [app make_pow]. rewrite !app_length. cbn [length].
    transitivity (Qpow' y (length l1 + S (S (length l2))) * (make_pow (l1 ++ a :: b :: l2) * b)); [ring|].
    rewrite IH. ring.
Qed.

Lemma Qmin1_le : forall q, q <= 1 -> Qmin1 q == q.
Proof.
  intros q H. unfold Qmin1. destruct (Qle_bool 1 q) eqn:E; [|reflexivity].
  apply Qle_bool_iff in E. apply Qle_antisym; assumption.
Qed.

Lemma Qmin1_ge : forall q, 1 <= q -> Qmin1 q = 1.
Proof. intros q H. unfold Qmin1. apply Qle_bool_iff in H. rewrite H. reflexivity. Qed.

Lemma Qmin1_idem : forall q, Qmin1 (Qmin1 q) = Qmin1 q.
Proof. intros q. unfold Qmin1. destruct (Qle_bool 1 q) eqn:E; [reflexivity|]. rewrite E. reflexivity. Qed.

Lemma div_lt1 : forall A B, 0 < A -> B / A < 1 -> B < A.
Proof.
  intros A B HA H. assert (E : B / A * A == B) by (field; lra).
  pose proof (Qmult_lt_compat_r (B / A) 1 A HA H) as H1. rewrite E in H1. lra.
Qed.

Lemma div_ge1 : forall A B, 0 < A -> 1 <= B / A -> A <= B.
Proof.
  intros A B HA H. assert (E : B / A * A == B) by (field; lra).
  assert (HA' : 0 <= A) by lra.
  pose proof (Qmult_le_compat_r 1 (B / A) A H HA') as H1. rewrite E in H1. lra.
Qed.

Lemma min1_balance : forall A B M1 M2,
  0 < A -> 0 < B -> M1 * B == M2 * A -> M1 * Qmin1 (B / A) == M2 * Qmin1 (A / B).
Proof.
  intros A B M1 M2 HA HB H.
  assert (HA0 : ~ A == 0) by lra. assert (HB0 : ~ B == 0) by lra.
  assert (E1 : M1 * (B / A) == M2) by (setoid_replace (M1 * (B / A)) with ((M1 * B) / A) by (field; exact HA0); rewrite H; field; exact HA0).
  assert (E2 : M2 * (A / B) == M1) by (setoid_replace (M2 * (A / B)) with ((M2 * A) / B) by (field; exact HB0); rewrite <- H; field; exact HB0).
  destruct (Qlt_le_dec (B / A) 1) as [Hlt|Hge].
  - rewrite (Qmin1_le (B / A)) by lra. rewrite E1.
    assert (Hgt : 1 <= A / B).
    { apply Qle_shift_div_l; [exact HB|]. pose proof (div_lt1 A B HA Hlt). lra. }
    rewrite (Qmin1_ge _ Hgt). ring.
  - rewrite (Qmin1_ge _ Hge).
    assert (Hle : A / B <= 1).
    { apply Qle_shift_div_r; [exact HB|]. pose proof (div_ge1 A B HA Hge). lra. }
    rewrite (Qmin1_le _ Hle), E2. ring.
Qed.

Theorem bt_detailed_balance : forall iv x j,
  (forall c, In c x -> 0 < lookupP iv c) ->
  bt_stat iv x * bt_accept iv x j == bt_stat iv (swap_adj j x) * bt_accept iv (swap_adj j x) j.
Proof.
  intros iv x j Hpos. destruct (nth_error x (S j)) as [b|] eqn:Eb.
  - destruct (nth_error_S_Some _ x j b Eb) as (a & Ea).
    destruct (swap_adj_decomp _ j x a b Ea Eb) as (l1 & l2 & Hx & Hs & Hl).
    unfold bt_accept. rewrite Ea, Eb, Hs. subst j.
    destruct (nth_error_mid _ l1 b a l2) as (-> & ->).
    unfold bt_stat. rewrite Hx, !map_app. cbn [map].
    apply min1_balance.
    + apply Hpos. rewrite Hx. apply in_or_app. right. left. reflexivity.
    + apply Hpos. rewrite Hx. apply in_or_app. right. right. left. reflexivity.
    + apply make_pow_swap.
  - rewrite (swap_adj_out _ j x Eb). reflexivity.
Qed.

(* the acceptance is a probability *)
Lemma bt_accept_range : forall iv x j,
  (forall c, In c x -> 0 < lookupP iv c) -> 0 <= bt_accept iv x j /\ bt_accept iv x j <= 1.
Proof.
  intros iv x j Hpos. unfold bt_accept.
  destruct (nth_error x j) as [a|] eqn:Ea; [|split; lra].
  destruct (nth_error x (S j)) as [b|] eqn:Eb; [|split; lra].
  assert (Ha : 0 < lookupP iv a) by (apply Hpos; apply (nth_error_In _ _ Ea)).
  assert (Hb : 0 < lookupP iv b) by (apply Hpos; apply (nth_error_In _ _ Eb)).
  assert (Hq : 0 < lookupP iv b / lookupP iv a) by (apply Qlt_shift_div_l; [exact Ha|lra]).
  unfold Qmin1. destruct (Qle_bool 1 (lookupP iv b / lookupP iv a)) eqn:E.
  - split; lra.
  - split; [lra|]. destruct (Qlt_le_dec (lookupP iv b / lookupP iv a) 1) as [H|H]; [lra|].
    apply Qle_bool_iff in H. congruence.
Qed.

(* ------------------------------------------------------------------ *)
(** * Stationarity from detailed balance, for chains that propose an adjacent swap uniformly *)

Section Stationary.
Variable A : Type.
Variable eqb : list A -> list A -> bool.
Hypothesis eqb_spec : forall a b, reflect (a = b) (eqb a b).
Variable states : list (list A).
Hypothesis states_nodup : NoDup states.
Hypothesis states_closed : forall j x, In x states -> In (swap_adj j x) states.
Variable acc : list A -> nat -> Q.
Variable m : nat.
Hypothesis m_pos : (0 < m)%nat.
Variable pi : list A -> Q.
Hypothesis balance : forall x j, In x states ->
  pi x * Qmin1 (acc x j) == pi (swap_adj j x) * Qmin1 (acc (swap_adj j x) j).

Lemma sum_pick : forall (g : list A -> Q) y, In y states ->
  qsum (map (fun x => g x * indic (eqb x y)) states) == g y.
Proof.
  intros g y Hy.
  transitivity (qsum (map (fun x => if eqb x y then g y else 0) states)).
  - apply qsum_map_ext_in. intros x _. unfold indic. destruct (eqb_spec x y) as [->|_]; ring.
  - rewrite (qsum_indicator eqb eqb_spec y (g y) states states_nodup).
    assert (E : existsb (fun c => eqb c y) states = true).
    { apply existsb_exists. exists y. split; [exact Hy|]. destruct (eqb_spec y y); [reflexivity|contradiction]. }
    rewrite E. reflexivity.
Qed.

Theorem swap_kernel_stationary : forall y, In y states ->
  qsum (map (fun x => pi x * swap_kernel eqb acc m x y) states) == pi y.
Proof.
  intros y Hy. unfold swap_kernel.
  transitivity (qsum (map (fun j => qsum (map (fun x =>
     pi x * ((1 / Qnat m) * (Qmin1 (acc x j) * indic (eqb (swap_adj j x) y) +
                             (1 - Qmin1 (acc x j)) * indic (eqb x y)))) states)) (seq 0 m))).
  - rewrite qsum_swap. apply qsum_map_ext_in. intros x _. rewrite <- qsum_map_scal.
    apply qsum_map_ext_in. intros j _. reflexivity.
  - transitivity (qsum (map (fun _ : nat => (1 / Qnat m) * pi y) (seq 0 m))).
    + apply qsum_map_ext_in. intros j _.
      transitivity ((1 / Qnat m) *
         (qsum (map (fun x => (pi x * Qmin1 (acc x j)) * indic (eqb x (swap_adj j y))) states) +
          qsum (map (fun x => (pi x * (1 - Qmin1 (acc x j))) * indic (eqb x y)) states))).
      * rewrite <- qsum_map_plus, <- qsum_map_scal. apply qsum_map_ext_in. intros x _.
        assert (E : eqb (swap_adj j x) y = eqb x (swap_adj j y)).
        { destruct (eqb_spec (swap_adj j x) y) as [E1|E1];
            destruct (eqb_spec x (swap_adj j y)) as [E2|E2]; try reflexivity.
          - exfalso. apply E2. rewrite <- E1. symmetry. apply swap_adj_invol.
          - exfalso. apply E1. rewrite E2. apply swap_adj_invol. }
        rewrite E. ring.
      * rewrite (sum_pick (fun x => pi x * Qmin1 (acc x j)) (swap_adj j y) (states_closed j y Hy)).
        rewrite (sum_pick (fun x => pi x * (1 - Qmin1 (acc x j))) y Hy).
        rewrite <- (balance y j Hy). ring.
    + rewrite qsum_map_const, seq_length. field. apply Qnat_neq0. exact m_pos.
Qed.

End Stationary.

Theorem bt_mcmc_stationary : forall iv seed m y,
  NoDup seed -> (forall c, In c seed -> 0 < lookupP iv c) -> (0 < m)%nat ->
  Permutation y seed ->
  qsum (map (fun x => bt_stat iv x * swap_kernel list_peqb (bt_accept iv) m x y) (perms pcand seed))
  == bt_stat iv y.
Proof.
  intros iv seed m y Hnd Hpos Hm Hy.
  apply (swap_kernel_stationary pcand list_peqb).
  - intros a b. destruct (list_peqb a b) eqn:E; constructor.
    + apply list_peqb_true_iff. exact E.
    + apply list_peqb_false_iff. exact E.
  - apply perms_NoDup. exact Hnd.
  - intros j x Hx. apply perms_spec. apply perms_spec in Hx.
    eapply Permutation_trans; [apply swap_adj_perm|exact Hx].
  - exact Hm.
  - intros x j Hx. apply perms_spec in Hx.
    assert (Hp : forall c, In c x -> 0 < lookupP iv c).
    { intros c Hc. apply Hpos. apply (Permutation_in _ Hx Hc). }
    assert (Hp' : forall c, In c (swap_adj j x) -> 0 < lookupP iv c).
    { intros c Hc. apply Hp. apply (Permutation_in _ (swap_adj_perm _ j x) Hc). }
    rewrite (Qmin1_le _ (proj2 (bt_accept_range iv x j Hp))).
    rewrite (Qmin1_le _ (proj2 (bt_accept_range iv (swap_adj j x) j Hp'))).
    apply bt_detailed_balance. exact Hp.
  - apply perms_spec. exact Hy.
Qed.

(* ------------------------------------------------------------------ *)
(** * B6. slate-Bradley-Terry chain *)

Definition nonown (own : bloc) (l : list bloc) : nat :=
  length (filter (fun y => negb (Pos.eqb y own)) l).

Lemma nonown_perm : forall own l l', Permutation l l' -> nonown own l = nonown own l'.
Proof.
  intros own l l' P. unfold nonown. induction P as [|x l l' _ IH|x y l|l l' l'' _ IH1 _ IH2].
  - reflexivity.
  - cbn [filter]. destruct (negb (Pos.eqb x own)); cbn [length]; rewrite IH; reflexivity.
  - cbn [filter]. destruct (negb (Pos.eqb x own)); destruct (negb (Pos.eqb y own)); reflexivity.
  - rewrite IH1. exact IH2.
Qed.

Lemma own_above_cons : forall own x t,
  own_above own (x :: t) = ((if Pos.eqb x own then nonown own t else O) + own_above own t)%nat.
Proof. reflexivity. Qed.

Lemma own_below_cons : forall own x t,
  own_below own (x :: t) = ((if Pos.eqb x own then O else count_bloc own t) + own_below own t)%nat.
Proof. reflexivity. Qed.

Lemma own_above_app : forall own l1 r r', Permutation r r' ->
  (own_above own (l1 ++ r) + own_above own r' = own_above own (l1 ++ r') + own_above own r)%nat.
Proof.
  intros own l1 r r' P. induction l1 as [|x l1 IH]; cbn [app]; [lia|].
  rewrite !own_above_cons, (nonown_perm own (l1 ++ r) (l1 ++ r') (Permutation_app_head l1 P)). lia.
Qed.

Lemma own_below_app : forall own l1 r r', Permutation r r' ->
  (own_below own (l1 ++ r) + own_below own r' = own_below own (l1 ++ r') + own_below own r)%nat.
Proof.
  intros own l1 r r' P. induction l1 as [|x l1 IH]; cbn [app]; [lia|].
  rewrite !own_below_cons, (count_bloc_perm own (l1 ++ r) (l1 ++ r') (Permutation_app_head l1 P)). lia.
Qed.

Lemma nonown_cons : forall own x l,
  nonown own (x :: l) = ((if Pos.eqb x own then O else 1) + nonown own l)%nat.
Proof. intros own x l. unfold nonown. cbn [filter]. destruct (Pos.eqb x own); reflexivity. Qed.

(* own directly above another slate: the swap moves one pair from "above" to "below" *)
Lemma own_counts_swap_own : forall own l1 b l2, b <> own ->
  own_above own (l1 ++ own :: b :: l2) = S (own_above own (l1 ++ b :: own :: l2)) /\
  own_below own (l1 ++ b :: own :: l2) = S (own_below own (l1 ++ own :: b :: l2)).
Proof.
  intros own l1 b l2 Hne.
  pose proof (own_above_app own l1 (own :: b :: l2) (b :: own :: l2) (perm_swap _ _ _)) as HA.
  pose proof (own_below_app own l1 (own :: b :: l2) (b :: own :: l2) (perm_swap _ _ _)) as HB.
  rewrite !own_above_cons, !nonown_cons in HA. rewrite !own_below_cons, !count_bloc_cons in HB.
  rewrite Pos.eqb_refl in HA, HB. apply Pos.eqb_neq in Hne. rewrite Hne in HA, HB.
  rewrite Pos.eqb_sym in Hne. rewrite ?Hne in HB. lia.
Qed.

Lemma own_counts_swap_other : forall own l1 a b l2, a <> own -> b <> own ->
  own_above own (l1 ++ a :: b :: l2) = own_above own (l1 ++ b :: a :: l2) /\
  own_below own (l1 ++ a :: b :: l2) = own_below own (l1 ++ b :: a :: l2).
Proof.
  intros own l1 a b l2 Ha Hb.
  pose proof (own_above_app own l1 (a :: b :: l2) (b :: a :: l2) (perm_swap _ _ _)) as HA.
  pose proof (own_below_app own l1 (a :: b :: l2) (b :: a :: l2) (perm_swap _ _ _)) as HB.
  rewrite !own_above_cons in HA. rewrite !own_below_cons, !count_bloc_cons in HB.
  apply Pos.eqb_neq in Ha. apply Pos.eqb_neq in Hb. rewrite Ha, Hb in HA, HB.
  rewrite Pos.eqb_sym in Ha. rewrite Pos.eqb_sym in Hb. rewrite ?Ha, ?Hb in HB. lia.
Qed.

(* the balance equation with the acceptance values as coded; holds for every cohesion c <> 0 *)
Theorem slate_balance_raw : forall own c t j,
  ~ c == 0 ->
  slate_stat own c t * slate_accept own c t j ==
  slate_stat own c (swap_adj j t) * slate_accept own c (swap_adj j t) j.
Proof.
  intros own c t j Hc. destruct (nth_error t (S j)) as [b|] eqn:Eb.
  - destruct (nth_error_S_Some _ t j b Eb) as (a & Ea).
    destruct (swap_adj_decomp _ j t a b Ea Eb) as (l1 & l2 & Ht & Hs & Hl).
    unfold slate_accept. rewrite Ea, Eb, Hs. subst j.
    destruct (nth_error_mid _ l1 b a l2) as (-> & ->). rewrite Ht. unfold slate_stat.
    destruct (Pos.eqb_spec a b) as [->|Hab]; [rewrite ?Pos.eqb_refl; reflexivity|].
    assert (Hba : Pos.eqb b a = false) by (apply Pos.eqb_neq; congruence).
    rewrite Hba. cbn [negb andb].
    destruct (Pos.eqb_spec a own) as [->|Ha]; destruct (Pos.eqb_spec b own) as [->|Hb].
    + contradiction.
    + destruct (own_counts_swap_own own l1 b l2 Hb) as (-> & ->). cbn [Qpow']. field. exact Hc.
    + destruct (own_counts_swap_own own l1 a l2 Ha) as (-> & ->). cbn [Qpow']. field. exact Hc.
    + destruct (own_counts_swap_other own l1 a b l2 Ha Hb) as (-> & ->). reflexivity.
  - rewrite (swap_adj_out _ j t Eb). reflexivity.
Qed.

Lemma slate_accept_le1 : forall own c t j, 1 # 2 <= c -> slate_accept own c t j <= 1.
Proof.
  intros own c t j Hc. unfold slate_accept.
  destruct (nth_error t j) as [a|]; [|lra]. destruct (nth_error t (S j)) as [b|]; [|lra].
  destruct (negb (Pos.eqb a b) && Pos.eqb a own); [|lra].
  apply Qle_shift_div_r; lra.
Qed.

(* as probabilities (a uniform number on [0,1) is compared with the acceptance value, so values
   above 1 act as 1): detailed balance holds for every cohesion in [1/2, 1] *)
Theorem slate_detailed_balance : forall own c t j,
  1 # 2 <= c ->
  slate_stat own c t * Qmin1 (slate_accept own c t j) ==
  slate_stat own c (swap_adj j t) * Qmin1 (slate_accept own c (swap_adj j t) j).
Proof.
  intros own c t j Hc.
  rewrite (Qmin1_le _ (slate_accept_le1 own c t j Hc)).
  rewrite (Qmin1_le _ (slate_accept_le1 own c (swap_adj j t) j Hc)).
  apply slate_balance_raw. lra.
Qed.

(* ... and 1/2 is the exact threshold: on the two-slate type [own; opp] the balance equation
   between actual transition probabilities holds iff c >= 1/2 *)
Theorem slate_balance_threshold : forall own opp c,
  own <> opp -> 0 < c -> c <= 1 ->
  (slate_stat own c [own; opp] * Qmin1 (slate_accept own c [own; opp] 0) ==
   slate_stat own c [opp; own] * Qmin1 (slate_accept own c [opp; own] 0)
   <-> 1 # 2 <= c).
Proof.
  intros own opp c Hne H0 H1.
  assert (E1 : Pos.eqb opp own = false) by (apply Pos.eqb_neq; congruence).
  assert (E2 : Pos.eqb own opp = false) by (apply Pos.eqb_neq; exact Hne).
  unfold slate_stat, slate_accept. cbn [nth_error own_above own_below filter length count_bloc].
  rewrite !Pos.eqb_refl, ?E1, ?E2. cbn [negb andb filter length Nat.add Qpow'].
  rewrite ?E1, ?E2. cbn [negb filter length Nat.add Qpow'].
  assert (Hone : Qmin1 1 = 1) by reflexivity. rewrite Hone.
  split.
  - intros H. destruct (Qlt_le_dec c (1 # 2)) as [Hlt|Hge]; [|exact Hge]. exfalso.
    assert (Hodds : 1 <= (1 - c) / c) by (apply Qle_shift_div_l; lra).
    rewrite (Qmin1_ge _ Hodds) in H. lra.
  - intros Hge. assert (Hodds : (1 - c) / c <= 1) by (apply Qle_shift_div_r; lra).
    rewrite (Qmin1_le _ Hodds). field. lra.
Qed.

(* for two slates the stationary weight is C15's slate_weight *)
Theorem slate_stat_two : forall own opp c t,
  own <> opp -> (forall x, In x t -> x = own \/ x = opp) ->
  slate_stat own c t = slate_weight c own opp t.
Proof.
  intros own opp c t Hne Ht. unfold slate_stat, slate_weight.
  rewrite <- !successes_above_pairs.
  assert (Hn : forall l, (forall x, In x l -> x = own \/ x = opp) -> nonown own l = count_bloc opp l).
  { induction l as [|x l IH]; intros Hl; [reflexivity|].
    rewrite nonown_cons, count_bloc_cons, IH by (intros y Hy; apply Hl; right; exact Hy).
    destruct (Hl x (or_introl eq_refl)) as [-> | ->].
    - rewrite Pos.eqb_refl. apply Pos.eqb_neq in Hne. rewrite Pos.eqb_sym in Hne. rewrite Hne. reflexivity.
    - rewrite Pos.eqb_refl. assert (E : Pos.eqb opp own = false) by (apply Pos.eqb_neq; congruence).
      rewrite E. reflexivity. }
  assert (E : own_above own t = successes own opp t /\ own_below own t = successes opp own t).
  { induction t as [|x t IH]; [split; reflexivity|].
    destruct IH as (IH1 & IH2); [intros y Hy; apply Ht; right; exact Hy|].
    rewrite own_above_cons, own_below_cons, !successes_cons, IH1, IH2.
    rewrite Hn by (intros y Hy; apply Ht; right; exact Hy).
    assert (E1 : Pos.eqb opp own = false) by (apply Pos.eqb_neq; congruence).
    assert (E2 : Pos.eqb own opp = false) by (apply Pos.eqb_neq; exact Hne).
    destruct (Ht x (or_introl eq_refl)) as [-> | ->]; rewrite ?Pos.eqb_refl, ?E1, ?E2; split; reflexivity. }
  destruct E as (-> & ->). reflexivity.
Qed.

(* refutation below 1/2: cohesion 1/4, slates 1 (own) and 2 *)
Theorem slate_mcmc_refuted :
  exists (own : bloc) (c : Q) (t : list bloc) (j : nat),
    0 < c /\ c < 1 /\
    1 < slate_accept own c t j /\
    ~ (slate_stat own c t * Qmin1 (slate_accept own c t j) ==
       slate_stat own c (swap_adj j t) * Qmin1 (slate_accept own c (swap_adj j t) j)) /\
    (* hence the documented weight is not stationary: 2 states, 1 proposal position *)
    ~ (qsum (map (fun x => slate_stat own c x * swap_kernel list_peqb (slate_accept own c) 1 x t)
                 (arrangements_ms t)) == slate_stat own c t).
Proof.
  exists 1%positive, (1 # 4), [1%positive; 2%positive], O.
  split; [reflexivity|]. split; [reflexivity|]. split; [vm_compute; reflexivity|].
  split; intros H; vm_compute in H; discriminate H.
Qed.

(* ------------------------------------------------------------------ *)
(** * B4. the exact samplers draw from the C15 tables *)

Lemma select_table : forall (tbl : list (list pcand * Q)) r v,
  NoDup (map fst tbl) -> In (r, v) tbl ->
  qsum (map snd (filter (fun e : list pcand * Q => list_peqb r (fst e)) tbl)) == v.
Proof.
  induction tbl as [|[r0 v0] tbl IH]; intros r v Hnd Hin; [destruct Hin|].
  cbn [map fst] in Hnd. inversion Hnd as [|x l Hnotin Hnd']; subst. cbn [filter fst].
  destruct Hin as [E|Hin].
  - injection E as -> ->. rewrite list_peqb_refl. cbn [map snd]. rewrite qsum_cons.
    rewrite filter_all_false.
    + cbn [map]. rewrite qsum_nil. ring.
    + intros [r' v'] Hin'. cbn [fst]. apply list_peqb_false_iff. intros <-. apply Hnotin.
      apply in_map_iff. exists (r, v'). split; [reflexivity|exact Hin'].
  - destruct (list_peqb r r0) eqn:E.
    + apply list_peqb_true_iff in E. subst r0. exfalso. apply Hnotin.
      apply in_map_iff. exists (r, v). split; [reflexivity|exact Hin].
    + apply IH; assumption.
Qed.

Theorem exact_bt_table_law : forall d zero n draws bs calls (x : pcand -> Q) (all : list (list pcand)),
  NoDup (map fst d) ->
  (forall c s, In (c, s) d -> 0 < s) ->
  (forall c s, In (c, s) d -> x c = s) ->
  enumerates all (map fst d) ->
  table_bloc (bt_pdf d) zero n draws = inl (bs, calls) ->
  calls = [GTable (bt_pdf d) n] /\
  qsum (map snd (bt_pdf d)) == 1 /\ mass (categorical (bt_pdf d)) == 1 /\
  (forall r v, In (r, v) (bt_pdf d) ->
     Permutation r (map fst d) /\
     v == bt_weight x r / qsum (map (bt_weight x) all) /\
     prob (list_peqb r) (categorical (bt_pdf d)) == v) /\
  (forall r, In r draws -> 0 < prob (list_peqb r) (categorical (bt_pdf d))).
Proof.
  intros d zero n draws bs calls x all Hnd Hpos Hx Hall H. apply table_bloc_ok in H.
  destruct H as (_ & _ & Hc & _ & Hd).
  destruct (bt_sums_to_one d Hpos) as (Hsum & _ & _ & Hvpos & Hndk). specialize (Hndk Hnd).
  destruct (bt_pdf_correct d x all Hnd Hpos Hx Hall) as (_ & Hent).
  assert (Hp : forall r v, In (r, v) (bt_pdf d) -> prob (list_peqb r) (categorical (bt_pdf d)) == v).
  { intros r v Hin. rewrite prob_categorical, Hsum, (select_table _ r v Hndk Hin). field. }
  split; [exact Hc|]. split; [exact Hsum|]. split.
  { apply mass_categorical. rewrite Hsum. discriminate. }
  split.
  - intros r v Hin. destruct (Hent r v Hin) as (P & E). split; [exact P|]. split; [exact E|]. apply Hp. exact Hin.
  - intros r Hr. destruct (Hd r Hr) as (v & Hin & Hv). rewrite (Hp r v Hin). exact Hv.
Qed.

(* ------------------------------------------------------------------ *)
(** * B8. AlternatingCrossover: the p vector is misaligned from the second ballot on *)

Lemma combine_fst_snd : forall (A B : Type) (l : list (A * B)), combine (map fst l) (map snd l) = l.
Proof.
  intros A B l. induction l as [|[a b] l IH]; [reflexivity|]. cbn [map fst snd combine]. rewrite IH. reflexivity.
Qed.

Theorem ac_first_ballot_pl : forall ivb ivo : list (pcand * Q),
  ac_calls (map fst ivb) (map fst ivo) (map snd ivb) (map snd ivo) =
  [GPL ivb (length ivb); GPL ivo (length ivo)].
Proof.
  intros ivb ivo. unfold ac_calls. rewrite !combine_fst_snd, !map_length. reflexivity.
Qed.

Theorem ac_internal_pl_refuted :
  exists (ivb ivo : list (pcand * Q)) (draws : list (list pcand * list pcand)) bs calls pop,
    NoDup (map fst ivb) /\ (forall c s, In (c, s) ivb -> 0 < s) /\ qsum (map snd ivb) == 1 /\
    ac_bloc 0 0 (map fst ivb) (map fst ivo) (map snd ivb) (map snd ivo) draws = inl (bs, calls) /\
    (* first ballot: the interval itself *)
    nth_error calls 0 = Some (GPL ivb (length ivb)) /\
    (* second ballot: same candidates, but candidate 2 carries candidate 1's support *)
    nth_error calls 2 = Some (GPL pop (length ivb)) /\
    Permutation (map fst pop) (map fst ivb) /\
    ~ lookupP pop 2%positive == lookupP ivb 2%positive /\
    lookupP pop 2%positive == lookupP ivb 1%positive.
Proof.
  exists [(1%positive, 3 # 4); (2%positive, 1 # 4)], [(3%positive, 1)],
         [([2%positive; 1%positive], [3%positive]); ([2%positive; 1%positive], [3%positive])].
  eexists. eexists. exists [(2%positive, 3 # 4); (1%positive, 1 # 4)].
  split; [repeat constructor; cbn; intuition discriminate|].
  split; [intros c s [E|[E|[]]]; injection E as _ <-; reflexivity|].
  split; [reflexivity|]. split; [vm_compute; reflexivity|].
  split; [reflexivity|]. split; [reflexivity|]. split; [apply perm_swap|].
  split; [intros H; vm_compute in H; discriminate H|reflexivity].
Qed.

(* ------------------------------------------------------------------ *)
(** * B3. slate ballot types: the loop follows "draw by cohesion, renormalise, shuffle at zero" *)

(* one iteration of the loop, given the bin of the flip *)
Theorem type_loop_step : forall flip rest blocs values sizes acc sh i b,
  which_bin (bins_of values) flip 0 = Some i -> nth_error blocs i = Some b ->
  type_loop (flip :: rest) blocs values sizes acc sh =
  (if Nat.eqb (count_bloc b (b :: acc)) (size_of sizes b)
   then
     if Qeq_bool (qsum (remove_nth i values)) 0 && nonempty (remove_nth i values)
     then match sh with
          | Some s => ok (rev (b :: acc) ++ s, [GShuffle (type_multiset sizes (remove_nth i blocs))])
          | None => err EScript
          end
     else type_loop rest (remove_nth i blocs)
            (map (fun v => v / qsum (remove_nth i values)) (remove_nth i values)) sizes (b :: acc) sh
   else type_loop rest blocs values sizes (b :: acc) sh).
Proof.
  intros flip rest blocs values sizes acc sh i b Hw Hb. cbn [type_loop]. rewrite Hw, Hb. reflexivity.
Qed.

(* after a slate is removed the remaining values are rescaled to sum to one *)
Theorem renormalised_sum_one : forall values' : list Q,
  ~ qsum values' == 0 -> qsum (map (fun v => v / qsum values') values') == 1.
Proof.
  intros values' H. rewrite (qsum_map_div (fun v => v) (qsum values') values'), map_id. field. exact H.
Qed.

Lemma dbind_intro : forall {A B} (d : dist A) (f : A -> dist B) a w b q,
  In (a, w) d -> In (b, q) (f a) -> In (b, w * q) (dbind d f).
Proof.
  intros A B d f a w b q. induction d as [|aw d IH]; intros Ha Hb; [destruct Ha|].
  rewrite dbind_cons. apply in_or_app. destruct Ha as [->|Ha].
  - left. unfold dscale. apply in_map_iff. exists (b, q). split; [reflexivity|exact Hb].
  - right. apply IH; assumption.
Qed.

Lemma nth_error_combine_seq : forall (vs : list Q) s i v,
  nth_error vs i = Some v -> In ((s + i)%nat, v) (combine (seq s (length vs)) vs).
Proof.
  induction vs as [|x vs IH]; intros s [|i] v H; cbn [nth_error] in H; try discriminate.
  - injection H as <-. cbn [length seq combine]. left. rewrite Nat.add_0_r. reflexivity.
  - cbn [length seq combine]. right. replace (s + S i)%nat with (S s + i)%nat by lia. apply IH. exact H.
Qed.

Lemma map_snd_combine_seq : forall (vs : list Q) s, map snd (combine (seq s (length vs)) vs) = vs.
Proof.
  induction vs as [|x vs IH]; intros s; [reflexivity|]. cbn [length seq combine map snd]. rewrite IH. reflexivity.
Qed.

Lemma qsum_ge_member : forall l v, Forall (fun x => 0 <= x) l -> In v l -> v <= qsum l.
Proof.
  induction l as [|x l IH]; intros v Hnn Hin; [destruct Hin|].
  inversion Hnn as [|y l' Hx Hnn']; subst. rewrite qsum_cons.
  pose proof (qsum_nonneg l Hnn') as Hl. destruct Hin as [<-|Hin]; [lra|].
  pose proof (IH v Hnn' Hin). lra.
Qed.

Definition types_branch (n : nat) (blocs : list bloc) (values : list Q) (sizes : list (bloc * nat))
           (acc : list bloc) (i : nat) (b : bloc) : dist (list bloc) :=
  if Nat.eqb (count_bloc b (b :: acc)) (size_of sizes b)
  then
    if Qeq_bool (qsum (remove_nth i values)) 0 && nonempty (remove_nth i values)
    then dbind (uniform_of (arrangements_ms (type_remaining sizes (remove_nth i blocs))))
               (fun s => dret (rev (b :: acc) ++ s))
    else law_types n (remove_nth i blocs)
           (map (fun v => v / qsum (remove_nth i values)) (remove_nth i values)) sizes (b :: acc)
  else law_types n blocs values sizes (b :: acc).

Lemma law_types_S : forall n blocs values sizes acc,
  law_types (S n) blocs values sizes acc =
  dbind (categorical (combine (seq 0 (length values)) values)) (fun i =>
    match nth_error blocs i with
    | None => []
    | Some b => types_branch n blocs values sizes acc i b
    end).
Proof. reflexivity. Qed.

Lemma law_types_step_intro : forall n blocs values sizes acc i v b t w,
  nth_error values i = Some v -> nth_error blocs i = Some b ->
  In (t, w) (types_branch n blocs values sizes acc i b) ->
  In (t, (v / qsum values) * w) (law_types (S n) blocs values sizes acc).
Proof.
  intros n blocs values sizes acc i v b t w Hv Hb Hin. rewrite law_types_S.
  apply (dbind_intro _ _ i (v / qsum values) t w).
  - unfold categorical. apply in_map_iff. exists (i, v). cbn [fst snd].
    rewrite map_snd_combine_seq. split; [reflexivity|]. apply (nth_error_combine_seq values 0 i v Hv).
  - cbv beta. rewrite Hb. exact Hin.
Qed.

(* every type the loop returns is an outcome of positive probability of [law_types] *)
Theorem law_types_support : forall sizes flips blocs values acc sh t calls,
  Forall (fun v => 0 <= v) values ->
  (forall pop, In (GShuffle pop) calls -> exists s, sh = Some s /\ Permutation s pop) ->
  type_loop flips blocs values sizes acc sh = inl (t, calls) ->
  exists w, In (t, w) (law_types (length flips) blocs values sizes acc) /\ 0 < w.
Proof.
  intros sizes flips. induction flips as [|flip rest IH]; intros blocs values acc sh t calls Hnn Hsh H.
  - cbn [type_loop] in H. injection H as <- <-. exists 1. split; [left; reflexivity|reflexivity].
  - destruct (which_bin (bins_of values) flip 0) as [i|] eqn:Ew; [|cbn [type_loop] in H; rewrite Ew in H; discriminate].
    destruct (nth_error blocs i) as [b|] eqn:Eb; [|cbn [type_loop] in H; rewrite Ew, Eb in H; discriminate].
    rewrite (type_loop_step flip rest blocs values sizes acc sh i b Ew Eb) in H.
    apply which_bin_spec in Ew. destruct Ew as (v & Ev & _ & _ & Hvpos).
    assert (HW : 0 < qsum values).
    { pose proof (qsum_ge_member values v Hnn (nth_error_In _ _ Ev)). lra. }
    assert (Hstep : 0 < v / qsum values) by (apply Qlt_shift_div_l; [exact HW|lra]).
    cbn [length].
    assert (Hbranch : exists w, In (t, w) (types_branch (length rest) blocs values sizes acc i b) /\ 0 < w).
    { unfold types_branch.
      destruct (Nat.eqb (count_bloc b (b :: acc)) (size_of sizes b)).
      - destruct (Qeq_bool (qsum (remove_nth i values)) 0 && nonempty (remove_nth i values)) eqn:Ez.
        + destruct sh as [s|]; [|discriminate]. injection H as <- <-.
          destruct (Hsh _ (or_introl eq_refl)) as (s' & Es & Ps). injection Es as <-.
          change (type_multiset sizes (remove_nth i blocs)) with (type_remaining sizes (remove_nth i blocs)) in Ps.
          set (arr := arrangements_ms (type_remaining sizes (remove_nth i blocs))).
          assert (Hs : In s arr) by (apply arrangements_spec; exact Ps).
          exists ((1 / Qnat (length arr)) * 1). split.
          * apply (dbind_intro _ _ s). 
            -- unfold uniform_of. apply in_map_iff. exists s. split; [reflexivity|exact Hs].
            -- left. reflexivity.
          * assert (Hl : (0 < length arr)%nat) by (destruct arr; [destruct Hs|cbn; lia]).
            pose proof (Qnat_pos _ Hl) as Hp.
            assert (0 < 1 / Qnat (length arr)) by (apply Qlt_shift_div_l; [exact Hp|lra]). lra.
        + apply (IH _ _ _ _ _ _) in H; [exact H| |exact Hsh].
          apply Forall_forall. intros w Hw. apply in_map_iff in Hw. destruct Hw as (w0 & <- & Hw0).
          assert (Hnn' : Forall (fun v => 0 <= v) (remove_nth i values)).
          { destruct (nth_error_decomp _ values i v Ev) as (m1 & m2 & Hv & _ & ->).
            rewrite Hv in Hnn. apply Forall_app in Hnn. destruct Hnn as [N1 N2].
            inversion N2; subst. apply Forall_app. split; assumption. }
          pose proof (qsum_nonneg _ Hnn') as Hge.
          assert (Hw0' : 0 <= w0) by (rewrite Forall_forall in Hnn'; apply Hnn'; exact Hw0).
          destruct (remove_nth i values) as [|x xs] eqn:Er; [destruct Hw0|].
          cbn [nonempty] in Ez. rewrite andb_true_r in Ez. apply Lib_rk.Qeq_bool_false_iff in Ez.
          assert (Hp : 0 < qsum (x :: xs)).
          { destruct (Qlt_le_dec 0 (qsum (x :: xs))) as [Hp|Hq]; [exact Hp|].
            exfalso. apply Ez. apply Qle_antisym; assumption. }
          apply Qle_shift_div_l; [exact Hp|]. lra.
      - apply (IH _ _ _ _ _ _ Hnn Hsh H). }
    destruct Hbranch as (w & Hin & Hw).
    exists ((v / qsum values) * w). split.
    + apply (law_types_step_intro (length rest) blocs values sizes acc i v b t w Ev Eb Hin).
    + apply Qmult_lt_0_compat; assumption.
Qed.

(* ------------------------------------------------------------------ *)
(** * B4 (slate): the exact slate-Bradley-Terry sampler's table *)

Theorem exact_slate_bt_table_law : forall (own opp : bloc) (a b : nat) (sizes : list (bloc * nat)) c all,
  own <> opp ->
  sizes = [(own, a); (opp, b)] \/ sizes = [(opp, b); (own, a)] ->
  0 <= c -> c <= 1 ->
  enumerates all (repeat own a ++ repeat opp b) ->
  qsum (map snd (slate_bt_pdf sizes own opp c)) == 1 /\
  mass (categorical (slate_bt_pdf sizes own opp c)) == 1 /\
  (forall t, Permutation t (repeat own a ++ repeat opp b) ->
     exists v, In (t, v) (slate_bt_pdf sizes own opp c)) /\
  (forall t v, In (t, v) (slate_bt_pdf sizes own opp c) ->
     Permutation t (repeat own a ++ repeat opp b) /\
     v == slate_weight c own opp t / qsum (map (slate_weight c own opp) all) /\
     slate_weight c own opp t = slate_stat own c t /\
     prob (list_peqb t) (categorical (slate_bt_pdf sizes own opp c)) == v).
Proof.
  intros own opp a b sizes c all Hne Hs H0 H1 Hall.
  destruct (slate_bt_two own opp a b sizes Hne Hs c all Hall) as (Hex & Hent).
  destruct (slate_bt_two_sums_to_one own opp a b sizes Hne Hs c H0 H1) as (Hsum & _ & Hnd & _).
  split; [exact Hsum|]. split.
  { apply mass_categorical. rewrite Hsum. discriminate. }
  split; [exact Hex|].
  intros t v Hin. destruct (Hent t v Hin) as (P & _ & E). split; [exact P|]. split; [exact E|]. split.
  - symmetry. apply slate_stat_two; [exact Hne|]. intros x Hx.
    apply (Permutation_in _ P) in Hx. apply in_app_or in Hx.
    destruct Hx as [Hx|Hx]; apply repeat_spec in Hx; [left|right]; exact Hx.
  - rewrite prob_categorical, Hsum, (select_table _ t v Hnd Hin). field.
Qed.
