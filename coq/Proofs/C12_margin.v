(* Proofs/C12_margin.v — C12, the utility-level readings of "first-place, Borda and pairwise totals
   are unchanged by expanding ties" and "no removed candidate appears":
   1. the library's own head-to-head count [h2h] counts a shared position fully for BOTH directions,
      so only the MARGIN h2h a c - h2h c a is invariant under expand_tied_ballot /
      resolve_profile_ties (the individual counts are refuted);
   2. first_place_votes / borda_scores of the resolved PROFILE: they depend on [cands p'], which
      resolve_profile_ties takes over from the tied profile (library fix "resolve_profile_ties keeps
      the profile's candidate list"; only an EMPTY list is re-inferred from the positive-weight
      ballots, and then no score dictionary of the tied profile exists unless it has no ballot):
      invariant, without premise on the candidates;
   3. the score dictionaries of a remove_cand output have no removed candidate as key;
   4. per ballot: completing to a fixed candidate list commutes with the expansion as far as
      positional scores go; add_missing_ballot keeps the scores of the listed candidates, the
      first-place scores, the head-to-head counts of pairs with a listed member, the margins of
      pairs of candidates; add_missing is score-idempotent at profile level. *)
From VK Require Import Base Core Pairwise EditSpec ExpandPairSpec.
From VK.Spec Require Import ScoreSpec.
From VK.Proofs Require Import Lib_sets Lib_rk Lib_condense Lib_condense12 C04_scoring
  C12_edit C12_expand C12_scores C12_pairwise C12_profile.
From Coq Require Import Permutation Lia Lqa Setoid Morphisms.

Section Margin.
Variable cand : Type.
Variable ceqb : cand -> cand -> bool.
Hypothesis ceqb_spec : forall a b, reflect (a = b) (ceqb a b).

Notation cset := (cset cand).
Notation ranking := (ranking cand).
Notation ballot := (ballot cand).
Notation profile := (profile cand).
Notation scores := (scores cand).
Notation memb := (memb cand ceqb).
Notation flat := (flat cand).
Notation set_diff := (set_diff cand ceqb).
Notation ranking_eqb := (ranking_eqb cand ceqb).
Notation singletons := (singletons cand).
Notation perms := (perms cand).
Notation expand_ranking := (expand_ranking cand).
Notation tie_divisor := (tie_divisor cand).
Notation expand_tied_ballot := (expand_tied_ballot cand).
Notation resolve_profile_ties := (resolve_profile_ties cand ceqb).
Notation condense_bs := (condense_bs cand ceqb).
Notation add_missing_ballot := (add_missing_ballot cand ceqb).
Notation add_missing := (add_missing cand ceqb).
Notation with_missing := (with_missing cand ceqb).
Notation group_allocs := (group_allocs cand).
Notation alloc_of := (alloc_of cand ceqb).
Notation score_of := (score_of cand ceqb).
Notation score_rankings := (score_rankings cand ceqb).
Notation first_place_votes := (first_place_votes cand ceqb).
Notation borda_scores := (borda_scores cand ceqb).
Notation prefers := (prefers cand ceqb).
Notation h2h := (h2h cand ceqb).
Notation pair_share := (pair_share cand ceqb).
Notation nodup_groups := (nodup_groups cand).

Local Notation memb_In := (Lib_sets.memb_In cand ceqb ceqb_spec).
Local Notation memb_false_iff := (Lib_sets.memb_false_iff cand ceqb ceqb_spec).

(* ================================================================== *)
(** * 1. the head-to-head margin *)

Definition ind01 (b : bool) : Q := if b then 1 else 0.

(* the pair shares differ by exactly what the library's own test says on the tied ranking *)
Lemma pair_share_margin : forall (r : ranking) a c,
  pair_share r a c - pair_share r c a == ind01 (prefers a c r) - ind01 (prefers c a r).
Proof.
  induction r as [|g r IH]; intros a c; cbn [ExpandPairSpec.pair_share Pairwise.prefers].
  - unfold ind01. ring.
  - destruct (memb a g), (memb c g); unfold ind01; try ring. apply IH.
Qed.

Lemma h2h_single : forall (b : ballot) a c, h2h [b] a c == wt b * ind01 (prefers a c (rk b)).
Proof.
  intros b a c. unfold Pairwise.h2h, ind01. cbn [map]. rewrite Lib_sets.qsum_cons, Lib_sets.qsum_nil.
  destruct (prefers a c (rk b)); ring.
Qed.

Lemma h2h_as_sum : forall (bs : list ballot) a c,
  h2h bs a c == qsum (map (fun b => wt b * ind01 (prefers a c (rk b))) bs).
Proof.
  intros bs a c. unfold Pairwise.h2h. apply Lib_sets.qsum_map_ext_in. intros b _. unfold ind01.
  destruct (prefers a c (rk b)); ring.
Qed.

(* one ballot *)
Theorem expand_margin : forall (b : ballot) out a c,
  expand_tied_ballot b = inl out -> Forall (@NoDup cand) (rk b) ->
  h2h out a c - h2h out c a == h2h [b] a c - h2h [b] c a.
Proof.
  intros b out a c H Hnd. destruct (Lib_sets.cand_eq_dec cand ceqb ceqb_spec a c) as [->|Hac].
  - ring.
  - rewrite (expand_preserves_pairwise_gen cand ceqb ceqb_spec b out a c H Hnd Hac).
    rewrite (expand_preserves_pairwise_gen cand ceqb ceqb_spec b out c a H Hnd (fun E => Hac (eq_sym E))).
    rewrite !h2h_single. pose proof (pair_share_margin (rk b) a c) as M. nra.
Qed.

(* the whole profile *)
Theorem resolve_margin : forall (p p' : profile),
  resolve_profile_ties p = inl p' ->
  Forall (fun b => Forall (@NoDup cand) (rk b)) (ballots p) ->
  forall a c,
  h2h (ballots p') a c - h2h (ballots p') c a == h2h (ballots p) a c - h2h (ballots p) c a.
Proof.
  intros p p' H Hnd a c. destruct (Lib_sets.cand_eq_dec cand ceqb ceqb_spec a c) as [->|Hac].
  - ring.
  - rewrite (resolve_pairwise cand ceqb ceqb_spec p p' H a c Hnd Hac).
    rewrite (resolve_pairwise cand ceqb ceqb_spec p p' H c a Hnd (fun E => Hac (eq_sym E))).
    rewrite !h2h_as_sum.
    assert (E : forall x y z w : Q, x - y == z - w <-> x + w == z + y) by (intros; split; intros; lra).
    apply E. rewrite <- !Lib_sets.qsum_map_plus. apply Lib_sets.qsum_map_ext_in. intros b _.
    pose proof (pair_share_margin (rk b) a c) as M. nra.
Qed.

(* ================================================================== *)
(** * 2. scores of ballots completed to a fixed candidate list *)

Lemma perm_filter : forall (A : Type) (f : A -> bool) (l l' : list A),
  Permutation l l' -> Permutation (filter f l) (filter f l').
Proof.
  intros A f l l' H. induction H as [|x l l' _ IH|x y l|l l' l'' _ IH1 _ IH2]; cbn [filter].
  - constructor.
  - destruct (f x); [constructor|]; exact IH.
  - destruct (f x), (f y); try apply Permutation_refl. apply perm_swap.
  - eapply Permutation_trans; eassumption.
Qed.

Lemma set_diff_perm : forall (cs cs' X X' : cset),
  Permutation cs cs' -> Permutation X X' -> Permutation (set_diff cs X) (set_diff cs' X').
Proof.
  intros cs cs' X X' Hc HX. unfold Core.set_diff.
  rewrite (filter_ext (fun c => negb (memb c X)) (fun c => negb (memb c X'))).
  - apply perm_filter. exact Hc.
  - intros a. rewrite (memb_perm cand ceqb ceqb_spec a X X' HX). reflexivity.
Qed.

Lemma group_allocs_app : forall (r1 r2 : ranking) v,
  group_allocs v (r1 ++ r2) = group_allocs v r1 ++ group_allocs (skipn (length (flat r1)) v) r2.
Proof.
  induction r1 as [|s r1 IH]; intros r2 v; [reflexivity|].
  cbn [app Core.group_allocs]. rewrite IH, (Lib_sets.flat_cons cand), app_length, Lib_sets.skipn_skipn, app_assoc.
  reflexivity.
Qed.

Section OneCand.
Variable c : cand.
Notation cntq := (cntq cand ceqb c).

Lemma cntq_perm : forall s s' : list cand, Permutation s s' -> cntq s == cntq s'.
Proof.
  intros s s' H. unfold C12_scores.cntq. apply Lib_sets.qsum_perm. apply Permutation_map. exact H.
Qed.

(* what the last-place group of the candidates missing from a ballot listing X gives to c *)
Definition tail_alloc (cs X : cset) (v : list Q) : Q :=
  let m := set_diff cs X in
  cntq m * (qsum (firstn (length m) (skipn (length X) v)) / Qnat (length m)).

Lemma tail_alloc_perm : forall cs cs' X X' v,
  Permutation cs cs' -> Permutation X X' -> tail_alloc cs X v == tail_alloc cs' X' v.
Proof.
  intros cs cs' X X' v Hc HX. unfold tail_alloc.
  pose proof (set_diff_perm cs cs' X X' Hc HX) as Hm.
  rewrite (cntq_perm _ _ Hm), (Permutation_length Hm), (Permutation_length HX). reflexivity.
Qed.

Lemma alloc_with_missing : forall cs (r : ranking) v,
  alloc_of c (group_allocs v (with_missing cs r)) ==
  alloc_of c (group_allocs v r) + tail_alloc cs (flat r) v.
Proof.
  intros cs r v. unfold EditSpec.with_missing, tail_alloc.
  rewrite group_allocs_app, (C12_scores.alloc_of_app cand ceqb c). apply Qplus_comp; [reflexivity|].
  destruct (set_diff cs (flat r)) as [|x m] eqn:E.
  - cbn [Core.group_allocs]. unfold Core.alloc_of, C12_scores.cntq. cbn [filter map]. rewrite Lib_sets.qsum_nil. ring.
  - cbn [Core.group_allocs]. rewrite app_nil_r. apply (C12_scores.alloc_of_const cand ceqb c).
Qed.

(* points of c from a ballot with ranking r once completed to the candidate list cs *)
Definition comp_alloc (v : list Q) (cs : cset) (r : ranking) : Q :=
  alloc_of c (group_allocs v (with_missing cs r)).

(* summed over all linear orders consistent with r *)
Lemma comp_alloc_expand : forall cs cs' (r : ranking) v, Permutation cs' cs ->
  qsum (map (comp_alloc v cs') (expand_ranking r)) == Qnat (tie_divisor r) * comp_alloc v cs r.
Proof.
  intros cs cs' r v Hc. unfold comp_alloc.
  rewrite (Lib_rk.qsum_map_ext_eq _ _
            (fun l => alloc_of c (group_allocs v l) + tail_alloc cs (flat r) v)).
  - rewrite Lib_rk.qsum_map_plus, (alloc_expand cand ceqb c r v), Lib_rk.qsum_map_const.
    rewrite (expand_ranking_length cand r), alloc_with_missing. ring.
  - intros l Hl. rewrite alloc_with_missing. apply Qplus_comp; [reflexivity|].
    apply (expand_ranking_spec cand) in Hl. apply (linear_refinement_props cand) in Hl.
    destruct Hl as [_ Hp]. apply tail_alloc_perm; [exact Hc|apply Permutation_sym; exact Hp].
Qed.

Definition comp_score (v : list Q) (cs : cset) (bs : list ballot) : Q :=
  qsum (map (fun b => wt b * comp_alloc v cs (rk b)) bs).

Lemma comp_score_app : forall v cs (l1 l2 : list ballot),
  comp_score v cs (l1 ++ l2) == comp_score v cs l1 + comp_score v cs l2.
Proof. intros v cs l1 l2. unfold comp_score. rewrite map_app, Lib_sets.qsum_app. reflexivity. Qed.

Lemma comp_score_uniform : forall v cs q (e : list ballot), Forall (fun b => wt b == q) e ->
  comp_score v cs e == q * qsum (map (comp_alloc v cs) (map rk e)).
Proof.
  intros v cs q e H. unfold comp_score. induction H as [|b e Hb _ IH]; cbn [map].
  - rewrite Lib_sets.qsum_nil. ring.
  - rewrite !Lib_sets.qsum_cons, IH, Hb. ring.
Qed.

(* one ballot: completing every expanded ballot = completing the tied ballot *)
Lemma expand_comp_score : forall v cs cs' (b : ballot) out, Permutation cs' cs ->
  expand_tied_ballot b = inl out -> comp_score v cs' out == comp_score v cs [b].
Proof.
  intros v cs cs' b out Hc H. destruct (expand_tied_ballot_ok cand b out H) as (_ & Hrk & HF & _).
  rewrite (comp_score_uniform v cs' (wt b / Qnat (tie_divisor (rk b))) out).
  - rewrite Hrk, (comp_alloc_expand cs cs' (rk b) v Hc). unfold comp_score. cbn [map].
    rewrite Lib_sets.qsum_cons, Lib_sets.qsum_nil.
    pose proof (C12_expand.Qnat_pos _ (tie_divisor_pos cand (rk b))) as Hp. field. lra.
  - eapply Forall_impl; [|exact HF]. intros a Ha. apply Ha.
Qed.

Lemma expand_all_comp_score : forall v cs cs' (bs : list ballot) bss, Permutation cs' cs ->
  Forall2 (fun b e => expand_tied_ballot b = inl e) bs bss ->
  comp_score v cs' (concat bss) == comp_score v cs bs.
Proof.
  intros v cs cs' bs bss Hc H. induction H as [|b e bs bss Hbe _ IH]; [reflexivity|].
  cbn [concat]. rewrite comp_score_app, IH, (expand_comp_score v cs cs' b e Hc Hbe).
  unfold comp_score. cbn [map]. rewrite !Lib_sets.qsum_cons, Lib_sets.qsum_nil. ring.
Qed.

(* the ballots add_missing_ballot produces score as comp_score says *)
Lemma completed_score : forall v cs (bs bs' : list ballot),
  Forall2 (fun b b' => add_missing_ballot cs b = inl b') bs bs' ->
  score_of v bs' c == comp_score v cs bs.
Proof.
  intros v cs bs bs' H. unfold Core.score_of, comp_score, comp_alloc.
  induction H as [|b b' bs bs' Hb _ IH]; [reflexivity|].
  destruct (C12_edit.add_missing_ballot_ok cand ceqb cs b b' Hb) as (_ & Hrk & Hwt & _).
  cbn [map]. rewrite !Lib_sets.qsum_cons, IH, Hrk, Hwt. reflexivity.
Qed.

Lemma ranking_eqb_app_r : forall (t r1 r2 : ranking), ranking_eqb r1 r2 = true ->
  ranking_eqb (r1 ++ t) (r2 ++ t) = true.
Proof.
  intros t. induction r1 as [|s1 r1 IH]; intros [|s2 r2] H; try discriminate.
  - cbn [app]. apply (Lib_sets.ranking_eqb_refl cand ceqb ceqb_spec).
  - cbn [Core.ranking_eqb] in H. apply andb_true_iff in H. destruct H as [Hs Hr].
    cbn [app Core.ranking_eqb]. rewrite Hs, (IH r2 Hr). reflexivity.
Qed.

(* with_missing respects set-equality of positions *)
Lemma with_missing_eqb : forall cs (r1 r2 : ranking), ranking_eqb r1 r2 = true ->
  ranking_eqb (with_missing cs r1) (with_missing cs r2) = true.
Proof.
  intros cs r1 r2 H. unfold EditSpec.with_missing.
  assert (E : set_diff cs (flat r1) = set_diff cs (flat r2)).
  { unfold Core.set_diff. apply filter_ext. intros a. f_equal.
    destruct (memb a (flat r2)) eqn:E2.
    - apply memb_In. apply memb_In in E2.
      rewrite (Lib_sets.ranking_eqb_sym cand ceqb) in H.
      exact (Lib_sets.ranking_eqb_flat_incl cand ceqb ceqb_spec r2 r1 H a E2).
    - apply memb_false_iff. apply memb_false_iff in E2. intros Hin. apply E2.
      exact (Lib_sets.ranking_eqb_flat_incl cand ceqb ceqb_spec r1 r2 H a Hin). }
  rewrite E. apply ranking_eqb_app_r. exact H.
Qed.

Lemma with_missing_nodup : forall cs (r : ranking), NoDup cs -> nodup_groups r ->
  nodup_groups (with_missing cs r).
Proof.
  intros cs r Hcs Hr. unfold C12_profile.nodup_groups, EditSpec.with_missing. apply Forall_app. split; [exact Hr|].
  pose proof (Lib_sets.set_diff_NoDup cand ceqb cs (flat r) Hcs) as Hm.
  destruct (set_diff cs (flat r)); constructor; [exact Hm|constructor].
Qed.

Lemma comp_score_condense : forall v cs (bs : list ballot), NoDup cs ->
  Forall (fun b => nodup_groups (rk b)) bs ->
  comp_score v cs (condense_bs bs) == comp_score v cs bs.
Proof.
  intros v cs bs Hcs H.
  apply (condense_bs_wsum cand ceqb (fun r _ => nodup_groups r) (fun r _ => comp_alloc v cs r)).
  - intros k b Hk Hb Hm. unfold comp_alloc. apply (group_allocs_eqb_groups cand ceqb ceqb_spec).
    + apply with_missing_nodup; assumption.
    + apply with_missing_nodup; assumption.
    + apply with_missing_eqb. apply (key_match_rk cand ceqb). exact Hm.
  - exact H.
Qed.

Lemma completed_nodup : forall cs (bs bs' : list ballot), NoDup cs ->
  Forall (fun b => nodup_groups (rk b)) bs ->
  Forall2 (fun b b' => add_missing_ballot cs b = inl b') bs bs' ->
  Forall (fun b => nodup_groups (rk b)) bs'.
Proof.
  intros cs bs bs' Hcs Hnd H. induction H as [|b b' bs bs' Hb _ IH]; [constructor|].
  inversion Hnd as [|b0 bs0 Hb0 Hbs0]; subst b0 bs0.
  destruct (C12_edit.add_missing_ballot_ok cand ceqb cs b b' Hb) as (_ & Hrk & _).
  constructor; [rewrite Hrk; apply with_missing_nodup; assumption|apply IH; exact Hbs0].
Qed.

(* score of c in the completed profile, in terms of the ballots before completion *)
Lemma add_missing_score : forall v (p q : profile), NoDup (cands p) ->
  Forall (fun b => nodup_groups (rk b)) (ballots p) -> add_missing p = inl q ->
  score_of v (ballots q) c == comp_score v (cands p) (ballots p).
Proof.
  intros v p q Hcs Hnd H. unfold Core.add_missing in H.
  destruct (rmap (add_missing_ballot (cands p)) (ballots p)) as [bs'|e] eqn:E; cbn [rbind] in H; [|discriminate].
  unfold ok in H. injection H as <-. cbn [ballots]. apply Lib_rk.rmap_ok_inv in E.
  rewrite (score_of_condense cand ceqb ceqb_spec v bs' c (completed_nodup _ _ _ Hcs Hnd E)).
  apply completed_score. exact E.
Qed.

(* the heart of part 2: same candidate set => same completed scores *)
Theorem resolve_completed_scores : forall v (p p' q q' : profile),
  resolve_profile_ties p = inl p' -> Permutation (cands p') (cands p) ->
  Forall (fun b => nodup_groups (rk b)) (ballots p) ->
  add_missing p = inl q -> add_missing p' = inl q' ->
  score_of v (ballots q') c == score_of v (ballots q) c.
Proof.
  intros v p p' q q' Hres Hperm Hnd Hq Hq'.
  destruct (resolve_ok cand ceqb ceqb_spec p p' Hres) as (bss & HF & Hb & _).
  destruct (resolve_cands_NoDup cand ceqb ceqb_spec p p' Hres) as [Hcs Hcs'].
  assert (Hun : Forall (fun b' => nodup_groups (rk b')) (concat bss)) by (apply (expand_all_untied cand _ _ HF)).
  assert (Hnd' : Forall (fun b' => nodup_groups (rk b')) (ballots p')).
  { rewrite Hb. apply (condense_bs_Forall cand ceqb (fun r _ => nodup_groups r)). exact Hun. }
  rewrite (add_missing_score v p q Hcs Hnd Hq), (add_missing_score v p' q' Hcs' Hnd' Hq').
  rewrite Hb, (comp_score_condense v (cands p') (concat bss) Hcs' Hun).
  apply expand_all_comp_score; assumption.
Qed.

End OneCand.

(* the score dictionaries *)
Definition same_scores (d d' : scores) : Prop :=
  Permutation (map fst d') (map fst d) /\
  forall c q q', In (c, q) d -> In (c, q') d' -> q == q'.

Lemma In_score_map : forall (f : cand -> Q) (cs : cset) c q,
  In (c, q) (map (fun x => (x, f x)) cs) -> q = f c.
Proof.
  intros f cs c q H. apply in_map_iff in H. destruct H as (x & E & _). injection E as -> <-. reflexivity.
Qed.

Theorem resolve_score_rankings_perm : forall (p p' : profile),
  resolve_profile_ties p = inl p' -> Permutation (cands p') (cands p) ->
  Forall (fun b => Forall (@NoDup cand) (rk b)) (ballots p) ->
  forall v d d', score_rankings p v = inl d -> score_rankings p' v = inl d' -> same_scores d d'.
Proof.
  intros p p' Hres Hperm Hnd v d d' Hd Hd'.
  destruct (score_rankings_inv cand ceqb p v d Hd) as (q & _ & Hq & _ & _ & ->).
  destruct (score_rankings_inv cand ceqb p' v d' Hd') as (q' & _ & Hq' & _ & _ & ->).
  split.
  - rewrite !map_map. cbn [fst]. rewrite !map_id. exact Hperm.
  - intros c x x' Hx Hx'. apply In_score_map in Hx. apply In_score_map in Hx'. subst x x'.
    rewrite (Permutation_length Hperm). symmetry.
    apply (resolve_completed_scores c _ p p' q q' Hres Hperm Hnd Hq Hq').
Qed.

Theorem resolve_scores_invariant_perm : forall (p p' : profile),
  resolve_profile_ties p = inl p' -> Permutation (cands p') (cands p) ->
  Forall (fun b => Forall (@NoDup cand) (rk b)) (ballots p) ->
  (forall d d', first_place_votes p = inl d -> first_place_votes p' = inl d' -> same_scores d d') /\
  (forall d d', borda_scores p = inl d -> borda_scores p' = inl d' -> same_scores d d').
Proof.
  intros p p' Hres Hperm Hnd. unfold Core.first_place_votes, Core.borda_scores.
  rewrite (Permutation_length Hperm).
  split; intros d d' Hd Hd'; eapply resolve_score_rankings_perm; eassumption.
Qed.

(* on well-formed profiles both sides are defined: the resolved profile is well-formed again *)
Lemma refinement_wf : forall cs cs' (r l : ranking), Permutation cs' cs ->
  wf_ranking cand cs r -> linear_refinement cand r l -> wf_ranking cand cs' l.
Proof.
  intros cs cs' r l Hc (Hne & Hg & Hnd & Hin) Hl.
  destruct (linear_refinement_props cand r l Hl) as [H1 Hp]. repeat split.
  - intros ->. cbn in Hp. apply Permutation_sym, Permutation_nil in Hp.
    destruct r as [|g r]; [apply Hne; reflexivity|]. inversion Hg as [|g0 r0 Hg0 _]; subst.
    destruct g as [|x g]; [apply Hg0; reflexivity|]. discriminate Hp.
  - eapply Forall_impl; [|exact H1]. intros g Hlen ->. discriminate Hlen.
  - eapply Permutation_NoDup; eassumption.
  - intros x Hx. eapply Permutation_in; [apply Permutation_sym; exact Hc|]. apply Hin.
    eapply Permutation_in; [apply Permutation_sym; exact Hp|exact Hx].
Qed.

Theorem resolve_wf_perm : forall (p p' : profile), wf_profile cand p ->
  resolve_profile_ties p = inl p' -> Permutation (cands p') (cands p) -> wf_profile cand p'.
Proof.
  intros p p' [Hcs Hwf] Hres Hperm.
  destruct (resolve_ok cand ceqb ceqb_spec p p' Hres) as (bss & HF & Hb & _). split.
  - exact (proj2 (resolve_cands_NoDup cand ceqb ceqb_spec p p' Hres)).
  - rewrite Hb. apply (condense_bs_Forall cand ceqb (fun r _ => wf_ranking cand (cands p') r)).
    clear Hb Hres. induction HF as [|b e bs bss Hbe _ IH]; [constructor|].
    inversion Hwf as [|b0 bs0 Hb0 Hbs0]; subst b0 bs0. cbn [concat]. apply Forall_app. split; [|apply IH; exact Hbs0].
    destruct (expand_tied_ballot_ok cand b e Hbe) as (_ & Hrk & _). apply Forall_forall. intros b' Hb'.
    assert (Hin : In (rk b') (expand_ranking (rk b))) by (rewrite <- Hrk; apply in_map; exact Hb').
    apply (expand_ranking_spec cand) in Hin. exact (refinement_wf _ _ _ _ Hperm Hb0 Hin).
Qed.

Theorem resolve_scores_defined_perm : forall (p p' : profile), wf_profile cand p ->
  resolve_profile_ties p = inl p' -> Permutation (cands p') (cands p) ->
  forall v d, score_rankings p v = inl d -> exists d', score_rankings p' v = inl d'.
Proof.
  intros p p' Hwf Hres Hperm v d Hd.
  destruct (score_rankings_inv cand ceqb p v d Hd) as (_ & Hv & _).
  exact (score_rankings_succeeds cand ceqb ceqb_spec p' v (resolve_wf_perm p p' Hwf Hres Hperm) Hv).
Qed.

Theorem resolve_fpv_borda_defined_perm : forall (p p' : profile), wf_profile cand p ->
  resolve_profile_ties p = inl p' -> Permutation (cands p') (cands p) ->
  (forall d, first_place_votes p = inl d -> exists d', first_place_votes p' = inl d') /\
  (forall d, borda_scores p = inl d -> exists d', borda_scores p' = inl d').
Proof.
  intros p p' Hwf Hres Hperm. unfold Core.first_place_votes, Core.borda_scores.
  rewrite (Permutation_length Hperm).
  split; intros d Hd; eapply resolve_scores_defined_perm; eassumption.
Qed.

(* ---------- the candidate list of the resolved profile ---------- *)

Lemma acc_add_not_nil : forall (acc : list ballot) b, acc_add cand ceqb acc b <> [].
Proof.
  intros [|k acc] b; cbn [Core.acc_add]; [discriminate|]. destruct (key_match cand ceqb k b); discriminate.
Qed.

Lemma condense_bs_nil_inv : forall bs : list ballot, condense_bs bs = [] -> bs = [].
Proof.
  intros bs. unfold Core.condense_bs.
  assert (G : forall (l acc : list ballot), fold_left (acc_add cand ceqb) l acc = [] -> acc = [] /\ l = []).
  { induction l as [|b l IH]; intros acc H; cbn [fold_left] in H; [split; [exact H|reflexivity]|].
    destruct (IH _ H) as [Hacc _]. exfalso. exact (acc_add_not_nil acc b Hacc). }
  intros H. exact (proj2 (G bs [] H)).
Qed.

(* no ballot at all: nothing to infer *)
Lemma resolve_no_ballots : forall (p p' : profile),
  resolve_profile_ties p = inl p' -> ballots p = [] -> cands p' = cands p /\ ballots p' = [].
Proof.
  intros p p' Hres Hb0. destruct (resolve_ok cand ceqb ceqb_spec p p' Hres) as (bss & HF & Hb & Hc & _).
  rewrite Hb0 in HF. inversion HF; subst bss. split; [|exact Hb].
  rewrite Hc. destruct (cands p); reflexivity.
Qed.

(* with an EMPTY candidate list a scoring call succeeds only on a profile without ballots: a ballot
   must rank somebody, and nobody is a known candidate *)
Lemma scored_no_cands : forall (p : profile) v d,
  cands p = [] -> score_rankings p v = inl d -> ballots p = [].
Proof.
  intros p v d Hc Hd.
  destruct (score_rankings_inv cand ceqb p v d Hd) as (q & _ & Hq & Hne & Hk & _).
  pose proof (add_missing_cands cand ceqb p q Hq) as Hcq. rewrite Hcq, Hc in Hk.
  unfold Core.add_missing in Hq.
  destruct (rmap (add_missing_ballot (cands p)) (ballots p)) as [bs'|e] eqn:E; cbn [rbind] in Hq; [|discriminate].
  unfold ok in Hq. injection Hq as <-. cbn [ballots] in Hne, Hk. apply Lib_rk.rmap_ok_inv in E.
  destruct (condense_bs bs') as [|k ks] eqn:Ek.
  - apply condense_bs_nil_inv in Ek. subst bs'. inversion E. reflexivity.
  - exfalso.
    assert (Hin : In k (condense_bs bs')) by (rewrite Ek; left; reflexivity).
    destruct (condense_bs_origin cand ceqb bs' k Hin) as (b' & Hb' & Hrk & _).
    destruct (Forall2_in_r _ _ _ _ E Hb') as (b & _ & Hbb').
    destruct (C12_edit.add_missing_ballot_ok cand ceqb _ b b' Hbb') as (Hbne & Hrk' & _).
    assert (Hkne : rk k <> []).
    { rewrite Hrk, Hrk'. unfold EditSpec.with_missing. intros H0. apply app_eq_nil in H0. exact (Hbne (proj1 H0)). }
    cbn [existsb] in Hne. apply orb_false_iff in Hne. destruct Hne as [Hne _].
    unfold Core.all_known in Hk. cbn [forallb] in Hk. apply andb_true_iff in Hk. destruct Hk as [Hk _].
    destruct (rk k) as [|g r]; [exact (Hkne eq_refl)|].
    cbn [existsb] in Hne. apply orb_false_iff in Hne. destruct Hne as [Hg _].
    destruct g as [|x g]; [discriminate Hg|].
    apply (Lib_sets.subsetb_incl cand ceqb ceqb_spec) in Hk.
    exact (Hk x (or_introl eq_refl)).
Qed.

Lemma wf_no_cands : forall p : profile, cands p = [] -> wf_profile cand p -> ballots p = [].
Proof.
  intros p Hc [_ Hwf]. destruct (ballots p) as [|b bs]; [reflexivity|]. exfalso.
  inversion Hwf as [|b0 bs0 (Hne & Hg & _ & Hin) _]; subst b0 bs0. rewrite Hc in Hin.
  destruct (rk b) as [|g r]; [exact (Hne eq_refl)|].
  inversion Hg as [|g0 r0 Hg0 _]; subst g0 r0. destruct g as [|x g]; [exact (Hg0 eq_refl)|].
  exact (Hin x (or_introl eq_refl)).
Qed.

(* the candidate list is kept: whenever it is non-empty, and also whenever the tied profile can be
   scored or is well-formed *)
Theorem resolve_cands_scored : forall (p p' : profile) v d,
  resolve_profile_ties p = inl p' -> score_rankings p v = inl d -> cands p' = cands p.
Proof.
  intros p p' v d Hres Hd. destruct (cands p) as [|x cs] eqn:Ec.
  - rewrite <- Ec. apply (resolve_no_ballots p p' Hres). exact (scored_no_cands p v d Ec Hd).
  - rewrite <- Ec. apply (resolve_keeps_candidates cand ceqb ceqb_spec p p' Hres). rewrite Ec. discriminate.
Qed.

Theorem resolve_cands_wf : forall (p p' : profile), wf_profile cand p ->
  resolve_profile_ties p = inl p' -> cands p' = cands p.
Proof.
  intros p p' Hwf Hres. destruct (cands p) as [|x cs] eqn:Ec.
  - rewrite <- Ec. apply (resolve_no_ballots p p' Hres). exact (wf_no_cands p Ec Hwf).
  - rewrite <- Ec. apply (resolve_keeps_candidates cand ceqb ceqb_spec p p' Hres). rewrite Ec. discriminate.
Qed.

Lemma eq_perm : forall (l l' : list cand), l' = l -> Permutation l' l.
Proof. intros l l' ->. apply Permutation_refl. Qed.

(* the invariance theorems without premise on the candidates *)
Theorem resolve_score_rankings : forall (p p' : profile),
  resolve_profile_ties p = inl p' ->
  Forall (fun b => Forall (@NoDup cand) (rk b)) (ballots p) ->
  forall v d d', score_rankings p v = inl d -> score_rankings p' v = inl d' -> same_scores d d'.
Proof.
  intros p p' Hres Hnd v d d' Hd Hd'.
  exact (resolve_score_rankings_perm p p' Hres (eq_perm _ _ (resolve_cands_scored p p' v d Hres Hd)) Hnd v d d' Hd Hd').
Qed.

Theorem resolve_scores_invariant : forall (p p' : profile),
  resolve_profile_ties p = inl p' ->
  Forall (fun b => Forall (@NoDup cand) (rk b)) (ballots p) ->
  (forall d d', first_place_votes p = inl d -> first_place_votes p' = inl d' -> same_scores d d') /\
  (forall d d', borda_scores p = inl d -> borda_scores p' = inl d' -> same_scores d d').
Proof.
  intros p p' Hres Hnd. split; intros d d' Hd Hd'.
  - exact (proj1 (resolve_scores_invariant_perm p p' Hres
             (eq_perm _ _ (resolve_cands_scored p p' _ d Hres Hd)) Hnd) d d' Hd Hd').
  - exact (proj2 (resolve_scores_invariant_perm p p' Hres
             (eq_perm _ _ (resolve_cands_scored p p' _ d Hres Hd)) Hnd) d d' Hd Hd').
Qed.

Theorem resolve_wf : forall (p p' : profile), wf_profile cand p ->
  resolve_profile_ties p = inl p' -> wf_profile cand p'.
Proof.
  intros p p' Hwf Hres. exact (resolve_wf_perm p p' Hwf Hres (eq_perm _ _ (resolve_cands_wf p p' Hwf Hres))).
Qed.

Theorem resolve_scores_defined : forall (p p' : profile), wf_profile cand p ->
  resolve_profile_ties p = inl p' ->
  forall v d, score_rankings p v = inl d -> exists d', score_rankings p' v = inl d'.
Proof.
  intros p p' Hwf Hres.
  exact (resolve_scores_defined_perm p p' Hwf Hres (eq_perm _ _ (resolve_cands_wf p p' Hwf Hres))).
Qed.

Theorem resolve_fpv_borda_defined : forall (p p' : profile), wf_profile cand p ->
  resolve_profile_ties p = inl p' ->
  (forall d, first_place_votes p = inl d -> exists d', first_place_votes p' = inl d') /\
  (forall d, borda_scores p = inl d -> exists d', borda_scores p' = inl d').
Proof.
  intros p p' Hwf Hres.
  exact (resolve_fpv_borda_defined_perm p p' Hwf Hres (eq_perm _ _ (resolve_cands_wf p p' Hwf Hres))).
Qed.

(* per ballot, for the statement file: completing the expansion of b = completing b *)
Theorem expand_completed_scores : forall v cs (b bm : ballot) out outm c,
  expand_tied_ballot b = inl out -> add_missing_ballot cs b = inl bm ->
  rmap (add_missing_ballot cs) out = inl outm ->
  score_of v outm c == score_of v [bm] c.
Proof.
  intros v cs b bm out outm c He Hm Hr. apply Lib_rk.rmap_ok_inv in Hr.
  rewrite (completed_score c v cs out outm Hr).
  rewrite (completed_score c v cs [b] [bm]) by (constructor; [exact Hm|constructor]).
  apply (expand_comp_score c v cs cs b out (Permutation_refl cs) He).
Qed.

(* ================================================================== *)
(** * 3. remove_cand: the score dictionaries have no removed candidate as key *)

Notation strip := (strip cand ceqb).
Notation strip_scores := (strip_scores cand ceqb).
Notation scrub := (scrub cand ceqb).
Notation remove_cand_bs := (remove_cand_bs cand ceqb).
Notation remove_cand_prof := (remove_cand_prof cand ceqb).
Notation mentions := (mentions cand ceqb).
Notation score_from_scores := (score_from_scores cand ceqb).

Definition clean_of (removed : cset) (r : ranking) (d : scores) : Prop :=
  forall c, In c removed -> ~ In c (flat r) /\ ~ In c (map fst d).

Lemma scrub_clean : forall removed (b : ballot),
  clean_of removed (rk (scrub removed b)) (sc (scrub removed b)).
Proof.
  intros removed b c Hc. destruct (scrub_spec cand ceqb removed b) as (Hr & Hs & _).
  rewrite Hr, Hs. split.
  - intros Hin. exact (strip_no_removed cand ceqb ceqb_spec removed (rk b) c Hin Hc).
  - intros Hin. apply in_map_iff in Hin. destruct Hin as (pq & <- & Hpq).
    apply (strip_scores_spec cand ceqb ceqb_spec) in Hpq. apply (proj2 Hpq). exact Hc.
Qed.

Lemma remove_bs_clean : forall removed cf lz (bs : list ballot),
  Forall (fun k => clean_of removed (rk k) (sc k)) (remove_cand_bs removed cf lz bs).
Proof.
  intros removed cf lz bs. rewrite remove_cand_bs_unfold.
  assert (H : Forall (fun k => clean_of removed (rk k) (sc k)) (kept_of cand lz (map (scrub removed) bs))).
  { apply Forall_forall. intros k Hk.
    assert (Hin : In k (map (scrub removed) bs)).
    { destruct lz; cbn [kept_of] in Hk; [exact Hk|]. apply filter_In in Hk. apply Hk. }
    apply in_map_iff in Hin. destruct Hin as (b & <- & _). apply scrub_clean. }
  destruct cf; [|exact H]. apply (condense_bs_Forall cand ceqb (clean_of removed)). exact H.
Qed.

Lemma cast_cands_In : forall (bs : list ballot) c, In c (cast_cands cand ceqb bs) ->
  exists b, In b bs /\ (In c (flat (rk b)) \/ In c (map fst (sc b))).
Proof.
  intros bs c H. unfold Core.cast_cands in H. apply (proj1 (Lib_sets.dedup_In cand ceqb ceqb_spec _ _)) in H.
  apply (proj1 (Lib_sets.in_concat_iff _ _)) in H. destruct H as (g & Hg & Hc).
  apply in_map_iff in Hg. destruct Hg as (b & <- & Hb). exists b. split; [exact Hb|].
  destruct (Qlt_bool 0 (wt b)); [|destruct Hc]. unfold Core.ballot_cands in Hc.
  apply in_app_or in Hc. exact Hc.
Qed.

(* ---------- resolve_profile_ties on an EMPTY candidate list: what is inferred ---------- *)

Lemma cast_cands_iff : forall (bs : list ballot) c, In c (cast_cands cand ceqb bs) <->
  exists b, In b bs /\ 0 < wt b /\ (In c (flat (rk b)) \/ In c (map fst (sc b))).
Proof.
  intros bs c. unfold Core.cast_cands. rewrite (Lib_sets.dedup_In cand ceqb ceqb_spec), Lib_sets.in_concat_iff. split.
  - intros (g & Hg & Hc). apply in_map_iff in Hg. destruct Hg as (b & <- & Hb). exists b. split; [exact Hb|].
    destruct (Qlt_bool 0 (wt b)) eqn:E; [|destruct Hc]. split; [apply Lib_rk.Qlt_bool_iff; exact E|].
    unfold Core.ballot_cands in Hc. apply in_app_or in Hc. exact Hc.
  - intros (b & Hb & Hw & Hc). exists (if Qlt_bool 0 (wt b) then ballot_cands cand b else []). split.
    + apply in_map_iff. exists b. split; [reflexivity|exact Hb].
    + rewrite (proj2 (Lib_rk.Qlt_bool_iff 0 (wt b)) Hw). unfold Core.ballot_cands. apply in_or_app. exact Hc.
Qed.

Definition untied (r : ranking) : Prop := Forall (fun g => length g = 1%nat) r.

Lemma untied_forallb : forall r : ranking,
  forallb (fun s => Nat.eqb (length s) 1) r = true <-> untied r.
Proof.
  intros r. unfold untied. rewrite forallb_forall, Forall_forall. split; intros H g Hg.
  - apply Nat.eqb_eq. exact (H g Hg).
  - apply Nat.eqb_eq. exact (H g Hg).
Qed.

(* what one ballot contributes to the inferred candidates: its ranked candidates when its weight is
   positive, and the keys of its score dictionary too when it has no tie (it is then passed on as it
   is; the expansions of a tied ballot carry no scores) *)
Lemma expand_cast : forall (b : ballot) e c, expand_tied_ballot b = inl e ->
  ((exists b', In b' e /\ 0 < wt b' /\ (In c (flat (rk b')) \/ In c (map fst (sc b')))) <->
   (0 < wt b /\ (In c (flat (rk b)) \/ (untied (rk b) /\ In c (map fst (sc b)))))).
Proof.
  intros b e c H. unfold Core.expand_tied_ballot in H. destruct (rk b) as [|g r] eqn:Erk; [discriminate|].
  destruct (forallb (fun s => Nat.eqb (length s) 1) (g :: r)) eqn:Eu; unfold ok in H; injection H as <-.
  - apply untied_forallb in Eu. split.
    + intros (b' & [<-|[]] & Hw & Hc). rewrite Erk in Hc. split; [exact Hw|]. destruct Hc as [Hc|Hc]; [left; exact Hc|right; split; assumption].
    + intros (Hw & Hc). exists b. split; [left; reflexivity|]. split; [exact Hw|]. rewrite Erk.
      destruct Hc as [Hc|[_ Hc]]; [left|right]; exact Hc.
  - assert (Hnu : ~ untied (g :: r)).
    { intros Hu. apply untied_forallb in Hu. congruence. }
    pose proof (C12_expand.Qnat_pos _ (tie_divisor_pos cand (g :: r))) as Hp.
    assert (Hw : 0 < wt b / Qnat (tie_divisor (g :: r)) <-> 0 < wt b).
    { split; intros Hw.
      - setoid_replace (wt b) with (wt b / Qnat (tie_divisor (g :: r)) * Qnat (tie_divisor (g :: r))) by (field; lra).
        apply Qmult_lt_0_compat; assumption.
      - apply Qlt_shift_div_l; [exact Hp|]. lra. }
    split.
    + intros (b' & Hb' & Hwb' & Hc). apply in_map_iff in Hb'. destruct Hb' as (r' & <- & Hr'). cbn [wt rk sc map] in *.
      split; [apply Hw; exact Hwb'|]. left. destruct Hc as [Hc|[]].
      change (In r' (expand_ranking (g :: r))) in Hr'.
      apply (expand_ranking_spec cand) in Hr'. apply (linear_refinement_props cand) in Hr'.
      eapply Permutation_in; [apply Permutation_sym; exact (proj2 Hr')|exact Hc].
    + intros (Hwb & [Hc|[Hu _]]); [|contradiction].
      assert (Hex : exists r', In r' (expand_ranking (g :: r))).
      { destruct (expand_ranking (g :: r)) as [|r' rs] eqn:Ee; [|exists r'; left; reflexivity].
        exfalso. pose proof (expand_ranking_length cand (g :: r)) as Hl. rewrite Ee in Hl. cbn [length] in Hl.
        pose proof (tie_divisor_pos cand (g :: r)). lia. }
      destruct Hex as [r' Hr'].
      exists (mkBallot r' (wt b / Qnat (tie_divisor (g :: r))) [] (bid b) (vs b)).
      split; [apply in_map_iff; exists r'; split; [reflexivity|exact Hr']|].
      cbn [wt rk sc]. split; [apply Hw; exact Hwb|]. left.
      apply (expand_ranking_spec cand) in Hr'. apply (linear_refinement_props cand) in Hr'.
      eapply Permutation_in; [exact (proj2 Hr')|exact Hc].
Qed.

Theorem resolve_inferred_candidates : forall (p p' : profile),
  resolve_profile_ties p = inl p' -> cands p = [] ->
  NoDup (cands p') /\
  forall c, In c (cands p') <->
    exists b, In b (ballots p) /\ 0 < wt b /\
      (In c (flat (rk b)) \/ (untied (rk b) /\ In c (map fst (sc b)))).
Proof.
  intros p p' Hres Hc0. split; [exact (proj2 (resolve_cands_NoDup cand ceqb ceqb_spec p p' Hres))|].
  destruct (resolve_ok cand ceqb ceqb_spec p p' Hres) as (bss & HF & _ & Hc & _).
  rewrite Hc0 in Hc. rewrite Hc. clear Hc Hres Hc0. intros c. rewrite cast_cands_iff.
  induction HF as [|b e bs bss Hbe _ IH]; cbn [concat].
  - split; intros (b & [] & _).
  - split.
    + intros (b' & Hb' & Hw & Hcc). apply in_app_or in Hb'. destruct Hb' as [Hb'|Hb'].
      * exists b. split; [left; reflexivity|]. apply (expand_cast b e c Hbe). exists b'. repeat split; assumption.
      * destruct (proj1 IH) as (b0 & Hb0 & H0); [exists b'; repeat split; assumption|].
        exists b0. split; [right; exact Hb0|exact H0].
    + intros (b0 & [<-|Hb0] & H0).
      * apply (expand_cast b e c Hbe) in H0. destruct H0 as (b' & Hb' & H'). exists b'. split; [apply in_or_app; left; exact Hb'|exact H'].
      * destruct (proj2 IH) as (b' & Hb' & H'); [exists b0; split; assumption|].
        exists b'. split; [apply in_or_app; right; exact Hb'|exact H'].
Qed.

Theorem remove_prof_clean : forall removed cf lz (p p' : profile),
  remove_cand_prof removed cf lz p = inl p' ->
  (forall c, In c removed -> ~ In c (cands p')) /\
  (forall b, In b (ballots p') -> forall c, In c removed ->
     ~ In c (flat (rk b)) /\ ~ In c (map fst (sc b))).
Proof.
  intros removed cf lz p p' H. unfold Core.remove_cand_prof, Core.mk_profile in H.
  destruct (has_dup cand ceqb (set_diff (cands p) removed)); [discriminate|].
  unfold ok in H. injection H as <-. cbn [ballots cands].
  pose proof (remove_bs_clean removed cf lz (ballots p)) as Hcl. rewrite Forall_forall in Hcl.
  split; [|intros b Hb c Hc; exact (Hcl b Hb c Hc)].
  intros c Hc Hin. destruct (set_diff (cands p) removed) as [|x l] eqn:E.
  - apply cast_cands_In in Hin. destruct Hin as (b & Hb & Hor).
    destruct (Hcl b Hb c Hc) as [H1 H2]. destruct Hor as [Hor|Hor]; [exact (H1 Hor)|exact (H2 Hor)].
  - rewrite <- E in Hin. apply (Lib_sets.set_diff_In cand ceqb ceqb_spec) in Hin. apply (proj2 Hin). exact Hc.
Qed.

Lemma mentions_keys : forall (p : profile) d, mentions p = inl d -> map fst d = cands p.
Proof.
  intros p d H. unfold Core.mentions in H.
  destruct (existsb _ (ballots p)); [discriminate|].
  destruct (negb (all_known cand ceqb (cands p) (ballots p))); [discriminate|].
  unfold ok in H. injection H as <-. rewrite map_map. cbn [fst]. apply map_id.
Qed.

Lemma score_from_scores_keys : forall (p : profile) d, score_from_scores p = inl d -> map fst d = cands p.
Proof.
  intros p d H. unfold Core.score_from_scores in H.
  destruct (existsb _ (ballots p)); [discriminate|].
  destruct (negb (forallb _ (ballots p))); [discriminate|].
  unfold ok in H. injection H as <-. rewrite map_map. cbn [fst]. apply map_id.
Qed.

Theorem remove_cand_score_keys : forall removed cf lz (p p' : profile),
  remove_cand_prof removed cf lz p = inl p' ->
  forall d,
    (first_place_votes p' = inl d \/ borda_scores p' = inl d \/ mentions p' = inl d \/
     score_from_scores p' = inl d \/ exists v, score_rankings p' v = inl d) ->
    map fst d = cands p' /\ forall c, In c removed -> ~ In c (map fst d).
Proof.
  intros removed cf lz p p' H d Hd.
  assert (K : map fst d = cands p').
  { destruct Hd as [Hd|[Hd|[Hd|[Hd|[v Hd]]]]].
    - exact (score_rankings_keys cand ceqb p' _ d Hd).
    - exact (score_rankings_keys cand ceqb p' _ d Hd).
    - exact (mentions_keys p' d Hd).
    - exact (score_from_scores_keys p' d Hd).
    - exact (score_rankings_keys cand ceqb p' v d Hd). }
  split; [exact K|]. rewrite K. apply (proj1 (remove_prof_clean removed cf lz p p' H)).
Qed.

(* ================================================================== *)
(** * 4. add_missing, per ballot and per profile *)

Lemma cntq_notin : forall c (s : list cand), ~ In c s -> cntq cand ceqb c s == 0.
Proof.
  intros c s H. unfold C12_scores.cntq. apply Lib_rk.qsum_all_zero. apply Forall_forall.
  intros q Hq. apply in_map_iff in Hq. destruct Hq as (y & <- & Hy). unfold C12_scores.ind.
  destruct (ceqb_spec c y) as [->|_]; [contradiction|reflexivity].
Qed.

Lemma score_of_single : forall v (b : ballot) c,
  score_of v [b] c == wt b * alloc_of c (group_allocs v (rk b)).
Proof. intros v b c. unfold Core.score_of. cbn [map]. rewrite Lib_sets.qsum_cons, Lib_sets.qsum_nil. ring. Qed.

(* candidates on the ballot, and candidates outside the list, keep their points: every vector *)
Theorem add_missing_listed_scores : forall cs (b b' : ballot) v c,
  add_missing_ballot cs b = inl b' -> In c (flat (rk b)) \/ ~ In c cs ->
  score_of v [b'] c == score_of v [b] c.
Proof.
  intros cs b b' v c H Hc. destruct (C12_edit.add_missing_ballot_ok cand ceqb cs b b' H) as (_ & Hrk & Hwt & _).
  rewrite !score_of_single, Hrk, Hwt, alloc_with_missing. unfold tail_alloc.
  rewrite cntq_notin; [ring|]. intros Hin. apply (Lib_sets.set_diff_In cand ceqb ceqb_spec) in Hin.
  destruct Hin as [H1 H2]. destruct Hc as [Hc|Hc]; [exact (H2 Hc)|exact (Hc H1)].
Qed.

Lemma In_firstn : forall (A : Type) n (l : list A) x, In x (firstn n l) -> In x l.
Proof.
  intros A n. induction n as [|n IH]; intros l x H; [destruct H|].
  destruct l as [|y l]; [destruct H|]. cbn [firstn] in H.
  destruct H as [H|H]; [left; exact H|right; apply IH; exact H].
Qed.

Lemma In_skipn : forall (A : Type) n (l : list A) x, In x (skipn n l) -> In x l.
Proof.
  intros A n. induction n as [|n IH]; intros l x H; [exact H|].
  destruct l as [|y l]; [destruct H|]. cbn [skipn] in H. right. apply IH. exact H.
Qed.

(* first-place scores: unchanged for EVERY candidate as soon as the ballot lists somebody *)
Theorem add_missing_fpv : forall cs (b b' : ballot) n c,
  add_missing_ballot cs b = inl b' -> flat (rk b) <> [] ->
  score_of (fpv_vector n) [b'] c == score_of (fpv_vector n) [b] c.
Proof.
  intros cs b b' n c H Hne. destruct (C12_edit.add_missing_ballot_ok cand ceqb cs b b' H) as (_ & Hrk & Hwt & _).
  rewrite !score_of_single, Hrk, Hwt, alloc_with_missing. unfold tail_alloc.
  assert (Z : qsum (firstn (length (set_diff cs (flat (rk b))))
                           (skipn (length (flat (rk b))) (fpv_vector n))) == 0).
  { apply Lib_rk.qsum_all_zero. apply Forall_forall. intros q Hq. apply In_firstn in Hq.
    destruct (flat (rk b)) as [|x X]; [contradiction Hne; reflexivity|].
    unfold Core.fpv_vector in Hq. cbn [length skipn] in Hq. apply In_skipn in Hq.
    apply repeat_spec in Hq. rewrite Hq. reflexivity. }
  rewrite Z. unfold Qdiv. ring.
Qed.

Lemma prefers_app : forall a c (r t : ranking),
  prefers a c (r ++ t) = if memb a (flat r) || memb c (flat r) then prefers a c r else prefers a c t.
Proof.
  intros a c r t. induction r as [|g r IH]; [reflexivity|].
  cbn [app Pairwise.prefers]. rewrite (Lib_sets.flat_cons cand), !(C12_pairwise.memb_app cand ceqb).
  destruct (memb a g); [reflexivity|]. destruct (memb c g); [rewrite orb_true_r; reflexivity|].
  cbn [orb]. exact IH.
Qed.

Lemma prefers_unlisted : forall a c (r : ranking),
  memb a (flat r) || memb c (flat r) = false -> prefers a c r = false.
Proof.
  intros a c r H. pose proof (prefers_app a c r []) as P. rewrite H, app_nil_r in P. exact P.
Qed.

Lemma prefers_missing_group : forall a c (m : cset),
  prefers a c (match m with [] => [] | x :: l => [x :: l] end) = memb a m.
Proof.
  intros a c m. destruct m as [|x m]; [reflexivity|]. cbn [Pairwise.prefers].
  destruct (memb a (x :: m)); [reflexivity|]. destruct (memb c (x :: m)); reflexivity.
Qed.

(* head-to-head: a pair with a member on the ballot keeps both counts *)
Theorem add_missing_h2h_listed : forall cs (b b' : ballot) a c,
  add_missing_ballot cs b = inl b' -> In a (flat (rk b)) \/ In c (flat (rk b)) ->
  h2h [b'] a c == h2h [b] a c.
Proof.
  intros cs b b' a c H Hl. destruct (C12_edit.add_missing_ballot_ok cand ceqb cs b b' H) as (_ & Hrk & Hwt & _).
  rewrite !h2h_single, Hrk, Hwt. unfold EditSpec.with_missing. rewrite prefers_app.
  assert (E : memb a (flat (rk b)) || memb c (flat (rk b)) = true).
  { apply orb_true_iff. destruct Hl as [Hl|Hl]; [left|right]; apply memb_In; exact Hl. }
  rewrite E. reflexivity.
Qed.

(* the margin of two candidates that are both in the list (or both outside) is kept *)
Theorem add_missing_margin : forall cs (b b' : ballot) a c,
  add_missing_ballot cs b = inl b' -> (In a cs <-> In c cs) ->
  h2h [b'] a c - h2h [b'] c a == h2h [b] a c - h2h [b] c a.
Proof.
  intros cs b b' a c H Hac.
  destruct (memb a (flat (rk b)) || memb c (flat (rk b))) eqn:E.
  - assert (Hl : In a (flat (rk b)) \/ In c (flat (rk b))).
    { apply orb_true_iff in E. destruct E as [E|E]; [left|right]; apply memb_In; exact E. }
    rewrite (add_missing_h2h_listed cs b b' a c H Hl).
    rewrite (add_missing_h2h_listed cs b b' c a H (proj1 (or_comm _ _) Hl)). reflexivity.
  - destruct (C12_edit.add_missing_ballot_ok cand ceqb cs b b' H) as (_ & Hrk & Hwt & _).
    assert (E' : memb c (flat (rk b)) || memb a (flat (rk b)) = false) by (rewrite orb_comm; exact E).
    rewrite !h2h_single, Hrk, Hwt. unfold EditSpec.with_missing.
    rewrite !prefers_app, E, E', !prefers_missing_group, (prefers_unlisted a c _ E), (prefers_unlisted c a _ E').
    apply orb_false_iff in E. destruct E as [Ea Ec].
    assert (M : memb a (set_diff cs (flat (rk b))) = memb c (set_diff cs (flat (rk b)))).
    { apply memb_false_iff in Ea. apply memb_false_iff in Ec.
      destruct (memb c (set_diff cs (flat (rk b)))) eqn:Mc.
      - apply memb_In. apply (Lib_sets.set_diff_In cand ceqb ceqb_spec). apply memb_In in Mc.
        apply (Lib_sets.set_diff_In cand ceqb ceqb_spec) in Mc. split; [apply Hac, Mc|exact Ea].
      - apply memb_false_iff. apply memb_false_iff in Mc. intros Hin. apply Mc.
        apply (Lib_sets.set_diff_In cand ceqb ceqb_spec) in Hin.
        apply (Lib_sets.set_diff_In cand ceqb ceqb_spec). split; [apply Hac, Hin|exact Ec]. }
    rewrite M. ring.
Qed.

(* ---------- the profile: scoring already completes the ballots, so add_missing changes no
   score dictionary ---------- *)

Lemma with_missing_full : forall cs (r : ranking), set_diff cs (flat (with_missing cs r)) = [].
Proof.
  intros cs r. unfold Core.set_diff at 1. apply Lib_sets.filter_all_false. intros x Hx.
  apply negb_false_iff. apply memb_In. unfold EditSpec.with_missing. rewrite (Lib_sets.flat_app cand).
  destruct (memb x (flat r)) eqn:E.
  - apply in_or_app. left. apply memb_In. exact E.
  - assert (Hm : In x (set_diff cs (flat r))).
    { apply (Lib_sets.set_diff_In cand ceqb ceqb_spec). split; [exact Hx|]. apply memb_false_iff. exact E. }
    apply in_or_app. right. destruct (set_diff cs (flat r)) as [|y m]; [destruct Hm|].
    unfold Core.flat. cbn [concat]. rewrite app_nil_r. exact Hm.
Qed.

Lemma comp_alloc_full : forall c v cs (r : ranking), set_diff cs (flat r) = [] ->
  comp_alloc c v cs r = alloc_of c (group_allocs v r).
Proof. intros c v cs r H. unfold comp_alloc, EditSpec.with_missing. rewrite H, app_nil_r. reflexivity. Qed.

Theorem add_missing_idem_scores : forall (p q : profile), add_missing p = inl q ->
  NoDup (cands p) -> Forall (fun b => Forall (@NoDup cand) (rk b)) (ballots p) ->
  forall v d d', score_rankings p v = inl d -> score_rankings q v = inl d' -> same_scores d d'.
Proof.
  intros p q Hq Hcs Hnd v d d' Hd Hd'.
  pose proof (add_missing_cands cand ceqb p q Hq) as Hc.
  destruct (score_rankings_inv cand ceqb p v d Hd) as (q1 & _ & Hq1 & _ & _ & ->).
  destruct (score_rankings_inv cand ceqb q v d' Hd') as (q2 & _ & Hq2 & _ & _ & ->).
  rewrite Hq in Hq1. injection Hq1 as <-. rewrite Hc. split.
  - rewrite !map_map. cbn [fst]. apply Permutation_refl.
  - intros c x x' Hx Hx'. apply In_score_map in Hx. apply In_score_map in Hx'. subst x x'.
    set (V := pad_to (length (cands p)) v).
    (* the ballots of q are complete and have duplicate-free positions *)
    unfold Core.add_missing in Hq.
    destruct (rmap (add_missing_ballot (cands p)) (ballots p)) as [bs'|e] eqn:E; cbn [rbind] in Hq; [|discriminate].
    unfold ok in Hq. injection Hq as <-. cbn [ballots cands] in *. apply Lib_rk.rmap_ok_inv in E.
    assert (Hnd' : Forall (fun b => nodup_groups (rk b)) (condense_bs bs')).
    { apply (condense_bs_Forall cand ceqb (fun r _ => nodup_groups r)).
      exact (completed_nodup _ _ _ Hcs Hnd E). }
    assert (Hfull : Forall (fun b => set_diff (cands p) (flat (rk b)) = []) (condense_bs bs')).
    { apply (condense_bs_Forall cand ceqb (fun r _ => set_diff (cands p) (flat r) = [])).
      clear -E ceqb_spec. induction E as [|b b' bs bs' Hb _ IH]; constructor; [|exact IH].
      destruct (C12_edit.add_missing_ballot_ok cand ceqb _ b b' Hb) as (_ & Hrk & _).
      rewrite Hrk. apply with_missing_full. }
    symmetry.
    rewrite (add_missing_score c V (mkProfile (condense_bs bs') (cands p)) q2 Hcs Hnd' Hq2).
    cbn [ballots cands]. unfold comp_score, Core.score_of. apply Lib_sets.qsum_map_ext_in.
    intros b Hb. rewrite Forall_forall in Hfull. rewrite (comp_alloc_full c V _ _ (Hfull b Hb)). reflexivity.
Qed.

Theorem add_missing_profile_scores : forall (p q : profile), add_missing p = inl q ->
  NoDup (cands p) -> Forall (fun b => Forall (@NoDup cand) (rk b)) (ballots p) ->
  (forall d d', first_place_votes p = inl d -> first_place_votes q = inl d' -> same_scores d d') /\
  (forall d d', borda_scores p = inl d -> borda_scores q = inl d' -> same_scores d d').
Proof.
  intros p q Hq Hcs Hnd. unfold Core.first_place_votes, Core.borda_scores.
  rewrite (add_missing_cands cand ceqb p q Hq).
  split; intros d d' Hd Hd'; eapply add_missing_idem_scores; eassumption.
Qed.

(* ---------- the packaged per-ballot statements ---------- *)

Theorem expand_scores_preserved : forall (b : ballot) out,
  expand_tied_ballot b = inl out ->
  (forall v cs bm outm c,
     add_missing_ballot cs b = inl bm -> rmap (add_missing_ballot cs) out = inl outm ->
     score_of v outm c == score_of v [bm] c) /\
  (Forall (@NoDup cand) (rk b) -> forall a c,
     h2h out a c - h2h out c a == h2h [b] a c - h2h [b] c a).
Proof.
  intros b out H. split.
  - intros v cs bm outm c Hm Hr. exact (expand_completed_scores v cs b bm out outm c H Hm Hr).
  - intros Hnd a c. exact (expand_margin b out a c H Hnd).
Qed.

Theorem add_missing_scores_preserved : forall cs (b b' : ballot),
  add_missing_ballot cs b = inl b' ->
  (forall v c, In c (flat (rk b)) \/ ~ In c cs -> score_of v [b'] c == score_of v [b] c) /\
  (flat (rk b) <> [] -> forall n c,
     score_of (fpv_vector n) [b'] c == score_of (fpv_vector n) [b] c) /\
  (forall a c, In a (flat (rk b)) \/ In c (flat (rk b)) -> h2h [b'] a c == h2h [b] a c) /\
  (forall a c, (In a cs <-> In c cs) ->
     h2h [b'] a c - h2h [b'] c a == h2h [b] a c - h2h [b] c a).
Proof.
  intros cs b b' H. split; [|split; [|split]].
  - intros v c Hc. exact (add_missing_listed_scores cs b b' v c H Hc).
  - intros Hne n c. exact (add_missing_fpv cs b b' n c H Hne).
  - intros a c Hl. exact (add_missing_h2h_listed cs b b' a c H Hl).
  - intros a c Hac. exact (add_missing_margin cs b b' a c H Hac).
Qed.

End Margin.

(* ================================================================== *)
(** * refuted statements: concrete witnesses (cand := positive) *)
Module C12MarginWitness.
Local Open Scope positive_scope.

Definition pb (r : list (list positive)) (w : Q) : Core.ballot positive := plain_ballot positive r w.

Ltac nodup_pos := repeat (constructor; [cbn; intuition discriminate|]); constructor.

(* the individual head-to-head counts are NOT invariant: {1,2} counts fully for 1-over-2 (and for
   2-over-1) before the expansion, half afterwards *)
Lemma counts_invariant_refuted :
  exists (p p' : Core.profile positive) a c,
    Core.resolve_profile_ties positive Pos.eqb p = inl p' /\
    Forall (fun b => Forall (@NoDup positive) (rk b)) (ballots p) /\
    ~ Pairwise.h2h positive Pos.eqb (ballots p') a c == Pairwise.h2h positive Pos.eqb (ballots p) a c.
Proof.
  exists (mkProfile [pb [[1; 2]] 1] [1; 2]). eexists. exists 1, 2.
  split; [vm_compute; reflexivity|]. split.
  - constructor; [|constructor]. constructor; [|constructor]. nodup_pos.
  - intros H. vm_compute in H. discriminate H.
Qed.

(* the margin does depend on the positions being duplicate-free (model level only: a Python
   frozenset cannot list a candidate twice) *)
Lemma margin_dup_position_refuted :
  exists (p p' : Core.profile positive) a c,
    Core.resolve_profile_ties positive Pos.eqb p = inl p' /\
    ~ Pairwise.h2h positive Pos.eqb (ballots p') a c - Pairwise.h2h positive Pos.eqb (ballots p') c a ==
      Pairwise.h2h positive Pos.eqb (ballots p) a c - Pairwise.h2h positive Pos.eqb (ballots p) c a.
Proof.
  exists (mkProfile [pb [[1; 1; 2]] 1] [1; 2]). eexists. exists 1, 2.
  split; [vm_compute; reflexivity|]. intros H. vm_compute in H. discriminate H.
Qed.

(* candidates (1,2,3), ballots {1,2} x2 and 1 x1: candidate 3 has no votes.  Before the library fix
   "resolve_profile_ties keeps the profile's candidate list" the resolved profile had the inferred
   candidates {1,2}, the default Borda vector shrank from (3,2,1) to (2,1), every Borda score changed
   (1: 8 -> 5, 2: 13/2 -> 4, 3: 7/2 -> no key) and first_place_votes lost the key 3: this profile
   REFUTED score invariance.  Now the candidate list is kept and the dictionaries are the same *)
Definition p_zero : Core.profile positive := mkProfile [pb [[1; 2]] 2; pb [[1]] 1] [1; 2; 3].

Lemma resolve_scores_zero_vote_candidate :
  exists p' : Core.profile positive,
    Core.resolve_profile_ties positive Pos.eqb p_zero = inl p' /\
    cands p' = [1; 2; 3] /\
    map rk (ballots p') = [[[1]; [2]]; [[2]; [1]]; [[1]]] /\
    (exists d d', Core.borda_scores positive Pos.eqb p_zero = inl d /\
                  Core.borda_scores positive Pos.eqb p' = inl d' /\
                  map fst d = [1; 2; 3] /\ map fst d' = [1; 2; 3] /\
                  Forall2 Qeq (map snd d) [8%Q; (13 # 2)%Q; (7 # 2)%Q] /\
                  Forall2 Qeq (map snd d') [8%Q; (13 # 2)%Q; (7 # 2)%Q]) /\
    (exists d d', Core.first_place_votes positive Pos.eqb p_zero = inl d /\
                  Core.first_place_votes positive Pos.eqb p' = inl d' /\
                  map fst d = [1; 2; 3] /\ map fst d' = [1; 2; 3] /\
                  Forall2 Qeq (map snd d) [2%Q; 1%Q; 0%Q] /\
                  Forall2 Qeq (map snd d') [2%Q; 1%Q; 0%Q]).
Proof.
  eexists. split; [vm_compute; reflexivity|]. split; [reflexivity|]. split; [vm_compute; reflexivity|].
  split; eexists; eexists; (split; [vm_compute; reflexivity|]); (split; [vm_compute; reflexivity|]);
    (split; [reflexivity|]); (split; [reflexivity|]);
    split; repeat (constructor; [vm_compute; reflexivity|]); constructor.
Qed.

(* an EMPTY candidate list is still re-inferred: the tied profile cannot be scored (KeyError: nobody
   is a known candidate), the resolved one can *)
Lemma resolve_inferred_scores :
  exists p' d' : _,
    Core.resolve_profile_ties positive Pos.eqb (mkProfile [pb [[1; 2]] 2; pb [[1]] 1] []) = inl p' /\
    Permutation (cands p') [1; 2] /\
    Core.borda_scores positive Pos.eqb (mkProfile [pb [[1; 2]] 2; pb [[1]] 1] []) = inr EKey /\
    Core.borda_scores positive Pos.eqb p' = inl d' /\ length d' = 2%nat.
Proof.
  eexists. eexists. split; [vm_compute; reflexivity|]. split; [apply perm_swap|].
  split; [vm_compute; reflexivity|]. split; [vm_compute; reflexivity|reflexivity].
Qed.

(* add_missing_ballot: an unlisted candidate of the list gains Borda points (the mean of the
   positions left over), two unlisted candidates gain a full head-to-head count each, and the
   margin against a candidate outside the list changes *)
Lemma add_missing_unlisted_refuted :
  exists cs (b b' : Core.ballot positive),
    Core.add_missing_ballot positive Pos.eqb cs b = inl b' /\
    ~ Core.score_of positive Pos.eqb (borda_vector 3) [b'] 2 ==
      Core.score_of positive Pos.eqb (borda_vector 3) [b] 2 /\
    ~ Pairwise.h2h positive Pos.eqb [b'] 2 3 == Pairwise.h2h positive Pos.eqb [b] 2 3 /\
    ~ Pairwise.h2h positive Pos.eqb [b'] 2 4 - Pairwise.h2h positive Pos.eqb [b'] 4 2 ==
      Pairwise.h2h positive Pos.eqb [b] 2 4 - Pairwise.h2h positive Pos.eqb [b] 4 2.
Proof.
  exists [1; 2; 3], (pb [[1]] 1). eexists. split; [vm_compute; reflexivity|].
  repeat split; intros H; vm_compute in H; discriminate H.
Qed.

End C12MarginWitness.
