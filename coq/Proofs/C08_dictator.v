(* Proofs/C08_dictator.v — property C08 for RandomDictator / BoostedRandomDictator.
   Script reading: the draw script records the drawn ballot by its ranking (a value, not an index),
   so the SAME script drives equivalent profiles through equivalent runs; only the arguments logged
   for the primitive calls differ in representation ([call_equiv]).
   Law reading: the one-step distribution over elected candidates only depends on the electorate. *)
From Coq Require Import List ZArith QArith Bool Permutation Lia Lqa Setoid Morphisms.
From VK Require Import Base Core STV Pairwise Rules Laws.
From VK.Spec Require Import Content ScoreSpec EditSpec Anon LawSpec AnonRules.
From VK.Proofs Require Import Lib_sets Lib_content Lib_condense C11_condense C04_scoring C12_edit
  C08_anon C08_stv C08_rules C17_laws.
Import ListNotations.
Open Scope Q_scope.

Section DictAnon.
Variable cand : Type.
Variable ceqb : cand -> cand -> bool.
Hypothesis ceqb_spec : forall a b, reflect (a = b) (ceqb a b).

Notation cset := (cset cand).
Notation ranking := (ranking cand).
Notation scores := (scores cand).
Notation ballot := (ballot cand).
Notation profile := (profile cand).
Notation mstate := (mstate cand).
Notation estate := (estate cand).
Notation same := (same_content cand ceqb).
Notation wtof := (wtof cand ceqb).
Notation dist_eq := (dist_eq cand ceqb).
Notation memb := (memb cand ceqb).
Notation ranking_eqb := (ranking_eqb cand ceqb).
Notation flat := (flat cand).
Notation nonneg_wts := (nonneg_wts cand).
Notation groups_equiv := (groups_equiv cand).
Notation scores_equiv := (scores_equiv cand).
Notation tiebreak_equiv := (tiebreak_equiv cand).
Notation state_equiv := (state_equiv cand).
Notation profile_equiv := (profile_equiv cand ceqb).
Notation wf_profile := (wf_profile cand).
Notation score_free := (EditSpec.score_free cand).
Notation dom := (one_shot_domain cand).
Notation ddom := (dictator_domain cand).
Notation as_key := (as_key cand).
Notation pop_weight := (pop_weight cand ceqb).
Notation pop_equiv := (pop_equiv cand ceqb).
Notation table_equiv := (table_equiv cand ceqb).
Notation call_equiv := (call_equiv cand ceqb).
Notation mstate_equiv := (mstate_equiv cand ceqb).
Notation mres_equiv_log := (mres_equiv_log cand ceqb).
Notation remove_cand_prof := (remove_cand_prof cand ceqb).
Notation draw_ballot := (draw_ballot cand ceqb).
Notation dictator_pick := (dictator_pick cand ceqb).
Notation elect_one := (elect_one cand ceqb).
Notation rd_step := (rd_step cand ceqb).
Notation brd_step := (brd_step cand ceqb).
Notation lookup0 := (lookup0 cand ceqb).

(* ------------------------------------------------------------------ *)
(** * Plumbing: equivalent states of the random source *)

Lemma table_equiv_refl : forall d : scores, table_equiv d d.
Proof. intros d. split; [apply Permutation_refl|intros c; reflexivity]. Qed.

Lemma call_equiv_refl : forall c, call_equiv c c.
Proof.
  intros [x|pop|pop k| |d|n]; cbn [AnonRules.call_equiv].
  - apply Permutation_refl.
  - intros r. reflexivity.
  - split; [intros r; reflexivity|reflexivity].
  - exact I.
  - apply table_equiv_refl.
  - reflexivity.
Qed.

Lemma mstate_equiv_refl : forall s : mstate, mstate_equiv s s.
Proof.
  intros s. split; [reflexivity|]. induction (lg s) as [|c l IH]; constructor; [apply call_equiv_refl|exact IH].
Qed.

Lemma mbind_log : forall {A B} (R : A -> A -> Prop) (R2 : B -> B -> Prop)
    (x y : M cand A) (f g : A -> M cand B) (s s' : mstate),
  mres_equiv_log R (x s) (y s') ->
  (forall a b s1 s1', R a b -> mstate_equiv s1 s1' -> mres_equiv_log R2 (f a s1) (g b s1')) ->
  mres_equiv_log R2 (mbind x f s) (mbind y g s').
Proof.
  intros A B R R2 x y f g s s' H Hf. unfold mbind.
  destruct (x s) as [[a s1]|e]; destruct (y s') as [[b s2]|e']; cbn in H; try contradiction.
  - destruct H as [HR Hs]. apply Hf; assumption.
  - exact H.
Qed.

Lemma mlift_log : forall {A} (R : A -> A -> Prop) (x y : res A) (s s' : mstate),
  res_equiv R x y -> mstate_equiv s s' -> mres_equiv_log R (mlift x s) (mlift y s').
Proof.
  intros A R x y s s' H Hs. unfold mlift. destruct x as [a|e]; destruct y as [b|e']; cbn in H |- *; try contradiction.
  - split; assumption.
  - exact H.
Qed.

Lemma mret_log : forall {A} (R : A -> A -> Prop) (a b : A) (s s' : mstate),
  R a b -> mstate_equiv s s' -> mres_equiv_log R (mret a s) (mret b s').
Proof. intros A R a b s s' H Hs. cbn. split; assumption. Qed.

Lemma next_draw_log : forall c c' (s s' : mstate), call_equiv c c' -> mstate_equiv s s' ->
  mres_equiv_log eq (next_draw cand c s) (next_draw cand c' s').
Proof.
  intros c c' s s' Hc [Hscr Hlg]. unfold Core.next_draw. rewrite <- Hscr.
  destruct (scr s) as [|d rest]; [exact eq_refl|].
  cbn. split; [reflexivity|]. split; cbn [scr lg]; [reflexivity|constructor; assumption].
Qed.

(* ------------------------------------------------------------------ *)
(** * The population of random.choices *)

Lemma same_key_sf : forall r (b : ballot), sc b = [] -> same (as_key r []) b = ranking_eqb r (rk b).
Proof.
  intros r b H. unfold Content.same_content. cbn [rk sc C08_stv.as_key]. rewrite H.
  cbn. apply andb_true_r.
Qed.

Lemma pop_of_ballots : forall r (bs : list ballot), score_free bs ->
  pop_weight r (map (fun b => (rk b, wt b)) bs) == wtof (as_key r []) bs.
Proof.
  intros r bs H. unfold EditSpec.score_free in H. induction H as [|b bs Hb _ IH].
  - reflexivity.
  - unfold AnonRules.pop_weight in *. cbn [map filter fst]. rewrite wtof_cons, (same_key_sf r b Hb).
    destruct (ranking_eqb r (rk b)); [|exact IH].
    cbn [map snd]. rewrite Lib_content.qsum_cons, IH. reflexivity.
Qed.

Lemma pop_equiv_ballots : forall bs bs' : list ballot, score_free bs -> score_free bs' ->
  dist_eq bs bs' -> pop_equiv (map (fun b => (rk b, wt b)) bs) (map (fun b => (rk b, wt b)) bs').
Proof. intros bs bs' H H' Hde r. rewrite !pop_of_ballots by assumption. apply Hde. Qed.

Lemma pos_member_iff : forall r (bs : list ballot), score_free bs -> nonneg_wts bs ->
  existsb (fun b => ranking_eqb r (rk b) && pos_wt cand b) bs = true <-> 0 < wtof (as_key r []) bs.
Proof.
  intros r bs Hsf Hn. unfold EditSpec.score_free in Hsf. rewrite Forall_forall in Hsf. split.
  - intros H. apply existsb_exists in H. destruct H as [b [Hb Hc]]. apply andb_true_iff in Hc.
    destruct Hc as [Hr Hp]. apply C12_edit.pos_wt_iff in Hp.
    assert (Hs : same (as_key r []) b = true) by (rewrite (same_key_sf r b (Hsf b Hb)); exact Hr).
    pose proof (wtof_ge_member cand ceqb (as_key r []) b bs Hn Hb Hs). lra.
  - intros H. destruct (wtof_pos_member cand ceqb (as_key r []) bs Hn H) as [x [Hx [Hs Hw]]].
    apply existsb_exists. exists x. split; [exact Hx|]. apply andb_true_iff. split.
    + rewrite <- (same_key_sf r x (Hsf x Hx)). exact Hs.
    + apply C12_edit.pos_wt_iff. exact Hw.
Qed.

(* ------------------------------------------------------------------ *)
(** * The domain is stable under removing candidates *)

Lemma ddom_dom : forall p, ddom p -> dom SKFpv p.
Proof. intros p H. apply H. Qed.
Lemma ddom_sf : forall p, ddom p -> score_free (ballots p).
Proof. intros p H. apply H. Qed.
Lemma ddom_nonneg : forall p, ddom p -> nonneg_wts (ballots p).
Proof. intros p H. apply H. Qed.
Lemma ddom_wf : forall p, ddom p -> wf_profile p.
Proof. intros p H. apply H. Qed.

Lemma total_pos_list : forall l : list ballot, l <> [] -> (forall b, In b l -> 0 < wt b) -> 0 < total_wt cand l.
Proof.
  intros l Hne H. unfold Core.total_wt. destruct l as [|b l]; [exfalso; apply Hne; reflexivity|].
  cbn [map]. rewrite Lib_content.qsum_cons.
  assert (0 <= qsum (map wt l)).
  { apply Lib_content.qsum_pos_nonneg. intros q Hq. apply in_map_iff in Hq. destruct Hq as [x [<- Hx]].
    apply Qlt_le_weak. apply H. right. exact Hx. }
  pose proof (H b (or_introl eq_refl)). lra.
Qed.

Lemma ddom_remove : forall W p np, ddom p -> remove_cand_prof W true false p = inl np -> ddom np.
Proof.
  intros W p np Hd H. split; [apply (dom_remove cand ceqb ceqb_spec SKFpv W p np (ddom_dom p Hd) H)|].
  rewrite (C08_anon.remove_cand_prof_ok cand ceqb ceqb_spec W p (dom_nodup cand _ p (ddom_dom p Hd))) in H.
  injection H as <-. cbn [ballots]. unfold Core.remove_cand_bs. intros Hne.
  rewrite (Lib_condense.condense_bs_total_wt cand ceqb).
  apply total_pos_list.
  - intros E. apply Hne. rewrite E. reflexivity.
  - intros b Hb. apply filter_In in Hb. apply C12_edit.pos_wt_iff. apply Hb.
Qed.

(* ------------------------------------------------------------------ *)
(** * draw_ballot, dictator_pick, elect_one *)

Definition draw_body (p : profile) : M cand ranking :=
  if Qle_bool (total_wt cand (ballots p)) 0 then mfail EValue
  else
    do! d := next_draw cand (CChoices (map (fun b => (rk b, wt b)) (ballots p))) in
    match d with
    | DRank r =>
        if existsb (fun b => ranking_eqb r (rk b) && pos_wt cand b) (ballots p)
        then mret r else mfail EScript
    | _ => mfail EScript
    end.

Lemma draw_ballot_body : forall p, ballots p <> [] -> draw_ballot p = draw_body p.
Proof.
  intros p H. unfold Rules.draw_ballot, draw_body.
  destruct (ballots p) as [|b bs]; [exfalso; apply H; reflexivity|reflexivity].
Qed.

Lemma draw_ballot_empty : forall p (s : mstate), ballots p = [] -> draw_ballot p s = inr EIndex.
Proof. intros p s H. unfold Rules.draw_ballot. rewrite H. reflexivity. Qed.

Lemma empty_agree : forall p p', ddom p -> ddom p' -> dist_eq (ballots p) (ballots p') ->
  ballots p = [] -> ballots p' = [].
Proof.
  intros p p' Hd Hd' Hde E.
  destruct (ballots p') as [|b bs] eqn:E'; [reflexivity|]. exfalso.
  assert (Hne : ballots p' <> []) by (rewrite E'; discriminate).
  pose proof (proj2 Hd' Hne) as Hpos.
  pose proof (total_wt_anonymous cand ceqb ceqb_spec _ _ Hde) as Ht.
  rewrite E in Ht. cbn in Ht. rewrite E' in Hpos. rewrite <- Ht in Hpos. lra.
Qed.

Lemma draw_ballot_log : forall p p' (s s' : mstate),
  ddom p -> ddom p' -> profile_equiv p p' -> mstate_equiv s s' ->
  mres_equiv_log eq (draw_ballot p s) (draw_ballot p' s').
Proof.
  intros p p' s s' Hd Hd' [Hde _] Hs.
  assert (Hcase : ballots p = [] \/ ballots p <> []).
  { destruct (ballots p); [left; reflexivity|right; discriminate]. }
  destruct Hcase as [Eb|Hne].
  { rewrite (draw_ballot_empty p s Eb), (draw_ballot_empty p' s' (empty_agree p p' Hd Hd' Hde Eb)).
    reflexivity. }
  assert (Hne' : ballots p' <> []).
  { intros E'. apply Hne. apply (empty_agree p' p Hd' Hd (dist_eq_sym cand ceqb _ _ Hde) E'). }
  rewrite (draw_ballot_body p Hne), (draw_ballot_body p' Hne').
  unfold draw_body.
  rewrite (Qle_bool_comp _ (total_wt cand (ballots p')) 0 0
             (total_wt_anonymous cand ceqb ceqb_spec _ _ Hde) (Qeq_refl 0)).
  destruct (Qle_bool (total_wt cand (ballots p')) 0); [exact eq_refl|].
  apply (mbind_log eq).
  - apply next_draw_log; [|exact Hs]. cbn [AnonRules.call_equiv].
    apply pop_equiv_ballots; [apply ddom_sf; exact Hd|apply ddom_sf; exact Hd'|exact Hde].
  - intros d d' s1 s1' <- Hs1. destruct d as [l|r|l|q|c|l]; try exact eq_refl.
    assert (E : existsb (fun b : ballot => ranking_eqb r (rk b) && pos_wt cand b) (ballots p)
              = existsb (fun b : ballot => ranking_eqb r (rk b) && pos_wt cand b) (ballots p')).
    { apply eq_true_iff_eq.
      rewrite (pos_member_iff r _ (ddom_sf p Hd) (ddom_nonneg p Hd)).
      rewrite (pos_member_iff r _ (ddom_sf p' Hd') (ddom_nonneg p' Hd')).
      rewrite (Hde (as_key r [])). reflexivity. }
    rewrite E. destruct (existsb _ (ballots p')); [|exact eq_refl].
    apply mret_log; [reflexivity|exact Hs1].
Qed.

Lemma draw_perm_log : forall (x : cset) (s s' : mstate), mstate_equiv s s' ->
  mres_equiv_log eq (draw_perm cand ceqb x s) (draw_perm cand ceqb x s').
Proof.
  intros x s s' Hs. unfold Core.draw_perm. apply (mbind_log eq).
  - apply next_draw_log; [apply call_equiv_refl|exact Hs].
  - intros d d' s1 s1' <- Hs1. destruct d as [l|r|l|q|c|l]; try exact eq_refl.
    destruct (is_perm_of cand ceqb l x); [|exact eq_refl]. apply mret_log; [reflexivity|exact Hs1].
Qed.

Lemma dictator_pick_log : forall (r : ranking) (s s' : mstate), mstate_equiv s s' ->
  mres_equiv_log eq (dictator_pick r s) (dictator_pick r s').
Proof.
  intros r s s' Hs. unfold Rules.dictator_pick.
  destruct r as [|g r]; [exact eq_refl|]. destruct g as [|c [|c2 g]]; [exact eq_refl| |].
  - apply mret_log; [reflexivity|exact Hs].
  - apply (mbind_log eq).
    + cbn [Core.tiebreak_set]. apply (mbind_log eq); [apply draw_perm_log; exact Hs|].
      intros l l' s1 s1' <- Hs1. apply mret_log; [reflexivity|exact Hs1].
    + intros t t' s1 s1' <- Hs1. destruct t as [|[|c0 g0] t]; try exact eq_refl.
      apply mret_log; [reflexivity|exact Hs1].
Qed.

(* one round of a dictator election, related *)
Definition dstep_rel (x y : profile * estate) : Prop :=
  profile_equiv (fst x) (fst y) /\ state_equiv (snd x) (snd y) /\ ddom (fst x) /\ ddom (fst y) /\
  map fst (escores (snd x)) = cands (fst x) /\ map fst (escores (snd y)) = cands (fst y).

Lemma tiebreaks_refl : forall tbs : list (cset * ranking), Forall2 tiebreak_equiv tbs tbs.
Proof.
  intros tbs. induction tbs as [|t l IH]; constructor; [|exact IH].
  split; [apply Permutation_refl|apply (groups_equiv_refl cand)].
Qed.

Lemma elect_one_log : forall w tbs p p' (prev prev' : estate) (s s' : mstate),
  ddom p -> ddom p' -> profile_equiv p p' -> rnd prev = rnd prev' -> mstate_equiv s s' ->
  mres_equiv_log dstep_rel (elect_one w tbs p prev s) (elect_one w tbs p' prev' s').
Proof.
  intros w tbs p p' prev prev' s s' Hd Hd' He Hrnd Hs. unfold Rules.elect_one.
  destruct (remove_cand_prof_anonymous cand ceqb ceqb_spec [w] [w] p p'
              (dom_nodup cand _ p (ddom_dom p Hd)) (dom_nodup cand _ p' (ddom_dom p' Hd'))
              (ddom_nonneg p Hd) (ddom_nonneg p' Hd')
              (fun c => conj (fun H => H) (fun H => H)) He) as [np [np' [Enp [Enp' Hnp]]]].
  unfold mbind, mlift. rewrite Enp, Enp'. cbn [ok].
  pose proof (ddom_remove [w] p np Hd Enp) as Hdn. pose proof (ddom_remove [w] p' np' Hd' Enp') as Hdn'.
  pose proof (first_place_votes_anonymous cand ceqb ceqb_spec np np' (ddom_wf np Hdn) (ddom_wf np' Hdn') Hnp) as H2.
  destruct (first_place_votes cand ceqb np) as [d|e] eqn:E; destruct (first_place_votes cand ceqb np') as [d'|e'] eqn:E';
    cbn [res_equiv] in H2; try contradiction; [|subst e'; exact eq_refl].
  pose proof (score_rankings_keys cand ceqb np _ d E) as Hk.
  pose proof (score_rankings_keys cand ceqb np' _ d' E') as Hk'.
  cbn. split; [|exact Hs].
  split; [exact Hnp|]. split; [|split; [exact Hdn|split; [exact Hdn'|split; assumption]]].
  unfold STV.state_of_scores.
  repeat split; cbn [rnd remaining elected eliminated tiebreaks escores];
    try apply no_group_equiv; try apply H2; try apply tiebreaks_refl.
  - rewrite Hrnd. reflexivity.
  - apply (ranking_of_scores cand); [rewrite Hk; apply (ddom_wf np Hdn)|rewrite Hk'; apply (ddom_wf np' Hdn')|exact H2].
  - constructor; [apply Permutation_refl|constructor].
Qed.

Lemma rd_step_log : forall p p' (prev prev' : estate) (s s' : mstate),
  ddom p -> ddom p' -> profile_equiv p p' -> rnd prev = rnd prev' -> mstate_equiv s s' ->
  mres_equiv_log dstep_rel (rd_step p prev s) (rd_step p' prev' s').
Proof.
  intros p p' prev prev' s s' Hd Hd' He Hrnd Hs. unfold Rules.rd_step.
  apply (mbind_log eq); [apply draw_ballot_log; assumption|].
  intros r r' s1 s1' <- Hs1. apply (mbind_log eq); [apply dictator_pick_log; exact Hs1|].
  intros [w tbs] wt' s2 s2' <- Hs2. apply elect_one_log; assumption.
Qed.

(* ------------------------------------------------------------------ *)
(** * The boosted step *)

Lemma squares_keys : forall (d : scores) t, map fst (squares cand d t) = map fst d.
Proof. intros d t. unfold Rules.squares. rewrite !map_map. cbn [fst]. reflexivity. Qed.

Lemma squares_in : forall (d : scores) t c v, In (c, v) (squares cand d t) ->
  exists q, In (c, q) d /\
    v = (q / t) * (q / t) / qsum (map (fun x : cand * Q => (snd x / t) * (snd x / t)) d).
Proof.
  intros d t c v H. unfold Rules.squares in H. rewrite !map_map in H. cbn [fst snd] in H.
  apply in_map_iff in H. destruct H as [[c0 q] [E Hin]]. cbn [fst snd] in E. injection E as <- <-.
  exists q. split; [exact Hin|reflexivity].
Qed.

Lemma squares_equiv : forall (d d' : scores) t t', NoDup (map fst d) -> NoDup (map fst d') ->
  scores_equiv d d' -> t == t' -> scores_equiv (squares cand d t) (squares cand d' t').
Proof.
  intros d d' t t' Hn Hn' He Ht. split.
  - rewrite !squares_keys. apply He.
  - intros c v v' Hv Hv'. destruct (squares_in d t c v Hv) as [q [Hq ->]].
    destruct (squares_in d' t' c v' Hv') as [q' [Hq' ->]].
    assert (Eq : q == q') by (apply (proj2 He c q q' Hq Hq')).
    assert (Ez : qsum (map (fun x : cand * Q => (snd x / t) * (snd x / t)) d)
              == qsum (map (fun x : cand * Q => (snd x / t') * (snd x / t')) d')).
    { apply (scores_equiv_qsum cand ceqb ceqb_spec (fun q => (q / t) * (q / t)) (fun q => (q / t') * (q / t')));
        try assumption. intros a a' Ha. rewrite Ha, Ht. reflexivity. }
    rewrite Eq, Ht, Ez. reflexivity.
Qed.

Lemma squares_mass_equiv : forall (d d' : scores) t t', NoDup (map fst d) -> NoDup (map fst d') ->
  scores_equiv d d' -> t == t' -> squares_mass cand d t == squares_mass cand d' t'.
Proof.
  intros d d' t t' Hn Hn' He Ht. unfold Rules.squares_mass.
  apply (scores_equiv_qsum cand ceqb ceqb_spec (fun q => (q / t) * (q / t)) (fun q => (q / t') * (q / t')));
    try assumption. intros a a' Ha. rewrite Ha, Ht. reflexivity.
Qed.

Lemma scores_table_equiv : forall d d' : scores, NoDup (map fst d) -> NoDup (map fst d') ->
  scores_equiv d d' -> table_equiv d d'.
Proof.
  intros d d' Hn Hn' He. split; [apply He|]. intros c.
  apply (lookup0_equiv cand ceqb ceqb_spec); assumption.
Qed.

Definition brd_rest (p : profile) (prev : estate) (u : Q) : M cand (profile * estate) :=
  if Qle_bool u (1 / (Qnat (length (cands p)) - 1))
  then
    if Qeq_bool (total_wt cand (ballots p)) 0 then mfail EValue else
    if Qeq_bool (squares_mass cand (escores prev) (total_wt cand (ballots p))) 0 then mfail EValue else
    do! dc := next_draw cand (CNpChoice (squares cand (escores prev) (total_wt cand (ballots p)))) in
    match dc with
    | DCand w => if memb w (map fst (escores prev)) then elect_one w [] p prev else mfail EScript
    | _ => mfail EScript
    end
  else
    do! r := draw_ballot p in
    do! (w, tbs) := dictator_pick r in
    elect_one w tbs p prev.

Lemma brd_unfold : forall p prev,
  brd_step p prev =
  (do! du := next_draw cand CUniform in
   match du with
   | DUnit u => match cands p with [c] => elect_one c [] p prev | _ => brd_rest p prev u end
   | _ => mfail EScript
   end).
Proof.
  intros p prev. unfold Rules.brd_step, brd_rest.
  destruct (cands p) as [|c [|c2 cs]]; reflexivity.
Qed.

Lemma brd_rest_log : forall p p' (prev prev' : estate) u (s s' : mstate),
  ddom p -> ddom p' -> profile_equiv p p' -> state_equiv prev prev' ->
  NoDup (map fst (escores prev)) -> NoDup (map fst (escores prev')) -> mstate_equiv s s' ->
  mres_equiv_log dstep_rel (brd_rest p prev u s) (brd_rest p' prev' u s').
Proof.
  intros p p' prev prev' u s s' Hd Hd' He Hst Hn Hn' Hs. unfold brd_rest.
  rewrite <- (Permutation_length (proj2 He)).
  pose proof (total_wt_anonymous cand ceqb ceqb_spec _ _ (proj1 He)) as Ht.
  assert (Hsc : scores_equiv (escores prev) (escores prev')) by apply Hst.
  assert (Hrnd : rnd prev = rnd prev') by apply Hst.
  destruct (Qle_bool u (1 / (Qnat (length (cands p)) - 1))).
  - rewrite (Qeq_bool_comp _ (total_wt cand (ballots p')) 0 0 Ht (Qeq_refl 0)).
    destruct (Qeq_bool (total_wt cand (ballots p')) 0); [exact eq_refl|].
    rewrite (Qeq_bool_comp _ (squares_mass cand (escores prev') (total_wt cand (ballots p'))) 0 0
               (squares_mass_equiv _ _ _ _ Hn Hn' Hsc Ht) (Qeq_refl 0)).
    destruct (Qeq_bool (squares_mass cand (escores prev') (total_wt cand (ballots p'))) 0);
      [exact eq_refl|].
    apply (mbind_log eq).
    + apply next_draw_log; [|exact Hs]. cbn [AnonRules.call_equiv].
      apply scores_table_equiv.
      * rewrite squares_keys. exact Hn.
      * rewrite squares_keys. exact Hn'.
      * apply squares_equiv; assumption.
    + intros dc dc' s1 s1' <- Hs1. destruct dc as [l|r|l|q|w|l]; try exact eq_refl.
      rewrite (memb_seteq cand ceqb ceqb_spec _ (map fst (escores prev')) w (perm_seteq cand _ _ (proj1 Hsc))).
      destruct (memb w (map fst (escores prev'))); [|exact eq_refl].
      apply elect_one_log; assumption.
  - apply (mbind_log eq); [apply draw_ballot_log; assumption|].
    intros r r' s1 s1' <- Hs1. apply (mbind_log eq); [apply dictator_pick_log; exact Hs1|].
    intros [w tbs] wt' s2 s2' <- Hs2. apply elect_one_log; assumption.
Qed.

Lemma brd_step_log : forall p p' (prev prev' : estate) (s s' : mstate),
  ddom p -> ddom p' -> profile_equiv p p' -> state_equiv prev prev' ->
  NoDup (map fst (escores prev)) -> NoDup (map fst (escores prev')) -> mstate_equiv s s' ->
  mres_equiv_log dstep_rel (brd_step p prev s) (brd_step p' prev' s').
Proof.
  intros p p' prev prev' s s' Hd Hd' He Hst Hn Hn' Hs. rewrite !brd_unfold.
  apply (mbind_log eq); [apply next_draw_log; [exact I|exact Hs]|].
  intros du du' s1 s1' <- Hs1. destruct du as [l|r|l|u|w|l]; try exact eq_refl.
  assert (Hrnd : rnd prev = rnd prev') by apply Hst.
  pose proof (proj2 He) as Hp.
  destruct (cands p) as [|c [|c2 cs]] eqn:Ec.
  - apply Permutation_nil in Hp. rewrite Hp. apply brd_rest_log; assumption.
  - apply Permutation_length_1_inv in Hp. rewrite Hp. apply elect_one_log; assumption.
  - destruct (cands p') as [|c' [|c2' cs']] eqn:Ec';
      try (apply Permutation_length in Hp; cbn [length] in Hp; lia).
    apply brd_rest_log; assumption.
Qed.

(* ------------------------------------------------------------------ *)
(** * The loop and the runs *)

Lemma dictator_loop_log : forall fuel boosted m p p' sts sts' (s s' : mstate),
  ddom p -> ddom p' -> profile_equiv p p' -> Forall2 state_equiv sts sts' ->
  (forall prev prev' l l', sts = prev :: l -> sts' = prev' :: l' ->
     map fst (escores prev) = cands p /\ map fst (escores prev') = cands p') ->
  mstate_equiv s s' ->
  mres_equiv_log (Forall2 state_equiv)
    (dictator_loop cand ceqb fuel boosted m p sts s) (dictator_loop cand ceqb fuel boosted m p' sts' s').
Proof.
  induction fuel as [|fuel IH]; intros boosted m p p' sts sts' s s' Hd Hd' He Hsts Hhead Hs;
    cbn [Rules.dictator_loop]; rewrite <- (count_elected_equiv cand sts sts' Hsts).
  - destruct (m <=? count_elected cand sts)%Z; [|exact eq_refl].
    apply mret_log; [apply Forall2_rev; exact Hsts|exact Hs].
  - destruct (m <=? count_elected cand sts)%Z.
    + apply mret_log; [apply Forall2_rev; exact Hsts|exact Hs].
    + destruct Hsts as [|prev prev' sts sts' Hprev Hsts]; [exact eq_refl|].
      destruct (Hhead prev prev' sts sts' eq_refl eq_refl) as [Hk Hk'].
      assert (Hn : NoDup (map fst (escores prev))) by (rewrite Hk; apply (ddom_wf p Hd)).
      assert (Hn' : NoDup (map fst (escores prev'))) by (rewrite Hk'; apply (ddom_wf p' Hd')).
      apply (mbind_log dstep_rel).
      * destruct boosted; [apply brd_step_log; assumption|apply rd_step_log; try assumption; apply Hprev].
      * intros [np st] [np' st'] s1 s1' [H1 [H2 [H3 [H4 [H5 H6]]]]] Hs1. cbn [fst snd] in H1, H2, H3, H4, H5, H6.
        apply IH; try assumption.
        -- constructor; [exact H2|constructor; assumption].
        -- intros a a' l l' Ea Ea'. injection Ea as <- _. injection Ea' as <- _. split; assumption.
Qed.

Theorem run_dictator_log : forall boosted m p p' (s s' : mstate),
  ddom p -> ddom p' -> profile_equiv p p' -> mstate_equiv s s' ->
  mres_equiv_log (Forall2 state_equiv)
    (run_dictator cand ceqb boosted m p s) (run_dictator cand ceqb boosted m p' s').
Proof.
  intros boosted m p p' s s' Hd Hd' He Hs. unfold Rules.run_dictator.
  unfold Rules.dictator_args. rewrite <- (Permutation_length (proj2 He)).
  unfold mbind at 1. unfold mbind at 4.
  unfold mlift at 1. unfold mlift at 3.
  destruct (m <=? 0)%Z; [exact eq_refl|].
  destruct (Z.of_nat (length (cands p)) <? m)%Z; [exact eq_refl|]. cbn [ok].
  unfold mbind at 1. unfold mbind at 3. unfold mlift at 1. unfold mlift at 2.
  rewrite (ranking_validate_wf cand p (ddom_wf p Hd)), (ranking_validate_wf cand p' (ddom_wf p' Hd')). cbn [ok].
  apply (mbind_log (fun a b => state_equiv a b /\ map fst (escores a) = cands p /\ map fst (escores b) = cands p')).
  - apply mlift_log; [|exact Hs]. unfold Rules.round0. cbn [Rules.score_fn].
    pose proof (round0_anonymous cand ceqb ceqb_spec SKFpv p p' (ddom_dom p Hd) (ddom_dom p' Hd') He) as H0.
    unfold Rules.round0 in H0. cbn [Rules.score_fn] in H0.
    destruct (first_place_votes cand ceqb p) as [d|e] eqn:E; destruct (first_place_votes cand ceqb p') as [d'|e'] eqn:E';
      cbn [rbind ok res_equiv] in H0 |- *; try contradiction; [|exact H0].
    split; [exact H0|]. cbn [escores STV.state_of_scores].
    split; [apply (score_rankings_keys cand ceqb p _ d E)|apply (score_rankings_keys cand ceqb p' _ d' E')].
  - intros s0 s0' s1 s1' [H0 [Hk Hk']] Hs1. apply dictator_loop_log; try assumption.
    + constructor; [exact H0|constructor].
    + intros a a' l l' Ea Ea'. injection Ea as <- _. injection Ea' as <- _. split; assumption.
Qed.

(* from one and the same state of the random source *)
Theorem random_dictator_anonymous : forall m p p' (s : mstate),
  ddom p -> ddom p' -> profile_equiv p p' ->
  mres_equiv_log (Forall2 state_equiv)
    (run_rule cand ceqb (RRandomDictator m) p s) (run_rule cand ceqb (RRandomDictator m) p' s).
Proof. intros. cbn [Rules.run_rule]. apply run_dictator_log; try assumption. apply mstate_equiv_refl. Qed.

Theorem boosted_dictator_anonymous : forall m p p' (s : mstate),
  ddom p -> ddom p' -> profile_equiv p p' ->
  mres_equiv_log (Forall2 state_equiv)
    (run_rule cand ceqb (RBoosted m) p s) (run_rule cand ceqb (RBoosted m) p' s).
Proof. intros. cbn [Rules.run_rule]. apply run_dictator_log; try assumption. apply mstate_equiv_refl. Qed.

(* ------------------------------------------------------------------ *)
(** * The laws *)

Notation rd_domain := (rd_domain cand).
Notation same_law := (same_law cand ceqb).

Definition fgo (r : ranking) (_ : scores) : Prop := first_group_ok cand r.

Lemma first_share_compat : forall c (r r' : ranking), first_group_ok cand r -> first_group_ok cand r' ->
  ranking_eqb r r' = true -> first_share cand ceqb c r == first_share cand ceqb c r'.
Proof.
  intros c r r' [g [t [-> [_ Hn]]]] [g' [t' [-> [_ Hn']]]] H.
  cbn [Core.ranking_eqb] in H. apply andb_true_iff in H. destruct H as [Hg _].
  cbn [Laws.first_share].
  rewrite (Lib_sets.cset_eqb_memb cand ceqb ceqb_spec g g' c Hg),
          (Lib_sets.cset_eqb_length cand ceqb ceqb_spec g g' Hn Hn' Hg). reflexivity.
Qed.

Theorem rd_closed_form_anonymous : forall p p' c, rd_domain p -> rd_domain p' ->
  dist_eq (ballots p) (ballots p') -> rd_closed_form cand ceqb p c == rd_closed_form cand ceqb p' c.
Proof.
  intros p p' c [Hf _] [Hf' _] Hde. unfold Laws.rd_closed_form.
  assert (E : qsum (map (fun b : ballot => wt b * first_share cand ceqb c (rk b)) (ballots p))
           == qsum (map (fun b : ballot => wt b * first_share cand ceqb c (rk b)) (ballots p'))).
  { apply (wsum_dist_eq cand ceqb ceqb_spec fgo (fun r _ => first_share cand ceqb c r)); try assumption.
    intros k b Hk Hb Hs. apply first_share_compat; [exact Hk|exact Hb|apply (same_rk cand ceqb k b Hs)]. }
  rewrite E, (total_wt_anonymous cand ceqb ceqb_spec _ _ Hde). reflexivity.
Qed.

Theorem rd_law_anonymous : forall p p', rd_domain p -> rd_domain p' ->
  dist_eq (ballots p) (ballots p') -> same_law (law_rd_winner cand p) (law_rd_winner cand p').
Proof.
  intros p p' Hd Hd' Hde c.
  rewrite (proj2 (rd_step_law cand ceqb ceqb_spec p Hd) c), (proj2 (rd_step_law cand ceqb ceqb_spec p' Hd') c).
  apply rd_closed_form_anonymous; assumption.
Qed.

Lemma squares_closed_form_equiv : forall (d d' : scores) x, NoDup (map fst d) -> NoDup (map fst d') ->
  scores_equiv d d' -> squares_closed_form cand ceqb d x == squares_closed_form cand ceqb d' x.
Proof.
  intros d d' x Hn Hn' He. unfold Laws.squares_closed_form.
  rewrite (lookup0_equiv cand ceqb ceqb_spec d d' x Hn Hn' He).
  assert (E : qsum (map (fun q : cand * Q => snd q * snd q) d) == qsum (map (fun q : cand * Q => snd q * snd q) d')).
  { apply (scores_equiv_qsum cand ceqb ceqb_spec (fun q => q * q) (fun q => q * q)); try assumption.
    intros a a' Ha. rewrite Ha. reflexivity. }
  rewrite E. reflexivity.
Qed.

Theorem brd_law_anonymous : forall p p' (d d' : scores),
  rd_domain p -> rd_domain p' -> profile_equiv p p' -> (1 <= length (cands p))%nat ->
  NoDup (map fst d) -> NoDup (map fst d') -> scores_equiv d d' ->
  0 < qsum (map (fun q : cand * Q => snd q * snd q) d) ->
  same_law (law_brd_winner cand p d) (law_brd_winner cand p' d').
Proof.
  intros p p' d d' Hd Hd' [Hde Hp] Hlen Hn Hn' He Hpos x.
  assert (Hcase : (exists c, cands p = [c]) \/ (2 <= length (cands p))%nat).
  { destruct (cands p) as [|c [|c2 cs]]; cbn [length] in *; [lia|left; eexists; reflexivity|right; lia]. }
  destruct Hcase as [[c Ec]|H2].
  - pose proof Hp as Hp1. rewrite Ec in Hp1. apply Permutation_length_1_inv in Hp1.
    unfold Laws.law_brd_winner. rewrite Ec, Hp1. reflexivity.
  - assert (H2' : (2 <= length (cands p'))%nat) by (rewrite <- (Permutation_length Hp); exact H2).
    assert (Hpos' : 0 < qsum (map (fun q : cand * Q => snd q * snd q) d')).
    { assert (E : qsum (map (fun q : cand * Q => snd q * snd q) d) == qsum (map (fun q : cand * Q => snd q * snd q) d')).
      { apply (scores_equiv_qsum cand ceqb ceqb_spec (fun q => q * q) (fun q => q * q)); try assumption.
        intros a a' Ha. rewrite Ha. reflexivity. }
      rewrite <- E. exact Hpos. }
    rewrite (proj2 (brd_step_law cand ceqb ceqb_spec p d x Hd H2 Hn Hpos)).
    rewrite (proj2 (brd_step_law cand ceqb ceqb_spec p' d' x Hd' H2' Hn' Hpos')).
    rewrite <- (Permutation_length Hp).
    rewrite (squares_closed_form_equiv d d' x Hn Hn' He).
    rewrite (rd_closed_form_anonymous p p' x Hd Hd' Hde). reflexivity.
Qed.

End DictAnon.
