(* Proofs/C11_profile.v — PreferenceProfile: derived fields, duplicate candidates,
   __eq__ (model: [profile_eq], [ballot_eq]) and __add__ (model: [profile_add]). *)
From Coq Require Import List ZArith QArith Bool Permutation Lia Setoid PeanoNat.
From VK Require Import Base Core.
From VK.Spec Require Import Content.
From VK.Proofs Require Import Lib_content C11_condense.
Import ListNotations.

Section C11Profile.
Variable cand : Type.
Variable ceqb : cand -> cand -> bool.
Hypothesis ceqb_spec : forall a b, reflect (a = b) (ceqb a b).

Local Notation ballot := (Core.ballot cand).
Local Notation profile := (Core.profile cand).
Local Notation same := (same_content cand ceqb).
Local Notation wtof := (Content.wtof cand ceqb).
Local Notation distinct := (distinct_contents cand ceqb).
Local Notation condense_bs := (Core.condense_bs cand ceqb).
Local Notation anonymous := (Content.anonymous cand).
Local Notation ranking_eqb := (Core.ranking_eqb cand ceqb).
Local Notation scores_eqb := (Core.scores_eqb cand ceqb).
Local Notation ballot_eq := (Core.ballot_eq cand ceqb).
Local Notation profile_eq := (Core.profile_eq cand ceqb).
Local Notation profile_add := (Core.profile_add cand ceqb).
Local Notation mk_profile := (Core.mk_profile cand ceqb).
Local Notation cast_cands := (Core.cast_cands cand ceqb).
Local Notation has_dup := (Core.has_dup cand ceqb).
Local Notation total_wt := (Core.total_wt cand).

Let same_refl := same_refl cand ceqb ceqb_spec.
Let same_sym := same_sym cand ceqb.
Let same_trans := same_trans cand ceqb ceqb_spec.
Let same_iff := same_iff cand ceqb.
Let rk_refl := ranking_eqb_refl cand ceqb ceqb_spec.
Let rk_sym := ranking_eqb_sym cand ceqb.
Let rk_trans := ranking_eqb_trans cand ceqb ceqb_spec.
Let sc_refl := scores_eqb_refl cand ceqb ceqb_spec.
Let cw := condense_weights cand ceqb ceqb_spec.
Let cd := condense_distinct cand ceqb.
Let dw := distinct_wtof cand ceqb ceqb_spec.

(* ---------- derived fields ---------- *)
Lemma mk_profile_ok bs cs p :
  mk_profile bs cs = inl p ->
  ballots p = bs /\ (cs <> [] -> cands p = cs) /\ (cs = [] -> cands p = cast_cands bs) /\ NoDup cs.
Proof.
  unfold Core.mk_profile, ok, err. destruct (has_dup cs) eqn:E; intro H; [discriminate H|].
  injection H as <-. cbn [ballots cands]. split; [reflexivity|]. split; [|split].
  - destruct cs; [intro K; contradiction K; reflexivity | reflexivity].
  - intros ->. reflexivity.
  - apply (has_dup_false_iff cand ceqb ceqb_spec). exact E.
Qed.

Lemma mk_profile_err bs cs e : mk_profile bs cs = inr e -> e = EValue /\ ~ NoDup cs.
Proof.
  unfold Core.mk_profile, ok, err. destruct (has_dup cs) eqn:E; intro H; [|discriminate H].
  injection H as <-. split; [reflexivity|].
  apply (has_dup_true_iff cand ceqb ceqb_spec). exact E.
Qed.

Lemma mk_profile_dup_iff bs cs : mk_profile bs cs = inr EValue <-> ~ NoDup cs.
Proof.
  split.
  - intro H. apply (mk_profile_err _ _ _ H).
  - intro H. apply (has_dup_true_iff cand ceqb ceqb_spec) in H.
    unfold Core.mk_profile. rewrite H. reflexivity.
Qed.

Lemma mk_profile_total bs cs : NoDup cs -> exists p, mk_profile bs cs = inl p.
Proof.
  intro H. apply (has_dup_false_iff cand ceqb ceqb_spec) in H.
  unfold Core.mk_profile. rewrite H. eexists. reflexivity.
Qed.

Lemma cast_cands_In c bs :
  In c (cast_cands bs) <->
  exists b, In b bs /\ 0 < wt b /\
            ((exists g, In g (rk b) /\ In c g) \/ (exists s, In (c, s) (sc b))).
Proof.
  unfold Core.cast_cands. rewrite (In_dedup cand ceqb ceqb_spec), in_concat. split.
  - intros [l [Hl Hc]]. apply in_map_iff in Hl as [b [<- Hb]].
    destruct (Qlt_bool 0 (wt b)) eqn:E; [|destruct Hc].
    exists b. split; [exact Hb|]. split; [apply Qlt_bool_iff; exact E|].
    unfold ballot_cands, flat in Hc. apply in_app_or in Hc as [Hc|Hc].
    + left. apply in_concat in Hc as [g [Hg Hcg]]. exists g. split; assumption.
    + right. apply in_map_iff in Hc as [[c' s] [E' H]]. cbn [fst] in E'. subst c'.
      exists s. exact H.
  - intros [b [Hb [W H]]].
    exists (if Qlt_bool 0 (wt b) then ballot_cands cand b else []). split.
    + apply in_map_iff. exists b. split; [reflexivity | exact Hb].
    + rewrite (proj2 (Qlt_bool_iff 0 (wt b)) W). unfold ballot_cands, flat. apply in_or_app.
      destruct H as [[g [Hg Hc]]|[s Hs]].
      * left. apply in_concat. exists g. split; assumption.
      * right. apply in_map_iff. exists (c, s). split; [reflexivity | exact Hs].
Qed.

Lemma cast_cands_NoDup bs : NoDup (cast_cands bs).
Proof. unfold Core.cast_cands. apply (NoDup_dedup cand ceqb ceqb_spec). Qed.

Lemma total_wt_def bs : total_wt bs = qsum (map wt bs).
Proof. reflexivity. Qed.

Lemma total_wt_app bs bs' : total_wt (bs ++ bs') == total_wt bs + total_wt bs'.
Proof. unfold Core.total_wt. rewrite map_app. apply qsum_app. Qed.

Lemma total_wt_perm bs bs' : Permutation bs bs' -> total_wt bs == total_wt bs'.
Proof. intro P. unfold Core.total_wt. apply qsum_perm. apply Permutation_map. exact P. Qed.

(* ---------- ballot_eq on an anonymous left operand ---------- *)
Definition wm (a b : ballot) : Prop :=
  ranking_eqb (rk a) (rk b) = true /\ wt a == wt b /\
  (sc a = [] \/ scores_eqb (sc a) (sc b) = true).

Lemma ballot_eq_anon a b : anonymous a -> (ballot_eq a b = true <-> wm a b).
Proof.
  destruct a as [r w s i v]. unfold Content.anonymous, wm. cbn [bid vs rk wt sc]. intros [-> ->].
  unfold Core.ballot_eq. cbn [bid vs rk wt sc].
  rewrite !andb_true_iff, Qeq_bool_iff. split.
  - intros [[[[_ A] B] _] C]. split; [exact A|]. split; [exact B|].
    destruct s as [|x s]; [left; reflexivity | right; exact C].
  - intros [A [B C]]. split; [split; [split; [split; [reflexivity | exact A] | exact B] | reflexivity]|].
    destruct s as [|x s]; [reflexivity|]. destruct C as [C|C]; [discriminate C | exact C].
Qed.

(* ---------- profile_eq: the condensed profiles give every content the same weight ---------- *)
Lemma nonzero_wt_iff (b : ballot) : Core.nonzero_wt cand b = true <-> ~ wt b == 0.
Proof.
  unfold Core.nonzero_wt. rewrite negb_true_iff. split.
  - apply Qeq_bool_neq.
  - intro H. destruct (Qeq_bool (wt b) 0) eqn:E; [|reflexivity].
    apply Qeq_bool_iff in E. contradiction.
Qed.

Lemma content_in_iff b l :
  Core.content_in cand ceqb b l = true <-> exists b', In b' l /\ same b b' = true /\ wt b == wt b'.
Proof.
  unfold Core.content_in. rewrite existsb_exists. split; intros [x [Hx H]]; exists x; split; try exact Hx.
  - apply andb_true_iff in H as [S W]. apply Qeq_bool_iff in W. split; [exact S | exact W].
  - destruct H as [S W]. apply andb_true_iff. split; [exact S | apply Qeq_bool_iff; exact W].
Qed.

(* in a list of distinct contents, a content of non-zero weight is one non-zero-weight ballot *)
Lemma distinct_nonzero_ex l k :
  distinct l -> ~ wtof k l == 0 ->
  exists c, In c (filter (Core.nonzero_wt cand) l) /\ same k c = true /\ wtof k l == wt c.
Proof.
  intros D N. pose proof N as N'. apply (wtof_nonzero_ex cand ceqb) in N' as [c [Hc S]].
  pose proof (dw l D k c Hc S) as W. exists c. split; [|split; [exact S | exact W]].
  apply filter_In. split; [exact Hc|]. apply nonzero_wt_iff. rewrite <- W. exact N.
Qed.

Lemma eq_half l1 l2 k :
  distinct l1 -> distinct l2 ->
  (forall b, In b (filter (Core.nonzero_wt cand) l1) ->
             Core.content_in cand ceqb b (filter (Core.nonzero_wt cand) l2) = true) ->
  ~ wtof k l1 == 0 -> wtof k l1 == wtof k l2.
Proof.
  intros D1 D2 A N.
  destruct (distinct_nonzero_ex l1 k D1 N) as [c [Hc [S W]]].
  apply A in Hc. apply content_in_iff in Hc as [b' [Hb' [S' W']]].
  apply filter_In in Hb' as [Hb' _].
  rewrite W, W'. symmetry. apply (dw l2 D2 k b' Hb').
  eapply same_trans; eassumption.
Qed.

Lemma profile_eq_unfold p q :
  profile_eq p q = true <->
  (forall b, In b (filter (Core.nonzero_wt cand) (condense_bs (ballots p))) ->
     Core.content_in cand ceqb b (filter (Core.nonzero_wt cand) (condense_bs (ballots q))) = true) /\
  (forall b, In b (filter (Core.nonzero_wt cand) (condense_bs (ballots q))) ->
     Core.content_in cand ceqb b (filter (Core.nonzero_wt cand) (condense_bs (ballots p))) = true).
Proof.
  unfold Core.profile_eq. cbv zeta. rewrite andb_true_iff, !forallb_forall. reflexivity.
Qed.

Lemma complete_half P Q :
  (forall k, wtof k P == wtof k Q) ->
  forall b, In b (filter (Core.nonzero_wt cand) (condense_bs P)) ->
    Core.content_in cand ceqb b (filter (Core.nonzero_wt cand) (condense_bs Q)) = true.
Proof.
  intros W b Hb. apply filter_In in Hb as [Hb NZ]. apply nonzero_wt_iff in NZ.
  pose proof (dw _ (cd P) b b Hb (same_refl b)) as Wb.
  assert (~ wtof b (condense_bs Q) == 0) as N.
  { rewrite (cw b Q), <- (W b), <- (cw b P), Wb. exact NZ. }
  destruct (distinct_nonzero_ex _ b (cd Q) N) as [c [Hc [S Wc]]].
  apply content_in_iff. exists c. split; [exact Hc|]. split; [exact S|].
  rewrite <- Wc, (cw b Q), <- (W b), <- (cw b P). symmetry. exact Wb.
Qed.

(* the coded __eq__ is exactly "same total weight for every content", for ALL profiles *)
Lemma profile_eq_iff p q :
  profile_eq p q = true <-> forall k, wtof k (ballots p) == wtof k (ballots q).
Proof.
  rewrite profile_eq_unfold. split.
  - intros [A B] k. rewrite <- (cw k (ballots p)), <- (cw k (ballots q)).
    destruct (Qeq_dec (wtof k (condense_bs (ballots p))) 0) as [Zp|Np].
    + destruct (Qeq_dec (wtof k (condense_bs (ballots q))) 0) as [Zq|Nq].
      * rewrite Zp, Zq. reflexivity.
      * symmetry. apply eq_half; try apply cd; assumption.
    + apply eq_half; try apply cd; assumption.
  - intro W. split.
    + apply complete_half. exact W.
    + apply complete_half. intro k. symmetry. apply W.
Qed.

Lemma profile_eq_refl p : profile_eq p p = true.
Proof. apply profile_eq_iff. intro k. reflexivity. Qed.

Lemma profile_eq_sym p q : profile_eq p q = profile_eq q p.
Proof. unfold Core.profile_eq. cbv zeta. apply andb_comm. Qed.

Lemma profile_eq_trans p q r :
  profile_eq p q = true -> profile_eq q r = true -> profile_eq p r = true.
Proof.
  rewrite !profile_eq_iff. intros A B k. rewrite (A k). apply B.
Qed.

(* ---------- __add__ ---------- *)
Lemma profile_add_total p q :
  profile_add p q = inl (mkProfile (ballots p ++ ballots q) (cast_cands (ballots p ++ ballots q))).
Proof. reflexivity. Qed.

Lemma profile_add_spec p q r :
  profile_add p q = inl r ->
  ballots r = ballots p ++ ballots q /\
  cands r = cast_cands (ballots p ++ ballots q) /\
  (forall k, wtof k (ballots r) == wtof k (ballots p) + wtof k (ballots q)) /\
  total_wt (ballots r) == total_wt (ballots p) + total_wt (ballots q).
Proof.
  rewrite profile_add_total. intro H. injection H as <-. cbn [ballots cands].
  split; [reflexivity|]. split; [reflexivity|]. split.
  - intro k. apply (wtof_app cand ceqb).
  - apply total_wt_app.
Qed.

Lemma cast_cands_spec bs :
  NoDup (cast_cands bs) /\
  forall c, In c (cast_cands bs) <->
    exists b, In b bs /\ 0 < wt b /\
              ((exists g, In g (rk b) /\ In c g) \/ (exists s, In (c, s) (sc b))).
Proof. split; [apply cast_cands_NoDup | intro c; apply cast_cands_In]. Qed.

Lemma mk_profile_dup_full bs cs :
  (mk_profile bs cs = inr EValue <-> ~ NoDup cs) /\
  (forall e, mk_profile bs cs = inr e -> e = EValue) /\
  (NoDup cs -> exists p, mk_profile bs cs = inl p).
Proof.
  split; [apply mk_profile_dup_iff|]. split.
  - intros e H. exact (proj1 (mk_profile_err bs cs e H)).
  - apply mk_profile_total.
Qed.

Lemma profile_add_total_ex p q : exists r, profile_add p q = inl r.
Proof. eexists. apply profile_add_total. Qed.

End C11Profile.

(* ---------- former boundary cases of the coded __eq__, now behaving as the property says ---------- *)
Definition ex_b (r : list (list positive)) (w : Q) (s : list (positive * Q)) : ballot positive :=
  mkBallot r w s None None.

(* an extra zero-weight ballot does not change any content weight: the profiles are equal *)
Definition ex_z1 : profile positive := mkProfile [ex_b [[1%positive]] 1 []] [1%positive].
Definition ex_z2 : profile positive :=
  mkProfile [ex_b [[1%positive]] 1 []; ex_b [[2%positive]] 0 []] [1%positive].

Lemma eq_zero_weight_example : profile_eq positive Pos.eqb ex_z1 ex_z2 = true.
Proof. vm_compute. reflexivity. Qed.

(* same rankings and weights but different scores: unequal (no wild-card on missing scores) *)
Definition ex_w1 : profile positive :=
  mkProfile [ex_b [[1%positive]] 1 [(1%positive, 1)]; ex_b [[1%positive]] 1 []] [1%positive].
Definition ex_w2 : profile positive :=
  mkProfile [ex_b [[1%positive]] 1 [(1%positive, 2)]; ex_b [[1%positive]] 1 []] [1%positive].

Lemma eq_wildcard_example :
  profile_eq positive Pos.eqb ex_w1 ex_w2 = false /\
  ~ wtof positive Pos.eqb (ex_b [[1%positive]] 1 [(1%positive, 1)]) (ballots ex_w1) ==
    wtof positive Pos.eqb (ex_b [[1%positive]] 1 [(1%positive, 1)]) (ballots ex_w2).
Proof. split; [vm_compute; reflexivity | vm_compute; intro H; discriminate H]. Qed.
