(* Proofs/C11_profile.v — PreferenceProfile: derived fields, duplicate candidates,
   __eq__ (model: [profile_eq], [ballot_eq]) and __add__ (model: [profile_add]). *)
From Coq Require Import List ZArith QArith Bool Permutation Lia Setoid PeanoNat.
From VK Require Import Base Core.
From VK.Spec Require Import Content.
From VK.Proofs Require Import Lib_content C11_condense.
Import ListNotations.

Section C11Profile.
Variable cand : Type.
Variable ceqb : cand -> cand -> bool.
Hypothesis ceqb_spec : forall a b, reflect (a = b) (ceqb a b).

Local Notation ballot := (Core.ballot cand).
Local Notation profile := (Core.profile cand).
Local Notation same := (same_content cand ceqb).
Local Notation wtof := (Content.wtof cand ceqb).
Local Notation distinct := (distinct_contents cand ceqb).
Local Notation condense_bs := (Core.condense_bs cand ceqb).
Local Notation anonymous := (Content.anonymous cand).
Local Notation unscored := (Content.unscored cand).
Local Notation no_mixed := (Content.no_mixed cand ceqb).
Local Notation all_pos := (Content.all_pos cand).
Local Notation nonzero_contents := (Content.nonzero_contents cand ceqb).
Local Notation ranking_eqb := (Core.ranking_eqb cand ceqb).
Local Notation scores_eqb := (Core.scores_eqb cand ceqb).
Local Notation ballot_eq := (Core.ballot_eq cand ceqb).
Local Notation profile_eq := (Core.profile_eq cand ceqb).
Local Notation profile_add := (Core.profile_add cand ceqb).
Local Notation mk_profile := (Core.mk_profile cand ceqb).
Local Notation cast_cands := (Core.cast_cands cand ceqb).
Local Notation has_dup := (Core.has_dup cand ceqb).
Local Notation total_wt := (Core.total_wt cand).

Let same_refl := same_refl cand ceqb ceqb_spec.
Let same_sym := same_sym cand ceqb.
Let same_trans := same_trans cand ceqb ceqb_spec.
Let same_iff := same_iff cand ceqb.
Let rk_refl := ranking_eqb_refl cand ceqb ceqb_spec.
Let rk_sym := ranking_eqb_sym cand ceqb.
Let rk_trans := ranking_eqb_trans cand ceqb ceqb_spec.
Let sc_refl := scores_eqb_refl cand ceqb ceqb_spec.
Let cw := condense_weights cand ceqb ceqb_spec.
Let cd := condense_distinct cand ceqb.
Let dw := distinct_wtof cand ceqb ceqb_spec.

(* ---------- derived fields ---------- *)
Lemma mk_profile_ok bs cs p :
  mk_profile bs cs = inl p ->
  ballots p = bs /\ (cs <> [] -> cands p = cs) /\ (cs = [] -> cands p = cast_cands bs) /\ NoDup cs.
Proof.
  unfold Core.mk_profile, ok, err. destruct (has_dup cs) eqn:E; intro H; [discriminate H|].
  injection H as <-. cbn [ballots cands]. split; [reflexivity|]. split; [|split].
  - destruct cs; [intro K; contradiction K; reflexivity | reflexivity].
  - intros ->. reflexivity.
  - apply (has_dup_false_iff cand ceqb ceqb_spec). exact E.
Qed.

Lemma mk_profile_err bs cs e : mk_profile bs cs = inr e -> e = EValue /\ ~ NoDup cs.
Proof.
  unfold Core.mk_profile, ok, err. destruct (has_dup cs) eqn:E; intro H; [|discriminate H].
  injection H as <-. split; [reflexivity|].
  apply (has_dup_true_iff cand ceqb ceqb_spec). exact E.
Qed.

Lemma mk_profile_dup_iff bs cs : mk_profile bs cs = inr EValue <-> ~ NoDup cs.
Proof.
  split.
  - intro H. apply (mk_profile_err _ _ _ H).
  - intro H. apply (has_dup_true_iff cand ceqb ceqb_spec) in H.
    unfold Core.mk_profile. rewrite H. reflexivity.
Qed.

Lemma mk_profile_total bs cs : NoDup cs -> exists p, mk_profile bs cs = inl p.
Proof.
  intro H. apply (has_dup_false_iff cand ceqb ceqb_spec) in H.
  unfold Core.mk_profile. rewrite H. eexists. reflexivity.
Qed.

Lemma cast_cands_In c bs :
  In c (cast_cands bs) <->
  exists b, In b bs /\ 0 < wt b /\
            ((exists g, In g (rk b) /\ In c g) \/ (exists s, In (c, s) (sc b))).
Proof.
  unfold Core.cast_cands. rewrite (In_dedup cand ceqb ceqb_spec), in_concat. split.
  - intros [l [Hl Hc]]. apply in_map_iff in Hl as [b [<- Hb]].
    destruct (Qlt_bool 0 (wt b)) eqn:E; [|destruct Hc].
    exists b. split; [exact Hb|]. split; [apply Qlt_bool_iff; exact E|].
    unfold ballot_cands, flat in Hc. apply in_app_or in Hc as [Hc|Hc].
    + left. apply in_concat in Hc as [g [Hg Hcg]]. exists g. split; assumption.
    + right. apply in_map_iff in Hc as [[c' s] [E' H]]. cbn [fst] in E'. subst c'.
      exists s. exact H.
  - intros [b [Hb [W H]]].
    exists (if Qlt_bool 0 (wt b) then ballot_cands cand b else []). split.
    + apply in_map_iff. exists b. split; [reflexivity | exact Hb].
    + rewrite (proj2 (Qlt_bool_iff 0 (wt b)) W). unfold ballot_cands, flat. apply in_or_app.
      destruct H as [[g [Hg Hc]]|[s Hs]].
      * left. apply in_concat. exists g. split; assumption.
      * right. apply in_map_iff. exists (c, s). split; [reflexivity | exact Hs].
Qed.

Lemma cast_cands_NoDup bs : NoDup (cast_cands bs).
Proof. unfold Core.cast_cands. apply (NoDup_dedup cand ceqb ceqb_spec). Qed.

Lemma total_wt_def bs : total_wt bs = qsum (map wt bs).
Proof. reflexivity. Qed.

Lemma total_wt_app bs bs' : total_wt (bs ++ bs') == total_wt bs + total_wt bs'.
Proof. unfold Core.total_wt. rewrite map_app. apply qsum_app. Qed.

Lemma total_wt_perm bs bs' : Permutation bs bs' -> total_wt bs == total_wt bs'.
Proof. intro P. unfold Core.total_wt. apply qsum_perm. apply Permutation_map. exact P. Qed.

(* ---------- ballot_eq on an anonymous left operand ---------- *)
Definition wm (a b : ballot) : Prop :=
  ranking_eqb (rk a) (rk b) = true /\ wt a == wt b /\
  (sc a = [] \/ scores_eqb (sc a) (sc b) = true).

Lemma ballot_eq_anon a b : anonymous a -> (ballot_eq a b = true <-> wm a b).
Proof.
  destruct a as [r w s i v]. unfold Content.anonymous, wm. cbn [bid vs rk wt sc]. intros [-> ->].
  unfold Core.ballot_eq. cbn [bid vs rk wt sc].
  rewrite !andb_true_iff, Qeq_bool_iff. split.
  - intros [[[[_ A] B] _] C]. split; [exact A|]. split; [exact B|].
    destruct s as [|x s]; [left; reflexivity | right; exact C].
  - intros [A [B C]]. split; [split; [split; [split; [reflexivity | exact A] | exact B] | reflexivity]|].
    destruct s as [|x s]; [reflexivity|]. destruct C as [C|C]; [discriminate C | exact C].
Qed.

Lemma profile_eq_lowlevel p q :
  profile_eq p q = true <->
  (forall b, In b (condense_bs (ballots p)) -> exists b', In b' (condense_bs (ballots q)) /\ wm b' b) /\
  (forall b, In b (condense_bs (ballots q)) -> exists b', In b' (condense_bs (ballots p)) /\ wm b' b).
Proof.
  pose proof (condense_anon cand ceqb (ballots p)) as Ap.
  pose proof (condense_anon cand ceqb (ballots q)) as Aq.
  rewrite Forall_forall in Ap, Aq.
  unfold Core.profile_eq. cbv zeta. rewrite andb_true_iff, !forallb_forall.
  split; intros [A B]; split; intros b Hb.
  - specialize (A b Hb). apply existsb_exists in A as [b' [Hb' E]].
    exists b'. split; [exact Hb'|]. apply ballot_eq_anon; [apply Aq; exact Hb' | exact E].
  - specialize (B b Hb). apply existsb_exists in B as [b' [Hb' E]].
    exists b'. split; [exact Hb'|]. apply ballot_eq_anon; [apply Ap; exact Hb' | exact E].
  - destruct (A b Hb) as [b' [Hb' W]]. apply existsb_exists. exists b'. split; [exact Hb'|].
    apply ballot_eq_anon; [apply Aq; exact Hb' | exact W].
  - destruct (B b Hb) as [b' [Hb' W]]. apply existsb_exists. exists b'. split; [exact Hb'|].
    apply ballot_eq_anon; [apply Ap; exact Hb' | exact W].
Qed.

Lemma wm_refl b : wm b b.
Proof. split; [apply rk_refl|]. split; [reflexivity|]. right. apply sc_refl. Qed.

Lemma profile_eq_refl p : profile_eq p p = true.
Proof.
  apply profile_eq_lowlevel. split; intros b Hb; exists b; (split; [exact Hb | apply wm_refl]).
Qed.

Lemma profile_eq_sym p q : profile_eq p q = profile_eq q p.
Proof. unfold Core.profile_eq. cbv zeta. apply andb_comm. Qed.

(* ---------- from the low-level condition to content weights and back ---------- *)
Lemma same_of_wm_scores a b :
  ranking_eqb (rk a) (rk b) = true -> scores_eqb (sc a) (sc b) = true -> same a b = true.
Proof. intros A B. apply same_iff. split; assumption. Qed.

(* one direction of the comparison, stated for lists *)
Lemma half_char_to P Q :
  (forall c, In c (condense_bs P) -> exists b', In b' (condense_bs Q) /\ wm b' c) ->
  forall b, In b P -> wtof b Q == wtof b P \/ wtof (unscored b) Q == wtof b P.
Proof.
  intros H b Hb.
  destruct (condense_covers cand ceqb ceqb_spec P b Hb) as [c [Hc Scb]].
  assert (wtof b P == wt c) as WP.
  { rewrite <- (cw b P). apply (dw _ (cd P) b c Hc). rewrite same_sym. exact Scb. }
  destruct (H c Hc) as [b' [Hb' [R [W [S|S]]]]].
  - right. rewrite WP, <- W, <- (cw (unscored b) Q).
    apply (dw _ (cd Q) (unscored b) b' Hb'). apply same_iff. cbn [Content.unscored rk sc].
    split.
    + apply same_iff in Scb as [Rcb _]. rewrite rk_sym.
      eapply rk_trans; [exact R | exact Rcb].
    + rewrite S. reflexivity.
  - left. rewrite WP, <- W, <- (cw b Q).
    apply (dw _ (cd Q) b b' Hb').
    eapply same_trans; [rewrite same_sym; exact Scb|].
    rewrite same_sym. apply same_of_wm_scores; assumption.
Qed.

Lemma half_char_from P Q :
  nonzero_contents P ->
  (forall b, In b P -> wtof b Q == wtof b P \/ wtof (unscored b) Q == wtof b P) ->
  forall c, In c (condense_bs P) -> exists b', In b' (condense_bs Q) /\ wm b' c.
Proof.
  intros NZ H c Hc.
  destruct (condense_no_invented cand ceqb P c Hc) as [y [Hy [Ery Esy]]].
  assert (same y c = true) as Syc.
  { rewrite (same_ext_r cand ceqb c y y Ery Esy). apply same_refl. }
  assert (wtof y P == wt c) as WP.
  { rewrite <- (cw y P). apply (dw _ (cd P) y c Hc Syc). }
  pose proof (NZ y Hy) as NZy.
  destruct (H y Hy) as [E|E].
  - assert (~ wtof y (condense_bs Q) == 0) as N.
    { rewrite (cw y Q), E. exact NZy. }
    apply (wtof_nonzero_ex cand ceqb) in N as [b' [Hb' S]].
    exists b'. split; [exact Hb'|].
    assert (same b' c = true) as Sb'c.
    { eapply same_trans; [rewrite same_sym; exact S | exact Syc]. }
    apply same_iff in Sb'c as [R Sc]. split; [exact R|]. split; [|right; exact Sc].
    rewrite <- WP, <- E, <- (cw y Q). symmetry. apply (dw _ (cd Q) y b' Hb' S).
  - assert (~ wtof (unscored y) (condense_bs Q) == 0) as N.
    { rewrite (cw (unscored y) Q), E. exact NZy. }
    apply (wtof_nonzero_ex cand ceqb) in N as [b' [Hb' S]].
    exists b'. split; [exact Hb'|].
    pose proof S as S'. apply same_iff in S' as [R Sc]. cbn [Content.unscored rk sc] in R, Sc.
    apply (scores_eqb_nil_l cand ceqb) in Sc.
    split; [|split; [|left; exact Sc]].
    + rewrite Ery, rk_sym. exact R.
    + rewrite <- WP, <- E, <- (cw (unscored y) Q). symmetry.
      apply (dw _ (cd Q) (unscored y) b' Hb' S).
Qed.

Lemma all_pos_nonzero bs : all_pos bs -> nonzero_contents bs.
Proof.
  intros P b Hb E.
  assert (0 < wtof b bs) as L.
  { apply (wtof_pos cand ceqb); [exact P|]. exists b. split; [exact Hb | apply same_refl]. }
  rewrite E in L. exact (Qlt_irrefl _ L).
Qed.

(* exact characterisation of the coded __eq__ (wild-card included) *)
Lemma profile_eq_char p q :
  nonzero_contents (ballots p) -> nonzero_contents (ballots q) ->
  (profile_eq p q = true <->
   (forall b, In b (ballots p) ->
      wtof b (ballots q) == wtof b (ballots p) \/ wtof (unscored b) (ballots q) == wtof b (ballots p)) /\
   (forall b, In b (ballots q) ->
      wtof b (ballots p) == wtof b (ballots q) \/ wtof (unscored b) (ballots p) == wtof b (ballots q))).
Proof.
  intros NP NQ. rewrite profile_eq_lowlevel. split; intros [A B]; split.
  - apply half_char_to. exact A.
  - apply half_char_to. exact B.
  - apply half_char_from; assumption.
  - apply half_char_from; assumption.
Qed.

Lemma profile_eq_complete p q :
  nonzero_contents (ballots p) -> nonzero_contents (ballots q) ->
  (forall k, wtof k (ballots p) == wtof k (ballots q)) -> profile_eq p q = true.
Proof.
  intros NP NQ W. apply profile_eq_char; [exact NP | exact NQ|]. split; intros b Hb; left.
  - symmetry. apply W.
  - apply W.
Qed.

(* with no ranking cast both scored and unscored, the wild-card is never exercised *)
Lemma wm_same_nm L x y x0 y0 :
  no_mixed L -> In x0 L -> In y0 L ->
  rk x = rk x0 -> sc x = sc x0 -> rk y = rk y0 -> sc y = sc y0 ->
  wm x y -> same x y = true.
Proof.
  intros NM Hx Hy Rx Sx Ry Sy [R [_ [S|S]]].
  - apply same_iff. split; [exact R|].
    assert (sc y0 = []) as E.
    { apply (NM x0 y0 Hx Hy); [rewrite <- Rx, <- Ry; exact R | rewrite <- Sx; exact S]. }
    rewrite S, Sy, E. reflexivity.
  - apply same_iff. split; assumption.
Qed.

Lemma profile_eq_sound p q :
  no_mixed (ballots p ++ ballots q) -> profile_eq p q = true ->
  forall k, wtof k (ballots p) == wtof k (ballots q).
Proof.
  intros NM E k. apply profile_eq_lowlevel in E as [A B].
  set (P := ballots p) in *. set (Q := ballots q) in *.
  rewrite <- (cw k P), <- (cw k Q).
  assert (forall c b', In c (condense_bs P) -> In b' (condense_bs Q) -> wm b' c -> same b' c = true) as KA.
  { intros c b' Hc Hb' W.
    destruct (condense_no_invented cand ceqb P c Hc) as [y [Hy [Ey Sy]]].
    destruct (condense_no_invented cand ceqb Q b' Hb') as [z [Hz [Ez Sz]]].
    apply (wm_same_nm (P ++ Q) b' c z y NM); try assumption; apply in_or_app; [right|left]; assumption. }
  assert (forall c b', In c (condense_bs Q) -> In b' (condense_bs P) -> wm b' c -> same b' c = true) as KB.
  { intros c b' Hc Hb' W.
    destruct (condense_no_invented cand ceqb Q c Hc) as [y [Hy [Ey Sy]]].
    destruct (condense_no_invented cand ceqb P b' Hb') as [z [Hz [Ez Sz]]].
    apply (wm_same_nm (P ++ Q) b' c z y NM); try assumption; apply in_or_app; [left|right]; assumption. }
  destruct (existsb (fun x => same x k) (condense_bs P)) eqn:Ek.
  - apply existsb_exists in Ek as [c [Hc Sck]].
    destruct (A c Hc) as [b' [Hb' W]]. pose proof (KA c b' Hc Hb' W) as Sb'c.
    destruct W as [_ [W _]].
    rewrite (dw _ (cd P) k c Hc); [|rewrite same_sym; exact Sck].
    rewrite (dw _ (cd Q) k b' Hb'); [symmetry; exact W|].
    rewrite same_sym. eapply same_trans; eassumption.
  - assert (forall x, In x (condense_bs P) -> same x k = false) as NP.
    { intros x Hx. destruct (same x k) eqn:F; [|reflexivity].
      assert (existsb (fun x => same x k) (condense_bs P) = true) as T
        by (apply existsb_exists; exists x; split; assumption).
      rewrite T in Ek. discriminate Ek. }
    rewrite (wtof_none cand ceqb k (condense_bs P)).
    + symmetry. apply (wtof_none cand ceqb). intros x Hx.
      destruct (same k x) eqn:F; [|reflexivity]. exfalso.
      destruct (B x Hx) as [b'' [Hb'' W]]. pose proof (KB x b'' Hx Hb'' W) as S.
      assert (same b'' k = true) as T.
      { eapply same_trans; [exact S|]. rewrite same_sym. exact F. }
      rewrite (NP b'' Hb'') in T. discriminate T.
    + intros x Hx. rewrite same_sym. apply NP. exact Hx.
Qed.

Lemma profile_eq_iff_nonzero p q :
  nonzero_contents (ballots p) -> nonzero_contents (ballots q) ->
  no_mixed (ballots p ++ ballots q) ->
  (profile_eq p q = true <-> forall k, wtof k (ballots p) == wtof k (ballots q)).
Proof.
  intros NP NQ NM. split.
  - apply profile_eq_sound. exact NM.
  - apply profile_eq_complete; assumption.
Qed.

Lemma profile_eq_iff p q :
  all_pos (ballots p) -> all_pos (ballots q) ->
  no_mixed (ballots p ++ ballots q) ->
  (profile_eq p q = true <-> forall k, wtof k (ballots p) == wtof k (ballots q)).
Proof.
  intros PP PQ. apply profile_eq_iff_nonzero; apply all_pos_nonzero; assumption.
Qed.

(* ---------- __add__ ---------- *)
Lemma profile_add_total p q :
  profile_add p q = inl (mkProfile (ballots p ++ ballots q) (cast_cands (ballots p ++ ballots q))).
Proof. reflexivity. Qed.

Lemma profile_add_spec p q r :
  profile_add p q = inl r ->
  ballots r = ballots p ++ ballots q /\
  cands r = cast_cands (ballots p ++ ballots q) /\
  (forall k, wtof k (ballots r) == wtof k (ballots p) + wtof k (ballots q)) /\
  total_wt (ballots r) == total_wt (ballots p) + total_wt (ballots q).
Proof.
  rewrite profile_add_total. intro H. injection H as <-. cbn [ballots cands].
  split; [reflexivity|]. split; [reflexivity|]. split.
  - intro k. apply (wtof_app cand ceqb).
  - apply total_wt_app.
Qed.

Lemma cast_cands_spec bs :
  NoDup (cast_cands bs) /\
  forall c, In c (cast_cands bs) <->
    exists b, In b bs /\ 0 < wt b /\
              ((exists g, In g (rk b) /\ In c g) \/ (exists s, In (c, s) (sc b))).
Proof. split; [apply cast_cands_NoDup | intro c; apply cast_cands_In]. Qed.

Lemma mk_profile_dup_full bs cs :
  (mk_profile bs cs = inr EValue <-> ~ NoDup cs) /\
  (forall e, mk_profile bs cs = inr e -> e = EValue) /\
  (NoDup cs -> exists p, mk_profile bs cs = inl p).
Proof.
  split; [apply mk_profile_dup_iff|]. split.
  - intros e H. exact (proj1 (mk_profile_err bs cs e H)).
  - apply mk_profile_total.
Qed.

Lemma profile_add_total_ex p q : exists r, profile_add p q = inl r.
Proof. eexists. apply profile_add_total. Qed.

End C11Profile.

(* ---------- boundary counterexamples (cand := positive) ---------- *)
Definition ex_b (r : list (list positive)) (w : Q) (s : list (positive * Q)) : ballot positive :=
  mkBallot r w s None None.

(* an extra zero-weight ballot: same weight for every content, yet unequal *)
Definition ex_z1 : profile positive := mkProfile [ex_b [[1%positive]] 1 []] [1%positive].
Definition ex_z2 : profile positive :=
  mkProfile [ex_b [[1%positive]] 1 []; ex_b [[2%positive]] 0 []] [1%positive].

Lemma eq_zero_weight_refuted :
  exists p q : profile positive,
    (forall k, wtof positive Pos.eqb k (ballots p) == wtof positive Pos.eqb k (ballots q)) /\
    profile_eq positive Pos.eqb p q = false.
Proof.
  exists ex_z1, ex_z2. split; [|vm_compute; reflexivity].
  intro k. unfold wtof. cbn [ballots ex_z1 ex_z2 filter].
  destruct (same_content positive Pos.eqb k (ex_b [[1%positive]] 1 []));
    destruct (same_content positive Pos.eqb k (ex_b [[2%positive]] 0 []));
    vm_compute; reflexivity.
Qed.

(* the empty-scores wild-card: equal according to the code, different content weights *)
Definition ex_w1 : profile positive :=
  mkProfile [ex_b [[1%positive]] 1 [(1%positive, 1)]; ex_b [[1%positive]] 1 []] [1%positive].
Definition ex_w2 : profile positive :=
  mkProfile [ex_b [[1%positive]] 1 [(1%positive, 2)]; ex_b [[1%positive]] 1 []] [1%positive].

Lemma eq_wildcard_refuted :
  exists p q : profile positive,
    all_pos positive (ballots p) /\ all_pos positive (ballots q) /\
    profile_eq positive Pos.eqb p q = true /\
    exists k, ~ wtof positive Pos.eqb k (ballots p) == wtof positive Pos.eqb k (ballots q).
Proof.
  exists ex_w1, ex_w2. split; [|split; [|split]].
  - intros b [<-|[<-|[]]]; reflexivity.
  - intros b [<-|[<-|[]]]; reflexivity.
  - vm_compute. reflexivity.
  - exists (ex_b [[1%positive]] 1 [(1%positive, 1)]). vm_compute. intro H. discriminate H.
Qed.
