(* Proofs/C08_stv.v — property C08, anonymity of the STV family: the building blocks of one
   STV step (piles, fractional and full-weight transfers, quota test, threshold, initial round)
   only see the electorate [dist_eq]; then one whole step on the deterministic path. *)
From Coq Require Import List ZArith QArith Bool Permutation Lia Lqa Setoid Morphisms Sorting.Sorted.
From VK Require Import Base Core STV Pairwise Rules.
From VK.Spec Require Import Content ScoreSpec EditSpec Anon.
From VK.Proofs Require Import Lib_sets Lib_rk Lib_content Lib_condense C11_condense C04_scoring C12_edit Elect C08_anon.
Import ListNotations.
Open Scope Q_scope.

Lemma Qlt_bool_comp : forall a a' b b', a == a' -> b == b' -> Qlt_bool a b = Qlt_bool a' b'.
Proof.
  intros a a' b b' Ha Hb.
  destruct (Qlt_bool a b) eqn:E; destruct (Qlt_bool a' b') eqn:E'; try reflexivity.
  - apply C04_scoring.Qlt_bool_iff in E. apply C04_scoring.Qlt_bool_false_iff in E'. lra.
  - apply C04_scoring.Qlt_bool_iff in E'. apply C04_scoring.Qlt_bool_false_iff in E. lra.
Qed.
Lemma Qle_bool_comp : forall a a' b b', a == a' -> b == b' -> Qle_bool a b = Qle_bool a' b'.
Proof.
  intros a a' b b' Ha Hb.
  destruct (Qle_bool a b) eqn:E; destruct (Qle_bool a' b') eqn:E'; try reflexivity.
  - apply Qle_bool_iff in E. exfalso. assert (T : Qle_bool a' b' = true) by (apply Qle_bool_iff; lra).
    congruence.
  - apply Qle_bool_iff in E'. exfalso. assert (T : Qle_bool a b = true) by (apply Qle_bool_iff; lra).
    congruence.
Qed.
Lemma Qeq_bool_comp : forall a a' b b', a == a' -> b == b' -> Qeq_bool a b = Qeq_bool a' b'.
Proof.
  intros a a' b b' Ha Hb.
  destruct (Qeq_bool a b) eqn:E; destruct (Qeq_bool a' b') eqn:E'; try reflexivity.
  - apply Qeq_bool_iff in E. exfalso. assert (T : Qeq_bool a' b' = true) by (apply Qeq_bool_iff; lra).
    congruence.
  - apply Qeq_bool_iff in E'. exfalso. assert (T : Qeq_bool a b = true) by (apply Qeq_bool_iff; lra).
    congruence.
Qed.

Section StvAnon.
Variable cand : Type.
Variable ceqb : cand -> cand -> bool.
Hypothesis ceqb_spec : forall a b, reflect (a = b) (ceqb a b).

Notation cset := (cset cand).
Notation ranking := (ranking cand).
Notation scores := (scores cand).
Notation ballot := (ballot cand).
Notation profile := (profile cand).
Notation mstate := (mstate cand).
Notation estate := (estate cand).
Notation same := (same_content cand ceqb).
Notation wtof := (wtof cand ceqb).
Notation dist_eq := (dist_eq cand ceqb).
Notation condense_bs := (condense_bs cand ceqb).
Notation memb := (memb cand ceqb).
Notation ranking_eqb := (ranking_eqb cand ceqb).
Notation cset_eqb := (cset_eqb cand ceqb).
Notation flat := (flat cand).
Notation strip := (strip cand ceqb).
Notation set_diff := (set_diff cand ceqb).
Notation nonneg_wts := (nonneg_wts cand).
Notation wsum := (Lib_condense.wsum cand).
Notation groups_equiv := (groups_equiv cand).
Notation scores_equiv := (scores_equiv cand).
Notation state_equiv := (state_equiv cand).
Notation profile_equiv := (profile_equiv cand ceqb).
Notation wf_profile := (wf_profile cand).
Notation score_free := (EditSpec.score_free cand).
Notation seteq := (seteq cand).
Notation pile := (pile cand ceqb).
Notation first_is := (first_is cand ceqb).

Let same_refl := Lib_content.same_refl cand ceqb ceqb_spec.
Let any_all := any_content_all cand.
Let dtrans := dist_eq_trans cand ceqb.
Let dsym := dist_eq_sym cand ceqb.

(* ------------------------------------------------------------------ *)
(** * Filters that only look at the content *)

Definition as_key (r : ranking) (d : scores) : ballot := mkBallot r 0 d None None.

Lemma same_as_key : forall k b, same k b = same k (as_key (rk b) (sc b)).
Proof. intros k b. apply (Lib_content.same_ext_r cand ceqb); reflexivity. Qed.

Lemma wtof_filter_content : forall (f : ballot -> bool) (fc : ranking -> scores -> bool) k bs,
  (forall b, f b = fc (rk b) (sc b)) ->
  wtof k (filter f bs) == wsum (fun r d => if same k (as_key r d) && fc r d then 1 else 0) bs.
Proof.
  intros f fc k bs Hf. induction bs as [|b bs IH]; [reflexivity|].
  cbn [filter]. rewrite wsum_cons, <- same_as_key, <- Hf.
  destruct (f b).
  - rewrite wtof_cons. destruct (same k b); cbn [andb]; rewrite IH; ring.
  - rewrite andb_false_r, IH. ring.
Qed.

Lemma dist_eq_filter_content : forall (f : ballot -> bool) (fc : ranking -> scores -> bool),
  (forall b, f b = fc (rk b) (sc b)) ->
  (forall x y : ballot, same x y = true -> fc (rk x) (sc x) = fc (rk y) (sc y)) ->
  forall bs bs', dist_eq bs bs' -> dist_eq (filter f bs) (filter f bs').
Proof.
  intros f fc Hf Hc bs bs' Hde k. rewrite !(wtof_filter_content f fc k _ Hf).
  apply (wsum_dist_eq cand ceqb ceqb_spec (any_content cand)); try apply any_all; [|exact Hde].
  intros x y _ _ Hs. rewrite (Hc x y Hs).
  assert (Hk : same (as_key (rk x) (sc x)) (as_key (rk y) (sc y)) = true).
  { rewrite <- same_as_key. rewrite (Lib_content.same_sym cand ceqb), <- same_as_key.
    rewrite (Lib_content.same_sym cand ceqb). exact Hs. }
  rewrite (Lib_content.same_congr_r cand ceqb ceqb_spec _ _ k Hk). reflexivity.
Qed.

(* is the first position of the ranking exactly {w} ? *)
Definition first_rk (w : cand) (r : ranking) : bool :=
  match r with s :: _ => cset_eqb s [w] | [] => false end.

Lemma first_rk_compat : forall w a b, ranking_eqb a b = true -> first_rk w a = first_rk w b.
Proof.
  intros w [|s a] [|s' b] H; try reflexivity; try discriminate.
  cbn [Core.ranking_eqb] in H. apply andb_true_iff in H. destruct H as [Hs _]. cbn [first_rk].
  destruct (cset_eqb s [w]) eqn:E; destruct (cset_eqb s' [w]) eqn:E'; try reflexivity.
  - rewrite (Lib_sets.cset_eqb_sym cand ceqb) in Hs.
    rewrite (Lib_sets.cset_eqb_trans cand ceqb ceqb_spec _ _ _ Hs E) in E'. discriminate.
  - rewrite (Lib_sets.cset_eqb_trans cand ceqb ceqb_spec _ _ _ Hs E') in E. discriminate.
Qed.

Theorem pile_anonymous : forall (p p' : profile) w,
  dist_eq (ballots p) (ballots p') -> dist_eq (pile p w) (pile p' w).
Proof.
  intros p p' w H. unfold Core.pile.
  apply (dist_eq_filter_content (first_is w) (fun r _ => first_rk w r)); [reflexivity| |exact H].
  intros x y Hs. apply first_rk_compat. apply (same_rk cand ceqb). exact Hs.
Qed.

Lemma has_ranking_anonymous : forall bs bs' : list ballot,
  dist_eq bs bs' -> dist_eq (filter (has_ranking cand) bs) (filter (has_ranking cand) bs').
Proof.
  intros bs bs' H.
  apply (dist_eq_filter_content (has_ranking cand) (fun r _ => nonempty r)); [reflexivity| |exact H].
  intros x y Hs. apply (ranking_eqb_nonempty_eq cand ceqb). apply (same_rk cand ceqb). exact Hs.
Qed.

(* blocks listed in another order *)
Lemma dist_eq_concat_perm : forall (F : cand -> list ballot) (l l' : list cand),
  Permutation l l' -> dist_eq (concat (map F l)) (concat (map F l')).
Proof.
  intros F l l' H. apply (dist_eq_perm cand ceqb).
  induction H as [|x l l' _ IH|x y l|l l' l'' _ IH1 _ IH2]; cbn [map concat].
  - constructor.
  - apply Permutation_app_head. exact IH.
  - rewrite !app_assoc. apply Permutation_app_tail. apply Permutation_app_comm.
  - eapply Permutation_trans; eassumption.
Qed.

Lemma dist_eq_concat_map : forall (F F' : cand -> list ballot) (l : list cand),
  (forall c, In c l -> dist_eq (F c) (F' c)) -> dist_eq (concat (map F l)) (concat (map F' l)).
Proof.
  intros F F' l H. induction l as [|c l IH]; cbn [map concat]; [apply (dist_eq_refl cand ceqb)|].
  apply (dist_eq_app cand ceqb); [apply H; left; reflexivity|apply IH; intros x Hx; apply H; right; exact Hx].
Qed.

(* ------------------------------------------------------------------ *)
(** * Re-weighting by a content-determined factor, then keeping the positive ballots *)

Section Push.
Variable hr : ranking -> ranking.
Variable kc : ranking -> bool.
Hypothesis hr_compat : forall a b, ranking_eqb a b = true -> ranking_eqb (hr a) (hr b) = true.
Hypothesis kc_compat : forall a b, ranking_eqb a b = true -> kc a = kc b.

Definition pushG (phi : ranking -> Q) (k : ballot) (r : ranking) (_ : scores) : Q :=
  if same k (as_key (hr r) []) && kc (hr r) && Qlt_bool 0 (phi r) then phi r else 0.

Lemma wtof_push : forall (h : ballot -> ballot) (phi : ranking -> Q) k bs,
  (forall b, rk (h b) = hr (rk b) /\ sc (h b) = [] /\ wt (h b) == wt b * phi (rk b)) ->
  nonneg_wts bs ->
  wtof k (filter (fun x => kc (rk x) && pos_wt cand x) (map h bs)) == wsum (pushG phi k) bs.
Proof.
  intros h phi k bs Hh Hn. unfold Anon.nonneg_wts in Hn.
  induction Hn as [|b bs Hb _ IH]; [reflexivity|].
  cbn [map filter]. rewrite wsum_cons. destruct (Hh b) as [Hrk [Hsc Hwt]].
  unfold pushG at 1.
  assert (Hs : same k (h b) = same k (as_key (hr (rk b)) [])).
  { apply (Lib_content.same_ext_r cand ceqb); [exact Hrk|exact Hsc]. }
  rewrite <- Hs, Hrk. unfold Core.pos_wt.
  destruct (kc (hr (rk b))); cbn [andb].
  - destruct (Qlt_bool 0 (wt (h b))) eqn:E1; destruct (Qlt_bool 0 (phi (rk b))) eqn:E2;
      try apply C04_scoring.Qlt_bool_iff in E1; try apply C04_scoring.Qlt_bool_false_iff in E1;
      try apply C04_scoring.Qlt_bool_iff in E2; try apply C04_scoring.Qlt_bool_false_iff in E2.
    + rewrite wtof_cons. destruct (same k (h b)); cbn [andb]; rewrite IH, ?Hwt; ring.
    + exfalso. rewrite Hwt in E1. nra.
    + rewrite IH. assert (Z0 : wt b * phi (rk b) == 0) by (rewrite Hwt in E1; nra).
      destruct (same k (h b)); cbn [andb]; rewrite ?Z0; ring.
    + rewrite IH. rewrite andb_false_r. ring.
  - rewrite IH. rewrite andb_false_r. cbn [andb]. ring.
Qed.

Lemma pushG_compat : forall phi k, (forall a b, ranking_eqb a b = true -> phi a == phi b) ->
  forall x y : ballot, same x y = true -> pushG phi k (rk x) (sc x) == pushG phi k (rk y) (sc y).
Proof.
  intros phi k Hphi x y Hs. pose proof (same_rk cand ceqb x y Hs) as Hr. unfold pushG.
  assert (Hk : same (as_key (hr (rk x)) []) (as_key (hr (rk y)) []) = true).
  { apply same_iff. cbn [as_key rk sc]. split; [apply hr_compat; exact Hr|reflexivity]. }
  rewrite (Lib_content.same_congr_r cand ceqb ceqb_spec _ _ k Hk).
  rewrite (kc_compat _ _ (hr_compat _ _ Hr)).
  rewrite (Qlt_bool_comp 0 0 (phi (rk x)) (phi (rk y)) (Qeq_refl 0) (Hphi _ _ Hr)).
  destruct (same k (as_key (hr (rk y)) []) && kc (hr (rk y)) && Qlt_bool 0 (phi (rk y)));
    [apply Hphi; exact Hr|reflexivity].
Qed.

Theorem dist_eq_push : forall (h h' : ballot -> ballot) (phi phi' : ranking -> Q) bs bs',
  (forall b, rk (h b) = hr (rk b) /\ sc (h b) = [] /\ wt (h b) == wt b * phi (rk b)) ->
  (forall b, rk (h' b) = hr (rk b) /\ sc (h' b) = [] /\ wt (h' b) == wt b * phi' (rk b)) ->
  (forall a b, ranking_eqb a b = true -> phi a == phi b) ->
  (forall r, phi r == phi' r) ->
  nonneg_wts bs -> nonneg_wts bs' -> dist_eq bs bs' ->
  dist_eq (filter (fun x => kc (rk x) && pos_wt cand x) (map h bs))
          (filter (fun x => kc (rk x) && pos_wt cand x) (map h' bs')).
Proof.
  intros h h' phi phi' bs bs' Hh Hh' Hphi Hpp Hn Hn' Hde k.
  rewrite (wtof_push h phi k bs Hh Hn), (wtof_push h' phi' k bs' Hh' Hn').
  transitivity (wsum (pushG phi k) bs').
  - apply (wsum_dist_eq cand ceqb ceqb_spec (any_content cand)); try apply any_all; [|exact Hde].
    intros x y _ _ Hs. apply pushG_compat; assumption.
  - unfold Lib_condense.wsum. apply qsum_map_ext_in. intros b _. unfold pushG.
    rewrite (Qlt_bool_comp 0 0 (phi (rk b)) (phi' (rk b)) (Qeq_refl 0) (Hpp _)).
    destruct (same k (as_key (hr (rk b)) []) && kc (hr (rk b)) && Qlt_bool 0 (phi' (rk b)));
      [rewrite (Hpp (rk b))|]; reflexivity.
Qed.

End Push.

(* ------------------------------------------------------------------ *)
(** * Transfers *)

Notation frac_transfer := (frac_transfer cand ceqb).
Notation remove_cand_bs := (remove_cand_bs cand ceqb).

Definition hfrac (w : cand) (tv : Q) (b : ballot) : ballot :=
  mkBallot (strip [w] (rk b)) (if first_is w b then wt b * tv else wt b) [] (bid b) (vs b).
Definition phifrac (w : cand) (tv : Q) (r : ranking) : Q := if first_rk w r then tv else 1.
Definition frac_out (w : cand) (fpv t : Q) (bs : list ballot) : list ballot :=
  condense_bs (filter (keep_ballot cand) (map (hfrac w ((fpv - t) / fpv)) bs)).

Definition ranked (bs : list ballot) : Prop := Forall (fun b : ballot => rk b <> []) bs.

Lemma frac_ok : forall w fpv bs t, ranked bs -> Qeq_bool fpv 0 = false ->
  frac_transfer w fpv bs t = inl (frac_out w fpv t bs).
Proof.
  intros w fpv bs t Hr Hz. unfold STV.frac_transfer. rewrite Hz.
  rewrite (rmap_total _ _ _ (hfrac w ((fpv - t) / fpv)) bs); [reflexivity|].
  intros a Ha. unfold ranked in Hr. rewrite Forall_forall in Hr. pose proof (Hr a Ha) as Hne.
  unfold hfrac. destruct (rk a) as [|g r] eqn:E; [exfalso; apply Hne; reflexivity|reflexivity].
Qed.

Lemma frac_zero : forall w fpv bs t, Qeq_bool fpv 0 = true -> frac_transfer w fpv bs t = inr EZeroDiv.
Proof. intros w fpv bs t Hz. unfold STV.frac_transfer. rewrite Hz. reflexivity. Qed.

Lemma hfrac_spec : forall w tv b,
  rk (hfrac w tv b) = strip [w] (rk b) /\ sc (hfrac w tv b) = [] /\
  wt (hfrac w tv b) == wt b * phifrac w tv (rk b).
Proof.
  intros w tv b. split; [reflexivity|]. split; [reflexivity|]. unfold hfrac, phifrac. cbn [wt].
  change (first_is w b) with (first_rk w (rk b)). destruct (first_rk w (rk b)); ring.
Qed.

Theorem frac_out_anonymous : forall w fpv fpv' t bs bs',
  nonneg_wts bs -> nonneg_wts bs' -> fpv == fpv' -> dist_eq bs bs' ->
  dist_eq (frac_out w fpv t bs) (frac_out w fpv' t bs').
Proof.
  intros w fpv fpv' t bs bs' Hn Hn' Hf Hde. unfold frac_out.
  apply (dtrans _ (filter (keep_ballot cand) (map (hfrac w ((fpv - t) / fpv)) bs)));
    [apply dsym, (dist_eq_condense cand ceqb ceqb_spec)|].
  apply (dtrans _ (filter (keep_ballot cand) (map (hfrac w ((fpv' - t) / fpv')) bs')));
    [|apply (dist_eq_condense cand ceqb ceqb_spec)].
  apply (dist_eq_push (strip [w]) (@nonempty (list cand))
           (strip_compat cand ceqb ceqb_spec [w]) (ranking_eqb_nonempty_eq cand ceqb)
           (hfrac w ((fpv - t) / fpv)) (hfrac w ((fpv' - t) / fpv'))
           (phifrac w ((fpv - t) / fpv)) (phifrac w ((fpv' - t) / fpv'))); try assumption.
  - apply hfrac_spec.
  - apply hfrac_spec.
  - intros a b H. unfold phifrac. rewrite (first_rk_compat w a b H). reflexivity.
  - intros r. unfold phifrac. destruct (first_rk w r); [rewrite Hf; reflexivity|reflexivity].
Qed.

Lemma frac_out_nonneg : forall w fpv t bs, nonneg_wts (frac_out w fpv t bs).
Proof.
  intros w fpv t bs. unfold frac_out. apply (nonneg_condense cand ceqb).
  unfold Anon.nonneg_wts. apply Forall_forall. intros x Hx. apply filter_In in Hx. destruct Hx as [_ Hk].
  unfold STV.keep_ballot in Hk. apply andb_true_iff in Hk. destruct Hk as [_ Hp].
  apply C12_edit.pos_wt_iff in Hp. lra.
Qed.

(* deterministic transfers: what they return *)
Definition tr_out (k : transfer_kind) (w : cand) (fpv t : Q) (bs : list ballot) : list ballot :=
  match k with
  | TFractional => frac_out w fpv t bs
  | _ => remove_cand_bs [w] true false bs
  end.
Definition tr_zero (k : transfer_kind) (fpv : Q) : bool :=
  match k with TFractional => Qeq_bool fpv 0 | _ => false end.

Lemma do_transfer_det : forall k w fpv bs t (s : mstate), k <> TRandom -> ranked bs ->
  do_transfer cand ceqb k w fpv bs t s =
  if tr_zero k fpv then inr EZeroDiv else inl (tr_out k w fpv t bs, s).
Proof.
  intros k w fpv bs t s Hk Hr. destruct k; [| exfalso; apply Hk; reflexivity |].
  - cbn [STV.do_transfer tr_zero tr_out]. unfold mlift.
    destruct (Qeq_bool fpv 0) eqn:E; [rewrite frac_zero by exact E; reflexivity|].
    rewrite frac_ok by assumption. reflexivity.
  - reflexivity.
Qed.

Theorem tr_out_anonymous : forall k w fpv fpv' t bs bs',
  nonneg_wts bs -> nonneg_wts bs' -> fpv == fpv' -> dist_eq bs bs' ->
  dist_eq (tr_out k w fpv t bs) (tr_out k w fpv' t bs').
Proof.
  intros k w fpv fpv' t bs bs' Hn Hn' Hf Hde. destruct k; cbn [tr_out].
  - apply frac_out_anonymous; assumption.
  - apply (remove_cand_bs_anonymous cand ceqb ceqb_spec); try assumption. intros c; reflexivity.
  - apply (remove_cand_bs_anonymous cand ceqb ceqb_spec); try assumption. intros c; reflexivity.
Qed.

Lemma tr_out_nonneg : forall k w fpv t bs, nonneg_wts bs -> nonneg_wts (tr_out k w fpv t bs).
Proof.
  intros k w fpv t bs H. destruct k; cbn [tr_out];
    [apply frac_out_nonneg|apply (nonneg_remove cand ceqb); exact H|apply (nonneg_remove cand ceqb); exact H].
Qed.

Lemma tr_zero_comp : forall k a b, a == b -> tr_zero k a = tr_zero k b.
Proof. intros k a b H. destruct k; cbn [tr_zero]; try reflexivity. apply Qeq_bool_comp; [exact H|reflexivity]. Qed.

(* tallies looked up in equivalent dictionaries *)
Lemma lookup0_equiv : forall (d d' : scores) c, NoDup (map fst d) -> NoDup (map fst d') ->
  scores_equiv d d' -> lookup0 cand ceqb c d == lookup0 cand ceqb c d'.
Proof.
  intros d d' c Hn Hn' [Hk Hv].
  destruct (in_dec (cand_eq_dec cand ceqb ceqb_spec) c (map fst d)) as [Hin|Hnin].
  - destruct (in_keys_pair cand d c Hin) as [q Hq].
    assert (Hin' : In c (map fst d')) by (eapply Permutation_in; eassumption).
    destruct (in_keys_pair cand d' c Hin') as [q' Hq'].
    rewrite (lookup0_in cand ceqb ceqb_spec d c q Hn Hq), (lookup0_in cand ceqb ceqb_spec d' c q' Hn' Hq').
    apply (Hv c q q' Hq Hq').
  - rewrite (lookup0_notin cand ceqb ceqb_spec d c Hnin), (lookup0_notin cand ceqb ceqb_spec d' c); [reflexivity|].
    intros Hin'. apply Hnin. eapply Permutation_in; [apply Permutation_sym; exact Hk|exact Hin'].
Qed.

(* the transfers of all simultaneous winners *)
Lemma transfer_all_det : forall k ws (p : profile) (d : scores) t (s : mstate),
  k <> TRandom -> ranked (ballots p) -> incl ws (cands p) ->
  transfer_all cand ceqb k ws p d t s =
  if existsb (fun w => tr_zero k (lookup0 cand ceqb w d)) ws then inr EZeroDiv
  else inl (concat (map (fun w => tr_out k w (lookup0 cand ceqb w d) t (pile p w)) ws), s).
Proof.
  intros k ws p d t s Hk Hr. induction ws as [|w ws IH]; intros Hincl; [reflexivity|].
  cbn [STV.transfer_all existsb map concat].
  assert (Hm : memb w (cands p) = true).
  { apply (Lib_sets.memb_In cand ceqb ceqb_spec). apply Hincl. left. reflexivity. }
  rewrite Hm. cbn [negb]. unfold mbind.
  assert (Hrp : ranked (pile p w)).
  { unfold ranked, Core.pile. apply Forall_forall. intros b Hb. apply filter_In in Hb.
    unfold ranked in Hr. rewrite Forall_forall in Hr. apply Hr, Hb. }
  rewrite (do_transfer_det k w _ _ t s Hk Hrp).
  destruct (tr_zero k (lookup0 cand ceqb w d)); [reflexivity|]. cbn [orb].
  rewrite IH by (intros x Hx; apply Hincl; right; exact Hx).
  destruct (existsb (fun w0 => tr_zero k (lookup0 cand ceqb w0 d)) ws); reflexivity.
Qed.

Lemma existsb_perm : forall {A} (f : A -> bool) l l', Permutation l l' -> existsb f l = existsb f l'.
Proof.
  intros A f l l' H. induction H as [|x l l' _ IH|x y l|l l' l'' _ IH1 _ IH2]; cbn [existsb].
  - reflexivity.
  - rewrite IH. reflexivity.
  - destruct (f x); destruct (f y); reflexivity.
  - congruence.
Qed.

Lemma existsb_ext_in : forall {A} (f g : A -> bool) l, (forall a, In a l -> f a = g a) -> existsb f l = existsb g l.
Proof.
  intros A f g l H. induction l as [|a l IH]; [reflexivity|]. cbn [existsb].
  rewrite (H a (or_introl eq_refl)), IH; [reflexivity|]. intros x Hx. apply H. right. exact Hx.
Qed.

Definition transfers (k : transfer_kind) (ws : list cand) (p : profile) (d : scores) (t : Q) : list ballot :=
  concat (map (fun w => tr_out k w (lookup0 cand ceqb w d) t (pile p w)) ws).

Theorem transfers_anonymous : forall k ws ws' (p p' : profile) (d d' : scores) t,
  Permutation ws ws' -> nonneg_wts (ballots p) -> nonneg_wts (ballots p') ->
  dist_eq (ballots p) (ballots p') ->
  (forall c, lookup0 cand ceqb c d == lookup0 cand ceqb c d') ->
  existsb (fun w => tr_zero k (lookup0 cand ceqb w d)) ws =
  existsb (fun w => tr_zero k (lookup0 cand ceqb w d')) ws' /\
  dist_eq (transfers k ws p d t) (transfers k ws' p' d' t).
Proof.
  intros k ws ws' p p' d d' t Hp Hn Hn' Hde Hl. split.
  - rewrite (existsb_perm _ ws ws' Hp). apply existsb_ext_in. intros w _. apply tr_zero_comp, Hl.
  - unfold transfers.
    apply (dtrans _ (concat (map (fun w => tr_out k w (lookup0 cand ceqb w d) t (pile p w)) ws')));
      [apply dist_eq_concat_perm; exact Hp|].
    apply dist_eq_concat_map. intros w _.
    assert (Hpn : forall q : profile, nonneg_wts (ballots q) -> nonneg_wts (pile q w)).
    { intros q Hq. unfold Core.pile. apply (nonneg_filter cand). exact Hq. }
    apply tr_out_anonymous; [apply Hpn; exact Hn|apply Hpn; exact Hn'|apply Hl|apply pile_anonymous; exact Hde].
Qed.

(* ------------------------------------------------------------------ *)
(** * The quota test *)

Definition uniform (r : ranking) (d : scores) : Prop :=
  forall g c1 c2, In g r -> In c1 g -> In c2 g -> lookup0 cand ceqb c1 d == lookup0 cand ceqb c2 d.

Theorem quota_groups_anonymous : forall r r' (d d' : scores) t,
  groups_equiv r r' -> uniform r d ->
  (forall c, lookup0 cand ceqb c d == lookup0 cand ceqb c d') ->
  res_equiv groups_equiv (quota_groups cand ceqb r d t) (quota_groups cand ceqb r' d' t).
Proof.
  intros r r' d d' t H. induction H as [|g g' r r' Hg Hr IH]; intros Hu Hl.
  - cbn. constructor.
  - cbn [STV.quota_groups].
    destruct g as [|c g0]; [apply Permutation_nil in Hg; subst g'; reflexivity|].
    destruct g' as [|c' g0']; [apply Permutation_sym, Permutation_nil in Hg; discriminate|].
    assert (Hc' : In c' (c :: g0)).
    { eapply Permutation_in; [apply Permutation_sym; exact Hg|left; reflexivity]. }
    assert (Hsc : STV.score_ge cand ceqb d t c = STV.score_ge cand ceqb d' t c').
    { unfold STV.score_ge. apply Qle_bool_comp; [reflexivity|].
      rewrite <- (Hl c'). apply (Hu (c :: g0) c c'); [left; reflexivity|left; reflexivity|exact Hc']. }
    rewrite <- Hsc. destruct (STV.score_ge cand ceqb d t c); [|cbn; constructor].
    assert (IH' : res_equiv groups_equiv (quota_groups cand ceqb r d t) (quota_groups cand ceqb r' d' t)).
    { apply IH; [|exact Hl]. intros g c1 c2 Hin. apply Hu. right. exact Hin. }
    destruct (quota_groups cand ceqb r d t) as [x|e]; destruct (quota_groups cand ceqb r' d' t) as [x'|e'];
      cbn [res_equiv] in IH'; try contradiction; cbn [rbind ok res_equiv].
    + constructor; assumption.
    + exact IH'.
Qed.

(* ------------------------------------------------------------------ *)
(** * The STV domain and its preservation *)

Notation stv_ballot_ok := (stv_ballot_ok cand).
Notation stv_domain := (stv_domain cand).
Notation stv_state_ok := (stv_state_ok cand).
Notation all_ok cs := (Forall (stv_ballot_ok cs)).

Lemma ok_weaken : forall cs cs' b, incl cs cs' -> stv_ballot_ok cs b -> stv_ballot_ok cs' b.
Proof.
  intros cs cs' b Hi [H1 [H2 [H3 [H4 [H5 H6]]]]]. repeat split; try assumption.
  intros c Hc. apply Hi, H4, Hc.
Qed.
Lemma all_ok_weaken : forall cs cs' bs, incl cs cs' -> all_ok cs bs -> all_ok cs' bs.
Proof. intros cs cs' bs Hi H. eapply Forall_impl; [|exact H]. intros b. apply ok_weaken. exact Hi. Qed.

Lemma domain_wf : forall p, stv_domain p -> wf_profile p.
Proof.
  intros p [Hnd Hb]. split; [exact Hnd|]. eapply Forall_impl; [|exact Hb].
  intros b [H1 [H2 [H3 [H4 _]]]]. split; [exact H1|]. split; [|split; assumption].
  eapply Forall_impl; [|exact H2]. intros g Hg Hnil. rewrite Hnil in Hg. discriminate.
Qed.
Lemma domain_sf : forall p, stv_domain p -> score_free (ballots p).
Proof. intros p [_ Hb]. unfold EditSpec.score_free. eapply Forall_impl; [|exact Hb]. intros b H. apply H. Qed.
Lemma all_ok_nonneg : forall cs bs, all_ok cs bs -> nonneg_wts bs.
Proof. intros cs bs H. unfold Anon.nonneg_wts. eapply Forall_impl; [|exact H]. intros b Hb. apply Hb. Qed.
Lemma domain_nonneg : forall p, stv_domain p -> nonneg_wts (ballots p).
Proof. intros p [_ Hb]. exact (all_ok_nonneg _ _ Hb). Qed.
Lemma all_ok_ranked : forall cs bs, all_ok cs bs -> ranked bs.
Proof. intros cs bs H. unfold ranked. eapply Forall_impl; [|exact H]. intros b Hb. apply Hb. Qed.

Lemma strip_singletons : forall W r, Forall (fun g : cset => length g = 1%nat) r ->
  Forall (fun g : cset => length g = 1%nat) (strip W r).
Proof.
  intros W r H. rewrite Forall_forall in H |- *. intros g' Hg'.
  apply (C12_edit.strip_groups cand ceqb) in Hg'. destruct Hg' as [Hne [g [Hg ->]]].
  pose proof (H g Hg) as Hl. destruct g as [|c [|c2 g]]; try discriminate.
  cbn [filter] in *. destruct (negb (memb c W)); [reflexivity|exfalso; apply Hne; reflexivity].
Qed.

(* a stripped valid ballot that still ranks somebody is valid over the reduced candidate list *)
Lemma strip_ok : forall W cs (r : ranking),
  Forall (fun g : cset => length g = 1%nat) r -> NoDup (flat r) -> incl (flat r) cs ->
  Forall (fun g : cset => length g = 1%nat) (strip W r) /\ NoDup (flat (strip W r)) /\
  incl (flat (strip W r)) (set_diff cs W).
Proof.
  intros W cs r H1 H2 H3. split; [apply strip_singletons; exact H1|]. split.
  - rewrite (C12_edit.strip_flat cand ceqb). apply NoDup_filter. exact H2.
  - intros c Hc. apply (C12_edit.strip_keeps cand ceqb ceqb_spec) in Hc. destruct Hc as [Hc Hn].
    apply (Lib_sets.set_diff_In cand ceqb ceqb_spec). split; [apply H3; exact Hc|exact Hn].
Qed.

Lemma nonempty_has_member : forall r : ranking, r <> [] -> Forall (fun g : cset => length g = 1%nat) r ->
  exists c, In c (flat r).
Proof.
  intros [|g r] Hne H; [exfalso; apply Hne; reflexivity|]. inversion H as [|x l Hg _]; subst.
  destruct g as [|c g]; [discriminate|]. exists c. rewrite (flat_cons cand). left. reflexivity.
Qed.

Lemma remove_bs_ok : forall W cs bs, all_ok cs bs ->
  all_ok (set_diff cs W) (remove_cand_bs W true false bs) /\
  (remove_cand_bs W true false bs <> [] -> set_diff cs W <> []).
Proof.
  intros W cs bs Hb. rewrite Forall_forall in Hb.
  assert (Hmem : forall k, In k (remove_cand_bs W true false bs) ->
            stv_ballot_ok (set_diff cs W) k /\ set_diff cs W <> []).
  { intros k Hk. destruct (remove_member cand ceqb W bs k Hk) as [b [Hin [Hrk [Hsc Hlive]]]].
    destruct (Hb b Hin) as [H1 [H2 [H3 [H4 [H5 H6]]]]].
    unfold live in Hlive. rewrite H6 in Hlive, Hsc. cbn in Hlive, Hsc. rewrite orb_false_r in Hlive.
    apply (nonempty_true_ne) in Hlive.
    destruct (strip_ok W cs (rk b) H2 H3 H4) as [S1 [S2 S3]].
    assert (Hw : 0 <= wt k).
    { assert (Hn0 : nonneg_wts bs).
      { unfold Anon.nonneg_wts. apply Forall_forall. intros x Hx. apply (Hb x Hx). }
      pose proof (nonneg_remove cand ceqb W bs Hn0) as Hn. unfold Anon.nonneg_wts in Hn.
      rewrite Forall_forall in Hn. apply Hn. exact Hk. }
    split.
    - rewrite <- Hrk in Hlive, S1, S2, S3. repeat split; assumption.
    - destruct (nonempty_has_member (strip W (rk b)) Hlive S1) as [c Hc]. apply S3 in Hc.
      intros Hnil. rewrite Hnil in Hc. destruct Hc. }
  split.
  - apply Forall_forall. intros k Hk. apply (Hmem k Hk).
  - intros Hne. destruct (remove_cand_bs W true false bs) as [|k l] eqn:E; [exfalso; apply Hne; reflexivity|].
    apply (Hmem k). left. reflexivity.
Qed.

Lemma frac_out_ok : forall w fpv t cs bs, all_ok cs bs -> all_ok cs (frac_out w fpv t bs).
Proof.
  intros w fpv t cs bs Hb. rewrite Forall_forall in Hb. apply Forall_forall. intros k Hk.
  pose proof (frac_out_nonneg w fpv t bs) as Hn. unfold Anon.nonneg_wts in Hn. rewrite Forall_forall in Hn.
  pose proof (Hn k Hk) as Hw. unfold frac_out in Hk.
  destruct (condense_no_invented cand ceqb _ k Hk) as [y [Hy [Hrk Hsc]]].
  apply filter_In in Hy. destruct Hy as [Hy Hkeep]. apply in_map_iff in Hy. destruct Hy as [b [<- Hin]].
  destruct (Hb b Hin) as [H1 [H2 [H3 [H4 [H5 H6]]]]].
  unfold STV.keep_ballot in Hkeep. apply andb_true_iff in Hkeep. destruct Hkeep as [Hne _].
  cbn [hfrac rk sc] in Hrk, Hsc, Hne. apply nonempty_true_ne in Hne.
  destruct (strip_ok [w] cs (rk b) H2 H3 H4) as [S1 [S2 S3]].
  rewrite <- Hrk in Hne, S1, S2, S3. repeat split; try assumption.
  intros c Hc. apply S3 in Hc. apply (Lib_sets.set_diff_In cand ceqb ceqb_spec) in Hc. apply Hc.
Qed.

Lemma tr_out_ok : forall k w fpv t cs bs, all_ok cs bs -> all_ok cs (tr_out k w fpv t bs).
Proof.
  intros k w fpv t cs bs Hb.
  assert (Hi : incl (set_diff cs [w]) cs).
  { intros c Hc. apply (Lib_sets.set_diff_In cand ceqb ceqb_spec) in Hc. apply Hc. }
  destruct k; cbn [tr_out]; [apply frac_out_ok; exact Hb| |];
    apply (all_ok_weaken _ _ _ Hi), (remove_bs_ok [w] cs bs Hb).
Qed.

Lemma pile_ok : forall (p : profile) w, all_ok (cands p) (ballots p) -> all_ok (cands p) (pile p w).
Proof.
  intros p w H. unfold Core.pile. rewrite Forall_forall in H |- *. intros b Hb. apply filter_In in Hb. apply H, Hb.
Qed.

Lemma concat_ok : forall cs (F : cand -> list ballot) l, (forall c, all_ok cs (F c)) -> all_ok cs (concat (map F l)).
Proof.
  intros cs F l H. induction l as [|c l IH]; cbn [map concat]; [constructor|]. apply Forall_app. split; [apply H|exact IH].
Qed.

(* ------------------------------------------------------------------ *)
(** * The next profile of an election round *)

Definition next_cands (W : cset) (bsX : list ballot) (cs : cset) : cset :=
  match set_diff cs W with
  | [] => cast_cands cand ceqb (remove_cand_bs W true false bsX)
  | _ :: _ => set_diff cs W
  end.
Definition next_profile (W : cset) (bsX : list ballot) (cs : cset) : profile :=
  mkProfile (remove_cand_bs W true false bsX) (next_cands W bsX cs).

Lemma mk_next_ok : forall W bsX cs, NoDup cs ->
  mk_profile cand ceqb (remove_cand_bs W true false bsX) (set_diff cs W) = inl (next_profile W bsX cs).
Proof.
  intros W bsX cs H. rewrite (mk_profile_nodup cand ceqb ceqb_spec); [reflexivity|].
  apply (Lib_sets.set_diff_NoDup cand ceqb). exact H.
Qed.

Theorem next_profile_anonymous : forall W W' bsX bsX' cs cs',
  nonneg_wts bsX -> nonneg_wts bsX' -> seteq W W' -> dist_eq bsX bsX' -> Permutation cs cs' ->
  profile_equiv (next_profile W bsX cs) (next_profile W' bsX' cs').
Proof.
  intros W W' bsX bsX' cs cs' Hn Hn' HW Hde Hperm.
  pose proof (remove_cand_bs_anonymous cand ceqb ceqb_spec W W' _ _ Hn Hn' HW Hde) as Hde1.
  split; cbn [ballots cands next_profile]; [exact Hde1|]. unfold next_cands.
  rewrite <- (set_diff_seteq cand ceqb ceqb_spec cs' W W' HW).
  assert (Hp : Permutation (set_diff cs W) (set_diff cs' W)).
  { unfold Core.set_diff. apply Permutation_filter_local. exact Hperm. }
  destruct (set_diff cs W) as [|c l] eqn:E.
  - apply Permutation_nil in Hp. rewrite Hp.
    apply (cast_cands_anonymous cand ceqb ceqb_spec); try apply (nonneg_remove cand ceqb); assumption.
  - destruct (set_diff cs' W) as [|c' l'] eqn:E'; [|exact Hp].
    apply Permutation_sym, Permutation_nil in Hp. discriminate.
Qed.

Lemma next_profile_domain : forall W bsX cs, NoDup cs -> all_ok cs bsX -> stv_domain (next_profile W bsX cs).
Proof.
  intros W bsX cs Hnd Hb. destruct (remove_bs_ok W cs bsX Hb) as [Hok Hne].
  unfold next_profile, next_cands. split; cbn [ballots cands].
  - destruct (set_diff cs W) eqn:E; [apply (Lib_sets.dedup_NoDup cand ceqb ceqb_spec)|].
    rewrite <- E. apply (Lib_sets.set_diff_NoDup cand ceqb). exact Hnd.
  - destruct (set_diff cs W) as [|c l] eqn:E; [|exact Hok].
    destruct (remove_cand_bs W true false bsX) as [|k bs1] eqn:E1; [constructor|].
    exfalso. apply Hne; [discriminate|reflexivity].
Qed.

Lemma remove_cand_prof_next : forall W (p : profile), NoDup (cands p) ->
  remove_cand_prof cand ceqb W true false p = inl (next_profile W (ballots p) (cands p)).
Proof. intros W p H. unfold Core.remove_cand_prof. apply mk_next_ok. exact H. Qed.

(* ------------------------------------------------------------------ *)
(** * Plumbing for the monadic code *)

Notation mres_equiv := (mres_equiv cand).
Notation tiebreak_equiv := (tiebreak_equiv cand).
Notation stv_step_equiv := (stv_step_equiv cand ceqb).

(* both results leave the monad state [s] untouched (no draw was consumed) *)
Definition mres_at {A : Type} (s : mstate) (R : A -> A -> Prop) (x y : res (A * mstate)) : Prop :=
  res_equiv (fun a b => R (fst a) (fst b) /\ snd a = s /\ snd b = s) x y.

Lemma mres_at_equiv : forall {A} (s : mstate) (R : A -> A -> Prop) x y, mres_at s R x y -> mres_equiv R x y.
Proof.
  intros A s R x y H. unfold mres_at in H. unfold Anon.mres_equiv.
  destruct x as [a|e]; destruct y as [b|e']; cbn in H |- *; try contradiction; [|exact H].
  destruct H as [HR [H1 H2]]. split; [exact HR|congruence].
Qed.

Lemma mbind_at : forall {A B} (R : A -> A -> Prop) (R2 : B -> B -> Prop)
    (x y : M cand A) (f g : A -> M cand B) (s : mstate),
  mres_at s R (x s) (y s) ->
  (forall a b, R a b -> mres_at s R2 (f a s) (g b s)) ->
  mres_at s R2 (mbind x f s) (mbind y g s).
Proof.
  intros A B R R2 x y f g s H Hf. unfold mbind.
  destruct (x s) as [[a s1]|e]; destruct (y s) as [[b s2]|e']; cbn in H; try contradiction.
  - destruct H as [HR [Hs1 Hs2]]. cbn [fst snd] in HR, Hs1, Hs2. subst s1 s2. apply Hf. exact HR.
  - exact H.
Qed.

Lemma mlift_at : forall {A} (R : A -> A -> Prop) (x y : res A) (s : mstate),
  res_equiv R x y -> mres_at s R (mlift x s) (mlift y s).
Proof.
  intros A R x y s H. unfold mlift. destruct x as [a|e]; destruct y as [b|e']; cbn in H |- *; try contradiction.
  - split; [exact H|split; reflexivity].
  - exact H.
Qed.

Lemma match_nonempty : forall {A B} (l : list A) (X Y : B),
  match l with _ :: _ => X | [] => Y end = if nonempty l then X else Y.
Proof. intros A B [|a l] X Y; reflexivity. Qed.

Lemma above_agree : forall (d d' : scores) t, scores_equiv d d' ->
  nonempty (filter (fun q : cand * Q => Qle_bool t (snd q)) d) =
  nonempty (filter (fun q : cand * Q => Qle_bool t (snd q)) d').
Proof.
  assert (Hone : forall (d d' : scores) t, scores_equiv d d' ->
            nonempty (filter (fun q : cand * Q => Qle_bool t (snd q)) d) = true ->
            nonempty (filter (fun q : cand * Q => Qle_bool t (snd q)) d') = true).
  { intros d d' t He H. destruct (filter (fun q : cand * Q => Qle_bool t (snd q)) d) as [|[c q] l] eqn:E; [discriminate|].
    assert (Hin : In (c, q) (filter (fun q : cand * Q => Qle_bool t (snd q)) d)) by (rewrite E; left; reflexivity).
    apply filter_In in Hin. destruct Hin as [Hin Hq]. cbn [snd] in Hq.
    destruct (scores_equiv_partner cand d d' c q He Hin) as [q' [Hin' Hqq]].
    assert (Hin2 : In (c, q') (filter (fun q : cand * Q => Qle_bool t (snd q)) d')).
    { apply filter_In. split; [exact Hin'|]. cbn [snd].
      rewrite <- (Qle_bool_comp t t q q' (Qeq_refl t) Hqq). exact Hq. }
    destruct (filter (fun q : cand * Q => Qle_bool t (snd q)) d'); [destruct Hin2|reflexivity]. }
  intros d d' t He.
  destruct (nonempty (filter (fun q : cand * Q => Qle_bool t (snd q)) d)) eqn:E;
  destruct (nonempty (filter (fun q : cand * Q => Qle_bool t (snd q)) d')) eqn:E'; try reflexivity.
  - rewrite (Hone d d' t He E) in E'. discriminate.
  - rewrite (Hone d' d t (scores_equiv_sym cand d d' He) E') in E. discriminate.
Qed.

Lemma bbfc_ok : forall p, stv_domain p -> ballots_by_first_check cand ceqb p = inl tt.
Proof.
  intros p [_ Hb]. unfold Core.ballots_by_first_check. induction Hb as [|b bs Hb _ IH]; [reflexivity|].
  cbn [rfirst_err]. destruct Hb as [H1 [H2 [_ [H4 _]]]].
  destruct (rk b) as [|g r] eqn:E; [exfalso; apply H1; reflexivity|].
  inversion H2 as [|x l Hg _]; subst. destruct g as [|c [|c2 g]]; try discriminate.
  assert (Hm : memb c (cands p) = true).
  { apply (Lib_sets.memb_In cand ceqb ceqb_spec). apply H4. rewrite (flat_cons cand). left. reflexivity. }
  rewrite Hm. cbn [rbind]. exact IH.
Qed.

Lemma subsetb_true : forall a b : cset, incl a b -> subsetb cand ceqb a b = true.
Proof. intros a b H. apply (Lib_sets.subsetb_incl cand ceqb ceqb_spec). exact H. Qed.

(* ------------------------------------------------------------------ *)
(** * What the state gives *)

Lemma state_uniform : forall p st, NoDup (cands p) -> stv_state_ok p st ->
  uniform (remaining st) (escores st).
Proof.
  intros p st Hnd [Hk Hr] g c1 c2 Hg H1 H2. rewrite Hr in Hg. rewrite <- Hk in Hnd.
  destruct (escores st) as [|p0 d0] eqn:E.
  { cbn in Hg. destruct Hg as [<-|[]]. destruct H1. }
  rewrite <- E in *. assert (Hne : escores st <> []) by (rewrite E; discriminate).
  destruct (score_to_ranking_group_inv cand _ g Hne Hg) as [k [_ ->]].
  apply (in_class_of cand _ k c1 Hnd) in H1. apply (in_class_of cand _ k c2 Hnd) in H2.
  destruct H1 as [q1 [Hq1 Hk1]]. destruct H2 as [q2 [Hq2 Hk2]].
  rewrite (lookup0_in cand ceqb ceqb_spec _ c1 q1 Hnd Hq1), (lookup0_in cand ceqb ceqb_spec _ c2 q2 Hnd Hq2).
  rewrite Hk1, Hk2. reflexivity.
Qed.

Lemma state_flat : forall p st, stv_state_ok p st -> Permutation (flat (remaining st)) (cands p).
Proof. intros p st [Hk Hr]. rewrite Hr, <- Hk. apply score_to_ranking_flat_perm_all. Qed.

Lemma state_lookup : forall p p' st st', NoDup (cands p) -> NoDup (cands p') ->
  stv_state_ok p st -> stv_state_ok p' st' -> state_equiv st st' ->
  forall c, lookup0 cand ceqb c (escores st) == lookup0 cand ceqb c (escores st').
Proof.
  intros p p' st st' Hnd Hnd' [Hk _] [Hk' _] He c. apply lookup0_equiv.
  - rewrite Hk. exact Hnd.
  - rewrite Hk'. exact Hnd'.
  - apply He.
Qed.

Lemma quota_groups_incl : forall r (d : scores) t el, quota_groups cand ceqb r d t = inl el ->
  incl (flat el) (flat r).
Proof.
  induction r as [|g r IH]; intros d t el H; cbn [STV.quota_groups] in H.
  - inversion H. intros c [].
  - destruct g as [|c g0]; [discriminate|]. destruct (STV.score_ge cand ceqb d t c).
    + destruct (quota_groups cand ceqb r d t) as [x|e] eqn:E; cbn [rbind ok] in H; [|discriminate].
      inversion H; subst el. rewrite !(flat_cons cand). intros a Ha. apply in_app_or in Ha. apply in_or_app.
      destruct Ha as [Ha|Ha]; [left; exact Ha|right; apply (IH d t x E); exact Ha].
    + inversion H. intros a [].
Qed.

Lemma perm_seteq : forall a b : cset, Permutation a b -> seteq a b.
Proof.
  intros a b H c. split; intros Hc; [eapply Permutation_in; [exact H|exact Hc]|
    eapply Permutation_in; [apply Permutation_sym; exact H|exact Hc]].
Qed.

Lemma all_ok_filter : forall cs (f : ballot -> bool) bs, all_ok cs bs -> all_ok cs (filter f bs).
Proof. intros cs f bs H. rewrite Forall_forall in H |- *. intros b Hb. apply filter_In in Hb. apply H, Hb. Qed.

(* the pool of ballots an election round rebuilds the profile from *)
Definition pool (moved : list ballot) (p : profile) (others : list cand) : list ballot :=
  filter (has_ranking cand) (moved ++ concat (map (pile p) others)).

Lemma pool_ok : forall moved (p : profile) others, all_ok (cands p) (ballots p) -> all_ok (cands p) moved ->
  all_ok (cands p) (pool moved p others).
Proof.
  intros moved p others Hp Hm. unfold pool. apply all_ok_filter. apply Forall_app. split; [exact Hm|].
  apply concat_ok. intros c. apply pile_ok. exact Hp.
Qed.

Lemma pool_anonymous : forall moved moved' (p p' : profile) others others',
  dist_eq moved moved' -> dist_eq (ballots p) (ballots p') -> Permutation others others' ->
  dist_eq (pool moved p others) (pool moved' p' others').
Proof.
  intros moved moved' p p' others others' Hm Hde Hp. unfold pool. apply has_ranking_anonymous.
  apply (dist_eq_app cand ceqb); [exact Hm|].
  apply (dtrans _ (concat (map (pile p) others'))); [apply dist_eq_concat_perm; exact Hp|].
  apply dist_eq_concat_map. intros c _. apply pile_anonymous. exact Hde.
Qed.

(* ------------------------------------------------------------------ *)
(** * The last part of a step: tally the next profile *)

Lemma empty_domain : stv_domain (empty_profile cand).
Proof. split; constructor. Qed.

Lemma finish_anonymous : forall (np np' : profile) r (el el' elim elim' : ranking) tbs tbs' (s : mstate),
  profile_equiv np np' -> stv_domain np -> stv_domain np' ->
  groups_equiv el el' -> groups_equiv elim elim' -> Forall2 tiebreak_equiv tbs tbs' ->
  mres_at s stv_step_equiv
    (mbind (mlift (first_place_votes cand ceqb np))
           (fun d => mret (np, state_of_scores cand r el elim tbs d)) s)
    (mbind (mlift (first_place_votes cand ceqb np'))
           (fun d => mret (np', state_of_scores cand r el' elim' tbs' d)) s).
Proof.
  intros np np' r el el' elim elim' tbs tbs' s He Hd Hd' Hel Helim Htbs.
  pose proof (first_place_votes_anonymous cand ceqb ceqb_spec np np' (domain_wf np Hd) (domain_wf np' Hd') He) as H.
  unfold mbind, mlift.
  destruct (first_place_votes cand ceqb np) as [d|e] eqn:E; destruct (first_place_votes cand ceqb np') as [d'|e'] eqn:E';
    cbn [res_equiv] in H; try contradiction; [|subst e'; exact eq_refl].
  pose proof (score_rankings_keys cand ceqb np _ d E) as Hk.
  pose proof (score_rankings_keys cand ceqb np' _ d' E') as Hk'.
  assert (Hn : NoDup (map fst d)) by (rewrite Hk; apply Hd).
  assert (Hn' : NoDup (map fst d')) by (rewrite Hk'; apply Hd').
  cbn. split; [|split; reflexivity]. unfold Anon.stv_step_equiv. cbn [fst snd].
  split; [exact He|]. split.
  - unfold Anon.state_equiv, STV.state_of_scores. cbn [rnd remaining elected eliminated tiebreaks escores].
    split; [reflexivity|]. split; [apply (ranking_of_scores cand); assumption|].
    split; [exact Hel|]. split; [exact Helim|]. split; [exact Htbs|exact H].
  - split; [exact Hd|]. split; [exact Hd'|]. split; split; cbn; try assumption; reflexivity.
Qed.

(* ------------------------------------------------------------------ *)
(** * The election rounds *)

Section Step.
Variable cfg : stv_cfg.
Variable t : Q.
Variables p p' : profile.
Variables prev prev' : estate.
Hypothesis Htb : s_tiebreak cfg = None.
Hypothesis Htr : s_transfer cfg <> TRandom.
Hypothesis Hd : stv_domain p.
Hypothesis Hd' : stv_domain p'.
Hypothesis He : profile_equiv p p'.
Hypothesis Hst : stv_state_ok p prev.
Hypothesis Hst' : stv_state_ok p' prev'.
Hypothesis Hse : state_equiv prev prev'.

Let Hl := state_lookup p p' prev prev' (proj1 Hd) (proj1 Hd') Hst Hst' Hse.
Let Hrem : groups_equiv (remaining prev) (remaining prev') := proj1 (proj2 Hse).

Definition np_equiv (np np' : profile) : Prop :=
  profile_equiv np np' /\ stv_domain np /\ stv_domain np'.

Lemma rebuild_anonymous : forall W W' moved moved' others others',
  seteq W W' -> dist_eq moved moved' -> all_ok (cands p) moved -> all_ok (cands p') moved' ->
  Permutation others others' ->
  np_equiv (next_profile W (pool moved p others) (cands p))
           (next_profile W' (pool moved' p' others') (cands p')).
Proof.
  intros W W' moved moved' others others' HW Hm Hok Hok' Hp.
  pose proof (pool_ok moved p others (proj2 Hd) Hok) as Hpo.
  pose proof (pool_ok moved' p' others' (proj2 Hd') Hok') as Hpo'.
  split; [|split].
  - apply next_profile_anonymous; [apply (all_ok_nonneg _ _ Hpo)|apply (all_ok_nonneg _ _ Hpo')|exact HW| |apply He].
    apply pool_anonymous; [exact Hm|apply He|exact Hp].
  - apply next_profile_domain; [apply Hd|exact Hpo].
  - apply next_profile_domain; [apply Hd'|exact Hpo'].
Qed.

Lemma simultaneous_anonymous : forall s : mstate,
  mres_at s (fun x y => groups_equiv (fst x) (fst y) /\ np_equiv (snd x) (snd y))
    (simultaneous_elect cand ceqb cfg t p prev s) (simultaneous_elect cand ceqb cfg t p' prev' s).
Proof.
  intros s. unfold STV.simultaneous_elect, mbind, mlift.
  pose proof (quota_groups_anonymous (remaining prev) (remaining prev') (escores prev) (escores prev') t
                Hrem (state_uniform p prev (proj1 Hd) Hst) Hl) as Hq.
  destruct (quota_groups cand ceqb (remaining prev) (escores prev) t) as [el|e] eqn:Eq;
  destruct (quota_groups cand ceqb (remaining prev') (escores prev') t) as [el'|e'] eqn:Eq';
    cbn [res_equiv] in Hq; try contradiction; [|subst e'; exact eq_refl].
  cbn [ok]. rewrite (bbfc_ok p Hd), (bbfc_ok p' Hd'). cbn [ok].
  assert (Hw : incl (flat el) (cands p)).
  { intros c Hc. apply (Permutation_in _ (state_flat p prev Hst)). apply (quota_groups_incl _ _ _ _ Eq). exact Hc. }
  assert (Hw' : incl (flat el') (cands p')).
  { intros c Hc. apply (Permutation_in _ (state_flat p' prev' Hst')). apply (quota_groups_incl _ _ _ _ Eq'). exact Hc. }
  rewrite (transfer_all_det _ _ p _ t s Htr (all_ok_ranked _ _ (proj2 Hd)) Hw).
  rewrite (transfer_all_det _ _ p' _ t s Htr (all_ok_ranked _ _ (proj2 Hd')) Hw').
  pose proof (groups_equiv_flat cand el el' Hq) as Hwp.
  destruct (transfers_anonymous (s_transfer cfg) (flat el) (flat el') p p' (escores prev) (escores prev') t
              Hwp (domain_nonneg p Hd) (domain_nonneg p' Hd') (proj1 He) Hl) as [Hz Hm].
  rewrite <- Hz. destruct (existsb _ (flat el)); [exact eq_refl|].
  assert (Ho : incl (set_diff (flat (remaining prev)) (flat el)) (cands p)).
  { intros c Hc. apply (Lib_sets.set_diff_In cand ceqb ceqb_spec) in Hc.
    apply (Permutation_in _ (state_flat p prev Hst)). apply Hc. }
  assert (Ho' : incl (set_diff (flat (remaining prev')) (flat el')) (cands p')).
  { intros c Hc. apply (Lib_sets.set_diff_In cand ceqb ceqb_spec) in Hc.
    apply (Permutation_in _ (state_flat p' prev' Hst')). apply Hc. }
  rewrite (subsetb_true _ _ Ho), (subsetb_true _ _ Ho'). cbn [negb].
  fold (transfers (s_transfer cfg) (flat el) p (escores prev) t).
  fold (transfers (s_transfer cfg) (flat el') p' (escores prev') t).
  fold (pool (transfers (s_transfer cfg) (flat el) p (escores prev) t) p (set_diff (flat (remaining prev)) (flat el))).
  fold (pool (transfers (s_transfer cfg) (flat el') p' (escores prev') t) p' (set_diff (flat (remaining prev')) (flat el'))).
  rewrite (mk_next_ok _ _ _ (proj1 Hd)), (mk_next_ok _ _ _ (proj1 Hd')).
  cbn. split; [|split; reflexivity]. split; [exact Hq|].
  apply rebuild_anonymous.
  - apply perm_seteq. exact Hwp.
  - exact Hm.
  - unfold transfers. apply concat_ok. intros c. apply tr_out_ok, pile_ok, Hd.
  - unfold transfers. apply concat_ok. intros c. apply tr_out_ok, pile_ok, Hd'.
  - rewrite <- (set_diff_seteq cand ceqb ceqb_spec _ _ _ (perm_seteq _ _ Hwp)).
    unfold Core.set_diff. apply Permutation_filter_local. apply (groups_equiv_flat cand). exact Hrem.
Qed.

Lemma flat_len1 : forall (w : cand) g0 (el1 : ranking),
  Z.of_nat (length (flat ((w :: g0) :: el1))) = 1%Z -> g0 = [] /\ flat el1 = [].
Proof.
  intros w g0 el1 H. rewrite (flat_cons cand) in H. cbn [length app] in H. rewrite app_length in H.
  destruct g0 as [|x g0]; [|cbn [length] in H; lia]. split; [reflexivity|].
  destruct (flat el1); [reflexivity|cbn [length] in H; lia].
Qed.

Lemma single_anonymous : forall s : mstate,
  mres_at s (fun x y => groups_equiv (fst (fst x)) (fst (fst y)) /\
                         Forall2 tiebreak_equiv (snd (fst x)) (snd (fst y)) /\ np_equiv (snd x) (snd y))
    (single_elect cand ceqb cfg t p prev s) (single_elect cand ceqb cfg t p' prev' s).
Proof.
  intros s. unfold STV.single_elect, mbind, mlift. rewrite Htb.
  pose proof (elect_top_m_anonymous cand ceqb (remaining prev) (remaining prev') 1 (Some p) (Some p') s Hrem) as H1.
  destruct (elect_top_m cand ceqb (remaining prev) 1 (Some p) None s) as [[[[el rem] tb] s1]|e] eqn:E1;
  destruct (elect_top_m cand ceqb (remaining prev') 1 (Some p') None s) as [[[[el' rem'] tb'] s1']|e'] eqn:E1';
    cbn in H1; try contradiction; [|subst e'; exact eq_refl].
  destruct H1 as [[Hel [Hrm [Ht Ht']]] Hs1]. cbn [fst snd] in Hel, Hrm, Ht, Ht', Hs1. subst tb tb' s1'.
  destruct (Elect.elect_top_m_shape cand ceqb _ _ _ _ _ _ _ _ _ E1) as [_ [[_ [Hs [Hr Hn]]]|Hbad]];
    [|destruct Hbad as [? [? [? [? [? [? [Hx _]]]]]]]; discriminate].
  destruct (Elect.elect_top_m_shape cand ceqb _ _ _ _ _ _ _ _ _ E1') as [_ [[_ [_ [Hr' Hn']]]|Hbad]];
    [|destruct Hbad as [? [? [? [? [? [? [Hx _]]]]]]]; discriminate].
  subst s1. rewrite (bbfc_ok p Hd), (bbfc_ok p' Hd'). cbn [ok].
  destruct Hel as [|g g' el1 el1' Hg Hel1]; [exact eq_refl|].
  destruct g as [|w g0]; [apply Permutation_nil in Hg; subst g'; exact eq_refl|].
  destruct (flat_len1 w g0 el1 Hn) as [-> Hf1]. apply Permutation_length_1_inv in Hg. subst g'.
  destruct (flat_len1 w [] el1' Hn') as [_ Hf1'].
  assert (Hfr : incl (flat (remaining prev)) (cands p)).
  { intros c Hc. apply (Permutation_in _ (state_flat p prev Hst)). exact Hc. }
  assert (Hfr' : incl (flat (remaining prev')) (cands p')).
  { intros c Hc. apply (Permutation_in _ (state_flat p' prev' Hst')). exact Hc. }
  assert (Hwin : In w (cands p)).
  { apply Hfr. rewrite <- Hr. rewrite (flat_app cand), (flat_cons cand). left. reflexivity. }
  assert (Hwin' : In w (cands p')).
  { apply Hfr'. rewrite <- Hr'. rewrite (flat_app cand), (flat_cons cand). left. reflexivity. }
  rewrite (proj2 (Lib_sets.memb_In cand ceqb ceqb_spec w (cands p)) Hwin).
  rewrite (proj2 (Lib_sets.memb_In cand ceqb ceqb_spec w (cands p')) Hwin'). cbn [negb].
  assert (Hrp : forall q : profile, stv_domain q -> ranked (pile q w)).
  { intros q Hq. apply (all_ok_ranked (cands q)). apply pile_ok. apply Hq. }
  rewrite (do_transfer_det _ w _ _ t s Htr (Hrp p Hd)), (do_transfer_det _ w _ _ t s Htr (Hrp p' Hd')).
  rewrite <- (tr_zero_comp (s_transfer cfg) _ _ (Hl w)).
  destruct (tr_zero (s_transfer cfg) (lookup0 cand ceqb w (escores prev))); [exact eq_refl|].
  assert (Ho : incl (flat rem) (cands p)).
  { intros c Hc. apply Hfr. rewrite <- Hr, (flat_app cand). apply in_or_app. right. exact Hc. }
  assert (Ho' : incl (flat rem') (cands p')).
  { intros c Hc. apply Hfr'. rewrite <- Hr', (flat_app cand). apply in_or_app. right. exact Hc. }
  rewrite (subsetb_true _ _ Ho), (subsetb_true _ _ Ho'). cbn [negb].
  assert (Hfe : flat ([w] :: el1) = [w]) by (rewrite (flat_cons cand), Hf1; reflexivity).
  assert (Hfe' : flat ([w] :: el1') = [w]) by (rewrite (flat_cons cand), Hf1'; reflexivity).
  rewrite Hfe, Hfe'.
  fold (pool (tr_out (s_transfer cfg) w (lookup0 cand ceqb w (escores prev)) t (pile p w)) p (flat rem)).
  fold (pool (tr_out (s_transfer cfg) w (lookup0 cand ceqb w (escores prev')) t (pile p' w)) p' (flat rem')).
  rewrite (mk_next_ok _ _ _ (proj1 Hd)), (mk_next_ok _ _ _ (proj1 Hd')).
  cbn. split; [|split; reflexivity]. split; [constructor; [apply Permutation_refl|exact Hel1]|].
  split; [constructor|].
  apply rebuild_anonymous.
  - intros c; reflexivity.
  - apply tr_out_anonymous; [apply (nonneg_filter cand), (domain_nonneg p Hd)
                            |apply (nonneg_filter cand), (domain_nonneg p' Hd')|apply Hl
                            |apply pile_anonymous, He].
  - apply tr_out_ok, pile_ok, Hd.
  - apply tr_out_ok, pile_ok, Hd'.
  - apply (groups_equiv_flat cand). exact Hrm.
Qed.

End Step.

(* ------------------------------------------------------------------ *)
(** * The elimination round *)

Lemma random_break_empty : forall (r : ranking) (s : mstate), scr s = [] ->
  existsb (fun g : list cand => Nat.ltb 1 (length g)) r = true -> random_break cand ceqb r s = inr EScript.
Proof.
  induction r as [|g r IH]; intros s Hs H; [discriminate|].
  cbn [existsb] in H. cbn [Core.random_break].
  destruct g as [|a [|b g]].
  - cbn in H. unfold mbind. rewrite (IH s Hs H). reflexivity.
  - cbn in H. unfold mbind. rewrite (IH s Hs H). reflexivity.
  - unfold mbind, Core.draw_perm, mbind, Core.next_draw. rewrite Hs. reflexivity.
Qed.

Lemma keys_filter : forall (g : cand -> bool) (d : scores),
  map fst (filter (fun q => g (fst q)) d) = filter g (map fst d).
Proof.
  intros g d. induction d as [|q d IH]; [reflexivity|]. cbn [filter map].
  destruct (g (fst q)); cbn [map]; rewrite IH; reflexivity.
Qed.

Lemma scores_equiv_filter : forall (g g' : cand -> bool) (d d' : scores),
  (forall c, g c = g' c) -> scores_equiv d d' ->
  scores_equiv (filter (fun q => g (fst q)) d) (filter (fun q => g' (fst q)) d').
Proof.
  intros g g' d d' Hg [Hk Hv]. split.
  - rewrite !keys_filter. rewrite (filter_ext g g' Hg). apply Permutation_filter_local. exact Hk.
  - intros c q q' Hq Hq'. apply filter_In in Hq. apply filter_In in Hq'. apply (Hv c q q'); [apply Hq|apply Hq'].
Qed.

Lemma existsb_big_equiv : forall r r', groups_equiv r r' ->
  existsb (fun g : list cand => Nat.ltb 1 (length g)) r = existsb (fun g : list cand => Nat.ltb 1 (length g)) r'.
Proof.
  intros r r' H. induction H as [|g g' r r' Hg _ IH]; [reflexivity|]. cbn [existsb].
  rewrite (Permutation_length Hg), IH. reflexivity.
Qed.

Definition small_groups (t : ranking) : Prop := Forall (fun g : cset => (length g <= 1)%nat) t.

Lemma tiebreak_fpv_anonymous : forall lowest lowest' p0 p0' (s : mstate),
  scr s = [] -> stv_domain p0 -> stv_domain p0' -> profile_equiv p0 p0' -> Permutation lowest lowest' ->
  mres_at s (fun t t' => groups_equiv t t' /\ small_groups t /\ small_groups t')
    (tiebreak_set cand ceqb lowest (Some p0) TBFirstPlace s)
    (tiebreak_set cand ceqb lowest' (Some p0') TBFirstPlace s).
Proof.
  intros lowest lowest' p0 p0' s Hs Hd Hd' He Hp. cbn [Core.tiebreak_set]. unfold mbind, mlift.
  pose proof (first_place_votes_anonymous cand ceqb ceqb_spec p0 p0' (domain_wf p0 Hd) (domain_wf p0' Hd') He) as H.
  destruct (first_place_votes cand ceqb p0) as [d|e] eqn:E; destruct (first_place_votes cand ceqb p0') as [d'|e'] eqn:E';
    cbn [res_equiv] in H; try contradiction; [|subst e'; exact eq_refl].
  cbn [ok]. cbv zeta.
  assert (Hn : NoDup (map fst d)) by (rewrite (score_rankings_keys cand ceqb p0 _ d E); apply Hd).
  assert (Hn' : NoDup (map fst d')) by (rewrite (score_rankings_keys cand ceqb p0' _ d' E'); apply Hd').
  set (d1 := filter (fun q : cand * Q => memb (fst q) lowest) d).
  set (d1' := filter (fun q : cand * Q => memb (fst q) lowest') d').
  assert (H1 : scores_equiv d1 d1').
  { apply (scores_equiv_filter (fun c => memb c lowest) (fun c => memb c lowest')); [|exact H].
    intros c. apply (memb_seteq cand ceqb ceqb_spec). apply perm_seteq. exact Hp. }
  pose proof (ranking_of_scores cand d1 d1' true (NoDup_keys_filter cand d _ Hn) (NoDup_keys_filter cand d' _ Hn') H1) as Hr.
  rewrite <- (existsb_big_equiv _ _ Hr).
  destruct (existsb (fun g : list cand => Nat.ltb 1 (length g)) (score_to_ranking cand d1 true)) eqn:Eb.
  - rewrite (random_break_empty _ s Hs Eb).
    rewrite (existsb_big_equiv _ _ Hr) in Eb. rewrite (random_break_empty _ s Hs Eb). exact eq_refl.
  - cbn. split; [|split; reflexivity]. split; [exact Hr|].
    assert (Hsm : forall r : ranking, existsb (fun g : list cand => Nat.ltb 1 (length g)) r = false -> small_groups r).
    { intros r Hf. unfold small_groups. apply Forall_forall. intros g Hg.
      destruct (Nat.ltb 1 (length g)) eqn:El.
      - exfalso. assert (T : existsb (fun g : list cand => Nat.ltb 1 (length g)) r = true).
        { apply existsb_exists. exists g. split; assumption. }
        congruence.
      - apply Nat.ltb_ge in El. exact El. }
    split; [apply Hsm; exact Eb|apply Hsm; rewrite <- (existsb_big_equiv _ _ Hr); exact Eb].
Qed.

(* whom to eliminate, as coded in stv_step *)
Definition elim_pick (lowest : cset) (p0 : profile) : M cand (cand * list (cset * ranking)) :=
  match lowest with
  | [] => mfail EIndex
  | [c] => mret (c, [])
  | _ =>
      do! tb := tiebreak_set cand ceqb lowest (Some p0) TBFirstPlace in
      match rev tb with
      | (c :: _) :: _ => mret (c, [(lowest, tb)])
      | _ => mfail EIndex
      end
  end.

Lemma elim_pick_anonymous : forall lowest lowest' p0 p0' (s : mstate),
  scr s = [] -> stv_domain p0 -> stv_domain p0' -> profile_equiv p0 p0' -> Permutation lowest lowest' ->
  mres_at s (fun x y => fst x = fst y /\ Forall2 tiebreak_equiv (snd x) (snd y))
    (elim_pick lowest p0 s) (elim_pick lowest' p0' s).
Proof.
  intros lowest lowest' p0 p0' s Hs Hd Hd' He Hp. unfold elim_pick.
  destruct lowest as [|c [|c2 l]].
  - apply Permutation_nil in Hp. subst lowest'. exact eq_refl.
  - apply Permutation_length_1_inv in Hp. subst lowest'. cbn. split; [|split; reflexivity]. split; [reflexivity|constructor].
  - destruct lowest' as [|c' [|c2' l']];
      try (apply Permutation_length in Hp; cbn [length] in Hp; lia).
    apply (mbind_at (fun t t' => groups_equiv t t' /\ small_groups t /\ small_groups t')).
    + apply tiebreak_fpv_anonymous; assumption.
    + intros tb tb' [Ht [Hsm Hsm']].
      assert (Hsr : small_groups (rev tb)).
      { unfold small_groups in *. rewrite Forall_forall in Hsm |- *. intros g Hg. apply Hsm. apply in_rev. exact Hg. }
      remember (rev tb) as rtb eqn:Ertb. remember (rev tb') as rtb' eqn:Ertb'.
      assert (Hrv : Forall2 (@Permutation cand) rtb rtb') by (subst rtb rtb'; apply Forall2_rev; exact Ht).
      clear Ertb Ertb'.
      destruct Hrv as [|g g' rt rt' Hg _]; [exact eq_refl|].
      destruct g as [|x g0]; [apply Permutation_nil in Hg; subst g'; exact eq_refl|].
      unfold small_groups in Hsr. inversion Hsr as [|y z Hl _]; subst.
      destruct g0 as [|x2 g0]; [|cbn [length] in Hl; lia].
      apply Permutation_length_1_inv in Hg. subst g'.
      cbn. split; [|split; reflexivity]. split; [reflexivity|].
      constructor; [|constructor]. split; cbn [fst snd]; [exact Hp|exact Ht].
Qed.

(* ------------------------------------------------------------------ *)
(** * One whole step *)

Definition mid_equiv (x y : ranking * ranking * list (cset * ranking) * profile) : Prop :=
  groups_equiv (fst (fst (fst x))) (fst (fst (fst y))) /\
  groups_equiv (snd (fst (fst x))) (snd (fst (fst y))) /\
  Forall2 tiebreak_equiv (snd (fst x)) (snd (fst y)) /\
  np_equiv (snd x) (snd y).

Theorem stv_step_at : forall cfg t p0 p0' n p p' prev prev' (s : mstate),
  s_tiebreak cfg = None -> s_transfer cfg <> TRandom -> scr s = [] ->
  stv_domain p0 -> stv_domain p0' -> profile_equiv p0 p0' ->
  stv_domain p -> stv_domain p' -> profile_equiv p p' ->
  stv_state_ok p prev -> stv_state_ok p' prev' -> state_equiv prev prev' ->
  mres_at s stv_step_equiv
    (stv_step cand ceqb cfg t p0 n p prev s) (stv_step cand ceqb cfg t p0' n p' prev' s).
Proof.
  intros cfg t p0 p0' n p p' prev prev' s Htb Htr Hs Hd0 Hd0' He0 Hd Hd' He Hst Hst' Hse.
  unfold STV.stv_step. cbv zeta.
  apply (mbind_at mid_equiv).
  - rewrite !match_nonempty. rewrite <- (above_agree (escores prev) (escores prev') t (proj2 (proj2 (proj2 (proj2 (proj2 Hse)))))).
    destruct (nonempty (filter (fun q : cand * Q => Qle_bool t (snd q)) (escores prev))).
    + destruct (s_simul cfg).
      * apply (mbind_at (fun x y => groups_equiv (fst x) (fst y) /\ np_equiv (snd x) (snd y))).
        -- apply simultaneous_anonymous; assumption.
        -- intros [el np] [el' np'] [H1 H2]. cbn [fst snd] in H1, H2. cbn. split; [|split; reflexivity].
           unfold mid_equiv. cbn [fst snd]. split; [exact H1|]. split; [apply no_group_equiv|]. split; [constructor|exact H2].
      * apply (mbind_at (fun x y => groups_equiv (fst (fst x)) (fst (fst y)) /\
                           Forall2 tiebreak_equiv (snd (fst x)) (snd (fst y)) /\ np_equiv (snd x) (snd y))).
        -- apply single_anonymous; assumption.
        -- intros [[el tbs] np] [[el' tbs'] np'] [H1 [H2 H3]]. cbn [fst snd] in H1, H2, H3. cbn. split; [|split; reflexivity].
           unfold mid_equiv. cbn [fst snd]. split; [exact H1|]. split; [apply no_group_equiv|]. split; assumption.
    + rewrite <- (Permutation_length (proj2 He)).
      destruct (Z.of_nat (length (cands p)) =? s_m cfg - n)%Z.
      * cbn. split; [|split; reflexivity]. unfold mid_equiv. cbn [fst snd].
        split; [apply Hse|]. split; [apply no_group_equiv|]. split; [constructor|].
        split; [split; [apply (dist_eq_refl cand ceqb)|apply Permutation_refl]|split; apply empty_domain].
      * remember (rev (remaining prev)) as rr eqn:Err. remember (rev (remaining prev')) as rr' eqn:Err'.
        assert (Hrv : Forall2 (@Permutation cand) rr rr') by (subst rr rr'; apply Forall2_rev; apply Hse).
        clear Err Err'.
        destruct Hrv as [|lowest lowest' rt rt' Hlow _]; [exact eq_refl|].
        apply (mbind_at (fun x y => fst x = fst y /\ Forall2 tiebreak_equiv (snd x) (snd y))).
        -- apply (elim_pick_anonymous lowest lowest' p0 p0' s); assumption.
        -- intros [x tbs] [x' tbs'] [Hx Htbs]. cbn [fst snd] in Hx, Htbs. subst x'.
           unfold mbind, mlift.
           rewrite (remove_cand_prof_next [x] p (proj1 Hd)), (remove_cand_prof_next [x] p' (proj1 Hd')).
           cbn. split; [|split; reflexivity]. unfold mid_equiv. cbn [fst snd].
           split; [apply no_group_equiv|]. split; [constructor; [apply Permutation_refl|constructor]|].
           split; [exact Htbs|]. split; [|split].
           ++ apply next_profile_anonymous; [apply (domain_nonneg p Hd)|apply (domain_nonneg p' Hd')
                                            |intros c; reflexivity|apply He|apply He].
           ++ apply next_profile_domain; [apply Hd|apply Hd].
           ++ apply next_profile_domain; [apply Hd'|apply Hd'].
  - intros [[[el elim] tbs] np] [[[el' elim'] tbs'] np'] [H1 [H2 [H3 [H4 [H5 H6]]]]]. cbn [fst snd] in H1, H2, H3, H4, H5, H6.
    rewrite (proj1 Hse). apply finish_anonymous; assumption.
Qed.

Theorem stv_step_anonymous : forall cfg t p0 p0' n p p' prev prev' (s : mstate),
  s_tiebreak cfg = None -> s_transfer cfg <> TRandom -> scr s = [] ->
  stv_domain p0 -> stv_domain p0' -> profile_equiv p0 p0' ->
  stv_domain p -> stv_domain p' -> profile_equiv p p' ->
  stv_state_ok p prev -> stv_state_ok p' prev' -> state_equiv prev prev' ->
  mres_equiv stv_step_equiv
    (stv_step cand ceqb cfg t p0 n p prev s) (stv_step cand ceqb cfg t p0' n p' prev' s).
Proof. intros. apply (mres_at_equiv s). apply stv_step_at; assumption. Qed.

(* ------------------------------------------------------------------ *)
(** * The whole count *)

Lemma Qtrunc_comp : forall q q', q == q' -> Qtrunc q = Qtrunc q'.
Proof.
  intros q q' H. unfold STV.Qtrunc. unfold Qeq in H.
  rewrite <- (Z.quot_mul_cancel_r (Qnum q) (Zpos (Qden q)) (Zpos (Qden q'))) by discriminate.
  rewrite H. rewrite (Z.mul_comm (Zpos (Qden q)) (Zpos (Qden q'))).
  apply Z.quot_mul_cancel_r; discriminate.
Qed.

Lemma stv_validate_ok : forall p, stv_domain p -> stv_validate cand p = inl tt.
Proof.
  intros p [_ Hb]. unfold STV.stv_validate. induction Hb as [|b bs Hb _ IH]; [reflexivity|].
  cbn [rfirst_err]. destruct Hb as [H1 [H2 _]].
  destruct (rk b) as [|g r] eqn:E; [exfalso; apply H1; reflexivity|].
  assert (Hf : existsb (fun s0 : list cand => Nat.ltb 1 (length s0)) (g :: r) = false).
  { apply not_true_is_false. intros Hex. apply existsb_exists in Hex. destruct Hex as [x [Hx Hl]].
    rewrite Forall_forall in H2. rewrite (H2 x Hx) in Hl. discriminate. }
  rewrite Hf. cbn [rbind]. exact IH.
Qed.

(* since the up-front integrality check of the random transfer, the constructor also looks at
   whether every weight is integral, which is not a function of the electorate [dist_eq] (two
   half-weight copies of a ballot versus one copy of weight 1): with the random transfer the two
   profiles must agree on it *)
Lemma stv_init_anonymous : forall cfg p p', stv_domain p -> stv_domain p' -> profile_equiv p p' ->
  (s_transfer cfg = TRandom ->
   forallb (fun b => is_integral (wt b)) (ballots p) =
   forallb (fun b => is_integral (wt b)) (ballots p')) ->
  stv_init cand cfg p = stv_init cand cfg p'.
Proof.
  intros cfg p p' Hd Hd' [Hde Hp] Hint. unfold STV.stv_init.
  rewrite (stv_validate_ok p Hd), (stv_validate_ok p' Hd'). cbn [rbind].
  assert (Hc : is_trandom (s_transfer cfg) &&
               negb (forallb (fun b => is_integral (wt b)) (ballots p)) =
               is_trandom (s_transfer cfg) &&
               negb (forallb (fun b => is_integral (wt b)) (ballots p'))).
  { destruct (s_transfer cfg); try reflexivity. rewrite (Hint eq_refl). reflexivity. }
  rewrite Hc.
  destruct (is_trandom (s_transfer cfg) &&
            negb (forallb (fun b => is_integral (wt b)) (ballots p'))); [reflexivity|].
  rewrite <- (Permutation_length Hp).
  destruct ((s_m cfg <=? 0)%Z || (Z.of_nat (length (cands p)) <? s_m cfg)%Z); [reflexivity|].
  pose proof (total_wt_anonymous cand ceqb ceqb_spec _ _ Hde) as Ht.
  unfold STV.threshold. destruct (s_quota cfg); [| |reflexivity].
  - rewrite (Qtrunc_comp _ (total_wt cand (ballots p') / inject_Z (s_m cfg + 1) + 1)); [reflexivity|].
    rewrite Ht. reflexivity.
  - rewrite (Qtrunc_comp _ (total_wt cand (ballots p') / inject_Z (s_m cfg))); [reflexivity|].
    rewrite Ht. reflexivity.
Qed.

Lemma initial_state_anonymous : forall p p', stv_domain p -> stv_domain p' -> profile_equiv p p' ->
  res_equiv (fun st st' => state_equiv st st' /\ stv_state_ok p st /\ stv_state_ok p' st')
    (initial_state cand ceqb p) (initial_state cand ceqb p').
Proof.
  intros p p' Hd Hd' He. unfold STV.initial_state.
  pose proof (first_place_votes_anonymous cand ceqb ceqb_spec p p' (domain_wf p Hd) (domain_wf p' Hd') He) as H.
  destruct (first_place_votes cand ceqb p) as [d|e] eqn:E; destruct (first_place_votes cand ceqb p') as [d'|e'] eqn:E';
    cbn [res_equiv] in H; try contradiction; cbn [rbind ok res_equiv]; [|exact H].
  pose proof (score_rankings_keys cand ceqb p _ d E) as Hk.
  pose proof (score_rankings_keys cand ceqb p' _ d' E') as Hk'.
  assert (Hn : NoDup (map fst d)) by (rewrite Hk; apply Hd).
  assert (Hn' : NoDup (map fst d')) by (rewrite Hk'; apply Hd').
  split; [|split; split; cbn; try assumption; reflexivity].
  unfold Anon.state_equiv, STV.state_of_scores. cbn [rnd remaining elected eliminated tiebreaks escores].
  split; [reflexivity|]. split; [apply (ranking_of_scores cand); assumption|].
  split; [apply no_group_equiv|]. split; [apply no_group_equiv|]. split; [constructor|exact H].
Qed.

Lemma real_groups_flat_length : forall r : ranking, length (flat (real_groups cand r)) = length (flat r).
Proof. intros [|[|c g] [|g2 r]]; reflexivity. Qed.

Lemma count_elected_equiv : forall sts sts' : list estate, Forall2 state_equiv sts sts' ->
  count_elected cand sts = count_elected cand sts'.
Proof.
  intros sts sts' H. unfold STV.count_elected. f_equal.
  induction H as [|st st' sts sts' Hst _ IH]; [reflexivity|].
  cbn [map concat]. rewrite !(flat_app cand), !app_length, IH, !real_groups_flat_length.
  rewrite (Permutation_length (groups_equiv_flat cand _ _ (proj1 (proj2 (proj2 Hst))))). reflexivity.
Qed.

Lemma stv_loop_at : forall fuel cfg t p0 p0' (s : mstate),
  s_tiebreak cfg = None -> s_transfer cfg <> TRandom -> scr s = [] ->
  stv_domain p0 -> stv_domain p0' -> profile_equiv p0 p0' ->
  forall p p' sts sts',
  stv_domain p -> stv_domain p' -> profile_equiv p p' ->
  Forall2 state_equiv sts sts' ->
  (forall prev prev' l l', sts = prev :: l -> sts' = prev' :: l' ->
     stv_state_ok p prev /\ stv_state_ok p' prev') ->
  mres_at s (Forall2 state_equiv)
    (stv_loop cand ceqb fuel cfg t p0 p sts s) (stv_loop cand ceqb fuel cfg t p0' p' sts' s).
Proof.
  intros fuel cfg t p0 p0' s Htb Htr Hs Hd0 Hd0' He0.
  induction fuel as [|fuel IH]; intros p p' sts sts' Hd Hd' He Hsts Hhead.
  - cbn [STV.stv_loop]. rewrite <- (count_elected_equiv sts sts' Hsts).
    destruct (count_elected cand sts =? s_m cfg)%Z; [|exact eq_refl].
    cbn. split; [apply Forall2_rev; exact Hsts|split; reflexivity].
  - cbn [STV.stv_loop]. rewrite <- (count_elected_equiv sts sts' Hsts).
    destruct (count_elected cand sts =? s_m cfg)%Z.
    + cbn. split; [apply Forall2_rev; exact Hsts|split; reflexivity].
    + destruct Hsts as [|prev prev' sts sts' Hprev Hsts]; [exact eq_refl|].
      destruct (Hhead prev prev' sts sts' eq_refl eq_refl) as [Hok Hok'].
      apply (mbind_at stv_step_equiv).
      * apply stv_step_at; assumption.
      * intros [np st] [np' st'] [H1 [H2 [H3 [H4 [H5 H6]]]]]. cbn [fst snd] in H1, H2, H3, H4, H5, H6.
        apply IH; try assumption.
        -- constructor; [exact H2|]. constructor; assumption.
        -- intros a a' l l' Ea Ea'. inversion Ea; inversion Ea'; subst. split; assumption.
Qed.

Theorem run_stv_anonymous : forall cfg p p' (s : mstate),
  s_tiebreak cfg = None -> s_transfer cfg <> TRandom -> scr s = [] ->
  stv_domain p -> stv_domain p' -> profile_equiv p p' ->
  mres_equiv (Forall2 state_equiv) (run_stv cand ceqb cfg p s) (run_stv cand ceqb cfg p' s).
Proof.
  intros cfg p p' s Htb Htr Hs Hd Hd' He. apply (mres_at_equiv s).
  unfold STV.run_stv, mbind, mlift. rewrite (stv_init_anonymous cfg p p' Hd Hd' He (fun H => False_ind _ (Htr H))).
  destruct (stv_init cand cfg p') as [t|e]; [|exact eq_refl]. cbn [ok].
  pose proof (initial_state_anonymous p p' Hd Hd' He) as H0.
  destruct (initial_state cand ceqb p) as [s0|e]; destruct (initial_state cand ceqb p') as [s0'|e'];
    cbn [res_equiv] in H0; try contradiction; [|subst e'; exact eq_refl].
  cbn [ok]. rewrite <- (Permutation_length (proj2 He)).
  destruct H0 as [H1 [H2 H3]].
  apply stv_loop_at; try assumption.
  - constructor; [exact H1|constructor].
  - intros a a' l l' Ea Ea'. inversion Ea; inversion Ea'; subst. split; assumption.
Qed.

(* the rule entry point *)
Theorem stv_rule_anonymous : forall cfg p p' (s : mstate),
  s_tiebreak cfg = None -> s_transfer cfg <> TRandom -> scr s = [] ->
  stv_domain p -> stv_domain p' -> profile_equiv p p' ->
  mres_equiv (Forall2 state_equiv) (run_rule cand ceqb (RSTV cfg) p s) (run_rule cand ceqb (RSTV cfg) p' s).
Proof. intros. cbn [Rules.run_rule]. apply run_stv_anonymous; assumption. Qed.

Theorem frac_transfer_anonymous : forall (w : cand) (fpv fpv' t : Q) (bs bs' : list ballot),
  ranked bs -> ranked bs' -> nonneg_wts bs -> nonneg_wts bs' -> fpv == fpv' -> dist_eq bs bs' ->
  res_equiv dist_eq (frac_transfer w fpv bs t) (frac_transfer w fpv' bs' t).
Proof.
  intros w fpv fpv' t bs bs' Hr Hr' Hn Hn' Hf Hde.
  pose proof (Qeq_bool_comp fpv fpv' 0 0 Hf (Qeq_refl 0)) as Hz.
  destruct (Qeq_bool fpv 0) eqn:E.
  - rewrite (frac_zero w fpv bs t E), (frac_zero w fpv' bs' t (eq_sym Hz)). reflexivity.
  - rewrite (frac_ok w fpv bs t Hr E), (frac_ok w fpv' bs' t Hr' (eq_sym Hz)). cbn [res_equiv].
    apply frac_out_anonymous; assumption.
Qed.

End StvAnon.
