(* Proofs/C08_stv.v — property C08, anonymity of the STV family: the building blocks of one
   STV step (piles, fractional and full-weight transfers, quota test, threshold, initial round)
   only see the electorate [dist_eq]; then one whole step on the deterministic path. *)
From Coq Require Import List ZArith QArith Bool Permutation Lia Lqa Setoid Morphisms Sorting.Sorted.
From VK Require Import Base Core STV Pairwise Rules.
From VK.Spec Require Import Content ScoreSpec EditSpec Anon.
From VK.Proofs Require Import Lib_sets Lib_rk Lib_content Lib_condense C11_condense C04_scoring C12_edit C08_anon.
Import ListNotations.
Open Scope Q_scope.

Lemma Qlt_bool_comp : forall a a' b b', a == a' -> b == b' -> Qlt_bool a b = Qlt_bool a' b'.
Proof.
  intros a a' b b' Ha Hb.
  destruct (Qlt_bool a b) eqn:E; destruct (Qlt_bool a' b') eqn:E'; try reflexivity.
  - apply C04_scoring.Qlt_bool_iff in E. apply C04_scoring.Qlt_bool_false_iff in E'. lra.
  - apply C04_scoring.Qlt_bool_iff in E'. apply C04_scoring.Qlt_bool_false_iff in E. lra.
Qed.
Lemma Qle_bool_comp : forall a a' b b', a == a' -> b == b' -> Qle_bool a b = Qle_bool a' b'.
Proof.
  intros a a' b b' Ha Hb.
  destruct (Qle_bool a b) eqn:E; destruct (Qle_bool a' b') eqn:E'; try reflexivity.
  - apply Qle_bool_iff in E. exfalso. assert (T : Qle_bool a' b' = true) by (apply Qle_bool_iff; lra).
    congruence.
  - apply Qle_bool_iff in E'. exfalso. assert (T : Qle_bool a b = true) by (apply Qle_bool_iff; lra).
    congruence.
Qed.
Lemma Qeq_bool_comp : forall a a' b b', a == a' -> b == b' -> Qeq_bool a b = Qeq_bool a' b'.
Proof.
  intros a a' b b' Ha Hb.
  destruct (Qeq_bool a b) eqn:E; destruct (Qeq_bool a' b') eqn:E'; try reflexivity.
  - apply Qeq_bool_iff in E. exfalso. assert (T : Qeq_bool a' b' = true) by (apply Qeq_bool_iff; lra).
    congruence.
  - apply Qeq_bool_iff in E'. exfalso. assert (T : Qeq_bool a b = true) by (apply Qeq_bool_iff; lra).
    congruence.
Qed.

Section StvAnon.
Variable cand : Type.
Variable ceqb : cand -> cand -> bool.
Hypothesis ceqb_spec : forall a b, reflect (a = b) (ceqb a b).

Notation cset := (cset cand).
Notation ranking := (ranking cand).
Notation scores := (scores cand).
Notation ballot := (ballot cand).
Notation profile := (profile cand).
Notation mstate := (mstate cand).
Notation estate := (estate cand).
Notation same := (same_content cand ceqb).
Notation wtof := (wtof cand ceqb).
Notation dist_eq := (dist_eq cand ceqb).
Notation condense_bs := (condense_bs cand ceqb).
Notation memb := (memb cand ceqb).
Notation ranking_eqb := (ranking_eqb cand ceqb).
Notation cset_eqb := (cset_eqb cand ceqb).
Notation flat := (flat cand).
Notation strip := (strip cand ceqb).
Notation set_diff := (set_diff cand ceqb).
Notation nonneg_wts := (nonneg_wts cand).
Notation wsum := (Lib_condense.wsum cand).
Notation groups_equiv := (groups_equiv cand).
Notation scores_equiv := (scores_equiv cand).
Notation state_equiv := (state_equiv cand).
Notation profile_equiv := (profile_equiv cand ceqb).
Notation wf_profile := (wf_profile cand).
Notation score_free := (EditSpec.score_free cand).
Notation seteq := (seteq cand).
Notation pile := (pile cand ceqb).
Notation first_is := (first_is cand ceqb).

Let same_refl := Lib_content.same_refl cand ceqb ceqb_spec.
Let any_all := any_content_all cand.
Let dtrans := dist_eq_trans cand ceqb.
Let dsym := dist_eq_sym cand ceqb.

(* ------------------------------------------------------------------ *)
(** * Filters that only look at the content *)

Definition as_key (r : ranking) (d : scores) : ballot := mkBallot r 0 d None None.

Lemma same_as_key : forall k b, same k b = same k (as_key (rk b) (sc b)).
Proof. intros k b. apply (Lib_content.same_ext_r cand ceqb); reflexivity. Qed.

Lemma wtof_filter_content : forall (f : ballot -> bool) (fc : ranking -> scores -> bool) k bs,
  (forall b, f b = fc (rk b) (sc b)) ->
  wtof k (filter f bs) == wsum (fun r d => if same k (as_key r d) && fc r d then 1 else 0) bs.
Proof.
  intros f fc k bs Hf. induction bs as [|b bs IH]; [reflexivity|].
  cbn [filter]. rewrite wsum_cons, <- same_as_key, <- Hf.
  destruct (f b).
  - rewrite wtof_cons. destruct (same k b); cbn [andb]; rewrite IH; ring.
  - rewrite andb_false_r, IH. ring.
Qed.

Lemma dist_eq_filter_content : forall (f : ballot -> bool) (fc : ranking -> scores -> bool),
  (forall b, f b = fc (rk b) (sc b)) ->
  (forall x y : ballot, same x y = true -> fc (rk x) (sc x) = fc (rk y) (sc y)) ->
  forall bs bs', dist_eq bs bs' -> dist_eq (filter f bs) (filter f bs').
Proof.
  intros f fc Hf Hc bs bs' Hde k. rewrite !(wtof_filter_content f fc k _ Hf).
  apply (wsum_dist_eq cand ceqb ceqb_spec (any_content cand)); try apply any_all; [|exact Hde].
  intros x y _ _ Hs. rewrite (Hc x y Hs).
  assert (Hk : same (as_key (rk x) (sc x)) (as_key (rk y) (sc y)) = true).
  { rewrite <- same_as_key. rewrite (Lib_content.same_sym cand ceqb), <- same_as_key.
    rewrite (Lib_content.same_sym cand ceqb). exact Hs. }
  rewrite (Lib_content.same_congr_r cand ceqb ceqb_spec _ _ k Hk). reflexivity.
Qed.

(* is the first position of the ranking exactly {w} ? *)
Definition first_rk (w : cand) (r : ranking) : bool :=
  match r with s :: _ => cset_eqb s [w] | [] => false end.

Lemma first_rk_compat : forall w a b, ranking_eqb a b = true -> first_rk w a = first_rk w b.
Proof.
  intros w [|s a] [|s' b] H; try reflexivity; try discriminate.
  cbn [Core.ranking_eqb] in H. apply andb_true_iff in H. destruct H as [Hs _]. cbn [first_rk].
  destruct (cset_eqb s [w]) eqn:E; destruct (cset_eqb s' [w]) eqn:E'; try reflexivity.
  - rewrite (Lib_sets.cset_eqb_sym cand ceqb) in Hs.
    rewrite (Lib_sets.cset_eqb_trans cand ceqb ceqb_spec _ _ _ Hs E) in E'. discriminate.
  - rewrite (Lib_sets.cset_eqb_trans cand ceqb ceqb_spec _ _ _ Hs E') in E. discriminate.
Qed.

Theorem pile_anonymous : forall (p p' : profile) w,
  dist_eq (ballots p) (ballots p') -> dist_eq (pile p w) (pile p' w).
Proof.
  intros p p' w H. unfold Core.pile.
  apply (dist_eq_filter_content (first_is w) (fun r _ => first_rk w r)); [reflexivity| |exact H].
  intros x y Hs. apply first_rk_compat. apply (same_rk cand ceqb). exact Hs.
Qed.

Lemma has_ranking_anonymous : forall bs bs' : list ballot,
  dist_eq bs bs' -> dist_eq (filter (has_ranking cand) bs) (filter (has_ranking cand) bs').
Proof.
  intros bs bs' H.
  apply (dist_eq_filter_content (has_ranking cand) (fun r _ => nonempty r)); [reflexivity| |exact H].
  intros x y Hs. apply (ranking_eqb_nonempty_eq cand ceqb). apply (same_rk cand ceqb). exact Hs.
Qed.

(* blocks listed in another order *)
Lemma dist_eq_concat_perm : forall (F : cand -> list ballot) (l l' : list cand),
  Permutation l l' -> dist_eq (concat (map F l)) (concat (map F l')).
Proof.
  intros F l l' H. apply (dist_eq_perm cand ceqb).
  induction H as [|x l l' _ IH|x y l|l l' l'' _ IH1 _ IH2]; cbn [map concat].
  - constructor.
  - apply Permutation_app_head. exact IH.
  - rewrite !app_assoc. apply Permutation_app_tail. apply Permutation_app_comm.
  - eapply Permutation_trans; eassumption.
Qed.

Lemma dist_eq_concat_map : forall (F F' : cand -> list ballot) (l : list cand),
  (forall c, In c l -> dist_eq (F c) (F' c)) -> dist_eq (concat (map F l)) (concat (map F' l)).
Proof.
  intros F F' l H. induction l as [|c l IH]; cbn [map concat]; [apply (dist_eq_refl cand ceqb)|].
  apply (dist_eq_app cand ceqb); [apply H; left; reflexivity|apply IH; intros x Hx; apply H; right; exact Hx].
Qed.

(* ------------------------------------------------------------------ *)
(** * Re-weighting by a content-determined factor, then keeping the positive ballots *)

Section Push.
Variable hr : ranking -> ranking.
Variable kc : ranking -> bool.
Hypothesis hr_compat : forall a b, ranking_eqb a b = true -> ranking_eqb (hr a) (hr b) = true.
Hypothesis kc_compat : forall a b, ranking_eqb a b = true -> kc a = kc b.

Definition pushG (phi : ranking -> Q) (k : ballot) (r : ranking) (_ : scores) : Q :=
  if same k (as_key (hr r) []) && kc (hr r) && Qlt_bool 0 (phi r) then phi r else 0.

Lemma wtof_push : forall (h : ballot -> ballot) (phi : ranking -> Q) k bs,
  (forall b, rk (h b) = hr (rk b) /\ sc (h b) = [] /\ wt (h b) == wt b * phi (rk b)) ->
  nonneg_wts bs ->
  wtof k (filter (fun x => kc (rk x) && pos_wt cand x) (map h bs)) == wsum (pushG phi k) bs.
Proof.
  intros h phi k bs Hh Hn. unfold Anon.nonneg_wts in Hn.
  induction Hn as [|b bs Hb _ IH]; [reflexivity|].
  cbn [map filter]. rewrite wsum_cons. destruct (Hh b) as [Hrk [Hsc Hwt]].
  unfold pushG at 1.
  assert (Hs : same k (h b) = same k (as_key (hr (rk b)) [])).
  { apply (Lib_content.same_ext_r cand ceqb); [exact Hrk|exact Hsc]. }
  rewrite <- Hs, Hrk. unfold Core.pos_wt.
  destruct (kc (hr (rk b))); cbn [andb].
  - destruct (Qlt_bool 0 (wt (h b))) eqn:E1; destruct (Qlt_bool 0 (phi (rk b))) eqn:E2;
      try apply C04_scoring.Qlt_bool_iff in E1; try apply C04_scoring.Qlt_bool_false_iff in E1;
      try apply C04_scoring.Qlt_bool_iff in E2; try apply C04_scoring.Qlt_bool_false_iff in E2.
    + rewrite wtof_cons. destruct (same k (h b)); cbn [andb]; rewrite IH, ?Hwt; ring.
    + exfalso. rewrite Hwt in E1. nra.
    + rewrite IH. assert (Z0 : wt b * phi (rk b) == 0) by (rewrite Hwt in E1; nra).
      destruct (same k (h b)); cbn [andb]; rewrite ?Z0; ring.
    + rewrite IH. rewrite andb_false_r. ring.
  - rewrite IH. rewrite andb_false_r. cbn [andb]. ring.
Qed.

Lemma pushG_compat : forall phi k, (forall a b, ranking_eqb a b = true -> phi a == phi b) ->
  forall x y : ballot, same x y = true -> pushG phi k (rk x) (sc x) == pushG phi k (rk y) (sc y).
Proof.
  intros phi k Hphi x y Hs. pose proof (same_rk cand ceqb x y Hs) as Hr. unfold pushG.
  assert (Hk : same (as_key (hr (rk x)) []) (as_key (hr (rk y)) []) = true).
  { apply same_iff. cbn [as_key rk sc]. split; [apply hr_compat; exact Hr|reflexivity]. }
  rewrite (Lib_content.same_congr_r cand ceqb ceqb_spec _ _ k Hk).
  rewrite (kc_compat _ _ (hr_compat _ _ Hr)).
  rewrite (Qlt_bool_comp 0 0 (phi (rk x)) (phi (rk y)) (Qeq_refl 0) (Hphi _ _ Hr)).
  destruct (same k (as_key (hr (rk y)) []) && kc (hr (rk y)) && Qlt_bool 0 (phi (rk y)));
    [apply Hphi; exact Hr|reflexivity].
Qed.

Theorem dist_eq_push : forall (h h' : ballot -> ballot) (phi phi' : ranking -> Q) bs bs',
  (forall b, rk (h b) = hr (rk b) /\ sc (h b) = [] /\ wt (h b) == wt b * phi (rk b)) ->
  (forall b, rk (h' b) = hr (rk b) /\ sc (h' b) = [] /\ wt (h' b) == wt b * phi' (rk b)) ->
  (forall a b, ranking_eqb a b = true -> phi a == phi b) ->
  (forall r, phi r == phi' r) ->
  nonneg_wts bs -> nonneg_wts bs' -> dist_eq bs bs' ->
  dist_eq (filter (fun x => kc (rk x) && pos_wt cand x) (map h bs))
          (filter (fun x => kc (rk x) && pos_wt cand x) (map h' bs')).
Proof.
  intros h h' phi phi' bs bs' Hh Hh' Hphi Hpp Hn Hn' Hde k.
  rewrite (wtof_push h phi k bs Hh Hn), (wtof_push h' phi' k bs' Hh' Hn').
  transitivity (wsum (pushG phi k) bs').
  - apply (wsum_dist_eq cand ceqb ceqb_spec (any_content cand)); try apply any_all; [|exact Hde].
    intros x y _ _ Hs. apply pushG_compat; assumption.
  - unfold Lib_condense.wsum. apply qsum_map_ext_in. intros b _. unfold pushG.
    rewrite (Qlt_bool_comp 0 0 (phi (rk b)) (phi' (rk b)) (Qeq_refl 0) (Hpp _)).
    destruct (same k (as_key (hr (rk b)) []) && kc (hr (rk b)) && Qlt_bool 0 (phi' (rk b)));
      [rewrite (Hpp (rk b))|]; reflexivity.
Qed.

End Push.

End StvAnon.
