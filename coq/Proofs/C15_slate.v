(* Proofs/C15_slate.v — C15, the slate-Bradley-Terry ballot-type table: arrangements_ms enumerates the
   distinct orderings of a multiset of bloc names; slate_bt_pdf (_compute_ballot_type_dist) is
   cohesion^(own-above-other pairs) * (1-cohesion)^(other-above-own pairs), normalised. *)
From VK Require Import Base Core GenValidation PrefInterval BTSpec Lib_rk Lib_sets C12_expand
  C15_interval C15_bt.
From Coq Require Import Permutation Lia Lqa Setoid Morphisms.

(* ---------- S1: distinct arrangements of a multiset ---------- *)

Lemma insert_everywhere_eq : forall x l, insert_everywhere x l = insert_all bloc x l.
Proof.
  intros x l. induction l as [|y l IH]; cbn [insert_everywhere insert_all]; [reflexivity|].
  rewrite IH. reflexivity.
Qed.

Lemma type_eqb_true_iff : forall a b, type_eqb a b = true <-> a = b.
Proof.
  intros a b. unfold type_eqb. destruct (list_eq_dec Pos.eq_dec a b) as [E|E].
  - split; [intros _; exact E|reflexivity].
  - split; [discriminate|intros H; contradiction].
Qed.

Lemma existsb_type_in : forall t l, existsb (type_eqb t) l = true <-> In t l.
Proof.
  intros t l. rewrite existsb_exists. split.
  - intros (y & Hy & E). apply type_eqb_true_iff in E. subst. exact Hy.
  - intros H. exists t. split; [exact H|apply type_eqb_true_iff; reflexivity].
Qed.

Lemma dedup_types_in : forall l t, In t (dedup_types l) <-> In t l.
Proof.
  unfold dedup_types. induction l as [|x l IH]; intros t; cbn [fold_right].
  - reflexivity.
  - destruct (existsb (type_eqb x) _) eqn:E.
    + rewrite IH. split; [intros H; right; exact H|].
      intros [<-|H]; [|exact H]. apply IH. apply existsb_type_in. exact E.
    + cbn [In]. rewrite IH. reflexivity.
Qed.

Lemma dedup_types_NoDup : forall l, NoDup (dedup_types l).
Proof.
  unfold dedup_types. induction l as [|x l IH]; cbn [fold_right].
  - constructor.
  - destruct (existsb (type_eqb x) _) eqn:E; [exact IH|].
    constructor; [|exact IH]. intros Hin. apply existsb_type_in in Hin. congruence.
Qed.

Theorem arrangements_spec : forall l t, In t (arrangements_ms l) <-> Permutation t l.
Proof.
  induction l as [|x l IH]; intros t; cbn [arrangements_ms].
  - split.
    + intros [<-|[]]. constructor.
    + intros H. apply Permutation_sym, Permutation_nil in H. left. symmetry. exact H.
  - rewrite dedup_types_in, in_concat. split.
    + intros (lp & Hlp & Hp). apply in_map_iff in Hlp. destruct Hlp as (q & <- & Hq).
      apply IH in Hq. rewrite insert_everywhere_eq in Hp. apply insert_all_perm in Hp.
      eapply Permutation_trans; [exact Hp|]. apply perm_skip. exact Hq.
    + intros H.
      assert (Hin : In x t) by (eapply Permutation_in; [apply Permutation_sym; exact H|left; reflexivity]).
      apply in_split in Hin. destruct Hin as (l1 & l2 & ->).
      apply Permutation_sym, Permutation_cons_app_inv, Permutation_sym in H.
      exists (insert_everywhere x (l1 ++ l2)). split.
      * apply in_map. apply IH. exact H.
      * rewrite insert_everywhere_eq. apply insert_all_spec. exists l1, l2. split; reflexivity.
Qed.

Theorem arrangements_NoDup : forall l, NoDup (arrangements_ms l).
Proof.
  intros [|x l]; cbn [arrangements_ms].
  - constructor; [intros []|constructor].
  - apply dedup_types_NoDup.
Qed.

Theorem arrangements_enumerates : forall l, enumerates (arrangements_ms l) l.
Proof. intros l. split; [apply arrangements_NoDup|apply arrangements_spec]. Qed.

Lemma enumerates_perm : forall (A : Type) (L L' : list (list A)) l,
  enumerates L l -> enumerates L' l -> Permutation L L'.
Proof.
  intros A L L' l [H1 H2] [H1' H2']. apply NoDup_Permutation; [exact H1|exact H1'|].
  intros t. rewrite H2, H2'. reflexivity.
Qed.

(* ---------- counting ---------- *)

Lemma count_bloc_cons : forall b x l,
  count_bloc b (x :: l) = ((if Pos.eqb b x then 1 else 0) + count_bloc b l)%nat.
Proof.
  intros b x l. unfold count_bloc. cbn [filter]. destruct (Pos.eqb b x); reflexivity.
Qed.

Lemma count_bloc_app : forall b l1 l2, count_bloc b (l1 ++ l2) = (count_bloc b l1 + count_bloc b l2)%nat.
Proof. intros b l1 l2. unfold count_bloc. rewrite filter_app, app_length. reflexivity. Qed.

Lemma count_bloc_perm : forall b l l', Permutation l l' -> count_bloc b l = count_bloc b l'.
Proof.
  intros b l l' H. induction H as [|x l l' _ IH|x y l|l l' l'' _ IH1 _ IH2].
  - reflexivity.
  - rewrite !count_bloc_cons, IH. reflexivity.
  - rewrite !count_bloc_cons. lia.
  - rewrite IH1. exact IH2.
Qed.

Lemma count_bloc_repeat_same : forall b n, count_bloc b (repeat b n) = n.
Proof.
  intros b n. induction n as [|n IH]; cbn [repeat]; [reflexivity|].
  rewrite count_bloc_cons, Pos.eqb_refl, IH. reflexivity.
Qed.

Lemma count_bloc_repeat_other : forall b z n, b <> z -> count_bloc b (repeat z n) = O.
Proof.
  intros b z n Hne. induction n as [|n IH]; cbn [repeat]; [reflexivity|].
  rewrite count_bloc_cons, IH. apply Pos.eqb_neq in Hne. rewrite Hne. reflexivity.
Qed.

Lemma successes_cons : forall own opp x t,
  successes own opp (x :: t) =
  ((if Pos.eqb own x then count_bloc opp t else O) + successes own opp t)%nat.
Proof. intros own opp x t. cbn [successes]. rewrite (Pos.eqb_sym x own). reflexivity. Qed.

(* own-above-opp pairs plus opp-above-own pairs: every (own, opp) pair is one or the other *)
Lemma successes_sum : forall own opp t, own <> opp ->
  (successes own opp t + successes opp own t = count_bloc own t * count_bloc opp t)%nat.
Proof.
  intros own opp t Hne. induction t as [|x t IH]; [reflexivity|].
  rewrite !successes_cons, !count_bloc_cons.
  destruct (Pos.eqb_spec own x) as [E1|E1]; destruct (Pos.eqb_spec opp x) as [E2|E2].
  - exfalso. apply Hne. congruence.
  - nia.
  - nia.
  - nia.
Qed.

Lemma filter_andb_const : forall (A : Type) (bb : bool) (g : A -> bool) (l : list A),
  length (filter (fun y => bb && g y) l) = if bb then length (filter g l) else O.
Proof.
  intros A bb g l. destruct bb; cbn [andb].
  - reflexivity.
  - induction l as [|a l IH]; [reflexivity|exact IH].
Qed.

(* the model's count is the number of ordered pairs (own above opp) *)
Theorem successes_above_pairs : forall own opp t, successes own opp t = above_pairs own opp t.
Proof.
  intros own opp t. unfold above_pairs. induction t as [|x t IH]; [reflexivity|].
  rewrite successes_cons, ordered_pairs_cons, filter_app, app_length, IH.
  apply (f_equal2 Nat.add); [|reflexivity].
  rewrite Lib_rk.filter_map_comm, map_length. cbn [fst snd].
  rewrite filter_andb_const. reflexivity.
Qed.

Lemma successes_repeat_other : forall own opp z n, own <> z -> successes own opp (repeat z n) = O.
Proof.
  intros own opp z n Hne. induction n as [|n IH]; cbn [repeat]; [reflexivity|].
  rewrite successes_cons, IH. apply Pos.eqb_neq in Hne. rewrite Hne. reflexivity.
Qed.

Lemma successes_own_first : forall own opp a b, own <> opp ->
  successes own opp (repeat own a ++ repeat opp b) = (a * b)%nat.
Proof.
  intros own opp a b Hne. induction a as [|a IH]; cbn [repeat app].
  - apply successes_repeat_other. exact Hne.
  - rewrite successes_cons, Pos.eqb_refl, IH, count_bloc_app, count_bloc_repeat_same.
    rewrite (count_bloc_repeat_other opp own); [lia|]. intros E. apply Hne. symmetry. exact E.
Qed.

Lemma successes_opp_first : forall own opp a b, own <> opp ->
  successes own opp (repeat opp b ++ repeat own a) = O.
Proof.
  intros own opp a b Hne. induction b as [|b IH]; cbn [repeat app].
  - induction a as [|a IHa]; cbn [repeat]; [reflexivity|].
    rewrite successes_cons, Pos.eqb_refl, IHa.
    rewrite (count_bloc_repeat_other opp own); [reflexivity|]. intros E. apply Hne. symmetry. exact E.
  - rewrite successes_cons, IH. apply Pos.eqb_neq in Hne. rewrite Hne. reflexivity.
Qed.

(* ---------- the table ---------- *)

Definition to_sample (sizes : list (bloc * nat)) : list bloc :=
  concat (map (fun bn : bloc * nat => repeat (fst bn) (snd bn)) sizes).
Definition total_cmp (sizes : list (bloc * nat)) : nat := fold_right Nat.mul 1%nat (map snd sizes).
Definition rw (sizes : list (bloc * nat)) (own opp : bloc) (c : Q) (t : list bloc) : Q :=
  Qpow' c (successes own opp t) * Qpow' (1 - c) (total_cmp sizes - successes own opp t).
Definition rawtab sizes own opp c : list (list bloc * Q) :=
  map (fun t => (t, Qred (rw sizes own opp c t))) (arrangements_ms (to_sample sizes)).

Lemma slate_bt_pdf_unfold : forall sizes own opp c,
  slate_bt_pdf sizes own opp c =
  map (fun tw => (fst tw, Qred (snd tw / Qred (qsum (map snd (rawtab sizes own opp c))))))
      (rawtab sizes own opp c).
Proof. reflexivity. Qed.

Lemma rawtab_sum : forall sizes own opp c,
  qsum (map snd (rawtab sizes own opp c)) ==
  qsum (map (rw sizes own opp c) (arrangements_ms (to_sample sizes))).
Proof.
  intros sizes own opp c. unfold rawtab. rewrite map_map. cbn [snd].
  apply qsum_map_ext_in. intros a _. apply Qred_correct.
Qed.

Theorem slate_keys : forall sizes own opp c,
  map fst (slate_bt_pdf sizes own opp c) = arrangements_ms (to_sample sizes).
Proof.
  intros sizes own opp c. rewrite slate_bt_pdf_unfold. unfold rawtab. rewrite !map_map. cbn [fst].
  apply map_id.
Qed.

(* every entry, for any list of bloc sizes *)
Theorem slate_entry_general : forall sizes own opp c t v,
  In (t, v) (slate_bt_pdf sizes own opp c) ->
  Permutation t (to_sample sizes) /\
  v == rw sizes own opp c t / qsum (map (rw sizes own opp c) (arrangements_ms (to_sample sizes))).
Proof.
  intros sizes own opp c t v H. rewrite slate_bt_pdf_unfold in H.
  apply in_map_iff in H. destruct H as ([t' w] & E & Hin).
  pose proof (f_equal fst E) as E1. pose proof (f_equal snd E) as E2. cbn [fst snd] in E1, E2.
  subst t' v. clear E.
  unfold rawtab in Hin at 1. apply in_map_iff in Hin. destruct Hin as (t' & E & Ht').
  pose proof (f_equal fst E) as E1. pose proof (f_equal snd E) as E2. cbn [fst snd] in E1, E2.
  subst t' w. clear E. split; [apply arrangements_spec; exact Ht'|].
  rewrite !Qred_correct, rawtab_sum. reflexivity.
Qed.

Theorem slate_sum_general : forall sizes own opp c,
  ~ qsum (map (rw sizes own opp c) (arrangements_ms (to_sample sizes))) == 0 ->
  qsum (map snd (slate_bt_pdf sizes own opp c)) == 1.
Proof.
  intros sizes own opp c Hz. rewrite slate_bt_pdf_unfold. apply normalise_sums_to_one.
  rewrite rawtab_sum. exact Hz.
Qed.

(* ---------- two blocs ---------- *)

Section TwoBlocs.
Variables own opp : bloc.
Variables a b : nat.
Variable sizes : list (bloc * nat).
Hypothesis Hne : own <> opp.
Hypothesis Hsizes : sizes = [(own, a); (opp, b)] \/ sizes = [(opp, b); (own, a)].

Let base := repeat own a ++ repeat opp b.

Lemma to_sample_perm : Permutation (to_sample sizes) base.
Proof.
  unfold base, to_sample. destruct Hsizes as [-> | ->]; cbn [map concat fst snd]; rewrite app_nil_r.
  - apply Permutation_refl.
  - apply Permutation_app_comm.
Qed.

Lemma total_cmp_ab : total_cmp sizes = (a * b)%nat.
Proof.
  unfold total_cmp. destruct Hsizes as [-> | ->]; cbn [map fold_right snd]; lia.
Qed.

Lemma perm_counts : forall t, Permutation t base -> count_bloc own t = a /\ count_bloc opp t = b.
Proof.
  intros t H. rewrite (count_bloc_perm own t base H), (count_bloc_perm opp t base H).
  unfold base. rewrite !count_bloc_app, !count_bloc_repeat_same.
  rewrite (count_bloc_repeat_other own opp), (count_bloc_repeat_other opp own); [lia| |exact Hne].
  intros E. apply Hne. symmetry. exact E.
Qed.

Lemma pairs_total : forall t, Permutation t base ->
  (above_pairs own opp t + above_pairs opp own t = a * b)%nat.
Proof.
  intros t H. rewrite <- !successes_above_pairs, (successes_sum own opp t Hne).
  destruct (perm_counts t H) as [-> ->]. reflexivity.
Qed.

Lemma rw_slate_weight : forall c t, Permutation t base ->
  rw sizes own opp c t = slate_weight c own opp t.
Proof.
  intros c t H. unfold rw, slate_weight. rewrite total_cmp_ab.
  pose proof (pairs_total t H) as Hp. rewrite <- !successes_above_pairs in *.
  replace (a * b - successes own opp t)%nat with (successes opp own t) by lia. reflexivity.
Qed.

Lemma arr_base : forall t, In t (arrangements_ms (to_sample sizes)) <-> Permutation t base.
Proof.
  intros t. rewrite arrangements_spec. split; intros H.
  - eapply Permutation_trans; [exact H|apply to_sample_perm].
  - eapply Permutation_trans; [exact H|apply Permutation_sym, to_sample_perm].
Qed.

Lemma Z_as_slate_weight : forall c all, enumerates all base ->
  qsum (map (rw sizes own opp c) (arrangements_ms (to_sample sizes))) ==
  qsum (map (slate_weight c own opp) all).
Proof.
  intros c all Hall.
  rewrite (qsum_map_ext_in _ (slate_weight c own opp)).
  - apply qsum_perm. apply Permutation_map. apply (enumerates_perm _ _ _ base); [|exact Hall].
    split; [apply arrangements_NoDup|exact arr_base].
  - intros t Ht. rewrite (rw_slate_weight c t); [reflexivity|]. apply arr_base. exact Ht.
Qed.

(* S2 *)
Theorem slate_bt_two : forall c all, enumerates all base ->
  (forall t, Permutation t base -> exists v, In (t, v) (slate_bt_pdf sizes own opp c)) /\
  (forall t v, In (t, v) (slate_bt_pdf sizes own opp c) ->
     Permutation t base /\
     (above_pairs own opp t + above_pairs opp own t = a * b)%nat /\
     v == slate_weight c own opp t / qsum (map (slate_weight c own opp) all)).
Proof.
  intros c all Hall. split.
  - intros t Ht. apply arr_base in Ht. rewrite <- (slate_keys sizes own opp c) in Ht.
    apply in_map_iff in Ht. destruct Ht as ([t' v] & E & Hin). cbn [fst] in E. subst t'.
    exists v. exact Hin.
  - intros t v Hin. destruct (slate_entry_general sizes own opp c t v Hin) as [Ht Hv].
    assert (Hb : Permutation t base) by (eapply Permutation_trans; [exact Ht|apply to_sample_perm]).
    split; [exact Hb|]. split; [apply pairs_total; exact Hb|].
    rewrite Hv, (rw_slate_weight c t Hb), (Z_as_slate_weight c all Hall). reflexivity.
Qed.

(* the normalising constant is positive for every cohesion in [0,1] *)
Lemma rw_nonneg : forall c t, 0 <= c -> c <= 1 -> 0 <= rw sizes own opp c t.
Proof.
  intros c t H0 H1. unfold rw. apply Qmult_le_0_compat; apply Qpow'_nonneg; lra.
Qed.

Lemma Z_pos : forall c, 0 <= c -> c <= 1 ->
  0 < qsum (map (rw sizes own opp c) (arrangements_ms (to_sample sizes))).
Proof.
  intros c H0 H1.
  assert (Hge : forall t, Permutation t base -> 0 < rw sizes own opp c t ->
                0 < qsum (map (rw sizes own opp c) (arrangements_ms (to_sample sizes)))).
  { intros t Ht Hw. eapply Qlt_le_trans; [exact Hw|]. apply qsum_ge_member.
    - intros r Hr. apply in_map_iff in Hr. destruct Hr as (t' & <- & _). apply rw_nonneg; assumption.
    - apply in_map. apply arr_base. exact Ht. }
  destruct (Qlt_le_dec 0 c) as [Hc|Hc].
  - apply (Hge base (Permutation_refl _)). unfold rw, base.
    rewrite (successes_own_first own opp a b Hne), total_cmp_ab, Nat.sub_diag. cbn [Qpow'].
    assert (0 < Qpow' c (a * b)) by (apply Qpow'_pos; exact Hc). lra.
  - apply (Hge (repeat opp b ++ repeat own a)); [apply Permutation_app_comm|]. unfold rw.
    rewrite (successes_opp_first own opp a b Hne), total_cmp_ab, Nat.sub_0_r. cbn [Qpow'].
    assert (0 < Qpow' (1 - c) (a * b)) by (apply Qpow'_pos; lra). lra.
Qed.

Theorem slate_bt_two_sums_to_one : forall c, 0 <= c -> c <= 1 ->
  qsum (map snd (slate_bt_pdf sizes own opp c)) == 1 /\
  (forall all, enumerates all base -> 0 < qsum (map (slate_weight c own opp) all)) /\
  NoDup (map fst (slate_bt_pdf sizes own opp c)) /\
  (forall t v, In (t, v) (slate_bt_pdf sizes own opp c) -> 0 <= v).
Proof.
  intros c H0 H1. pose proof (Z_pos c H0 H1) as HZ. split; [|split; [|split]].
  - apply slate_sum_general. intros E. rewrite E in HZ. apply (Qlt_irrefl 0). exact HZ.
  - intros all Hall. rewrite <- (Z_as_slate_weight c all Hall). exact HZ.
  - rewrite slate_keys. apply arrangements_NoDup.
  - intros t v Hin. destruct (slate_entry_general sizes own opp c t v Hin) as [_ Hv]. rewrite Hv.
    unfold Qdiv. apply Qmult_le_0_compat; [apply rw_nonneg; assumption|].
    apply Qlt_le_weak. apply Qinv_lt_0_compat. exact HZ.
Qed.

(* the extreme arrangements: all own first has weight c^(ab), all opp first has weight (1-c)^(ab) *)
Lemma slate_weight_extremes : forall c,
  slate_weight c own opp (repeat own a ++ repeat opp b) == Qpow' c (a * b) /\
  slate_weight c own opp (repeat opp b ++ repeat own a) == Qpow' (1 - c) (a * b).
Proof.
  intros c. split.
  - rewrite <- (rw_slate_weight c); [|apply Permutation_refl]. unfold rw.
    rewrite (successes_own_first own opp a b Hne), total_cmp_ab, Nat.sub_diag. cbn [Qpow']. ring.
  - rewrite <- (rw_slate_weight c); [|apply Permutation_app_comm]. unfold rw.
    rewrite (successes_opp_first own opp a b Hne), total_cmp_ab, Nat.sub_0_r. cbn [Qpow']. ring.
Qed.

End TwoBlocs.
