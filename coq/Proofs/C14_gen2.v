(* Proofs/C14_gen2.v — property C14 for the generators of Model/Generators2.v and the table
   samplers of Model/Generators.v: BallotSimplex from a point and from a Dirichlet-drawn table
   (ImpartialCulture / ImpartialAnonymousCulture), CambridgeSampler, and the exact
   slate-Bradley-Terry path.  Statements are collected in Properties/C14_gen2.v. *)
From VK Require Import Base Core GenValidation PrefInterval Generators Generators2.
From VK.Spec Require Import Content GenSpec Gen2Spec BTSpec ApportionSpec.
From VK.Proofs Require Import Lib_rk Lib_sets Dist C11_profile C12_expand C15_interval C15_bt C15_slate
  C14_wf C14_kernels C14_types C14_sizes.
From Coq Require Import Permutation Lia Lqa Setoid Morphisms.

Local Notation twt := (total_wt pcand).

(* ------------------------------------------------------------------ *)
(** * 1. Tables over all complete rankings *)

Lemma rankings_nodup_iff : forall l, rankings_nodup l = true <-> NoDup l.
Proof.
  induction l as [|r l IH]; cbn [rankings_nodup].
  - split; [constructor|reflexivity].
  - rewrite andb_true_iff, negb_true_iff, IH. split.
    + intros [H1 H2]. constructor; [|exact H2]. intros Hin.
      assert (He : existsb (list_peqb r) l = true).
      { apply existsb_exists. exists r. split; [exact Hin|apply list_peqb_refl]. }
      congruence.
    + intros H. inversion H as [|x l' Hn Hnd]; subst. split; [|exact Hnd].
      apply not_true_is_false. intros He. apply existsb_exists in He. destruct He as (r' & Hin & E).
      apply list_peqb_true_iff in E. subst r'. contradiction.
Qed.

(* a complete ranking = a duplicate-free list with exactly the declared candidates *)
Lemma perm_complete : forall r cands : list pcand, NoDup cands ->
  (Permutation r cands <-> NoDup r /\ incl r cands /\ length r = length cands).
Proof.
  intros r cands Hnd. split.
  - intros H. split; [|split].
    + apply (Permutation_NoDup (Permutation_sym H) Hnd).
    + intros c Hc. apply (Permutation_in _ H Hc).
    + apply Permutation_length. exact H.
  - intros (H1 & H2 & H3). apply NoDup_incl_length_perm; assumption.
Qed.

(* [full_table]: every permutation of the candidates exactly once *)
Theorem full_table_spec : forall cands tbl, NoDup cands -> full_table cands tbl = true ->
  length tbl = fact (length cands) /\ NoDup (map fst tbl) /\
  (forall r, In r (map fst tbl) <-> Permutation r cands) /\
  Permutation (map fst tbl) (perms pcand cands).
Proof.
  intros cands tbl Hnd H. unfold full_table in H.
  apply andb_true_iff in H. destruct H as [H H3]. apply andb_true_iff in H. destruct H as [H1 H2].
  apply Nat.eqb_eq in H1. apply rankings_nodup_iff in H3. rewrite forallb_forall in H2.
  assert (Hrows : forall r, In r (map fst tbl) -> Permutation r cands).
  { intros r Hr. apply in_map_iff in Hr. destruct Hr as (e & <- & He). specialize (H2 e He).
    apply valid_sample_iff in H2. destruct H2 as (L & N & I). apply perm_complete; [exact Hnd|].
    split; [exact N|]. split; [exact I|exact L]. }
  assert (Hincl : incl (map fst tbl) (perms pcand cands)).
  { intros r Hr. apply (perms_spec pcand). apply Hrows. exact Hr. }
  assert (HP : Permutation (map fst tbl) (perms pcand cands)).
  { apply NoDup_Permutation_bis; [exact H3| |exact Hincl].
    rewrite map_length, H1, (perms_length pcand). lia. }
  split; [exact H1|]. split; [exact H3|]. split; [|exact HP].
  intros r. split; [apply Hrows|]. intros Hr. apply (Permutation_in _ (Permutation_sym HP)).
  apply (perms_spec pcand). exact Hr.
Qed.

(* point_table: the rows are literally [perms cands] *)
Lemma point_table_keys : forall cands point, map fst (point_table cands point) = perms pcand cands.
Proof.
  intros cands point. unfold point_table. rewrite !map_map. cbn [fst]. apply map_id.
Qed.

Theorem point_table_rows : forall cands point,
  map fst (point_table cands point) = perms pcand cands /\
  length (point_table cands point) = fact (length cands) /\
  (forall r, In r (map fst (point_table cands point)) <-> Permutation r cands) /\
  (NoDup cands -> NoDup (map fst (point_table cands point)) /\
                  forall r, In r (map fst (point_table cands point)) -> NoDup r).
Proof.
  intros cands point. pose proof (point_table_keys cands point) as K.
  split; [exact K|]. split.
  { rewrite <- (map_length fst), K. apply (perms_length pcand). }
  split.
  { intros r. rewrite K. apply (perms_spec pcand). }
  intros Hnd. rewrite K. split; [apply (perms_NoDup pcand); exact Hnd|].
  intros r Hr. apply (perms_spec pcand) in Hr. apply (Permutation_NoDup (Permutation_sym Hr) Hnd).
Qed.

(* the product of the point values along a complete ranking does not depend on the ranking *)
Lemma fold_mul_acc : forall (point : list (pcand * Q)) r acc,
  fold_left (fun a c => a * lookupP point c) r acc == acc * fold_left (fun a c => a * lookupP point c) r 1.
Proof.
  intros point. induction r as [|c r IH]; intros acc; cbn [fold_left].
  - ring.
  - rewrite (IH (acc * lookupP point c)), (IH (1 * lookupP point c)). ring.
Qed.

Lemma fold_mul_perm : forall (point : list (pcand * Q)) r r', Permutation r r' ->
  fold_left (fun a c => a * lookupP point c) r 1 == fold_left (fun a c => a * lookupP point c) r' 1.
Proof.
  intros point r r' H. induction H as [|x l l' _ IH|x y l|l l' l'' _ IH1 _ IH2].
  - reflexivity.
  - cbn [fold_left]. rewrite (fold_mul_acc point l), (fold_mul_acc point l'), IH. reflexivity.
  - cbn [fold_left]. rewrite (fold_mul_acc point l (1 * lookupP point y * lookupP point x)),
      (fold_mul_acc point l (1 * lookupP point x * lookupP point y)). ring.
  - rewrite IH1. exact IH2.
Qed.

(* hence the table "from a point" is the uniform table, whatever the point (as coded) *)
Theorem point_table_uniform : forall cands point r v,
  ~ fold_left (fun a c => a * lookupP point c) cands 1 == 0 ->
  In (r, v) (point_table cands point) ->
  Permutation r cands /\ v == 1 / Qnat (fact (length cands)).
Proof.
  intros cands point r v Hnz Hin.
  set (P := fold_left (fun a c => a * lookupP point c) cands 1) in *.
  unfold point_table in Hin. apply in_map_iff in Hin. destruct Hin as ([r' w] & E & Hin).
  pose proof (f_equal fst E) as E1. pose proof (f_equal snd E) as E2. cbn [fst snd] in E1, E2.
  clear E. subst r' v.
  apply in_map_iff in Hin. destruct Hin as (r'' & E & Hr).
  pose proof (f_equal fst E) as E1. pose proof (f_equal snd E) as E2. cbn [fst snd] in E1, E2.
  clear E. subst r'' w.
  apply (perms_spec pcand) in Hr. split; [exact Hr|]. etransitivity; [apply Qred_correct|].
  assert (Hs : qsum (map snd (map (fun r0 : list pcand =>
                 (r0, fold_left (fun a c => a * lookupP point c) r0 1)) (perms pcand cands)))
               == Qnat (fact (length cands)) * P).
  { rewrite map_map. cbn [snd].
    rewrite (qsum_map_ext_in _ (fun _ => P)).
    - rewrite qsum_map_const, (perms_length pcand). reflexivity.
    - intros r0 Hr0. apply (perms_spec pcand) in Hr0. apply fold_mul_perm. exact Hr0. }
  rewrite Hs, (fold_mul_perm point r cands Hr). fold P.
  assert (Hf : ~ Qnat (fact (length cands)) == 0).
  { apply Qnat_neq0. apply fact_pos. }
  field. split; assumption.
Qed.

(* ---------- a table sampler over complete rankings followed by ballot_pool_to_profile ---------- *)
Theorem table_profile_wf : forall tbl cands n draws bs calls p,
  (forall r v, In (r, v) tbl -> Permutation r cands) ->
  table_bloc tbl [] n draws = inl (bs, calls) ->
  pool_to_profile draws cands = inl p ->
  calls = [GTable tbl n] /\ length draws = n /\ NoDup cands /\
  (forall r, In r draws -> exists v, In (r, v) tbl /\ 0 < v) /\
  (cands <> [] -> Core.cands p = cands) /\
  total_wt pcand (ballots p) == Qnat n /\
  whole_pos_weights (ballots p) /\
  NoDup (map rk (ballots p)) /\
  (forall b, In b (ballots p) ->
     sc b = [] /\
     exists r, In r draws /\ rk b = singletons pcand r /\ flat pcand (rk b) = r /\
               Permutation r cands /\ NoDup r /\
               wt b = Qnat (pool_count draws r) /\ (0 < pool_count draws r)%nat) /\
  (forall r, In r draws -> exists b, In b (ballots p) /\ rk b = singletons pcand r).
Proof.
  intros tbl cands n draws bs calls p Hrows Ht Hp.
  apply table_bloc_ok in Ht. destruct Ht as (Hl & _ & Hc & _ & Hd).
  apply pool_to_profile_ok in Hp. destruct Hp as (Hnd & Hcs & Hb & Hcov & Hrk & Htot & Hw).
  split; [exact Hc|]. split; [exact Hl|]. split; [exact Hnd|]. split; [exact Hd|].
  split; [exact Hcs|]. split; [rewrite Htot, Hl; reflexivity|]. split; [exact Hw|].
  split; [exact Hrk|]. split; [|exact Hcov].
  intros b Hin. destruct (Hb b Hin) as (r & Hr & E1 & E2 & E3 & E4).
  split; [exact E2|]. exists r. split; [exact Hr|]. split; [exact E1|].
  split; [rewrite E1; apply (Lib_sets.flat_singletons pcand)|].
  destruct (Hd r Hr) as (v & Hv & _). pose proof (Hrows r v Hv) as HP.
  split; [exact HP|]. split; [apply (Permutation_NoDup (Permutation_sym HP) Hnd)|].
  split; assumption.
Qed.

(* BallotSimplex.from_point *)
Theorem from_point_wf : forall cands point n draws bs calls p,
  table_bloc (point_table cands point) [] n draws = inl (bs, calls) ->
  pool_to_profile draws cands = inl p ->
  calls = [GTable (point_table cands point) n] /\ length draws = n /\ NoDup cands /\
  (forall r, In r draws -> exists v, In (r, v) (point_table cands point) /\ 0 < v) /\
  (cands <> [] -> Core.cands p = cands) /\
  total_wt pcand (ballots p) == Qnat n /\
  whole_pos_weights (ballots p) /\
  NoDup (map rk (ballots p)) /\
  (forall b, In b (ballots p) ->
     sc b = [] /\
     exists r, In r draws /\ rk b = singletons pcand r /\ flat pcand (rk b) = r /\
               Permutation r cands /\ NoDup r /\
               wt b = Qnat (pool_count draws r) /\ (0 < pool_count draws r)%nat) /\
  (forall r, In r draws -> exists b, In b (ballots p) /\ rk b = singletons pcand r).
Proof.
  intros cands point n draws bs calls p Ht Hp.
  apply (table_profile_wf _ cands n draws bs calls p); [|exact Ht|exact Hp].
  intros r v Hin. apply (proj1 (proj2 (proj2 (point_table_rows cands point)))).
  apply in_map_iff. exists (r, v). split; [reflexivity|exact Hin].
Qed.

(* BallotSimplex(alpha): ImpartialCulture / ImpartialAnonymousCulture *)
Lemma alpha_profile_inv : forall cands tbl n draws p calls,
  alpha_profile cands tbl n draws = inl (p, calls) ->
  NoDup cands /\ full_table cands tbl = true /\
  exists bs, table_bloc tbl [] n draws = inl (bs, calls) /\ pool_to_profile draws cands = inl p.
Proof.
  intros cands tbl n draws p calls H. unfold alpha_profile in H.
  destruct (pnodup cands) eqn:E1; cbn [negb] in H; [|discriminate].
  destruct (full_table cands tbl) eqn:E2; cbn [negb] in H; [|discriminate].
  destruct (table_bloc tbl [] n draws) as [[bs cs]|e] eqn:E3; cbn [rbind] in H; [|discriminate].
  destruct (pool_to_profile draws cands) as [q|e] eqn:E4; cbn [rbind] in H; [|discriminate].
  unfold ok in H. cbn [snd] in H. injection H as <- <-.
  split; [apply pnodup_NoDup; exact E1|]. split; [reflexivity|].
  exists bs. split; reflexivity.
Qed.

Theorem alpha_profile_wf : forall cands tbl n draws p calls,
  alpha_profile cands tbl n draws = inl (p, calls) ->
  calls = [GTable tbl n] /\ length draws = n /\ NoDup cands /\
  (length tbl = fact (length cands) /\ NoDup (map fst tbl) /\
   forall r, In r (map fst tbl) <-> Permutation r cands) /\
  (forall r, In r draws -> exists v, In (r, v) tbl /\ 0 < v) /\
  (cands <> [] -> Core.cands p = cands) /\
  total_wt pcand (ballots p) == Qnat n /\
  whole_pos_weights (ballots p) /\
  NoDup (map rk (ballots p)) /\
  (forall b, In b (ballots p) ->
     sc b = [] /\
     exists r, In r draws /\ rk b = singletons pcand r /\ flat pcand (rk b) = r /\
               Permutation r cands /\ NoDup r /\
               wt b = Qnat (pool_count draws r) /\ (0 < pool_count draws r)%nat) /\
  (forall r, In r draws -> exists b, In b (ballots p) /\ rk b = singletons pcand r).
Proof.
  intros cands tbl n draws p calls H. apply alpha_profile_inv in H.
  destruct H as (Hnd & Hf & bs & Ht & Hp).
  destruct (full_table_spec cands tbl Hnd Hf) as (F1 & F2 & F3 & _).
  assert (Hrows : forall r v, In (r, v) tbl -> Permutation r cands).
  { intros r v Hin. apply F3. apply in_map_iff. exists (r, v). split; [reflexivity|exact Hin]. }
  destruct (table_profile_wf tbl cands n draws bs calls p Hrows Ht Hp)
    as (C1 & C2 & C3 & C4 & C5 & C6 & C7 & C8 & C9 & C10).
  split; [exact C1|]. split; [exact C2|]. split; [exact C3|].
  split; [split; [exact F1|split; [exact F2|exact F3]]|].
  split; [exact C4|]. split; [exact C5|]. split; [exact C6|]. split; [exact C7|].
  split; [exact C8|]. split; [exact C9|exact C10].
Qed.

(* the only failure is a recorded result the primitive could not have returned *)
Theorem alpha_profile_errors : forall cands tbl n draws e,
  alpha_profile cands tbl n draws = inr e -> e = EScript.
Proof.
  intros cands tbl n draws e H. unfold alpha_profile in H.
  destruct (pnodup cands) eqn:E1; cbn [negb] in H; [|injection H as <-; reflexivity].
  destruct (full_table cands tbl) eqn:E2; cbn [negb] in H; [|injection H as <-; reflexivity].
  unfold table_bloc in H.
  destruct (Nat.eqb (length draws) n); cbn [negb] in H; [|injection H as <-; reflexivity].
  match type of H with context [if negb ?c then _ else _] => destruct c end; cbn [negb] in H;
    [|injection H as <-; reflexivity].
  unfold ok in H. cbn [rbind] in H.
  destruct (pool_to_profile_errors draws cands) as (_ & _ & H3).
  destruct (H3 (proj1 (pnodup_NoDup cands) E1)) as [q Hq]. rewrite Hq in H. cbn [rbind] in H.
  discriminate.
Qed.

(* and it succeeds on every possible result *)
Theorem alpha_profile_succeeds : forall cands tbl n draws,
  NoDup cands -> full_table cands tbl = true -> length draws = n ->
  (forall r, In r draws -> exists v, In (r, v) tbl /\ 0 < v) ->
  exists p, alpha_profile cands tbl n draws = inl (p, [GTable tbl n]).
Proof.
  intros cands tbl n draws Hnd Hf Hl Hd. unfold alpha_profile.
  rewrite (proj2 (pnodup_NoDup cands) Hnd), Hf. cbn [negb]. unfold table_bloc.
  rewrite (proj2 (Nat.eqb_eq _ _) Hl). cbn [negb].
  assert (E : forallb (fun r => existsb (fun e : list pcand * Q => list_peqb (fst e) r && Qlt_bool 0 (snd e)) tbl)
                draws = true).
  { apply forallb_forall. intros r Hr. destruct (Hd r Hr) as (v & Hv & Hpos).
    apply existsb_exists. exists (r, v). split; [exact Hv|]. cbn [fst snd].
    rewrite list_peqb_refl. apply Lib_rk.Qlt_bool_iff. exact Hpos. }
  rewrite E. cbn [negb]. unfold ok. cbn [rbind].
  destruct (pool_to_profile_errors draws cands) as (_ & _ & H3).
  destruct (H3 Hnd) as [q Hq]. rewrite Hq. cbn [rbind snd]. exists q. reflexivity.
Qed.

(* ------------------------------------------------------------------ *)
(** * 2. CambridgeSampler: filling a historical type *)

Lemma count_bloc_cons_eqb : forall own b t,
  count_bloc own (b :: t) = ((if Pos.eqb b own then 1 else 0) + count_bloc own t)%nat.
Proof.
  intros own b t. unfold count_bloc. cbn [filter]. rewrite (Pos.eqb_sym own b).
  destruct (Pos.eqb b own); reflexivity.
Qed.

Lemma count_other_cons : forall own b t,
  count_other own (b :: t) = ((if Pos.eqb b own then 0 else 1) + count_other own t)%nat.
Proof. intros own b t. unfold count_other. cbn [filter]. destruct (Pos.eqb b own); reflexivity. Qed.

Lemma count_bloc_other_length : forall own t, (count_bloc own t + count_other own t = length t)%nat.
Proof.
  intros own t. induction t as [|b t IH]; [reflexivity|].
  rewrite count_bloc_cons_eqb, count_other_cons. cbn [length]. destruct (Pos.eqb b own); lia.
Qed.

Lemma firstn_nil_any : forall (A : Type) n, firstn n (@nil A) = [].
Proof. intros A n. destruct n; reflexivity. Qed.

Theorem cam_fill_length : forall own t ob oo,
  length (cam_fill own t ob oo) =
  (Nat.min (count_bloc own t) (length ob) + Nat.min (count_other own t) (length oo))%nat.
Proof.
  intros own. induction t as [|b t IH]; intros ob oo; [reflexivity|].
  cbn [cam_fill]. rewrite count_bloc_cons_eqb, count_other_cons.
  destruct (Pos.eqb b own).
  - destruct ob as [|c ob]; [rewrite IH; cbn [length]; lia|].
    cbn [length]. rewrite IH. lia.
  - destruct oo as [|c oo]; [rewrite IH; cbn [length]; lia|].
    cbn [length]. rewrite IH. lia.
Qed.

Theorem cam_kept_counts : forall own t na no,
  count_bloc own (cam_kept own t na no) = Nat.min (count_bloc own t) na /\
  count_other own (cam_kept own t na no) = Nat.min (count_other own t) no.
Proof.
  intros own. induction t as [|b t IH]; intros na no; [split; reflexivity|].
  cbn [cam_kept]. rewrite (count_bloc_cons_eqb own b t), (count_other_cons own b t).
  destruct (Pos.eqb b own) eqn:E.
  - destruct na as [|na].
    + destruct (IH O no) as [I1 I2]. rewrite I1, I2. split; lia.
    + rewrite count_bloc_cons_eqb, count_other_cons, E. destruct (IH na no) as [I1 I2].
      rewrite I1, I2. split; lia.
  - destruct no as [|no].
    + destruct (IH na O) as [I1 I2]. rewrite I1, I2. split; lia.
    + rewrite count_bloc_cons_eqb, count_other_cons, E. destruct (IH na no) as [I1 I2].
      rewrite I1, I2. split; lia.
Qed.

Theorem cam_kept_length : forall own t na no,
  length (cam_kept own t na no) =
  (Nat.min (count_bloc own t) na + Nat.min (count_other own t) no)%nat.
Proof.
  intros own t na no. rewrite <- (count_bloc_other_length own (cam_kept own t na no)).
  destruct (cam_kept_counts own t na no) as [-> ->]. reflexivity.
Qed.

(* nothing is skipped when both slates have enough candidates *)
Theorem cam_kept_all : forall own t na no,
  (count_bloc own t <= na)%nat -> (count_other own t <= no)%nat -> cam_kept own t na no = t.
Proof.
  intros own. induction t as [|b t IH]; intros na no H1 H2; [reflexivity|].
  cbn [cam_kept]. rewrite count_bloc_cons_eqb in H1. rewrite count_other_cons in H2.
  destruct (Pos.eqb b own).
  - destruct na as [|na]; [lia|]. rewrite IH; [reflexivity|lia|lia].
  - destruct no as [|no]; [lia|]. rewrite IH; [reflexivity|lia|lia].
Qed.

(* the recursive and the direct description of the served slots agree *)
Lemma firstn_length_app : forall (A : Type) (p l : list A), firstn (length p) (p ++ l) = p.
Proof.
  intros A p l. induction p as [|a p IH]; cbn [length app firstn]; [destruct l; reflexivity|].
  rewrite IH. reflexivity.
Qed.

Lemma count_bloc_snoc : forall own p b,
  count_bloc own (p ++ [b]) = (count_bloc own p + (if Pos.eqb b own then 1 else 0))%nat.
Proof.
  intros own p b. rewrite count_bloc_app, count_bloc_cons_eqb. cbn. lia.
Qed.

Lemma count_other_snoc : forall own p b,
  count_other own (p ++ [b]) = (count_other own p + (if Pos.eqb b own then 0 else 1))%nat.
Proof.
  intros own p b. unfold count_other. rewrite filter_app, app_length. cbn [filter].
  destruct (Pos.eqb b own); cbn; reflexivity.
Qed.

Lemma cam_kept_direct_gen : forall own na no t p,
  map snd (filter (fun ib : nat * bloc => cam_served own (p ++ t) na no (fst ib) (snd ib))
                  (combine (seq (length p) (length t)) t))
  = cam_kept own t (na - count_bloc own p) (no - count_other own p).
Proof.
  intros own na no. induction t as [|b t IH]; intros p; [reflexivity|].
  cbn [length seq combine filter fst snd].
  assert (Hrest : map snd (filter (fun ib : nat * bloc => cam_served own (p ++ b :: t) na no (fst ib) (snd ib))
                     (combine (seq (S (length p)) (length t)) t))
                  = cam_kept own t (na - count_bloc own (p ++ [b])) (no - count_other own (p ++ [b]))).
  { rewrite <- (IH (p ++ [b])). rewrite app_length. cbn [length].
    replace (length p + 1)%nat with (S (length p)) by lia.
    rewrite <- app_assoc. reflexivity. }
  unfold cam_served at 1. rewrite firstn_length_app. cbn [cam_kept].
  rewrite count_bloc_snoc, count_other_snoc in Hrest.
  destruct (Pos.eqb b own) eqn:E.
  - destruct (Nat.ltb_spec (count_bloc own p) na) as [Hlt|Hge].
    + destruct (na - count_bloc own p)%nat as [|m] eqn:Em; [lia|].
      cbn [map snd]. rewrite Hrest. f_equal. f_equal; lia.
    + replace (na - count_bloc own p)%nat with O by lia. rewrite Hrest. f_equal; lia.
  - destruct (Nat.ltb_spec (count_other own p) no) as [Hlt|Hge].
    + destruct (no - count_other own p)%nat as [|m] eqn:Em; [lia|].
      cbn [map snd]. rewrite Hrest. f_equal. f_equal; lia.
    + replace (no - count_other own p)%nat with O by lia. rewrite Hrest. f_equal; lia.
Qed.

Theorem cam_kept_direct_eq : forall own t na no, cam_kept own t na no = cam_kept_direct own t na no.
Proof.
  intros own t na no. unfold cam_kept_direct.
  pose proof (cam_kept_direct_gen own na no t []) as H. cbn [app length] in H. rewrite H.
  unfold count_bloc, count_other. cbn [filter length]. rewrite !Nat.sub_0_r. reflexivity.
Qed.

(* the filled ballot follows the served slots *)
Lemma other_slots_cons : forall own b0 t c r,
  other_slots own (b0 :: t) (c :: r) =
  if Pos.eqb own b0 then other_slots own t r else c :: other_slots own t r.
Proof.
  intros own b0 t c r. unfold other_slots. cbn [combine filter fst]. destruct (Pos.eqb own b0); reflexivity.
Qed.

Theorem cam_fill_slots : forall own t ob oo,
  let r := cam_fill own t ob oo in
  let k := cam_kept own t (length ob) (length oo) in
  length r = length k /\
  slots own k r = firstn (count_bloc own t) ob /\
  other_slots own k r = firstn (count_other own t) oo.
Proof.
  intros own. induction t as [|b t IH]; intros ob oo; cbv zeta.
  - cbn [cam_fill cam_kept]. unfold slots, other_slots. cbn. split; [reflexivity|]. split; reflexivity.
  - cbn [cam_fill cam_kept]. rewrite count_bloc_cons_eqb, count_other_cons.
    destruct (Pos.eqb b own) eqn:E.
    + destruct ob as [|c ob].
      * cbn [length]. destruct (IH [] oo) as (I1 & I2 & I3). cbv zeta in I1, I2, I3. cbn [length] in I1, I2, I3.
        split; [exact I1|]. split; [rewrite I2, !firstn_nil_any; reflexivity|exact I3].
      * cbn [length]. destruct (IH ob oo) as (I1 & I2 & I3). cbv zeta in I1, I2, I3.
        split; [rewrite I1; reflexivity|]. rewrite slots_cons, other_slots_cons, (Pos.eqb_sym own b), E.
        split; [cbn [Nat.add firstn]; rewrite I2; reflexivity|exact I3].
    + destruct oo as [|c oo].
      * cbn [length]. destruct (IH ob []) as (I1 & I2 & I3). cbv zeta in I1, I2, I3. cbn [length] in I1, I2, I3.
        split; [exact I1|]. split; [exact I2|rewrite I3, !firstn_nil_any; reflexivity].
      * cbn [length]. destruct (IH ob oo) as (I1 & I2 & I3). cbv zeta in I1, I2, I3.
        split; [rewrite I1; reflexivity|]. rewrite slots_cons, other_slots_cons, (Pos.eqb_sym own b), E.
        split; [exact I2|cbn [Nat.add firstn]; rewrite I3; reflexivity].
Qed.

(* position by position: a served own-label slot carries an own-slate candidate, any other served
   slot an opposing-slate candidate *)
Theorem cam_fill_positions : forall own t ob oo i b,
  nth_error (cam_kept own t (length ob) (length oo)) i = Some b ->
  exists c, nth_error (cam_fill own t ob oo) i = Some c /\
            (if Pos.eqb b own then In c ob else In c oo).
Proof.
  intros own. induction t as [|b0 t IH]; intros ob oo i b H.
  - destruct i; discriminate.
  - cbn [cam_kept cam_fill] in *. destruct (Pos.eqb b0 own) eqn:E.
    + destruct ob as [|c ob]; cbn [length] in H.
      * destruct (IH [] oo i b H) as (c & Hc & Hin). exists c. split; [exact Hc|exact Hin].
      * destruct i as [|i]; cbn [nth_error] in H |- *.
        -- injection H as <-. exists c. rewrite E. split; [reflexivity|left; reflexivity].
        -- destruct (IH ob oo i b H) as (c' & Hc & Hin). exists c'. split; [exact Hc|].
           destruct (Pos.eqb b own); [right; exact Hin|exact Hin].
    + destruct oo as [|c oo]; cbn [length] in H.
      * destruct (IH ob [] i b H) as (c & Hc & Hin). exists c. split; [exact Hc|exact Hin].
      * destruct i as [|i]; cbn [nth_error] in H |- *.
        -- injection H as <-. exists c. rewrite E. split; [reflexivity|left; reflexivity].
        -- destruct (IH ob oo i b H) as (c' & Hc & Hin). exists c'. split; [exact Hc|].
           destruct (Pos.eqb b own); [exact Hin|right; exact Hin].
Qed.

(* the ballot is an interleaving of a prefix of each order *)
Theorem cam_fill_perm : forall own t ob oo,
  Permutation (cam_fill own t ob oo)
              (firstn (count_bloc own t) ob ++ firstn (count_other own t) oo).
Proof.
  intros own. induction t as [|b t IH]; intros ob oo.
  - cbn. constructor.
  - cbn [cam_fill]. rewrite count_bloc_cons_eqb, count_other_cons. destruct (Pos.eqb b own).
    + destruct ob as [|c ob].
      * rewrite firstn_nil_any. specialize (IH [] oo). rewrite firstn_nil_any in IH. exact IH.
      * cbn [Nat.add firstn app]. apply perm_skip. apply IH.
    + destruct oo as [|c oo].
      * rewrite firstn_nil_any. specialize (IH ob []). rewrite firstn_nil_any in IH. exact IH.
      * cbn [Nat.add firstn]. apply Permutation_cons_app. apply IH.
Qed.

(* whenever a predicate separates the two orders, filtering the ballot gives back the prefixes: the
   candidates of one slate appear in the relative order of the Plackett-Luce draw *)
Theorem cam_fill_filter : forall (P : pcand -> bool) own t ob oo,
  (forall c, In c ob -> P c = true) -> (forall c, In c oo -> P c = false) ->
  filter P (cam_fill own t ob oo) = firstn (count_bloc own t) ob /\
  filter (fun c => negb (P c)) (cam_fill own t ob oo) = firstn (count_other own t) oo.
Proof.
  intros P own. induction t as [|b t IH]; intros ob oo Hb Ho.
  - cbn. split; reflexivity.
  - cbn [cam_fill]. rewrite count_bloc_cons_eqb, count_other_cons. destruct (Pos.eqb b own).
    + destruct ob as [|c ob].
      * destruct (IH [] oo Hb Ho) as [I1 I2]. rewrite firstn_nil_any in *. split; assumption.
      * assert (Hc : P c = true) by (apply Hb; left; reflexivity).
        destruct (IH ob oo) as [I1 I2]; [intros x Hx; apply Hb; right; exact Hx|exact Ho|].
        cbn [filter Nat.add firstn]. rewrite Hc. cbn [negb]. rewrite I1. split; [reflexivity|exact I2].
    + destruct oo as [|c oo].
      * destruct (IH ob [] Hb Ho) as [I1 I2]. rewrite firstn_nil_any in *. split; assumption.
      * assert (Hc : P c = false) by (apply Ho; left; reflexivity).
        destruct (IH ob oo) as [I1 I2]; [exact Hb|intros x Hx; apply Ho; right; exact Hx|].
        cbn [filter Nat.add firstn]. rewrite Hc. cbn [negb]. rewrite I2. split; [exact I1|reflexivity].
Qed.

Lemma firstn_incl : forall (A : Type) n (l : list A), incl (firstn n l) l.
Proof.
  intros A n l. rewrite <- (firstn_skipn n l) at 2. apply incl_appl. apply incl_refl.
Qed.

Lemma firstn_NoDup : forall (A : Type) n (l : list A), NoDup l -> NoDup (firstn n l).
Proof.
  intros A n. induction n as [|n IH]; intros [|a l] H; cbn [firstn]; try constructor.
  - inversion H as [|x l' Hn Hnd]; subst. intros Hin. apply Hn. apply (firstn_incl A n l a Hin).
  - inversion H as [|x l' Hn Hnd]; subst. apply IH. exact Hnd.
Qed.

Theorem cam_fill_NoDup : forall own t ob oo,
  NoDup ob -> NoDup oo -> (forall c, In c ob -> ~ In c oo) -> NoDup (cam_fill own t ob oo).
Proof.
  intros own t ob oo H1 H2 H3.
  apply (Permutation_NoDup (Permutation_sym (cam_fill_perm own t ob oo))).
  apply Lib_sets.NoDup_app_intro; [apply firstn_NoDup; exact H1|apply firstn_NoDup; exact H2|].
  intros c Hc Hc'. apply (H3 c); [apply (firstn_incl _ _ _ c Hc)|apply (firstn_incl _ _ _ c Hc')].
Qed.

(* first place: a type that starts with the own label puts the first own-slate candidate of the
   draw first; a type that starts with another label the first opposing-slate candidate *)
Theorem cam_fill_head : forall own b t ob oo,
  (Pos.eqb b own = true -> forall c ob', ob = c :: ob' ->
     cam_fill own (b :: t) ob oo = c :: cam_fill own t ob' oo) /\
  (Pos.eqb b own = false -> forall c oo', oo = c :: oo' ->
     cam_fill own (b :: t) ob oo = c :: cam_fill own t ob oo').
Proof.
  intros own b t ob oo. cbn [cam_fill]. split; intros E c l ->; rewrite E; reflexivity.
Qed.

(* ------------------------------------------------------------------ *)
(** * 3. CambridgeSampler: one ballot, one bloc *)

Lemma filter_pmem_In : forall (s d : list pcand) c,
  In c (filter (fun x => pmem x s) d) <-> In c d /\ pmem c s = true.
Proof. intros s d c. apply filter_In. Qed.

Theorem cam_ballot_wf : forall iv own so sp d b calls,
  cam_ballot iv own so sp d = inl (b, calls) ->
  let ob := filter (fun c => pmem c so) (snd d) in
  let oo := filter (fun c => pmem c sp) (snd d) in
  let r := cam_fill own (fst d) ob oo in
  calls = [CamPL (pi_int iv) (length (pi_int iv))] /\
  (length (snd d) = length (pi_int iv) /\ NoDup (snd d) /\ incl (snd d) (map fst (pi_int iv)) /\
   incl (map fst (pi_int iv)) (snd d)) /\
  b = unit_ballot (singletons pcand r) /\
  wt b == 1 /\ sc b = [] /\ rk b = singletons pcand r /\ flat pcand (rk b) = r /\
  incl r (snd d) /\
  (forall c, In c r -> pmem c so = true \/ pmem c sp = true) /\
  Permutation r (firstn (count_bloc own (fst d)) ob ++ firstn (count_other own (fst d)) oo) /\
  length r = (Nat.min (count_bloc own (fst d)) (length ob) +
              Nat.min (count_other own (fst d)) (length oo))%nat /\
  ((forall c, pmem c so = true -> pmem c sp = true -> False) ->
     NoDup r /\
     filter (fun c => pmem c so) r = firstn (count_bloc own (fst d)) ob /\
     filter (fun c => pmem c sp) r = firstn (count_other own (fst d)) oo).
Proof.
  intros iv own so sp d b calls H. cbv zeta. unfold cam_ballot in H.
  destruct (valid_sample (map fst (pi_int iv)) (length (pi_int iv)) (snd d)) eqn:Ev;
    cbn [negb] in H; [|discriminate].
  unfold ok in H. injection H as <- <-.
  apply valid_sample_iff in Ev. destruct Ev as (L & N & I).
  set (ob := filter (fun c => pmem c so) (snd d)).
  set (oo := filter (fun c => pmem c sp) (snd d)).
  set (r := cam_fill own (fst d) ob oo).
  pose proof (cam_fill_perm own (fst d) ob oo) as HP. fold r in HP.
  assert (Hob : incl ob (snd d)) by (intros c Hc; apply filter_In in Hc; tauto).
  assert (Hoo : incl oo (snd d)) by (intros c Hc; apply filter_In in Hc; tauto).
  assert (Hsrc : forall c, In c r -> In c ob \/ In c oo).
  { intros c Hc. apply (Permutation_in _ HP) in Hc. apply in_app_or in Hc.
    destruct Hc as [Hc|Hc]; [left|right]; apply (firstn_incl _ _ _ c Hc). }
  split; [reflexivity|]. split.
  { split; [exact L|]. split; [exact N|]. split; [exact I|].
    apply NoDup_length_incl; [exact N|rewrite map_length; lia|exact I]. }
  split; [reflexivity|]. split; [reflexivity|]. split; [reflexivity|]. split; [reflexivity|].
  split; [apply (Lib_sets.flat_singletons pcand)|].
  split; [intros c Hc; destruct (Hsrc c Hc) as [Hc'|Hc']; [apply Hob|apply Hoo]; exact Hc'|].
  split.
  { intros c Hc. destruct (Hsrc c Hc) as [Hc'|Hc']; apply filter_In in Hc'; tauto. }
  split; [exact HP|]. split; [apply cam_fill_length|].
  intros Hdis.
  assert (Hsep1 : forall c, In c ob -> pmem c so = true) by (intros c Hc; apply filter_In in Hc; tauto).
  assert (Hsep2 : forall c, In c oo -> pmem c so = false).
  { intros c Hc. apply filter_In in Hc. destruct Hc as [_ Hc].
    destruct (pmem c so) eqn:E; [exfalso; apply (Hdis c E Hc)|reflexivity]. }
  split.
  { apply cam_fill_NoDup; [apply NoDup_filter; exact N|apply NoDup_filter; exact N|].
    intros c Hc Hc'. apply Hsep1 in Hc. apply Hsep2 in Hc'. congruence. }
  destruct (cam_fill_filter (fun c => pmem c so) own (fst d) ob oo Hsep1 Hsep2) as [F1 _].
  split; [exact F1|].
  assert (Hsep3 : forall c, In c ob -> pmem c sp = false).
  { intros c Hc. apply Hsep1 in Hc. destruct (pmem c sp) eqn:E; [exfalso; apply (Hdis c Hc E)|reflexivity]. }
  assert (Hsep4 : forall c, In c oo -> pmem c sp = true) by (intros c Hc; apply filter_In in Hc; tauto).
  destruct (cam_fill_filter (fun c => negb (pmem c sp)) own (fst d) ob oo) as [_ F2].
  { intros c Hc. rewrite (Hsep3 c Hc). reflexivity. }
  { intros c Hc. rewrite (Hsep4 c Hc). reflexivity. }
  rewrite <- F2. apply filter_ext. intros c. rewrite negb_involutive. reflexivity.
Qed.

(* the served-slot reading for one ballot (no disjointness needed) *)
Theorem cam_ballot_slots : forall iv own so sp d b calls,
  cam_ballot iv own so sp d = inl (b, calls) ->
  let ob := filter (fun c => pmem c so) (snd d) in
  let oo := filter (fun c => pmem c sp) (snd d) in
  let k := cam_kept own (fst d) (length ob) (length oo) in
  length (flat pcand (rk b)) = length k /\
  slots own k (flat pcand (rk b)) = firstn (count_bloc own (fst d)) ob /\
  other_slots own k (flat pcand (rk b)) = firstn (count_other own (fst d)) oo /\
  (forall i l, nth_error k i = Some l ->
     exists c, nth_error (flat pcand (rk b)) i = Some c /\ In c (snd d) /\
               (if Pos.eqb l own then pmem c so = true else pmem c sp = true)).
Proof.
  intros iv own so sp d b calls H. cbv zeta.
  destruct (cam_ballot_wf iv own so sp d b calls H) as (_ & _ & _ & _ & _ & _ & Hf & _).
  cbv zeta in Hf. rewrite Hf.
  destruct (cam_fill_slots own (fst d) (filter (fun c => pmem c so) (snd d))
              (filter (fun c => pmem c sp) (snd d))) as (S1 & S2 & S3). cbv zeta in S1, S2, S3.
  split; [exact S1|]. split; [exact S2|]. split; [exact S3|].
  intros i l Hl. destruct (cam_fill_positions own (fst d) _ _ i l Hl) as (c & Hc & Hin).
  exists c. split; [exact Hc|]. destruct (Pos.eqb l own); apply filter_In in Hin; tauto.
Qed.

(* ---------- the conditional tables ---------- *)
Theorem cond_table_spec : forall freqs l,
  let sel := filter (fun e : btype * Q => starts_with l (fst e)) freqs in
  map fst (cond_table freqs l) = map fst sel /\
  (forall t v, In (t, v) (cond_table freqs l) ->
     starts_with l t = true /\ exists f, In (t, f) freqs /\ v = f / qsum (map snd sel)) /\
  (forall t f, In (t, f) freqs -> starts_with l t = true ->
     In (t, f / qsum (map snd sel)) (cond_table freqs l)) /\
  (~ qsum (map snd sel) == 0 -> qsum (map snd (cond_table freqs l)) == 1) /\
  ((forall t f, In (t, f) freqs -> 0 <= f) -> forall t v, In (t, v) (cond_table freqs l) -> 0 <= v).
Proof.
  intros freqs l. cbv zeta. unfold cond_table.
  set (sel := filter (fun e : btype * Q => starts_with l (fst e)) freqs).
  set (tot := qsum (map snd sel)).
  split; [rewrite map_map; reflexivity|]. split.
  { intros t v Hin. apply in_map_iff in Hin. destruct Hin as ([t' f] & E & Hin). cbn [fst snd] in E.
    injection E as -> <-. apply filter_In in Hin. destruct Hin as [Hin Hs]. cbn [fst] in Hs.
    split; [exact Hs|]. exists f. split; [exact Hin|reflexivity]. }
  split.
  { intros t f Hin Hs. apply in_map_iff. exists (t, f). split; [reflexivity|].
    apply filter_In. split; [exact Hin|exact Hs]. }
  split.
  { intros Hnz. rewrite map_map. cbn [snd]. rewrite (Dist.qsum_map_div snd tot sel). fold tot.
    field. exact Hnz. }
  intros Hnn t v Hin. apply in_map_iff in Hin. destruct Hin as ([t' f] & E & Hin). cbn [fst snd] in E.
  injection E as _ <-.
  assert (Ht : 0 <= tot).
  { apply Dist.qsum_map_nonneg. intros [t1 f1] H1. cbn [snd]. apply filter_In in H1.
    apply (Hnn t1 f1). tauto. }
  apply filter_In in Hin. destruct Hin as [Hin _]. pose proof (Hnn t' f Hin) as Hf.
  unfold Qdiv. apply Qmult_le_0_compat; [exact Hf|]. apply Qinv_le_0_compat. exact Ht.
Qed.

(* ---------- one bloc ---------- *)
Lemma btype_eqb_true_iff : forall a b, btype_eqb a b = true <-> a = b.
Proof.
  intros a b. unfold btype_eqb. destruct (list_eq_dec Pos.eq_dec a b) as [E|E].
  - split; [intros _; exact E|reflexivity].
  - split; [discriminate|intros H; contradiction].
Qed.

Lemma in_tbl_spec : forall (tbl : list (btype * Q)) t,
  existsb (fun e => btype_eqb (fst e) t && Qlt_bool 0 (snd e)) tbl = true ->
  exists v, In (t, v) tbl /\ 0 < v.
Proof.
  intros tbl t H. apply existsb_exists in H. destruct H as ([t' v] & Hin & E). cbn [fst snd] in E.
  apply andb_true_iff in E. destruct E as [E1 E2]. apply btype_eqb_true_iff in E1. subst t'.
  apply Lib_rk.Qlt_bool_iff in E2. exists v. split; assumption.
Qed.

Lemma nth_error_firstn_In : forall (A : Type) (l : list A) n i x,
  nth_error l i = Some x -> (i < n)%nat -> In x (firstn n l).
Proof.
  intros A. induction l as [|a l IH]; intros n i x H Hi; [destruct i; discriminate|].
  destruct n as [|n]; [lia|]. cbn [firstn]. destruct i as [|i]; cbn [nth_error] in H.
  - injection H as <-. left. reflexivity.
  - right. apply (IH n i x H). lia.
Qed.

Lemma nth_error_skipn_In : forall (A : Type) (l : list A) n i x,
  nth_error l i = Some x -> (n <= i)%nat -> In x (skipn n l).
Proof.
  intros A. induction l as [|a l IH]; intros n i x H Hi; [destruct i; discriminate|].
  destruct n as [|n]; [cbn [skipn]; apply (nth_error_In _ _ H)|].
  cbn [skipn]. destruct i as [|i]; [lia|]. cbn [nth_error] in H. apply (IH n i x H). lia.
Qed.

Lemma cam_collect_inv : forall (g : btype * list pcand -> res (gballot * list camcall)) draws bs calls,
  cam_collect (map g draws) = inl (bs, calls) ->
  exists xs, Forall2 (fun d x => g d = inl x) draws xs /\ bs = map fst xs /\ calls = concat (map snd xs).
Proof.
  intros g draws bs calls H. unfold cam_collect in H.
  destruct (rmap (fun x => x) (map g draws)) as [xs|e] eqn:E; cbn [rbind] in H; [|discriminate].
  unfold ok in H. injection H as <- <-. exists xs. split; [|split; reflexivity].
  apply rmap_ok_inv in E. clear -E. revert xs E. induction draws as [|d draws IH]; intros xs E.
  - inversion E. constructor.
  - cbn [map] in E. inversion E as [|a x la lx Hax Hrest]; subst. constructor; [exact Hax|].
    apply IH. exact Hrest.
Qed.

Theorem cam_bloc_wf : forall freqs iv own opp so sp nb nc draws bs calls,
  cam_bloc freqs iv own opp so sp nb nc draws = inl (bs, calls) ->
  length draws = (nb + nc)%nat /\ length bs = (nb + nc)%nat /\
  calls = CamChoices (cond_table freqs own) nb :: CamChoices (cond_table freqs opp) nc ::
          repeat (CamPL (pi_int iv) (length (pi_int iv))) (nb + nc) /\
  (forall i d, nth_error draws i = Some d ->
     (exists b, nth_error bs i = Some b /\
                cam_ballot iv own so sp d = inl (b, [CamPL (pi_int iv) (length (pi_int iv))])) /\
     ((i < nb)%nat -> starts_with own (fst d) = true /\
                      exists v, In (fst d, v) (cond_table freqs own) /\ 0 < v) /\
     ((nb <= i)%nat -> starts_with opp (fst d) = true /\
                       exists v, In (fst d, v) (cond_table freqs opp) /\ 0 < v)) /\
  (forall b, In b bs -> wt b == 1 /\ sc b = []).
Proof.
  intros freqs iv own opp so sp nb nc draws bs calls H. unfold cam_bloc in H.
  destruct (Nat.eqb_spec (length draws) (nb + nc)) as [Hl|Hl]; cbn [negb] in H; [|discriminate].
  match type of H with (if negb ?c then _ else _) = _ => destruct c eqn:E1 end; cbn [negb] in H; [|discriminate].
  match type of H with (if negb ?c then _ else _) = _ => destruct c eqn:E2 end; cbn [negb] in H; [|discriminate].
  destruct (cam_collect (map (cam_ballot iv own so sp) draws)) as [[bs0 cs0]|e] eqn:Ec; cbn [rbind] in H;
    [|discriminate].
  unfold ok in H. cbn [fst snd] in H. injection H as <- <-.
  apply cam_collect_inv in Ec. destruct Ec as (xs & HF & -> & ->).
  assert (Hsnd : forall d x, cam_ballot iv own so sp d = inl x ->
                 snd x = [CamPL (pi_int iv) (length (pi_int iv))]).
  { intros d [b c] Hx. cbn [snd]. apply (proj1 (cam_ballot_wf iv own so sp d b c Hx)). }
  assert (Hcalls : concat (map snd xs) = repeat (CamPL (pi_int iv) (length (pi_int iv))) (length draws)).
  { clear -HF Hsnd. induction HF as [|d x draws xs Hdx _ IH]; [reflexivity|].
    cbn [map concat length repeat]. rewrite (Hsnd d x Hdx), IH. reflexivity. }
  rewrite forallb_forall in E1, E2.
  split; [exact Hl|]. split; [rewrite map_length, <- (Forall2_length_eq _ _ _ HF); exact Hl|].
  split; [rewrite Hcalls, Hl; reflexivity|]. split.
  { intros i d Hd. split; [|split].
    - destruct (Forall2_nth_error_l _ _ _ i d HF Hd) as ([b c] & Hx & Hg).
      exists b. split; [rewrite nth_error_map, Hx; reflexivity|].
      pose proof (Hsnd d (b, c) Hg) as Hc. cbn [snd] in Hc. rewrite <- Hc. exact Hg.
    - intros Hi. specialize (E1 d (nth_error_firstn_In _ _ _ _ _ Hd Hi)).
      apply in_tbl_spec in E1. destruct E1 as (v & Hv & Hpos).
      split; [exact (proj1 (proj1 (proj2 (cond_table_spec freqs own)) _ _ Hv))|].
      exists v. split; assumption.
    - intros Hi. specialize (E2 d (nth_error_skipn_In _ _ _ _ _ Hd Hi)).
      apply in_tbl_spec in E2. destruct E2 as (v & Hv & Hpos).
      split; [exact (proj1 (proj1 (proj2 (cond_table_spec freqs opp)) _ _ Hv))|].
      exists v. split; assumption. }
  intros b Hb. apply in_map_iff in Hb. destruct Hb as ([b' c] & <- & Hx). cbn [fst].
  clear -HF Hx. induction HF as [|d x draws xs Hdx _ IH]; [destruct Hx|].
  destruct Hx as [->|Hx]; [|apply IH; exact Hx].
  destruct (cam_ballot_wf iv own so sp d b' c Hdx) as (_ & _ & _ & Hw & Hs & _).
  split; assumption.
Qed.

(* bloc-first versus opposing-first ballots *)
Theorem cam_bloc_first_choice : forall freqs iv own opp so sp nb nc draws bs calls i d b,
  cam_bloc freqs iv own opp so sp nb nc draws = inl (bs, calls) ->
  nth_error draws i = Some d -> nth_error bs i = Some b ->
  ((i < nb)%nat -> (exists c, In c (map fst (pi_int iv)) /\ pmem c so = true) ->
     exists c rest, flat pcand (rk b) = c :: rest /\ pmem c so = true /\
                    hd_error (filter (fun x => pmem x so) (snd d)) = Some c) /\
  ((nb <= i)%nat -> own <> opp -> (exists c, In c (map fst (pi_int iv)) /\ pmem c sp = true) ->
     exists c rest, flat pcand (rk b) = c :: rest /\ pmem c sp = true /\
                    hd_error (filter (fun x => pmem x sp) (snd d)) = Some c).
Proof.
  intros freqs iv own opp so sp nb nc draws bs calls i d b H Hd Hb.
  destruct (cam_bloc_wf _ _ _ _ _ _ _ _ _ _ _ H) as (_ & _ & _ & Hall & _).
  destruct (Hall i d Hd) as ((b' & Hb' & Hg) & Hown & Hopp).
  rewrite Hb in Hb'. injection Hb' as <-.
  destruct (cam_ballot_wf iv own so sp d b _ Hg) as (_ & (_ & _ & _ & Hcov) & _ & _ & _ & _ & Hf & _).
  cbv zeta in Hf. rewrite Hf.
  assert (Hne : forall (s : list pcand), (exists c, In c (map fst (pi_int iv)) /\ pmem c s = true) ->
            exists c0 l0, filter (fun x => pmem x s) (snd d) = c0 :: l0 /\ pmem c0 s = true).
  { intros s (c & Hc & Hs).
    assert (Hin : In c (filter (fun x => pmem x s) (snd d))).
    { apply filter_In. split; [apply Hcov; exact Hc|exact Hs]. }
    destruct (filter (fun x => pmem x s) (snd d)) as [|c0 l0] eqn:E; [destruct Hin|].
    exists c0, l0. split; [reflexivity|].
    assert (Hc0 : In c0 (filter (fun x => pmem x s) (snd d))) by (rewrite E; left; reflexivity).
    apply filter_In in Hc0. tauto. }
  split.
  - intros Hi Hex. destruct (Hown Hi) as [Hs _]. destruct (Hne so Hex) as (c0 & l0 & E & Hc0).
    destruct (fst d) as [|l t] eqn:Et; [discriminate|]. cbn [starts_with] in Hs.
    rewrite E. exists c0. eexists. split; [|split; [exact Hc0|reflexivity]].
    exact (proj1 (cam_fill_head own l t (c0 :: l0) _) Hs c0 l0 eq_refl).
  - intros Hi Hneq Hex. destruct (Hopp Hi) as [Hs _]. destruct (Hne sp Hex) as (c0 & l0 & E & Hc0).
    destruct (fst d) as [|l t] eqn:Et; [discriminate|]. cbn [starts_with] in Hs.
    apply Pos.eqb_eq in Hs. subst l.
    assert (Hs' : Pos.eqb opp own = false) by (apply Pos.eqb_neq; congruence).
    rewrite E. exists c0. eexists. split; [|split; [exact Hc0|reflexivity]].
    exact (proj2 (cam_fill_head own opp t _ (c0 :: l0)) Hs' c0 l0 eq_refl).
Qed.

(* ---------- per-bloc totals through finish_blocs ---------- *)
Lemma pairs_of_sums : forall l, map (fun s : nat * nat => (fst s + snd s)%nat) (pairs_of l) = pair_sums l.
Proof.
  fix IH 1. intros [|a [|b l]]; [reflexivity|reflexivity|].
  cbn [pairs_of pair_sums map fst snd]. rewrite IH. reflexivity.
Qed.

Definition cam_pool (bp : bloc * list gballot) (s : nat * nat) : Prop :=
  exists freqs iv own opp so sp draws calls,
    cam_bloc freqs iv own opp so sp (fst s) (snd s) draws = inl (snd bp, calls).

Lemma cam_pools_sizes : forall pools splits,
  Forall2 cam_pool pools splits ->
  map (fun bp : bloc * list gballot => length (snd bp)) pools
    = map (fun s : nat * nat => (fst s + snd s)%nat) splits /\
  (forall bp b, In bp pools -> In b (snd bp) -> wt b == 1).
Proof.
  intros pools splits H. induction H as [|bp s pools splits Hbs _ [IH1 IH2]].
  - split; [reflexivity|intros bp b []].
  - destruct Hbs as (freqs & iv & own & opp & so & sp & draws & calls & Hc).
    destruct (cam_bloc_wf _ _ _ _ _ _ _ _ _ _ _ Hc) as (_ & Hl & _ & _ & Hu).
    split; [cbn [map]; rewrite Hl, IH1; reflexivity|].
    intros bp' b [<-|Hin] Hb; [apply (Hu b Hb)|apply (IH2 bp' b Hin Hb)].
Qed.

Theorem cam_profile_sizes : forall pools splits by_bloc agg,
  Forall2 cam_pool pools splits ->
  finish_blocs pools = inl (by_bloc, agg) ->
  length by_bloc = length splits /\
  map fst by_bloc = map fst pools /\
  Forall2 (fun (bq : bloc * gprofile) (s : nat * nat) =>
             total_wt pcand (ballots (snd bq)) == Qnat (fst s + snd s)) by_bloc splits /\
  total_wt pcand (ballots agg) == Qnat (list_sum (map (fun s : nat * nat => (fst s + snd s)%nat) splits)) /\
  whole_pos_weights (ballots agg) /\
  (forall bq, In bq by_bloc -> whole_pos_weights (ballots (snd bq))).
Proof.
  intros pools splits by_bloc agg HF H. destruct (cam_pools_sizes pools splits HF) as [Hs Hu].
  destruct (finish_sizes _ pools by_bloc agg Hs Hu H) as (S1 & S2 & S3 & S4).
  split; [rewrite S1, map_length; reflexivity|]. split; [exact S2|]. split.
  { clear -S3. remember (map (fun s : nat * nat => (fst s + snd s)%nat) splits) as sizes eqn:E.
    revert splits E. induction S3 as [|bq n by_bloc sizes Hbn _ IH]; intros [|s splits] E; try discriminate.
    - constructor.
    - cbn [map] in E. injection E as -> E. constructor; [exact Hbn|apply IH; exact E]. }
  split; [exact S4|].
  apply (finish_integral_positive pools by_bloc agg H).
  intros bp Hbp b Hb. apply whole_pos_1. apply (Hu bp b Hbp Hb).
Qed.

Section CamApportion.
Variable apportion : list Q -> nat -> list nat.
Hypothesis apportion_ok : forall props N, props <> [] ->
  length (apportion props N) = length props /\ fold_right Nat.add 0%nat (apportion props N) = N.

Theorem cam_crossover_sizes : forall (cp : list (Q * Q)) N pools by_bloc agg,
  cp <> [] ->
  Forall2 cam_pool pools (pairs_of (apportion (cross_props cp) N)) ->
  finish_blocs pools = inl (by_bloc, agg) ->
  length by_bloc = length cp /\
  map fst by_bloc = map fst pools /\
  (forall i bq, nth_error by_bloc i = Some bq ->
     total_wt pcand (ballots (snd bq)) ==
     Qnat (nth (2 * i) (apportion (cross_props cp) N) 0%nat +
           nth (2 * i + 1) (apportion (cross_props cp) N) 0%nat)) /\
  total_wt pcand (ballots agg) == Qnat N /\
  whole_pos_weights (ballots agg).
Proof.
  intros cp N pools by_bloc agg Hcp HF H.
  destruct (cam_pools_sizes _ _ HF) as [Hs Hu]. rewrite pairs_of_sums in Hs.
  destruct (cross_sizes_proof apportion apportion_ok cp N pools by_bloc agg Hcp Hs Hu H)
    as (_ & C2 & C3 & C4 & C5).
  split; [exact C2|]. split; [exact C3|]. split; [exact C4|]. split; [exact C5|].
  apply (proj1 (finish_integral_positive pools by_bloc agg H
    (fun bp Hbp b Hb => whole_pos_1 _ (Hu bp b Hbp Hb)))).
Qed.
End CamApportion.

(* ------------------------------------------------------------------ *)
(** * 4. The exact slate-Bradley-Terry path: every type of the table has the right multiplicities *)

Definition sizes_of_intervals (intervals : list (bloc * pinterval)) : list (bloc * nat) :=
  map (fun x : bloc * pinterval => (fst x, length (pi_int (snd x)))) intervals.

Lemma to_sample_members : forall sizes b, In b (to_sample sizes) -> In b (map fst sizes).
Proof.
  intros sizes b H. unfold to_sample in H. apply in_concat in H. destruct H as (l & Hl & Hb).
  apply in_map_iff in Hl. destruct Hl as ([b' n] & <- & Hin). cbn [fst snd] in Hb.
  apply repeat_spec in Hb. subst b. apply in_map_iff. exists (b', n). split; [reflexivity|exact Hin].
Qed.

Lemma sizes_of_intervals_keys : forall intervals, map fst (sizes_of_intervals intervals) = map fst intervals.
Proof. intros intervals. unfold sizes_of_intervals. rewrite map_map. reflexivity. Qed.

Lemma count_to_sample : forall intervals bl iv,
  NoDup (map fst intervals) -> In (bl, iv) intervals ->
  count_bloc bl (to_sample (sizes_of_intervals intervals)) = length (pi_int iv).
Proof.
  induction intervals as [|[b0 iv0] rest IH]; intros bl iv Hnd Hin; [destruct Hin|].
  cbn [map fst] in Hnd. inversion Hnd as [|x l Hnotin Hnd']; subst.
  unfold sizes_of_intervals, to_sample. cbn [map concat fst snd]. rewrite count_bloc_app.
  fold (sizes_of_intervals rest). fold (to_sample (sizes_of_intervals rest)).
  destruct Hin as [E|Hin].
  - injection E as -> ->. rewrite count_bloc_repeat_same.
    rewrite (count_bloc_not_in bl (to_sample (sizes_of_intervals rest))); [lia|].
    intros H. apply to_sample_members in H. rewrite sizes_of_intervals_keys in H. contradiction.
  - assert (Hne : bl <> b0).
    { intros ->. apply Hnotin. apply in_map_iff. exists (b0, iv). split; [reflexivity|exact Hin]. }
    rewrite (count_bloc_repeat_other bl b0 _ Hne), (IH bl iv Hnd' Hin). reflexivity.
Qed.

Lemma size_of_intervals : forall intervals bl iv,
  NoDup (map fst intervals) -> In (bl, iv) intervals ->
  size_of (sizes_of_intervals intervals) bl = length (pi_int iv).
Proof.
  induction intervals as [|[b0 iv0] rest IH]; intros bl iv Hnd Hin; [destruct Hin|].
  cbn [map fst] in Hnd. inversion Hnd as [|x l Hnotin Hnd']; subst.
  unfold size_of, sizes_of_intervals. cbn [map find fst snd].
  destruct (Pos.eqb_spec bl b0) as [->|Hne].
  - destruct Hin as [E|Hin]; [injection E as ->; reflexivity|].
    exfalso. apply Hnotin. apply in_map_iff. exists (b0, iv). split; [reflexivity|exact Hin].
  - destruct Hin as [E|Hin]; [injection E as E1 _; congruence|].
    exact (IH bl iv Hnd' Hin).
Qed.

(* the hypotheses of [slate_ballot_wf] hold for every ballot type the exact sampler can draw *)
Theorem slate_bt_type_counts : forall intervals own opp c t v,
  NoDup (map fst intervals) ->
  In (t, v) (slate_bt_pdf (sizes_of_intervals intervals) own opp c) ->
  (forall x, In x t -> In x (map fst intervals)) /\
  (forall bl iv, In (bl, iv) intervals -> count_bloc bl t = length (pi_int iv)) /\
  length t = list_sum (map (fun x : bloc * pinterval => length (pi_int (snd x))) intervals).
Proof.
  intros intervals own opp c t v Hnd Hin.
  destruct (slate_entry_general _ own opp c t v Hin) as [HP _].
  split; [|split].
  - intros x Hx. rewrite <- sizes_of_intervals_keys. apply to_sample_members.
    apply (Permutation_in _ HP Hx).
  - intros bl iv Hbi. rewrite (count_bloc_perm bl _ _ HP). apply count_to_sample; assumption.
  - rewrite (Permutation_length HP). clear. unfold to_sample, sizes_of_intervals.
    induction intervals as [|[b0 iv0] rest IH]; [reflexivity|].
    cbn [map concat fst snd list_sum]. rewrite app_length, repeat_length, IH. reflexivity.
Qed.

(* ... and for every state of the MCMC chain started at the seed type *)
Theorem slate_mcmc_type_counts : forall intervals own c steps t,
  NoDup (map fst intervals) ->
  In t (slate_mcmc_run own c (to_sample (sizes_of_intervals intervals)) steps) ->
  (forall x, In x t -> In x (map fst intervals)) /\
  (forall bl iv, In (bl, iv) intervals -> count_bloc bl t = length (pi_int iv)).
Proof.
  intros intervals own c steps t Hnd Hin.
  destruct (slate_mcmc_run_perm own c steps _ t Hin) as [HP Hc]. split.
  - intros x Hx. rewrite <- sizes_of_intervals_keys. apply to_sample_members.
    apply (Permutation_in _ HP Hx).
  - intros bl iv Hbi. rewrite Hc. apply count_to_sample; assumption.
Qed.

Lemma concat_map_perm : forall (A B : Type) (f g : A -> list B) (l : list A),
  (forall a, In a l -> Permutation (f a) (g a)) ->
  Permutation (concat (map f l)) (concat (map g l)).
Proof.
  intros A B f g l. induction l as [|a l IH]; intros H; [constructor|].
  cbn [map concat]. apply Permutation_app; [apply H; left; reflexivity|].
  apply IH. intros a' Ha'. apply H. right. exact Ha'.
Qed.

Lemma NoDup_concat_each : forall (A : Type) (L : list (list A)) l, NoDup (concat L) -> In l L -> NoDup l.
Proof.
  intros A L. induction L as [|l0 L IH]; intros l H Hin; [destruct Hin|].
  cbn [concat] in H. apply Lib_sets.NoDup_app_inv in H. destruct H as (H1 & H2 & _).
  destruct Hin as [<-|Hin]; [exact H1|apply IH; assumption].
Qed.

Theorem slate_bt_exact_ballot : forall intervals zero own opp c t v orders b calls,
  NoDup (map fst intervals) ->
  In (t, v) (slate_bt_pdf (sizes_of_intervals intervals) own opp c) ->
  slate_ballot intervals zero t orders = inl (b, calls) ->
  exists r,
    wt b == 1 /\ sc b = [] /\
    rk b = singletons pcand r ++ (match zero with [] => [] | _ => [zero] end) /\
    flat pcand (rk b) = r ++ zero /\
    length r = list_sum (map (fun x : bloc * pinterval => length (pi_int (snd x))) intervals) /\
    (forall bl iv, In (bl, iv) intervals ->
       (pi_int iv <> [] -> slots bl t r = order_of orders bl) /\
       length (slots bl t r) = length (pi_int iv) /\ NoDup (slots bl t r) /\
       incl (slots bl t r) (map fst (pi_int iv)) /\
       (NoDup (map fst (pi_int iv)) -> Permutation (slots bl t r) (map fst (pi_int iv)))) /\
    Permutation r (concat (map (fun x : bloc * pinterval => slots (fst x) t r) intervals)) /\
    calls = map (fun x : bloc * pinterval => GPL (pi_int (snd x)) (length (pi_int (snd x))))
                (filter (fun x : bloc * pinterval => nonempty (pi_int (snd x))) intervals) /\
    (NoDup (concat (map (fun x : bloc * pinterval => map fst (pi_int (snd x))) intervals)) ->
       Permutation r (concat (map (fun x : bloc * pinterval => map fst (pi_int (snd x))) intervals)) /\
       (NoDup zero -> (forall x, In x r -> ~ In x zero) -> NoDup (flat pcand (rk b)))).
Proof.
  intros intervals zero own opp c t v orders b calls Hnd Hin H.
  destruct (slate_bt_type_counts intervals own opp c t v Hnd Hin) as (T1 & T2 & T3).
  destruct (slate_ballot_wf intervals zero t orders b calls Hnd T1 T2 H)
    as (r & W1 & W2 & W3 & W4 & W5 & W6 & W7 & W8).
  exists r. split; [exact W1|]. split; [exact W2|]. split; [exact W3|]. split; [exact W4|].
  split; [rewrite W5; exact T3|]. split; [exact W6|]. split; [exact W7|]. split; [exact W8|].
  intros Hdis.
  assert (HP : Permutation r (concat (map (fun x : bloc * pinterval => map fst (pi_int (snd x))) intervals))).
  { eapply Permutation_trans; [exact W7|]. apply concat_map_perm. intros [bl iv] Hbi. cbn [fst snd].
    destruct (W6 bl iv Hbi) as (_ & _ & _ & _ & Hp). apply Hp.
    apply (NoDup_concat_each _ _ _ Hdis). apply in_map_iff. exists (bl, iv). split; [reflexivity|exact Hbi]. }
  split; [exact HP|]. intros Hz Hrz. rewrite W4.
  apply Lib_sets.NoDup_app_intro; [|exact Hz|exact Hrz].
  apply (Permutation_NoDup (Permutation_sym HP) Hdis).
Qed.

(* ------------------------------------------------------------------ *)
(** * 5. Plackett-Luce ballots from intervals as the library builds them *)

(* PreferenceInterval(d): supported and zero-support candidates are disjoint *)
Theorem pl_ballot_mk_interval : forall d iv bl draw b calls,
  (forall c s, In (c, s) d -> 0 <= s) -> NoDup (map fst d) ->
  mk_interval d = inl iv ->
  pl_ballot iv bl draw = inl (b, calls) ->
  NoDup (pi_cands iv) /\ Permutation (pi_cands iv) (map fst d) /\
  NoDup (flat pcand (rk b)) /\ length (flat pcand (rk b)) = bl /\
  incl (flat pcand (rk b)) (map fst d).
Proof.
  intros d iv bl draw b calls Hnn Hnd Hi H.
  destruct (interval_normalised d iv Hnn Hi) as (_ & _ & _ & Z & K & _ & _ & _ & _ & Hdis).
  destruct (Hdis Hnd) as (D1 & D2 & D3).
  assert (Hndc : NoDup (pi_cands iv)).
  { unfold pi_cands. apply Lib_sets.NoDup_app_intro; assumption. }
  assert (Hsame : forall c, In c (pi_cands iv) <-> In c (map fst d)).
  { intros c. unfold pi_cands. rewrite in_app_iff, K, Z. split.
    - intros [(s & Hs & _)|(s & Hs & _)]; apply in_map_iff; exists (c, s); split; try reflexivity; exact Hs.
    - intros Hc. apply in_map_iff in Hc. destruct Hc as ([c' s] & <- & Hs). cbn [fst].
      pose proof (Hnn c' s Hs) as H0. destruct (Qlt_le_dec 0 s) as [Hpos|Hle].
      + left. exists s. split; assumption.
      + right. exists s. split; [exact Hs|]. lra. }
  destruct (pl_ballot_wf iv bl draw b calls H) as (_ & _ & _ & _ & L & I & N).
  split; [exact Hndc|]. split; [apply NoDup_Permutation; assumption|].
  split; [apply N; exact D3|]. split; [exact L|].
  intros c Hc. apply Hsame. apply I. exact Hc.
Qed.

(* combine_preference_intervals: the same for the combined interval *)
Lemma concat_unique : forall (A : Type) (L : list (list A)) j1 j2 l1 l2 c,
  NoDup (concat L) -> nth_error L j1 = Some l1 -> nth_error L j2 = Some l2 ->
  In c l1 -> In c l2 -> j1 = j2.
Proof.
  intros A L. induction L as [|l0 L IH]; intros j1 j2 l1 l2 c Hnd H1 H2 Hc1 Hc2.
  - destruct j1; discriminate.
  - cbn [concat] in Hnd. apply Lib_sets.NoDup_app_inv in Hnd. destruct Hnd as (_ & Hnd' & Hdis).
    destruct j1 as [|j1], j2 as [|j2]; cbn [nth_error] in H1, H2.
    + reflexivity.
    + injection H1 as <-. exfalso. apply (Hdis c Hc1). apply in_concat. exists l2.
      split; [apply (nth_error_In _ _ H2)|exact Hc2].
    + injection H2 as <-. exfalso. apply (Hdis c Hc2). apply in_concat. exists l1.
      split; [apply (nth_error_In _ _ H1)|exact Hc1].
    + f_equal. apply (IH j1 j2 l1 l2 c Hnd' H1 H2 Hc1 Hc2).
Qed.

Lemma in_combine_nth : forall (A B : Type) (a : list A) (b : list B) x y,
  In (x, y) (combine a b) -> exists j, nth_error a j = Some x /\ nth_error b j = Some y.
Proof.
  intros A B a. induction a as [|z a IH]; intros [|w b] x y H; cbn [combine] in H; try (destruct H; fail).
  destruct H as [E|H].
  - injection E as <- <-. exists O. split; reflexivity.
  - destruct (IH b x y H) as (j & J1 & J2). exists (S j). split; assumption.
Qed.

Theorem combine_cands : forall (is : list pinterval) (props : list Q) r,
  Forall wf_interval is -> length is = length props -> Forall (fun p => 0 <= p) props ->
  NoDup (concat (map pi_cands is)) -> rounds_to_one (qsum props) = true ->
  combine_intervals is props = inl r ->
  (forall c, In c (map fst (pi_int r)) -> ~ In c (pi_zero r)) /\
  NoDup (pi_cands r) /\
  Permutation (pi_cands r) (concat (map pi_cands is)).
Proof.
  intros is props r Hwf Hlen Hnn Hnd Hr Hc.
  destruct (combine_ok is props Hwf Hlen Hnn Hnd Hr) as (r' & Hc' & C1 & C2 & C3 & C4 & C5 & _ & C7 & C8).
  rewrite Hc in Hc'. injection Hc' as <-.
  assert (Hpos : forall i p, In (i, p) (combine is props) ->
            exists j, nth_error is j = Some i /\ nth_error props j = Some p).
  { intros i p Hin. apply (in_combine_nth _ _ _ _ _ _ Hin). }
  assert (Hndi : forall i, In i is -> NoDup (pi_cands i)).
  { intros i Hi. apply (NoDup_concat_each _ _ _ Hnd). apply in_map. exact Hi. }
  assert (Hdis : forall c, In c (map fst (pi_int r)) -> ~ In c (pi_zero r)).
  { intros c Hk Hz. apply in_map_iff in Hk. destruct Hk as ([c' w] & <- & Hw). cbn [fst] in Hz.
    destruct (C2 c' w Hw) as (i & p & v & Hip & Hv & Hp & _).
    destruct (Hpos i p Hip) as (j & J1 & J2).
    assert (Hki : In c' (map fst (pi_int i))).
    { apply in_map_iff. exists (c', v). split; [reflexivity|exact Hv]. }
    assert (Hci : In c' (pi_cands i)) by (unfold pi_cands; apply in_or_app; left; exact Hki).
    destruct (C5 c' Hz) as [(i' & Hi' & Hz')|(i' & p' & v' & Hip' & Hv' & Hp')].
    - destruct (In_nth_error _ _ Hi') as (j' & J').
      assert (Hci' : In c' (pi_cands i')) by (unfold pi_cands; apply in_or_app; right; exact Hz').
      pose proof (concat_unique _ _ j j' _ _ c' Hnd (map_nth_error pi_cands _ _ J1)
                    (map_nth_error pi_cands _ _ J') Hci Hci') as E.
      subst j'. rewrite J1 in J'. injection J' as <-.
      pose proof (Hndi i Hi') as Hn. unfold pi_cands in Hn. apply Lib_sets.NoDup_app_inv in Hn.
      destruct Hn as (_ & _ & Hd). apply (Hd c' Hki Hz').
    - destruct (Hpos i' p' Hip') as (j' & J1' & J2').
      assert (Hci' : In c' (pi_cands i')).
      { unfold pi_cands. apply in_or_app. left. apply in_map_iff. exists (c', v'). split; [reflexivity|exact Hv']. }
      pose proof (concat_unique _ _ j j' _ _ c' Hnd (map_nth_error pi_cands _ _ J1)
                    (map_nth_error pi_cands _ _ J1') Hci Hci') as E. subst j'.
      rewrite J2 in J2'. injection J2' as <-. rewrite Hp' in Hp. apply (Qlt_irrefl 0). exact Hp. }
  assert (Hndr : NoDup (pi_cands r)).
  { unfold pi_cands. apply Lib_sets.NoDup_app_intro; assumption. }
  split; [exact Hdis|]. split; [exact Hndr|].
  apply NoDup_Permutation; [exact Hndr|exact Hnd|].
  intros c. split.
  - intros Hc0. unfold pi_cands in Hc0. apply in_app_or in Hc0. destruct Hc0 as [Hk|Hz].
    + apply in_map_iff in Hk. destruct Hk as ([c' w] & <- & Hw). cbn [fst].
      destruct (C2 c' w Hw) as (i & p & v & Hip & Hv & _).
      apply in_concat. exists (pi_cands i). split; [apply in_map; apply (in_combine_l _ _ _ _ Hip)|].
      unfold pi_cands. apply in_or_app. left. apply in_map_iff. exists (c', v). split; [reflexivity|exact Hv].
    + destruct (C5 c Hz) as [(i' & Hi' & Hz')|(i' & p' & v' & Hip' & Hv' & _)].
      * apply in_concat. exists (pi_cands i'). split; [apply in_map; exact Hi'|].
        unfold pi_cands. apply in_or_app. right. exact Hz'.
      * apply in_concat. exists (pi_cands i'). split; [apply in_map; apply (in_combine_l _ _ _ _ Hip')|].
        unfold pi_cands. apply in_or_app. left. apply in_map_iff. exists (c, v'). split; [reflexivity|exact Hv'].
  - intros Hc0. apply in_concat in Hc0. destruct Hc0 as (l & Hl & Hcl).
    apply in_map_iff in Hl. destruct Hl as (i & <- & Hi). unfold pi_cands in Hcl |- *.
    apply in_app_or in Hcl. apply in_or_app. destruct Hcl as [Hk|Hz].
    + apply in_map_iff in Hk. destruct Hk as ([c' v] & <- & Hv). cbn [fst].
      destruct (in_combine_ex _ _ is props i Hlen Hi) as (p & Hip).
      assert (H0 : 0 <= p).
      { rewrite Forall_forall in Hnn. apply Hnn. apply (in_combine_r _ _ _ _ Hip). }
      destruct (Qlt_le_dec 0 p) as [Hp|Hp].
      * left. destruct (C1 i p c' v Hip Hv Hp) as (w & Hw & _).
        apply in_map_iff. exists (c', w). split; [reflexivity|exact Hw].
      * right. apply (C3 i p c' v Hip Hv). lra.
    + right. apply (C4 i c Hi Hz).
Qed.

(* name_PlackettLuce: the ballot drawn from the combined interval is a complete ranking of all the
   candidates of the combined intervals, zero-support candidates only as the final tied group *)
Theorem name_pl_combined_complete : forall (is : list pinterval) (props : list Q) r d b calls,
  Forall wf_interval is -> length is = length props -> Forall (fun p => 0 <= p) props ->
  NoDup (concat (map pi_cands is)) -> rounds_to_one (qsum props) = true ->
  combine_intervals is props = inl r ->
  pl_ballot r (length (pi_cands r)) d = inl (b, calls) ->
  NoDup (flat pcand (rk b)) /\
  Permutation (flat pcand (rk b)) (concat (map pi_cands is)) /\
  exists order tail,
    rk b = singletons pcand order ++ (match tail with [] => [] | _ => [tail] end) /\
    Permutation order (map fst (pi_int r)) /\ Permutation tail (pi_zero r).
Proof.
  intros is props r d b calls Hwf Hlen Hnn Hnd Hr Hc H.
  destruct (combine_cands is props r Hwf Hlen Hnn Hnd Hr Hc) as (_ & Hndr & HP).
  destruct (pl_complete r d b calls Hndr H) as (order & tail & E & P1 & P2 & P3).
  split; [apply (Permutation_NoDup (Permutation_sym P3) Hndr)|].
  split; [apply (Permutation_trans P3 HP)|].
  exists order, tail. split; [exact E|]. split; assumption.
Qed.
