(* Proofs/C14_gen2.v — property C14 for the generators of Model/Generators2.v and the table
   samplers of Model/Generators.v: BallotSimplex from a point and from a Dirichlet-drawn table
   (ImpartialCulture / ImpartialAnonymousCulture), CambridgeSampler, and the exact
   slate-Bradley-Terry path.  Statements are collected in Properties/C14_gen2.v. *)
From VK Require Import Base Core GenValidation PrefInterval Generators Generators2.
From VK.Spec Require Import Content GenSpec Gen2Spec BTSpec ApportionSpec.
From VK.Proofs Require Import Lib_rk Lib_sets C11_profile C12_expand C15_interval C15_bt C15_slate
  C14_wf C14_kernels C14_types C14_sizes.
From Coq Require Import Permutation Lia Lqa Setoid Morphisms.

Local Notation twt := (total_wt pcand).

(* ------------------------------------------------------------------ *)
(** * 1. Tables over all complete rankings *)

Lemma rankings_nodup_iff : forall l, rankings_nodup l = true <-> NoDup l.
Proof.
  induction l as [|r l IH]; cbn [rankings_nodup].
  - split; [constructor|reflexivity].
  - rewrite andb_true_iff, negb_true_iff, IH. split.
    + intros [H1 H2]. constructor; [|exact H2]. intros Hin.
      assert (He : existsb (list_peqb r) l = true).
      { apply existsb_exists. exists r. split; [exact Hin|apply list_peqb_refl]. }
      congruence.
    + intros H. inversion H as [|x l' Hn Hnd]; subst. split; [|exact Hnd].
      apply not_true_is_false. intros He. apply existsb_exists in He. destruct He as (r' & Hin & E).
      apply list_peqb_true_iff in E. subst r'. contradiction.
Qed.

(* a complete ranking = a duplicate-free list with exactly the declared candidates *)
Lemma perm_complete : forall r cands : list pcand, NoDup cands ->
  (Permutation r cands <-> NoDup r /\ incl r cands /\ length r = length cands).
Proof.
  intros r cands Hnd. split.
  - intros H. split; [|split].
    + apply (Permutation_NoDup (Permutation_sym H) Hnd).
    + intros c Hc. apply (Permutation_in _ H Hc).
    + apply Permutation_length. exact H.
  - intros (H1 & H2 & H3). apply NoDup_incl_length_perm; assumption.
Qed.

(* [full_table]: every permutation of the candidates exactly once *)
Theorem full_table_spec : forall cands tbl, NoDup cands -> full_table cands tbl = true ->
  length tbl = fact (length cands) /\ NoDup (map fst tbl) /\
  (forall r, In r (map fst tbl) <-> Permutation r cands) /\
  Permutation (map fst tbl) (perms pcand cands).
Proof.
  intros cands tbl Hnd H. unfold full_table in H.
  apply andb_true_iff in H. destruct H as [H H3]. apply andb_true_iff in H. destruct H as [H1 H2].
  apply Nat.eqb_eq in H1. apply rankings_nodup_iff in H3. rewrite forallb_forall in H2.
  assert (Hrows : forall r, In r (map fst tbl) -> Permutation r cands).
  { intros r Hr. apply in_map_iff in Hr. destruct Hr as (e & <- & He). specialize (H2 e He).
    apply valid_sample_iff in H2. destruct H2 as (L & N & I). apply perm_complete; [exact Hnd|].
    split; [exact N|]. split; [exact I|exact L]. }
  assert (Hincl : incl (map fst tbl) (perms pcand cands)).
  { intros r Hr. apply (perms_spec pcand). apply Hrows. exact Hr. }
  assert (HP : Permutation (map fst tbl) (perms pcand cands)).
  { apply NoDup_Permutation_bis; [exact H3| |exact Hincl].
    rewrite map_length, H1, (perms_length pcand). lia. }
  split; [exact H1|]. split; [exact H3|]. split; [|exact HP].
  intros r. split; [apply Hrows|]. intros Hr. apply (Permutation_in _ (Permutation_sym HP)).
  apply (perms_spec pcand). exact Hr.
Qed.

(* point_table: the rows are literally [perms cands] *)
Lemma point_table_keys : forall cands point, map fst (point_table cands point) = perms pcand cands.
Proof.
  intros cands point. unfold point_table. rewrite !map_map. cbn [fst]. apply map_id.
Qed.

Theorem point_table_rows : forall cands point,
  map fst (point_table cands point) = perms pcand cands /\
  length (point_table cands point) = fact (length cands) /\
  (forall r, In r (map fst (point_table cands point)) <-> Permutation r cands) /\
  (NoDup cands -> NoDup (map fst (point_table cands point)) /\
                  forall r, In r (map fst (point_table cands point)) -> NoDup r).
Proof.
  intros cands point. pose proof (point_table_keys cands point) as K.
  split; [exact K|]. split.
  { rewrite <- (map_length fst), K. apply (perms_length pcand). }
  split.
  { intros r. rewrite K. apply (perms_spec pcand). }
  intros Hnd. rewrite K. split; [apply (perms_NoDup pcand); exact Hnd|].
  intros r Hr. apply (perms_spec pcand) in Hr. apply (Permutation_NoDup (Permutation_sym Hr) Hnd).
Qed.

(* the product of the point values along a complete ranking does not depend on the ranking *)
Lemma fold_mul_acc : forall (point : list (pcand * Q)) r acc,
  fold_left (fun a c => a * lookupP point c) r acc == acc * fold_left (fun a c => a * lookupP point c) r 1.
Proof.
  intros point. induction r as [|c r IH]; intros acc; cbn [fold_left].
  - ring.
  - rewrite (IH (acc * lookupP point c)), (IH (1 * lookupP point c)). ring.
Qed.

Lemma fold_mul_perm : forall (point : list (pcand * Q)) r r', Permutation r r' ->
  fold_left (fun a c => a * lookupP point c) r 1 == fold_left (fun a c => a * lookupP point c) r' 1.
Proof.
  intros point r r' H. induction H as [|x l l' _ IH|x y l|l l' l'' _ IH1 _ IH2].
  - reflexivity.
  - cbn [fold_left]. rewrite (fold_mul_acc point l), (fold_mul_acc point l'), IH. reflexivity.
  - cbn [fold_left]. rewrite (fold_mul_acc point l (1 * lookupP point y * lookupP point x)),
      (fold_mul_acc point l (1 * lookupP point x * lookupP point y)). ring.
  - rewrite IH1. exact IH2.
Qed.

(* hence the table "from a point" is the uniform table, whatever the point (as coded) *)
Theorem point_table_uniform : forall cands point r v,
  ~ fold_left (fun a c => a * lookupP point c) cands 1 == 0 ->
  In (r, v) (point_table cands point) ->
  Permutation r cands /\ v == 1 / Qnat (fact (length cands)).
Proof.
  intros cands point r v Hnz Hin.
  set (P := fold_left (fun a c => a * lookupP point c) cands 1) in *.
  unfold point_table in Hin. apply in_map_iff in Hin. destruct Hin as ([r' w] & E & Hin).
  pose proof (f_equal fst E) as E1. pose proof (f_equal snd E) as E2. cbn [fst snd] in E1, E2.
  clear E. subst r' v.
  apply in_map_iff in Hin. destruct Hin as (r'' & E & Hr).
  pose proof (f_equal fst E) as E1. pose proof (f_equal snd E) as E2. cbn [fst snd] in E1, E2.
  clear E. subst r'' w.
  apply (perms_spec pcand) in Hr. split; [exact Hr|]. etransitivity; [apply Qred_correct|].
  assert (Hs : qsum (map snd (map (fun r0 : list pcand =>
                 (r0, fold_left (fun a c => a * lookupP point c) r0 1)) (perms pcand cands)))
               == Qnat (fact (length cands)) * P).
  { rewrite map_map. cbn [snd].
    rewrite (qsum_map_ext_in _ (fun _ => P)).
    - rewrite qsum_map_const, (perms_length pcand). reflexivity.
    - intros r0 Hr0. apply (perms_spec pcand) in Hr0. apply fold_mul_perm. exact Hr0. }
  rewrite Hs, (fold_mul_perm point r cands Hr). fold P.
  assert (Hf : ~ Qnat (fact (length cands)) == 0).
  { apply Qnat_neq0. apply fact_pos. }
  field. split; assumption.
Qed.

(* ---------- a table sampler over complete rankings followed by ballot_pool_to_profile ---------- *)
Theorem table_profile_wf : forall tbl cands n draws bs calls p,
  (forall r v, In (r, v) tbl -> Permutation r cands) ->
  table_bloc tbl [] n draws = inl (bs, calls) ->
  pool_to_profile draws cands = inl p ->
  calls = [GTable tbl n] /\ length draws = n /\ NoDup cands /\
  (forall r, In r draws -> exists v, In (r, v) tbl /\ 0 < v) /\
  (cands <> [] -> Core.cands p = cands) /\
  total_wt pcand (ballots p) == Qnat n /\
  whole_pos_weights (ballots p) /\
  NoDup (map rk (ballots p)) /\
  (forall b, In b (ballots p) ->
     sc b = [] /\
     exists r, In r draws /\ rk b = singletons pcand r /\ flat pcand (rk b) = r /\
               Permutation r cands /\ NoDup r /\
               wt b = Qnat (pool_count draws r) /\ (0 < pool_count draws r)%nat) /\
  (forall r, In r draws -> exists b, In b (ballots p) /\ rk b = singletons pcand r).
Proof.
  intros tbl cands n draws bs calls p Hrows Ht Hp.
  apply table_bloc_ok in Ht. destruct Ht as (Hl & _ & Hc & _ & Hd).
  apply pool_to_profile_ok in Hp. destruct Hp as (Hnd & Hcs & Hb & Hcov & Hrk & Htot & Hw).
  split; [exact Hc|]. split; [exact Hl|]. split; [exact Hnd|]. split; [exact Hd|].
  split; [exact Hcs|]. split; [rewrite Htot, Hl; reflexivity|]. split; [exact Hw|].
  split; [exact Hrk|]. split; [|exact Hcov].
  intros b Hin. destruct (Hb b Hin) as (r & Hr & E1 & E2 & E3 & E4).
  split; [exact E2|]. exists r. split; [exact Hr|]. split; [exact E1|].
  split; [rewrite E1; apply (Lib_sets.flat_singletons pcand)|].
  destruct (Hd r Hr) as (v & Hv & _). pose proof (Hrows r v Hv) as HP.
  split; [exact HP|]. split; [apply (Permutation_NoDup (Permutation_sym HP) Hnd)|].
  split; assumption.
Qed.

(* BallotSimplex.from_point *)
Theorem from_point_wf : forall cands point n draws bs calls p,
  table_bloc (point_table cands point) [] n draws = inl (bs, calls) ->
  pool_to_profile draws cands = inl p ->
  calls = [GTable (point_table cands point) n] /\ length draws = n /\ NoDup cands /\
  (forall r, In r draws -> exists v, In (r, v) (point_table cands point) /\ 0 < v) /\
  (cands <> [] -> Core.cands p = cands) /\
  total_wt pcand (ballots p) == Qnat n /\
  whole_pos_weights (ballots p) /\
  NoDup (map rk (ballots p)) /\
  (forall b, In b (ballots p) ->
     sc b = [] /\
     exists r, In r draws /\ rk b = singletons pcand r /\ flat pcand (rk b) = r /\
               Permutation r cands /\ NoDup r /\
               wt b = Qnat (pool_count draws r) /\ (0 < pool_count draws r)%nat) /\
  (forall r, In r draws -> exists b, In b (ballots p) /\ rk b = singletons pcand r).
Proof.
  intros cands point n draws bs calls p Ht Hp.
  apply (table_profile_wf _ cands n draws bs calls p); [|exact Ht|exact Hp].
  intros r v Hin. apply (proj1 (proj2 (proj2 (point_table_rows cands point)))).
  apply in_map_iff. exists (r, v). split; [reflexivity|exact Hin].
Qed.

(* BallotSimplex(alpha): ImpartialCulture / ImpartialAnonymousCulture *)
Lemma alpha_profile_inv : forall cands tbl n draws p calls,
  alpha_profile cands tbl n draws = inl (p, calls) ->
  NoDup cands /\ full_table cands tbl = true /\
  exists bs, table_bloc tbl [] n draws = inl (bs, calls) /\ pool_to_profile draws cands = inl p.
Proof.
  intros cands tbl n draws p calls H. unfold alpha_profile in H.
  destruct (pnodup cands) eqn:E1; cbn [negb] in H; [|discriminate].
  destruct (full_table cands tbl) eqn:E2; cbn [negb] in H; [|discriminate].
  destruct (table_bloc tbl [] n draws) as [[bs cs]|e] eqn:E3; cbn [rbind] in H; [|discriminate].
  destruct (pool_to_profile draws cands) as [q|e] eqn:E4; cbn [rbind] in H; [|discriminate].
  unfold ok in H. cbn [snd] in H. injection H as <- <-.
  split; [apply pnodup_NoDup; exact E1|]. split; [reflexivity|].
  exists bs. split; reflexivity.
Qed.

Theorem alpha_profile_wf : forall cands tbl n draws p calls,
  alpha_profile cands tbl n draws = inl (p, calls) ->
  calls = [GTable tbl n] /\ length draws = n /\ NoDup cands /\
  (length tbl = fact (length cands) /\ NoDup (map fst tbl) /\
   forall r, In r (map fst tbl) <-> Permutation r cands) /\
  (forall r, In r draws -> exists v, In (r, v) tbl /\ 0 < v) /\
  (cands <> [] -> Core.cands p = cands) /\
  total_wt pcand (ballots p) == Qnat n /\
  whole_pos_weights (ballots p) /\
  NoDup (map rk (ballots p)) /\
  (forall b, In b (ballots p) ->
     sc b = [] /\
     exists r, In r draws /\ rk b = singletons pcand r /\ flat pcand (rk b) = r /\
               Permutation r cands /\ NoDup r /\
               wt b = Qnat (pool_count draws r) /\ (0 < pool_count draws r)%nat) /\
  (forall r, In r draws -> exists b, In b (ballots p) /\ rk b = singletons pcand r).
Proof.
  intros cands tbl n draws p calls H. apply alpha_profile_inv in H.
  destruct H as (Hnd & Hf & bs & Ht & Hp).
  destruct (full_table_spec cands tbl Hnd Hf) as (F1 & F2 & F3 & _).
  assert (Hrows : forall r v, In (r, v) tbl -> Permutation r cands).
  { intros r v Hin. apply F3. apply in_map_iff. exists (r, v). split; [reflexivity|exact Hin]. }
  destruct (table_profile_wf tbl cands n draws bs calls p Hrows Ht Hp)
    as (C1 & C2 & C3 & C4 & C5 & C6 & C7 & C8 & C9 & C10).
  split; [exact C1|]. split; [exact C2|]. split; [exact C3|].
  split; [split; [exact F1|split; [exact F2|exact F3]]|].
  split; [exact C4|]. split; [exact C5|]. split; [exact C6|]. split; [exact C7|].
  split; [exact C8|]. split; [exact C9|exact C10].
Qed.

(* the only failure is a recorded result the primitive could not have returned *)
Theorem alpha_profile_errors : forall cands tbl n draws e,
  alpha_profile cands tbl n draws = inr e -> e = EScript.
Proof.
  intros cands tbl n draws e H. unfold alpha_profile in H.
  destruct (pnodup cands) eqn:E1; cbn [negb] in H; [|injection H as <-; reflexivity].
  destruct (full_table cands tbl) eqn:E2; cbn [negb] in H; [|injection H as <-; reflexivity].
  unfold table_bloc in H.
  destruct (Nat.eqb (length draws) n); cbn [negb] in H; [|injection H as <-; reflexivity].
  match type of H with context [if negb ?c then _ else _] => destruct c end; cbn [negb] in H;
    [|injection H as <-; reflexivity].
  unfold ok in H. cbn [rbind] in H.
  destruct (pool_to_profile_errors draws cands) as (_ & _ & H3).
  destruct (H3 (proj1 (pnodup_NoDup cands) E1)) as [q Hq]. rewrite Hq in H. cbn [rbind] in H.
  discriminate.
Qed.

(* and it succeeds on every possible result *)
Theorem alpha_profile_succeeds : forall cands tbl n draws,
  NoDup cands -> full_table cands tbl = true -> length draws = n ->
  (forall r, In r draws -> exists v, In (r, v) tbl /\ 0 < v) ->
  exists p, alpha_profile cands tbl n draws = inl (p, [GTable tbl n]).
Proof.
  intros cands tbl n draws Hnd Hf Hl Hd. unfold alpha_profile.
  rewrite (proj2 (pnodup_NoDup cands) Hnd), Hf. cbn [negb]. unfold table_bloc.
  rewrite (proj2 (Nat.eqb_eq _ _) Hl). cbn [negb].
  assert (E : forallb (fun r => existsb (fun e : list pcand * Q => list_peqb (fst e) r && Qlt_bool 0 (snd e)) tbl)
                draws = true).
  { apply forallb_forall. intros r Hr. destruct (Hd r Hr) as (v & Hv & Hpos).
    apply existsb_exists. exists (r, v). split; [exact Hv|]. cbn [fst snd].
    rewrite list_peqb_refl. apply Lib_rk.Qlt_bool_iff. exact Hpos. }
  rewrite E. cbn [negb]. unfold ok. cbn [rbind].
  destruct (pool_to_profile_errors draws cands) as (_ & _ & H3).
  destruct (H3 Hnd) as [q Hq]. rewrite Hq. cbn [rbind snd]. exists q. reflexivity.
Qed.
