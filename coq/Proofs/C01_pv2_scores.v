(* Proofs/C01_pv2_scores.v — first-place tallies of unit-weight ballots, and the ballots of a
   PluralityVeto run under remove_cand (Model/PV.v). *)
From VK Require Import Base Core STV Rules PV.
From VK.Spec Require Import ScoreSpec STVSpec RunSpec.
From VK.Proofs Require Import Lib_sets C04_scoring Elect C12_edit C20_validation STV_tb STV_inv C08_anon
  C01_lib C01_pv C01_pv2_lib C01_pv2_veto.
From Coq Require Import Permutation Lia Lqa.

Section Scores.
Variable cand : Type.
Variable ceqb : cand -> cand -> bool.
Hypothesis ceqb_spec : forall a b, reflect (a = b) (ceqb a b).

Notation cset := (cset cand).
Notation ranking := (ranking cand).
Notation ballot := (ballot cand).
Notation profile := (profile cand).
Notation scores := (scores cand).
Notation flat := (flat cand).
Notation wf_ranking := (wf_ranking cand).
Notation wf_profile := (wf_profile cand).
Notation first_place_votes := (first_place_votes cand ceqb).
Notation score_rankings := (score_rankings cand ceqb).
Notation memb := (memb cand ceqb).
Notation strip := (strip cand ceqb).
Notation scrub := (scrub cand ceqb).
Notation set_diff := (set_diff cand ceqb).
Notation dedup := (dedup cand ceqb).
Notation cast_cands := (cast_cands cand ceqb).
Notation has_ranking := (has_ranking cand).
Notation pv_scores := (pv_scores cand ceqb).

(* ------------------------------------------------------------------ *)
(** * ballots of the run *)

(* a live ballot: a ranking over [S], unit weight, no scores *)
Definition live (S : cset) (b : ballot) : Prop := wf_ranking S (rk b) /\ wt b = 1 /\ sc b = [].
(* exhausted ballots are kept as weightless placeholders *)
Definition okb (S : cset) (b : ballot) : Prop := (rk b = [] /\ wt b = 0) \/ live S b.

Definition nlive (bs : list ballot) : nat := length (filter has_ranking bs).

Lemma okb_okr : forall S b, okb S b -> okr cand S b.
Proof. intros S b [[H _]|[H _]]; [left; exact H|right; exact H]. Qed.

Lemma okb_live : forall S b, okb S b -> rk b <> [] -> live S b.
Proof. intros S b [[H _]|H] Hne; [contradiction|exact H]. Qed.

Lemma wf_ranking_incl : forall (S S' : cset) r, wf_ranking S r -> incl (flat r) S' -> wf_ranking S' r.
Proof. intros S S' r [H1 [H2 [H3 _]]] H. repeat split; assumption. Qed.

Lemma live_incl : forall (S S' : cset) b, live S b -> incl (flat (rk b)) S' -> live S' b.
Proof. intros S S' b [H1 H2] H. split; [eapply wf_ranking_incl; eassumption|exact H2]. Qed.

Lemma wf_ranking_has_cand : forall S r, wf_ranking S r -> exists c, In c (hd [] r).
Proof.
  intros S r [Hne [Hg _]]. destruct r as [|g r]; [contradiction|]. inversion Hg as [|x l Hgne _]; subst.
  destruct g as [|c g]; [contradiction|]. exists c. left. reflexivity.
Qed.

Lemma hd_in_flat : forall (r : ranking) c, In c (hd [] r) -> In c (flat r).
Proof.
  intros [|g r] c H; [destruct H|]. cbn [hd] in H. rewrite (flat_cons cand). apply in_or_app. left. exact H.
Qed.

(* scrubbing a ballot of the run *)
Lemma scrub_okb : forall (S S' removed : cset) b,
  okb S b -> (forall c, In c S -> ~ In c removed -> In c S') -> okb S' (scrub removed b).
Proof.
  intros S S' removed b Hb HS'. destruct Hb as [[Hrk Hwt]|[[Hne [Hg [Hnd Hincl]]] [Hwt Hsc]]].
  - left. unfold Core.scrub. rewrite Hrk. cbn [Core.strip map filter].
    destruct (strip_scores cand ceqb removed (sc b)); cbn [rk wt]; split; try reflexivity; exact Hwt.
  - unfold Core.scrub. rewrite Hsc. cbn [strip_scores filter].
    destruct (strip removed (rk b)) as [|g r] eqn:E.
    + left. split; reflexivity.
    + right. split; [|split; [exact Hwt|reflexivity]]. cbn [rk]. rewrite <- E.
      split; [rewrite E; discriminate|]. split; [apply (strip_no_empty cand ceqb)|]. split.
      * rewrite (strip_flat cand ceqb). apply NoDup_filter. exact Hnd.
      * intros c Hc. apply (strip_keeps cand ceqb ceqb_spec) in Hc. destruct Hc as [Hc Hn].
        apply HS'; [apply Hincl; exact Hc|exact Hn].
Qed.

Lemma strip_hd : forall removed (r : ranking) c,
  In c (hd [] r) -> ~ In c removed -> In c (hd [] (strip removed r)).
Proof.
  intros removed [|g r] c Hc Hn; [destruct Hc|]. cbn [hd] in Hc. unfold Core.strip. cbn [map filter].
  assert (Hin : In c (filter (fun c0 => negb (memb c0 removed)) g)).
  { apply filter_In. split; [exact Hc|]. apply negb_true_iff. apply (memb_false_iff cand ceqb ceqb_spec). exact Hn. }
  destruct (filter (fun c0 => negb (memb c0 removed)) g) as [|x l] eqn:E; [destruct Hin|].
  cbn [nonempty hd]. exact Hin.
Qed.

Lemma filter_len_le : forall {A} (f : A -> bool) (l : list A), (length (filter f l) <= length l)%nat.
Proof. intros A f l. induction l as [|a l IH]; cbn [filter length]; [lia|]. destruct (f a); cbn [length]; lia. Qed.

Lemma scrub_has_tie : forall removed b, has_tie cand b = false -> has_tie cand (scrub removed b) = false.
Proof.
  intros removed b H. unfold has_tie in *. rewrite (scrub_rk cand ceqb).
  apply not_true_iff_false. intros Hex. apply existsb_exists in Hex. destruct Hex as [g' [Hg' Hl]].
  apply (strip_groups cand ceqb) in Hg'. destruct Hg' as [_ [g [Hg ->]]].
  apply not_true_iff_false in H. apply H. apply existsb_exists. exists g. split; [exact Hg|].
  apply Nat.ltb_lt in Hl. apply Nat.ltb_lt.
  pose proof (filter_len_le (fun c => negb (memb c removed)) g). lia.
Qed.

(* ------------------------------------------------------------------ *)
(** * first-place tallies of unit ballots *)

Lemma total_wt_unit : forall bs : list ballot, (forall b, In b bs -> wt b = 1) ->
  total_wt cand bs == Qnat (length bs).
Proof.
  intros bs H. unfold Core.total_wt. induction bs as [|b bs IH]; cbn [map length].
  - rewrite Lib_sets.qsum_nil, Qnat_0. reflexivity.
  - rewrite Lib_sets.qsum_cons, Qnat_S, (H b (or_introl eq_refl)), IH by (intros b' Hb'; apply H; right; exact Hb').
    ring.
Qed.

Lemma fpv_entries_sum : forall n, qsum (map (entry (fpv_vector (S n))) (seq 0 (S n))) == 1.
Proof.
  intros n. cbn [seq map]. rewrite Lib_sets.qsum_cons, fpv_entry_0, qsum_map_zero; [ring|].
  intros j Hj. apply in_seq in Hj. apply fpv_entry_later. lia.
Qed.

Lemma fpv_unit_facts : forall (q : profile) (d : scores),
  wf_profile q -> (forall b, In b (ballots q) -> wt b = 1) ->
  first_place_votes q = inl d ->
  map fst d = cands q /\
  Forall (fun x => 0 <= snd x) d /\
  qsum (map snd d) == Qnat (length (ballots q)) /\
  (forall c x, In (c, x) d -> 0 < x -> exists b, In b (ballots q) /\ In c (hd [] (rk b))).
Proof.
  intros q d Hwf Hunit H.
  assert (Hkeys : map fst d = cands q) by (unfold Core.first_place_votes in H; exact (score_rankings_keys cand ceqb _ _ _ H)).
  pose proof (first_place_votes_special cand ceqb ceqb_spec q d Hwf H) as Hspec.
  split; [exact Hkeys|]. split; [|split].
  - apply Forall_forall. intros [c x] Hx. cbn [snd]. rewrite (Hspec c x Hx).
    apply qsum_nonneg. apply Forall_forall. intros y Hy. apply in_map_iff in Hy.
    destruct Hy as [b [<- Hb]]. destruct (memb c (hd [] (rk b))); [|apply Qle_refl].
    rewrite (Hunit b Hb). unfold Qdiv. rewrite Qmult_1_l. apply Qinv_le_0_compat. apply Qnat_nonneg.
  - unfold Core.first_place_votes in H.
    rewrite (score_rankings_total cand ceqb ceqb_spec q _ Hwf d H), (total_wt_unit _ Hunit).
    destruct (cands q) as [|c0 cs0] eqn:Ecs.
    + (* no candidates: no ballots *)
      destruct (ballots q) as [|b bs] eqn:Ebs; [cbn [length]; rewrite Qnat_0; ring|].
      exfalso. destruct Hwf as [_ Hbs]. rewrite Forall_forall in Hbs.
      assert (Hb : In b (ballots q)) by (rewrite Ebs; left; reflexivity).
      destruct (wf_ranking_has_cand _ _ (Hbs b Hb)) as [c Hc].
      destruct (Hbs b Hb) as [_ [_ [_ Hincl]]]. rewrite Ecs in Hincl.
      exact (Hincl c (hd_in_flat _ _ Hc)).
    + cbn [length]. rewrite fpv_entries_sum. ring.
  - intros c x Hx Hpos. rewrite (Hspec c x Hx) in Hpos.
    destruct (existsb (fun b => memb c (hd [] (rk b))) (ballots q)) eqn:Eex.
    + apply existsb_exists in Eex. destruct Eex as [b [Hb Hm]]. exists b. split; [exact Hb|].
      apply (memb_In cand ceqb ceqb_spec). exact Hm.
    + exfalso. rewrite qsum_map_zero in Hpos; [exact (Qlt_irrefl _ Hpos)|].
      intros b Hb. destruct (memb c (hd [] (rk b))) eqn:Em; [|reflexivity].
      assert (existsb (fun b => memb c (hd [] (rk b))) (ballots q) = true)
        by (apply existsb_exists; exists b; split; assumption).
      congruence.
Qed.

(* ------------------------------------------------------------------ *)
(** * the re-scoring of a round: fpv of the ballots that still have a ranking *)

Definition score_profile (bs : list ballot) : profile :=
  mkProfile (filter has_ranking bs) (cast_cands (filter has_ranking bs)).

Lemma pv_scores_unfold : forall bs, pv_scores bs = first_place_votes (score_profile bs).
Proof. reflexivity. Qed.

Lemma has_ranking_iff : forall b : ballot, has_ranking b = true <-> rk b <> [].
Proof.
  intros b. unfold STV.has_ranking. destruct (rk b); cbn [nonempty]; split; try discriminate; try reflexivity.
  intros H. contradiction H. reflexivity.
Qed.

Lemma score_profile_wf : forall S bs, Forall (okb S) bs -> wf_profile (score_profile bs).
Proof.
  intros S bs Hok. unfold score_profile. split; cbn [cands ballots].
  - unfold Core.cast_cands. apply (dedup_NoDup cand ceqb ceqb_spec).
  - apply Forall_forall. intros b Hb. pose proof Hb as Hb0. apply filter_In in Hb. destruct Hb as [Hb Hr].
    rewrite Forall_forall in Hok. apply has_ranking_iff in Hr.
    destruct (okb_live _ _ (Hok b Hb) Hr) as [Hwf [Hwt Hsc]].
    eapply wf_ranking_incl; [exact Hwf|]. intros c Hc.
    apply (cast_cands_In cand ceqb ceqb_spec). exists b. split; [exact Hb0|]. split; [rewrite Hwt; reflexivity|].
    unfold Core.ballot_cands. apply in_or_app. left. exact Hc.
Qed.

Lemma score_profile_cands : forall S bs c, Forall (okb S) bs ->
  (In c (cands (score_profile bs)) <-> exists b, In b bs /\ In c (flat (rk b))).
Proof.
  intros S bs c Hok. unfold score_profile. cbn [cands]. rewrite (cast_cands_In cand ceqb ceqb_spec).
  rewrite Forall_forall in Hok. split.
  - intros [b [Hb [_ Hc]]]. apply filter_In in Hb. destruct Hb as [Hb Hr]. apply has_ranking_iff in Hr.
    destruct (okb_live _ _ (Hok b Hb) Hr) as [_ [_ Hsc]].
    unfold Core.ballot_cands in Hc. rewrite Hsc in Hc. cbn [map] in Hc. rewrite app_nil_r in Hc.
    exists b. split; assumption.
  - intros [b [Hb Hc]].
    assert (Hr : rk b <> []) by (intros E; rewrite E in Hc; destruct Hc).
    destruct (okb_live _ _ (Hok b Hb) Hr) as [_ [Hwt _]].
    exists b. split; [apply filter_In; split; [exact Hb|apply has_ranking_iff; exact Hr]|].
    split; [rewrite Hwt; reflexivity|]. unfold Core.ballot_cands. apply in_or_app. left. exact Hc.
Qed.

Lemma pv_scores_total : forall S bs, Forall (okb S) bs -> exists d, pv_scores bs = inl d.
Proof.
  intros S bs Hok. rewrite pv_scores_unfold. apply (ranked_fpv cand ceqb ceqb_spec).
  eapply score_profile_wf; exact Hok.
Qed.

Lemma pv_scores_facts : forall S bs d, Forall (okb S) bs -> pv_scores bs = inl d ->
  NoDup (map fst d) /\
  (forall c, In c (map fst d) <-> exists b, In b bs /\ In c (flat (rk b))) /\
  Forall (fun x => 0 <= snd x) d /\
  qsum (map snd d) == Qnat (nlive bs).
Proof.
  intros S bs d Hok H. rewrite pv_scores_unfold in H.
  pose proof (score_profile_wf S bs Hok) as Hwf.
  assert (Hunit : forall b, In b (ballots (score_profile bs)) -> wt b = 1).
  { intros b Hb. cbn [score_profile ballots] in Hb. apply filter_In in Hb. destruct Hb as [Hb Hr].
    apply has_ranking_iff in Hr. rewrite Forall_forall in Hok.
    destruct (okb_live _ _ (Hok b Hb) Hr) as [_ [Hwt _]]. exact Hwt. }
  destruct (fpv_unit_facts _ d Hwf Hunit H) as [Hk [Hnn [Hsum _]]].
  split; [rewrite Hk; apply Hwf|]. split; [|split; [exact Hnn|exact Hsum]].
  intros c. rewrite Hk. apply (score_profile_cands S). exact Hok.
Qed.

End Scores.
