(* Proofs/C19_graph.v — property C19, part 2: the ballot graph.  General (all n) characterisations of
   the specification functions, a boolean checker whose success implies the node/edge statements,
   its evaluation for n = 2..5 (n = 6 is in C19_graph6.v), and the loading of a profile. *)
From VK Require Import Base Core Metrics EditSpec MetricSpec.
From VK.Proofs Require Import Lib_sets Lib_rk.
From Coq Require Import Permutation Lia Lqa Setoid Morphisms.

Local Open Scope nat_scope.

(* ------------------------------------------------------------------ *)
(** * node_eqb *)

Lemma node_eqb_eq : forall a b, node_eqb a b = true <-> a = b.
Proof.
  intros a b. unfold node_eqb. destruct (list_eq_dec Nat.eq_dec a b) as [E|E]; split; congruence.
Qed.

Lemma node_eqb_refl : forall a, node_eqb a a = true.
Proof. intros a. apply node_eqb_eq. reflexivity. Qed.

Lemma node_eqb_false : forall a b, node_eqb a b = false <-> a <> b.
Proof.
  intros a b. unfold node_eqb. destruct (list_eq_dec Nat.eq_dec a b) as [E|E]; split; congruence.
Qed.

Lemma existsb_node_In : forall a l, existsb (node_eqb a) l = true <-> In a l.
Proof.
  intros a l. rewrite existsb_exists. split.
  - intros [x [Hx E]]. apply node_eqb_eq in E. subst. exact Hx.
  - intros H. exists a. split; [exact H|apply node_eqb_refl].
Qed.

Lemma existsb_node_In' : forall a l, existsb (fun x => node_eqb x a) l = true <-> In a l.
Proof.
  intros a l. rewrite existsb_exists. split.
  - intros [x [Hx E]]. apply node_eqb_eq in E. subst. exact Hx.
  - intros H. exists a. split; [exact H|apply node_eqb_refl].
Qed.

Fixpoint nodupb (l : list node) : bool :=
  match l with
  | [] => true
  | a :: l' => negb (existsb (node_eqb a) l') && nodupb l'
  end.

Lemma nodupb_NoDup : forall l, nodupb l = true -> NoDup l.
Proof.
  induction l as [|a l IH]; intros H.
  - constructor.
  - cbn [nodupb] in H. apply andb_true_iff in H. destruct H as [H1 H2]. constructor.
    + intros Hin. apply existsb_node_In in Hin. rewrite Hin in H1. discriminate.
    + apply IH. exact H2.
Qed.

(* ------------------------------------------------------------------ *)
(** * arrangements and spec_nodes, for every n *)

Lemma arrangements_In : forall m pool k,
  In k (arrangements m pool) <-> length k = m /\ NoDup k /\ incl k pool.
Proof.
  induction m as [|m IH]; intros pool k.
  - cbn [arrangements]. split.
    + intros [<-|[]]. split; [reflexivity|]. split; [constructor|intros x []].
    + intros [H _]. left. destruct k; [reflexivity|discriminate].
  - cbn [arrangements]. rewrite in_concat. split.
    + intros [l [Hl Hk]]. apply in_map_iff in Hl. destruct Hl as [x [<- Hx]].
      apply in_map_iff in Hk. destruct Hk as [k' [<- Hk']]. apply IH in Hk'.
      destruct Hk' as [Hlen [Hnd Hincl]]. split; [cbn [length]; lia|]. split.
      * constructor; [|exact Hnd]. intros Hin. apply Hincl in Hin. apply filter_In in Hin.
        destruct Hin as [_ Hin]. rewrite Nat.eqb_refl in Hin. discriminate.
      * intros y [<-|Hy]; [exact Hx|]. apply Hincl in Hy. apply filter_In in Hy. apply Hy.
    + intros [Hlen [Hnd Hincl]]. destruct k as [|x k']; [discriminate|].
      inversion Hnd as [|x' l' Hnotin Hnd']; subst.
      exists (map (cons x) (arrangements m (filter (fun y => negb (Nat.eqb x y)) pool))). split.
      * apply in_map_iff. exists x. split; [reflexivity|]. apply Hincl. left. reflexivity.
      * apply in_map. apply IH. split; [cbn [length] in Hlen; lia|]. split; [exact Hnd'|].
        intros y Hy. apply filter_In. split; [apply Hincl; right; exact Hy|].
        apply negb_true_iff. apply Nat.eqb_neq. intros ->. contradiction.
Qed.

Lemma spec_nodes_In : forall n k, In k (spec_nodes n) <-> valid_node n k.
Proof.
  intros n k. unfold spec_nodes, valid_node. rewrite in_concat. split.
  - intros [l [Hl Hk]]. apply in_map_iff in Hl. destruct Hl as [m [<- Hm]].
    apply in_seq in Hm.
    destruct (Nat.eqb m (n - 1) && negb (Nat.eqb n 1)) eqn:E; [destruct Hk|].
    apply arrangements_In in Hk. destruct Hk as [Hlen [Hnd Hincl]].
    split; [exact Hnd|]. split.
    + intros x Hx. apply Hincl in Hx. apply in_seq in Hx. lia.
    + split; [lia|]. apply andb_false_iff in E. destruct E as [E|E].
      * apply Nat.eqb_neq in E. lia.
      * apply negb_false_iff in E. apply Nat.eqb_eq in E. lia.
  - intros [Hnd [Hrange [Hlen Hne]]].
    exists (arrangements (length k) (seq 1 n)). split.
    + apply in_map_iff. exists (length k). split; [|apply in_seq; lia].
      destruct (Nat.eqb (length k) (n - 1)) eqn:E; [apply Nat.eqb_eq in E; lia|reflexivity].
    + apply arrangements_In. split; [reflexivity|]. split; [exact Hnd|].
      intros x Hx. apply in_seq. specialize (Hrange x Hx). lia.
Qed.

(* ------------------------------------------------------------------ *)
(** * is_swap, is_extension, for every n *)

Lemma swap_at_spec : forall j l c,
  swap_at j l = Some c <->
  exists pre x y r, l = pre ++ x :: y :: r /\ length pre = j /\ c = pre ++ y :: x :: r.
Proof.
  induction j as [|j IH]; intros l c.
  - split.
    + intros H. destruct l as [|x [|y r]]; cbn [swap_at] in H; try discriminate.
      injection H as <-. exists [], x, y, r. repeat split.
    + intros [pre [x [y [r [-> [Hlen ->]]]]]]. destruct pre; [|discriminate]. reflexivity.
  - split.
    + intros H. destruct l as [|x rest]; cbn [swap_at] in H; [discriminate|].
      destruct (swap_at j rest) as [r'|] eqn:E; [|discriminate]. injection H as <-.
      apply IH in E. destruct E as [pre [x' [y [r [-> [Hlen ->]]]]]].
      exists (x :: pre), x', y, r. repeat split. cbn [length]. lia.
    + intros [pre [x [y [r [-> [Hlen ->]]]]]]. destruct pre as [|z pre]; [discriminate|].
      cbn [app swap_at]. cbn [length] in Hlen.
      assert (E : swap_at j (pre ++ x :: y :: r) = Some (pre ++ y :: x :: r)).
      { apply IH. exists pre, x, y, r. repeat split. lia. }
      rewrite E. reflexivity.
Qed.

Lemma is_swap_spec : forall a b, is_swap a b = true <-> adjacent_swap a b.
Proof.
  intros a b. unfold is_swap, adjacent_swap. rewrite existsb_exists. split.
  - intros [j [_ H]]. destruct (swap_at j a) as [c|] eqn:E; [|discriminate].
    apply node_eqb_eq in H. subst c. apply swap_at_spec in E.
    destruct E as [pre [x [y [r [-> [_ ->]]]]]]. exists pre, x, y, r. split; reflexivity.
  - intros [pre [x [y [r [-> ->]]]]]. exists (length pre). split.
    + apply in_seq. rewrite app_length. cbn [length]. lia.
    + assert (E : swap_at (length pre) (pre ++ x :: y :: r) = Some (pre ++ y :: x :: r)).
      { apply swap_at_spec. exists pre, x, y, r. repeat split. }
      rewrite E. apply node_eqb_refl.
Qed.

Lemma prefix_spec : forall a b : node,
  node_eqb (firstn (length a) b) a = true <-> exists t, b = a ++ t.
Proof.
  intros a b. rewrite node_eqb_eq. split.
  - intros H. exists (skipn (length a) b). rewrite <- H at 1. symmetry. apply firstn_skipn.
  - intros [t ->]. rewrite firstn_app, Nat.sub_diag, firstn_all. cbn [firstn]. apply app_nil_r.
Qed.

Lemma is_extension_spec : forall n a b, is_extension n a b = true <-> extends_last n a b.
Proof.
  intros n a b. unfold is_extension, extends_last.
  rewrite orb_true_iff, !andb_true_iff, !Nat.eqb_eq, Nat.leb_le, !prefix_spec. split.
  - intros [[Hlen [t Ht]]|[[[Hla Hlb] Hn] Hpre]].
    + left. subst b. rewrite app_length in Hlen.
      destruct t as [|x [|y t]]; cbn [length] in Hlen; try lia. exists x. reflexivity.
    + right. repeat split; assumption.
  - intros [[x ->]|[Hla [Hlb [Hn Hpre]]]].
    + left. split; [rewrite app_length; cbn [length]; lia|]. exists [x]. reflexivity.
    + right. repeat split; assumption.
Qed.

Lemma spec_adjacent_spec : forall n a b, spec_adjacent n a b = true <-> spec_adjacent_prop n a b.
Proof.
  intros n a b. unfold spec_adjacent, spec_adjacent_prop.
  rewrite !orb_true_iff, is_swap_spec, !is_extension_spec. tauto.
Qed.

(* ------------------------------------------------------------------ *)
(** * The checker *)

Definition neighbours (es : list gedge) (a : node) : list node :=
  concat (map (fun e => if node_eqb (fst e) a then [snd e]
                        else if node_eqb (snd e) a then [fst e] else []) es).

Lemma neighbours_In : forall es a b, In b (neighbours es a) <-> In (a, b) es \/ In (b, a) es.
Proof.
  intros es a b. unfold neighbours. rewrite in_concat. split.
  - intros [l [Hl Hb]]. apply in_map_iff in Hl. destruct Hl as [[x y] [<- He]]. cbn [fst snd] in Hb.
    destruct (node_eqb x a) eqn:Ex.
    + apply node_eqb_eq in Ex. subst x. destruct Hb as [<-|[]]. left. exact He.
    + destruct (node_eqb y a) eqn:Ey; [|destruct Hb].
      apply node_eqb_eq in Ey. subst y. destruct Hb as [<-|[]]. right. exact He.
  - intros [H|H].
    + exists [b]. split; [|left; reflexivity]. apply in_map_iff. exists (a, b). split; [|exact H].
      cbn [fst snd]. rewrite node_eqb_refl. reflexivity.
    + destruct (node_eqb b a) eqn:Eb.
      * apply node_eqb_eq in Eb. subst b. exists [a]. split; [|left; reflexivity].
        apply in_map_iff. exists (a, a). split; [|exact H]. cbn [fst snd]. rewrite node_eqb_refl.
        reflexivity.
      * exists [b]. split; [|left; reflexivity]. apply in_map_iff. exists (b, a). split; [|exact H].
        cbn [fst snd]. rewrite Eb, node_eqb_refl. reflexivity.
Qed.

Definition nodes_ok (n : nat) (g : graph) : bool :=
  nodupb (g_nodes g) &&
  forallb (fun a => existsb (node_eqb a) (spec_nodes n)) (g_nodes g) &&
  forallb (fun a => existsb (node_eqb a) (g_nodes g)) (spec_nodes n).

Definition edges_ok (n : nat) (g : graph) : bool :=
  forallb (fun a => let na := neighbours (g_edges g) a in
                    forallb (fun b => Bool.eqb (existsb (node_eqb b) na) (spec_adjacent n a b))
                            (g_nodes g)) (g_nodes g) &&
  forallb (fun e => existsb (node_eqb (fst e)) (g_nodes g) && existsb (node_eqb (snd e)) (g_nodes g))
          (g_edges g).

Definition graph_ok (n : nat) (g : graph) : bool := nodes_ok n g && edges_ok n g.

Lemma nodes_ok_sound : forall n g, nodes_ok n g = true ->
  NoDup (g_nodes g) /\ forall k, In k (g_nodes g) <-> valid_node n k.
Proof.
  intros n g H. unfold nodes_ok in H. rewrite !andb_true_iff in H. destruct H as [[H1 H2] H3].
  split; [apply nodupb_NoDup; exact H1|]. intros k. rewrite <- spec_nodes_In. split.
  - intros Hk. rewrite forallb_forall in H2. apply existsb_node_In. apply H2. exact Hk.
  - intros Hk. rewrite forallb_forall in H3. apply existsb_node_In. apply H3. exact Hk.
Qed.

Lemma edges_ok_sound : forall n g, edges_ok n g = true ->
  (forall a b, In a (g_nodes g) -> In b (g_nodes g) ->
     (has_edge g a b <-> spec_adjacent_prop n a b)) /\
  (forall a b, In (a, b) (g_edges g) -> In a (g_nodes g) /\ In b (g_nodes g)).
Proof.
  intros n g H. unfold edges_ok in H. rewrite andb_true_iff in H. destruct H as [H1 H2]. split.
  - intros a b Ha Hb. rewrite forallb_forall in H1. specialize (H1 a Ha). cbv zeta in H1.
    rewrite forallb_forall in H1. specialize (H1 b Hb). apply eqb_prop in H1.
    rewrite <- spec_adjacent_spec, <- H1, existsb_node_In, neighbours_In. reflexivity.
  - intros a b He. rewrite forallb_forall in H2. specialize (H2 (a, b) He). cbn [fst snd] in H2.
    apply andb_true_iff in H2. destruct H2 as [Ha Hb].
    split; apply existsb_node_In; assumption.
Qed.

(* ------------------------------------------------------------------ *)
(** * n = 2..5 by evaluation *)

Lemma graph_ok_2 : graph_ok 2 (build_graph 2) = true.
Proof. vm_compute. reflexivity. Qed.
Lemma graph_ok_3 : graph_ok 3 (build_graph 3) = true.
Proof. vm_compute. reflexivity. Qed.
Lemma graph_ok_4 : graph_ok 4 (build_graph 4) = true.
Proof. vm_compute. reflexivity. Qed.
Lemma graph_ok_5 : graph_ok 5 (build_graph 5) = true.
Proof. vm_cast_no_check (eq_refl true). Qed.

(* ------------------------------------------------------------------ *)
(** * Loading a profile *)

Lemma NoDup_map_inj_in : forall (A B : Type) (f : A -> B) (l : list A),
  (forall x y, In x l -> In y l -> f x = f y -> x = y) -> NoDup l -> NoDup (map f l).
Proof.
  intros A B f l. induction l as [|a l IH]; intros Hinj Hnd; cbn [map].
  - constructor.
  - inversion Hnd as [|a' l' Hnotin Hnd']; subst. constructor.
    + intros Hin. apply in_map_iff in Hin. destruct Hin as [x [Hfx Hx]].
      assert (x = a) by (apply Hinj; [right; exact Hx|left; reflexivity|exact Hfx]).
      subst x. contradiction.
    + apply IH; [|exact Hnd']. intros x y Hx Hy. apply Hinj; right; assumption.
Qed.

Lemma missing_In : forall n nums m,
  In m (missing n nums) <-> 1 <= m <= n /\ ~ In m nums.
Proof.
  intros n nums m. unfold missing. rewrite filter_In, in_seq, negb_true_iff. split.
  - intros [Hr He]. split; [lia|]. intros Hin.
    assert (H : existsb (Nat.eqb m) nums = true).
    { apply existsb_exists. exists m. split; [exact Hin|apply Nat.eqb_refl]. }
    congruence.
  - intros [Hr Hn]. split; [lia|]. destruct (existsb (Nat.eqb m) nums) eqn:E; [|reflexivity].
    apply existsb_exists in E. destruct E as [x [Hx Hmx]]. apply Nat.eqb_eq in Hmx. subst x.
    contradiction.
Qed.

Lemma completed_perm : forall n nums, NoDup nums -> (forall x, In x nums -> 1 <= x <= n) ->
  Permutation (nums ++ missing n nums) (seq 1 n).
Proof.
  intros n nums Hnd Hr. apply NoDup_Permutation.
  - apply NoDup_app_intro; [exact Hnd|apply NoDup_filter; apply seq_NoDup|].
    intros x Hx Hm. apply missing_In in Hm. destruct Hm as [_ Hm]. contradiction.
  - apply seq_NoDup.
  - intros x. rewrite in_app_iff, missing_In, in_seq. split.
    + intros [H|[H _]]; [specialize (Hr x H)|]; lia.
    + intros H. destruct (in_dec Nat.eq_dec x nums) as [Hin|Hnin]; [left; exact Hin|].
      right. split; [lia|exact Hnin].
Qed.

Lemma completed_length : forall n nums, NoDup nums -> (forall x, In x nums -> 1 <= x <= n) ->
  length nums + length (missing n nums) = n.
Proof.
  intros n nums Hnd Hr. rewrite <- app_length, (Permutation_length (completed_perm n nums Hnd Hr)).
  apply seq_length.
Qed.

(* weight table *)
Lemma weight_at_cons : forall k v ws k',
  weight_at ((k, v) :: ws) k' = if node_eqb k k' then v else weight_at ws k'.
Proof.
  intros k v ws k'. unfold weight_at. cbn [find fst snd]. destruct (node_eqb k k'); reflexivity.
Qed.

Lemma weight_at_nw_add : forall acc k w k',
  (weight_at (nw_add acc k w) k' == weight_at acc k' + (if node_eqb k k' then w else 0))%Q.
Proof.
  induction acc as [|[k0 v] acc IH]; intros k w k'.
  - cbn [nw_add]. rewrite weight_at_cons. unfold weight_at. cbn [find]. destruct (node_eqb k k'); lra.
  - cbn [nw_add]. destruct (node_eqb k0 k) eqn:E.
    + apply node_eqb_eq in E. subst k0. rewrite !weight_at_cons. destruct (node_eqb k k'); lra.
    + rewrite !weight_at_cons. destruct (node_eqb k0 k') eqn:E'.
      * apply node_eqb_eq in E'. subst k0. rewrite node_eqb_sym_false; [lra|exact E].
      * apply IH.
Qed.
